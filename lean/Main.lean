import Ach.Driver.Hex
import Ach.Model.Layout
import Ach.Generated.Layouts
import Ach.Model.Mask
import Ach.Model.CreateDriver
import Ach.Model.ValidateDriver
import Ach.Model.Writer
import Ach.Model.PipelineDriver
import Ach.Model.ServerDriver
import Ach.Model.RepoDriver
import Ach.Model.IODriver
import Ach.Model.ReaderDriver
import Ach.Model.MergeDriver
import Ach.Model.FlattenDriver
import Ach.Model.SegmentDriver
import Ach.Model.ReversalDriver
import Ach.Model.FileCreateDriver
import Ach.Model.JsonDriver
import Ach.Model.ReadOnlyDriver
import Ach.Model.GoLiteDriver
/-!
`achmodel`: the executable model behind the correspondence check.  Reads one
operation per line on stdin, writes one result line per operation.
-/
open Ach Ach.Driver Ach.Gen

structure Ctx where
  layouts : List (String × Except String Layout)

def mkCtx : Ctx :=
  { layouts := (parseFacts.zip renderFacts).map fun (p, r) => (p.recName, compile p r) }

def intArg (s : String) : Option Int := s.toInt?

/-- `write <shape>`: shape = batches separated by `;`, each a `,`-separated list of addenda counts (`-` = no entries) -/
def writeShape (shape : String) : String :=
  let parseBatch (b : String) : Option Ach.Writer.WBatch :=
    if b = "-" then some ⟨[]⟩ else ((b.splitOn ",").mapM (fun (t : String) => t.toNat?.map (fun n => (⟨n⟩ : Ach.Writer.WEntry)))).map (⟨·⟩)
  let bs := if shape = "-" then some [] else (shape.splitOn ";").mapM parseBatch
  match bs with
  | none => "bad-op"
  | some bs =>
    String.ofList ((Ach.Writer.write ⟨bs⟩).map (fun k => match k with
      | .fileHeader => '1' | .batchHeader => '5' | .entry => '6' | .addenda => '7'
      | .batchControl => '8' | .fileControl => '9' | .filler => 'F'))

def step (cx : Ctx) (line : String) : String :=
  match (line.trimAscii.toString.splitOn " ") with
  | ["field", "alpha", h, n] =>
    match hexToStr h, n.toNat? with
    | some s, some k => strToHex (alphaField s k)
    | _, _ => "bad-op"
  | ["field", "string", h, n] =>
    match hexToStr h, n.toNat? with
    | some s, some k => strToHex (stringField s k)
    | _, _ => "bad-op"
  | ["field", "numeric", v, n] =>
    match intArg v, n.toNat? with
    | some v, some k => strToHex (numericField v k)
    | _, _ => "bad-op"
  | ["field", "parsenum", h] =>
    match hexToStr h with
    | some s => toString (parseNumField s)
    | none => "bad-op"
  | ["field", "trim", h] =>
    match hexToStr h with
    | some s => strToHex (trimSpace s)
    | none => "bad-op"
  | ["field", "lsd", v, n] =>
    match intArg v, n.toNat? with
    | some v, some k => toString (leastSignificantDigits v k)
    | _, _ => "bad-op"
  | ["field", "date", h] =>
    match hexToStr h with
    | some s => strToHex (validateSimpleDate s)
    | none => "bad-op"
  | ["field", "time", h] =>
    match hexToStr h with
    | some s => strToHex (validateSimpleTime s)
    | none => "bad-op"
  | ["field", "settle", h] =>
    match hexToStr h with
    | some s => strToHex (validateSettlementDate s)
    | none => "bad-op"
  | "create" :: args =>
    -- "create auto …": use the slice expression found in the source today
    (match args with
     | "auto" :: rest => (match removeStride with
        | some m => Ach.CreateDriver.run (toString m :: rest)
        | none => "nomodel")
     | _ => Ach.CreateDriver.run args)
  | "validate" :: args => Ach.ValidateDriver.run args
  | "validateiat" :: args => Ach.ValidateDriver.runIat args
  | ["write", shape] => writeShape shape
  | "reader" :: toks => Ach.ReaderSM.runLine toks
  | "merge" :: args => Ach.MergeDriver.run args
  | "flatten" :: args => Ach.FlattenDriver.run args
  | "segment" :: args => Ach.SegmentDriver.run args
  | "segmentiat" :: args => Ach.SegmentDriver.runIat args
  | "reversal" :: args => Ach.ReversalDriver.run args
  | "filecreate" :: args => Ach.FileCreate.runLine args
  | "json" :: args => Ach.JsonDriver.run args
  | "readonly" :: args => Ach.ReadOnly.runLine args
  | "recvalidate" :: args => Ach.GoLiteDriver.run args
  | "batchvalidate" :: args => Ach.GoLiteDriver.run args
  | "filevalidate" :: args => Ach.GoLiteDriver.run args
  | ["mask", "number", h] =>
    match hexToStr h with
    | some s => bytesToHex (ByteArray.mk (maskNumber s).toArray)
    | none => "bad-op"
  | ["mask", "name", h] =>
    match hexToStr h with
    | some s => bytesToHex (ByteArray.mk (maskName s).toArray)
    | none => "bad-op"
  | ["rec", name, ps, h] =>
    match cx.layouts.lookup name, hexToStr h with
    | some (.ok L), some s =>
      if s.length ≠ 94 then "skip" else
        let vs := parseRec (ps == "1") L s
        if inDomain name L vs then strToHex (renderRec L vs) else "out-of-domain"
    | some (.error _), _ => "nolayout"
    | _, _ => "bad-op"
  | _ => "bad-op"

partial def loop (cx : Ctx) (h : IO.FS.Stream) (out : IO.FS.Stream) : IO Unit := do
  let line ← h.getLine
  if line.isEmpty then return ()
  out.putStrLn (step cx line)
  loop cx h out

partial def readAll (h : IO.FS.Stream) (acc : Array String) : IO (Array String) := do
  let line ← h.getLine
  if line.isEmpty then return acc
  readAll h (acc.push (line.trimAscii.toString))

/-- `achmodel` reads operations line by line; `achmodel <stream>` for the stateful streams (repo, server, io,
pipeline) hands the whole input to that model's `runOps` -/
def main (args : List String) : IO Unit := do
  let out ← IO.getStdout
  let stdin ← IO.getStdin
  match args with
  | ["repo"] => for l in Ach.Repo.runOps (← readAll stdin #[]).toList do out.putStrLn l
  | ["server"] => for l in Ach.Server.runOps (← readAll stdin #[]).toList do out.putStrLn l
  | ["io"] => for l in Ach.IO.runOps (← readAll stdin #[]).toList do out.putStrLn l
  | ["pipeline"] => for l in Ach.Pipeline.runOps (← readAll stdin #[]).toList do out.putStrLn l
  | _ => loop mkCtx stdin out
  out.flush
