import Ach.Model.Codes
/-!
# `File.Reversal` (reversal.go)

The per-entry code switch is *interpreted from the generated table*
`sw_Reversal`: each clause's effect text is decoded into (delta, sets
hasCredits, sets hasDebits); an effect the decoder does not know makes
`revTable` return `none` and every obligation over it fail.
-/
namespace Ach
open Ach.Gen

structure RevClause where
  codes : List Int
  delta : Int
  setsCredits : Bool
  setsDebits : Bool
deriving Repr, DecidableEq

def decodeRevEffect (e : String) : Option (Int × Bool × Bool) :=
  if e = "hasDebits = true; entries[j].TransactionCode += 5" then some (5, false, true)
  else if e = "hasDebits = true; entries[j].TransactionCode += 3" then some (3, false, true)
  else if e = "hasCredits = true; entries[j].TransactionCode -= 5" then some (-5, true, false)
  else if e = "hasCredits = true; entries[j].TransactionCode -= 3" then some (-3, true, false)
  else if e = "hasDebits = true; entries[j].TransactionCode -= 5" then some (-5, false, true)
  else if e = "hasDebits = true; entries[j].TransactionCode -= 3" then some (-3, false, true)
  else if e = "hasCredits = true; entries[j].TransactionCode += 5" then some (5, true, false)
  else if e = "hasCredits = true; entries[j].TransactionCode += 3" then some (3, true, false)
  else none

def revClauses : List Clause → Option (List RevClause)
  | [] => some []
  | c :: cs =>
    match decodeRevEffect c.effect, revClauses cs with
    | some (d, cr, db), some rest => some (⟨c.ivals, d, cr, db⟩ :: rest)
    | _, _ => none

/-- the switch of `File.Reversal`, decoded; `none` if its shape is not the expected one -/
def revTable : Option (List RevClause) :=
  match sw_Reversal with
  | [s] => if s.tag = "entries[j].TransactionCode" && !s.hasDflt then revClauses s.clauses else none
  | _ => none

/-- Go `switch`: the first clause listing the code wins; no clause ⇒ entry untouched -/
def revLookup : List RevClause → Int → Option RevClause
  | [], _ => none
  | c :: cs, code => if c.codes.contains code then some c else revLookup cs code

/-- what the switch does to one transaction code: (new code, hasCredits set, hasDebits set) -/
def reverseCode (tbl : List RevClause) (code : Int) : Int × Bool × Bool :=
  match revLookup tbl code with
  | some c => (code + c.delta, c.setsCredits, c.setsDebits)
  | none => (code, false, false)

structure REntry where
  code : Int
  amount : Int
  account : List Char
  trace : List Char
deriving Repr, DecidableEq

structure RBatch where
  serviceClass : Int
  description : List Char
  effectiveDate : List Char
  entries : List REntry
  ctlDebit : Int
  ctlCredit : Int
  ctlServiceClass : Int
deriving Repr, DecidableEq

def serviceClassFor (hasCredits hasDebits : Bool) (old : Int) : Int :=
  if hasCredits && hasDebits then K.MixedDebitsAndCredits
  else if hasDebits then K.DebitsOnly
  else if hasCredits then K.CreditsOnly
  else old

/-- the loop body of `File.Reversal` for one batch (before `build`/`Create` re-tabulate) -/
def reverseBatch (tbl : List RevClause) (date : List Char) (b : RBatch) : RBatch :=
  let rs := b.entries.map (fun e => reverseCode tbl e.code)
  let hasC := rs.any (fun r => r.2.1)
  let hasD := rs.any (fun r => r.2.2)
  let sc := serviceClassFor hasC hasD b.serviceClass
  let scCtl := serviceClassFor hasC hasD b.ctlServiceClass
  { serviceClass := sc, description := "REVERSAL".toList, effectiveDate := date,
    entries := b.entries.map (fun e => { e with code := (reverseCode tbl e.code).1 }),
    ctlDebit := b.ctlCredit, ctlCredit := b.ctlDebit, ctlServiceClass := scCtl }

/-- the codes the property quantifies over: every standard entry code that has
an opposite-direction counterpart, i.e. all but loan prenote 53 and loan zero-dollar 54 -/
def reversibleCodes : List Int := standardEntryCodes.filter (fun c => c ≠ 53 && c ≠ 54)

def sumWhere (p : Int → Bool) (es : List REntry) : Int :=
  (es.filter (fun e => p e.code)).foldl (fun acc e => acc + e.amount) 0

end Ach
