import Ach.Facts
import Ach.Generated.Consts
import Ach.Generated.Tables
/-!
# Transaction-code tables, as the Go source states them today

All lists are read out of the generated switch tables; nothing is restated by
hand except `creditOrDebit`, which mirrors `EntryDetail.CreditOrDebit`
(second decimal digit 1–4 ⇒ credit, 5–9 ⇒ debit) and is tied to the generated
case list by `Props.Tables.creditOrDebit_table`.
-/
namespace Ach
open Ach.Gen

/-- codes of clause `j` of the `i`-th switch of a generated table -/
def clauseCodes (sw : List Switch) (i j : Nat) : List Int :=
  match sw[i]? with
  | some s => match s.clauses[j]? with
    | some c => c.ivals
    | none => []
  | none => []

def clauseEffect (sw : List Switch) (i j : Nat) : String :=
  match sw[i]? with
  | some s => match s.clauses[j]? with
    | some c => c.effect
    | none => ""
  | none => ""

/-- `StandardTransactionCode` accepts exactly these -/
def standardCodes : List Int := clauseCodes sw_StandardTransactionCode 0 0
/-- `Batch.calculateBatchAmounts`: codes summed into the credit total / the debit total -/
def creditCodes : List Int := clauseCodes sw_calculateBatchAmounts 0 0
def debitCodes : List Int := clauseCodes sw_calculateBatchAmounts 0 1
def iatCreditCodes : List Int := clauseCodes sw_iatCalculateBatchAmounts 0 0
def iatDebitCodes : List Int := clauseCodes sw_iatCalculateBatchAmounts 0 1
def advCreditCodes : List Int := clauseCodes if_calculateADVBatchAmounts 0 0
def advDebitCodes : List Int := clauseCodes if_calculateADVBatchAmounts 1 0
def segCreditCodes : List Int := clauseCodes sw_segmentFileBatchAddEntry 0 0
def segDebitCodes : List Int := clauseCodes sw_segmentFileBatchAddEntry 0 1
def segIatCreditCodes : List Int := clauseCodes sw_segmentFileIATBatches 1 0
def segIatDebitCodes : List Int := clauseCodes sw_segmentFileIATBatches 1 1
def segAdvCreditCodes : List Int := clauseCodes sw_segmentFileBatchAddADVEntry 0 0
def segAdvDebitCodes : List Int := clauseCodes sw_segmentFileBatchAddADVEntry 0 1
def prenoteCodes : List Int := clauseCodes sw_isPrenote 0 0

inductive Dir where
  | credit | debit | neither
deriving Repr, DecidableEq

/-- `EntryDetail.CreditOrDebit`: "C", "D" or "" -/
def creditOrDebit (code : Int) : Dir :=
  if code < 10 || code > 99 then .neither
  else
    let d := code % 10
    if 1 ≤ d && d ≤ 4 then .credit
    else if 5 ≤ d && d ≤ 9 then .debit
    else .neither

/-- the standard (non-ADV) two-digit codes: 21..56 -/
def standardEntryCodes : List Int := standardCodes.filter (fun c => c < 80)

end Ach
