/-!
# `MergeFiles` (merge.go): `outFile.add`, `pickOutFile`, `findOutBatch`, `convertToFiles`

Entries are abstract: a trace number (the key of the per-batch ordered map — any type with decidable equality and a
total order; here `Nat` ranks), the number of lines the entry occupies (1 + addenda), its amount, and an opaque
payload standing for everything else (accounts, addenda, …).  A batch header is reduced to the key that
`BatchHeader.Equal` compares; a file header to its (origin, destination) route.
-/
namespace Ach.Merge

structure Entry where
  trace : Nat
  lines : Nat
  amount : Int
  payload : Nat
deriving DecidableEq, Repr

abbrev HKey := Nat      -- what BatchHeader.Equal compares (service class, name (case-folded), id, SEC, description, date, ODFI)
abbrev Route := Nat × Nat  -- (ImmediateOrigin, ImmediateDestination)

structure InBatch where
  key : HKey
  entries : List Entry
deriving DecidableEq, Repr

structure InFile where
  route : Route
  batches : List InBatch
deriving DecidableEq, Repr

structure OutBatch where
  key : HKey
  entries : List Entry    -- the ordered map: sorted by trace, traces unique
deriving DecidableEq, Repr

structure OutFile where
  route : Route
  batches : List OutBatch
deriving DecidableEq, Repr

/-- `treemap.Set(trace, entry)` on the sorted list -/
def insertSorted (e : Entry) : List Entry → List Entry
  | [] => [e]
  | x :: xs => if e.trace < x.trace then e :: x :: xs
               else if e.trace = x.trace then e :: xs   -- Set overwrites an equal key
               else x :: insertSorted e xs

def contains (t : Nat) (es : List Entry) : Bool := es.any (·.trace = t)

/-- `findOutBatch` + `Set`: first batch with an equal header that does not hold the trace; else a new batch at the end -/
def place (k : HKey) (e : Entry) : List OutBatch → List OutBatch
  | [] => [⟨k, [e]⟩]
  | b :: bs => if b.key = k && !contains e.trace b.entries then ⟨b.key, insertSorted e b.entries⟩ :: bs
               else b :: place k e bs

def placeAll (k : HKey) (es : List Entry) (bs : List OutBatch) : List OutBatch := es.foldl (fun acc e => place k e acc) bs

def addBatches (ibs : List InBatch) (bs : List OutBatch) : List OutBatch :=
  ibs.foldl (fun acc ib => placeAll ib.key ib.entries acc) bs

/-- `pickOutFile` + the body of `outFile.add`: the linked list of out-files, matched by route, appended when new -/
def addFile (f : InFile) : List OutFile → List OutFile
  | [] => [⟨f.route, addBatches f.batches []⟩]
  | o :: os => if o.route = f.route then ⟨o.route, addBatches f.batches o.batches⟩ :: os else o :: addFile f os

/-- `MergeFilesWith`'s accumulation over all inputs -/
def addFiles (fs : List InFile) (st : List OutFile) : List OutFile := fs.foldl (fun acc f => addFile f acc) st

/-- every (route, header key, entry) triple held -/
def triplesOut (st : List OutFile) : List (Route × HKey × Entry) :=
  st.flatMap (fun o => o.batches.flatMap (fun b => b.entries.map (fun e => (o.route, b.key, e))))

def triplesIn (fs : List InFile) : List (Route × HKey × Entry) :=
  fs.flatMap (fun f => f.batches.flatMap (fun b => b.entries.map (fun e => (f.route, b.key, e))))

/-! ## convertToFiles -/

structure Cond where
  maxLines : Nat      -- 0 = no limit
  maxDollars : Int    -- already forced into (0, NachaFileDebitCreditLimit]
deriving Repr

/-- a written batch / file: just the entries, in order -/
abbrev WBatch := HKey × List Entry
abbrev WFile := List WBatch

structure CState where
  out : List WFile          -- files closed so far
  file : WFile              -- batches closed in the current file
  batch : List Entry        -- entries of the current batch
  lines : Nat               -- currentFileLineCount
  dollars : Int             -- currentFileDollarAmount

def closeBatch (k : HKey) (s : CState) : CState :=
  if s.batch.isEmpty then s else { s with file := s.file ++ [(k, s.batch)], batch := [] }

def closeFile (s : CState) : CState :=
  if s.file.isEmpty then s else { s with out := s.out ++ [s.file], file := [] }

/-- one entry of the inner loop of `convertToFiles` -/
def stepEntry (c : Cond) (k : HKey) (s : CState) (e : Entry) : CState :=
  let overflow := (c.maxLines > 0 && s.lines + e.lines > c.maxLines) || (c.maxDollars > 0 && s.dollars + e.amount > c.maxDollars)
  let s1 := if overflow then
      let s' := closeFile (closeBatch k s)
      { s' with lines := 4, dollars := 0 }
    else s
  { s1 with batch := s1.batch ++ [e], lines := s1.lines + e.lines, dollars := s1.dollars + e.amount }

def stepBatch (c : Cond) (s : CState) (b : OutBatch) : CState :=
  closeBatch b.key (b.entries.foldl (stepEntry c b.key) { s with lines := s.lines + 2 })

/-- the files produced for one out-file (one route) -/
def convertOne (c : Cond) (o : OutFile) : List WFile :=
  (closeFile (o.batches.foldl (stepBatch c) ⟨[], [], [], 2, 0⟩)).out

def convert (c : Cond) (st : List OutFile) : List (Route × WFile) :=
  st.flatMap (fun o => (convertOne c o).map (fun f => (o.route, f)))

def wfileEntries (f : WFile) : List Entry := f.flatMap (·.2)
def wfileLines (f : WFile) : Nat := 2 + (f.map (fun b => 2 + (b.2.map (·.lines)).sum)).sum
def wfileDollars (f : WFile) : Int := (wfileEntries f).foldl (fun acc e => acc + e.amount) 0

end Ach.Merge
