import Ach.Model.Pipeline
import Ach.Generated.Pipeline
/-!
Line protocol of the `pipeline` correspondence stream (`Ach.Pipeline.runOps`, one output line per input line).

`walk <subdirs:0|1> <tree>`
  `<tree>` is the listing of the directory handed to MergeDir, without blanks: `name(child,child,…)` is a directory,
  any other token is a regular file; the name before the outermost `(` is ignored (the root is ".").  Children must
  be written in the order `ReadDir` returns them (sorted by name); `d()` is an empty directory.
  Example: `root(a.ach,b.txt,d(c.ach),e.ach)`.
  Output: `ok <paths> <osdirs>` — the paths `walkDir` sends on `discoveredPaths`, in order, joined by `,` (`-` if
  none), under the sub-directory behaviour found in the source today (`Gen.walkSubdir`); then the directories on
  which `walkDir` falls back to `os.ReadDir` because the fs.FS listing was empty (`-` if none).
`walkas <beh> <subdirs:0|1> <tree>`  same with the behaviour given explicitly
  (`return-recursive-call` | `recurse-check-err-continue`).
`pipe <wc:0|1> <sc:0|1> <gc:0|1> <workers> <files> <schedule>`
  runs a schedule of the pipeline LTS.  `<files>` = one letter per walked path, `g` accepted and parseable, `b`
  accepted but unparseable, `s` skipped (`-` = no path; file ids are positions 0,1,…); `<schedule>` = labels joined
  by `,`: `s<i>` send to worker i, `p<i>` parse, `d<i>` deliver, `x<i>` worker exit, `a<i>` worker abort,
  `wf` walker finish, `wa<k>` walker abandons its send and skips k further paths, `mf` merger finish (`-` = empty
  schedule).
  Output: `<status> <result> seed=<id|-> enabled=<n>` with status `terminal` | `stuck` | `running`, result `err` or
  `ok:<ids in merge order joined by ,>`; or `disabled <k>` when the k-th label (from 0) is not enabled.
Anything else: `bad-op`.
-/
namespace Ach.Pipeline

/-- `DefaultFileAcceptor` (merge.go:163-172) on a file name -/
def kindOfName (name : String) : Kind :=
  let cs := name.toList
  if !cs.contains '.' then .accept
  else
    let ext := String.ofList ((cs.reverse.takeWhile (· ≠ '.')).reverse.map Char.toLower)
    if ext = "ach" || ext = "txt" then .accept else if ext = "json" then .json else .skip

structure PSt where
  tok : List Char
  stack : List (String × List Node)
  done : Option Node
  bad : Bool

def tokStr (st : PSt) : String := String.ofList st.tok.reverse

def flushTok (st : PSt) : PSt :=
  if st.tok.isEmpty then st
  else match st.stack with
    | (n, kids) :: rest => { st with tok := [], stack := (n, Node.file (tokStr st) (kindOfName (tokStr st)) true :: kids) :: rest }
    | [] => { st with bad := true }

def pstep (st : PSt) (c : Char) : PSt :=
  if st.done.isSome then { st with bad := true }
  else if c = '(' then { st with tok := [], stack := (tokStr st, []) :: st.stack }
  else if c = ',' then flushTok st
  else if c = ')' then
    let st := flushTok st
    match st.stack with
    | (n, kids) :: (m, up) :: rest => { st with stack := (m, Node.dir n kids.reverse :: up) :: rest }
    | [(n, kids)] => { st with stack := [], done := some (Node.dir n kids.reverse) }
    | [] => { st with bad := true }
  else { st with tok := c :: st.tok }

/-- the children of the root directory -/
def parseTree (s : String) : Option (List Node) :=
  let st := s.toList.foldl pstep ⟨[], [], none, false⟩
  match st.bad, st.done with
  | false, some (.dir _ kids) => some kids
  | _, _ => none

def showList (l : List String) : String := if l.isEmpty then "-" else ",".intercalate l

def runWalk (beh : SubdirBeh) (sub tree : String) : String :=
  match parseTree tree with
  | some items =>
    let subdirs := sub == "1"
    s!"ok {showList ((walkItems subdirs beh "." items).map (·.path))} {showList (osFallbackDirs subdirs beh "." items)}"
  | none => "bad-op"

def parseFiles (s : String) : Option (List PFile) :=
  if s = "-" then some [] else
  (s.toList.zipIdx).mapM (fun (c, i) =>
    if c = 'g' then some ⟨i, true, true⟩ else if c = 'b' then some ⟨i, true, false⟩
    else if c = 's' then some ⟨i, false, true⟩ else none)

def parseLabel (s : String) : Option Label :=
  if s = "wf" then some .walkerFinish else if s = "mf" then some .mergerFinish
  else if s.startsWith "wa" then ((s.drop 2).toString.toNat?).map .walkerAbort
  else match s.toList with
    | c :: ds =>
      match (String.ofList ds).toNat? with
      | some i =>
        if c = 's' then some (.send i) else if c = 'p' then some (.parse i) else if c = 'd' then some (.deliver i)
        else if c = 'x' then some (.workerExit i) else if c = 'a' then some (.workerAbort i) else none
      | none => none
    | [] => none

/-- run the schedule; `Sum.inl k` = label `k` was not enabled -/
def runSchedule (P : Params) : St → Nat → List Label → Nat ⊕ St
  | s, _, [] => .inr s
  | s, k, l :: ls => match next P s l with
    | some t => runSchedule P t (k + 1) ls
    | none => .inl k

def showSt (P : Params) (s : St) : String :=
  let en := (enabled P s).length
  let status := if terminal s then "terminal" else if en = 0 then "stuck" else "running"
  let res := match result s with
    | none => "err"
    | some ids => "ok:" ++ ",".intercalate (ids.map toString)
  let seed := match s.seed with
    | none => "-"
    | some f => toString f
  s!"{status} {res} seed={seed} enabled={en}"

def runPipe (wc sc gc n files sched : String) : String :=
  let labels := if sched = "-" then some [] else (sched.splitOn ",").mapM parseLabel
  match n.toNat?, parseFiles files, labels with
  | some n, some paths, some ls =>
    match runSchedule ⟨wc == "1", sc == "1", gc == "1"⟩ (init n paths) 0 ls with
    | .inr s => showSt ⟨wc == "1", sc == "1", gc == "1"⟩ s
    | .inl k => s!"disabled {k}"
  | _, _, _ => "bad-op"

def runOp (line : String) : String :=
  match line.trimAscii.toString.splitOn " " with
  | ["walk", sub, tree] => runWalk (subdirBehOf Gen.walkSubdir) sub tree
  | ["walkas", beh, sub, tree] => runWalk (subdirBehOf beh) sub tree
  | ["pipe", wc, sc, gc, n, files, sched] => runPipe wc sc gc n files sched
  | _ => "bad-op"

def runOps (lines : List String) : List String := lines.map runOp

end Ach.Pipeline
