import Ach.Model.Reversal
import Ach.Driver.Hex
/-!
Line protocol of the `reversal` correspondence stream (`Ach.reverseBatch` over the decoded switch `Ach.revTable`
vs the real `(*File).Reversal(effectiveEntryDate)` on files of standard batches).

`reversal <dateHex> <B>|<B>|…`   dateHex = hex of `effectiveEntryDate.Format("060102")`; the batches in file order
   B = `<sc>:<descHex>:<effHex>:<ctlDebit>:<ctlCredit>:<ctlSc>:<built>:<E>/<E>/…` (or `…:-` for no entries)
       header service class, header CompanyEntryDescription, header EffectiveEntryDate, control total debit, control
       total credit, control service class — all before the call; `built` = 1 when the batch's dynamic type is `*ach.Batch`
       (the only case in which `Reversal` calls `build()`, which re-tabulates the control totals), else 0
   E = `<code>,<amount>,<accountHex>,<traceHex>`   TransactionCode, Amount, DFIAccountNumber, TraceNumber
`reversal -`                    the Go side skipped the case (the real call returned an error); answer `-`

answer: `<B'>|<B'>|…`, B' = `<sc>:<descHex>:<effHex>:<ctlDebit>:<ctlCredit>:<ctlSc>:<E>/<E>/…` from `reverseBatch`;
        with `built` = 1 the two control totals are printed as `*` (the model describes the loop body before `build`).
`nomodel` when `revTable` is `none` (the switch in reversal.go no longer has the decoded shape).
hex: `-` is the empty string (see `Ach.Driver.Hex`).  Anything malformed: `bad-op`.
-/
namespace Ach.ReversalDriver
open Ach Ach.Driver

def parseEntry (s : String) : Option REntry :=
  match s.splitOn "," with
  | [c, a, acct, tr] => match c.toInt?, a.toInt?, hexToStr acct, hexToStr tr with
    | some c, some a, some acct, some tr => some ⟨c, a, acct, tr⟩
    | _, _, _, _ => none
  | _ => none

/-- a batch and its `built` flag -/
def parseBatch (s : String) : Option (RBatch × Bool) :=
  match s.splitOn ":" with
  | [sc, desc, eff, cd, cc, csc, built, es] =>
    match sc.toInt?, hexToStr desc, hexToStr eff, cd.toInt?, cc.toInt?, csc.toInt?,
          (if built = "0" then some false else if built = "1" then some true else none),
          (if es = "-" then some [] else (es.splitOn "/").mapM parseEntry) with
    | some sc, some desc, some eff, some cd, some cc, some csc, some built, some es =>
      some ({ serviceClass := sc, description := desc, effectiveDate := eff, entries := es, ctlDebit := cd, ctlCredit := cc, ctlServiceClass := csc }, built)
    | _, _, _, _, _, _, _, _ => none
  | _ => none

def showEntry (e : REntry) : String := s!"{e.code},{e.amount},{strToHex e.account},{strToHex e.trace}"

def showBatch (b : RBatch) (built : Bool) : String :=
  let tot := if built then "*:*" else s!"{b.ctlDebit}:{b.ctlCredit}"
  s!"{b.serviceClass}:{strToHex b.description}:{strToHex b.effectiveDate}:{tot}:{b.ctlServiceClass}:" ++
    (if b.entries.isEmpty then "-" else "/".intercalate (b.entries.map showEntry))

def run (args : List String) : String :=
  match args with
  | ["-"] => "-"
  | [date, bs] =>
    match revTable, hexToStr date, (bs.splitOn "|").mapM parseBatch with
    | none, _, _ => "nomodel"
    | some tbl, some date, some bs => "|".intercalate (bs.map (fun p => showBatch (reverseBatch tbl date p.1) p.2))
    | _, _, _ => "bad-op"
  | _ => "bad-op"

end Ach.ReversalDriver
