import Ach.Model.IO
import Ach.Generated.Sites
/-!
Line protocol of the `io` correspondence stream (C16).  One output line per input line.

`write <mode> <k> <cap> <len1,len2,…> [<endingLen>]`
  * `mode` ∈ `hard` | `short` | `shortErr`; the underlying writer accepts `k` bytes in total, then on the write that
    crosses the budget takes what still fits and returns `(room, injected)` / `(room, nil)` / `(room, io.ErrShortWrite)`,
    and `(0, …)` afterwards;
  * `cap`: size of the `bufio.Writer` (4096 for `ach.NewWriter`);
  * `len_i`: byte length of the i-th `String()` handed to `writeLine`, in emission order (first = file header, last =
    file control; `0` = nil entry / empty string, skipped); `endingLen`: length of `LineEnding` (default 1).
    The nines padding (94 bytes + ending per line) is added by the model from the number of non-empty lines.
  * answer: `ok <delivered>` — `Write` returned nil, or `err <delivered> <injected|short>` — `Write` returned the
    injected error / `io.ErrShortWrite`; `delivered` = bytes the underlying writer has accepted when `Write` returns.
  The error-handling policy (which results are checked, `return w.w.Flush()`) is `policyOf Ach.Gen.ioFuncs`.

`bufio <mode> <k> <cap> <op,op,…>` — the `bufio.Writer` contract alone (`bufio.NewWriterSize(faulty, cap)`)
  * `op` = `w<len>` (`WriteString` of `len` bytes) or `f` (`Flush`);
  * answer: `<r1>,<r2>,… <delivered> <buffered>` with `r_i` ∈ `ok` | `injected` | `short` the error result of the i-th
    call, `delivered` as above and `buffered` = `Buffered()` at the end.

`read <k> <total> [<kind> [<chunk>]]`
  * the underlying reader holds `total` bytes; if `k ≤ total` it fails with `kind` ∈ `other` (default) | `ueof`
    (`io.ErrUnexpectedEOF`) | `eof` after delivering `k` bytes (persistently); `chunk` > 0 caps the bytes per `Read` call;
  * answer: `ok <bytes>` (no I/O error reported; `bytes` reached the line parser), `err scanner <bytes>` (`Read`
    returned the injected error from `scanner.Err()`), `err nilscanner` (`Read` returned "nil scanner").
    Parse/validation errors of the real `Read` on a truncated text are not I/O errors: the Go side must classify the
    returned error by identity (`errors.Is(err, injected)`) or message (`nil scanner`).
-/
namespace Ach.IO

def parseLens (s : String) : Option (List Nat) :=
  (s.splitOn ",").mapM (·.toNat?)

def parseMode : String → Option Mode
  | "hard" => some .hard | "short" => some .short | "shortErr" => some .shortErr | _ => none

def unitLine (n : Nat) : List Unit := List.replicate n ()

def mkFile : List Nat → Option (WFile Unit)
  | [] => none
  | [h] => some { header := unitLine h, batches := [], iat := [], control := [] }
  | h :: rest => some {
      header := unitLine h,
      batches := rest.dropLast.map unitLine,
      iat := [],
      control := unitLine (rest.getLast?.getD 0) }

def showWErr : WErr → String
  | .injected => "injected" | .shortWrite => "short"

def runWrite (mode : Mode) (k cap : Nat) (lens : List Nat) (endingLen : Nat) : String :=
  match mkFile lens with
  | none => "bad-op"
  | some f =>
    let cfg : Cfg Unit := { ending := unitLine endingLen, padLine := unitLine 94 }
    let r := write (policyOf Gen.ioFuncs) cfg f (newWriter cap { mode := mode, room := k, got := [] })
    match r.2 with
    | none => s!"ok {r.1.bw.wr.got.length}"
    | some e => s!"err {r.1.bw.wr.got.length} {showWErr e}"

def runBufio (b : BW Unit) : List String → List String → Option String
  | [], acc => some s!"{",".intercalate acc.reverse} {b.wr.got.length} {b.buf.length}"
  | op :: ops, acc =>
    let r? := if op = "f" then some b.flush
      else if op.startsWith "w" then ((op.drop 1).toString.toNat?).map (fun n => b.writeString (unitLine n)) else none
    match r? with
    | none => none
    | some r => runBufio r.1 ops ((match r.2 with | none => "ok" | some e => showWErr e) :: acc)

def parseKind : String → Option RErr
  | "other" => some .other | "ueof" => some .unexpectedEOF | "eof" => some .eof | _ => none

def runRead (k total : Nat) (e : RErr) (chunk : Nat) : String :=
  match readFile (checksScannerErr Gen.ioFuncs) { total := total, k := k, e := e, chunk := chunk } with
  | .ok n => s!"ok {n}"
  | .errNilScanner => "err nilscanner"
  | .errScan _ n => s!"err scanner {n}"
  | .errTooLong => "err toolong"

def runOp (line : String) : String :=
  match (line.trimAscii.toString.splitOn " ").filter (· ≠ "") with
  | "write" :: m :: k :: cap :: lens :: rest =>
    match parseMode m, k.toNat?, cap.toNat?, parseLens lens, (rest.head?.getD "1").toNat? with
    | some m, some k, some cap, some lens, some el => if cap = 0 then "bad-op" else runWrite m k cap lens el
    | _, _, _, _, _ => "bad-op"
  | ["bufio", m, k, cap, ops] =>
    match parseMode m, k.toNat?, cap.toNat? with
    | some m, some k, some cap =>
      if cap = 0 then "bad-op" else
      (runBufio { cap := cap, buf := [], err := none, wr := { mode := m, room := k, got := [] } } (ops.splitOn ",") []).getD "bad-op"
    | _, _, _ => "bad-op"
  | "read" :: k :: total :: rest =>
    match k.toNat?, total.toNat?, parseKind (rest.head?.getD "other"), ((rest.drop 1).head?.getD "0").toNat? with
    | some k, some total, some e, some chunk => runRead k total e chunk
    | _, _, _, _ => "bad-op"
  | _ => "bad-op"

def runOps (lines : List String) : List String := lines.map runOp

end Ach.IO
