/-!
# The Reader's record dispatcher (reader.go `parseLine` and everything it calls, and the tail of `Read`)

`Reader.Read` hands every non-blank 94-column line to `parseLine`, which switches on the first column and mutates the
Reader: the file header / control seen so far, the current standard-or-ADV batch (`currentBatch`), the current IAT
batch (`IATCurrentBatch`), the batches already accumulated into the file, and the error list (`Read` *continues* after
an error).  This file models exactly that state machine.

A 94-column line is reduced to what the dispatcher looks at (`Rec`): its first column (the constructor), for a batch
header whether `parseBH` takes the IAT branch and whether the SEC code is ADV, for an entry the addenda record indicator
(column 79 in all three entry layouts), for an addenda record the slot its type code (columns 2-3, and 4-6 for 98/99)
selects in a standard entry and in an IAT entry, for a `9` record whether it starts with `99` (blocking filler).  The
outcome of every `maybeValidate(record)` call is an input, kept apart from the record (`Bits`: one flag per record type
the line may be parsed as), and so is the outcome of `maybeValidate(batch)` when a batch control closes a batch (`b`).
`id` is an opaque payload — the line itself; the driver uses the line number, which the real Reader stores in every
record's `LineNumber`.

Quirks mirrored on purpose (each is exercised by the `reader` correspondence stream):
* a record that fails validation is parsed but not attached (entries, addenda, batch headers), except controls and the
  file header, which are parsed *into* the file / batch before they are validated;
* a new batch header does not close a pending IAT batch, and while `IATCurrentBatch.Header != nil` every entry is
  parsed as an IAT entry, even inside a standard batch;
* `len(currentBatch.GetEntries()) == 0` is always true for an ADV batch, so a batch header after an unclosed ADV batch
  is "consecutive batch headers";
* an addenda record whose type code selects no slot is dropped silently;
* a batch control with no current standard batch and no IAT *entries* is "outside batch", also right after an IAT header;
* at the end a lingering standard batch is added to the file, a lingering IAT batch is lost;
* `File.IsADV()` (some accumulated batch is ADV) selects which of `Control` / `ADVControl` a `9` record is parsed into.
-/
namespace Ach.ReaderSM

inductive BKind where
  | std | adv | iat
deriving DecidableEq, Repr

/-- where an addenda record lands in its entry: `rank` = position in the Writer's emission order,
`multi` = appended to a slice (Addenda05 / 17 / 18) rather than assigned to a pointer field -/
structure Slot where
  rank : Nat
  multi : Bool
deriving DecidableEq, Repr

inductive Rec where
  | fh (id : Nat)
  | bh (kind : BKind) (id : Nat)
  | ed (ind : Bool) (id : Nat)
  | ad (stdSlot iatSlot : Option Slot) (id : Nat)
  | bc (id : Nat)
  | fc (id : Nat)
  | filler
  | unknown (id : Nat)
deriving DecidableEq, Repr

/-- outcomes of the validations the Reader runs on a record, by the type it parses the line as:
file header `v1`; batch header `v1` (`BatchHeader.Validate`), `v2` (`NewBatch` succeeds), `v3` (`IATBatchHeader.Validate`);
entry and addenda `v1` standard / `v2` ADV / `v3` IAT; batch control `v1` (`BatchControl`), `v2` (`ADVBatchControl`),
`b` (the batch it closes validates); file control `v1` (`FileControl`), `v2` (`ADVFileControl`) -/
structure Bits where
  v1 : Bool
  v2 : Bool
  v3 : Bool
  b : Bool
deriving DecidableEq, Repr

def Bits.all : Bits := ⟨true, true, true, true⟩

inductive Err where
  | dupHeader | consecutiveBH | recInvalid | newBatch | entryOutside | addendaOutsideEntry
  | indicator | bcOutside | batchInvalid | dupControl | unknownType | missingHeader | missingControl
deriving DecidableEq, Repr

structure TEntry where
  line : Rec
  ind : Bool
  addenda : List (Slot × Rec)
deriving DecidableEq, Repr

structure TBatch where
  kind : BKind
  header : Rec
  entries : List TEntry
  control : Option Rec
deriving DecidableEq, Repr

/-- the Reader: `File.Header`, `File.Control`, `File.ADVControl`, `File.Batches`, `File.IATBatches`,
`currentBatch`, `IATCurrentBatch` (`none` = `Header == nil`), `errors` -/
structure St where
  header : Option Rec
  control : Option Rec
  advControl : Option Rec
  batches : List TBatch
  iatBatches : List TBatch
  cur : Option TBatch
  iat : Option TBatch
  errs : List Err
deriving DecidableEq, Repr

def init : St := ⟨none, none, none, [], [], none, none, []⟩

def St.err (s : St) (e : Err) : St := { s with errs := s.errs ++ [e] }

/-- slot assignment inside an entry, kept in Writer order: a pointer field is overwritten, a slice is appended to -/
def attach (sl : Slot) (r : Rec) : List (Slot × Rec) → List (Slot × Rec)
  | [] => [(sl, r)]
  | (sl', r') :: rest =>
    if sl.rank < sl'.rank then (sl, r) :: (sl', r') :: rest
    else if sl.rank = sl'.rank && !sl.multi then (sl, r) :: rest
    else (sl', r') :: attach sl r rest

/-- `entries[len-1].AddendaXX = …` -/
def attachLast (sl : Slot) (r : Rec) : List TEntry → List TEntry
  | [] => []
  | [e] => [{ e with addenda := attach sl r e.addenda }]
  | e :: es => e :: attachLast sl r es

def addEntry (b : TBatch) (r : Rec) (ind : Bool) : TBatch := { b with entries := b.entries ++ [⟨r, ind, []⟩] }

/-- `File.IsADV()` -/
def isADV (bs : List TBatch) : Bool := bs.any (·.kind == .adv)

/-- the ADV addenda slot (Addenda99 of an ADVEntryDetail) -/
def advSlot : Slot := ⟨0, false⟩

/-- `parseAddenda` / `parseADVAddenda` / `parseIATAddenda` on the batch that `parseEDAddenda` selected -/
def addendaInto (b : TBatch) (slot : Option Slot) (ok : Bool) (r : Rec) : Except Err TBatch :=
  match b.entries.getLast? with
  | none => .error .addendaOutsideEntry
  | some e =>
    if !e.ind then .error .indicator
    else match slot with
      | none => .ok b
      | some sl => if ok then .ok { b with entries := attachLast sl r b.entries } else .error .recInvalid

/-- `parseLine`, case `5`: accumulate a pending standard / ADV batch before parsing another batch header -/
def closePending (s : St) : Except Err St :=
  match s.cur with
  | none => .ok s
  | some b => if b.kind == .adv || b.entries.isEmpty then .error .consecutiveBH
              else .ok { s with batches := s.batches ++ [b], cur := none }

/-- one `parseLine` -/
def step (s : St) (r : Rec) (v : Bits) : St :=
  match r with
  | .fh _ =>
    match s.header with
    | some _ => s.err .dupHeader
    | none => let s' := { s with header := some r }; if v.v1 then s' else s'.err .recInvalid
  | .bh kind _ =>
    match closePending s with
    | .error e => s.err e
    | .ok s1 =>
      if kind == .iat then
        if v.v3 then { s1 with iat := some ⟨.iat, r, [], none⟩ } else s1.err .recInvalid
      else if !v.v1 then s1.err .recInvalid
      else if !v.v2 then s1.err .newBatch
      else { s1 with cur := some ⟨kind, r, [], none⟩ }
  | .ed ind _ =>
    match s.iat with
    | some ib => if v.v3 then { s with iat := some (addEntry ib r ind) } else s.err .recInvalid
    | none =>
      match s.cur with
      | none => s.err .entryOutside
      | some b =>
        let ok := if b.kind == .adv then v.v2 else v.v1
        if ok then { s with cur := some (addEntry b r ind) } else s.err .recInvalid
  | .ad stdSlot iatSlot _ =>
    match s.cur with
    | some b =>
      let res := if b.kind == .adv then addendaInto b (some advSlot) v.v2 r else addendaInto b stdSlot v.v1 r
      match res with
      | .ok b' => { s with cur := some b' }
      | .error e => s.err e
    | none =>
      match s.iat with
      | none => s.err .addendaOutsideEntry
      | some ib =>
        match addendaInto ib iatSlot v.v3 r with
        | .ok b' => { s with iat := some b' }
        | .error e => s.err e
  | .bc _ =>
    match s.cur with
    | some b =>
      let b' := { b with control := some r }
      let okc := if b.kind == .adv then v.v2 else v.v1
      if !okc then { s with cur := some b' }.err .recInvalid
      else
        let s' := { s with batches := s.batches ++ [b'], cur := none }
        if v.b then s' else s'.err .batchInvalid
    | none =>
      match s.iat with
      | none => s.err .bcOutside
      | some ib =>
        if ib.entries.isEmpty then s.err .bcOutside
        else
          let ib' := { ib with control := some r }
          if !v.v1 then { s with iat := some ib' }.err .recInvalid
          else
            let s' := { s with iatBatches := s.iatBatches ++ [ib'], iat := none }
            if v.b then s' else s'.err .batchInvalid
  | .fc _ =>
    if isADV s.batches then
      match s.advControl with
      | some _ => s.err .dupControl
      | none => let s' := { s with advControl := some r }; if v.v2 then s' else s'.err .recInvalid
    else
      match s.control with
      | some _ => s.err .dupControl
      | none => let s' := { s with control := some r }; if v.v1 then s' else s'.err .recInvalid
  | .filler => s
  | .unknown _ => s.err .unknownType

def run (s : St) (rs : List (Rec × Bits)) : St := rs.foldl (fun s rv => step s rv.1 rv.2) s

/-- the tail of `Read`: the lingering batch, then the missing header / control checks
(`allowNoHeader` / `allowNoControl` = `AllowMissingFileHeader` / `AllowMissingFileControl`) -/
def finish (allowNoHeader allowNoControl : Bool) (s : St) : St :=
  let s1 := match s.cur with
    | some b => { s with batches := s.batches ++ [b], cur := none }
    | none => s
  let s2 := if s1.header.isNone && !allowNoHeader then s1.err .missingHeader else s1
  let missing := if isADV s2.batches then s2.advControl.isNone else s2.control.isNone
  if missing && !allowNoControl then s2.err .missingControl else s2

/-- `Reader.Read` on the sequence of 94-column records with the validation outcomes, default options -/
def read (rs : List (Rec × Bits)) : St := finish false false (run init rs)

/-- every validation succeeds -/
def allOK (rs : List Rec) : List (Rec × Bits) := rs.map (·, Bits.all)

/-! ## the Writer's emission of a file tree, record by record (writer.go `Write`, `writeBatch`, `writeIATBatch`) -/

def emitEntry (e : TEntry) : List Rec := e.line :: e.addenda.map (·.2)
def emitBatch (b : TBatch) : List Rec := b.header :: (b.entries.flatMap emitEntry ++ b.control.toList)

structure Tree where
  header : Rec
  batches : List TBatch
  iatBatches : List TBatch
  control : Rec
deriving DecidableEq, Repr

def emit (t : Tree) : List Rec :=
  t.header :: (t.batches.flatMap emitBatch ++ t.iatBatches.flatMap emitBatch ++ [t.control])

end Ach.ReaderSM
