import Ach.Model.Validate
/-!
# `File.Create` for non-ADV files (file.go:499-590): batch numbering and the file control

On the validation model's file (`VFile`): standard batches with header and control, the controls of the IAT batches.
`File.Create` walks `f.Batches` then `f.IATBatches` with one running `batchSeq`: a batch whose header number is ≤ 1 gets
`batchSeq` in header *and* control; every batch advances `batchSeq`; the batch controls are summed into a fresh
`FileControl` (`BatchCount = batchSeq - 1`, entry hash cut to its 10 least significant digits, block count from
`2 + Σ (2 + EntryAddendaCount)` records).  The batches themselves are not re-tabulated.
-/
namespace Ach.FileCreate
open Ach

/-- the numbering loop over `f.Batches` -/
def renumber : Int → List VBatch → List VBatch
  | _, [] => []
  | seq, b :: bs =>
    (if b.header.batchNumber ≤ 1 then
       { b with header := { b.header with batchNumber := seq }, control := { b.control with batchNumber := seq } }
     else b) :: renumber (seq + 1) bs

/-- the numbering loop over `f.IATBatches` (only their controls are modelled; the guard reads the *header* number,
which the Reader and the constructors keep equal to the control's — input `hdrs` are those header numbers) -/
def renumberIAT : Int → List (Int × VControl) → List VControl
  | _, [] => []
  | seq, (h, c) :: cs => (if h ≤ 1 then { c with batchNumber := seq } else c) :: renumberIAT (seq + 1) cs

def sumControls (cs : List VControl) : VFileControl :=
  { batchCount := cs.length,
    entryAddendaCount := sumBy (·.entryAddendaCount) cs,
    entryHash := leastSignificantDigits (sumBy (·.entryHash) cs) 10,
    totalDebit := sumBy (·.totalDebit) cs,
    totalCredit := sumBy (·.totalCredit) cs }

/-- `File.Create`: `iatHdrs` are the header batch numbers of the IAT batches, parallel to `f.iatControls`;
`controlOK'` is whether the fresh `FileControl` passes `FileControl.Validate` (opaque) -/
def fileCreate (f : VFile) (iatHdrs : List Int) (controlOK' : Bool) : VFile :=
  let bs := renumber 1 f.batches
  let ics := renumberIAT (1 + f.batches.length) (iatHdrs.zip f.iatControls)
  { f with batches := bs, iatControls := ics, control := sumControls (bs.map (·.control) ++ ics), controlOK := controlOK' }

/-- `totalRecordsInFile` and `BlockCount` -/
def totalRecords (cs : List VControl) : Int := 2 + sumBy (fun c => 2 + c.entryAddendaCount) cs
/-- Go's `%` and `/` truncate toward zero -/
def blockCount (cs : List VControl) : Int :=
  if (totalRecords cs).tmod 10 ≠ 0 then (totalRecords cs).tdiv 10 + 1 else (totalRecords cs).tdiv 10

/-- the header numbers the numbering loop leaves behind -/
def newNumbers : Int → List Int → List Int
  | _, [] => []
  | seq, n :: ns => (if n ≤ 1 then seq else n) :: newNumbers (seq + 1) ns

end Ach.FileCreate
