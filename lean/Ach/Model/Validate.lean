import Ach.Model.Field
import Ach.Model.Codes
import Ach.Model.CheckDigit
/-!
# Control arithmetic of validation (batch.go `verify` and helpers, file.go `ValidateWith`)

The arithmetic and equality checks are mirrored exactly; record-level field
checks and the SEC-specific extras are an opaque conjunct (`extraOK`) that can
only reject more — the soundness direction C03 needs (DESIGN.md section 3.3).
Trace numbers are compared as raw strings, as the Go code does.
-/
namespace Ach

structure Opts where
  skipAll : Bool := false
  requireABAOrigin : Bool := false
  bypassOrigin : Bool := false
  bypassDestination : Bool := false
  customTraceNumbers : Bool := false
  allowZeroBatches : Bool := false
  allowMissingFileHeader : Bool := false
  allowMissingFileControl : Bool := false
  bypassCompanyIdentificationMatch : Bool := false
  customReturnCodes : Bool := false
  unequalServiceClassCode : Bool := false
  allowUnorderedBatchNumbers : Bool := false
  allowInvalidCheckDigit : Bool := false
  unequalAddendaCounts : Bool := false
  preserveSpaces : Bool := false
  allowInvalidAmounts : Bool := false
  allowZeroEntryAmount : Bool := false
  allowSpecialCharacters : Bool := false
deriving Repr, DecidableEq

structure VEntry where
  code : Int
  rdfi : Str            -- RDFIIdentification
  checkDigit : Str
  amount : Int
  trace : Str
  addendaCount : Nat    -- EntryDetail.addendaCount()
  extraOK : Bool        -- every other record-level check of EntryDetail.Validate and its addenda (opaque)
deriving Repr, DecidableEq

structure VHeader where
  serviceClass : Int
  companyId : Str
  odfi : Str
  batchNumber : Int
deriving Repr, DecidableEq

structure VControl where
  serviceClass : Int
  entryAddendaCount : Int
  entryHash : Int
  totalDebit : Int
  totalCredit : Int
  companyId : Str
  odfi : Str
  batchNumber : Int
deriving Repr, DecidableEq

structure VBatch where
  header : VHeader
  entries : List VEntry
  control : VControl
  extraOK : Bool        -- header/control field checks, SEC-specific checks, addenda sequence, category (opaque)
deriving Repr, DecidableEq

/-- Go string comparison `a <= b` is byte-wise lexicographic; on valid UTF-8 that is code-point order -/
def strLE (a b : Str) : Bool := decide (a.map (·.val.toNat) ≤ b.map (·.val.toNat))

def sumBy {α} (f : α → Int) (l : List α) : Int := l.foldl (fun acc x => acc + f x) 0

def creditTotal (es : List VEntry) : Int := sumBy (fun e => if creditCodes.contains e.code then e.amount else 0) es
def debitTotal (es : List VEntry) : Int := sumBy (fun e => if debitCodes.contains e.code then e.amount else 0) es

/-- `strconv.Atoi(aba8(rdfi))` with the error ignored -/
def rdfiValue (e : VEntry) : Int := (atoi (aba8 e.rdfi)).getD 0

/-- `Batch.calculateEntryHash` -/
def batchHash (es : List VEntry) : Int := leastSignificantDigits (sumBy rdfiValue es) 10

def entryCount (es : List VEntry) : Int := sumBy (fun e => (1 + e.addendaCount : Nat)) es

/-- `isSequenceAscending`: every trace strictly greater (as a string) than its predecessor, starting from "0" -/
def tracesAscend : Str → List VEntry → Bool
  | _, [] => true
  | last, e :: es => !(strLE e.trace last) && tracesAscend e.trace es

/-- `isTraceNumberODFI` (byte prefix of 8; equal to rune prefix on the ASCII traces the validators admit) -/
def tracePrefixOK (odfiField : Str) (es : List VEntry) : Bool :=
  es.all (fun e => (if e.trace.length ≥ 8 then e.trace.take 8 else []) = odfiField)

/-- `EntryDetail.Validate`, the part C03 speaks about -/
def entryOK (o : Opts) (e : VEntry) : Bool :=
  e.extraOK &&
  decide (0 ≤ e.amount) && decide (e.amount ≤ 9999999999) &&
  (o.allowInvalidCheckDigit ||
    (match atoi e.checkDigit with
     | some d => decide (calculateCheckDigit (stringField e.rdfi 8) = d)
     | none => false))

/-- `ValidTranCodeForServiceClassCode` for standard batches -/
def classOK (sc : Int) (e : VEntry) : Bool :=
  !(advCreditCodes.contains e.code || advDebitCodes.contains e.code) &&
  (if sc = Gen.K.AutomatedAccountingAdvices then false
   else if sc = Gen.K.MixedDebitsAndCredits then true
   else if sc = Gen.K.CreditsOnly then creditOrDebit e.code == .credit
   else if sc = Gen.K.DebitsOnly then creditOrDebit e.code == .debit
   else true)

/-- `Batch.verify` + the three checks every SEC `Validate` adds per entry (standard, non-ADV batches) -/
def batchValidate (o : Opts) (b : VBatch) : Bool :=
  !b.entries.isEmpty && b.extraOK && b.entries.all (entryOK o) &&
  (o.unequalServiceClassCode || decide (b.header.serviceClass = b.control.serviceClass)) &&
  (o.bypassCompanyIdentificationMatch || decide (b.header.companyId = b.control.companyId)) &&
  decide (b.header.odfi = b.control.odfi) &&
  decide (b.header.batchNumber = b.control.batchNumber) &&
  (o.unequalAddendaCounts || decide (entryCount b.entries = b.control.entryAddendaCount)) &&
  (o.customTraceNumbers || tracesAscend ['0'] b.entries) &&
  decide (debitTotal b.entries = b.control.totalDebit) &&
  decide (creditTotal b.entries = b.control.totalCredit) &&
  decide (batchHash b.entries = b.control.entryHash) &&
  (o.customTraceNumbers || o.bypassOrigin || tracePrefixOK (stringField b.header.odfi 8) b.entries) &&
  b.entries.all (classOK b.header.serviceClass)

/-! ## IAT batches (iatBatch.go `verify`, `Validate`, and `IATEntryDetail.Validate`) -/

def iatCreditTotal (es : List VEntry) : Int := sumBy (fun e => if iatCreditCodes.contains e.code then e.amount else 0) es
def iatDebitTotal (es : List VEntry) : Int := sumBy (fun e => if iatDebitCodes.contains e.code then e.amount else 0) es

/-- `IATEntryDetail.Validate`, the part C03 speaks about: the check digit is compared unconditionally
(there is no `AllowInvalidCheckDigit` bypass on this path) -/
def iatEntryOK (e : VEntry) : Bool :=
  e.extraOK &&
  (match atoi e.checkDigit with
   | some d => decide (calculateCheckDigit (stringField e.rdfi 8) = d)
   | none => false)

/-- `IATBatch.isTraceNumberODFI`: the first eight columns of the *rendered* trace number field -/
def iatTracePrefixOK (odfiField : Str) (es : List VEntry) : Bool :=
  es.all (fun e => (stringField e.trace 15).take 8 = odfiField)

/-- `IATBatch.verify` (`isSequenceAscending` starts from "-1"; no company identification equality, no
service-class / transaction-code cross check) -/
def iatBatchValidate (o : Opts) (b : VBatch) : Bool :=
  !b.entries.isEmpty && b.extraOK && b.entries.all iatEntryOK &&
  (o.unequalServiceClassCode || decide (b.header.serviceClass = b.control.serviceClass)) &&
  decide (b.header.odfi = b.control.odfi) &&
  decide (b.header.batchNumber = b.control.batchNumber) &&
  (o.unequalAddendaCounts || decide (entryCount b.entries = b.control.entryAddendaCount)) &&
  (o.customTraceNumbers || tracesAscend ['-', '1'] b.entries) &&
  decide (iatDebitTotal b.entries = b.control.totalDebit) &&
  decide (iatCreditTotal b.entries = b.control.totalCredit) &&
  decide (batchHash b.entries = b.control.entryHash) &&
  (o.customTraceNumbers || o.bypassOrigin || iatTracePrefixOK (stringField b.header.odfi 8) b.entries)

structure VFileControl where
  batchCount : Int
  entryAddendaCount : Int
  entryHash : Int
  totalDebit : Int
  totalCredit : Int
deriving Repr, DecidableEq

structure VFile where
  headerOK : Bool                -- FileHeader.ValidateWith (opaque)
  batches : List VBatch
  iatControls : List VControl    -- controls of the IAT batches (ValidateWith reads only these)
  control : VFileControl
  controlOK : Bool               -- FileControl.Validate (opaque)
deriving Repr, DecidableEq

def batchNumbersAscend : Int → List VBatch → Bool
  | _, [] => true
  | last, b :: bs => decide (last < b.header.batchNumber) && batchNumbersAscend b.header.batchNumber bs

def allControls (f : VFile) : List VControl := f.batches.map (·.control) ++ f.iatControls

/-- `File.ValidateWith` for non-ADV files -/
def fileValidate (o : Opts) (f : VFile) : Bool :=
  o.skipAll ||
  ((o.allowMissingFileHeader || f.headerOK) &&
   decide (f.control.batchCount = (f.batches.length + f.iatControls.length : Nat)) &&
   f.batches.all (batchValidate o) &&
   (o.allowMissingFileControl || f.controlOK) &&
   (o.unequalAddendaCounts || decide (f.control.entryAddendaCount = sumBy (·.entryAddendaCount) (allControls f))) &&
   decide (f.control.totalDebit = sumBy (·.totalDebit) (allControls f)) &&
   decide (f.control.totalCredit = sumBy (·.totalCredit) (allControls f)) &&
   (o.allowUnorderedBatchNumbers || o.customTraceNumbers || batchNumbersAscend 0 f.batches) &&
   decide (f.control.entryHash = leastSignificantDigits (sumBy (·.entryHash) (allControls f)) 10))

end Ach
