import Ach.Model.Create
import Ach.Driver.Hex
/-!
Line protocol of the `create` correspondence stream.

`create <mode> <reps> <sc> <odfiHex> <autoTrace> <offKind:-|c|s|x> <offRdfiHex> <offRoutingOK> <n> (<code> <amount> <rdfiHex> <traceHex> <isOffset> <nA05> <other>)*`

runs `build` `reps` times (feeding each result into the next) and prints
`ok <sc> <count> <hash> <debit> <credit> <entries…>` or `err:<kind>`, where an entry is
`code:amount:traceHex:isOffset:a05seq,…` .
-/
namespace Ach.CreateDriver
open Ach Ach.Driver

def parseEntries : Nat → List String → Option (List CEntry)
  | 0, _ => some []
  | n + 1, code :: amt :: rdfi :: trace :: off :: na :: other :: rest =>
    match code.toInt?, amt.toInt?, hexToStr rdfi, hexToStr trace, na.toNat?, other.toNat?, parseEntries n rest with
    | some c, some a, some r, some t, some k, some o, some es =>
      some (⟨c, a, r, t, off == "1", (List.range k).map (fun _ => (0, 0)), o⟩ :: es)
    | _, _, _, _, _, _, _ => none
  | _, _ => none

def showEntry (e : CEntry) : String :=
  s!"{e.code}:{e.amount}:{strToHex e.trace}:{if e.isOffset then 1 else 0}:" ++
    ",".intercalate (e.addenda05.map (fun p => s!"{p.1}/{p.2}"))

def showBatch (b : CBatch) : String :=
  s!"ok {b.serviceClass} {b.control.serviceClass} {b.control.entryAddendaCount} {b.control.entryHash} {b.control.totalDebit} {b.control.totalCredit}" ++
    String.join (b.entries.map (fun e => " " ++ showEntry e))

def showErr : BuildErr → String
  | .header => "err:header" | .noEntries => "err:noentries" | .atoi => "err:atoi"
  | .routing => "err:routing" | .accountType => "err:accounttype"
  | .fault .panic => "err:panic" | .fault .hang => "err:hang"

def repeatBuild (mode : Nat) : Nat → CBatch → Except BuildErr CBatch
  | 0, b => .ok b
  | n + 1, b => match build mode b with
    | .ok b' => repeatBuild mode n b'
    | .error e => .error e

def run (args : List String) : String :=
  match args with
  | mode :: reps :: sc :: odfi :: auto :: ok :: orh :: orok :: n :: rest =>
    match mode.toNat?, reps.toNat?, sc.toInt?, hexToStr odfi, hexToStr orh, n.toNat? with
    | some mode, some reps, some sc, some odfi, some orh, some n =>
      match parseEntries n rest with
      | some es =>
        let off : Option COffset :=
          if ok = "-" then none
          else some ⟨orh, orok == "1", if ok = "c" then some .checking else if ok = "s" then some .savings else none⟩
        let b : CBatch := ⟨true, sc, odfi, es, ⟨sc, 0, 0, 0, 0⟩, off, auto == "1"⟩
        match repeatBuild mode reps b with
        | .ok b' => showBatch b'
        | .error e => showErr e
      | none => "bad-op"
    | _, _, _, _, _, _ => "bad-op"
  | _ => "bad-op"

end Ach.CreateDriver
