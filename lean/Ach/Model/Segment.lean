import Ach.Model.Codes
/-!
# `SegmentFile` (file.go:1075-1330) and the batch numbering of `File.Create` (file.go:536-560)

Standard batches only carry what segmentation looks at: service class, batch number, entries (transaction code, amount,
opaque payload).  The credit / debit code lists are the generated case lists of `segmentFileBatchAddEntry`.
-/
namespace Ach.Segment
open Ach Ach.Gen

structure SEntry where
  code : Int
  amount : Int
  payload : Nat
deriving DecidableEq, Repr

structure SBatch where
  sc : Int
  number : Int
  entries : List SEntry
deriving DecidableEq, Repr

def isSegCredit (e : SEntry) : Bool := segCreditCodes.contains e.code
def isSegDebit (e : SEntry) : Bool := segDebitCodes.contains e.code

/-- one batch of `segmentFileBatches`: what goes to the credit file and what to the debit file.
A mixed batch is split into fresh batches (header from `NewBatchHeader`, whose batch number is 1);
single-direction batches are re-used as they are; any other service class is dropped by the `switch`. -/
def segOne (b : SBatch) : List SBatch × List SBatch :=
  if b.sc = K.MixedDebitsAndCredits then
    let cs := b.entries.filter isSegCredit
    let ds := b.entries.filter isSegDebit
    ((if cs.isEmpty then [] else [⟨K.CreditsOnly, 1, cs⟩]), (if ds.isEmpty then [] else [⟨K.DebitsOnly, 1, ds⟩]))
  else if b.sc = K.CreditsOnly then ([b], [])
  else if b.sc = K.DebitsOnly then ([], [b])
  else ([], [])

def segment : List SBatch → List SBatch × List SBatch
  | [] => ([], [])
  | b :: bs => let (c, d) := segOne b; let (cs, ds) := segment bs; (c ++ cs, d ++ ds)

/-- `File.Create`'s numbering loop: a batch whose number is ≤ 1 gets its 1-based position -/
def createNumbers : Nat → List Int → List Int
  | _, [] => []
  | pos, n :: ns => (if n ≤ 1 then (pos : Int) else n) :: createNumbers (pos + 1) ns

/-- `File.isSequenceAscending` -/
def ascending : Int → List Int → Bool
  | _, [] => true
  | last, n :: ns => decide (last < n) && ascending n ns

/-- does `SegmentFile` succeed as far as batch numbering is concerned (each non-empty output is `Create`d then `Validate`d) -/
def segmentNumbersOK (bs : List SBatch) : Bool :=
  ascending 0 (createNumbers 1 ((segment bs).1.map (·.number))) && ascending 0 (createNumbers 1 ((segment bs).2.map (·.number)))

def allEntries (bs : List SBatch) : List SEntry := bs.flatMap (·.entries)

def total (p : SEntry → Bool) (es : List SEntry) : Int := (es.filter p).foldl (fun acc e => acc + e.amount) 0

/-- the consistency the library enforces for standard batches (C03): 200 holds anything tallied, 220 only credits, 225 only debits -/
def Consistent (b : SBatch) : Prop :=
  (b.sc = K.MixedDebitsAndCredits ∨ b.sc = K.CreditsOnly ∨ b.sc = K.DebitsOnly) ∧
  (∀ e ∈ b.entries, isSegCredit e = true ∨ isSegDebit e = true) ∧
  (b.sc = K.CreditsOnly → ∀ e ∈ b.entries, isSegCredit e = true) ∧
  (b.sc = K.DebitsOnly → ∀ e ∈ b.entries, isSegDebit e = true)

end Ach.Segment
