import Ach.Facts
/-!
# The in-memory file repository (server/repository.go `repositoryInMemory`)

Two models of the same object and the bridge between them.

* **Sequential specification** `specStep : Spec → Op → Spec × Res` — the repository as an atomic map
  `file id → (token, batch ids)`.  Results mirror the Go bodies, quirks included: `DeleteFile` of a missing id is `ok`;
  `StoreBatch` into a missing file is `ErrNotFound`; `DeleteBatch` distinguishes a missing file (a wrapped
  `fmt.Errorf`, here `noFile`) from a missing batch (`ErrNotFound`) and scans from the end; `FindAllBatches` of a
  missing file is a nil slice, of an empty file a non-nil empty one (observable in Go); `FindAllFiles` is listed in
  id order because Go's map iteration order is unspecified (the state is kept sorted by id).  `StoreFile(nil)` is
  left out.  `sweep` is `cleanupOldFiles`: it removes the files whose token is in a set supplied by the environment
  (the token stands for the object and hence for its `FileCreationDate`; clock and ticker are not modelled).
* **Concurrent model**: threads `t : Nat`, each with a program (list of ops); one RW lock; every method is
  `call · acquire · access⁺ · release · return`.  `micro` splits each body into the shared-memory accesses the Go
  code performs (`StoreFile`: read `_, ok := r.files[id]`, then the blind assignment `r.files[id] = f`; `StoreBatch`:
  map read, scan of `file.Batches`, `AddBatch`; `DeleteBatch`: map read, scan, slice write at the index found; list
  readers: read, then copy).  A later access acts on what the earlier ones *observed* (`Loc`), not on the current
  memory, so atomicity is a theorem about the lock, not an assumption.  The lock taken by a method is the parameter
  `kind : Method → LockKind`, instantiated from the generated lock facts (`kindFrom`).

Assumed contract of `sync.RWMutex` (modelled, not verified): `Lock` returns only when there is no writer and no
reader, `RLock` only when there is no writer; `Unlock`/`RUnlock` give the hold back; a `defer`red unlock runs after
the body's last access and before the caller sees the result.  Writer preference, fairness and starvation are not
modelled (they only remove interleavings).  The heap is a value map: a `*ach.File` is identified with its id, which
is exact while the lock is held.
-/
namespace Ach.Repo

/-! ## sequential specification -/

structure FileV where
  tok : Nat
  batches : List Nat
deriving DecidableEq, Repr

/-- association list id ↦ file, kept sorted by id -/
abbrev Spec := List (Nat × FileV)

inductive Op
  | storeFile (id tok : Nat) | findFile (id : Nat) | findAllFiles | deleteFile (id : Nat)
  | storeBatch (id b : Nat) | findBatch (id b : Nat) | findAllBatches (id : Nat) | deleteBatch (id b : Nat)
  | sweep (old : List Nat)
deriving DecidableEq, Repr

inductive Res
  | ok | exists | notFound | noFile | nil
  | file (tok : Nat) (batches : List Nat) | files (l : List (Nat × Nat)) | batch (b : Nat) | batches (l : List Nat)
deriving DecidableEq, Repr

def get (id : Nat) : Spec → Option FileV
  | [] => none
  | (k, v) :: m => if k = id then some v else get id m

/-- `r.files[id] = v`: overwrite or insert (in id order) -/
def put (id : Nat) (v : FileV) : Spec → Spec
  | [] => [(id, v)]
  | (k, w) :: m => if id < k then (id, v) :: (k, w) :: m else if id = k then (k, v) :: m else (k, w) :: put id v m

/-- `delete(r.files, id)` -/
def del (id : Nat) (m : Spec) : Spec := m.filter (fun p => p.1 ≠ id)

/-- index at which `for i := len-1; i >= 0; i--` first sees `b` -/
def lastIdx (b : Nat) : List Nat → Option Nat
  | [] => none
  | x :: xs => match lastIdx b xs with
    | some i => some (i + 1)
    | none => if x = b then some 0 else none

def listing (m : Spec) : List (Nat × Nat) := m.map (fun p => (p.1, p.2.tok))
def sweepOut (old : List Nat) (m : Spec) : Spec := m.filter (fun p => !old.contains p.2.tok)

def specStep (s : Spec) : Op → Spec × Res
  | .storeFile id tok => match get id s with
    | some _ => (s, .exists)
    | none => (put id ⟨tok, []⟩ s, .ok)
  | .findFile id => match get id s with
    | some f => (s, .file f.tok f.batches)
    | none => (s, .notFound)
  | .findAllFiles => (s, .files (listing s))
  | .deleteFile id => (del id s, .ok)
  | .storeBatch id b => match get id s with
    | none => (s, .notFound)
    | some f => if b ∈ f.batches then (s, .exists) else (put id ⟨f.tok, f.batches ++ [b]⟩ s, .ok)
  | .findBatch id b => match get id s with
    | none => (s, .notFound)
    | some f => if b ∈ f.batches then (s, .batch b) else (s, .notFound)
  | .findAllBatches id => match get id s with
    | none => (s, .nil)
    | some f => (s, .batches f.batches)
  | .deleteBatch id b => match get id s with
    | none => (s, .noFile)
    | some f => match lastIdx b f.batches with
      | none => (s, .notFound)
      | some i => (put id ⟨f.tok, f.batches.eraseIdx i⟩ s, .ok)
  | .sweep old => (sweepOut old s, .ok)

/-! ## methods, lock kinds, the tie to the generated lock facts -/

inductive Method
  | storeFile | findFile | findAllFiles | deleteFile | storeBatch | findBatch | findAllBatches | deleteBatch | sweep
deriving DecidableEq, Repr

inductive LockKind | none | read | write
deriving DecidableEq, Repr

def Op.method : Op → Method
  | .storeFile .. => .storeFile | .findFile .. => .findFile | .findAllFiles => .findAllFiles
  | .deleteFile .. => .deleteFile | .storeBatch .. => .storeBatch | .findBatch .. => .findBatch
  | .findAllBatches .. => .findAllBatches | .deleteBatch .. => .deleteBatch | .sweep .. => .sweep

def Method.all : List Method :=
  [.storeFile, .findFile, .findAllFiles, .deleteFile, .storeBatch, .findBatch, .findAllBatches, .deleteBatch, .sweep]

def Method.goName : Method → String
  | .storeFile => "StoreFile" | .findFile => "FindFile" | .findAllFiles => "FindAllFiles"
  | .deleteFile => "DeleteFile" | .storeBatch => "StoreBatch" | .findBatch => "FindBatch"
  | .findAllBatches => "FindAllBatches" | .deleteBatch => "DeleteBatch" | .sweep => "cleanupOldFiles"

/-- methods one of whose accesses writes the map or a file reachable from it (`DeleteBatch` assigns
`file.Batches` through the pointer read from the map) -/
def Method.writes : Method → Bool
  | .storeFile | .deleteFile | .storeBatch | .deleteBatch | .sweep => true
  | _ => false

/-- the protection one fact row gives: a shared access before the lock call, or a deferred unlock that does not
match the lock call, counts as no protection -/
def factKind (f : Ach.Gen.LockFact) : LockKind :=
  if f.accessBeforeLock then .none
  else if f.lock = "Lock" ∧ f.deferUnlock = "Unlock" then .write
  else if f.lock = "RLock" ∧ f.deferUnlock = "RUnlock" then .read
  else .none

def kindFrom (tbl : List Ach.Gen.LockFact) (m : Method) : LockKind :=
  match tbl.find? (fun f => f.method = m.goName) with
  | some f => factKind f
  | none => .none

/-- writers take the write lock, every method (all of them touch the map) takes at least the read lock.  "Nothing
before the lock / after the unlock" is the shape of the LTS below and is what `factKind` demands of the source. -/
def LockDiscipline (kind : Method → LockKind) : Prop :=
  ∀ m : Method, kind m ≠ .none ∧ (m.writes = true → kind m = .write)

def ldCheck (kind : Method → LockKind) : Bool :=
  Method.all.all (fun m => kind m != .none && (!m.writes || kind m == .write))

/-! ## micro-steps of the method bodies -/

/-- what the accesses performed so far have observed -/
inductive Loc
  | start
  | absent                 -- StoreFile: `_, ok := r.files[f.ID]` gave ok = false
  | present                -- `file, ok := r.files[fileID]` gave a non-nil file
  | clear                  -- StoreBatch: the scan met no batch with this id
  | at (i : Nat)           -- DeleteBatch: the scan stopped at index i
  | len (n : Nat)          -- FindAllFiles: `len(r.files)` taken for `make`
deriving DecidableEq, Repr

def batchesOf (id : Nat) (m : Spec) : List Nat := match get id m with
  | some f => f.batches
  | none => []

/-- apply `g` to the batch slice of file `id` if the file is there (`if f := r.files[id]; f != nil { … }`) -/
def modBatches (id : Nat) (g : List Nat → List Nat) (m : Spec) : Spec := match get id m with
  | some f => put id ⟨f.tok, g f.batches⟩ m
  | none => m

/-- the next shared access of `op` after observations `loc`: new memory, and either the next `Loc` or the result -/
def micro (op : Op) (loc : Loc) (m : Spec) : Spec × (Loc ⊕ Res) :=
  match op, loc with
  | .storeFile id _, .start => match get id m with
    | some _ => (m, .inr .exists)
    | none => (m, .inl .absent)
  | .storeFile id tok, _ => (put id ⟨tok, []⟩ m, .inr .ok)
  | .findFile id, _ => match get id m with
    | some f => (m, .inr (.file f.tok f.batches))
    | none => (m, .inr .notFound)
  | .findAllFiles, .start => (m, .inl (.len m.length))
  | .findAllFiles, _ => (m, .inr (.files (listing m)))
  | .deleteFile id, _ => (del id m, .inr .ok)
  | .storeBatch id _, .start => match get id m with
    | some _ => (m, .inl .present)
    | none => (m, .inr .notFound)
  | .storeBatch id b, .present => if b ∈ batchesOf id m then (m, .inr .exists) else (m, .inl .clear)
  | .storeBatch id b, _ => (modBatches id (· ++ [b]) m, .inr .ok)
  | .findBatch id _, .start => match get id m with
    | some _ => (m, .inl .present)
    | none => (m, .inr .notFound)
  | .findBatch id b, _ => if b ∈ batchesOf id m then (m, .inr (.batch b)) else (m, .inr .notFound)
  | .findAllBatches id, .start => match get id m with
    | some _ => (m, .inl .present)
    | none => (m, .inr .nil)
  | .findAllBatches id, _ => (m, .inr (.batches (batchesOf id m)))
  | .deleteBatch id _, .start => match get id m with
    | some _ => (m, .inl .present)
    | none => (m, .inr .noFile)
  | .deleteBatch id b, .present => match lastIdx b (batchesOf id m) with
    | some i => (m, .inl (.at i))
    | none => (m, .inr .notFound)
  | .deleteBatch id _, .at i => (modBatches id (·.eraseIdx i) m, .inr .ok)
  | .deleteBatch _ _, _ => (m, .inr .notFound)
  | .sweep old, _ => (sweepOut old m, .inr .ok)

/-- is the next access a write? -/
def isWrite : Op → Loc → Bool
  | .storeFile .., .start => false
  | .storeFile .., _ => true
  | .deleteFile .., _ => true
  | .storeBatch .., .start | .storeBatch .., .present => false
  | .storeBatch .., _ => true
  | .deleteBatch .., .at _ => true
  | .sweep .., _ => true
  | _, _ => false

/-- the whole body run alone (at most three accesses) -/
def microRun (m : Spec) (op : Op) : Spec × Res :=
  let go (x : Spec × (Loc ⊕ Res)) : Spec × (Loc ⊕ Res) := match x with
    | (m, .inl loc) => micro op loc m
    | x => x
  match go (go (micro op .start m)) with
  | (m, .inr r) => (m, r)
  | (m, .inl _) => (m, .ok)

/-! ## the concurrent transition system -/

inductive Pc
  | idle | waiting | inside (loc : Loc) | leaving (r : Res) | returning (r : Res)
deriving DecidableEq, Repr

structure Thread where
  prog : List Op
  pc : Pc
deriving DecidableEq, Repr

structure Lock where
  writer : Option Nat
  readers : List Nat
deriving DecidableEq, Repr

structure State where
  lock : Lock
  mem : Spec
  threads : Nat → Thread

inductive Act
  | call (op : Op) | acq | acc (op : Op) (lin : Option Res) | rel | ret (op : Op) (r : Res)
deriving DecidableEq, Repr

abbrev Label := Nat × Act

def Lock.acquire (k : LockKind) (t : Nat) (l : Lock) : Option Lock :=
  match k with
  | .none => some l
  | .read => if l.writer = none then some ⟨l.writer, t :: l.readers⟩ else none
  | .write => if l.writer = none ∧ l.readers = [] then some ⟨some t, l.readers⟩ else none

def Lock.release (k : LockKind) (t : Nat) (l : Lock) : Lock :=
  match k with
  | .none => l
  | .read => ⟨l.writer, l.readers.erase t⟩
  | .write => ⟨none, l.readers⟩

def State.setT (s : State) (t : Nat) (th : Thread) : State :=
  ⟨s.lock, s.mem, fun u => if u = t then th else s.threads u⟩

def pcAfter : Loc ⊕ Res → Pc
  | .inl loc => .inside loc
  | .inr r => .leaving r

def linOf : Loc ⊕ Res → Option Res
  | .inl _ => none
  | .inr r => some r

def init (progs : Nat → List Op) : State := ⟨⟨none, []⟩, [], fun t => ⟨progs t, .idle⟩⟩

/-- the step thread `t` can take, if any -/
def next (kind : Method → LockKind) (s : State) (t : Nat) : Option (Act × State) :=
  match s.threads t with
  | ⟨op :: rest, .idle⟩ => some (.call op, s.setT t ⟨op :: rest, .waiting⟩)
  | ⟨op :: rest, .waiting⟩ => match s.lock.acquire (kind op.method) t with
    | some l => some (.acq, ⟨l, s.mem, (s.setT t ⟨op :: rest, .inside .start⟩).threads⟩)
    | none => none
  | ⟨op :: rest, .inside loc⟩ =>
    let x := micro op loc s.mem
    some (.acc op (linOf x.2), ⟨s.lock, x.1, (s.setT t ⟨op :: rest, pcAfter x.2⟩).threads⟩)
  | ⟨op :: rest, .leaving r⟩ =>
    some (.rel, ⟨s.lock.release (kind op.method) t, s.mem, (s.setT t ⟨op :: rest, .returning r⟩).threads⟩)
  | ⟨op :: rest, .returning r⟩ => some (.ret op r, s.setT t ⟨rest, .idle⟩)
  | _ => none

def enabled (kind : Method → LockKind) (s : State) (t : Nat) : Bool := (next kind s t).isSome

inductive Step (kind : Method → LockKind) : State → Label → State → Prop
  | call {s t op rest} (h : s.threads t = ⟨op :: rest, .idle⟩) :
      Step kind s (t, .call op) (s.setT t ⟨op :: rest, .waiting⟩)
  | acquire {s t op rest l} (h : s.threads t = ⟨op :: rest, .waiting⟩)
      (ha : s.lock.acquire (kind op.method) t = some l) :
      Step kind s (t, .acq) ⟨l, s.mem, (s.setT t ⟨op :: rest, .inside .start⟩).threads⟩
  | access {s t op rest loc} (h : s.threads t = ⟨op :: rest, .inside loc⟩) :
      Step kind s (t, .acc op (linOf (micro op loc s.mem).2))
        ⟨s.lock, (micro op loc s.mem).1, (s.setT t ⟨op :: rest, pcAfter (micro op loc s.mem).2⟩).threads⟩
  | release {s t op rest r} (h : s.threads t = ⟨op :: rest, .leaving r⟩) :
      Step kind s (t, .rel)
        ⟨s.lock.release (kind op.method) t, s.mem, (s.setT t ⟨op :: rest, .returning r⟩).threads⟩
  | ret {s t op rest r} (h : s.threads t = ⟨op :: rest, .returning r⟩) :
      Step kind s (t, .ret op r) (s.setT t ⟨rest, .idle⟩)

/-- runs from `s0`, with their trace -/
inductive Run (kind : Method → LockKind) (s0 : State) : List Label → State → Prop
  | nil : Run kind s0 [] s0
  | snoc {tr s l s'} : Run kind s0 tr s → Step kind s l s' → Run kind s0 (tr ++ [l]) s'

def Reachable (kind : Method → LockKind) (progs : Nat → List Op) (s : State) : Prop :=
  ∃ tr, Run kind (init progs) tr s

/-- follow a schedule (a disabled thread's turn is skipped) -/
def exec (kind : Method → LockKind) (s : State) : List Nat → State
  | [] => s
  | t :: ts => match next kind s t with
    | some (_, s') => exec kind s' ts
    | none => exec kind s ts

/-- every thread has run its whole program -/
def Complete (s : State) : Prop := ∀ t, s.threads t = ⟨[], .idle⟩

/-! ## histories read off a trace -/

def calls (t : Nat) (tr : List Label) : List Op :=
  tr.filterMap (fun l => match l with
    | (u, .call op) => if u = t then some op else none
    | _ => none)

def lins (t : Nat) (tr : List Label) : List (Op × Res) :=
  tr.filterMap (fun l => match l with
    | (u, .acc op (some r)) => if u = t then some (op, r) else none
    | _ => none)

def rets (t : Nat) (tr : List Label) : List (Op × Res) :=
  tr.filterMap (fun l => match l with
    | (u, .ret op r) => if u = t then some (op, r) else none
    | _ => none)

/-- all linearization points of a trace, in trace order -/
def linAll (tr : List Label) : List (Nat × Op × Res) :=
  tr.filterMap (fun l => match l with
    | (u, .acc op (some r)) => some (u, op, r)
    | _ => none)

/-- execute the sequential specification along `l`, insisting on the recorded results -/
def replay (m : Spec) : List (Nat × Op × Res) → Option Spec
  | [] => some m
  | (_, op, r) :: l => if (specStep m op).2 = r then replay (specStep m op).1 l else none

/-- two threads stand before shared accesses of which one is a write -/
def Conflict (s : State) : Prop :=
  ∃ t u op1 r1 l1 op2 r2 l2, t ≠ u ∧ s.threads t = ⟨op1 :: r1, .inside l1⟩ ∧ s.threads u = ⟨op2 :: r2, .inside l2⟩ ∧
    (isWrite op1 l1 = true ∨ isWrite op2 l2 = true)

def conflictB (s : State) (t u : Nat) : Bool :=
  t != u && match s.threads t, s.threads u with
    | ⟨op1 :: _, .inside l1⟩, ⟨op2 :: _, .inside l2⟩ => isWrite op1 l1 || isWrite op2 l2
    | _, _ => false

end Ach.Repo
