/-!
# The Writer's emission order and blocking (writer.go `Write`, `writeBatch`, `writeIATBatch`)

A file is reduced to its tree shape: batches (standard and ADV batches first, then IAT batches — the order `Write`
emits them) of entries, each followed by the number of addenda records it carries (nil and empty-rendering addenda are
skipped by `writeLine`).  `write` gives the sequence of record kinds; the last loop pads the final block with all-9
records: `for i := 0; i < (10-(lineNum%10)) && lineNum%10 != 0; i++`.
-/
namespace Ach.Writer

inductive Kind where
  | fileHeader | batchHeader | entry | addenda | batchControl | fileControl | filler
deriving DecidableEq, Repr

structure WEntry where
  addenda : Nat
deriving DecidableEq, Repr

structure WBatch where
  entries : List WEntry
deriving DecidableEq, Repr

structure WFile where
  batches : List WBatch
deriving DecidableEq, Repr

def emitEntry (e : WEntry) : List Kind := .entry :: List.replicate e.addenda .addenda
def emitBatch (b : WBatch) : List Kind := .batchHeader :: (b.entries.flatMap emitEntry ++ [.batchControl])
def emit (f : WFile) : List Kind := .fileHeader :: (f.batches.flatMap emitBatch ++ [.fileControl])

/-- number of all-9 records appended after `n` records -/
def padCount (n : Nat) : Nat := if n % 10 = 0 then 0 else 10 - n % 10

def write (f : WFile) : List Kind := emit f ++ List.replicate (padCount (emit f).length) .filler

/-! ## the record-order grammar  `FH (BH (ED AD*)* BC)* FC 9*`  as a recogniser that rebuilds the tree -/

/-- addenda following an entry -/
def takeAddenda : List Kind → Nat × List Kind
  | .addenda :: ks => let r := takeAddenda ks; (r.1 + 1, r.2)
  | ks => (0, ks)

/-- entries of a batch up to its control; `none` when something else than ED / AD / BC shows up (fuel = input length) -/
def takeEntries : Nat → List Kind → Option (List WEntry × List Kind)
  | 0, _ => none
  | _ + 1, .batchControl :: ks => some ([], ks)
  | n + 1, .entry :: ks =>
    let r := takeAddenda ks
    match takeEntries n r.2 with
    | some (es, rest) => some (⟨r.1⟩ :: es, rest)
    | none => none
  | _ + 1, _ => none

def takeBatches : Nat → List Kind → Option (List WBatch × List Kind)
  | 0, _ => none
  | _ + 1, .fileControl :: ks => some ([], ks)
  | n + 1, .batchHeader :: ks =>
    match takeEntries n ks with
    | some (es, rest) =>
      match takeBatches n rest with
      | some (bs, rest') => some (⟨es⟩ :: bs, rest')
      | none => none
    | none => none
  | _ + 1, _ => none

/-- parse a whole record-kind sequence: file header, batches, file control, then fillers only -/
def parse (ks : List Kind) : Option WFile :=
  match ks with
  | .fileHeader :: rest =>
    match takeBatches (rest.length + 1) rest with
    | some (bs, tail) => if tail.all (· == .filler) then some ⟨bs⟩ else none
    | none => none
  | _ => none

/-! ## what `File.Create` writes into the controls, physically -/

def batchEntryAddendaCount (b : WBatch) : Nat := (b.entries.map (fun e => 1 + e.addenda)).sum

/-- `totalRecordsInFile` of `File.Create`: 2 + Σ (2 + batch entry/addenda count) -/
def createTotalRecords (f : WFile) : Nat := 2 + (f.batches.map (fun b => 2 + batchEntryAddendaCount b)).sum

/-- `BlockCount` of `File.Create` -/
def createBlockCount (f : WFile) : Nat :=
  if createTotalRecords f % 10 ≠ 0 then createTotalRecords f / 10 + 1 else createTotalRecords f / 10

end Ach.Writer
