import Ach.Facts
/-!
# I/O error paths of `Writer.Write` (writer.go) and `NewReader`/`Reader.Read` (reader.go) — model for C16

Only the *I/O skeleton* of the code is modelled: which calls are made on `bufio.Writer` / `bufio.Scanner`, in which
order, and what happens to every error result.  Record contents are opaque byte lists (`α` is the byte type).

## Library contracts stated here and TRUSTED (read off Go 1.23 `bufio`/`io`, x/net v0.39.0 `html/charset`)

* fault-injecting `io.Writer` (`Under`): accepts `room` more bytes in total.  `Write(p)` with `len p ≤ room` takes all
  of `p` and returns `(len p, nil)`; otherwise it takes `p[:room]` and returns `(room, E)` where `E` is the injected
  error (`hard`), `nil` (`short`: a short write without error) or `io.ErrShortWrite` (`shortErr`); from then on
  `room = 0`, i.e. `(0, E)`.  It is a plain `io.Writer` (no `WriteString` method, so `bufio` never bypasses its buffer).
* `bufio.Writer` (`BW`): `Flush` — sticky error returned if set; empty buffer → nil; else one `Write` of the buffer,
  `n < len ∧ err = nil` becomes `io.ErrShortWrite`; on error the unwritten suffix stays buffered and the error sticks.
  `WriteString s` — `for len(s) > Available() && err == nil { n = copy(buf[n:], s); Flush(); s = s[n:] }`, then
  returns the sticky error if set, else copies the rest.  `Available = cap - len(buf)`.
* fault-injecting `io.Reader` (`Plan`): `total` bytes of content; if `k ≤ total` it delivers the first `k` bytes (at
  most `chunk` per call, `chunk = 0` meaning "as many as asked") and then returns `(0, e)` on every further call;
  if `k > total` it delivers everything and then `(0, io.EOF)`.
* `io.ReadFull`, `io.MultiReader`, `bytes.Reader`: as in package `io` (loops transcribed below).
* `transform.Reader` (inserted by `charset.NewReader` when the sniffed encoding is not UTF-8): delivers the transformed
  bytes read so far and then the source's error unchanged — modelled as the identity on (count, error).
* `bufio.Scanner` with `ScanRunes`: `Scan` yields a token for every byte delivered by the source until a `Read`
  returns an error; then `Scan` is false and `Err()` is that error, `io.EOF` being reported as nil.
-/
namespace Ach.IO

/-! ## Writer side -/
inductive WErr | injected | shortWrite   -- the fault injector's error, io.ErrShortWrite
deriving DecidableEq, Repr
inductive Mode | hard | short | shortErr
deriving DecidableEq, Repr
def Mode.err : Mode → Option WErr
  | .hard => some .injected | .short => none | .shortErr => some .shortWrite

/-- the underlying `io.Writer`: fault plan (`mode`, `room`) and the bytes it has received, in order -/
structure Under (α : Type) where
  mode : Mode
  room : Nat
  got : List α

/-- `Write(p)` → (state, n, err) -/
def Under.write (u : Under α) (p : List α) : Under α × Nat × Option WErr :=
  if p.length ≤ u.room then ({ u with room := u.room - p.length, got := u.got ++ p }, p.length, none)
  else ({ u with room := 0, got := u.got ++ p.take u.room }, u.room, u.mode.err)

/-- `bufio.Writer`: `buf` is `b.buf[0:b.n]`, `err` the sticky error, `wr` the underlying writer -/
structure BW (α : Type) where
  cap : Nat
  buf : List α
  err : Option WErr
  wr : Under α

def BW.avail (b : BW α) : Nat := b.cap - b.buf.length

/-- bufio.go `(*Writer).Flush` -/
def BW.flush (b : BW α) : BW α × Option WErr :=
  match b.err with
  | some e => (b, some e)
  | none =>
    if b.buf.length = 0 then (b, none) else
    let r := b.wr.write b.buf
    let e := if r.2.1 < b.buf.length && r.2.2.isNone then some WErr.shortWrite else r.2.2
    match e with
    | some x => ({ b with buf := b.buf.drop r.2.1, err := some x, wr := r.1 }, some x)
    | none => ({ b with buf := [], wr := r.1 }, none)

/-- the `for len(s) > b.Available() && b.err == nil` loop of `WriteString`; returns the writer and the rest of `s`.
`fuel` is only there to make the recursion structural (`wsLoop_exit`: it never runs out when `cap > 0`). -/
def BW.wsLoop : Nat → BW α → List α → BW α × List α
  | 0, b, s => (b, s)
  | fuel + 1, b, s =>
    if s.length > b.avail && b.err.isNone then
      -- n = copy(b.buf[b.n:], s) = Available(); b.n += n; b.Flush() (result ignored: it is in b.err); s = s[n:]
      wsLoop fuel ({ b with buf := b.buf ++ s.take b.avail } : BW α).flush.1 (s.drop b.avail)
    else (b, s)

/-- bufio.go `(*Writer).WriteString` (the returned count is not used by writer.go) -/
def BW.writeString (b : BW α) (s : List α) : BW α × Option WErr :=
  let r := b.wsLoop (s.length + 1) s
  match r.1.err with
  | some e => (r.1, some e)
  | none => ({ r.1 with buf := r.1.buf ++ r.2 }, none)

/-- What writer.go does with error results; `policyOf` reads it off the generated facts.  `true` = the code has
`if err != nil { return err }` after the call, `false` = the result is discarded and execution continues. -/
structure Policy where
  checkLineWS : Bool   -- writeLine: after each `w.w.WriteString`
  checkPadWS : Bool    -- Write, padding loop: after each `w.w.WriteString`
  checkCalls : Bool    -- Write / writeBatch / writeIATBatch: after each `w.writeLine` / `w.writeBatch` / …
  returnsFlush : Bool  -- Write ends in `return w.w.Flush()` (false: `w.w.Flush(); return nil`)
deriving DecidableEq, Repr

def dropped (facts : List Gen.IOFact) (fn : String) : List String :=
  (facts.filter (fun f => f.fn == fn)).flatMap (·.droppedErrors)
def lastReturn (facts : List Gen.IOFact) (fn : String) : Option String :=
  (facts.find? (fun f => f.fn == fn)).map (·.lastReturn)

def policyOf (facts : List Gen.IOFact) : Policy :=
  { checkLineWS := (dropped facts "Writer.writeLine").isEmpty,
    checkPadWS := (dropped facts "Writer.Write").isEmpty,
    checkCalls := (dropped facts "Writer.Write").isEmpty && (dropped facts "Writer.writeBatch").isEmpty &&
      (dropped facts "Writer.writeIATBatch").isEmpty,
    returnsFlush := lastReturn facts "Writer.Write" == some "return r.w.Flush()" }

structure Cfg (α : Type) where
  ending : List α    -- w.LineEnding
  padLine : List α   -- paddingLine = strings.Repeat("9", 94)

/-- a file as the `String()` values handed to `writeLine`, in the order `Write` visits them
(an empty value stands for a nil entry or an empty `String()`: `writeLine` skips both) -/
structure WFile (α : Type) where
  header : List α
  batches : List (List α)   -- everything writeBatch visits
  iat : List (List α)       -- everything writeIATBatch visits
  control : List α

structure W (α : Type) where
  bw : BW α
  lineNum : Nat

abbrev Res (α : Type) := W α × Option WErr

/-- `chk = true`: `if err != nil { return err }`; `chk = false`: the error result is dropped -/
def andThen (chk : Bool) (r : Res α) (f : W α → Res α) : Res α :=
  if chk && r.2.isSome then r else f r.1

/-- `_, err := w.w.WriteString(s)` and `err := w.w.Flush()` on the Writer -/
def ws (s : List α) (w : W α) : Res α := ({ w with bw := (w.bw.writeString s).1 }, (w.bw.writeString s).2)
def wflush (w : W α) : Res α := ({ w with bw := w.bw.flush.1 }, w.bw.flush.2)

/-- end of `writeLine`: `w.lineNum++; if w.w.Available() < 94 { return w.Flush() }; return nil` -/
def lineDone (w : W α) : Res α :=
  if w.bw.avail < 94 then wflush { w with lineNum := w.lineNum + 1 } else ({ w with lineNum := w.lineNum + 1 }, none)

/-- writer.go `writeLine` -/
def writeLine (p : Policy) (cfg : Cfg α) (line : List α) (w : W α) : Res α :=
  if line.isEmpty then (w, none) else
  andThen p.checkLineWS (ws line w) fun w =>
  andThen p.checkLineWS (ws cfg.ending w) lineDone

/-- writer.go `writeBatch` / `writeIATBatch`: a sequence of checked `writeLine` calls, then `return nil` -/
def writeLines (p : Policy) (cfg : Cfg α) : List (List α) → W α → Res α
  | [], w => (w, none)
  | l :: ls, w => andThen p.checkCalls (writeLine p cfg l w) (writeLines p cfg ls)

/-- `for i := 0; i < (10-(w.lineNum%10)) && w.lineNum%10 != 0; i++` runs this many times -/
def padCount (lineNum : Nat) : Nat := if lineNum % 10 = 0 then 0 else 10 - lineNum % 10

def padLoop (p : Policy) (cfg : Cfg α) : Nat → W α → Res α
  | 0, w => (w, none)
  | n + 1, w =>
    andThen p.checkPadWS (ws cfg.padLine w) fun w =>
    andThen p.checkPadWS (ws cfg.ending w) (padLoop p cfg n)

/-- `Write` up to, not including, its last statement (validation happens before any I/O and is not modelled);
`some e` = one of the early `return err` -/
def writeBody (p : Policy) (cfg : Cfg α) (f : WFile α) (w : W α) : Res α :=
  andThen p.checkCalls (writeLine p cfg f.header { w with lineNum := 0 }) fun w =>
  andThen p.checkCalls (writeLines p cfg f.batches w) fun w =>
  andThen p.checkCalls (writeLines p cfg f.iat w) fun w =>
  andThen p.checkCalls (writeLine p cfg f.control w) fun w =>
  padLoop p cfg (padCount w.lineNum) w   -- w.lineNum does not change inside the loop

/-- writer.go `Write`: body, then `return w.w.Flush()` -/
def write (p : Policy) (cfg : Cfg α) (f : WFile α) (w : W α) : Res α :=
  andThen true (writeBody p cfg f w) fun w =>
  ((wflush w).1, if p.returnsFlush then (wflush w).2 else none)

/-- `NewWriterWithOpts(u, …)` -/
def newWriter (cap : Nat) (u : Under α) : W α :=
  { bw := { cap := cap, buf := [], err := none, wr := u }, lineNum := 0 }

/-! ### what a complete output is -/
def emitLine (cfg : Cfg α) (l : List α) : List α := if l.isEmpty then [] else l ++ cfg.ending
def countLine (l : List α) : Nat := if l.isEmpty then 0 else 1
def emitLines (cfg : Cfg α) (ls : List (List α)) : List α := ls.flatMap (emitLine cfg)
def countLines (ls : List (List α)) : Nat := (ls.map countLine).sum
def padding (cfg : Cfg α) (n : Nat) : List α := (List.replicate n (cfg.padLine ++ cfg.ending)).flatten
def WFile.lines (f : WFile α) : List (List α) := f.header :: (f.batches ++ (f.iat ++ [f.control]))

/-- the bytes of the file: every non-empty record + line ending, then the nines padding -/
def render (cfg : Cfg α) (f : WFile α) : List α :=
  emitLines cfg f.lines ++ padding cfg (padCount (countLines f.lines))

/-! ## Reader side -/

inductive RErr | eof | unexpectedEOF | other   -- io.EOF, io.ErrUnexpectedEOF, any other error value
deriving DecidableEq, Repr

/-- the underlying `io.Reader`'s fault plan (contract in the header); its state is `pos`, the bytes delivered so far -/
structure Plan where
  total : Nat
  k : Nat
  e : RErr
  chunk : Nat
deriving DecidableEq, Repr

def Plan.limit (p : Plan) : Nat := min p.k p.total
def Plan.endErr (p : Plan) : RErr := if p.k ≤ p.total then p.e else .eof

/-- `Read(buf)` with `len buf = n > 0` at position `pos` → (new position, count, err) -/
def Plan.read (p : Plan) (pos n : Nat) : Nat × Nat × Option RErr :=
  if pos < p.limit then
    let m := min (if p.chunk = 0 then n else min n p.chunk) (p.limit - pos)
    (pos + m, m, none)
  else (pos, 0, some p.endErr)

/-- io.ReadAtLeast's loop `for n < min && err == nil { nn, err = r.Read(buf[n:]); n += nn }` -/
def readLoop (p : Plan) : Nat → Nat → Nat → Nat → Nat × Nat × Option RErr
  | 0, pos, n, _ => (pos, n, none)
  | fuel + 1, pos, n, mn =>
    if n < mn then
      match (p.read pos (mn - n)).2.2 with
      | some e => ((p.read pos (mn - n)).1, n + (p.read pos (mn - n)).2.1, some e)
      | none => readLoop p fuel (p.read pos (mn - n)).1 (n + (p.read pos (mn - n)).2.1) mn
    else (pos, n, none)

/-- `io.ReadFull(r, buf)` with `len buf = size`, reader at position 0: the loop, then
`if n >= min { err = nil } else if n > 0 && err == EOF { err = ErrUnexpectedEOF }` -/
def readFull (p : Plan) (size : Nat) : Nat × Nat × Option RErr :=
  let r := readLoop p (size + 1) 0 0 size
  if r.2.1 ≥ size then (r.1, r.2.1, none)
  else if r.2.1 > 0 && r.2.2 == some .eof then (r.1, r.2.1, some .unexpectedEOF)
  else r

def sniffLen : Nat := 1024
/-- what `charset.NewReader` returns: `io.MultiReader(bytes.NewReader(preview), r)` (`src = some pos`) or just
`bytes.NewReader(preview)` (`src = none`), possibly inside a `transform.Reader` (identity here) -/
structure CRdr where
  preview : Nat          -- unread bytes of the preview
  src : Option Nat       -- position of the underlying reader, if it is still attached
deriving DecidableEq, Repr

/-- x/net/html/charset.NewReader: `n, err := io.ReadFull(r, preview)`; `err == io.ErrUnexpectedEOF` → the preview is
the whole input; any other `err != nil` → `return nil, err`; else replay the preview and continue with `r` -/
def charsetNewReader (p : Plan) : Except RErr CRdr :=
  match (readFull p sniffLen).2.2 with
  | some .unexpectedEOF => .ok { preview := (readFull p sniffLen).2.1, src := none }
  | some e => .error e
  | none => .ok { preview := sniffLen, src := some (readFull p sniffLen).1 }

/-- `Read(buf)`, `len buf = n > 0`, on that reader (MultiReader moves on to the next reader within the same call) -/
def CRdr.read (p : Plan) (r : CRdr) (n : Nat) : CRdr × Nat × Option RErr :=
  if r.preview > 0 then ({ r with preview := r.preview - min n r.preview }, min n r.preview, none)
  else match r.src with
    | none => (r, 0, some .eof)
    | some pos => ({ r with src := some (p.read pos n).1 }, (p.read pos n).2.1, (p.read pos n).2.2)

/-- the `*Reader` built by `NewReaderWithContentType`: its scanner (nil or over a reader) and `errors` -/
structure Rd where
  scanner : Option CRdr
  errors : List RErr
deriving DecidableEq, Repr

/-- reader.go `NewReaderWithContentType` -/
def newReader (p : Plan) : Rd :=
  match charsetNewReader p with
  | .error e =>
    if e = .eof ∨ e = .unexpectedEOF then { scanner := some { preview := 0, src := none }, errors := [] }
    else { scanner := none, errors := [e] }
  | .ok rr => { scanner := some rr, errors := [] }

/-- all `Scan()` calls: reads of `bufSz` bytes until one fails; → (bytes tokenised, `scanner.Err()`) -/
def scanAll (p : Plan) (bufSz : Nat) : Nat → CRdr → Nat → Nat × Option RErr
  | 0, _, seen => (seen, none)
  | fuel + 1, r, seen =>
    match (r.read p bufSz).2.2 with
    | some e => (seen + (r.read p bufSz).2.1, if e = .eof then none else some e)
    | none => scanAll p bufSz fuel (r.read p bufSz).1 (seen + (r.read p bufSz).2.1)

inductive ReadRes
  | ok (bytes : Nat)                  -- no I/O error; `bytes` were handed to the line parser
  | errNilScanner                     -- `errors.New("nil scanner")`
  | errScan (e : RErr) (bytes : Nat)  -- `return r.File, err` after the loop
  | errTooLong                        -- `return r.File, r.errors` with ErrFileTooLong inside the loop
deriving DecidableEq, Repr

def ReadRes.isErr : ReadRes → Bool | .ok _ => false | _ => true

/-- reader.go `Read`, I/O skeleton.  `checksErr`: the `if err := r.scanner.Err(); err != nil` test is there;
`hitMaxLines`: the loop was left through the `r.lineNum > r.maxLines` return. -/
def read (p : Plan) (checksErr hitMaxLines : Bool) (rd : Rd) : ReadRes :=
  match rd.scanner with
  | none => .errNilScanner
  | some r =>
    if hitMaxLines then .errTooLong else
    match (scanAll p 4096 (p.total + 2) r 0).2 with
    | some e => if checksErr then .errScan e (scanAll p 4096 (p.total + 2) r 0).1
                else .ok (scanAll p 4096 (p.total + 2) r 0).1
    | none => .ok (scanAll p 4096 (p.total + 2) r 0).1

def checksScannerErr (facts : List Gen.IOFact) : Bool :=
  (facts.find? (fun f => f.fn == "Reader.Read")).any (·.checksScannerErr)

/-- `NewReader(src).Read()` -/
def readFile (checksErr : Bool) (p : Plan) : ReadRes := read p checksErr false (newReader p)

end Ach.IO
