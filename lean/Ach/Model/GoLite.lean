import Ach.Model.Field
import Ach.Model.Codes
import Ach.Model.CheckDigit
import Ach.Go.Utf8
import Ach.Generated.Dicts
/-!
# GoLite: a deep embedding of the loop-free validator functions of /repo

`/verif/gofacts/golite.go` translates, on every run, the `Validate` / `ValidateWith` / `fieldInclusion` /
`…OverflowsField` methods of every record type (and the `validator` helper methods they call that consist of
`if`/`switch`/`return` only) into terms of `Prog`; `Ach/Generated/Validators.lean` holds the result.  This file gives
the terms their meaning (`exec`), so the record-level validation model *is* the current source, re-read on every
check.  Built-in functions (`isAlphanumeric`, `CalculateCheckDigit`, `strconv.Atoi`, the converters, ...) are
hand-written here from their Go text and tied by the `recvalidate` correspondence stream (real `Validate()` of every
record type vs `run` on the same field values and option flags).

Go semantics kept: first error wins; `:=` declares in the current block and the declaration disappears at the end of
the block; `=` assigns the visible variable; `&&`/`||` short-circuit; a nil `*ValidateOpts` sets no flag; `len` and
indexing are by byte.  Anything outside the embedding evaluates to `Val.bad` / `Sig.stuck`.
-/
namespace Ach.GoLite

inductive Val where
  | int (i : Int)
  | str (s : Str)
  | bool (b : Bool)
  | err (t : Option String)      -- `none` = nil; `some tag` = a non-nil error (tag = FieldName of a FieldError, "" otherwise)
  | pair (a b : Val)
  | ref (path : String)          -- a non-nil pointer to the record stored under `path`
  | nilp                         -- a nil pointer / nil slice
  | lst (path : String) (n : Nat)  -- a slice of n records stored under path[0] … path[n-1]
  | bad
deriving DecidableEq, Repr, Inhabited

inductive Expr where
  | fld (n : String)
  | var (n : String)
  | glob (n : String)
  | int (i : Int)
  | str (s : String)
  | bool (b : Bool)
  | nil
  | flag (src : String) (n : String)
  | mkErr (tag : String)
  | wrapErr (tag : String) (e : Expr)   -- fieldError(tag, e, …): a *FieldError is kept, any other error gets the tag
  | nonNil (e : Expr)
  | not (a : Expr)
  | and (a b : Expr)
  | or (a b : Expr)
  | eq (a b : Expr)
  | ne (a b : Expr)
  | lt (a b : Expr)
  | le (a b : Expr)
  | gt (a b : Expr)
  | ge (a b : Expr)
  | add (a b : Expr)
  | sub (a b : Expr)
  | mul (a b : Expr)
  | mod (a b : Expr)
  | div (a b : Expr)
  | sel (e : Expr) (n : String)    -- e.n for a pointer-valued e (nil: Go panics, here `bad`)
  | idx (e : Expr) (i : Expr)      -- e[i] for a slice of records
  | self                           -- the receiver itself
  | pair (a b : Expr)              -- `return a, b`
  | call0 (f : String)
  | call1 (f : String) (a : Expr)
  | call2 (f : String) (a b : Expr)
  | call3 (f : String) (a b c : Expr)
  | unknown (src : String)
deriving Repr, Inhabited, DecidableEq

inductive Prog where
  | skip
  | ret (e : Expr)
  | ite (c : Expr) (t e : Prog)
  | seq (a b : Prog)
  | block (p : Prog)
  | bind (x : String) (e : Expr)
  | bind2 (x y : String) (e : Expr)
  | assign (x : String) (e : Expr)
  | assign2 (x y : String) (e : Expr)
  | check (tag : Option String) (body : Prog)
  | sub (x : String) (params : List String) (args : List Expr) (body : Prog)
  | checkOn (tag : Option String) (recv : Expr) (params : List String) (args : List Expr) (body : Prog)
  | subOn (x : String) (recv : Expr) (params : List String) (args : List Expr) (body : Prog)
  | forEach (v : String) (coll : Expr) (body : Prog)   -- for _, v := range coll
  | forIdx (i : String) (coll : Expr) (body : Prog)    -- for i := 0; i < len(coll); i++  /  for i := range coll
  | brk
  | cont
  | effect (src : String)     -- a statement that modifies the receiver (a Set… call): outside the embedding, the run is stuck
  | unknown (src : String)
deriving Repr, Inhabited, DecidableEq

def seqs : List Prog → Prog
  | [] => .skip
  | [p] => p
  | p :: ps => .seq p (seqs ps)

/-- what does not change while a validator runs -/
structure Ctx where
  fields : List (String × Val)
  recvFlags : List String      -- flags set in the receiver's `validateOpts` (nil = none)
  paramFlags : List String     -- flags set in a `*ValidateOpts` parameter (nil = none)
  ext : List (String × Bool)   -- results of third-party predicates, keyed "fn:arg" (iso3166.Valid, iso4217.Lookup)
  recv : String := ""          -- path of the current receiver ("" = the root record); fields are keyed by full path
deriving Repr

abbrev Locals := List (String × Val)

inductive Sig where
  | next
  | ret (v : Val)
  | brk
  | cont
  | stuck (why : String)
deriving DecidableEq, Repr

def lookup (l : List (String × Val)) (n : String) : Val :=
  match l with
  | [] => .bad
  | (k, v) :: r => if k == n then v else lookup r n

def update (l : Locals) (n : String) (v : Val) : Option Locals :=
  match l with
  | [] => none
  | (k, w) :: r => if k == n then some ((k, v) :: r) else (update r n v).map ((k, w) :: ·)

def joinPath (p n : String) : String := if p == "" then n else p ++ "." ++ n

def elemPath (p : String) (i : Nat) : String := p ++ "[" ++ toString i ++ "]"

def hasFlag (cx : Ctx) (src n : String) : Bool :=
  if src == "recv" then cx.recvFlags.contains n else if src == "param" then cx.paramFlags.contains n else false

/-! ## built-in functions (hand-written from validators.go / converters.go / the standard library) -/

/-- `validator.isAlphanumeric`: every rune is in the accepted set -/
def alnumRune (c : Char) : Bool :=
  let r := c.val.toNat
  (0x20 ≤ r && r ≤ 0x7E) || (0xC0 ≤ r && r ≤ 0xFF) ||
  r == 0xA0 || r == 0xA2 || r == 0xAC || r == 0xA6 || r == 0xB1 || r == 0xD8

/-- `validator.isUpperASCII` -/
def upperRune (c : Char) : Bool :=
  let r := c.val.toNat
  r == 0x20 || (0x30 ≤ r && r ≤ 0x39) || (0x41 ≤ r && r ≤ 0x5A)

def errIf (b : Bool) : Val := if b then .err (some "") else .err none

def switchAccepts (sw : List Gen.Switch) (i : Nat) : List Int × List String :=
  match sw[i]? with
  | some s => (s.clauses.flatMap (·.ivals), s.clauses.flatMap (·.svals))
  | none => ([], [])

def toUpperAscii (c : Char) : Char := if 'a' ≤ c && c ≤ 'z' then Char.ofNat (c.toNat - 32) else c

/-- bytes `[lo, hi)` of an ASCII string; `bad` when the string is not ASCII or the bounds are off (Go would panic) -/
def sliceAscii (s : Str) (lo hi : Int) : Val :=
  if allAscii s && 0 ≤ lo && lo ≤ hi && hi ≤ s.length then .str ((s.drop lo.toNat).take (hi - lo).toNat) else .bad

def builtin1 (ext : List (String × Bool)) (f : String) (a : Val) : Val :=
  match f, a with
  | "isAlphanumeric", .str s => errIf (!s.all alnumRune)
  | "isUpperASCII", .str s => errIf (!s.all upperRune)
  | "len", .str s => .int (byteLen s)
  | "len", .lst _ n => .int n
  | "len", .nilp => .int 0
  | "utf8.RuneCountInString", .str s => .int s.length
  | "strconv.Atoi", .str s =>
      -- a range error also returns a non-nil error (with the clamped value)
      match atoi s with
      | some v => if (signSplit s).2.length > 18 && (v == maxInt64 || v == minInt64) then .bad else .pair (.int v) (.err none)
      | none => .pair (.int 0) (.err (some ""))
  | "strconv.Itoa", .int i => .str (itoa i)
  | "CalculateCheckDigit", .str s => .int (calculateCheckDigit s)
  | "asciiIndices", .str s => if allAscii s then .lst "" s.length else .bad   -- `for i, r := range s` on ASCII text
  | "roundUp10", .int n => if 0 ≤ n then .int (roundUp10 n.toNat) else .bad
  | "runeIndices", .str s => .lst "" s.length                                   -- `for _, r := range s`: one step per rune
  | "parseStringField", .str s => .str (trimSpace s)
  | "strings.TrimSpace", .str s => .str (trimSpace s)
  | "strings.ToUpper", .str s => if allAscii s then .str (s.map toUpperAscii) else .bad
  | "iso3166.Valid", .str s => match ext.lookup ("iso3166.Valid:" ++ String.ofList s) with
      | some b => .bool b
      | none => .bad
  | "iso4217.Lookup", .str s => match ext.lookup ("iso4217.Lookup:" ++ String.ofList s) with
      | some b => .pair .bad (.bool b)
      | none => .bad
  | "errors.New", _ => .err (some "")
  | "fmt.Errorf", _ => .err (some "")
  | "usabbrev.Valid", .str s =>
      if allAscii s then .bool (Gen.usabbrevKeys.contains (String.ofList (s.map toUpperAscii))) else .bad
  | "opt.recv.CheckTransactionCode", .int c =>
      -- the caller-supplied predicate; the correspondence stream installs "accept even codes only"
      errIf (c % 2 != 0)
  | f, .str k =>
      -- `_, ok := <dict>[k]`: membership in a code dictionary (keys re-extracted into Ach.Gen.dictKeys)
      if f.startsWith "dict." then
        match Gen.dictKeys.lookup (f.drop 5).toString with
        | some ks => .pair (.int 0) (.bool (ks.contains (String.ofList k)))
        | none => .bad
      else .bad
  | _, _ => .bad

def builtin2 (f : String) (a b : Val) : Val :=
  match f, a, b with
  | "stringField", .str s, .int n => if 0 ≤ n then .str (stringField s n.toNat) else .bad
  | "alphaField", .str s, .int n => if 0 ≤ n then .str (alphaField s n.toNat) else .bad
  | "numericField", .int v, .int n => if 0 ≤ n then .str (numericField v n.toNat) else .bad
  | "fmt.Errorf", _, _ => .err (some "")
  | "leastSignificantDigits", .int v, .int n => if 0 ≤ n then .int (leastSignificantDigits v n.toNat) else .bad
  | "strings.Trim", .str s, .str cut =>
      .str (((s.dropWhile cut.contains).reverse.dropWhile cut.contains).reverse)
  | "strings.EqualFold", .str a, .str b =>
      if allAscii a && allAscii b then .bool (a.map toUpperAscii == b.map toUpperAscii) else .bad
  | "index", .str s, .int i =>
      if allAscii s && 0 ≤ i && i < s.length then .int ((s.getD i.toNat ' ').toNat) else .bad
  | "runeAt", .str s, .int k => if 0 ≤ k && k < s.length then .int ((s.getD k.toNat ' ').val.toNat) else .bad
  | "sliceFrom", .str s, .int lo => sliceAscii s lo s.length
  | _, _, _ => .bad

def builtin3 (f : String) (a b c : Val) : Val :=
  match f, a, b, c with
  | "slice", .str s, .int lo, .int hi => sliceAscii s lo hi
  | "fmt.Errorf", _, _, _ => .err (some "")
  | _, _, _, _ => .bad

/-- Go string order is byte-wise; on valid UTF-8 that is code-point order -/
def strLt (a b : Str) : Bool := decide (a.map (·.val.toNat) < b.map (·.val.toNat))

def cmpVals (op : String) (a b : Val) : Val :=
  match a, b with
  | .int x, .int y =>
      .bool (match op with
        | "lt" => decide (x < y) | "le" => decide (x ≤ y) | "gt" => decide (x > y) | "ge" => decide (x ≥ y)
        | "eq" => decide (x = y) | _ => decide (x ≠ y))
  | .str x, .str y =>
      .bool (match op with
        | "lt" => strLt x y | "le" => !strLt y x | "gt" => strLt y x | "ge" => !strLt x y
        | "eq" => decide (x = y) | _ => decide (x ≠ y))
  | .bool x, .bool y => if op == "eq" then .bool (x == y) else if op == "ne" then .bool (x != y) else .bad
  | .err x, .err y =>
      -- only comparisons with nil are meaningful
      if x.isSome && y.isSome then .bad
      else if op == "eq" then .bool (x.isSome == y.isSome) else if op == "ne" then .bool (x.isSome != y.isSome) else .bad
  | .ref _, .err none | .lst _ _, .err none =>
      if op == "eq" then .bool false else if op == "ne" then .bool true else .bad
  | .nilp, .err none => if op == "eq" then .bool true else if op == "ne" then .bool false else .bad
  | _, _ => .bad

def arith (op : String) (a b : Val) : Val :=
  match a, b with
  | .int x, .int y =>
      match op with
      | "add" => .int (x + y) | "sub" => .int (x - y) | "mul" => .int (x * y)
      | "mod" => if y == 0 then .bad else .int (Int.tmod x y)
      | _ => if y == 0 then .bad else .int (Int.tdiv x y)
  | .str x, .str y => if op == "add" then .str (x ++ y) else .bad
  | _, _ => .bad

def eval (cx : Ctx) (l : Locals) : Expr → Val
  | .fld n => lookup cx.fields (joinPath cx.recv n)
  | .self => .ref cx.recv
  | .sel e n => match eval cx l e with
      | .ref p => lookup cx.fields (joinPath p n)
      | _ => .bad
  | .idx e i => match eval cx l e, eval cx l i with
      | .lst p n, .int k => if 0 ≤ k && k < n then .ref (elemPath p k.toNat) else .bad
      | _, _ => .bad
  | .pair a b => match eval cx l a, eval cx l b with
      | .bad, _ => .bad
      | _, .bad => .bad
      | x, y => .pair x y
  | .var n => lookup l n
  | .glob _ => .bad
  | .int i => .int i
  | .str s => .str s.toList
  | .bool b => .bool b
  | .nil => .err none
  | .flag src n => .bool (hasFlag cx src n)
  | .mkErr t => .err (some t)
  | .wrapErr t e => match eval cx l e with
      | .err (some "") => .err (some t)
      | .err (some u) => .err (some u)
      | .err none => .err none
      | _ => .bad
  | .nonNil e => match eval cx l e with
      | .err (some t) => .err (some t)
      | _ => .bad
  | .not a => match eval cx l a with
      | .bool b => .bool (!b)
      | _ => .bad
  | .and a b => match eval cx l a with
      | .bool false => .bool false
      | .bool true => (match eval cx l b with | .bool y => .bool y | _ => .bad)
      | _ => .bad
  | .or a b => match eval cx l a with
      | .bool true => .bool true
      | .bool false => (match eval cx l b with | .bool y => .bool y | _ => .bad)
      | _ => .bad
  | .eq a b => cmpVals "eq" (eval cx l a) (eval cx l b)
  | .ne a b => cmpVals "ne" (eval cx l a) (eval cx l b)
  | .lt a b => cmpVals "lt" (eval cx l a) (eval cx l b)
  | .le a b => cmpVals "le" (eval cx l a) (eval cx l b)
  | .gt a b => cmpVals "gt" (eval cx l a) (eval cx l b)
  | .ge a b => cmpVals "ge" (eval cx l a) (eval cx l b)
  | .add a b => arith "add" (eval cx l a) (eval cx l b)
  | .sub a b => arith "sub" (eval cx l a) (eval cx l b)
  | .mul a b => arith "mul" (eval cx l a) (eval cx l b)
  | .mod a b => arith "mod" (eval cx l a) (eval cx l b)
  | .div a b => arith "div" (eval cx l a) (eval cx l b)
  | .call0 _ => .bad
  | .call1 f a => builtin1 cx.ext f (eval cx l a)
  | .call2 f a b => builtin2 f (eval cx l a) (eval cx l b)
  | .call3 f a b c => builtin3 f (eval cx l a) (eval cx l b) (eval cx l c)
  | .unknown _ => .bad

/-- leave a block: declarations made inside disappear, assignments to outer variables stay -/
def scopeExit (outer new : Locals) : Locals := new.drop (new.length - outer.length)

/-- one loop: run `f` (the body) for every index, binding the loop variable; `continue` goes on, `break` leaves -/
def iter (f : Locals → Locals × Sig) (mk : Nat → Val) (v : String) : List Nat → Locals → Locals × Sig
  | [], l => (l, .next)
  | i :: is, l =>
      let r := f ((v, mk i) :: l)
      match r.2 with
      | .next => iter f mk v is (scopeExit l r.1)
      | .cont => iter f mk v is (scopeExit l r.1)
      | .brk => (scopeExit l r.1, .next)
      | s => (scopeExit l r.1, s)

/-- result of a call used as `if err := f(); err != nil { return [fieldError(tag,] err[)] }` -/
def checkResult (tag : Option String) (l : Locals) (s : Sig) : Locals × Sig :=
  match s with
  | .ret (.err none) => (l, .next)
  | .ret (.err (some t)) =>
      -- `return err`: unchanged; `return fieldError(tag, err)`: a FieldError keeps its name; `return x.Error(tag, err)`
      -- (tag written with a leading "!"): the new BatchError's name always wins
      (l, .ret (.err (some (match tag with
        | none => t
        | some tg => if tg.startsWith "!" then (tg.drop 1).toString else if t == "" then tg else t))))
  | _ => (l, .stuck "check")

def subResult (x : String) (l : Locals) (s : Sig) : Locals × Sig :=
  match s with
  | .ret .bad => (l, .stuck "sub")
  | .ret v => ((x, v) :: l, .next)
  | _ => (l, .stuck "sub")

def exec : Prog → Ctx → Locals → Locals × Sig
  | .skip, _, l => (l, .next)
  | .brk, _, l => (l, .brk)
  | .cont, _, l => (l, .cont)
  | .ret e, cx, l => (l, .ret (eval cx l e))
  | .ite c t e, cx, l =>
      match eval cx l c with
      | .bool true => let r := exec t cx l; (scopeExit l r.1, r.2)
      | .bool false => let r := exec e cx l; (scopeExit l r.1, r.2)
      | _ => (l, .stuck "condition")
  | .seq a b, cx, l =>
      match exec a cx l with
      | (l1, .next) => exec b cx l1
      | r => r
  | .block p, cx, l => let r := exec p cx l; (scopeExit l r.1, r.2)
  | .bind x e, cx, l =>
      match eval cx l e with
      | .bad => (l, .stuck "bind")
      | v => ((x, v) :: l, .next)
  | .bind2 x y e, cx, l =>
      match eval cx l e with
      | .pair a b => ((y, b) :: (x, a) :: l, .next)
      | _ => (l, .stuck "bind2")
  | .assign x e, cx, l =>
      match eval cx l e with
      | .bad => (l, .stuck "assign")
      | v => match update l x v with
        | some l1 => (l1, .next)
        | none => (l, .stuck "assign")
  | .assign2 x y e, cx, l =>
      match eval cx l e with
      | .pair a b =>
          let l1 := if x == "_" then some l else update l x a
          match l1.bind (fun l1 => if y == "_" then some l1 else update l1 y b) with
          | some l2 => (l2, .next)
          | none => (l, .stuck "assign2")
      | _ => (l, .stuck "assign2")
  | .check tag body, cx, l => checkResult tag l (exec body cx []).2
  | .sub x params args body, cx, l =>
      let vals := args.map (eval cx l)
      if vals.contains .bad || params.length != vals.length then (l, .stuck "sub args")
      else subResult x l (exec body cx (params.zip vals).reverse).2
  | .checkOn tag recv params args body, cx, l =>
      let vals := args.map (eval cx l)
      match eval cx l recv with
      | .ref p =>
          if vals.contains .bad || params.length != vals.length then (l, .stuck "call args")
          else checkResult tag l (exec body { cx with recv := p } (params.zip vals).reverse).2
      | _ => (l, .stuck "nil receiver")
  | .subOn x recv params args body, cx, l =>
      let vals := args.map (eval cx l)
      match eval cx l recv with
      | .ref p =>
          if vals.contains .bad || params.length != vals.length then (l, .stuck "call args")
          else subResult x l (exec body { cx with recv := p } (params.zip vals).reverse).2
      | _ => (l, .stuck "nil receiver")
  | .forEach v coll body, cx, l =>
      match eval cx l coll with
      | .lst p n => iter (fun l' => exec body cx l') (fun i => .ref (elemPath p i)) v (List.range n) l
      | .nilp => (l, .next)
      | _ => (l, .stuck "range")
  | .forIdx i coll body, cx, l =>
      match eval cx l coll with
      | .lst _ n => iter (fun l' => exec body cx l') (fun k => .int k) i (List.range n) l
      | .nilp => (l, .next)
      | _ => (l, .stuck "range")
  | .effect _, _, l => (l, .stuck "effect")
  | .unknown _, _, l => (l, .stuck "unknown")

inductive Outcome where
  | accept
  | reject (field : String)
  | stuck
deriving DecidableEq, Repr

/-- run a validator function on a receiver -/
def run (cx : Ctx) (p : Prog) : Outcome :=
  match (exec p cx []).2 with
  | .ret (.err none) => .accept
  | .ret (.err (some t)) => .reject t
  | _ => .stuck

/-! ## static shape predicates (decidable; evaluated on the generated programs) -/

/-- the relaxation options of property C15 -/
def relaxFlags : List String :=
  ["BypassOriginValidation", "BypassDestinationValidation", "CustomTraceNumbers", "AllowZeroBatches",
   "AllowMissingFileHeader", "AllowMissingFileControl", "BypassCompanyIdentificationMatch", "CustomReturnCodes",
   "UnequalServiceClassCode", "AllowUnorderedBatchNumbers", "AllowInvalidCheckDigit", "UnequalAddendaCounts",
   "AllowInvalidAmounts", "AllowZeroEntryAmount", "AllowSpecialCharacters"]

def known1 : List String := ["isAlphanumeric", "isUpperASCII", "len", "utf8.RuneCountInString", "strconv.Atoi", "strconv.Itoa",
  "CalculateCheckDigit", "asciiIndices", "roundUp10", "runeIndices", "parseStringField", "strings.TrimSpace", "strings.ToUpper", "iso3166.Valid", "iso4217.Lookup",
  "errors.New", "fmt.Errorf", "opt.recv.CheckTransactionCode", "dict.changeCodeDict", "dict.returnCodeDict", "usabbrev.Valid"]
def known2 : List String := ["runeAt", "stringField", "alphaField", "numericField", "fmt.Errorf", "index", "sliceFrom", "strings.EqualFold", "strings.Trim", "leastSignificantDigits"]
def known3 : List String := ["slice", "fmt.Errorf"]

def exprKnown : Expr → Bool
  | .unknown _ => false
  | .glob _ => false
  | .call0 _ => false
  | .nonNil e | .not e | .wrapErr _ e => exprKnown e
  | .and a b | .or a b | .eq a b | .ne a b | .lt a b | .le a b | .gt a b | .ge a b
  | .add a b | .sub a b | .mul a b | .mod a b | .div a b => exprKnown a && exprKnown b
  | .sel e _ => exprKnown e
  | .idx e i | .pair e i => exprKnown e && exprKnown i
  | .call1 f a => known1.contains f && exprKnown a
  | .call2 f a b => known2.contains f && exprKnown a && exprKnown b
  | .call3 f a b c => known3.contains f && exprKnown a && exprKnown b && exprKnown c
  | _ => true

def progKnown : Prog → Bool
  | .unknown _ => false
  | .skip => true
  | .ret e | .bind _ e | .bind2 _ _ e | .assign _ e | .assign2 _ _ e => exprKnown e
  | .ite c t e => exprKnown c && progKnown t && progKnown e
  | .seq a b => progKnown a && progKnown b
  | .block p => progKnown p
  | .check _ b => progKnown b
  | .sub _ _ args b => args.all exprKnown && progKnown b
  | .checkOn _ r _ args b | .subOn _ r _ args b => exprKnown r && args.all exprKnown && progKnown b
  | .forEach _ c b | .forIdx _ c b => exprKnown c && progKnown b
  | .brk | .cont | .effect _ => true

/-- no reference to a relaxation flag -/
def exprNoRelax : Expr → Bool
  | .flag _ n => !relaxFlags.contains n
  | .nonNil e | .not e | .wrapErr _ e => exprNoRelax e
  | .and a b | .or a b | .eq a b | .ne a b | .lt a b | .le a b | .gt a b | .ge a b
  | .add a b | .sub a b | .mul a b | .mod a b | .div a b => exprNoRelax a && exprNoRelax b
  | .sel e _ => exprNoRelax e
  | .idx e i | .pair e i => exprNoRelax e && exprNoRelax i
  | .call1 _ a => exprNoRelax a
  | .call2 _ a b => exprNoRelax a && exprNoRelax b
  | .call3 _ a b c => exprNoRelax a && exprNoRelax b && exprNoRelax c
  | _ => true

def progNoRelax : Prog → Bool
  | .skip | .unknown _ | .brk | .cont | .effect _ => true
  | .ret e | .bind _ e | .bind2 _ _ e | .assign _ e | .assign2 _ _ e => exprNoRelax e
  | .ite c t e => exprNoRelax c && progNoRelax t && progNoRelax e
  | .seq a b => progNoRelax a && progNoRelax b
  | .block p => progNoRelax p
  | .check _ b => progNoRelax b
  | .sub _ _ args b => args.all exprNoRelax && progNoRelax b
  | .checkOn _ r _ args b | .subOn _ r _ args b => exprNoRelax r && args.all exprNoRelax && progNoRelax b
  | .forEach _ c b | .forIdx _ c b => exprNoRelax c && progNoRelax b

/-- the expression is syntactically a non-nil error -/
def isErrExpr : Expr → Bool
  | .mkErr _ => true
  | .nonNil _ => true
  | .wrapErr _ (.nonNil _) => true
  | .call1 f _ => f == "errors.New" || f == "fmt.Errorf"
  | .call2 f _ _ => f == "fmt.Errorf"
  | .call3 f _ _ _ => f == "fmt.Errorf"
  | _ => false

/-- every `return` of this function body (not of its callees) returns a non-nil error -/
def rejectOnly : Prog → Bool
  | .ret e => isErrExpr e
  | .ite _ t e => rejectOnly t && rejectOnly e
  | .seq a b => rejectOnly a && rejectOnly b
  | .block p => rejectOnly p
  | .forEach _ _ b | .forIdx _ _ b => rejectOnly b
  | .unknown _ => false
  | _ => true

/-- no assignment to an already declared variable at this function level -/
def noAssign : Prog → Bool
  | .assign _ _ | .assign2 _ _ _ => false
  | .ite _ t e => noAssign t && noAssign e
  | .seq a b => noAssign a && noAssign b
  | .block p => noAssign p
  | .forEach _ _ _ | .forIdx _ _ _ | .brk | .cont => false
  | _ => true

def isSkip : Prog → Bool
  | .skip => true
  | _ => false

/-- the expression reads no local variable (its value does not depend on where in the function it is evaluated) -/
def exprNoVar : Expr → Bool
  | .var _ => false
  | .nonNil e | .not e | .wrapErr _ e => exprNoVar e
  | .and a b | .or a b | .eq a b | .ne a b | .lt a b | .le a b | .gt a b | .ge a b
  | .add a b | .sub a b | .mul a b | .mod a b | .div a b => exprNoVar a && exprNoVar b
  | .sel e _ => exprNoVar e
  | .idx e i | .pair e i => exprNoVar e && exprNoVar i
  | .call1 _ a => exprNoVar a
  | .call2 _ a b => exprNoVar a && exprNoVar b
  | .call3 _ a b c => exprNoVar a && exprNoVar b && exprNoVar c
  | _ => true

def isErrRet : Prog → Bool
  | .ret e => isErrExpr e
  | _ => false

/-- guards on the spine of a function: conditions over the receiver's fields and the option flags that must all be
false for the function to return nil, i.e. the `if cond { return <non-nil error> }` statements that every accepting
run passes (statements after something that may itself return nil are not on the spine) -/
def spine : Prog → List Expr
  | .seq a b => spine a ++ (if rejectOnly a then spine b else [])
  | .block p => spine p
  | .check _ body => spine body
  | .ite c t e => if isErrRet t && isSkip e && exprNoVar c then [c] else []
  | _ => []

/-- the function's own body holds a statement that modifies a record (callees are programs of their own) -/
def hasEffect : Prog → Bool
  | .effect s => !s.startsWith "dispatch:"   -- the fallback of a dynamic dispatch is not a mutation
  | .ite _ t e => hasEffect t || hasEffect e
  | .seq a b => hasEffect a || hasEffect b
  | .block p => hasEffect p
  | .forEach _ _ b | .forIdx _ _ b => hasEffect b
  | _ => false

def isRetNil : Prog → Bool
  | .ret .nil => true
  | _ => false

/-- a condition that switching on relaxation flags can only turn to `false`: `!flag`, and conjunctions of such a
condition with flag-free ones (`!flag && a != b`, `a != b && !flag`) -/
def antiCond : Expr → Bool
  | .not (.flag _ n) => relaxFlags.contains n
  | .and a b => (antiCond a && exprNoRelax b) || (exprNoRelax a && antiCond b)
  | _ => false

/-- the shapes under which a relaxation flag may occur: `if !flag [&& cond] { checks that can only reject }` and
`if flag { return nil }`; everything else must not mention a relaxation flag -/
def relaxOK : Prog → Bool
  | .skip => true
  | .unknown _ => false
  | .ret e | .bind _ e | .bind2 _ _ e | .assign _ e | .assign2 _ _ e => exprNoRelax e
  | .seq a b => relaxOK a && relaxOK b
  | .block p => relaxOK p
  | .check _ b => relaxOK b
  | .sub _ _ args b => args.all exprNoRelax && progNoRelax b
  | .checkOn _ r _ args b => exprNoRelax r && args.all exprNoRelax && relaxOK b
  | .subOn _ r _ args b => exprNoRelax r && args.all exprNoRelax && progNoRelax b
  | .forEach _ c b | .forIdx _ c b => exprNoRelax c && relaxOK b
  | .brk | .cont | .effect _ => true
  | .ite c t e =>
      if antiCond c then isSkip e && rejectOnly t && noAssign t && relaxOK t else
      match c with
      | .flag _ n =>
          if relaxFlags.contains n then isRetNil t && relaxOK e
          else relaxOK t && relaxOK e
      | c => exprNoRelax c && relaxOK t && relaxOK e

end Ach.GoLite
