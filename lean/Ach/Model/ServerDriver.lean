import Ach.Model.Server
/-!
# Line protocol of the `server` correspondence stream

`Ach.Server.runOps : List String → List String`, one output line per input line, the state threaded through the
lines (starting from the empty server).  Tokens are decimal naturals.  Explicit file / batch IDs must be < 100:
the n-th generated ID (`base.ID()`, n = 0, 1, …) is the token `100 + n`.

    create <id|-> <fileTok> <parseOK:0|1> <validOK:0|1>       POST /files/<id|create>, NACHA text body
    createjson <id|-> <fileTok> <parseOK:0|1> <validOK:0|1>   same, JSON body
    get <id> | delete <id> | list | validate <id> | build <id> | flatten <id> | segment <id>
    contents <id> <crlf:0|1>
    segmentbody <fileTok> <parseOK> <validOK>                 POST /segment, NACHA text body
    addbatch <id> <batchTok> | getbatch <id> <b> | delbatch <id> <b> | batches <id>
    reset                                                     a fresh server (state := init); prints `ok -`

Draw accounting (the Go side must bind the server's random IDs in this order): `create` / `createjson` with `-`
draws one (whatever the parser said); `flatten` that succeeds draws one; `segment` / `segmentbody` that succeed draw two
(credit = first, debit = second, also when a side is absent); `addbatch` with `batchTok` = 0 draws one (even when the
file is missing).

## The token library `tokLib`
A file is `⟨tok, id, valid, tab, kind, batches⟩`.  A body `(fileTok, parseOK, validOK)` parses (text) to
`⟨fileTok, none, validOK, false, 0, if validOK then [0] else []⟩` with an error iff `parseOK = 0`; JSON is the same
except that `parseOK = 0 ∧ validOK = 0` gives *no* file (the server then stores `NewFile()` = `⟨0, none, false, …⟩`).
`validOK` says whether `File.Create` / `ValidateWith` / `FlattenBatches` / `SegmentFile` succeed on the file;
`create f` = `f` with `tab := true` when valid (else `f` and an error); `validate` ignores the options;
`flatten f` = `f` with `kind := 1`; `segment f` = credit part (`kind := 2`) iff `tok` is odd, debit part (`kind := 3`)
iff `tok % 4 ≥ 2`; none of them changes its receiver.  Batch token 0 has no ID, batch token b > 0 has ID b; a batch
that gets generated ID i becomes token i.  `writeText f crlf` = the pair `(f, crlf)`.

## Output: `<status> <payload>`
status ∈ ok created badRequest notFound conflict error libErr (`libErr` = `codeFrom` of a library error: 400 or 500).
A file prints as `<id|->:<tok>:<kind>:<b1.b2.…>` (`tab` is not printed: it is not observable when C05 holds).
payload: `-` | `file F` | `idfile <id> F` | `files F,F,…` (sorted by ID) | `text <crlf> F` | `seg <id=F|-> <id=F|->`
| `id <i>` | `batch <b>` | `batches null` | `batches <b1.b2.…>`.  A malformed line prints `bad-op`.
-/
namespace Ach.Server

structure TFile where
  tok : Nat
  id : Option Nat
  valid : Bool
  tab : Bool
  kind : Nat
  batches : List Nat
  deriving DecidableEq, Repr

/-- body token = `fileTok * 4 + parseOK * 2 + validOK` -/
def mkBody (tok : Nat) (parseOK validOK : Bool) : Tok := tok * 4 + (if parseOK then 2 else 0) + (if validOK then 1 else 0)

def bodyFile (b : Tok) : TFile := ⟨b / 4, none, b % 2 == 1, false, 0, if b % 2 == 1 then [0] else []⟩
def bodyErr (b : Tok) : Option Err := if b / 2 % 2 == 1 then none else some 1

def tokLib : Lib TFile (TFile × Bool) where
  newFile := ⟨0, none, false, false, 0, []⟩
  parseText b _ := (bodyFile b, bodyErr b)
  parseJSON b _ := if b % 4 == 0 then (none, some 1) else (some (bodyFile b), bodyErr b)
  fileId f := f.id
  setId f i := { f with id := some i }
  setOpts f _ := f
  create f := if f.valid then ({ f with tab := true }, none) else (f, some 2)
  validate f _ := if f.valid then none else some 3
  flatten f := (f, if f.valid then .ok { f with id := none, tab := true, kind := 1 } else .error 4)
  segment f :=
    (f, if f.valid then
          .ok (if f.tok % 2 == 1 then some { f with id := none, tab := true, kind := 2 } else none,
               if f.tok % 4 ≥ 2 then some { f with id := none, tab := true, kind := 3 } else none)
        else .error 5)
  writeText f crlf := if f.valid then .ok (f, crlf) else .error 6
  batches f := f.batches
  batchId b := if b == 0 then none else some b
  setBatchId _ i := i
  addBatch f b := { f with batches := f.batches ++ [b] }
  dropBatch f i := { f with batches := f.batches.eraseIdx i }
  freshId n := 100 + n

def showNats (l : List Nat) : String := ".".intercalate (l.map toString)

def showFile (f : TFile) : String :=
  s!"{match f.id with | some i => toString i | none => "-"}:{f.tok}:{f.kind}:{showNats f.batches}"

def insertById (f : TFile) : List TFile → List TFile
  | [] => [f]
  | g :: gs => if f.id.getD 0 ≤ g.id.getD 0 then f :: g :: gs else g :: insertById f gs

def sortById (l : List TFile) : List TFile := l.foldr insertById []

def showStatus : Status → String
  | .ok => "ok" | .created => "created" | .badRequest => "badRequest" | .notFound => "notFound"
  | .conflict => "conflict" | .error => "error" | .libErr => "libErr"

def showPart : Option (Id × TFile) → String
  | some p => s!"{p.1}={showFile p.2}"
  | none => "-"

def showBody : Body TFile (TFile × Bool) → String
  | .none => "-"
  | .file f => s!"file {showFile f}"
  | .idFile i f => s!"idfile {i} {showFile f}"
  | .files l => "files " ++ ",".intercalate ((sortById l).map showFile)
  | .text t => s!"text {if t.2 then 1 else 0} {showFile t.1}"
  | .seg c d => s!"seg {showPart c} {showPart d}"
  | .id i => s!"id {i}"
  | .batch b => s!"batch {b}"
  | .batches none => "batches null"
  | .batches (some l) => s!"batches {showNats l}"

def showResp (r : Resp TFile (TFile × Bool)) : String := s!"{showStatus r.status} {showBody r.body}"

def flag (s : String) : Option Bool := if s == "1" then some true else if s == "0" then some false else none

def parseCreate (json : Bool) (id tok p v : String) : Option Req :=
  match (if id == "-" then some none else id.toNat?.map some), tok.toNat?, flag p, flag v with
  | some path, some t, some p, some v => some (.create path json (mkBody t p v) 0)
  | _, _, _, _ => none

def parseReq (line : String) : Option Req :=
  match line.trimAscii.toString.splitOn " " with
  | ["create", id, tok, p, v] => parseCreate false id tok p v
  | ["createjson", id, tok, p, v] => parseCreate true id tok p v
  | ["get", id] => id.toNat?.map .get
  | ["delete", id] => id.toNat?.map .delete
  | ["list"] => some .list
  | ["validate", id] => id.toNat?.map (.validate · 0)
  | ["build", id] => id.toNat?.map .build
  | ["flatten", id] => id.toNat?.map .flatten
  | ["segment", id] => id.toNat?.map .segment
  | ["contents", id, c] => match id.toNat?, flag c with
    | some i, some c => some (.contents i c)
    | _, _ => none
  | ["segmentbody", tok, p, v] => match tok.toNat?, flag p, flag v with
    | some t, some p, some v => some (.segmentBody false (mkBody t p v) none)
    | _, _, _ => none
  | ["addbatch", id, b] => match id.toNat?, b.toNat? with
    | some i, some b => some (.addBatch i b)
    | _, _ => none
  | ["getbatch", id, b] => match id.toNat?, b.toNat? with
    | some i, some b => some (.getBatch i b)
    | _, _ => none
  | ["delbatch", id, b] => match id.toNat?, b.toNat? with
    | some i, some b => some (.delBatch i b)
    | _, _ => none
  | ["batches", id] => id.toNat?.map .batches
  | _ => none

def runFrom (s : State TFile) : List String → List String
  | [] => []
  | l :: ls =>
    if l.trimAscii.toString == "reset" then "ok -" :: runFrom init ls else
    match parseReq l with
    | some r => showResp (step tokLib s r).2 :: runFrom (step tokLib s r).1 ls
    | none => "bad-op" :: runFrom s ls

def runOps (lines : List String) : List String := runFrom init lines

end Ach.Server
