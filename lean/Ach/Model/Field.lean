import Ach.Go.Str
/-!
# Field converters (converters.go)

`alphaField`, `stringField`, `numericField`, `parseNumField`,
`parseStringField`, `leastSignificantDigits` exactly as written in Go,
including truncation behaviour.  `lineLength = 94`.
-/
namespace Ach

def lineLength : Nat := 94

/-- converters.go `alphaField`: left-justified, space filled; truncates to `max` runes; `""` if max > 94 -/
def alphaField (s : Str) (max : Nat) : Str :=
  if max > lineLength then []
  else if s.length > max then s.take max
  else s ++ spaces (max - s.length)

/-- converters.go `stringField`: zero filled on the left; truncates to the first `max` runes -/
def stringField (s : Str) (max : Nat) : Str :=
  if max > lineLength then []
  else if s.length > max then s.take max
  else zeros (max - s.length) ++ s

/-- converters.go `numericField`: right-justified zero filled; keeps the LAST `max` characters when longer -/
def numericField (n : Int) (max : Nat) : Str :=
  if max > lineLength then []
  else
    let s := itoa n
    if s.length > max then s.drop (s.length - max)
    else zeros (max - s.length) ++ s

/-- converters.go `parseNumField`: `Atoi(TrimSpace r)`, errors ignored -/
def parseNumField (r : Str) : Int := (atoi (trimSpace r)).getD 0

/-- converters.go `parseStringField` -/
def parseStringField (r : Str) : Str := trimSpace r

def parseStringFieldWithOpts (r : Str) (preserveSpaces : Bool) : Str :=
  if preserveSpaces then r else trimSpace r

/-- converters.go `leastSignificantDigits` (Go `%` truncates toward zero) -/
def leastSignificantDigits (v : Int) (maxDigits : Nat) : Int :=
  if maxDigits > lineLength then 0 else Int.tmod v (10 ^ maxDigits)

end Ach
