import Ach.Facts
import Ach.Model.Field
/-!
# Generic record codec driven by the generated layouts

`compile` aligns a record's generated `ParseFact` (what `Parse` cuts out of the
94 columns) with its `RenderFact` (what `String()` writes) and produces a list
of contiguous `FieldSpec`s, or an error when they do not line up.  `renderRec`
and `parseRec` interpret such a list.  The round-trip theorems in
`Ach.Proofs.Layout` hold for *every* list `compile` can return; the per-record
obligations in `Ach.Props.C01`/`C02` are that `compile` succeeds on the tables
extracted from the current source.
-/
namespace Ach
open Ach.Gen

/-- how `String()` writes a field -/
inductive RK where
  | lit (s : Str)     -- constant text (record type digit, reserved blanks)
  | itoa              -- strconv.Itoa(field), unpadded
  | raw               -- the string field itself, unpadded
  | alpha             -- alphaField(field, w)
  | str               -- stringField(field, w)
  | num               -- numericField(field, w)
  | date              -- formatSimpleDate-style custom: "" ↦ blanks, else the value as is
  | routing           -- FileHeader.Immediate{Destination,Origin}Field under default options: "" ↦ blanks, else " " ++ stringField(v, w-1)
deriving Repr, DecidableEq

/-- how `Parse` reads a field -/
inductive PK where
  | none              -- columns are not read
  | raw               -- field = columns
  | num               -- parseNumField
  | trim              -- strings.TrimSpace / parseStringField
  | trimOpts          -- parseStringFieldWithOpts (trim unless PreserveSpaces)
  | date              -- validateSimpleDate
  | time              -- validateSimpleTime
  | settle            -- validateSettlementDate
  | routing           -- trimRoutingNumberLeadingZero(parseStringField(·))
deriving Repr, DecidableEq

structure FieldSpec where
  name : String
  w : Nat
  rk : RK
  pk : PK
deriving Repr, DecidableEq

inductive Val where
  | s (v : Str)
  | n (v : Int)
  | unit
deriving Repr, DecidableEq

abbrev Layout := List FieldSpec

def Layout.width (L : Layout) : Nat := (L.map (·.w)).sum

/-! ## time.Parse("060102") validity, hhmm regex, settlement date -/

def twoDigits (s : Str) : Option Nat :=
  match s with
  | [a, b] => if isDigit a && isDigit b then some (digitVal a * 10 + digitVal b) else none
  | _ => none

def daysIn (yy mm : Nat) : Nat :=
  -- time.Parse maps yy ≥ 69 to 19yy and yy < 69 to 20yy; leap years among them are the multiples of 4
  -- (1900 and 2100 are outside 1969..2068; 2000 is a leap year)
  if mm = 2 then (if yy % 4 = 0 then 29 else 28)
  else if mm = 4 || mm = 6 || mm = 9 || mm = 11 then 30 else 31

/-- `_, err := time.Parse("060102", s); err == nil` -/
def validYYMMDD (s : Str) : Bool :=
  match s with
  | [y1, y2, m1, m2, d1, d2] =>
    match twoDigits [y1, y2], twoDigits [m1, m2], twoDigits [d1, d2] with
    | some yy, some mm, some dd => 1 ≤ mm && mm ≤ 12 && 1 ≤ dd && dd ≤ daysIn yy mm
    | _, _, _ => false
  | _ => false

def validateSimpleDate (s : Str) : Str := if validYYMMDD s then s else []

/-- `^([0-2]{1}[\d]{1}[0-5]{1}\d{1})$` (Go's `\d` is ASCII; `$` without flags matches only at end of text) -/
def validateSimpleTime (s : Str) : Str :=
  match s with
  | [a, b, c, d] => if ('0' ≤ a && a ≤ '2') && isDigit b && ('0' ≤ c && c ≤ '5') && isDigit d then s else []
  | _ => []

def validateSettlementDate (s : Str) : Str :=
  if s = spaces 3 || s.length ≠ 3 then spaces 3
  else match atoi s with
    | some day => if day < 1 || day > 366 then spaces 3 else s
    | none => spaces 3

/-- fileHeader.go `trimRoutingNumberLeadingZero` (on a rune-count-10 string starting with ASCII '0', `s[1:]` is rune-safe) -/
def trimRoutingNumberLeadingZero (s : Str) : Str :=
  if s.length = 10 && s.head? = some '0' && s ≠ zeros 10 then trimSpace (s.drop 1) else trimSpace s

/-! ## interpretation -/

def renderField (f : FieldSpec) (v : Val) : Str :=
  match f.rk, v with
  | .lit s, _ => s
  | .itoa, .n k => itoa k
  | .raw, .s t => t
  | .alpha, .s t => alphaField t f.w
  | .str, .s t => stringField t f.w
  | .num, .n k => numericField k f.w
  | .date, .s t => if t.isEmpty then spaces f.w else t
  | .routing, .s t => if t.isEmpty then spaces f.w else ' ' :: stringField (trimSpace t) (f.w - 1)
  | _, _ => []        -- ill-typed value: nothing is written (never the case for values produced by parseRec)

def parseField (preserveSpaces : Bool) (f : FieldSpec) (cols : Str) : Val :=
  match f.pk with
  | .none => .unit
  | .raw => .s cols
  | .num => .n (parseNumField cols)
  | .trim => .s (trimSpace cols)
  | .trimOpts => .s (parseStringFieldWithOpts cols preserveSpaces)
  | .date => .s (validateSimpleDate cols)
  | .time => .s (validateSimpleTime cols)
  | .settle => .s (validateSettlementDate cols)
  | .routing => .s (trimRoutingNumberLeadingZero (trimSpace cols))

def renderRec : Layout → List Val → Str
  | f :: L, v :: vs => renderField f v ++ renderRec L vs
  | _, _ => []

def parseRec (ps : Bool) : Layout → Str → List Val
  | [], _ => []
  | f :: L, line => parseField ps f (line.take f.w) :: parseRec ps L (line.drop f.w)

/-! ## compile: aligning the generated facts -/

def pkOf (conv : String) : Option PK :=
  if conv = "$" || conv = "string($)" then some .raw
  else if conv = "r.parseNumField($)" then some .num
  else if conv = "strings.TrimSpace($)" || conv = "r.parseStringField($)" then some .trim
  else if conv = "r.parseStringFieldWithOpts($, r.validateOpts)" then some .trimOpts
  else if conv = "r.validateSimpleDate($)" then some .date
  else if conv = "r.validateSimpleTime($)" then some .time
  else if conv = "r.validateSettlementDate($)" then some .settle
  else if conv = "trimRoutingNumberLeadingZero(r.parseStringField($))" then some .routing
  else none

/-- a primitive render segment with a known width -/
structure Prim where
  name : String
  w : Nat
  rk : RK
deriving Repr

/-- Expansion of the custom `XField()` methods into primitive segments.  Each
entry is valid for exactly the method body whose normalised-source hash is
given; the hash comes from the generated facts, so an edit to the method makes
`compile` fail for that record until the expansion is re-validated.

The expansions state what the method writes *on the domain the C01/C02 theorems
quantify over* (`Ach.Props`: no IAT corrected data, non-empty creation
date/time, default options); outside it the methods are covered by the
correspondence streams and oracles only. -/
def customPrims (recName method : String) (hash : Nat) : Option (List Prim) :=
  if recName = "Addenda98" && method = "CorrectedDataField" && hash = 6782291120014427377 then
    -- alphaField(CorrectedData, 29), followed by alphaField(iatCorrectedData, 6) when that is non-empty; together with
    -- the two complementary conditional reserved literals of `String()` (see `condPrims`) this is the same text as
    -- "29 + 6 + 9 reserved blanks" in both cases, because alphaField("", 6) is six blanks
    some [⟨"CorrectedData", 29, .alpha⟩, ⟨"iatCorrectedData", 6, .alpha⟩]
  else if recName = "Addenda99" && method = "DateOfDeathField" && hash = 16325907095463990398 then
    some [⟨"DateOfDeath", 6, .date⟩]
  else if recName = "BatchHeader" && method = "EffectiveEntryDateField" && hash = 9170476592973405528 then
    some [⟨"EffectiveEntryDate", 6, .str⟩]
  else if recName = "FileHeader" && method = "ImmediateDestinationField" && hash = 1518624854799193882 then
    some [⟨"ImmediateDestination", 10, .routing⟩]
  else if recName = "FileHeader" && method = "ImmediateOriginField" && hash = 16313789297560827662 then
    some [⟨"ImmediateOrigin", 10, .routing⟩]
  else if recName = "FileHeader" && method = "FileCreationDateField" && hash = 14136369478918677140 then
    some [⟨"FileCreationDate", 6, .raw⟩]
  else if recName = "FileHeader" && method = "FileCreationTimeField" && hash = 11819809673153443802 then
    some [⟨"FileCreationTime", 4, .raw⟩]
  else if recName = "IATBatchHeader" && method = "ForeignExchangeReferenceField" && hash = 1937458412972952042 then
    some [⟨"ForeignExchangeReference", 15, .alpha⟩]
  else none

/-- Conditional literal segments that are recognised: `Addenda98.String()` writes a 15-blank reserved field when there
is no IAT corrected data and a 9-blank one after it otherwise.  Read together with the expansion of
`CorrectedDataField` above, the first contributes nothing and the second is unconditional. -/
def condPrims (recName : String) (s : Seg) : Option (List Prim) :=
  if recName = "Addenda98" && s.kind = "lit" && s.cond = "r.iatCorrectedData == \"\"" && s.lit = "               " then some []
  else if recName = "Addenda98" && s.kind = "lit" && s.cond = "!(r.iatCorrectedData == \"\")" && s.lit = "         " then
    some [⟨"", 9, .lit (spaces 9)⟩]
  else none

def spanOf (pf : ParseFact) (field : String) : Option Span :=
  pf.spans.find? (fun s => s.field = field)

/-- expand one generated render segment into primitive segments -/
def primsOf (pf : ParseFact) (rf : RenderFact) (s : Seg) : Except String (List Prim) :=
  if s.cond ≠ "" then
    match condPrims rf.recName s with
    | some ps => .ok ps
    | none => .error s!"{rf.recName}: conditional segment {s.field}"
  else if s.kind = "lit" then .ok [⟨"", s.lit.length, .lit s.lit.toList⟩]
  else if s.kind = "alpha" then .ok [⟨s.field, s.width.toNat, .alpha⟩]
  else if s.kind = "string" then .ok [⟨s.field, s.width.toNat, .str⟩]
  else if s.kind = "numeric" then .ok [⟨s.field, s.width.toNat, .num⟩]
  else if s.kind = "itoa" || s.kind = "raw" then
    let rk := if s.kind = "itoa" then RK.itoa else RK.raw
    match spanOf pf s.field with
    | some sp => .ok [⟨s.field, (sp.hi - sp.lo).toNat, rk⟩]
    | none =>
      -- never parsed: must be one of Parse's constant assignments (FileHeader's fixed fields)
      match pf.consts.find? (fun c => c.1 = s.field) with
      | some c => .ok [⟨"", c.2.length, .lit c.2.toList⟩]
      | none => .error s!"{rf.recName}: raw segment {s.field} has no parse span"
  else if s.kind = "custom" then
    match customPrims rf.recName s.field s.hash with
    | some ps => .ok ps
    | none => .error s!"{rf.recName}: custom method {s.field} changed or unknown"
  else .error s!"{rf.recName}: unknown segment kind {s.kind}"

def allPrims (pf : ParseFact) (rf : RenderFact) : List Seg → Except String (List Prim)
  | [] => .ok []
  | s :: ss => do
    let a ← primsOf pf rf s
    let b ← allPrims pf rf ss
    pure (a ++ b)

/-- spans that actually read something, sorted as generated -/
def readSpans (pf : ParseFact) : List Span := pf.spans.filter (fun s => s.conv ≠ "skip")

/-- Split a literal covering columns `[c, c+lit.length)` at the boundaries of the
read-spans that fall inside it.  `spans` must be sorted by `lo`. -/
def splitLit (fuel : Nat) (c : Nat) (lit : Str) (spans : List Span) : Except String (List FieldSpec) :=
  match fuel with
  | 0 => .error "splitLit: out of fuel"
  | fuel + 1 =>
    if lit.isEmpty then .ok []
    else
      match spans.find? (fun s => c ≤ s.lo.toNat && s.lo.toNat < c + lit.length) with
      | none => .ok [⟨"", lit.length, .lit lit, .none⟩]
      | some sp =>
        let lo := sp.lo.toNat
        let hi := sp.hi.toNat
        if hi > c + lit.length then .error s!"span {sp.field} straddles the end of a literal"
        else match pkOf sp.conv with
          | none => .error s!"unknown parse converter {sp.conv}"
          | some pk => do
            let pre : List FieldSpec := if lo > c then [⟨"", lo - c, .lit (lit.take (lo - c)), .none⟩] else []
            let mid : FieldSpec := ⟨sp.field, hi - lo, .lit ((lit.drop (lo - c)).take (hi - lo)), pk⟩
            let rest ← splitLit fuel hi (lit.drop (hi - c)) (spans.filter (fun s => s.lo.toNat ≥ hi))
            pure (pre ++ [mid] ++ rest)

def alignPrims (pf : ParseFact) : Nat → List Prim → Except String (List FieldSpec)
  | _, [] => .ok []
  | c, p :: ps => do
    let here ← match p.rk with
      | .lit s => splitLit 100 c s ((readSpans pf).filter (fun sp => sp.lo.toNat ≥ c))
      | rk =>
        -- a value segment must coincide with exactly the parse span of the same field
        match spanOf pf p.name with
        | none =>
          -- never parsed, but Parse assigns it a constant: what is written for that constant is a literal
          match pf.consts.find? (fun c => c.1 = p.name) with
          | some c => .ok [⟨"", p.w, .lit (renderField ⟨p.name, p.w, rk, .none⟩ (.s c.2.toList)), .none⟩]
          | none => .error s!"{pf.recName}: rendered field {p.name} is never parsed"
        | some sp =>
          if sp.lo.toNat ≠ c || sp.hi.toNat ≠ c + p.w then
            .error s!"{pf.recName}: field {p.name} rendered at {c}..{c + p.w} but parsed at {sp.lo}..{sp.hi}"
          else if sp.unit ≠ "rune" then .error s!"{pf.recName}: field {p.name} is cut by byte offsets"
          else match pkOf sp.conv with
            | none => .error s!"{pf.recName}: unknown parse converter {sp.conv}"
            | some pk => .ok [⟨p.name, p.w, rk, pk⟩]
    let rest ← alignPrims pf (c + p.w) ps
    pure (here ++ rest)

/-- every read-span must be covered by some field spec of the same name and width -/
def spansCovered (pf : ParseFact) (L : Layout) : Bool :=
  (readSpans pf).all (fun sp => L.any (fun f => f.name = sp.field && f.w = (sp.hi - sp.lo).toNat && f.pk ≠ .none))

def guardOK (pf : ParseFact) : Bool :=
  pf.guard = "runeCount != 94" || pf.guard = "utf8.RuneCountInString(record) != 94" ||
  -- ADVFileControl accepts any record of at least 71 columns; the Reader only ever hands it 94
  pf.guard = "utf8.RuneCountInString(record) < 71"

def compile (pf : ParseFact) (rf : RenderFact) : Except String Layout := do
  if !(pf.idiom = "switch" || pf.idiom = "slice") then throw s!"{pf.recName}: unrecognised Parse idiom {pf.idiom}"
  if !guardOK pf then throw s!"{pf.recName}: Parse guard is {pf.guard}"
  let prims ← allPrims pf rf rf.segs
  let L ← alignPrims pf 0 prims
  if Layout.width L ≠ lineLength then throw s!"{pf.recName}: rendered width {Layout.width L}"
  if !spansCovered pf L then throw s!"{pf.recName}: some parsed columns are not rendered"
  pure L

def compileOK (pf : ParseFact) (rf : RenderFact) : Bool :=
  match compile pf rf with
  | .ok _ => true
  | .error _ => false

end Ach

namespace Ach
open Ach.Gen

/-! ## Domain of the generic codec

Some `XField()` methods depend on a second field or on the clock.  The
primitive expansions in `customPrims` describe them on the domain below; the
correspondence stream compares model and implementation only inside it (and
counts what fell outside), the oracles cover the rest. -/

def lookupVal : Layout → List Val → String → Option Val
  | f :: L, v :: vs, name => if f.name = name && f.pk ≠ .none then some v else lookupVal L vs name
  | _, _, _ => none

def getS (L : Layout) (vs : List Val) (name : String) : Str :=
  match lookupVal L vs name with
  | some (.s t) => t
  | _ => []

def getN (L : Layout) (vs : List Val) (name : String) : Int :=
  match lookupVal L vs name with
  | some (.n k) => k
  | _ => 0

def inDomain (recName : String) (L : Layout) (vs : List Val) : Bool :=
  if recName = "FileHeader" then !(getS L vs "FileCreationDate").isEmpty && !(getS L vs "FileCreationTime").isEmpty
  else if recName = "IATBatchHeader" then getN L vs "ForeignExchangeReferenceIndicator" ≠ 3 || (getS L vs "ForeignExchangeReference").isEmpty
  else if recName = "BatchHeader" then !(getS L vs "CompanyEntryDescription" = "AUTOENROLL".toList && getS L vs "StandardEntryClassCode" = "ENR".toList)
  else true

end Ach
