import Ach.Model.Json
import Ach.Generated.Schemas
/-!
# `json` correspondence stream: `encoding/json` on the real record structs vs the field rules of `Ach.Model.Json`

    json <Type> <Field>=<z|n|d> …

For a record type of the generated `schemas` (struct tags re-extracted from the source) and some of its exported
string / int / bool fields: `z` = the Go zero value, `n` = a non-zero value different from what the constructor leaves,
`d` = what the constructor leaves.  The Go side sets the fields on a constructor value, marshals it with
`encoding/json`, unmarshals into a fresh constructor value and answers, per field in the given order, `1` if the field
came back equal and `0` if not.  The model answers `fieldOK` (exported and not `json:"-"`; an `omitempty` zero comes
back as the constructor default) with the constructor default taken from the generated `ctorDefaults`.
`noschema` / `nofield:<name>` when the generated facts do not know the type / field; `bad-op` otherwise.
-/
namespace Ach.JsonDriver
open Ach.Gen Ach.Json

def isZeroExpr (d : String) : Bool := d = "0" || d = "\"\"" || d = "false"

/-- 0 when the constructor leaves the zero value, 1 otherwise -/
def dfltOf (ty field : String) : Nat :=
  match ctorDefaults.find? (fun d => d.1 = ty && d.2.1 = field) with
  | some d => if isZeroExpr d.2.2 then 0 else 1
  | none => 0

def fieldBit (ty : String) (s : Schema) (tok : String) : String :=
  match tok.splitOn "=" with
  | [name, k] =>
    match s.fields.find? (fun f => f.go = name) with
    | none => s!"nofield:{name}"
    | some f =>
      let info : FInfo := ⟨f.exported && f.json ≠ "-", f.omitempty, dfltOf ty name⟩
      let v : Option Nat := if k = "z" then some 0 else if k = "n" then some 2 else if k = "d" then some info.dflt else none
      match v with
      | some v => if fieldOK info v then "1" else "0"
      | none => "bad-op"
  | _ => "bad-op"

def run : List String → String
  | ty :: toks =>
    match schemas.find? (fun s => s.name = ty) with
    | none => "noschema"
    | some s => if s.custom then "noschema" else String.join (toks.map (fieldBit ty s))
  | _ => "bad-op"

end Ach.JsonDriver
