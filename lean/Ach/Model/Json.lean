import Ach.Facts
/-!
# JSON struct codec at schema level (`encoding/json` rules restated)

A struct value is a list of field values (abstract `Nat`s, `0` = the Go zero value) parallel to its schema.
`encode` keeps a field iff it is exported, not tagged `json:"-"`, and not (`omitempty` with the zero value);
`decode` starts from the constructor's defaults and overwrites the fields that are present.
-/
namespace Ach.Json
open Ach.Gen

structure FInfo where
  exported : Bool     -- exported and not `json:"-"`
  omitempty : Bool
  dflt : Nat          -- value the constructor leaves in the field (0 = zero value)
deriving Repr, DecidableEq

def encodeField (f : FInfo) (v : Nat) : Option Nat :=
  if !f.exported then none else if f.omitempty && v == 0 then none else some v

def decodeField (f : FInfo) (j : Option Nat) : Nat :=
  match j with
  | some v => v
  | none => f.dflt

def encode : List FInfo → List Nat → List (Option Nat)
  | f :: fs, v :: vs => encodeField f v :: encode fs vs
  | _, _ => []

def decode : List FInfo → List (Option Nat) → List Nat
  | f :: fs, j :: js => decodeField f j :: decode fs js
  | _, _ => []

/-- a field value survives the round trip iff … -/
def fieldOK (f : FInfo) (v : Nat) : Bool :=
  (f.exported || v == f.dflt) && (!(f.exported && f.omitempty && v == 0) || f.dflt == 0)

def valuesOK : List FInfo → List Nat → Bool
  | f :: fs, v :: vs => fieldOK f v && valuesOK fs vs
  | [], [] => true
  | _, _ => false

end Ach.Json
