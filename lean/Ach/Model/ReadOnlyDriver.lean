import Ach.Model.ReadOnly
import Ach.Driver.Hex
/-!
# `readonly` correspondence stream: the three in-place mutators reachable from the read-only API

    readonly routing <hex>     stored ImmediateDestination / ImmediateOrigin after `…Field()`            → hex
    readonly payment <hex>     DiscretionaryData after `EntryDetail.PaymentTypeField()`                  → hex
    readonly isadv <b> <b> …   per batch three letters `H|h` (has header) `C|c` (has control) `A|a` (header is ADV)
                               → the same letters after `File.IsADV()` (only H and C can change)
-/
namespace Ach.ReadOnly
open Ach Ach.Driver

def parseShell (s : String) : Option BatchShell :=
  match s.toList with
  | [h, c, a] =>
    if (h = 'H' || h = 'h') && (c = 'C' || c = 'c') && (a = 'A' || a = 'a') then some ⟨h = 'H', c = 'C', a = 'A'⟩ else none
  | _ => none

def showShell (b : BatchShell) : String :=
  String.ofList [if b.hasHeader then 'H' else 'h', if b.hasControl then 'C' else 'c', if b.isADV then 'A' else 'a']

def runLine : List String → String
  | ["routing", h] =>
    match hexToStr h with
    | some s => strToHex (routingFieldEffect s)
    | none => "bad-op"
  | ["payment", h] =>
    match hexToStr h with
    | some s => strToHex (paymentTypeEffect s)
    | none => "bad-op"
  | "isadv" :: bs =>
    match bs.mapM parseShell with
    | some l => " ".intercalate ((isADVEffect l).map showShell)
    | none => "bad-op"
  | _ => "bad-op"

end Ach.ReadOnly
