import Ach.Go.Str
/-!
# ABA check digit (validators.go `CalculateCheckDigit`, `roundUp10`) and `aba8`
-/
namespace Ach

/-- validators.go `roundUp10` (`int(math.Ceil(float64(n)/10.0)) * 10`; exact for the sums that occur, ≤ 288) -/
def roundUp10 (n : Nat) : Nat := ((n + 9) / 10) * 10

def checkWeights : List Nat := [3, 7, 1, 3, 7, 1, 3, 7]

def weightedSum (ds : List Nat) : Nat := (List.zipWith (· * ·) checkWeights ds).sum

/-- `CalculateCheckDigit`: -1 unless the argument has 8 or 9 runes of which the first 8 are ASCII digits -/
def calculateCheckDigit (s : Str) : Int :=
  if s.length ≠ 8 ∧ s.length ≠ 9 then -1
  else if !(s.take 8).all isDigit then -1
  else
    let sum := weightedSum ((s.take 8).map digitVal)
    (roundUp10 sum : Int) - sum

/-- batch.go `aba8`: the 8-digit routing prefix used for the entry hash
(10 runes with a leading blank/zero ⇒ runes 1..8; 8 or 9 runes ⇒ first 8; otherwise "") -/
def aba8 (rtn : Str) : Str :=
  let n := rtn.length
  if n > 10 then []
  else if n = 10 then
    (if rtn.head? = some '0' || rtn.head? = some '1' then (rtn.drop 1).take 8 else [])
  else if n ≠ 8 && n ≠ 9 then []
  else rtn.take 8

end Ach
