import Ach.Model.GoLite
import Ach.Generated.Validators
import Ach.Driver.Hex
/-!
# `recvalidate` correspondence stream: the real record validators vs the interpretation of their translations

    recvalidate <Type.Method> <recv flags|-> <param flags|-> <Field>=s:<hex>|i:<int>|b:<0|1> … @<hex "fn:arg">=<0|1> …
    batchvalidate <BatchXXX.Validate> <flags|-> - <path>=s:<hex>|i:<int>|b:<0|1>|p|n|l:<k> …

For batches the fields are keyed by their full path from the batch (`Header.ServiceClassCode`,
`Entries[2].Addenda05[0].SequenceNumber`); `p` = a non-nil pointer to the record stored under that path, `n` = nil,
`l:<k>` = a slice of k records.  Every record of the batch carries the same option flags.

The program is looked up in the generated `validatorProgs` (translated from the Go source on this run) and run by
`Ach.GoLite.run` on the given receiver fields and option flags.  Answers `accept`, `reject:<FieldName>`,
`out-of-domain` when the interpretation leaves the embedding (`stuck`: non-ASCII byte slicing and the like),
`noprog` when the source has no such function, `bad-op` for a malformed line.
-/
namespace Ach.GoLiteDriver
open Ach.GoLite Ach.Driver

def flags (s : String) : List String := if s = "-" then [] else s.splitOn ","

inductive Tok where
  | field (n : String) (v : Val)
  | ext (k : String) (b : Bool)
  | bad

def parseTok (t : String) : Tok :=
  if t.startsWith "@" then
    match (t.drop 1).toString.splitOn "=" with
    | [h, b] => match hexToStr h with
      | some k => if b = "1" then .ext (String.ofList k) true else if b = "0" then .ext (String.ofList k) false else .bad
      | none => .bad
    | _ => .bad
  else
    match t.splitOn "=" with
    | [n, v] =>
      if v.startsWith "s:" then
        match hexToStr (v.drop 2).toString with
        | some s => .field n (.str s)
        | none => .bad
      else if v.startsWith "i:" then
        match (v.drop 2).toString.toInt? with
        | some i => .field n (.int i)
        | none => .bad
      else if v = "b:1" then .field n (.bool true)
      else if v = "b:0" then .field n (.bool false)
      else if v = "p" then .field n (.ref n)          -- a non-nil pointer: the record lives under the same path
      else if v = "n" then .field n .nilp
      else if v.startsWith "l:" then
        match (v.drop 2).toString.toNat? with
        | some k => .field n (.lst n k)               -- a slice of k records under n[0] … n[k-1]
        | none => .bad
      else .bad
    | _ => .bad

def run : List String → String
  | entry :: rf :: pf :: toks =>
    match Gen.validatorProgs.lookup entry with
    | none => "noprog"
    | some p =>
      let ts := toks.map parseTok
      if ts.any (fun t => match t with | .bad => true | _ => false) then "bad-op" else
      let cx : Ctx := {
        fields := ts.filterMap (fun t => match t with | .field n v => some (n, v) | _ => none),
        recvFlags := flags rf,
        paramFlags := flags pf,
        ext := ts.filterMap (fun t => match t with | .ext k b => some (k, b) | _ => none) }
      match GoLite.run cx p with
      | .accept => "accept"
      | .reject f => "reject:" ++ f
      | .stuck => "out-of-domain"
  | _ => "bad-op"

end Ach.GoLiteDriver
