import Ach.Model.Repo
/-!
Line protocol of the `repo` correspondence stream (`Ach.Repo.runOps`): one sequential repository call per input
line, one result line per input line, the repository state threaded through the whole input.

| input line            | Go call                                   | output                                         |
|-----------------------|-------------------------------------------|------------------------------------------------|
| `reset`               | a fresh `NewRepositoryInMemory`           | `reset`                                        |
| `storefile F T`       | `StoreFile(&File{ID: F})` (object no. T)  | `ok` / `err:exists`                            |
| `findfile F`          | `FindFile(F)`                             | `file T [B,…]` (token, batch ids in slice order) / `err:notfound` |
| `allfiles`            | `FindAllFiles()`                          | `files [F:T,…]` sorted by F                    |
| `deletefile F`        | `DeleteFile(F)`                           | `ok`                                           |
| `storebatch F B`      | `StoreBatch(F, batch with ID B)`          | `ok` / `err:notfound` / `err:exists`           |
| `findbatch F B`       | `FindBatch(F, B)`                         | `batch B` / `err:notfound`                     |
| `allbatches F`        | `FindAllBatches(F)`                       | `batches [B,…]` / `nil` (nil slice: no such file) |
| `deletebatch F B`     | `DeleteBatch(F, B)`                       | `ok` / `err:nofile` (the wrapped error) / `err:notfound` |
| `sweep T…`            | `cleanupOldFiles()` with objects T… too old | `ok`                                         |
| `micro` (prefix)      | same call, run through the micro-steps    | same as without the prefix                     |

F, B, T are decimal naturals.  Anything else prints `bad-op` and leaves the state alone.
-/
namespace Ach.Repo

def showNats (l : List Nat) : String := "[" ++ ",".intercalate (l.map toString) ++ "]"

def showRes : Res → String
  | .ok => "ok" | .exists => "err:exists" | .notFound => "err:notfound" | .noFile => "err:nofile" | .nil => "nil"
  | .file tok bs => s!"file {tok} {showNats bs}"
  | .files l => "files [" ++ ",".intercalate (l.map (fun p => s!"{p.1}:{p.2}")) ++ "]"
  | .batch b => s!"batch {b}"
  | .batches l => "batches " ++ showNats l

def allNats : List String → Option (List Nat)
  | [] => some []
  | x :: xs => match x.toNat?, allNats xs with
    | some n, some ns => some (n :: ns)
    | _, _ => none

def parseOp (toks : List String) : Option Op :=
  match toks with
  | ["storefile", f, t] => match f.toNat?, t.toNat? with
    | some f, some t => some (.storeFile f t)
    | _, _ => none
  | ["findfile", f] => f.toNat?.map .findFile
  | ["allfiles"] => some .findAllFiles
  | ["deletefile", f] => f.toNat?.map .deleteFile
  | ["storebatch", f, b] => match f.toNat?, b.toNat? with
    | some f, some b => some (.storeBatch f b)
    | _, _ => none
  | ["findbatch", f, b] => match f.toNat?, b.toNat? with
    | some f, some b => some (.findBatch f b)
    | _, _ => none
  | ["allbatches", f] => f.toNat?.map .findAllBatches
  | ["deletebatch", f, b] => match f.toNat?, b.toNat? with
    | some f, some b => some (.deleteBatch f b)
    | _, _ => none
  | "sweep" :: ts => (allNats ts).map .sweep
  | _ => none

def stepLine (s : Spec) (line : String) : Spec × String :=
  match (line.trimAscii.toString.splitOn " ").filter (· ≠ "") with
  | ["reset"] => ([], "reset")
  | "micro" :: toks => match parseOp toks with
    | some op => ((microRun s op).1, showRes (microRun s op).2)
    | none => (s, "bad-op")
  | toks => match parseOp toks with
    | some op => ((specStep s op).1, showRes (specStep s op).2)
    | none => (s, "bad-op")

def runFrom (s : Spec) : List String → List String
  | [] => []
  | l :: ls => (stepLine s l).2 :: runFrom (stepLine s l).1 ls

def runOps (lines : List String) : List String := runFrom [] lines

end Ach.Repo
