import Ach.Go.Str
/-!
# The three in-place mutators reachable from the read-only API

`File.IsADV` (installs a missing header/control on batches), `FileHeader.ImmediateDestinationField` /
`ImmediateOriginField` (trim the stored routing number in place), `EntryDetail.PaymentTypeField` (normalises
DiscretionaryData to "R"/"S").  Everything else reachable from Validate / String / MarshalJSON / Write assigns nothing
through its receiver (generated census `receiverWrites`).
-/
namespace Ach.ReadOnly

/-- `FileHeader.ImmediateDestinationField`'s side effect on the stored field -/
def routingFieldEffect (stored : Str) : Str := if stored.isEmpty then stored else trimSpace stored

/-- `SetPaymentType(DiscretionaryData)` -/
def toUpperAscii (c : Char) : Char := if 'a' ≤ c && c ≤ 'z' then Char.ofNat (c.toNat - 32) else c
def paymentTypeEffect (dd : Str) : Str :=
  if (trimSpace dd).map toUpperAscii = ['R'] then ['R'] else ['S']

structure BatchShell where
  hasHeader : Bool
  hasControl : Bool
  isADV : Bool
deriving DecidableEq, Repr

/-- `File.IsADV`: walks the batches, installing a fresh header / control where missing, until it meets an ADV header -/
def isADVEffect : List BatchShell → List BatchShell
  | [] => []
  | b :: bs => let b' : BatchShell := { b with hasHeader := true, hasControl := true }
               if b.hasHeader && b.isADV then b' :: bs else b' :: isADVEffect bs

end Ach.ReadOnly
