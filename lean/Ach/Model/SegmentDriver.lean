import Ach.Model.Segment
/-!
Line protocol of the `segment` correspondence stream (`Ach.Segment.segment` / `createNumbers` / `segmentNumbersOK`
vs the real `(*File).SegmentFile(nil)` on files of standard batches).

`segment <B>|<B>|…`   the standard batches of the (valid, `Create`d) input file in file order
   B = `<sc>:<number>:<E>/<E>/…` or `<sc>:<number>:-`;   E = `<code>,<amount>,<payload>`
       (header service class, header batch number as it is when `SegmentFile` is called, transaction code, amount,
        unique entry index)
`segment -`           the Go side skipped the case; answer `-`

answer: `err` when `segmentNumbersOK` is false (the real call fails on `File.Validate` of an output whose batch numbers,
        after `File.Create`'s numbering loop, are not ascending); otherwise
        `C=<side> D=<side>` with side = `nil` (no batch) or `<B>|<B>|…` in output order, B as above with
        `<number>` = the batch number after `createNumbers 1` (what `File.Create` leaves in the output file's header).
Anything malformed: `bad-op`.

`segmentiat <std side> <iat side>` (each `-` or `<B>|…`): a file with IAT batches.  `segmentFileIATBatches` splits IAT
batches exactly like standard ones (its case lists are the generated `segIatCreditCodes` / `segIatDebitCodes`; the
driver answers `nomodel` unless they equal the standard lists, which `Props.C11.segment_iat_lists_same` proves on the
current source), the fresh halves are numbered 1, and `File.Create` numbers standard then IAT batches with one counter;
only the standard batches' numbers are validated.  Answer: `err` or `C=<std>;<iat> D=<std>;<iat>`.
-/
namespace Ach.SegmentDriver
open Ach.Segment

def parseEntry (s : String) : Option SEntry :=
  match s.splitOn "," with
  | [c, a, p] => match c.toInt?, a.toInt?, p.toNat? with
    | some c, some a, some p => some ⟨c, a, p⟩
    | _, _, _ => none
  | _ => none

def parseBatch (s : String) : Option SBatch :=
  match s.splitOn ":" with
  | [sc, num, es] =>
    match sc.toInt?, num.toInt?, (if es = "-" then some [] else (es.splitOn "/").mapM parseEntry) with
    | some sc, some num, some es => some ⟨sc, num, es⟩
    | _, _, _ => none
  | _ => none

def showEntry (e : SEntry) : String := s!"{e.code},{e.amount},{e.payload}"

def showBatch (b : SBatch) (number : Int) : String :=
  s!"{b.sc}:{number}:" ++ (if b.entries.isEmpty then "-" else "/".intercalate (b.entries.map showEntry))

def showSide (bs : List SBatch) : String :=
  if bs.isEmpty then "nil"
  else "|".intercalate ((bs.zip (createNumbers 1 (bs.map (·.number)))).map (fun p => showBatch p.1 p.2))

def run (args : List String) : String :=
  match args with
  | ["-"] => "-"
  | [bs] =>
    match (bs.splitOn "|").mapM parseBatch with
    | some bs =>
      if segmentNumbersOK bs then
        let r := segment bs
        s!"C={showSide r.1} D={showSide r.2}"
      else "err"
    | none => "bad-op"
  | _ => "bad-op"

def parseSide (s : String) : Option (List SBatch) :=
  if s = "-" then some [] else (s.splitOn "|").mapM parseBatch

def showNumbered (bs : List SBatch) (nums : List Int) : String :=
  if bs.isEmpty then "nil" else "|".intercalate ((bs.zip nums).map (fun p => showBatch p.1 p.2))

/-- one output file: standard batches then IAT batches, numbered by one `createNumbers` pass -/
def showFile (std iat : List SBatch) : String :=
  let nums := createNumbers 1 ((std ++ iat).map (·.number))
  s!"{showNumbered std (nums.take std.length)};{showNumbered iat (nums.drop std.length)}"

def runIat (args : List String) : String :=
  match args with
  | [std, iat] =>
    if Ach.segIatCreditCodes ≠ Ach.segCreditCodes || Ach.segIatDebitCodes ≠ Ach.segDebitCodes then "nomodel" else
    match parseSide std, parseSide iat with
    | some bs, some is =>
      if segmentNumbersOK bs then
        let r := segment bs
        let ri := segment is
        s!"C={showFile r.1 ri.1} D={showFile r.2 ri.2}"
      else "err"
    | _, _ => "bad-op"
  | _ => "bad-op"

end Ach.SegmentDriver
