import Ach.Model.Segment
/-!
Line protocol of the `segment` correspondence stream (`Ach.Segment.segment` / `createNumbers` / `segmentNumbersOK`
vs the real `(*File).SegmentFile(nil)` on files of standard batches).

`segment <B>|<B>|…`   the standard batches of the (valid, `Create`d) input file in file order
   B = `<sc>:<number>:<E>/<E>/…` or `<sc>:<number>:-`;   E = `<code>,<amount>,<payload>`
       (header service class, header batch number as it is when `SegmentFile` is called, transaction code, amount,
        unique entry index)
`segment -`           the Go side skipped the case; answer `-`

answer: `err` when `segmentNumbersOK` is false (the real call fails on `File.Validate` of an output whose batch numbers,
        after `File.Create`'s numbering loop, are not ascending); otherwise
        `C=<side> D=<side>` with side = `nil` (no batch) or `<B>|<B>|…` in output order, B as above with
        `<number>` = the batch number after `createNumbers 1` (what `File.Create` leaves in the output file's header).
Anything malformed: `bad-op`.
-/
namespace Ach.SegmentDriver
open Ach.Segment

def parseEntry (s : String) : Option SEntry :=
  match s.splitOn "," with
  | [c, a, p] => match c.toInt?, a.toInt?, p.toNat? with
    | some c, some a, some p => some ⟨c, a, p⟩
    | _, _, _ => none
  | _ => none

def parseBatch (s : String) : Option SBatch :=
  match s.splitOn ":" with
  | [sc, num, es] =>
    match sc.toInt?, num.toInt?, (if es = "-" then some [] else (es.splitOn "/").mapM parseEntry) with
    | some sc, some num, some es => some ⟨sc, num, es⟩
    | _, _, _ => none
  | _ => none

def showEntry (e : SEntry) : String := s!"{e.code},{e.amount},{e.payload}"

def showBatch (b : SBatch) (number : Int) : String :=
  s!"{b.sc}:{number}:" ++ (if b.entries.isEmpty then "-" else "/".intercalate (b.entries.map showEntry))

def showSide (bs : List SBatch) : String :=
  if bs.isEmpty then "nil"
  else "|".intercalate ((bs.zip (createNumbers 1 (bs.map (·.number)))).map (fun p => showBatch p.1 p.2))

def run (args : List String) : String :=
  match args with
  | ["-"] => "-"
  | [bs] =>
    match (bs.splitOn "|").mapM parseBatch with
    | some bs =>
      if segmentNumbersOK bs then
        let r := segment bs
        s!"C={showSide r.1} D={showSide r.2}"
      else "err"
    | none => "bad-op"
  | _ => "bad-op"

end Ach.SegmentDriver
