import Ach.Model.FileCreate
/-!
# `filecreate` correspondence stream: `File.Create` on a non-ADV file vs `Ach.FileCreate.fileCreate`

    filecreate <std batches> <iat batches>

Each side is `-` (none) or `;`-separated batches `hnum,cnum,eac,hash,debit,credit`: the header's batch number and the
batch control's number, entry/addenda count, entry hash and totals as they are when `Create` is called.
Answer: `<std> <iat> <file control>`: per batch `hnum,cnum` afterwards, then
`batchCount,blockCount,entryAddendaCount,entryHash,totalDebit,totalCredit`.
-/
namespace Ach.FileCreate
open Ach

def parseBatch (s : String) : Option (Int × VControl) :=
  match (s.splitOn ",").mapM String.toInt? with
  | some [h, c, eac, hash, d, cr] => some (h, ⟨0, eac, hash, d, cr, [], [], c⟩)
  | _ => none

def parseSide (s : String) : Option (List (Int × VControl)) :=
  if s = "-" then some [] else (s.splitOn ";").mapM parseBatch

def showPairs (l : List (Int × Int)) : String :=
  if l.isEmpty then "-" else ";".intercalate (l.map fun (h, c) => s!"{h},{c}")

def runLine : List String → String
  | [std, iat] =>
    match parseSide std, parseSide iat with
    | some bs, some is =>
      let f : VFile := ⟨true, bs.map (fun (h, c) => ⟨⟨0, [], [], h⟩, [], c, true⟩), is.map (·.2), ⟨0, 0, 0, 0, 0⟩, true⟩
      let g := fileCreate f (is.map (·.1)) true
      let stdOut := g.batches.map fun b => (b.header.batchNumber, b.control.batchNumber)
      let iatOut := (newNumbers (1 + bs.length) (is.map (·.1))).zip (g.iatControls.map (·.batchNumber))
      let fc := g.control
      s!"{showPairs stdOut} {showPairs iatOut} {fc.batchCount},{blockCount (allControls g)},{fc.entryAddendaCount},{fc.entryHash},{fc.totalDebit},{fc.totalCredit}"
    | _, _ => "bad-op"
  | _ => "bad-op"

end Ach.FileCreate
