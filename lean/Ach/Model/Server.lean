/-!
# The HTTP server as a state machine over a store of files (server/*.go)

State = the repository's `map[string]*ach.File` (association list, newest first) + the number of `base.ID()` draws.
One `step` per *decoded* request, mirroring routing.go (routes, encoders, `codeFrom`), files.go / batches.go (decode
+ endpoint functions), service.go, repository.go.  Files are opaque values `F`, rendered text an opaque `T`, every
call into the `ach` library an uninterpreted field of `Lib`.  Pointers are modelled by value: a library method that
mutates its receiver returns the receiver's new value and the handler writes it back under the same key (`put`) —
what calling it through the stored pointer does.  (Aliasing *between* stored files — `SegmentFile` shares `Batcher`
pointers between source and parts, file.go:1180-1182 — is not represented.)

Status classes: `libErr` = `codeFrom(e)` of an error value returned by the library (400 or 500 by the dynamic type /
text of `e`, routing.go:311-339, not modelled); errors wrapped with `fmt.Errorf("…%v")` lose their type: 500
(`error`).  `created` / `conflict` exist only to state that they never occur.  The balance endpoint is excluded.
-/
namespace Ach.Server

abbrev Id := Nat      -- resource IDs: path segments, `File.ID`, `Batcher.ID()`, `base.ID()` strings
abbrev Tok := Nat     -- request bodies
abbrev Opts := Nat    -- `*ach.ValidateOpts` values
abbrev Err := Nat     -- library error values
abbrev Batch := Nat   -- `ach.Batcher` values

/-- the `ach` library (and `base.ID`) as seen from package server -/
structure Lib (F T : Type) where
  newFile : F                                            -- ach.NewFile()
  parseText : Tok → Option Opts → F × Option Err         -- Reader.SetValidation; Reader.Read: always a file, maybe an error
  parseJSON : Tok → Option Opts → Option F × Option Err  -- FileFromJSONWith: nil or a file, maybe an error
  fileId : F → Option Id                                 -- File.ID (`none` = "")
  setId : F → Id → F                                     -- File.ID = id
  setOpts : F → Opts → F                                 -- File.SetValidation
  create : F → F × Option Err                            -- File.Create: receiver afterwards, error
  validate : F → Opts → Option Err                       -- File.ValidateWith (does not modify the receiver)
  flatten : F → F × Except Err F                         -- File.FlattenBatches: receiver afterwards, result (ID not yet set)
  segment : F → F × Except Err (Option F × Option F)     -- File.SegmentFile: receiver afterwards, credit / debit file;
                                                         --   `none` = that side is empty and keeps ID "" (file.go:1100-1119)
  writeText : F → Bool → Except Err T                    -- NewWriterWithOpts(CRLF?).Write + Flush; error also for empty output
  batches : F → List Batch                               -- File.Batches
  batchId : Batch → Option Id                            -- Batcher.ID() / header ID (`none` = "")
  setBatchId : Batch → Id → Batch                        -- SetID + header/control ID
  addBatch : F → Batch → F                               -- File.AddBatch
  dropBatch : F → Nat → F                                -- File.Batches = append(Batches[:i], Batches[i+1:]...)
  freshId : Nat → Id                                     -- the n-th base.ID() drawn by this server

inductive Status | ok | created | badRequest | notFound | conflict | error | libErr
  deriving DecidableEq, Repr

/-- what the JSON / text response carries (JSON encoding itself is not modelled) -/
inductive Body (F T : Type)
  | none                                        -- only `error` / nothing
  | file (f : F)                                -- {"file": f}
  | idFile (id : Id) (f : F)                    -- {"id": id, "file": f}
  | files (l : List F)                          -- {"files": [...]}, in map order
  | text (t : T)                                -- text/plain
  | seg (credit debit : Option (Id × F))        -- {"creditFileID","creditFile","debitFileID","debitFile"}
  | id (i : Id)                                 -- {"id": i}
  | batch (b : Batch)                           -- {"batch": b}
  | batches (l : Option (List Batch))           -- {"batches": [...]} or null
  deriving DecidableEq, Repr

structure Resp (F T : Type) where
  status : Status
  body : Body F T
  deriving DecidableEq, Repr

/-- decoded requests, one constructor per route of `MakeHTTPHandler` (routing.go:118-213) -/
inductive Req
  | create (path : Option Id) (json : Bool) (body : Tok) (opts : Opts)  -- POST /files/{fileID}; `none` = "create"
  | get (id : Id)                                 -- GET /files/{id}
  | list                                          -- GET /files
  | delete (id : Id)                              -- DELETE /files/{id}
  | contents (id : Id) (crlf : Bool)              -- GET /files/{id}/contents, X-Line-Ending
  | validate (id : Id) (opts : Opts)              -- GET|POST /files/{id}/validate
  | build (id : Id)                               -- GET /files/{id}/build
  | flatten (id : Id)                             -- POST /files/{fileID}/flatten
  | segment (id : Id)                             -- POST /files/{fileID}/segment
  | segmentBody (json : Bool) (body : Tok) (opts : Option Opts)  -- POST /segment
  | addBatch (id : Id) (b : Batch)                -- POST /files/{fileID}/batches (b decoded and valid)
  | getBatch (id bid : Id)                        -- GET /files/{fileID}/batches/{batchID}
  | batches (id : Id)                             -- GET /files/{fileID}/batches
  | delBatch (id bid : Id)                        -- DELETE /files/{fileID}/batches/{batchID}
  deriving DecidableEq, Repr

/-! ## repository.go -/

abbrev Files (F : Type) := List (Id × F)

/-- `FindFile` (repository.go:90-97) -/
def find {F : Type} : Files F → Id → Option F
  | [], _ => none
  | (k, f) :: fs, id => if k = id then some f else find fs id

/-- `StoreFile` (repository.go:75-87): `none` = ErrAlreadyExists -/
def store {F : Type} (fs : Files F) (id : Id) (f : F) : Option (Files F) :=
  match find fs id with
  | some _ => none
  | none => some ((id, f) :: fs)

/-- `DeleteFile` (repository.go:110-115) -/
def erase {F : Type} (fs : Files F) (id : Id) : Files F := fs.filter (fun p => p.1 != id)

/-- the object behind the pointer stored under `id` now has value `f` -/
def put {F : Type} (fs : Files F) (id : Id) (f : F) : Files F := fs.map (fun p => if p.1 = id then (id, f) else p)

/-- `StoreFile` whose error is only logged (files.go:592, 604, 679, 691, 792) -/
def keep {F : Type} (fs : Files F) (id : Id) (f : F) : Files F := (store fs id f).getD fs

/-- index found by `DeleteBatch`'s downward loop (repository.go:187-192): the last match -/
def lastIdx {α : Type} (p : α → Bool) : List α → Option Nat
  | [] => none
  | a :: as => match lastIdx p as with
    | some i => some (i + 1)
    | none => if p a then some 0 else none

structure State (F : Type) where
  files : Files F
  next : Nat
def init {F : Type} : State F := ⟨[], 0⟩

variable {F T : Type}

/-! ## files.go + service.go -/

/-- what `decodeCreateFileRequest` (files.go:116-162) and the first half of `createFileEndpoint` (files.go:77-88)
compute before the repository is touched -/
structure Created (F : Type) where
  id : Id            -- the ID the file will be stored under
  file : F           -- the file handed to `StoreFile`
  gen : Bool         -- the ID was drawn from base.ID()
  parseErr : Bool    -- `req.parseError != nil`

def decodeCreate (L : Lib F T) (n : Nat) (path : Option Id) (json : Bool) (body : Tok) (opts : Opts) : Created F :=
  let parsed : F × Option Err :=
    if json then ((L.parseJSON body (some opts)).1.getD L.newFile,     -- :137-141, a nil file keeps NewFile() of :119
                  (L.parseJSON body (some opts)).2)
    else L.parseText body (some opts)                                  -- :144-150
  -- :154-159 the path ID unless it is "create"; :82-84 else the file's own ID (JSON "id"), else a generated one
  let gen := path.isNone && (L.fileId parsed.1).isNone
  let id := match path with
    | some p => p
    | none => (L.fileId parsed.1).getD (L.freshId n)
  -- :86-88 SetValidation always: readValidateOpts never returns nil opts (validate.go:87)
  ⟨id, L.setOpts (if path.isSome || gen then L.setId parsed.1 id else parsed.1) opts, gen, parsed.2.isSome⟩

/-- POST /files/{fileID}: `createFileEndpoint` (files.go:69-114) -/
def createFile (L : Lib F T) (s : State F) (path : Option Id) (json : Bool) (body : Tok) (opts : Opts) :
    State F × Resp F T :=
  let d := decodeCreate L s.next path json body opts
  let st := store s.files d.id d.file                                  -- :90, also when parsing failed
  let status : Status :=
    if d.parseErr then .libErr                                         -- :108-110 the parse error wins
    else if st.isNone then .badRequest else .ok                        -- ErrAlreadyExists → 400 (routing.go:334)
  (⟨st.getD s.files, if d.gen then s.next + 1 else s.next⟩, ⟨status, .idFile d.id d.file⟩)

/-- GET /files/{id}: `getFileEndpoint`, `service.GetFile` (service.go:106-112) -/
def getFile (s : State F) (id : Id) : State F × Resp F T :=
  match find s.files id with
  | some f => (s, ⟨.ok, .file f⟩)
  | none => (s, ⟨.notFound, .none⟩)

/-- GET /files: `FindAllFiles` (repository.go:100-108) -/
def getFiles (s : State F) : State F × Resp F T := (s, ⟨.ok, .files (s.files.map (·.2))⟩)

/-- DELETE /files/{id}: never an error (repository.go:110-115) -/
def deleteFile (s : State F) (id : Id) : State F × Resp F T := (⟨erase s.files id, s.next⟩, ⟨.ok, .none⟩)

/-- GET /files/{id}/build: `service.BuildFile` (service.go:119-126) runs `Create` on the stored pointer and returns
the file together with the error -/
def buildFile (L : Lib F T) (s : State F) (id : Id) : State F × Resp F T :=
  match find s.files id with
  | none => (s, ⟨.error, .none⟩)                                       -- :122 wrapped → 500
  | some f =>
    let c := L.create f
    (⟨put s.files id c.1, s.next⟩, ⟨if c.2.isSome then .libErr else .ok, .file c.1⟩)

/-- GET /files/{id}/contents: `service.GetFileContents` (service.go:132-155).  A failure leaves the handler as a
`getFileContentsResponse` carrying the error; since /repo commit f9ebbe96 `encodeTextResponse` hands that to
`encodeResponse`, which answers with the error's status (the wrapped "not found" maps to 500, like `build`). -/
def getFileContents (L : Lib F T) (s : State F) (id : Id) (crlf : Bool) : State F × Resp F T :=
  match find s.files id with
  | none => (s, ⟨.error, .none⟩)
  | some f =>
    let c := L.create f                                                -- :137 on the stored pointer
    (⟨put s.files id c.1, s.next⟩,
     if c.2.isSome then ⟨.libErr, .none⟩ else
     match L.writeText c.1 crlf with                                   -- :141-152
     | .ok t => ⟨.ok, .text t⟩
     | .error _ => ⟨.libErr, .none⟩)

/-- GET|POST /files/{id}/validate: `service.ValidateFile` (service.go:157-163); every error is wrapped in
`errInvalidFile` (files.go:449-451) → 400, including "not found" -/
def validateFile (L : Lib F T) (s : State F) (id : Id) (opts : Opts) : State F × Resp F T :=
  match find s.files id with
  | none => (s, ⟨.badRequest, .none⟩)
  | some f => (s, ⟨if (L.validate f opts).isSome then .badRequest else .ok, .none⟩)

/-- POST /files/{fileID}/flatten: `service.FlattenBatches` (service.go:250-264), `flattenBatchesEndpoint`
(files.go:770-811).  `Flatten` always gives its result an ID (file.go:1277), so the test at files.go:791 is true. -/
def flattenBatches (L : Lib F T) (s : State F) (id : Id) : State F × Resp F T :=
  match find s.files id with
  | none => (s, ⟨.notFound, .none⟩)                                    -- ErrNotFound itself → 404
  | some f =>
    let c := L.create f                                                -- :256 on the stored pointer
    if c.2.isSome then (⟨put s.files id c.1, s.next⟩, ⟨.libErr, .none⟩) else
    let r := L.flatten c.1                                             -- :259
    match r.2 with
    | .error _ => (⟨put s.files id r.1, s.next⟩, ⟨.libErr, .none⟩)
    | .ok g =>
      let gid := L.freshId s.next
      (⟨keep (put s.files id r.1) gid (L.setId g gid), s.next + 1⟩,    -- files.go:792, error only logged
       ⟨.ok, .idFile gid (L.setId g gid)⟩)

/-- `service.SegmentFile` (service.go:236-247): receiver afterwards, credit/debit files on success -/
def svcSegment (L : Lib F T) (f : F) : F × Option (Option F × Option F) :=
  let c := L.create f                                                  -- :238
  if c.2.isSome then (c.1, none) else
  match (L.segment c.1).2 with
  | .ok cd => ((L.segment c.1).1, some cd)
  | .error _ => ((L.segment c.1).1, none)

/-- IDs of the two parts (`addFileHeaderData`, file.go:1277): the credit file's is the n-th draw, the debit file's
the (n+1)-th; an empty side has no ID -/
def segParts (L : Lib F T) (n : Nat) (cd : Option F × Option F) : Option (Id × F) × Option (Id × F) :=
  (cd.1.map (fun g => (L.freshId n, L.setId g (L.freshId n))),
   cd.2.map (fun g => (L.freshId (n + 1), L.setId g (L.freshId (n + 1)))))

def keepOpt (fs : Files F) : Option (Id × F) → Files F
  | some p => keep fs p.1 p.2
  | none => fs

/-- the tail of both segment endpoints (files.go:589-617, 676-704): a side with a non-empty ID is stored (error only
logged) and reported; `segmentedFilesResponse` has no `error()` method, so the status is 200 in any case -/
def storeSegments (L : Lib F T) (fs : Files F) (n : Nat) (cd : Option F × Option F) : Files F × Resp F T :=
  (keepOpt (keepOpt fs (segParts L n cd).1) (segParts L n cd).2, ⟨.ok, .seg (segParts L n cd).1 (segParts L n cd).2⟩)

/-- POST /files/{fileID}/segment: `service.SegmentFileID` (service.go:227-233), `segmentFileIDEndpoint` -/
def segmentFileID (L : Lib F T) (s : State F) (id : Id) : State F × Resp F T :=
  match find s.files id with
  | none => (s, ⟨.notFound, .none⟩)
  | some f =>
    let r := svcSegment L f
    match r.2 with
    | none => (⟨put s.files id r.1, s.next⟩, ⟨.libErr, .none⟩)
    | some cd =>
      let o := storeSegments L (put s.files id r.1) s.next cd
      (⟨o.1, s.next + 2⟩, o.2)

/-- `decodeSegmentFileRequest` (files.go:708-757): any parse error is a decode error; `none` = the endpoint is not
reached and `encodeError` answers the wrapped error; `codeFrom` searches the error *text*, which still names the library
error type after `fmt.Errorf("D : %v", err)`, so the status is 400 or 500 like any library error (`libErr`; found by the
`server` correspondence stream: empty body → 500, bad header line → 400) -/
def decodeSegment (L : Lib F T) (json : Bool) (body : Tok) (opts : Option Opts) : Option F :=
  if json then
    (match L.parseJSON body opts with                                  -- :738
     | (some f, none) => some f
     | _ => none)
  else
    (match L.parseText body none with                                  -- :744
     | (f, none) => some f
     | _ => none)

/-- files.go:656-658 -/
def withOpts (L : Lib F T) (f : F) : Option Opts → F
  | some o => L.setOpts f o
  | none => f

/-- POST /segment: `segmentFileEndpoint` (files.go:649-706); the submitted file is not stored, its parts are -/
def segmentFile (L : Lib F T) (s : State F) (json : Bool) (body : Tok) (opts : Option Opts) : State F × Resp F T :=
  match decodeSegment L json body opts with
  | none => (s, ⟨.libErr, .none⟩)
  | some f =>
    match (svcSegment L (withOpts L f opts)).2 with
    | none => (s, ⟨.libErr, .none⟩)
    | some cd =>
      let o := storeSegments L s.files s.next cd
      (⟨o.1, s.next + 2⟩, o.2)

/-! ## batches.go + service.go + repository.go (batch methods) -/

/-- `val.ID() == batchID` (repository.go:130, 154, 188) -/
def isBatch (L : Lib F T) (bid : Id) (v : Batch) : Bool := L.batchId v == some bid

/-- the duplicate test of `StoreBatch` (repository.go:129-133) -/
def hasBatch (L : Lib F T) (f : F) (bid : Id) : Bool := (L.batches f).any (isBatch L bid)

/-- `service.CreateBatch` (service.go:169-177): a batch without header ID gets a generated one.
Result: the batch, its ID, the new draw counter. -/
def stampBatch (L : Lib F T) (n : Nat) (b : Batch) : Batch × Id × Nat :=
  match L.batchId b with
  | some bid => (b, bid, n)
  | none => (L.setBatchId b (L.freshId n), L.freshId n, n + 1)

/-- POST /files/{fileID}/batches: `service.CreateBatch` (service.go:165-182), `StoreBatch` (repository.go:118-141) -/
def createBatch (L : Lib F T) (s : State F) (id : Id) (b : Batch) : State F × Resp F T :=
  let sb := stampBatch L s.next b
  match find s.files id with
  | none => (⟨s.files, sb.2.2⟩, ⟨.notFound, .none⟩)
  | some f =>
    if hasBatch L f sb.2.1                                             -- → ErrAlreadyExists → 400
    then (⟨s.files, sb.2.2⟩, ⟨.badRequest, .none⟩)
    else (⟨put s.files id (L.addBatch f sb.1), sb.2.2⟩, ⟨.ok, .id sb.2.1⟩)

/-- GET /files/{fileID}/batches/{batchID}: `FindBatch` (repository.go:144-160), the first match -/
def getBatch (L : Lib F T) (s : State F) (id bid : Id) : State F × Resp F T :=
  match find s.files id with
  | none => (s, ⟨.notFound, .none⟩)
  | some f =>
    match (L.batches f).find? (isBatch L bid) with
    | some b => (s, ⟨.ok, .batch b⟩)
    | none => (s, ⟨.notFound, .none⟩)

/-- GET /files/{fileID}/batches: `FindAllBatches` (repository.go:163-176); a missing file is `null`, not an error -/
def getBatches (L : Lib F T) (s : State F) (id : Id) : State F × Resp F T :=
  (s, ⟨.ok, .batches ((find s.files id).map L.batches)⟩)

/-- DELETE /files/{fileID}/batches/{batchID}: `DeleteBatch` (repository.go:178-195); the missing-file error is a
formatted string → 500, a missing batch is ErrNotFound → 404 -/
def deleteBatch (L : Lib F T) (s : State F) (id bid : Id) : State F × Resp F T :=
  match find s.files id with
  | none => (s, ⟨.error, .none⟩)
  | some f =>
    match lastIdx (isBatch L bid) (L.batches f) with
    | some i => (⟨put s.files id (L.dropBatch f i), s.next⟩, ⟨.ok, .none⟩)
    | none => (s, ⟨.notFound, .none⟩)

/-- the route table (routing.go:118-213) -/
def step (L : Lib F T) (s : State F) : Req → State F × Resp F T
  | .create path json body opts => createFile L s path json body opts
  | .get id => getFile s id
  | .list => getFiles s
  | .delete id => deleteFile s id
  | .contents id crlf => getFileContents L s id crlf
  | .validate id opts => validateFile L s id opts
  | .build id => buildFile L s id
  | .flatten id => flattenBatches L s id
  | .segment id => segmentFileID L s id
  | .segmentBody json body opts => segmentFile L s json body opts
  | .addBatch id b => createBatch L s id b
  | .getBatch id bid => getBatch L s id bid
  | .batches id => getBatches L s id
  | .delBatch id bid => deleteBatch L s id bid

/-- final state and the responses, in order -/
def run (L : Lib F T) (s : State F) : List Req → State F × List (Resp F T)
  | [] => (s, [])
  | r :: rs => ((run L (step L s r).1 rs).1, (step L s r).2 :: (run L (step L s r).1 rs).2)

/-- the only already-stored key a request can alter -/
def Req.writes : Req → Option Id
  | .delete id | .contents id _ | .build id | .flatten id | .segment id | .addBatch id _ | .delBatch id _ => some id
  | _ => none

end Ach.Server
