import Ach.Go.Str
import Ach.Model.Field
import Ach.Model.ReaderSM
import Ach.Generated.Tables
import Ach.Generated.Consts
import Ach.Driver.Hex
/-!
# From a 94-column line to the dispatcher's view of it, and the `reader` correspondence stream

`classify` reads off a line exactly what `parseLine` and its callees look at:

* column 1 selects the case of `parseLine` (the case list is the generated `sw_parseLine`);
* batch header: `parseBH` takes the IAT branch when columns 51-53 are `IAT` or columns 5-20 trim to `IATCOR`; otherwise
  `NewBatch` builds an ADV batch when columns 51-53 (where `BatchHeader.Parse` finds the SEC code) are `ADV`;
* entry: the addenda record indicator is column 79 in `EntryDetail`, `ADVEntryDetail` and `IATEntryDetail` alike,
  parsed with `parseNumField` and compared with 1;
* addenda: columns 2-3 select the clause of `parseAddenda` (generated `sw_parseAddenda`) and of `switchIATAddenda` /
  `mandatoryOptionalIATAddenda`; for 98 / 99 columns 4-6 are looked up in `IsRefusedChangeCode` (upper-cased),
  `IsDishonoredReturnCode`, `IsContestedReturnCode` (generated case lists);
* `9` record: filler when it starts with `99`.

The Go code slices `r.line` by bytes in `parseLine` / `parseAddenda`; this function slices by characters: they agree on
ASCII text (the stream's lines are ASCII).

## Line protocol (`reader <line> <line> …` → one output line)

Each `<line>` token is `<hex of the 94 characters>:<v1><v2><v3><b>` with four `0`/`1` flags supplied by the Go side
(results of the real `Validate()` methods, which this model leaves abstract):
file header `v1` = `FileHeader.Validate`; batch header `v1` = `BatchHeader.Validate`, `v2` = `NewBatch` succeeds,
`v3` = `IATBatchHeader.Validate`; entry `v1`/`v2`/`v3` = `EntryDetail` / `ADVEntryDetail` / `IATEntryDetail` validate;
addenda `v1` = the standard addenda type selected by its codes validates, `v2` = `Addenda99` (ADV), `v3` = the IAT addenda
type; batch control `v1` = `BatchControl.Validate`, `v2` = `ADVBatchControl.Validate`, `b` = the batch it closes validates
(taken from the real run); file control `v1` = `FileControl.Validate`, `v2` = `ADVFileControl.Validate`.
Record ids are 1-based line numbers (what the Reader stores in `LineNumber`).

Output: `H<id> C<id> A<id> B[<batch>;…] I[<batch>;…] E[<err>,…]` with `-` for an absent record,
`<batch>` = `<kind>:<header id>:<entry>|<entry>…:<control id>`, `<entry>` = `<id>(<rank>=<id>,…)`.
-/
namespace Ach.ReaderSM
open Ach Ach.Gen

def sliceStr (l : Str) (a b : Nat) : String := String.ofList ((l.drop a).take (b - a))

/-- the case lists of the `i`-th `switch` of a generated table -/
def caseLists (sw : List Switch) (i : Nat) : List (List String) :=
  match sw[i]? with
  | some s => s.clauses.map (·.svals)
  | none => []

def caseIndex (cls : List (List String)) (v : String) : Option Nat :=
  let i := cls.findIdx (·.contains v)
  if i < cls.length then some i else none

def inCases (sw : List Switch) (v : String) : Bool := (caseIndex (caseLists sw 0) v).isSome

def upperAscii (s : String) : String := String.ofList (s.toList.map fun c => if 'a' ≤ c && c ≤ 'z' then Char.ofNat (c.toNat - 32) else c)

/-- slot of a standard entry selected by `parseAddenda` (Writer order: 02, 05…, 98, 98 refused, 99, 99 dishonored, 99 contested) -/
def stdSlotOf (l : Str) : Option Slot :=
  let code := sliceStr l 3 6
  match caseIndex (caseLists sw_parseAddenda 0) (sliceStr l 1 3) with
  | some 0 => some ⟨0, false⟩
  | some 1 => some ⟨1, true⟩
  | some 2 => if inCases sw_IsRefusedChangeCode (upperAscii code) then some ⟨3, false⟩ else some ⟨2, false⟩
  | some 3 => if inCases sw_IsDishonoredReturnCode code then some ⟨5, false⟩
              else if inCases sw_IsContestedReturnCode code then some ⟨6, false⟩ else some ⟨4, false⟩
  | _ => none

/-- slot of an IAT entry selected by `switchIATAddenda` (Writer order: 10 … 16, 17…, 18…, 98, 99) -/
def iatSlotOf (l : Str) : Option Slot :=
  let tc := sliceStr l 1 3
  match caseIndex (caseLists sw_switchIATAddenda 0) tc with
  | some 0 =>
    match caseIndex (caseLists sw_mandatoryOptionalIATAddenda 0) tc with
    | some i => some ⟨i, i ≥ 7⟩
    | none => none
  | some 1 => some ⟨9, false⟩
  | some 2 => some ⟨10, false⟩
  | _ => none

def classify (l : Str) (id : Nat) : Rec :=
  match caseIndex (caseLists sw_parseLine 0) (sliceStr l 0 1) with
  | some 0 => .fh id
  | some 1 =>
    let sec := sliceStr l 50 53
    if sec = S.IAT || String.ofList (trimSpace ((l.drop 4).take 16)) = S.IATCOR then .bh .iat id
    else .bh (if sec = S.ADV then .adv else .std) id
  | some 2 => .ed (parseNumField ((l.drop 78).take 1) == 1) id
  | some 3 => .ad (stdSlotOf l) (iatSlotOf l) id
  | some 4 => .bc id
  | some 5 => if sliceStr l 0 2 = "99" then .filler else .fc id
  | _ => .unknown id

/-! ## printing -/

def Rec.id : Rec → Option Nat
  | .fh i | .bh _ i | .ed _ i | .ad _ _ i | .bc i | .fc i | .unknown i => some i
  | .filler => none

def showId (r : Option Rec) : String :=
  match r.bind Rec.id with
  | some i => toString i
  | none => "-"

def showEntry (e : TEntry) : String :=
  showId (some e.line) ++ "(" ++ ",".intercalate (e.addenda.map fun (sl, r) => s!"{sl.rank}={showId (some r)}") ++ ")"

def showBatch (b : TBatch) : String :=
  let k := match b.kind with | .std => "std" | .adv => "adv" | .iat => "iat"
  s!"{k}:{showId (some b.header)}:{"|".intercalate (b.entries.map showEntry)}:{showId b.control}"

def showErr : Err → String
  | .dupHeader | .missingHeader => "ErrFileHeader"
  | .dupControl | .missingControl => "ErrFileControl"
  | .consecutiveBH => "consecutiveBH"
  | .recInvalid => "invalid"
  | .newBatch => "unknownSEC"
  | .entryOutside => "entryOutside"
  | .addendaOutsideEntry => "addendaOutsideEntry"
  | .indicator => "indicator"
  | .bcOutside => "bcOutside"
  | .batchInvalid => "batchInvalid"
  | .unknownType => "unknownType"

def showSt (s : St) : String :=
  s!"H{showId s.header} C{showId s.control} A{showId s.advControl} B[{";".intercalate (s.batches.map showBatch)}] " ++
  s!"I[{";".intercalate (s.iatBatches.map showBatch)}] E[{",".intercalate (s.errs.map showErr)}]"

def parseTok (tok : String) (id : Nat) : Option (Rec × Bits) :=
  match tok.splitOn ":" with
  | [h, bits] =>
    match Ach.Driver.hexToStr h, bits.toList with
    | some l, [a, b, c, d] =>
      if [a, b, c, d].all (fun x => x = '0' || x = '1') then some (classify l id, ⟨a = '1', b = '1', c = '1', d = '1'⟩)
      else none
    | _, _ => none
  | _ => none

def parseToks : List String → Nat → Option (List (Rec × Bits))
  | [], _ => some []
  | t :: ts, id =>
    match parseTok t id, parseToks ts (id + 1) with
    | some r, some rs => some (r :: rs)
    | _, _ => none

/-- `reader <tok> …` -/
def runLine (toks : List String) : String :=
  match parseToks toks 1 with
  | some rs => showSt (read rs)
  | none => "bad-op"

end Ach.ReaderSM
