import Ach.Go.Str
import Ach.Generated.Reader
/-!
# The Reader's line splitter (reader.go `Read` / `readLine`)

`Read` scans rune by rune: CR and LF flush a non-empty buffer, any other rune
is appended and the buffer is flushed when it reaches 94 runes.  Each flushed
buffer that is not blank (all `unicode.IsSpace`) is handed to `readLine`, which
pads a short line with blanks to 94 *in the unit the source uses today*
(`Gen.rightPadUnit`: bytes or runes) and rejects it if it is longer than 94 in
that unit.
-/
namespace Ach

structure SplitSt where
  cur : Str
  out : List Str

def isNL (c : Char) : Bool := c = '\n' || c = '\r'

def stepChar (w : Nat) (s : SplitSt) (c : Char) : SplitSt :=
  if isNL c then
    if s.cur.length > 0 then { cur := [], out := s.out ++ [s.cur] } else s
  else
    let cur' := s.cur ++ [c]
    if cur'.length < w then { s with cur := cur' } else { cur := [], out := s.out ++ [cur'] }

def runChars (w : Nat) (s : SplitSt) (cs : Str) : SplitSt := cs.foldl (stepChar w) s

def finish (s : SplitSt) : List Str := if s.cur.length > 0 then s.out ++ [s.cur] else s.out

/-- the buffers `Read` flushes, in order (before blank-line skipping) -/
def splitLines (w : Nat) (cs : Str) : List Str := finish (runChars w ⟨[], []⟩ cs)

def blankLine (l : Str) : Bool := l.all isSpace

/-- `rightPadShortLine`: `none` = RecordWrongLength error -/
def rightPad (unit : String) (l : Str) : Option Str :=
  let n := if unit = "rune" then l.length else byteLen l
  if n > 94 then none else some (l ++ spaces (94 - n))

/-- the 94-column records handed to `parseLine` (or `none` for a line `readLine` rejects) -/
def physicalRecords (text : Str) : List (Option Str) :=
  ((splitLines 94 text).filter (fun l => !blankLine l)).map (fun l =>
    if l.length = 94 then some l else rightPad Gen.rightPadUnit l)

end Ach
