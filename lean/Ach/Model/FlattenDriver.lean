import Ach.Model.Flatten
/-!
Line protocol of the `flatten` correspondence stream (`Ach.Flatten.flatten` vs the real `(*File).FlattenBatches`).

`flatten <B>|<B>|…`   the batches **in processing order** (the order the real `sort.Slice` by entry count leaves them in —
                      computed on the Go side by the same `sort.Slice` call shape, since the sort is unstable)
   B = `<sig>:<E>/<E>/…` or `<sig>:-` (no entries);   E = `<trace>,<payload>`   (all naturals: interned header signature,
       rank of the trace-number string in Go string order, unique entry index)
`flatten -`           the Go side skipped the case (the real call returned an error); answer `-`

answer: the output groups of `flattenSorted` — inside a group the payloads in the order of their entries (ascending trace
number, as `AddToFile` leaves them), the groups sorted by (sig, payload list) — as `<sig>:<p>,<p>,…|<sig>:…` (`-` for no
group at all).  Trace numbers are ranks that preserve the order of the trace-number strings.  The order of the groups is
driver glue: the real one goes through a Go map and a second unstable sort.
Anything malformed: `bad-op`.
-/
namespace Ach.FlattenDriver
open Ach.Flatten

def parseEntry (s : String) : Option FEntry :=
  match s.splitOn "," with
  | [t, p] => match t.toNat?, p.toNat? with
    | some t, some p => some ⟨t, p⟩
    | _, _ => none
  | _ => none

def parseBatch (s : String) : Option FBatch :=
  match s.splitOn ":" with
  | [sig, es] =>
    match sig.toNat?, (if es = "-" then some [] else (es.splitOn "/").mapM parseEntry) with
    | some sig, some es => some ⟨sig, es⟩
    | _, _ => none
  | _ => none

def natListLe : List Nat → List Nat → Bool
  | [], _ => true
  | _ :: _, [] => false
  | a :: as, b :: bs => if a < b then true else if b < a then false else natListLe as bs

def groupLe (a b : Nat × List Nat) : Bool :=
  if a.1 < b.1 then true else if b.1 < a.1 then false else natListLe a.2 b.2

def canon (gs : List FBatch) : List (Nat × List Nat) :=
  (gs.map (fun g => (g.sig, g.entries.map (·.payload)))).mergeSort groupLe

def showGroup (g : Nat × List Nat) : String :=
  s!"{g.1}:" ++ ",".intercalate (g.2.map toString)

def run (args : List String) : String :=
  match args with
  | ["-"] => "-"
  | [bs] =>
    match (bs.splitOn "|").mapM parseBatch with
    | some bs =>
      let out := canon (flattenSorted bs)
      if out.isEmpty then "-" else "|".intercalate (out.map showGroup)
    | none => "bad-op"
  | _ => "bad-op"

end Ach.FlattenDriver
