import Ach.Model.Flatten
/-!
Line protocol of the `flatten` correspondence stream (`Ach.Flatten.flatten` vs the real `(*File).FlattenBatches`).

`flatten <B>|<B>|…`   the batches **in processing order** (the order the real `sort.Slice` by entry count leaves them in —
                      computed on the Go side by the same `sort.Slice` call shape, since the sort is unstable)
   B = `<sig>:<E>/<E>/…` or `<sig>:-` (no entries);   E = `<trace>,<payload>`   (all naturals: interned header signature,
       interned trace-number string, unique entry index)
`flatten -`           the Go side skipped the case (the real call returned an error); answer `-`

answer: the output groups of `flatten`, canonicalised — inside a group the payloads sorted ascending, the groups sorted
by (sig, payload list) — as `<sig>:<p>,<p>,…|<sig>:…` (`-` for no group at all).  The canonicalisation is driver glue:
the real output order goes through a Go map, a second unstable sort and a re-sort of the entries by trace number.
Anything malformed: `bad-op`.
-/
namespace Ach.FlattenDriver
open Ach.Flatten

def parseEntry (s : String) : Option FEntry :=
  match s.splitOn "," with
  | [t, p] => match t.toNat?, p.toNat? with
    | some t, some p => some ⟨t, p⟩
    | _, _ => none
  | _ => none

def parseBatch (s : String) : Option FBatch :=
  match s.splitOn ":" with
  | [sig, es] =>
    match sig.toNat?, (if es = "-" then some [] else (es.splitOn "/").mapM parseEntry) with
    | some sig, some es => some ⟨sig, es⟩
    | _, _ => none
  | _ => none

def natListLe : List Nat → List Nat → Bool
  | [], _ => true
  | _ :: _, [] => false
  | a :: as, b :: bs => if a < b then true else if b < a then false else natListLe as bs

def groupLe (a b : Nat × List Nat) : Bool :=
  if a.1 < b.1 then true else if b.1 < a.1 then false else natListLe a.2 b.2

def canon (gs : List FBatch) : List (Nat × List Nat) :=
  (gs.map (fun g => (g.sig, (g.entries.map (·.payload)).mergeSort (fun a b => decide (a ≤ b))))).mergeSort groupLe

def showGroup (g : Nat × List Nat) : String :=
  s!"{g.1}:" ++ ",".intercalate (g.2.map toString)

def run (args : List String) : String :=
  match args with
  | ["-"] => "-"
  | [bs] =>
    match (bs.splitOn "|").mapM parseBatch with
    | some bs =>
      let out := canon (flatten bs)
      if out.isEmpty then "-" else "|".intercalate (out.map showGroup)
    | none => "bad-op"
  | _ => "bad-op"

end Ach.FlattenDriver
