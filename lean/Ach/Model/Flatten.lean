/-!
# `FlattenBatches` (file_flattener.go)

A batch is its header signature (`GetHeaderSignature`: the first 87 bytes of the rendered header, abstracted to a key)
and its entries (trace number + opaque payload).  Batches are processed in the order `sort.Slice` by entry count leaves
them — an unstable sort, so the theorems quantify over *every* processing order.  `newBatchesByHeader[sig]` is a list of
groups per signature, scanned in creation order; one list of all groups filtered by signature is the same thing.
-/
namespace Ach.Flatten

structure FEntry where
  trace : Nat
  payload : Nat
deriving DecidableEq, Repr

structure FBatch where
  sig : Nat
  entries : List FEntry
deriving DecidableEq, Repr

/-- some trace number occurs in both -/
def shares (a b : List FEntry) : Bool := a.any (fun e => b.any (fun f => f.trace = e.trace))

/-- `canMerge(batch, group)`: equal signatures and no common trace number -/
def canMerge (b g : FBatch) : Bool := g.sig = b.sig && !shares b.entries g.entries

/-- one iteration of the merge loop: consume into the first group that can take the batch, else open a new group -/
def absorb (b : FBatch) : List FBatch → List FBatch
  | [] => [b]
  | g :: gs => if canMerge b g then { g with entries := g.entries ++ b.entries } :: gs else g :: absorb b gs

def flatten (bs : List FBatch) : List FBatch := bs.foldl (fun gs b => absorb b gs) []

def allEntries (bs : List FBatch) : List FEntry := bs.flatMap (·.entries)

/-- `AddToFile`: `sort.Slice(entries, less by TraceNumber)` — an insertion into trace order (the sort is unstable,
but inside a group trace numbers are distinct, so the result is the unique ascending arrangement) -/
def insertByTrace (e : FEntry) : List FEntry → List FEntry
  | [] => [e]
  | x :: xs => if e.trace ≤ x.trace then e :: x :: xs else x :: insertByTrace e xs

def sortByTrace : List FEntry → List FEntry
  | [] => []
  | e :: es => insertByTrace e (sortByTrace es)

/-- the batches as they are added to the new file: each group's entries in trace order -/
def flattenSorted (bs : List FBatch) : List FBatch := (flatten bs).map (fun g => { g with entries := sortByTrace g.entries })

end Ach.Flatten
