import Ach.Facts
/-!
# MergeDir: directory walk and the walker / parse-workers / merger pipeline (merge.go:189-392)

Two models.

**Walk** (`walkItems`, mirrors `walkDir`, merge.go:297-339): a pure function over a directory tree.  `items` are
the entries of one directory in the order `ReadDir` returns them (sorted by file name).  A regular file is sent as
`filepath.Join(dir, name)`; a sub-directory is skipped when `opts.SubDirectories` is false and otherwise handled
according to the behaviour extracted from the source (`Gen.walkSubdir`):
`"recurse-check-err-continue"` = `if err := walkDir(sub); err != nil { return err }; continue` (merge.go:319-324),
`"return-recursive-call"` = `return walkDir(sub)` (the code before a7642603: the rest of the directory is lost).
Quirk mirrored separately (`osFallbackDirs`): when the `fs.FS` lists a directory as empty, `walkDir` reads the same
path from the operating system (`if len(items) == 0 { items, err = os.ReadDir(dir) }`, merge.go:310-312).

**Pipeline** (`Step`, mirrors the goroutines of `MergeDir`, merge.go:222-289, and `queueFileForMerging`,
merge.go:341-392) as a labelled transition system over `St`:

* walker: sends the walked paths in order on the unbuffered `discoveredPaths` (rendezvous = `send i`: walker and
  an idle worker `i` move together); `walkerFinish` when nothing is left (the helper goroutine that then cancels
  `pathsCtx` is folded into this step: nothing else observes the gap); `walkerAbort k` exists only when the send
  sits in a `select` with the errgroup context's `Done()` and an error has been recorded: the `walkDir` invocation
  returns nil, i.e. the path at hand and the rest of the directory being listed are skipped and the parent's loop
  goes on (it may even send again).  The model lets the step skip any number `k` of further paths — a superset of
  what the source does (exactly the rest of that directory); its enabling condition does not depend on `k`;
* worker `i`: `idle` (at its `select`) → `got p` (path received) → `parse i`: a path that `AcceptFile` skips returns
  to `idle`; an accepted file that cannot be read/parsed makes the worker return an error (`exited .err`, the
  errgroup records the error); otherwise `setup.Do` seeds `sorted.header` if it is the first (`seed`) and the worker
  is `holding` the file, blocked on the unbuffered `mergableFiles` until `deliver i` (rendezvous with the merger);
  `workerExit i`: an idle worker observes `pathsCtx.Done()`; `workerAbort i` only when that send is cancellable;
* merger: appends every received file to `acc` (`sorted.add`); `mergerFinish` when every worker has returned
  (`parsingGroup.Wait(); parsingCancelFunc()` folded in);
* `g.Wait()`: the run is over in a `terminal` state; the result is an error iff `err`.

`next` is the computable successor function (`step_iff_next` in Ach/Proofs/Pipeline.lean).
-/
namespace Ach.Pipeline

/-! ## the directory walk -/

/-- what `opts.AcceptFile` says about a name (`sidecar` = a ValidateOpts side-car file, skipped like `skip`) -/
inductive Kind | accept | json | skip | sidecar
deriving DecidableEq, Repr

def Kind.accepted : Kind → Bool
  | .accept | .json => true
  | _ => false

inductive Node
  | file (name : String) (kind : Kind) (parseable : Bool)
  | dir (name : String) (children : List Node)
deriving Repr

/-- a path put on `discoveredPaths`, with what the worker will find out about it -/
structure Sent where
  path : String
  kind : Kind
  parseable : Bool
deriving DecidableEq, Repr

inductive SubdirBeh | returnCall | continue | unknown
deriving DecidableEq, Repr

def subdirBehOf (s : String) : SubdirBeh :=
  if s = "return-recursive-call" then .returnCall
  else if s = "recurse-check-err-continue" then .continue else .unknown

/-- `filepath.Join(dir, name)` for a clean `dir` and a plain `name` (`MergeDir` passes "." with an fs.FS) -/
def join (dir name : String) : String := if dir = "." then name else dir ++ "/" ++ name

/-- `walkDir` over the entries of `dir`: the paths sent, in order (merge.go:317-336) -/
def walkItems (subdirs : Bool) (beh : SubdirBeh) (dir : String) : List Node → List Sent
  | [] => []
  | .file n k ok :: rest => ⟨join dir n, k, ok⟩ :: walkItems subdirs beh dir rest
  | .dir n cs :: rest =>
    if subdirs then
      match beh with
      | .returnCall => walkItems subdirs beh (join dir n) cs
      | .continue => walkItems subdirs beh (join dir n) cs ++ walkItems subdirs beh dir rest
      | .unknown => []
    else walkItems subdirs beh dir rest

/-- directories on which `walkDir` falls back to `os.ReadDir` because the listing is empty (merge.go:310) -/
def osFallbackItems (subdirs : Bool) (beh : SubdirBeh) (dir : String) : List Node → List String
  | [] => []
  | .file _ _ _ :: rest => osFallbackItems subdirs beh dir rest
  | .dir n cs :: rest =>
    if subdirs then
      let here := if cs.isEmpty then [join dir n] else []
      match beh with
      | .returnCall => here ++ osFallbackItems subdirs beh (join dir n) cs
      | .continue => here ++ osFallbackItems subdirs beh (join dir n) cs ++ osFallbackItems subdirs beh dir rest
      | .unknown => []
    else osFallbackItems subdirs beh dir rest

def osFallbackDirs (subdirs : Bool) (beh : SubdirBeh) (dir : String) (items : List Node) : List String :=
  (if items.isEmpty then [dir] else []) ++ osFallbackItems subdirs beh dir items

/-- specification side: every regular file below a directory, depth first in listing order -/
def allFiles (dir : String) : List Node → List Sent
  | [] => []
  | .file n k ok :: rest => ⟨join dir n, k, ok⟩ :: allFiles dir rest
  | .dir n cs :: rest => allFiles (join dir n) cs ++ allFiles dir rest

/-- specification side: the regular files directly in the directory -/
def topFiles (dir : String) : List Node → List Sent
  | [] => []
  | .file n k ok :: rest => ⟨join dir n, k, ok⟩ :: topFiles dir rest
  | .dir _ _ :: rest => topFiles dir rest

/-! ## the pipeline -/

/-- a discovered path as the pipeline sees it: `id` names the file it parses to -/
structure PFile where
  id : Nat
  accepted : Bool
  parseable : Bool
deriving DecidableEq, Repr

def PFile.good (p : PFile) : Bool := p.accepted && p.parseable
def PFile.bad (p : PFile) : Bool := p.accepted && !p.parseable

/-- ids of the files `MergeFiles` would be given: accepted and parseable, in walk order -/
def goodIds (ps : List PFile) : List Nat := (ps.filter PFile.good).map (·.id)

def numberFrom (k : Nat) : List Sent → List PFile
  | [] => []
  | s :: rest => ⟨k, s.kind.accepted, s.parseable⟩ :: numberFrom (k + 1) rest

/-- the walker's work list for a tree: file `i` is the `i`-th walked path -/
def pathsOfTree (subdirs : Bool) (beh : SubdirBeh) (items : List Node) : List PFile :=
  numberFrom 0 (walkItems subdirs beh "." items)

/-- how a worker returned: `ok` = saw `pathsCtx.Done()`, `err` = its own read/parse error,
`abort` = saw the errgroup context's `Done()` while sending a parsed file -/
inductive Exit | ok | err | abort
deriving DecidableEq, Repr

inductive W | idle | got (p : PFile) | holding (f : Nat) | exited (e : Exit)
deriving DecidableEq, Repr

def W.isExited : W → Bool
  | .exited _ => true
  | _ => false

/-- parameters read off the source (Ach/Props/C10.lean `paramsOf`) -/
structure Params where
  walkerSendCancellable : Bool
  workerSendCancellable : Bool
  groupCtx : Bool
deriving DecidableEq, Repr

/-- the walker's send can be abandoned: it selects on a `Done()` of the context an errgroup error cancels -/
def Params.walkerAbortable (P : Params) : Bool := P.walkerSendCancellable && P.groupCtx
def Params.workerAbortable (P : Params) : Bool := P.workerSendCancellable && P.groupCtx

structure St where
  remaining : List PFile
  sent : List PFile
  walkerDone : Bool
  workers : List W
  acc : List Nat
  mergerDone : Bool
  seed : Option Nat
  err : Bool
deriving DecidableEq, Repr

def init (n : Nat) (paths : List PFile) : St :=
  ⟨paths, [], false, List.replicate n .idle, [], false, none, false⟩

/-- merge.go:360-379: skip / error / `setup.Do` + ready to send -/
def afterParse (p : PFile) : W :=
  if p.accepted then (if p.parseable then .holding p.id else .exited .err) else .idle

def sendSt (s : St) (i : Nat) (p : PFile) (ps : List PFile) : St :=
  { s with remaining := ps, sent := s.sent ++ [p], workers := s.workers.set i (.got p) }

def parseSt (s : St) (i : Nat) (p : PFile) : St :=
  { s with workers := s.workers.set i (afterParse p), seed := if p.good then s.seed.or (some p.id) else s.seed, err := s.err || p.bad }

def deliverSt (s : St) (i : Nat) (f : Nat) : St :=
  { s with acc := s.acc ++ [f], workers := s.workers.set i .idle }

def exitSt (s : St) (i : Nat) (e : Exit) : St := { s with workers := s.workers.set i (.exited e) }

def allExited (s : St) : Bool := s.workers.all W.isExited

inductive Label
  | send (i : Nat) | parse (i : Nat) | deliver (i : Nat) | workerExit (i : Nat) | workerAbort (i : Nat)
  | walkerFinish | walkerAbort (k : Nat) | mergerFinish
deriving DecidableEq, Repr

inductive Step (P : Params) : St → Label → St → Prop
  | send (s : St) (i : Nat) (p : PFile) (ps : List PFile) (h1 : s.walkerDone = false) (h2 : s.remaining = p :: ps)
      (h3 : s.workers[i]? = some .idle) : Step P s (.send i) (sendSt s i p ps)
  | parse (s : St) (i : Nat) (p : PFile) (h3 : s.workers[i]? = some (.got p)) : Step P s (.parse i) (parseSt s i p)
  | deliver (s : St) (i : Nat) (f : Nat) (h1 : s.mergerDone = false) (h3 : s.workers[i]? = some (.holding f)) :
      Step P s (.deliver i) (deliverSt s i f)
  | workerExit (s : St) (i : Nat) (h1 : s.walkerDone = true) (h3 : s.workers[i]? = some .idle) :
      Step P s (.workerExit i) (exitSt s i .ok)
  | workerAbort (s : St) (i : Nat) (f : Nat) (hc : P.workerAbortable = true) (he : s.err = true)
      (h3 : s.workers[i]? = some (.holding f)) : Step P s (.workerAbort i) (exitSt s i .abort)
  | walkerFinish (s : St) (h1 : s.walkerDone = false) (h2 : s.remaining = []) :
      Step P s .walkerFinish { s with walkerDone := true }
  | walkerAbort (s : St) (p : PFile) (ps : List PFile) (k : Nat) (hc : P.walkerAbortable = true) (he : s.err = true)
      (h1 : s.walkerDone = false) (h2 : s.remaining = p :: ps) (hk : k ≤ ps.length) :
      Step P s (.walkerAbort k) { s with remaining := ps.drop k }
  | mergerFinish (s : St) (h1 : s.mergerDone = false) (h2 : allExited s = true) :
      Step P s .mergerFinish { s with mergerDone := true }

/-- `g.Wait()` returns: every goroutine has returned -/
def terminal (s : St) : Bool := s.mergerDone && s.walkerDone && allExited s

/-- what `MergeDir` hands to `convertToFiles`: `none` = `g.Wait()` returned an error -/
def result (s : St) : Option (List Nat) := if s.err then none else some s.acc

/-- computable successor (driver, `decide`) -/
def next (P : Params) (s : St) : Label → Option St
  | .send i =>
    match s.walkerDone, s.remaining, s.workers[i]? with
    | false, p :: ps, some .idle => some (sendSt s i p ps)
    | _, _, _ => none
  | .parse i =>
    match s.workers[i]? with
    | some (.got p) => some (parseSt s i p)
    | _ => none
  | .deliver i =>
    match s.mergerDone, s.workers[i]? with
    | false, some (.holding f) => some (deliverSt s i f)
    | _, _ => none
  | .workerExit i =>
    match s.walkerDone, s.workers[i]? with
    | true, some .idle => some (exitSt s i .ok)
    | _, _ => none
  | .workerAbort i =>
    match P.workerAbortable && s.err, s.workers[i]? with
    | true, some (.holding _) => some (exitSt s i .abort)
    | _, _ => none
  | .walkerFinish =>
    match s.walkerDone, s.remaining with
    | false, [] => some { s with walkerDone := true }
    | _, _ => none
  | .walkerAbort k =>
    match P.walkerAbortable && s.err, s.walkerDone, s.remaining with
    | true, false, _ :: ps => if k ≤ ps.length then some { s with remaining := ps.drop k } else none
    | _, _, _ => none
  | .mergerFinish => if s.mergerDone = false ∧ allExited s = true then some { s with mergerDone := true } else none

/-- run a schedule; `none` = some label was not enabled -/
def runLabels (P : Params) (s : St) : List Label → Option St
  | [] => some s
  | l :: ls => match next P s l with
    | some t => runLabels P t ls
    | none => none

/-- every label that could be enabled in `s` -/
def candidates (s : St) : List Label :=
  [.walkerFinish, .mergerFinish] ++ (List.range s.remaining.length).map .walkerAbort ++
    (List.range s.workers.length).flatMap (fun i => [.send i, .parse i, .deliver i, .workerExit i, .workerAbort i])

def enabled (P : Params) (s : St) : List Label := (candidates s).filter (fun l => (next P s l).isSome)

/-- states reachable from `init n paths` -/
inductive Reach (P : Params) (n : Nat) (paths : List PFile) : St → Prop
  | init : Reach P n paths (init n paths)
  | step {s t : St} {l : Label} : Reach P n paths s → Step P s l t → Reach P n paths t

end Ach.Pipeline
