import Ach.Model.Validate
import Ach.Generated.Sites
/-!
# `Batch.build` and `upsertOffsets` (batch.go:400-486, 1188-1265), non-ADV batches

Entries carry what `build` reads or writes: transaction code, amount, routing
prefix, trace number, the name (only to recognise an OFFSET entry), the
Addenda05 sequence numbers and the addenda count.  The header check and the
offset's routing/account-type checks are opaque booleans.

The removal loop of `upsertOffsets` is modelled *with the slice expression the
source uses today*: `removeStride` reads it from the generated index-site census
(`b.Entries[i+1:]` ⇒ remove one element; `b.Entries[i+i:]` ⇒ the historical bug:
panic, hang or silent loss depending on `i`).
-/
namespace Ach

inductive Fault where
  | panic | hang
deriving Repr, DecidableEq

structure CEntry where
  code : Int
  amount : Int
  rdfi : Str
  trace : Str
  isOffset : Bool                -- strings.EqualFold(IndividualName, "OFFSET")
  addenda05 : List (Int × Int)   -- (SequenceNumber, EntryDetailSequenceNumber)
  otherAddenda : Nat             -- addendaCount() minus len(Addenda05)
deriving Repr, DecidableEq

structure CControl where
  serviceClass : Int
  entryAddendaCount : Int
  entryHash : Int
  totalDebit : Int
  totalCredit : Int
deriving Repr, DecidableEq

inductive OffsetKind where
  | checking | savings
deriving Repr, DecidableEq

structure COffset where
  rdfi : Str            -- RoutingNumber[:8]
  routingOK : Bool      -- CheckRoutingNumber(RoutingNumber) == nil
  kind : Option OffsetKind   -- none = AccountType.validate() fails
deriving Repr, DecidableEq

structure CBatch where
  headerOK : Bool
  serviceClass : Int
  odfi : Str
  entries : List CEntry
  control : CControl
  offset : Option COffset
  autoTrace : Bool      -- validateOpts == nil || (!BypassOriginValidation && !CustomTraceNumbers)
deriving Repr, DecidableEq

def CEntry.addendaCount (e : CEntry) : Nat := e.addenda05.length + e.otherAddenda

def toV (e : CEntry) : VEntry := ⟨e.code, e.rdfi, [], e.amount, e.trace, e.addendaCount, true⟩

def cCredit (es : List CEntry) : Int := creditTotal (es.map toV)
def cDebit (es : List CEntry) : Int := debitTotal (es.map toV)
def cHash (es : List CEntry) : Int := batchHash (es.map toV)
def cCount (es : List CEntry) : Int := entryCount (es.map toV)

/-- `EntryDetail.SetTraceNumber(odfi, seq)` -/
def setTrace (odfi : Str) (seq : Nat) : Str := stringField odfi 8 ++ numericField seq 7

/-- one entry of the sequencing loop of `build`; `none` = `strconv.Atoi` of a trace / ODFI prefix failed -/
def buildEntry (b : CBatch) (seq : Nat) (e : CEntry) : Option CEntry :=
  match atoi ((stringField e.trace 15).take 8), atoi ((stringField b.odfi 8).take 8) with
  | some t, some o =>
    let trace := if t ≠ o && b.autoTrace then setTrace b.odfi seq else e.trace
    let eseq := parseNumField ((stringField trace 15).drop 8)
    some { e with
      trace := trace,
      addenda05 := (List.range e.addenda05.length).map (fun k => ((k + 1 : Nat), eseq)) }
  | _, _ => none

def buildEntries (b : CBatch) : Nat → List CEntry → Option (List CEntry)
  | _, [] => some []
  | seq, e :: es =>
    match buildEntry b seq e, buildEntries b (seq + 1) es with
    | some e', some es' => some (e' :: es')
    | _, _ => none

/-- which slice the removal loop uses: `some 1` for `Entries[i+1:]`, `some 0` for the doubled index `Entries[i+i:]` -/
def removeStride : Option Nat :=
  match Gen.indexSites.lookup "Batch.upsertOffsets" with
  | some sites =>
    if sites.contains "r.Entries[i+1:]" then some 1
    else if sites.contains "r.Entries[i+i:]" then some 0
    else none
  | none => none

/-- the upper slice start for index `i` -/
def strideAt (mode : Nat) (i : Nat) : Nat := if mode = 1 then i + 1 else i + i

/-- the removal loop: `for i := 0; i < len; i++ { if offset { fix control; Entries = append(Entries[:i], Entries[s(i):]...); i-- } }` -/
def removeLoop (mode : Nat) : Nat → Nat → List CEntry → CControl → Except Fault (List CEntry × CControl)
  | 0, _, _, _ => .error .hang
  | fuel + 1, i, es, ctl =>
    if i ≥ es.length then .ok (es, ctl)
    else match es[i]? with
      | none => .ok (es, ctl)
      | some e =>
        if e.isOffset then
          let ctl1 := if e.code = Gen.K.CheckingCredit || e.code = Gen.K.SavingsCredit
            then { ctl with totalCredit := ctl.totalCredit - e.amount }
            else { ctl with totalDebit := ctl.totalDebit - e.amount }
          let ctl2 := { ctl1 with entryAddendaCount := ctl1.entryAddendaCount - 1 }
          let hi := strideAt mode i
          if hi > es.length then .error .panic
          else removeLoop mode fuel i (es.take i ++ es.drop hi) ctl2
        else removeLoop mode fuel (i + 1) es ctl

def lastTraceNumber (es : List CEntry) : Int :=
  match es.getLast? with
  | some e => (atoi e.trace).getD 0
  | none => 0

/-- `fmt.Sprintf("%15.15d", n)` for n ≥ 0 -/
def fmt15 (n : Int) : Str := if n < 0 then '-' :: numericField (-n) 15 else
  let s := itoa n
  if s.length ≥ 15 then s else zeros (15 - s.length) ++ s

def dcodeOf (k : OffsetKind) : Int := if k = .checking then Gen.K.CheckingDebit else Gen.K.SavingsDebit
def ccodeOf (k : OffsetKind) : Int := if k = .checking then Gen.K.CheckingCredit else Gen.K.SavingsCredit

def offsetEntry (off : COffset) (code : Int) (amount : Int) (trace : Str) : CEntry :=
  ⟨code, amount, off.rdfi, trace, true, [], 0⟩

inductive BuildErr where
  | header | noEntries | atoi | routing | accountType | fault (f : Fault)
deriving Repr, DecidableEq

/-- the second half of `upsertOffsets`: create and append the debit / credit OFFSET entries and fix up the control -/
def appendOffsets (off : COffset) (k : OffsetKind) (es : List CEntry) (ctl : CControl) : List CEntry × CControl :=
  let last := lastTraceNumber es
  let dAmt := ctl.totalCredit
  let cAmt := ctl.totalDebit
  let n1 : Int := if dAmt = 0 then 1 else 2
  let dE := offsetEntry off (dcodeOf k) dAmt (fmt15 (last + 1))
  let cE := offsetEntry off (ccodeOf k) cAmt (fmt15 (last + n1))
  let es1 := if dAmt = 0 then es else es ++ [dE]
  let ctl1 := if dAmt = 0 then ctl else { ctl with entryAddendaCount := ctl.entryAddendaCount + 1, totalDebit := ctl.totalDebit + dAmt }
  let es2 := if cAmt = 0 then es1 else es1 ++ [cE]
  let ctl2 := if cAmt = 0 then ctl1 else { ctl1 with entryAddendaCount := ctl1.entryAddendaCount + 1, totalCredit := ctl1.totalCredit + cAmt }
  (es2, ctl2)

/-- `upsertOffsets` -/
def upsertOffsets (mode : Nat) (b : CBatch) : Except BuildErr CBatch :=
  match b.offset with
  | none => .ok b
  | some off =>
    if !off.routingOK then .error .routing
    else match removeLoop mode (2 * b.entries.length + 2) 0 b.entries b.control with
      | .error f => .error (.fault f)
      | .ok (es, ctl) =>
        match off.kind with
        | none => .error .accountType
        | some k =>
          let r := appendOffsets off k es ctl
          .ok { b with
            entries := r.1, serviceClass := Gen.K.MixedDebitsAndCredits,
            control := { r.2 with serviceClass := Gen.K.MixedDebitsAndCredits, entryHash := cHash r.1 } }

/-- `Batch.build` for a non-ADV batch -/
def build (mode : Nat) (b : CBatch) : Except BuildErr CBatch :=
  if !b.headerOK then .error .header
  else if b.entries.isEmpty then .error .noEntries
  else match buildEntries b 1 b.entries with
    | none => .error .atoi
    | some es =>
      let ctl : CControl := ⟨b.serviceClass, cCount es, cHash es, cDebit es, cCredit es⟩
      upsertOffsets mode { b with entries := es, control := ctl }

end Ach
