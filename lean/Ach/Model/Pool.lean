/-!
# The shared buffer pool (perf.go) as a labelled transition system, and a plain keyed store

## What the Go code does (perf.go, read line by line)

* `byteBufferPool = sync.Pool{New: func() any { return newBuffer() }}` — ONE package-level pool shared by every
  goroutine that parses or renders records; the objects are `*bytes.Buffer` (not `strings.Builder`).
* `getBuffer()` = `byteBufferPool.Get().(*bytes.Buffer)`, falling back to `newBuffer()` (empty, `Grow(94)`).
* `saveBuffer(sb)` = `sb.Reset(); byteBufferPool.Put(sb)` — Reset BEFORE Put, no size cap (a grown buffer is
  pooled as it is; capacity is invisible to the content, so it is not modelled).
* users (49 functions, fact table `poolUsers`): `buf := getBuffer(); defer saveBuffer(buf); …` then
  - `String()` methods: `buf.WriteString(x)…; return buf.String()` — the return value is evaluated BEFORE the
    deferred `saveBuffer` runs (Go spec, "Defer statements"), hence micro-ops `get · write* · emit · put`;
  - `Parse` methods: per rune `buf.WriteRune(r)`, at each field cut-off `out := buf.String(); buf.Reset()`, i.e.
    `get · (write* · emit · reset)* · put`;
  - `Reader.Read` (reader.go:195): like Parse per line, and while it HOLDS its buffer it calls `readLine` → `Parse`,
    which gets a second buffer: a goroutine holds a *stack* of buffers.
* `bytes.Buffer.String()` is `string(b.buf[b.off:])`: it COPIES the bytes into a fresh immutable Go string; nothing
  written to or Reset on the buffer afterwards can change a string already produced.  (`strings.Builder.String()`
  would alias, and be safe only because its `Reset` drops the array; that is not the type used here.)  `emit`
  therefore appends a *value* (`List UInt8`) to the goroutine's outputs.

## Trusted contract of `sync.Pool` (modelled, not verified)

`Get` returns either an object previously `Put` and not handed out since (any one, nondeterministically) or a fresh
`New()`; between two `Put`s an object is handed to at most one `Get`; the pool may drop pooled objects at any time
(GC).  `Get`/`Put` are atomic.  Labels: `getNew`, `getPooled b`, `drop b`.

Every micro-step below is atomic and interleavings are arbitrary: sequentially consistent — the Go memory model and
data races as such are NOT modelled (that part of C19 is covered only by the `-race` oracle).

`putKeep` is not something the Go code does: it is "saveBuffer while a live reference remains" (a non-deferred
`saveBuffer`, or a buffer that escaped), present so that the necessity of the discipline can be exhibited.
-/
namespace Ach.Pool

abbrev Bytes := List UInt8
abbrev BufId := Nat

/-- micro-operations of a goroutine on the buffer it acquired last (top of its stack) -/
inductive Op
  | get                 -- `buf := getBuffer()`
  | write (c : Bytes)   -- `buf.WriteString(x)` / `buf.WriteRune(r)`
  | emit                -- `buf.String()` : copy the content out (returned / assigned to a field)
  | reset               -- `buf.Reset()`
  | put                 -- deferred `saveBuffer(buf)` at function exit: Reset, Put, reference dead
  | putKeep             -- VIOLATION: `saveBuffer(buf)` but the goroutine goes on using `buf`
deriving DecidableEq, Repr

/-- one activation of a `String()` method: `get · write* · emit · put` -/
structure Job where
  chunks : List Bytes
deriving DecidableEq, Repr

def Job.ops (j : Job) : List Op := Op.get :: (j.chunks.map Op.write ++ [Op.emit, Op.put])

/-- sequential meaning of a render job: the concatenation of what was written -/
def renderSeq (j : Job) : Bytes := j.chunks.flatten

/-- one activation of a `Parse` method: `get · (write* · emit · reset)* · put`, one group per field -/
def parseOps (fields : List (List Bytes)) : List Op :=
  Op.get :: (fields.flatMap (fun f => f.map Op.write ++ [Op.emit, Op.reset]) ++ [Op.put])

/-! ## Reference semantics: a goroutine running alone, buffers as private values -/

structure Local where
  bufs : List Bytes   -- contents of the buffers held, innermost first
  outs : List Bytes   -- strings produced so far
deriving DecidableEq, Repr

/-- an op with no buffer held does nothing (does not occur in programs compiled from the Go shapes);
    `putKeep` is read as the `Reset` it performs (meaningful for disciplined programs only) -/
def seqStep (l : Local) : Op → Local
  | .get => { l with bufs := [] :: l.bufs }
  | .write c => match l.bufs with
    | b :: bs => { l with bufs := (b ++ c) :: bs }
    | [] => l
  | .emit => match l.bufs with
    | b :: _ => { l with outs := l.outs ++ [b] }
    | [] => l
  | .reset | .putKeep => match l.bufs with
    | _ :: bs => { l with bufs := [] :: bs }
    | [] => l
  | .put => { l with bufs := l.bufs.tail }

def seqRun (l : Local) (p : List Op) : Local := p.foldl seqStep l

/-- what a goroutine running `p` alone produces -/
def seqOutputs (p : List Op) : List Bytes := (seqRun ⟨[], []⟩ p).outs

/-- the discipline: no reference to a buffer survives its Put -/
def Disciplined (p : List Op) : Prop := Op.putKeep ∉ p

instance (p : List Op) : Decidable (Disciplined p) := inferInstanceAs (Decidable (Op.putKeep ∉ p))

/-! ## The concurrent system -/

structure Thread where
  prog : List Op       -- remaining micro-ops
  held : List BufId    -- buffers held, innermost first
  outs : List Bytes
deriving DecidableEq, Repr

structure State where
  heap : BufId → Bytes   -- content of every buffer ever allocated
  fresh : BufId          -- allocation counter: ids `< fresh` are allocated
  pool : List BufId      -- the sync.Pool
  threads : List Thread

def init (progs : List (List Op)) : State :=
  { heap := fun _ => [], fresh := 0, pool := [], threads := progs.map fun p => ⟨p, [], []⟩ }

def upd (h : BufId → Bytes) (b : BufId) (v : Bytes) : BufId → Bytes := fun x => if x = b then v else h x

inductive Label
  | getNew (t : Nat)               -- goroutine t: Get falls through to New
  | getPooled (t : Nat) (b : BufId) -- goroutine t: Get hands out pooled object b
  | run (t : Nat)                  -- goroutine t executes its next (non-get) op
  | drop (b : BufId)               -- the runtime drops pooled object b
deriving DecidableEq, Repr

def setThread (s : State) (t : Nat) (th : Thread) : List Thread := s.threads.set t th

inductive Step : State → Label → State → Prop
  | getNew {s t th rest} : s.threads[t]? = some th → th.prog = Op.get :: rest →
      Step s (.getNew t) { heap := upd s.heap s.fresh [], fresh := s.fresh + 1, pool := s.pool,
                           threads := setThread s t ⟨rest, s.fresh :: th.held, th.outs⟩ }
  | getPooled {s t th rest b} : s.threads[t]? = some th → th.prog = Op.get :: rest → b ∈ s.pool →
      Step s (.getPooled t b) { s with pool := s.pool.erase b, threads := setThread s t ⟨rest, b :: th.held, th.outs⟩ }
  | write {s t th rest c b bs} : s.threads[t]? = some th → th.prog = Op.write c :: rest → th.held = b :: bs →
      Step s (.run t) { s with heap := upd s.heap b (s.heap b ++ c), threads := setThread s t ⟨rest, th.held, th.outs⟩ }
  | emit {s t th rest b bs} : s.threads[t]? = some th → th.prog = Op.emit :: rest → th.held = b :: bs →
      Step s (.run t) { s with threads := setThread s t ⟨rest, th.held, th.outs ++ [s.heap b]⟩ }
  | reset {s t th rest b bs} : s.threads[t]? = some th → th.prog = Op.reset :: rest → th.held = b :: bs →
      Step s (.run t) { s with heap := upd s.heap b [], threads := setThread s t ⟨rest, th.held, th.outs⟩ }
  | put {s t th rest b bs} : s.threads[t]? = some th → th.prog = Op.put :: rest → th.held = b :: bs →
      Step s (.run t) { s with heap := upd s.heap b [], pool := b :: s.pool, threads := setThread s t ⟨rest, bs, th.outs⟩ }
  | putKeep {s t th rest b bs} : s.threads[t]? = some th → th.prog = Op.putKeep :: rest → th.held = b :: bs →
      Step s (.run t) { s with heap := upd s.heap b [], pool := b :: s.pool, threads := setThread s t ⟨rest, th.held, th.outs⟩ }
  | skip {s t th op rest} : s.threads[t]? = some th → th.prog = op :: rest → op ≠ Op.get → th.held = [] →
      Step s (.run t) { s with threads := setThread s t ⟨rest, [], th.outs⟩ }
  | drop {s b} : b ∈ s.pool → Step s (.drop b) { s with pool := s.pool.erase b }

inductive Run : State → List Label → State → Prop
  | nil {s} : Run s [] s
  | cons {s l s' ls s''} : Step s l s' → Run s' ls s'' → Run s (l :: ls) s''

/-- executable transition function (same relation, see `next?_iff` in Proofs) -/
def next? (s : State) : Label → Option State
  | .drop b => if b ∈ s.pool then some { s with pool := s.pool.erase b } else none
  | .getNew t => match s.threads[t]? with
    | some ⟨Op.get :: rest, held, outs⟩ =>
      some { heap := upd s.heap s.fresh [], fresh := s.fresh + 1, pool := s.pool,
             threads := setThread s t ⟨rest, s.fresh :: held, outs⟩ }
    | _ => none
  | .getPooled t b => match s.threads[t]? with
    | some ⟨Op.get :: rest, held, outs⟩ =>
      if b ∈ s.pool then some { s with pool := s.pool.erase b, threads := setThread s t ⟨rest, b :: held, outs⟩ }
      else none
    | _ => none
  | .run t => match s.threads[t]? with
    | some ⟨Op.write c :: rest, b :: bs, outs⟩ =>
      some { s with heap := upd s.heap b (s.heap b ++ c), threads := setThread s t ⟨rest, b :: bs, outs⟩ }
    | some ⟨Op.emit :: rest, b :: bs, outs⟩ =>
      some { s with threads := setThread s t ⟨rest, b :: bs, outs ++ [s.heap b]⟩ }
    | some ⟨Op.reset :: rest, b :: bs, outs⟩ =>
      some { s with heap := upd s.heap b [], threads := setThread s t ⟨rest, b :: bs, outs⟩ }
    | some ⟨Op.put :: rest, b :: bs, outs⟩ =>
      some { s with heap := upd s.heap b [], pool := b :: s.pool, threads := setThread s t ⟨rest, bs, outs⟩ }
    | some ⟨Op.putKeep :: rest, b :: bs, outs⟩ =>
      some { s with heap := upd s.heap b [], pool := b :: s.pool, threads := setThread s t ⟨rest, b :: bs, outs⟩ }
    | some ⟨Op.get :: _, _, _⟩ => none
    | some ⟨_ :: rest, [], outs⟩ => some { s with threads := setThread s t ⟨rest, [], outs⟩ }
    | _ => none

def exec (s : State) : List Label → Option State
  | [] => some s
  | l :: ls => match next? s l with
    | some s' => exec s' ls
    | none => none

/-- program left and outputs of goroutine `t` after running the schedule `ls` from the initial state -/
def observe (progs : List (List Op)) (ls : List Label) (t : Nat) : Option (List Op × List Bytes) :=
  match exec (init progs) ls with
  | some s => (s.threads[t]?).map fun th => (th.prog, th.outs)
  | none => none

/-! ## A plain keyed store (server/repository.go `files map[string]*ach.File`, each method atomic under `mtx` — C18)

Association list; compared observationally (`find`), as a Go map has no order. -/

abbrev Store (V : Type) := List (String × V)

def Store.find {V} : Store V → String → Option V
  | [], _ => none
  | (k', v) :: m, k => if k' = k then some v else Store.find m k

def Store.del {V} : Store V → String → Store V
  | [], _ => []
  | (k', v) :: m, k => if k' = k then Store.del m k else (k', v) :: Store.del m k

def Store.set {V} (m : Store V) (k : String) (v : V) : Store V := (k, v) :: m.del k

/-- repository requests; `modify` stands for the batch-level methods, which act inside one file's value
    (StoreBatch / FindBatch / DeleteBatch: `g` = the change to that file and the answer) -/
inductive ROp (V R : Type)
  | store (id : String) (v : V)          -- StoreFile: ErrAlreadyExists if present
  | find (id : String)                   -- FindFile
  | delete (id : String)                 -- DeleteFile: always nil
  | modify (id : String) (g : V → V × R)

inductive Resp (V R : Type)
  | ok | alreadyExists | notFound | found (v : V) | ret (r : R)

def ROp.key {V R} : ROp V R → String
  | .store id _ | .find id | .delete id | .modify id _ => id

def repoStep {V R} (m : Store V) : ROp V R → Store V × Resp V R
  | .store id v => match m.find id with
    | some _ => (m, .alreadyExists)
    | none => (m.set id v, .ok)
  | .find id => match m.find id with
    | some v => (m, .found v)
    | none => (m, .notFound)
  | .delete id => (m.del id, .ok)
  | .modify id g => match m.find id with
    | some v => (m.set id (g v).1, .ret (g v).2)
    | none => (m, .notFound)

end Ach.Pool
