import Ach.Go.Utf8
/-!
# achcli masking (cmd/achcli/describe/file.go `maskNumber`, `maskName`)

Modelled on **bytes**, exactly as written: `length` is the rune count, the loop
indexes the string by byte (`s[i]`), the result is `string(out)` of `length` bytes.
-/
namespace Ach

def star : UInt8 := 42
def blank : UInt8 := 32

/-- one iteration of the loop, going from the right: state = (out[i+1] if i+1 < length, digits unmasked so far) -/
def maskStep (st : Option UInt8 × Nat) (b : UInt8) : (Option UInt8 × Nat) × UInt8 :=
  if b = blank then
    let o := if st.1 = some star then star else blank
    ((some o, st.2), o)
  else if st.2 < 4 then ((some b, st.2 + 1), b)
  else ((some star, st.2), star)

/-- run the loop over the bytes at indices length-1, …, 2 (given in that order); returns outputs in the same order -/
def maskRun : Option UInt8 × Nat → List UInt8 → List UInt8
  | _, [] => []
  | st, b :: bs => let r := maskStep st b; r.2 :: maskRun r.1 bs

/-- `maskNumber` on the byte string `bs` of a Go string with `length` runes (`length ≤ bs.length`) -/
def maskNumberBytes (bs : List UInt8) (length : Nat) : List UInt8 :=
  if length < 5 then List.replicate 5 star
  else [star, star] ++ (maskRun (none, 0) ((bs.take length).drop 2).reverse).reverse

def maskNumber (s : Str) : List UInt8 := maskNumberBytes (utf8 s) s.length

/-- `strings.Fields`: maximal runs of non-space runes -/
def fieldsAux : Str → Str → List Str
  | [], cur => if cur.isEmpty then [] else [cur.reverse]
  | c :: cs, cur =>
    if isSpace c then (if cur.isEmpty then fieldsAux cs [] else cur.reverse :: fieldsAux cs [])
    else fieldsAux cs (c :: cur)

def fields (s : Str) : List Str := fieldsAux s []

/-- one word of `maskName`: more than 3 runes ⇒ first two BYTES then stars; else all stars -/
def maskWord (w : Str) : List UInt8 :=
  if w.length > 3 then (utf8 w).take 2 ++ List.replicate (w.length - 2) star
  else List.replicate w.length star

def joinBytes : List (List UInt8) → List UInt8
  | [] => []
  | [w] => w
  | w :: ws => w ++ blank :: joinBytes ws

def maskName (s : Str) : List UInt8 := joinBytes ((fields s).map maskWord)

end Ach
