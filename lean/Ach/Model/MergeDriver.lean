import Ach.Model.Merge
/-!
Line protocol of the `merge` correspondence stream (model: `Ach.Merge`, real code: `ach.MergeFilesWith`, merge.go).

Operation line (one case per line, tokens separated by one space):

`merge <MaxLines> <MaxDollarAmount> <file>*`

* `<MaxLines>`, `<MaxDollarAmount>`: the *raw* `Conditions` fields as decimal integers (may be 0 or negative).
  `condOf` below turns them into the model's `Cond` exactly like the Go code reads them: `MaxLines` only counts when
  `> 0` (merge.go:552), so every value `≤ 0` becomes the model's "0 = no limit"; `MaxDollarAmount` is forced to
  `NachaFileDebitCreditLimit` when it is `0` or above that limit (first lines of `convertToFiles`, merge.go:498-500)
  and otherwise passed on unchanged (a negative value then switches the dollar check off in both, merge.go:560 and
  `stepEntry`).
* `<file>` = `<origin>-<destination>` followed by zero or more `/<batch>`; origin and destination are naturals
  (interned strings).
* `<batch>` = `<headerKey>:` followed by a `,`-separated (possibly empty) list of entries.
* `<entry>` = `<trace>.<lines>.<amount>.<payload>` (naturals, `amount` an integer).

Result line: the files of `convert c (addFiles files [])` in order, separated by one space, each
`<origin>-<destination>` followed by `/<headerKey>:<payload>,<payload>,…` for each of its batches in order;
`-` when there is no output file.  (The implementation side prints `err` when `MergeFilesWith` fails.)

Anything that does not parse prints `bad-op`.
-/
namespace Ach.MergeDriver
open Ach.Merge

/-- fileControl.go:149 -/
def nachaFileDebitCreditLimit : Int := 999999999999

/-- the reading of `Conditions` by `convertToFiles` (see the header comment) -/
def condOf (maxLines maxDollars : Int) : Cond :=
  { maxLines := if maxLines > 0 then maxLines.toNat else 0,
    maxDollars := if maxDollars = 0 ∨ maxDollars > nachaFileDebitCreditLimit then nachaFileDebitCreditLimit else maxDollars }

def parseEntry (s : String) : Option Entry :=
  match s.splitOn "." with
  | [t, l, a, p] =>
    match t.toNat?, l.toNat?, a.toInt?, p.toNat? with
    | some t, some l, some a, some p => some ⟨t, l, a, p⟩
    | _, _, _, _ => none
  | _ => none

def parseBatch (s : String) : Option InBatch :=
  match s.splitOn ":" with
  | [k, es] =>
    match k.toNat?, (if es = "" then some [] else (es.splitOn ",").mapM parseEntry) with
    | some k, some es => some ⟨k, es⟩
    | _, _ => none
  | _ => none

def parseRoute (s : String) : Option Route :=
  match s.splitOn "-" with
  | [o, d] =>
    match o.toNat?, d.toNat? with
    | some o, some d => some (o, d)
    | _, _ => none
  | _ => none

def parseFile (s : String) : Option InFile :=
  match s.splitOn "/" with
  | r :: bs =>
    match parseRoute r, bs.mapM parseBatch with
    | some r, some bs => some ⟨r, bs⟩
    | _, _ => none
  | [] => none

def showWBatch (b : WBatch) : String :=
  s!"/{b.1}:" ++ ",".intercalate (b.2.map (fun e => toString e.payload))

def showFile (f : Route × WFile) : String :=
  s!"{f.1.1}-{f.1.2}" ++ String.join (f.2.map showWBatch)

def showResult (fs : List (Route × WFile)) : String :=
  if fs.isEmpty then "-" else " ".intercalate (fs.map showFile)

/-- `args` = the tokens after `merge` -/
def run (args : List String) : String :=
  match args with
  | ml :: md :: files =>
    match ml.toInt?, md.toInt?, files.mapM parseFile with
    | some ml, some md, some fs => showResult (convert (condOf ml md) (addFiles fs []))
    | _, _, _ => "bad-op"
  | _ => "bad-op"

end Ach.MergeDriver
