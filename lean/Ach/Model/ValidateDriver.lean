import Ach.Model.Validate
import Ach.Driver.Hex
/-!
Line protocol of the `validate` correspondence stream (one direction: implementation accepts ⇒ model accepts).

`validate <opts:18 bits> <fc.batchCount> <fc.count> <fc.hash> <fc.debit> <fc.credit> <nb> B* <niat> I*`
  B = `<h.sc> <h.cidHex> <h.odfiHex> <h.num> <c.sc> <c.count> <c.hash> <c.debit> <c.credit> <c.cidHex> <c.odfiHex> <c.num> <ne> E*`
  E = `<code> <rdfiHex> <checkDigitHex> <amount> <traceHex> <addendaCount>`
  I = `<count> <hash> <debit> <credit>`  (controls of the IAT batches)
answer: `accept` | `reject`.  Opaque conjuncts (`extraOK`, `headerOK`, `controlOK`) are taken as true.

`validateiat <opts:18 bits> B`  (one IAT batch, same `B` syntax, the company identification fields unused):
`IATBatch.Validate` vs `iatBatchValidate`, same direction.
-/
namespace Ach.ValidateDriver
open Ach Ach.Driver

def optsOfBits (s : String) : Opts :=
  let b := fun (i : Nat) => (s.toList.getD i '0') == '1'
  { skipAll := b 0, requireABAOrigin := b 1, bypassOrigin := b 2, bypassDestination := b 3, customTraceNumbers := b 4,
    allowZeroBatches := b 5, allowMissingFileHeader := b 6, allowMissingFileControl := b 7,
    bypassCompanyIdentificationMatch := b 8, customReturnCodes := b 9, unequalServiceClassCode := b 10,
    allowUnorderedBatchNumbers := b 11, allowInvalidCheckDigit := b 12, unequalAddendaCounts := b 13,
    preserveSpaces := b 14, allowInvalidAmounts := b 15, allowZeroEntryAmount := b 16, allowSpecialCharacters := b 17 }

def parseEntries : Nat → List String → Option (List VEntry × List String)
  | 0, rest => some ([], rest)
  | n + 1, code :: rdfi :: cd :: amt :: tr :: ac :: rest =>
    match code.toInt?, hexToStr rdfi, hexToStr cd, amt.toInt?, hexToStr tr, ac.toNat?, parseEntries n rest with
    | some c, some r, some d, some a, some t, some k, some (es, rest') => some (⟨c, r, d, a, t, k, true⟩ :: es, rest')
    | _, _, _, _, _, _, _ => none
  | _, _ => none

def parseBatches : Nat → List String → Option (List VBatch × List String)
  | 0, rest => some ([], rest)
  | n + 1, hsc :: hcid :: hodfi :: hnum :: csc :: ccount :: chash :: cdeb :: ccred :: ccid :: codfi :: cnum :: ne :: rest =>
    match hsc.toInt?, hexToStr hcid, hexToStr hodfi, hnum.toInt?, csc.toInt?, ccount.toInt?, chash.toInt?, cdeb.toInt?,
          ccred.toInt?, hexToStr ccid, hexToStr codfi, cnum.toInt?, ne.toNat? with
    | some a, some b, some c, some d, some e, some f, some g, some h, some i, some j, some k, some l, some m =>
      match parseEntries m rest with
      | some (es, rest') =>
        match parseBatches n rest' with
        | some (bs, rest'') => some (⟨⟨a, b, c, d⟩, es, ⟨e, f, g, h, i, j, k, l⟩, true⟩ :: bs, rest'')
        | none => none
      | none => none
    | _, _, _, _, _, _, _, _, _, _, _, _, _ => none
  | _, _ => none

def parseIat : Nat → List String → Option (List VControl)
  | 0, _ => some []
  | n + 1, c :: h :: d :: cr :: rest =>
    match c.toInt?, h.toInt?, d.toInt?, cr.toInt?, parseIat n rest with
    | some c, some h, some d, some cr, some is => some (⟨0, c, h, d, cr, [], [], 0⟩ :: is)
    | _, _, _, _, _ => none
  | _, _ => none

def run (args : List String) : String :=
  match args with
  | bits :: bc :: cnt :: hash :: deb :: cred :: nb :: rest =>
    match bc.toInt?, cnt.toInt?, hash.toInt?, deb.toInt?, cred.toInt?, nb.toNat? with
    | some bc, some cnt, some hash, some deb, some cred, some nb =>
      match parseBatches nb rest with
      | some (bs, niat :: rest') =>
        match niat.toNat? with
        | some k => match parseIat k rest' with
          | some is =>
            let f : VFile := ⟨true, bs, is, ⟨bc, cnt, hash, deb, cred⟩, true⟩
            if fileValidate (optsOfBits bits) f then "accept" else "reject"
          | none => "bad-op"
        | none => "bad-op"
      | _ => "bad-op"
    | _, _, _, _, _, _ => "bad-op"
  | _ => "bad-op"

def runIat (args : List String) : String :=
  match args with
  | bits :: rest =>
    match parseBatches 1 rest with
    | some ([b], []) => if iatBatchValidate (optsOfBits bits) b then "accept" else "reject"
    | _ => "bad-op"
  | _ => "bad-op"

end Ach.ValidateDriver
