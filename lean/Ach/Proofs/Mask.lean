import Ach.Model.Mask
/-!
# What `maskNumber` / `maskName` can reveal
-/
set_option linter.unusedSimpArgs false
namespace Ach

/-- byte `b` of the input is shown in clear at a position whose output is `o` -/
def shown (b o : UInt8) : Bool := o == b && b != star && b != blank

/-- number of input bytes shown in clear -/
def revealed : List UInt8 → List UInt8 → Nat
  | b :: bs, o :: os => (if shown b o then 1 else 0) + revealed bs os
  | _, _ => 0

/-- every output byte is `*`, a blank, or the input byte at that position -/
def onlyMasks : List UInt8 → List UInt8 → Bool
  | b :: bs, o :: os => (o == star || o == blank || o == b) && onlyMasks bs os
  | [], [] => true
  | _, _ => false

def nonBlank (bs : List UInt8) : Nat := (bs.filter (· != blank)).length

/-- some non-blank input byte is hidden behind a `*` -/
def hidesOne : List UInt8 → List UInt8 → Bool
  | b :: bs, o :: os => (b != blank && o == star) || hidesOne bs os
  | _, _ => false

theorem maskRun_length (st : Option UInt8 × Nat) (bs : List UInt8) : (maskRun st bs).length = bs.length := by
  induction bs generalizing st with
  | nil => rfl
  | cons b bs ih => simp [maskRun, ih]

theorem maskRun_onlyMasks (st : Option UInt8 × Nat) (bs : List UInt8) : onlyMasks bs (maskRun st bs) = true := by
  induction bs generalizing st with
  | nil => rfl
  | cons b bs ih =>
    simp only [maskRun, onlyMasks, ih, Bool.and_true]
    unfold maskStep
    by_cases hb : b = blank
    · simp only [hb, if_true]
      split <;> simp
    · simp only [hb, if_false]
      split <;> simp

/-- at most `4 - cnt` bytes are shown in clear by the loop -/
theorem maskRun_revealed (st : Option UInt8 × Nat) (bs : List UInt8) (h : st.2 ≤ 4) :
    revealed bs (maskRun st bs) + st.2 ≤ 4 := by
  induction bs generalizing st with
  | nil => simpa [revealed, maskRun] using h
  | cons b bs ih =>
    simp only [maskRun, revealed]
    unfold maskStep
    by_cases hb : b = blank
    · simp only [hb, if_true]
      have := ih (some (if st.1 = some star then star else blank), st.2) h
      have hs : shown blank (if st.1 = some star then star else blank) = false := by
        unfold shown; split <;> decide
      simp only [hs] at *
      simpa using this
    · simp only [hb, if_false]
      by_cases hc : st.2 < 4
      · simp only [hc, if_true]
        have := ih (some b, st.2 + 1) (by simp; omega)
        have : revealed bs (maskRun (some b, st.2 + 1) bs) + (st.2 + 1) ≤ 4 := this
        split <;> omega
      · simp only [hc, if_false]
        have := ih (some star, st.2) h
        have hs : shown b star = false := by
          unfold shown
          by_cases hbs : b = star
          · subst hbs; decide
          · have : (star == b) = false := by
              simp only [beq_eq_false_iff_ne, ne_eq]; exact fun h => hbs h.symm
            simp [this]
        simp only [hs] at *
        simpa using this

/-- once four bytes are in clear, every further non-blank byte is hidden -/
theorem maskRun_hides (st : Option UInt8 × Nat) (bs : List UInt8) (h : nonBlank bs + st.2 > 4) (hc : st.2 ≤ 4) :
    hidesOne bs (maskRun st bs) = true := by
  induction bs generalizing st with
  | nil => simp [nonBlank] at h; omega
  | cons b bs ih =>
    simp only [maskRun, hidesOne]
    unfold maskStep
    by_cases hb : b = blank
    · simp only [hb, if_true]
      have hnb : nonBlank (blank :: bs) = nonBlank bs := by simp [nonBlank]
      rw [hb, hnb] at h
      have := ih (some (if st.1 = some star then star else blank), st.2) h hc
      simp [this]
    · simp only [hb, if_false]
      have hnb : nonBlank (b :: bs) = nonBlank bs + 1 := by simp [nonBlank, hb]
      rw [hnb] at h
      by_cases hlt : st.2 < 4
      · simp only [hlt, if_true]
        have := ih (some b, st.2 + 1) (by simp; omega) (by simp; omega)
        simp [this]
      · simp only [hlt, if_false]
        have : (b != blank) = true := by simpa using hb
        simp [this]

/-! ## `maskNumber` -/

theorem maskNumber_short (bs : List UInt8) (length : Nat) (h : length < 5) :
    maskNumberBytes bs length = List.replicate 5 star := by simp [maskNumberBytes, h]

theorem maskNumber_length (bs : List UInt8) (length : Nat) (h5 : 5 ≤ length) (hl : length ≤ bs.length) :
    (maskNumberBytes bs length).length = length := by
  have : ¬ length < 5 := by omega
  simp only [maskNumberBytes, this, if_false, List.length_append, List.length_cons, List.length_nil,
    List.length_reverse, maskRun_length, List.length_drop, List.length_take]
  omega

/-- the middle part of the output, in loop order (index length-1 down to 2) -/
def maskedTail (bs : List UInt8) (length : Nat) : List UInt8 :=
  maskRun (none, 0) ((bs.take length).drop 2).reverse

theorem maskNumber_shape (bs : List UInt8) (length : Nat) (h5 : 5 ≤ length) :
    maskNumberBytes bs length = [star, star] ++ (maskedTail bs length).reverse := by
  have : ¬ length < 5 := by omega
  simp [maskNumberBytes, this, maskedTail]

/-- **maskNumber_reveals**: the first two positions are always `*`; every other output byte is `*`, a blank
or the input byte at that index; and at most four input bytes are shown in clear. -/
theorem maskNumber_reveals (bs : List UInt8) (length : Nat) (h5 : 5 ≤ length) :
    (maskNumberBytes bs length).take 2 = [star, star] ∧
    onlyMasks ((bs.take length).drop 2).reverse (maskedTail bs length) = true ∧
    revealed ((bs.take length).drop 2).reverse (maskedTail bs length) ≤ 4 := by
  refine ⟨by rw [maskNumber_shape bs length h5]; rfl, maskRun_onlyMasks _ _, ?_⟩
  have := maskRun_revealed (none, 0) ((bs.take length).drop 2).reverse (by decide)
  simpa [maskedTail] using this

/-- **maskNumber_hides**: a value with five or more non-blank bytes after its first two positions has at least one
of them replaced by `*` — it is never shown completely.  (With ≤ 4 non-blank bytes preceded by ≥ 2 other bytes the
whole value is shown: known finding D20.) -/
theorem maskNumber_hides (bs : List UInt8) (length : Nat) (_h5 : 5 ≤ length)
    (hnb : nonBlank ((bs.take length).drop 2) ≥ 5) :
    hidesOne ((bs.take length).drop 2).reverse (maskedTail bs length) = true := by
  apply maskRun_hides
  · have : nonBlank ((bs.take length).drop 2).reverse = nonBlank ((bs.take length).drop 2) := by
      simp [nonBlank, List.filter_reverse]
    simp only [this]; omega
  · decide

/-! ## `maskName` -/

theorem maskWord_length (w : Str) : (maskWord w).length = w.length := by
  unfold maskWord
  split
  · have := length_le_utf8_length w
    simp [List.length_take]; omega
  · simp

/-- **maskName_reveals**: a word of four or more runes shows its first two bytes and nothing else;
a shorter word shows nothing -/
theorem maskWord_reveals (w : Str) :
    (w.length > 3 → maskWord w = (utf8 w).take 2 ++ List.replicate (w.length - 2) star) ∧
    (w.length ≤ 3 → maskWord w = List.replicate w.length star) := by
  unfold maskWord
  constructor
  · intro h; simp [h]
  · intro h; have : ¬ w.length > 3 := by omega
    simp [this]

/-- a word of four or more runes is never shown completely: everything after its second byte is `*` -/
theorem maskWord_hides (w : Str) (h : w.length > 3) : (maskWord w).drop 2 = List.replicate (w.length - 2) star := by
  have hb := length_le_utf8_length w
  have h2 : ((utf8 w).take 2).length = 2 := by simp [List.length_take]; omega
  rw [(maskWord_reveals w).1 h, List.drop_append_of_le_length (by omega), List.drop_of_length_le (by omega)]
  simp

end Ach
