import Ach.Model.Validate
import Ach.Proofs.Num
import Ach.Proofs.Create
/-!
# Single-digit tampering: arithmetic facts behind C04
-/
set_option linter.unusedSimpArgs false
namespace Ach

/-! ## the 3-7-1 check detects every single-digit change of the routing prefix -/

/-- the weights 3, 7, 1 are units modulo 10: a non-zero digit difference times a weight is never ≡ 0 -/
theorem weight_unit (w a b : Nat) (hw : w = 3 ∨ w = 7 ∨ w = 1) (ha : a ≤ 9) (hb : b ≤ 9) (hne : a ≠ b) (rest : Nat) :
    (w * a + rest) % 10 ≠ (w * b + rest) % 10 := by
  rcases hw with h | h | h <;> subst h <;> omega

/-- changing exactly one of the eight digits (any position) changes the weighted sum modulo 10 -/
theorem weightedSum_flip (d0 d1 d2 d3 d4 d5 d6 d7 x : Nat) (hx : x ≤ 9)
    (h0 : d0 ≤ 9) (h1 : d1 ≤ 9) (h2 : d2 ≤ 9) (h3 : d3 ≤ 9) (h4 : d4 ≤ 9) (h5 : d5 ≤ 9) (h6 : d6 ≤ 9) (h7 : d7 ≤ 9) :
    (x ≠ d0 → weightedSum [x, d1, d2, d3, d4, d5, d6, d7] % 10 ≠ weightedSum [d0, d1, d2, d3, d4, d5, d6, d7] % 10) ∧
    (x ≠ d1 → weightedSum [d0, x, d2, d3, d4, d5, d6, d7] % 10 ≠ weightedSum [d0, d1, d2, d3, d4, d5, d6, d7] % 10) ∧
    (x ≠ d2 → weightedSum [d0, d1, x, d3, d4, d5, d6, d7] % 10 ≠ weightedSum [d0, d1, d2, d3, d4, d5, d6, d7] % 10) ∧
    (x ≠ d3 → weightedSum [d0, d1, d2, x, d4, d5, d6, d7] % 10 ≠ weightedSum [d0, d1, d2, d3, d4, d5, d6, d7] % 10) ∧
    (x ≠ d4 → weightedSum [d0, d1, d2, d3, x, d5, d6, d7] % 10 ≠ weightedSum [d0, d1, d2, d3, d4, d5, d6, d7] % 10) ∧
    (x ≠ d5 → weightedSum [d0, d1, d2, d3, d4, x, d6, d7] % 10 ≠ weightedSum [d0, d1, d2, d3, d4, d5, d6, d7] % 10) ∧
    (x ≠ d6 → weightedSum [d0, d1, d2, d3, d4, d5, x, d7] % 10 ≠ weightedSum [d0, d1, d2, d3, d4, d5, d6, d7] % 10) ∧
    (x ≠ d7 → weightedSum [d0, d1, d2, d3, d4, d5, d6, x] % 10 ≠ weightedSum [d0, d1, d2, d3, d4, d5, d6, d7] % 10) := by
  simp only [weightedSum, checkWeights, List.zipWith_cons_cons, List.zipWith_nil_right, List.sum_cons, List.sum_nil]
  refine ⟨?_, ?_, ?_, ?_, ?_, ?_, ?_, ?_⟩ <;> intro h <;> omega

/-- … hence the check digit the validator computes (`roundUp10 s - s`) changes whenever the sum changes modulo 10 -/
theorem checkDigit_of_sum_ne (s s' : Nat) (h : s % 10 ≠ s' % 10) : roundUp10 s - s ≠ roundUp10 s' - s' := by
  unfold roundUp10; omega

/-- and the stored check digit, if it is changed instead, no longer equals the computed one -/
theorem stored_checkDigit_flip (n d d' : Nat) (_hd : d ≤ 9) (_hd' : d' ≤ 9) (hne : d ≠ d')
    (h : roundUp10 n - n = d) : roundUp10 n - n ≠ d' := by omega

/-! ## a fixed-width decimal field: changing one digit changes the number -/

theorem digitsVal_single (c : Char) : digitsVal [c] = digitVal c := by simp [digitsVal]

theorem digitsVal_append : ∀ (t s : Str), digitsVal (s ++ t) = digitsVal s * 10 ^ t.length + digitsVal t
  | [], s => by simp [digitsVal]
  | c :: t, s => by
    have e : s ++ c :: t = (s ++ [c]) ++ t := by simp
    have ih1 := digitsVal_append t (s ++ [c])
    have ih2 := digitsVal_append t [c]
    rw [e, ih1, digitsVal_append_single]
    have : digitsVal (c :: t) = digitVal c * 10 ^ t.length + digitsVal t := by
      have : c :: t = [c] ++ t := rfl
      rw [this, ih2, digitsVal_single]
    rw [this, List.length_cons, Nat.pow_succ, Nat.add_mul]
    have : digitsVal s * 10 * 10 ^ t.length = digitsVal s * (10 ^ t.length * 10) := by
      rw [Nat.mul_assoc, Nat.mul_comm 10]
    omega

/-- **digit_flip_changes_number**: two digit strings that differ in exactly one column denote different numbers -/
theorem digit_flip_changes_number (pre post : Str) (a b : Char)
    (hne : digitVal a ≠ digitVal b) :
    digitsVal (pre ++ a :: post) ≠ digitsVal (pre ++ b :: post) := by
  have e1 : pre ++ a :: post = (pre ++ [a]) ++ post := by simp
  have e2 : pre ++ b :: post = (pre ++ [b]) ++ post := by simp
  rw [e1, e2, digitsVal_append post (pre ++ [a]), digitsVal_append post (pre ++ [b]), digitsVal_append_single, digitsVal_append_single]
  intro h
  have hp : 0 < 10 ^ post.length := Nat.pow_pos (by decide)
  have : (digitsVal pre * 10 + digitVal a) * 10 ^ post.length = (digitsVal pre * 10 + digitVal b) * 10 ^ post.length := by omega
  have := Nat.eq_of_mul_eq_mul_right hp this
  omega

/-! ## a sum with one addend changed changes -/

theorem sumBy_set_ne {α} (f : α → Int) (pre post : List α) (x y : α) (h : f x ≠ f y) :
    sumBy f (pre ++ x :: post) ≠ sumBy f (pre ++ y :: post) := by
  rw [sumBy_append, sumBy_append, sumBy_cons, sumBy_cons]
  omega

end Ach
