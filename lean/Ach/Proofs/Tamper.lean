import Ach.Model.Validate
import Ach.Proofs.Num
import Ach.Proofs.Create
/-!
# Single-digit tampering: arithmetic facts behind C04
-/
set_option linter.unusedSimpArgs false
namespace Ach

/-! ## the 3-7-1 check detects every single-digit change of the routing prefix -/

/-- the weights 3, 7, 1 are units modulo 10: a non-zero digit difference times a weight is never ≡ 0 -/
theorem weight_unit (w a b : Nat) (hw : w = 3 ∨ w = 7 ∨ w = 1) (ha : a ≤ 9) (hb : b ≤ 9) (hne : a ≠ b) (rest : Nat) :
    (w * a + rest) % 10 ≠ (w * b + rest) % 10 := by
  rcases hw with h | h | h <;> subst h <;> omega

/-- changing exactly one of the eight digits (any position) changes the weighted sum modulo 10 -/
theorem weightedSum_flip (d0 d1 d2 d3 d4 d5 d6 d7 x : Nat) (hx : x ≤ 9)
    (h0 : d0 ≤ 9) (h1 : d1 ≤ 9) (h2 : d2 ≤ 9) (h3 : d3 ≤ 9) (h4 : d4 ≤ 9) (h5 : d5 ≤ 9) (h6 : d6 ≤ 9) (h7 : d7 ≤ 9) :
    (x ≠ d0 → weightedSum [x, d1, d2, d3, d4, d5, d6, d7] % 10 ≠ weightedSum [d0, d1, d2, d3, d4, d5, d6, d7] % 10) ∧
    (x ≠ d1 → weightedSum [d0, x, d2, d3, d4, d5, d6, d7] % 10 ≠ weightedSum [d0, d1, d2, d3, d4, d5, d6, d7] % 10) ∧
    (x ≠ d2 → weightedSum [d0, d1, x, d3, d4, d5, d6, d7] % 10 ≠ weightedSum [d0, d1, d2, d3, d4, d5, d6, d7] % 10) ∧
    (x ≠ d3 → weightedSum [d0, d1, d2, x, d4, d5, d6, d7] % 10 ≠ weightedSum [d0, d1, d2, d3, d4, d5, d6, d7] % 10) ∧
    (x ≠ d4 → weightedSum [d0, d1, d2, d3, x, d5, d6, d7] % 10 ≠ weightedSum [d0, d1, d2, d3, d4, d5, d6, d7] % 10) ∧
    (x ≠ d5 → weightedSum [d0, d1, d2, d3, d4, x, d6, d7] % 10 ≠ weightedSum [d0, d1, d2, d3, d4, d5, d6, d7] % 10) ∧
    (x ≠ d6 → weightedSum [d0, d1, d2, d3, d4, d5, x, d7] % 10 ≠ weightedSum [d0, d1, d2, d3, d4, d5, d6, d7] % 10) ∧
    (x ≠ d7 → weightedSum [d0, d1, d2, d3, d4, d5, d6, x] % 10 ≠ weightedSum [d0, d1, d2, d3, d4, d5, d6, d7] % 10) := by
  simp only [weightedSum, checkWeights, List.zipWith_cons_cons, List.zipWith_nil_right, List.sum_cons, List.sum_nil]
  refine ⟨?_, ?_, ?_, ?_, ?_, ?_, ?_, ?_⟩ <;> intro h <;> omega

/-- … hence the check digit the validator computes (`roundUp10 s - s`) changes whenever the sum changes modulo 10 -/
theorem checkDigit_of_sum_ne (s s' : Nat) (h : s % 10 ≠ s' % 10) : roundUp10 s - s ≠ roundUp10 s' - s' := by
  unfold roundUp10; omega

/-- and the stored check digit, if it is changed instead, no longer equals the computed one -/
theorem stored_checkDigit_flip (n d d' : Nat) (_hd : d ≤ 9) (_hd' : d' ≤ 9) (hne : d ≠ d')
    (h : roundUp10 n - n = d) : roundUp10 n - n ≠ d' := by omega

/-! ## a fixed-width decimal field: changing one digit changes the number -/

theorem digitsVal_single (c : Char) : digitsVal [c] = digitVal c := by simp [digitsVal]

theorem digitsVal_append : ∀ (t s : Str), digitsVal (s ++ t) = digitsVal s * 10 ^ t.length + digitsVal t
  | [], s => by simp [digitsVal]
  | c :: t, s => by
    have e : s ++ c :: t = (s ++ [c]) ++ t := by simp
    have ih1 := digitsVal_append t (s ++ [c])
    have ih2 := digitsVal_append t [c]
    rw [e, ih1, digitsVal_append_single]
    have : digitsVal (c :: t) = digitVal c * 10 ^ t.length + digitsVal t := by
      have : c :: t = [c] ++ t := rfl
      rw [this, ih2, digitsVal_single]
    rw [this, List.length_cons, Nat.pow_succ, Nat.add_mul]
    have : digitsVal s * 10 * 10 ^ t.length = digitsVal s * (10 ^ t.length * 10) := by
      rw [Nat.mul_assoc, Nat.mul_comm 10]
    omega

/-- **digit_flip_changes_number**: two digit strings that differ in exactly one column denote different numbers -/
theorem digit_flip_changes_number (pre post : Str) (a b : Char)
    (hne : digitVal a ≠ digitVal b) :
    digitsVal (pre ++ a :: post) ≠ digitsVal (pre ++ b :: post) := by
  have e1 : pre ++ a :: post = (pre ++ [a]) ++ post := by simp
  have e2 : pre ++ b :: post = (pre ++ [b]) ++ post := by simp
  rw [e1, e2, digitsVal_append post (pre ++ [a]), digitsVal_append post (pre ++ [b]), digitsVal_append_single, digitsVal_append_single]
  intro h
  have hp : 0 < 10 ^ post.length := Nat.pow_pos (by decide)
  have : (digitsVal pre * 10 + digitVal a) * 10 ^ post.length = (digitsVal pre * 10 + digitVal b) * 10 ^ post.length := by omega
  have := Nat.eq_of_mul_eq_mul_right hp this
  omega

/-! ## a sum with one addend changed changes -/

theorem sumBy_set_ne {α} (f : α → Int) (pre post : List α) (x y : α) (h : f x ≠ f y) :
    sumBy f (pre ++ x :: post) ≠ sumBy f (pre ++ y :: post) := by
  rw [sumBy_append, sumBy_append, sumBy_cons, sumBy_cons]
  omega

/-! ## a numeric field cut short (C04, truncation inside a record) -/

theorem digitsVal_foldl_lt (s : Str) (hd : s.all isDigit = true) (acc : Nat) :
    s.foldl (fun a c => a * 10 + digitVal c) acc < (acc + 1) * 10 ^ s.length := by
  induction s generalizing acc with
  | nil => simp
  | cons c t ih =>
    simp only [List.all_cons, Bool.and_eq_true] at hd
    have hc : digitVal c ≤ 9 := by
      have := hd.1
      unfold isDigit at this
      unfold digitVal
      simp only [Bool.and_eq_true, decide_eq_true_eq] at this
      have h2 : c.toNat ≤ '9'.toNat := this.2
      have : ('9'.toNat : Nat) = '0'.toNat + 9 := by decide
      omega
    have := ih hd.2 (acc * 10 + digitVal c)
    simp only [List.foldl_cons, List.length_cons, Nat.pow_succ]
    have hle : (acc * 10 + digitVal c + 1) * 10 ^ t.length ≤ ((acc + 1) * 10) * 10 ^ t.length :=
      Nat.mul_le_mul_right _ (by omega)
    have : (acc + 1) * (10 ^ t.length * 10) = ((acc + 1) * 10) * 10 ^ t.length := by
      rw [Nat.mul_comm (10 ^ t.length) 10, Nat.mul_assoc]
    omega

theorem digitsVal_lt_pow (s : Str) (hd : s.all isDigit = true) : digitsVal s < 10 ^ s.length := by
  have := digitsVal_foldl_lt s hd 0
  simpa [digitsVal] using this

/-- a proper prefix of the digits of a positive number denotes a smaller number -/
theorem digitsVal_prefix_lt (pre post : Str) (hpost : post ≠ []) (hpos : 0 < digitsVal (pre ++ post)) :
    digitsVal pre < digitsVal (pre ++ post) := by
  rw [digitsVal_append] at *
  have hl : 1 ≤ post.length := by
    cases post with
    | nil => exact absurd rfl hpost
    | cons _ _ => simp
  have h10 : 10 ≤ 10 ^ post.length := by
    calc 10 = 10 ^ 1 := by simp
      _ ≤ 10 ^ post.length := Nat.pow_le_pow_right (by decide) hl
  have : digitsVal pre * 10 ≤ digitsVal pre * 10 ^ post.length := Nat.mul_le_mul_left _ h10
  omega

theorem isDigit_bounds (c : Char) (h : isDigit c = true) : 48 ≤ c.val.toNat ∧ c.val.toNat ≤ 57 := by
  unfold isDigit at h
  simp only [Bool.and_eq_true, decide_eq_true_eq] at h
  have h1 : '0'.val ≤ c.val := h.1
  have h2 : c.val ≤ '9'.val := h.2
  have e1 : '0'.val.toNat = 48 := by decide
  have e2 : '9'.val.toNat = 57 := by decide
  have := UInt32.le_iff_toNat_le.1 h1
  have := UInt32.le_iff_toNat_le.1 h2
  omega

theorem digits_no_space (s : Str) (hd : s.all isDigit = true) : ∀ c ∈ s, isSpace c = false := by
  intro c hc
  have := isDigit_bounds c (List.all_eq_true.1 hd c hc)
  unfold isSpace
  simp only [Bool.or_eq_false_iff, Bool.and_eq_false_iff, decide_eq_false_iff_not]
  omega

/-- **a numeric field cut short**: if the zero-padded decimal field `ds` denotes a positive number and the text ends
inside it (after `j` of its columns; the Reader pads the line with blanks), the field parses to a different number -/
theorem truncated_number_differs (ds : Str) (j : Nat) (hd : ds.all isDigit = true) (hlen : ds.length ≤ 18)
    (hj : j < ds.length) (hpos : 0 < digitsVal ds) :
    parseNumField (ds.take j ++ spaces (ds.length - j)) ≠ parseNumField ds := by
  have hsplit : ds = ds.take j ++ ds.drop j := (List.take_append_drop j ds).symm
  have hdrop : ds.drop j ≠ [] := by
    intro h
    have := congrArg List.length h
    simp at this
    omega
  have hbound : ∀ s : Str, s.all isDigit = true → s.length ≤ 18 → (digitsVal s : Int) ≤ maxInt64 := by
    intro s hs hl
    have h1 := digitsVal_lt_pow s hs
    have h2 : 10 ^ s.length ≤ 10 ^ 18 := Nat.pow_le_pow_right (by decide) hl
    have : (digitsVal s : Int) < (10 ^ 18 : Nat) := by exact_mod_cast Nat.lt_of_lt_of_le h1 h2
    unfold maxInt64
    omega
  have hne : ds ≠ [] := by intro h; rw [h] at hj; simp at hj
  have hfull : parseNumField ds = (digitsVal ds : Int) := by
    unfold parseNumField
    rw [trimSpace_of_no_space ds (digits_no_space ds hd), atoi_digits ds hne hd (hbound ds hd hlen)]
    rfl
  have hdt : (ds.take j).all isDigit = true := by
    rw [List.all_eq_true] at hd ⊢
    intro c hc
    exact hd c (List.mem_of_mem_take hc)
  have hcut : parseNumField (ds.take j ++ spaces (ds.length - j)) = (digitsVal (ds.take j) : Int) := by
    unfold parseNumField
    have htrim : trimSpace (ds.take j ++ spaces (ds.length - j)) = ds.take j := by
      apply trimSpace_append_spaces
      unfold Trimmed
      exact trimSpace_of_no_space _ (digits_no_space _ hdt)
    rw [htrim]
    by_cases h0 : ds.take j = []
    · rw [h0]; simp [atoi, atoiCore, signSplit, digitsVal]
    · rw [atoi_digits _ h0 hdt (hbound _ hdt (by simp; omega))]
      rfl
  rw [hfull, hcut]
  have := digitsVal_prefix_lt (ds.take j) (ds.drop j) hdrop (by rw [← hsplit]; exact hpos)
  rw [← hsplit] at this
  omega

end Ach
