import Ach.Model.Pipeline
/-!
# Lemmas about the MergeDir walk and pipeline (used by Ach/Props/C10.lean)

* walk: `walk_continue_eq_allFiles`, `walk_nosub_eq_topFiles`;
* `step_iff_next`, `enabled_complete`, `reach_of_runLabels`: the inductive `Step` and the computable `next` agree;
* invariants `InvC` (control), `InvB` (multiset bookkeeping), `InvS` (the `sync.Once` seed), preserved by every step;
* `progress`, `measure_decreases`, `delivers`, `err_monotone`.
-/
namespace Ach.Pipeline

/-! ## walk -/

theorem walk_continue_eq_allFiles (dir : String) (cs : List Node) :
    walkItems true .continue dir cs = allFiles dir cs := by
  fun_induction allFiles dir cs <;> simp [walkItems, *]

theorem walk_nosub_eq_topFiles (beh : SubdirBeh) (dir : String) (cs : List Node) :
    walkItems false beh dir cs = topFiles dir cs := by
  fun_induction topFiles dir cs <;> cases beh <;> simp [walkItems, *]

/-! ## lists of workers -/

theorem mem_set_cases {l : List W} {i : Nat} {a w : W} (h : w ∈ l.set i a) : w = a ∨ w ∈ l := by
  rcases List.mem_or_eq_of_mem_set h with h | h
  · exact Or.inr h
  · exact Or.inl h

theorem mem_set_of_ne {l : List W} {i : Nat} {a b c : W} (hm : a ∈ l) (hg : l[i]? = some b) (hne : b ≠ a) :
    a ∈ l.set i c := by
  induction l generalizing i with
  | nil => cases hm
  | cons x xs ih =>
    cases i with
    | zero =>
      simp at hg; subst hg
      rcases List.mem_cons.1 hm with h | h
      · exact absurd h.symm hne
      · simp [h]
    | succ j =>
      simp at hg
      rcases List.mem_cons.1 hm with h | h
      · simp [h]
      · simp [ih h hg]

theorem mem_set_self {l : List W} {i : Nat} {b c : W} (hg : l[i]? = some b) : c ∈ l.set i c := by
  have hlt : i < l.length := by
    rcases Nat.lt_or_ge i l.length with h | h
    · exact h
    · simp [List.getElem?_eq_none h] at hg
  exact List.mem_iff_getElem.2 ⟨i, by simpa using hlt, by simp⟩

theorem count_flatMap_set (g : W → List Nat) (x : Nat) {l : List W} {i : Nat} {w w' : W} (hg : l[i]? = some w) :
    ((l.set i w').flatMap g).count x + (g w).count x = (l.flatMap g).count x + (g w').count x := by
  induction l generalizing i with
  | nil => simp at hg
  | cons a as ih =>
    cases i with
    | zero => simp at hg; subst hg; simp [List.count_append]; omega
    | succ j =>
      simp at hg
      have := ih hg
      simp [List.count_append]; omega

theorem sum_map_set (r : W → Nat) {l : List W} {i : Nat} {w w' : W} (hg : l[i]? = some w) :
    ((l.set i w').map r).sum + r w = (l.map r).sum + r w' := by
  induction l generalizing i with
  | nil => simp at hg
  | cons a as ih =>
    cases i with
    | zero => simp at hg; subst hg; simp only [List.set_cons_zero, List.map_cons, List.sum_cons]; omega
    | succ j =>
      simp at hg
      have := ih hg
      simp only [List.set_cons_succ, List.map_cons, List.sum_cons]; omega

theorem exited_of_all {s : St} {i : Nat} {w : W} (ha : allExited s = true) (hg : s.workers[i]? = some w) :
    w.isExited = true := by
  simp [allExited] at ha
  exact ha w (List.mem_of_getElem? hg)

/-! ## `Step` = `next` -/

theorem step_iff_next (P : Params) (s t : St) (l : Label) : Step P s l t ↔ next P s l = some t := by
  constructor
  · intro h
    cases h <;> simp_all [next]
  · intro h
    cases l with
    | send i =>
      simp only [next] at h
      split at h
      · rename_i h1 h2 h3; cases h; exact Step.send s i _ _ h1 h2 h3
      · cases h
    | parse i =>
      simp only [next] at h
      split at h
      · rename_i h3; cases h; exact Step.parse s i _ h3
      · cases h
    | deliver i =>
      simp only [next] at h
      split at h
      · rename_i h1 h3; cases h; exact Step.deliver s i _ h1 h3
      · cases h
    | workerExit i =>
      simp only [next] at h
      split at h
      · rename_i h1 h3; cases h; exact Step.workerExit s i h1 h3
      · cases h
    | workerAbort i =>
      simp only [next] at h
      split at h
      · rename_i h1 h3; cases h
        simp at h1
        exact Step.workerAbort s i _ h1.1 h1.2 h3
      · cases h
    | walkerFinish =>
      simp only [next] at h
      split at h
      · rename_i h1 h2; cases h; exact Step.walkerFinish s h1 h2
      · cases h
    | walkerAbort k =>
      simp only [next] at h
      split at h
      · rename_i h0 h1 h2
        split at h
        · rename_i hk; cases h
          simp at h0
          exact Step.walkerAbort s _ _ k h0.1 h0.2 h1 h2 hk
        · cases h
      · cases h
    | mergerFinish =>
      simp only [next] at h
      split at h
      · rename_i hc; cases h; exact Step.mergerFinish s hc.1 hc.2
      · cases h

theorem idx_lt_of_get {s : St} {i : Nat} {w : W} (hg : s.workers[i]? = some w) : i < s.workers.length := by
  rcases Nat.lt_or_ge i s.workers.length with h | h
  · exact h
  · simp [List.getElem?_eq_none h] at hg

/-- `enabled` lists every label that has a successor: a state with `enabled P s = []` is stuck -/
theorem enabled_complete {P : Params} {s t : St} {l : Label} (h : Step P s l t) : l ∈ enabled P s := by
  have hn := (step_iff_next P s t l).1 h
  simp only [enabled, List.mem_filter, hn, Option.isSome_some, and_true]
  cases h with
  | send i p ps h1 h2 h3 =>
    simp only [candidates, List.mem_append, List.mem_flatMap, List.mem_range]
    exact Or.inr ⟨i, idx_lt_of_get h3, by simp⟩
  | parse i p h3 =>
    simp only [candidates, List.mem_append, List.mem_flatMap, List.mem_range]
    exact Or.inr ⟨i, idx_lt_of_get h3, by simp⟩
  | deliver i f h1 h3 =>
    simp only [candidates, List.mem_append, List.mem_flatMap, List.mem_range]
    exact Or.inr ⟨i, idx_lt_of_get h3, by simp⟩
  | workerExit i h1 h3 =>
    simp only [candidates, List.mem_append, List.mem_flatMap, List.mem_range]
    exact Or.inr ⟨i, idx_lt_of_get h3, by simp⟩
  | workerAbort i f hc he h3 =>
    simp only [candidates, List.mem_append, List.mem_flatMap, List.mem_range]
    exact Or.inr ⟨i, idx_lt_of_get h3, by simp⟩
  | walkerFinish h1 h2 => simp [candidates]
  | walkerAbort p ps k hc he h1 h2 hk =>
    simp only [candidates, List.mem_append, List.mem_map, List.mem_range]
    exact Or.inl (Or.inr ⟨k, by simp [h2]; omega, rfl⟩)
  | mergerFinish h1 h2 => simp [candidates]

theorem stuck_of_enabled_nil {P : Params} {s : St} (h : enabled P s = []) : ¬ ∃ l t, Step P s l t := by
  rintro ⟨l, t, hs⟩
  have := enabled_complete hs
  simp [h] at this

theorem reach_of_runLabels {P : Params} {n : Nat} {paths : List PFile} {s t : St} (ls : List Label)
    (hs : Reach P n paths s) (hr : runLabels P s ls = some t) : Reach P n paths t := by
  induction ls generalizing s with
  | nil => simp [runLabels] at hr; exact hr ▸ hs
  | cons l ls ih =>
    simp only [runLabels] at hr
    split at hr
    · rename_i u hu
      exact ih (Reach.step hs ((step_iff_next P s u l).2 hu)) hr
    · cases hr

/-- finite runs from a given state -/
inductive Steps (P : Params) : St → St → Prop
  | refl (s : St) : Steps P s s
  | tail {s t u : St} {l : Label} : Steps P s t → Step P t l u → Steps P s u

theorem reach_steps {P : Params} {n : Nat} {paths : List PFile} {s t : St} (hs : Reach P n paths s)
    (h : Steps P s t) : Reach P n paths t := by
  induction h with
  | refl => exact hs
  | tail _ st ih => exact Reach.step ih st

/-! ## invariants -/

/-- what a worker contributes to "parsed or about to be parsed, not yet merged" -/
def inflight : W → List Nat
  | .got p => goodIds [p]
  | .holding f => [f]
  | _ => []

/-- control invariant -/
structure InvC (n : Nat) (paths : List PFile) (s : St) : Prop where
  len : s.workers.length = n
  /-- while no error occurred nothing has been skipped: sent ++ still-to-send = walked paths -/
  split : s.err = false → s.sent ++ s.remaining = paths
  sub : ∀ p, p ∈ s.sent ∨ p ∈ s.remaining → p ∈ paths
  /-- the merger finishes only after all workers have returned -/
  merger : s.mergerDone = true → allExited s = true
  /-- a worker returns cleanly only after the walker is done -/
  exitOk : W.exited .ok ∈ s.workers → s.walkerDone = true
  /-- the errgroup holds an error iff some worker returned one -/
  errIff : s.err = true ↔ W.exited .err ∈ s.workers
  abortErr : W.exited .abort ∈ s.workers → s.err = true
  /-- the walker stops only when nothing is left to send (or skip) -/
  walked : s.walkerDone = true → s.remaining = []
  gotSent : ∀ p, W.got p ∈ s.workers → p ∈ s.sent
  /-- an unparseable accepted file that was sent is either still being read or has produced the error -/
  badSeen : ∀ p ∈ s.sent, p.bad = true → W.got p ∈ s.workers ∨ s.err = true
  errBad : s.err = true → ∃ p ∈ s.sent, p.bad = true

/-- multiset bookkeeping: merged ⊎ in flight = good files among the paths sent so far -/
def InvB (s : St) : Prop :=
  s.err = false → ∀ x, s.acc.count x + (s.workers.flatMap inflight).count x = (goodIds s.sent).count x

/-- the `sync.Once`: the header is seeded before any parsed file can reach the merger, and the seeding file is
itself merged or on its way -/
structure InvS (s : St) : Prop where
  seedNone : s.seed = none → s.acc = [] ∧ ∀ f, W.holding f ∉ s.workers
  seedIn : s.err = false → ∀ f, s.seed = some f → f ∈ s.acc ∨ W.holding f ∈ s.workers

theorem invC_init (n : Nat) (paths : List PFile) : InvC n paths (init n paths) := by
  refine ⟨by simp [init], by simp [init], by simp [init], by simp [init], ?_, ?_, ?_, by simp [init], ?_, by simp [init],
    by simp [init]⟩
  · intro h; simp [init, List.mem_replicate] at h
  · simp [init, List.mem_replicate]
  · intro h; simp [init, List.mem_replicate] at h
  · intro p h; simp [init, List.mem_replicate] at h

theorem invB_init (n : Nat) (paths : List PFile) : InvB (init n paths) := by
  intro _ x
  have : (List.replicate n W.idle).flatMap inflight = [] := by
    simp [List.flatMap_eq_nil_iff, List.mem_replicate, inflight]
  simp [init, this, goodIds]

theorem invS_init (n : Nat) (paths : List PFile) : InvS (init n paths) :=
  ⟨fun _ => ⟨rfl, fun f h => by simp [init, List.mem_replicate] at h⟩, fun _ f h => by simp [init] at h⟩

theorem afterParse_ne_ok (p : PFile) : afterParse p ≠ W.exited .ok := by
  unfold afterParse; split <;> (try split) <;> simp

theorem afterParse_ne_abort (p : PFile) : afterParse p ≠ W.exited .abort := by
  unfold afterParse; split <;> (try split) <;> simp

theorem afterParse_ne_got (p q : PFile) : afterParse p ≠ W.got q := by
  unfold afterParse; split <;> (try split) <;> simp

theorem afterParse_err (p : PFile) : afterParse p = W.exited .err ↔ p.bad = true := by
  unfold afterParse PFile.bad; cases p.accepted <;> cases p.parseable <;> simp

theorem invC_step {P : Params} {n : Nat} {paths : List PFile} {s t : St} {l : Label}
    (hi : InvC n paths s) (hs : Step P s l t) : InvC n paths t := by
  obtain ⟨hlen, hsplit, hsub, hmerger, hok, herr, habort, hwalked, hgot, hbad, herrbad⟩ := hi
  cases hs with
  | send i p ps h1 h2 h3 =>
    have notEx : s.mergerDone = true → False := fun hm => by
      have := exited_of_all (hmerger hm) h3; simp [W.isExited] at this
    refine ⟨by simpa [sendSt] using hlen, fun he => by simp [sendSt, ← hsplit he, h2], ?_,
      fun hm => (notEx hm).elim, ?_, ?_, ?_, ?_, ?_, ?_, ?_⟩
    · intro q hq; apply hsub q
      simp only [sendSt, List.mem_append, List.mem_singleton] at hq
      rcases hq with (hq | hq) | hq
      · exact Or.inl hq
      · right; simp [h2, hq]
      · right; simp [h2, hq]
    · intro hm; rcases mem_set_cases hm with h | h
      · cases h
      · exact hok h
    · simp only [sendSt]; rw [herr]; constructor
      · intro hm; exact mem_set_of_ne hm h3 (by simp)
      · intro hm; rcases mem_set_cases hm with h | h
        · cases h
        · exact h
    · intro hm; rcases mem_set_cases hm with h | h
      · cases h
      · exact habort h
    · intro hw; simp [sendSt, h1] at hw
    · intro q hm; rcases mem_set_cases hm with h | h
      · cases h; simp [sendSt]
      · simp [sendSt, hgot q h]
    · intro q hq hb
      simp only [sendSt, List.mem_append, List.mem_singleton] at hq
      rcases hq with hq | hq
      · rcases hbad q hq hb with h | h
        · exact Or.inl (mem_set_of_ne h h3 (by simp))
        · exact Or.inr h
      · subst hq; exact Or.inl (mem_set_self h3)
    · intro he; obtain ⟨q, hq, hb⟩ := herrbad he
      exact ⟨q, by simp [sendSt, hq], hb⟩
  | parse i p h3 =>
    have notEx : s.mergerDone = true → False := fun hm => by
      have := exited_of_all (hmerger hm) h3; simp [W.isExited] at this
    have hps : p ∈ s.sent := hgot p (List.mem_of_getElem? h3)
    refine ⟨by simpa [parseSt] using hlen, fun he => hsplit (by simp [parseSt] at he; exact he.1), hsub,
      fun hm => (notEx hm).elim, ?_, ?_, ?_, hwalked, ?_, ?_, ?_⟩
    · intro hm; rcases mem_set_cases hm with h | h
      · exact absurd h.symm (afterParse_ne_ok p)
      · exact hok h
    · simp only [parseSt, Bool.or_eq_true]; constructor
      · rintro (he | hb)
        · exact mem_set_of_ne (herr.1 he) h3 (by simp)
        · rw [← (afterParse_err p).2 hb]; exact mem_set_self h3
      · intro hm; rcases mem_set_cases hm with h | h
        · exact Or.inr ((afterParse_err p).1 h.symm)
        · exact Or.inl (herr.2 h)
    · intro hm; rcases mem_set_cases hm with h | h
      · exact absurd h.symm (afterParse_ne_abort p)
      · simp [parseSt, habort h]
    · intro q hm; rcases mem_set_cases hm with h | h
      · exact absurd h.symm (afterParse_ne_got p q)
      · exact hgot q h
    · intro q hq hb
      by_cases hqp : q = p
      · subst hqp; right; simp [parseSt, hb]
      · rcases hbad q hq hb with h | h
        · exact Or.inl (mem_set_of_ne h h3 (by simpa using fun h => hqp h.symm))
        · right; simp [parseSt, h]
    · intro he; simp only [parseSt, Bool.or_eq_true] at he
      rcases he with he | hb
      · exact herrbad he
      · exact ⟨p, hps, hb⟩
  | deliver i f h1 h3 =>
    refine ⟨by simpa [deliverSt] using hlen, hsplit, hsub, fun hm => by simp [deliverSt, h1] at hm, ?_, ?_, ?_,
      hwalked, ?_, ?_, herrbad⟩
    · intro hm; rcases mem_set_cases hm with h | h
      · cases h
      · exact hok h
    · simp only [deliverSt]; rw [herr]; constructor
      · intro hm; exact mem_set_of_ne hm h3 (by simp)
      · intro hm; rcases mem_set_cases hm with h | h
        · cases h
        · exact h
    · intro hm; rcases mem_set_cases hm with h | h
      · cases h
      · exact habort h
    · intro q hm; rcases mem_set_cases hm with h | h
      · cases h
      · exact hgot q h
    · intro q hq hb
      rcases hbad q hq hb with h | h
      · exact Or.inl (mem_set_of_ne h h3 (by simp))
      · exact Or.inr h
  | workerExit i h1 h3 =>
    refine ⟨by simpa [exitSt] using hlen, hsplit, hsub, ?_, fun _ => h1, ?_, ?_, hwalked, ?_, ?_, herrbad⟩
    · intro hm
      have := exited_of_all (hmerger hm) h3; simp [W.isExited] at this
    · simp only [exitSt]; rw [herr]; constructor
      · intro hm; exact mem_set_of_ne hm h3 (by simp)
      · intro hm; rcases mem_set_cases hm with h | h
        · cases h
        · exact h
    · intro hm; rcases mem_set_cases hm with h | h
      · cases h
      · exact habort h
    · intro q hm; rcases mem_set_cases hm with h | h
      · cases h
      · exact hgot q h
    · intro q hq hb
      rcases hbad q hq hb with h | h
      · exact Or.inl (mem_set_of_ne h h3 (by simp))
      · exact Or.inr h
  | workerAbort i f hc he h3 =>
    refine ⟨by simpa [exitSt] using hlen, hsplit, hsub, ?_, ?_, ?_, fun _ => he, hwalked, ?_, fun _ _ _ => Or.inr he,
      herrbad⟩
    · intro hm
      have := exited_of_all (hmerger hm) h3; simp [W.isExited] at this
    · intro hm; rcases mem_set_cases hm with h | h
      · cases h
      · exact hok h
    · simp only [exitSt]; rw [herr]; constructor
      · intro hm; exact mem_set_of_ne hm h3 (by simp)
      · intro hm; rcases mem_set_cases hm with h | h
        · cases h
        · exact h
    · intro q hm; rcases mem_set_cases hm with h | h
      · cases h
      · exact hgot q h
  | walkerFinish h1 h2 =>
    exact ⟨hlen, hsplit, hsub, hmerger, fun _ => rfl, herr, habort, fun _ => h2, hgot, hbad, herrbad⟩
  | walkerAbort p ps k hc he h1 h2 hk =>
    refine ⟨hlen, fun hf => by simp [he] at hf, ?_, hmerger, hok, herr, habort, fun hw => by simp [h1] at hw, hgot, hbad,
      herrbad⟩
    intro q hq; apply hsub q
    rcases hq with hq | hq
    · exact Or.inl hq
    · right; rw [h2]; exact List.mem_cons_of_mem _ (List.mem_of_mem_drop hq)
  | mergerFinish h1 h2 =>
    exact ⟨hlen, hsplit, hsub, fun _ => h2, hok, herr, habort, hwalked, hgot, hbad, herrbad⟩

theorem goodIds_append (a b : List PFile) : goodIds (a ++ b) = goodIds a ++ goodIds b := by
  simp [goodIds]

theorem inflight_afterParse (p : PFile) (hb : p.bad = false) : inflight (afterParse p) = goodIds [p] := by
  unfold afterParse PFile.bad goodIds inflight at *
  cases h1 : p.accepted <;> cases h2 : p.parseable <;> simp_all [PFile.good]

theorem invB_step {P : Params} {s t : St} {l : Label} (hi : InvB s) (hs : Step P s l t) : InvB t := by
  cases hs with
  | send i p ps h1 h2 h3 =>
    intro he x
    have h := hi he x
    have hc := count_flatMap_set inflight x (w' := W.got p) h3
    simp only [sendSt, goodIds_append, List.count_append] at *
    simp only [inflight] at hc
    simp only [List.count_nil] at hc
    omega
  | parse i p h3 =>
    intro he x
    simp only [parseSt, Bool.or_eq_false_iff] at he
    have h := hi he.1 x
    have hc := count_flatMap_set inflight x (w' := afterParse p) h3
    rw [inflight_afterParse p he.2] at hc
    simp only [parseSt, inflight] at *
    omega
  | deliver i f h1 h3 =>
    intro he x
    have h := hi he x
    have hc := count_flatMap_set inflight x (w' := W.idle) h3
    simp only [deliverSt, List.count_append, inflight, List.count_nil] at *
    omega
  | workerExit i h1 h3 =>
    intro he x
    have h := hi he x
    have hc := count_flatMap_set inflight x (w' := W.exited .ok) h3
    simp only [exitSt, inflight, List.count_nil] at *
    omega
  | workerAbort i f hc he h3 => intro hf; simp [exitSt, he] at hf
  | walkerFinish h1 h2 => exact hi
  | walkerAbort p ps k hc he h1 h2 hk => exact hi
  | mergerFinish h1 h2 => exact hi

theorem invS_step {P : Params} {s t : St} {l : Label} (hi : InvS s) (hs : Step P s l t) : InvS t := by
  obtain ⟨hnone, hin⟩ := hi
  cases hs with
  | send i p ps h1 h2 h3 =>
    refine ⟨fun hs => ⟨(hnone hs).1, fun f hm => ?_⟩, fun he f hs => ?_⟩
    · rcases mem_set_cases hm with h | h
      · cases h
      · exact (hnone hs).2 f h
    · rcases hin he f hs with h | h
      · exact Or.inl h
      · exact Or.inr (mem_set_of_ne h h3 (by simp))
  | parse i p h3 =>
    by_cases hg : p.good = true
    · have hap : afterParse p = W.holding p.id := by
        simp [PFile.good] at hg; simp [afterParse, hg.1, hg.2]
      refine ⟨fun hs => ?_, fun he f hs => ?_⟩
      · simp only [parseSt, hg, if_true] at hs
        cases hq : s.seed <;> simp [hq] at hs
      · simp only [parseSt, hg, if_true] at hs
        cases hq : s.seed with
        | none =>
          simp [hq] at hs; subst hs
          right; simp only [parseSt, hap]; exact mem_set_self h3
        | some g =>
          simp [hq] at hs; subst hs
          have he' : s.err = false := by simp [parseSt] at he; exact he.1
          rcases hin he' g hq with h | h
          · exact Or.inl h
          · exact Or.inr (mem_set_of_ne h h3 (by simp))
    · have hap : ∀ f, afterParse p ≠ W.holding f := by
        intro f; simp [PFile.good] at hg
        unfold afterParse; cases h1 : p.accepted <;> cases h2 : p.parseable <;> simp_all
      have hseed : (parseSt s i p).seed = s.seed := by simp [parseSt, hg]
      refine ⟨fun hs => ⟨(hnone (hseed ▸ hs)).1, fun f hm => ?_⟩, fun he f hs => ?_⟩
      · rcases mem_set_cases hm with h | h
        · exact hap f h.symm
        · exact (hnone (hseed ▸ hs)).2 f h
      · have he' : s.err = false := by simp [parseSt] at he; exact he.1
        rcases hin he' f (hseed ▸ hs) with h | h
        · exact Or.inl h
        · exact Or.inr (mem_set_of_ne h h3 (by simp))
  | deliver i f h1 h3 =>
    refine ⟨fun hs => ?_, fun he g hs => ?_⟩
    · exact absurd (List.mem_of_getElem? h3) ((hnone hs).2 f)
    · rcases hin he g hs with h | h
      · left; simp [deliverSt, h]
      · by_cases hgf : g = f
        · left; simp [deliverSt, hgf]
        · right; exact mem_set_of_ne h h3 (by simpa using fun h => hgf h.symm)
  | workerExit i h1 h3 =>
    refine ⟨fun hs => ⟨(hnone hs).1, fun f hm => ?_⟩, fun he f hs => ?_⟩
    · rcases mem_set_cases hm with h | h
      · cases h
      · exact (hnone hs).2 f h
    · rcases hin he f hs with h | h
      · exact Or.inl h
      · exact Or.inr (mem_set_of_ne h h3 (by simp))
  | workerAbort i f hc he h3 =>
    refine ⟨fun hs => ⟨(hnone hs).1, fun g hm => ?_⟩, fun hf => by simp [exitSt, he] at hf⟩
    rcases mem_set_cases hm with h | h
    · cases h
    · exact (hnone hs).2 g h
  | walkerFinish h1 h2 => exact ⟨hnone, hin⟩
  | walkerAbort p ps k hc he h1 h2 hk => exact ⟨hnone, hin⟩
  | mergerFinish h1 h2 => exact ⟨hnone, hin⟩

/-- all three invariants -/
structure Inv (n : Nat) (paths : List PFile) (s : St) : Prop where
  c : InvC n paths s
  b : InvB s
  s : InvS s

theorem inv_reach {P : Params} {n : Nat} {paths : List PFile} {s : St} (h : Reach P n paths s) : Inv n paths s := by
  induction h with
  | init => exact ⟨invC_init n paths, invB_init n paths, invS_init n paths⟩
  | step _ st ih => exact ⟨invC_step ih.c st, invB_step ih.b st, invS_step ih.s st⟩

/-! ## progress -/

theorem progress {P : Params} {n : Nat} {paths : List PFile} {s : St} (hn : 0 < n) (hi : InvC n paths s)
    (hnt : terminal s = false) (hab : s.err = true → P.walkerAbortable = true) : ∃ l t, Step P s l t := by
  cases hall : allExited s with
  | true =>
    cases hw : s.walkerDone with
    | true =>
      cases hm : s.mergerDone with
      | true => simp [terminal, hall, hw, hm] at hnt
      | false => exact ⟨_, _, Step.mergerFinish s hm hall⟩
    | false =>
      cases hr : s.remaining with
      | nil => exact ⟨_, _, Step.walkerFinish s hw hr⟩
      | cons p ps =>
        have hne : s.workers ≠ [] := by
          intro h; have := hi.len; simp [h] at this; omega
        obtain ⟨w, ws, hws⟩ := List.exists_cons_of_ne_nil hne
        have hwm : w ∈ s.workers := by simp [hws]
        have hex : w.isExited = true := by
          simp [allExited] at hall; exact hall w hwm
        have he : s.err = true := by
          cases w with
          | idle => simp [W.isExited] at hex
          | got q => simp [W.isExited] at hex
          | holding f => simp [W.isExited] at hex
          | exited e =>
            cases e with
            | ok => have := hi.exitOk hwm; simp [hw] at this
            | err => exact hi.errIff.2 hwm
            | abort => exact hi.abortErr hwm
        exact ⟨_, _, Step.walkerAbort s p ps 0 (hab he) he hw hr (Nat.zero_le _)⟩
  | false =>
    have : ∃ w ∈ s.workers, w.isExited = false := by
      simp [allExited] at hall
      obtain ⟨w, hw, hx⟩ := hall
      exact ⟨w, hw, by simpa using hx⟩
    obtain ⟨w, hwm, hwx⟩ := this
    obtain ⟨i, hlt, hget⟩ := List.getElem_of_mem hwm
    have hg : s.workers[i]? = some w := by simp [List.getElem?_eq_getElem hlt, hget]
    have hmF : s.mergerDone = false := by
      cases hm : s.mergerDone with
      | false => rfl
      | true => have := hi.merger hm; simp [hall] at this
    cases w with
    | holding f => exact ⟨_, _, Step.deliver s i f hmF hg⟩
    | got p => exact ⟨_, _, Step.parse s i p hg⟩
    | idle =>
      cases hwd : s.walkerDone with
      | true => exact ⟨_, _, Step.workerExit s i hwd hg⟩
      | false =>
        cases hr : s.remaining with
        | nil => exact ⟨_, _, Step.walkerFinish s hwd hr⟩
        | cons p ps => exact ⟨_, _, Step.send s i p ps hwd hr hg⟩
    | exited e => simp [W.isExited] at hwx

/-! ## termination -/

def W.rank : W → Nat
  | .exited _ => 0
  | .idle => 1
  | .holding _ => 2
  | .got _ => 3

/-- strictly decreases on every step (`measure_decreases`), so every run has at most `runMeasure (init n paths)` steps -/
def runMeasure (s : St) : Nat :=
  3 * s.remaining.length + (s.workers.map W.rank).sum + (!s.walkerDone).toNat + (!s.mergerDone).toNat

theorem rank_afterParse (p : PFile) : (afterParse p).rank ≤ 2 := by
  unfold afterParse; split <;> (try split) <;> simp [W.rank]

theorem measure_decreases {P : Params} {s t : St} {l : Label} (hs : Step P s l t) : runMeasure t < runMeasure s := by
  cases hs with
  | send i p ps h1 h2 h3 =>
    have := sum_map_set W.rank (w' := W.got p) h3
    simp only [runMeasure, sendSt, h2, List.length_cons, W.rank] at *
    omega
  | parse i p h3 =>
    have := sum_map_set W.rank (w' := afterParse p) h3
    have := rank_afterParse p
    simp only [runMeasure, parseSt, W.rank] at *
    omega
  | deliver i f h1 h3 =>
    have := sum_map_set W.rank (w' := W.idle) h3
    simp only [runMeasure, deliverSt, W.rank] at *
    omega
  | workerExit i h1 h3 =>
    have := sum_map_set W.rank (w' := W.exited .ok) h3
    simp only [runMeasure, exitSt, W.rank] at *
    omega
  | workerAbort i f hc he h3 =>
    have := sum_map_set W.rank (w' := W.exited .abort) h3
    simp only [runMeasure, exitSt, W.rank] at *
    omega
  | walkerFinish h1 h2 => simp [runMeasure, h1]
  | walkerAbort p ps k hc he h1 h2 hk =>
    simp only [runMeasure, h2, List.length_cons, List.length_drop]
    omega
  | mergerFinish h1 h2 => simp [runMeasure, h1]

/-! ## what a finished run delivers -/

theorem inflight_nil_of_exited {s : St} (h : allExited s = true) : s.workers.flatMap inflight = [] := by
  simp only [List.flatMap_eq_nil_iff]
  intro w hw
  simp [allExited] at h
  have := h w hw
  cases w <;> simp_all [W.isExited, inflight]

theorem terminal_parts {s : St} (h : terminal s = true) :
    s.mergerDone = true ∧ s.walkerDone = true ∧ allExited s = true := by
  simpa [terminal, Bool.and_eq_true, and_assoc] using h

theorem delivers {n : Nat} {paths : List PFile} {s : St} (hi : Inv n paths s) (ht : terminal s = true)
    (he : s.err = false) : s.acc.Perm (goodIds paths) := by
  obtain ⟨_, hw, hall⟩ := terminal_parts ht
  have hr := hi.c.walked hw
  have hsent : s.sent = paths := by have := hi.c.split he; simpa [hr] using this
  rw [List.perm_iff_count]
  intro x
  have := hi.b he x
  simpa [inflight_nil_of_exited hall, hsent] using this

/-- at the end the errgroup holds an error exactly when some walked path is an accepted file that cannot be parsed -/
theorem terminal_err_iff {n : Nat} {paths : List PFile} {s : St} (hi : Inv n paths s) (ht : terminal s = true) :
    s.err = true ↔ ∃ p ∈ paths, p.bad = true := by
  obtain ⟨_, hw, hall⟩ := terminal_parts ht
  constructor
  · intro he
    obtain ⟨p, hp, hb⟩ := hi.c.errBad he
    exact ⟨p, hi.c.sub p (Or.inl hp), hb⟩
  · rintro ⟨p, hp, hb⟩
    cases he : s.err with
    | true => rfl
    | false =>
      have hr := hi.c.walked hw
      have hsent : s.sent = paths := by have := hi.c.split he; simpa [hr] using this
      rcases hi.c.badSeen p (hsent ▸ hp) hb with h | h
      · simp [allExited] at hall
        have := hall _ h; simp [W.isExited] at this
      · simp [he] at h

theorem err_monotone {P : Params} {s t : St} (h : Steps P s t) (he : s.err = true) : t.err = true := by
  induction h with
  | refl => exact he
  | tail _ st ih =>
    cases st <;> simp_all [sendSt, parseSt, deliverSt, exitSt]

end Ach.Pipeline
