import Ach.Model.GoLite
/-!
# Lemmas about the GoLite interpreter

* `eval_noRelax`, `exec_noRelax`: a program that mentions no relaxation flag behaves the same under two contexts that
  differ only in relaxation flags.
* `rejectOnly_no_accept`: a block whose `return`s are all syntactically non-nil errors never returns nil.
* `noAssign_suffix`: a block without assignments / loop exits that passes control on leaves the outer variables untouched.
* `relax_mono`: for a program of the `relaxOK` shape, switching on more relaxation flags can only turn the outcome
  into `accept` or leave it unchanged whenever it was `accept` / fall-through / `break` / `continue`.
* `spine_sound`: every guard on the spine of a function is false in a run that returns nil.
-/
namespace Ach.GoLite

/-- `c'` has every relaxation flag of `c` (and possibly more); everything else is equal -/
structure CtxLe (c c' : Ctx) : Prop where
  fields : c.fields = c'.fields
  ext : c.ext = c'.ext
  recv : c.recv = c'.recv
  other : ∀ src n, relaxFlags.contains n = false → hasFlag c src n = hasFlag c' src n
  more : ∀ src n, hasFlag c src n = true → hasFlag c' src n = true

theorem CtxLe.refl (c : Ctx) : CtxLe c c := ⟨rfl, rfl, rfl, fun _ _ _ => rfl, fun _ _ h => h⟩

theorem CtxLe.withRecv {c c' : Ctx} (h : CtxLe c c') (p : String) :
    CtxLe { c with recv := p } { c' with recv := p } :=
  ⟨h.fields, h.ext, rfl, fun src n hn => by simpa [hasFlag] using h.other src n hn,
   fun src n hh => by simpa [hasFlag] using h.more src n (by simpa [hasFlag] using hh)⟩

theorem eval_noRelax {c c' : Ctx} (h : CtxLe c c') (l : Locals) :
    ∀ e, exprNoRelax e = true → eval c l e = eval c' l e := by
  intro e
  induction e with
  | fld n => intro _; simp [eval, h.fields, h.recv]
  | self => intro _; simp [eval, h.recv]
  | flag src n =>
      intro hn
      simp [exprNoRelax] at hn
      simp [eval, h.other src n (by simpa using hn)]
  | nonNil e ih => intro hn; simp [exprNoRelax] at hn; simp [eval, ih hn]
  | wrapErr t e ih => intro hn; simp [exprNoRelax] at hn; simp [eval, ih hn]
  | not a ih => intro hn; simp [exprNoRelax] at hn; simp [eval, ih hn]
  | sel a n ih => intro hn; simp [exprNoRelax] at hn; simp [eval, ih hn, h.fields]
  | idx a b iha ihb => intro hn; simp [exprNoRelax] at hn; simp [eval, iha hn.1, ihb hn.2]
  | pair a b iha ihb => intro hn; simp [exprNoRelax] at hn; simp [eval, iha hn.1, ihb hn.2]
  | and a b iha ihb => intro hn; simp [exprNoRelax] at hn; simp [eval, iha hn.1, ihb hn.2]
  | or a b iha ihb => intro hn; simp [exprNoRelax] at hn; simp [eval, iha hn.1, ihb hn.2]
  | eq a b iha ihb => intro hn; simp [exprNoRelax] at hn; simp [eval, iha hn.1, ihb hn.2]
  | ne a b iha ihb => intro hn; simp [exprNoRelax] at hn; simp [eval, iha hn.1, ihb hn.2]
  | lt a b iha ihb => intro hn; simp [exprNoRelax] at hn; simp [eval, iha hn.1, ihb hn.2]
  | le a b iha ihb => intro hn; simp [exprNoRelax] at hn; simp [eval, iha hn.1, ihb hn.2]
  | gt a b iha ihb => intro hn; simp [exprNoRelax] at hn; simp [eval, iha hn.1, ihb hn.2]
  | ge a b iha ihb => intro hn; simp [exprNoRelax] at hn; simp [eval, iha hn.1, ihb hn.2]
  | add a b iha ihb => intro hn; simp [exprNoRelax] at hn; simp [eval, iha hn.1, ihb hn.2]
  | sub a b iha ihb => intro hn; simp [exprNoRelax] at hn; simp [eval, iha hn.1, ihb hn.2]
  | mul a b iha ihb => intro hn; simp [exprNoRelax] at hn; simp [eval, iha hn.1, ihb hn.2]
  | mod a b iha ihb => intro hn; simp [exprNoRelax] at hn; simp [eval, iha hn.1, ihb hn.2]
  | div a b iha ihb => intro hn; simp [exprNoRelax] at hn; simp [eval, iha hn.1, ihb hn.2]
  | call1 f a ih => intro hn; simp [exprNoRelax] at hn; simp [eval, ih hn, h.ext]
  | call2 f a b iha ihb => intro hn; simp [exprNoRelax] at hn; simp [eval, iha hn.1, ihb hn.2]
  | call3 f a b d iha ihb ihd =>
      intro hn; simp [exprNoRelax] at hn; simp [eval, iha hn.1.1, ihb hn.1.2, ihd hn.2]
  | _ => intro _; simp [eval]

theorem evalArgs_noRelax {c c' : Ctx} (h : CtxLe c c') (l : Locals) (args : List Expr)
    (hn : args.all exprNoRelax = true) : args.map (eval c l) = args.map (eval c' l) := by
  induction args with
  | nil => rfl
  | cons a as ih =>
      simp [List.all_cons] at hn
      simp only [List.map_cons]
      rw [eval_noRelax h l a hn.1, ih (by simpa using hn.2)]

theorem exec_noRelax :
    ∀ p, progNoRelax p = true → ∀ (c c' : Ctx), CtxLe c c' → ∀ l, exec p c l = exec p c' l := by
  intro p
  induction p with
  | skip => intro _ c c' _ l; simp [exec]
  | brk => intro _ c c' _ l; simp [exec]
  | cont => intro _ c c' _ l; simp [exec]
  | ret e => intro hn c c' h l; simp [progNoRelax] at hn; simp [exec, eval_noRelax h l e hn]
  | ite cnd t e iht ihe =>
      intro hn c c' h l
      simp [progNoRelax] at hn
      simp [exec, eval_noRelax h l cnd hn.1.1, iht hn.1.2 c c' h l, ihe hn.2 c c' h l]
  | seq a b iha ihb =>
      intro hn c c' h l
      simp [progNoRelax] at hn
      simp only [exec, iha hn.1 c c' h l]
      split
      · exact ihb hn.2 c c' h _
      · rfl
  | block p ih => intro hn c c' h l; simp [progNoRelax] at hn; simp [exec, ih hn c c' h l]
  | bind x e => intro hn c c' h l; simp [progNoRelax] at hn; simp [exec, eval_noRelax h l e hn]
  | bind2 x y e => intro hn c c' h l; simp [progNoRelax] at hn; simp [exec, eval_noRelax h l e hn]
  | assign x e => intro hn c c' h l; simp [progNoRelax] at hn; simp [exec, eval_noRelax h l e hn]
  | assign2 x y e => intro hn c c' h l; simp [progNoRelax] at hn; simp [exec, eval_noRelax h l e hn]
  | check tag body ih => intro hn c c' h l; simp [progNoRelax] at hn; simp [exec, ih hn c c' h []]
  | sub x params args body ih =>
      intro hn c c' h l
      simp [progNoRelax] at hn
      have ha := evalArgs_noRelax h l args (by simpa using hn.1)
      simp only [exec, ha]
      split
      · rfl
      · rw [ih hn.2 c c' h]
  | checkOn tag recv params args body ih =>
      intro hn c c' h l
      simp [progNoRelax] at hn
      have ha := evalArgs_noRelax h l args (by simpa using hn.1.2)
      simp only [exec, ha, eval_noRelax h l recv hn.1.1]
      split
      · rename_i p _
        split
        · rfl
        · rw [ih hn.2 _ _ (h.withRecv p)]
      · rfl
  | subOn x recv params args body ih =>
      intro hn c c' h l
      simp [progNoRelax] at hn
      have ha := evalArgs_noRelax h l args (by simpa using hn.1.2)
      simp only [exec, ha, eval_noRelax h l recv hn.1.1]
      split
      · rename_i p _
        split
        · rfl
        · rw [ih hn.2 _ _ (h.withRecv p)]
      · rfl
  | forEach v coll body ih =>
      intro hn c c' h l
      simp [progNoRelax] at hn
      have hf : (fun l' => exec body c l') = (fun l' => exec body c' l') := funext (fun l' => ih hn.2 c c' h l')
      simp only [exec, eval_noRelax h l coll hn.1, hf]
  | forIdx v coll body ih =>
      intro hn c c' h l
      simp [progNoRelax] at hn
      have hf : (fun l' => exec body c l') = (fun l' => exec body c' l') := funext (fun l' => ih hn.2 c c' h l')
      simp only [exec, eval_noRelax h l coll hn.1, hf]
  | effect s => intro _ c c' _ l; simp [exec]
  | unknown s => intro _ c c' _ l; simp [exec]

theorem checkResult_no_accept (tag : Option String) (l : Locals) (s : Sig) :
    (checkResult tag l s).2 ≠ .ret (.err none) := by
  unfold checkResult; split <;> simp

theorem subResult_no_accept (x : String) (l : Locals) (s : Sig) :
    (subResult x l s).2 ≠ .ret (.err none) := by
  unfold subResult; split <;> simp

theorem iter_no_accept (f : Locals → Locals × Sig) (mk : Nat → Val) (v : String)
    (hf : ∀ l, (f l).2 ≠ .ret (.err none)) : ∀ is l, (iter f mk v is l).2 ≠ .ret (.err none) := by
  intro is
  induction is with
  | nil => intro l; simp [iter]
  | cons i is ih =>
      intro l
      simp only [iter]
      split
      · exact ih _
      · exact ih _
      · simp
      · have := hf ((v, mk i) :: l)
        intro hx
        apply this
        simpa using hx

/-- a block whose returns are all syntactically non-nil errors never returns nil -/
theorem rejectOnly_no_accept :
    ∀ p, rejectOnly p = true → ∀ (c : Ctx) l, (exec p c l).2 ≠ .ret (.err none) := by
  intro p
  induction p with
  | skip => intro _ c l; simp [exec]
  | brk => intro _ c l; simp [exec]
  | cont => intro _ c l; simp [exec]
  | ret e =>
      intro hr c l
      simp only [exec]
      cases e <;> simp [rejectOnly, isErrExpr] at hr
      case mkErr t => simp [eval]
      case call1 f a => simp only [eval]; rcases hr with hr | hr <;> subst hr <;> simp [builtin1]
      case call2 f a b => simp only [eval]; subst hr; simp [builtin2]
      case call3 f a b d => simp only [eval]; subst hr; simp [builtin3]
      case nonNil e => simp only [eval]; split <;> simp
      case wrapErr t e =>
        cases e <;> simp [isErrExpr] at hr
        case nonNil e =>
          simp only [eval]
          split <;> simp
          all_goals (rename_i hx; revert hx; split <;> simp)
  | ite cnd t e iht ihe =>
      intro hr c l
      simp [rejectOnly] at hr
      simp only [exec]
      split
      · exact iht hr.1 c l
      · exact ihe hr.2 c l
      · simp
  | seq a b iha ihb =>
      intro hr c l
      simp [rejectOnly] at hr
      simp only [exec]
      split
      · exact ihb hr.2 c _
      · exact iha hr.1 c l
  | block p ih => intro hr c l; simp [rejectOnly] at hr; simp only [exec]; exact ih hr c l
  | bind x e => intro _ c l; simp only [exec]; split <;> simp
  | bind2 x y e => intro _ c l; simp only [exec]; split <;> simp
  | assign x e => intro _ c l; simp only [exec]; split <;> (try simp) <;> split <;> simp
  | assign2 x y e => intro _ c l; simp only [exec]; split <;> (try simp) <;> split <;> simp
  | check tag body _ => intro _ c l; simp only [exec]; exact checkResult_no_accept _ _ _
  | sub x params args body _ =>
      intro _ c l
      simp only [exec]
      split
      · simp
      · exact subResult_no_accept _ _ _
  | checkOn tag recv params args body _ =>
      intro _ c l
      simp only [exec]
      split
      · split
        · simp
        · exact checkResult_no_accept _ _ _
      · simp
  | subOn x recv params args body _ =>
      intro _ c l
      simp only [exec]
      split
      · split
        · simp
        · exact subResult_no_accept _ _ _
      · simp
  | forEach v coll body ih =>
      intro hr c l
      simp [rejectOnly] at hr
      simp only [exec]
      split
      · exact iter_no_accept _ _ _ (fun l' => ih hr c l') _ _
      · simp
      · simp
  | forIdx v coll body ih =>
      intro hr c l
      simp [rejectOnly] at hr
      simp only [exec]
      split
      · exact iter_no_accept _ _ _ (fun l' => ih hr c l') _ _
      · simp
      · simp
  | effect s => intro _ c l; simp [exec]
  | unknown s => intro hr; simp [rejectOnly] at hr

theorem scopeExit_append (pre l : Locals) : scopeExit l (pre ++ l) = l := by
  simp [scopeExit]

theorem scopeExit_self (l : Locals) : scopeExit l l = l := by
  simp [scopeExit]

/-- signals that pass control on inside a function: fall-through, `break`, `continue` -/
def passing (s : Sig) : Prop := s = .next ∨ s = .brk ∨ s = .cont

theorem checkResult_passing (tag : Option String) (l : Locals) (s : Sig) (h : passing (checkResult tag l s).2) :
    checkResult tag l s = (l, .next) := by
  unfold checkResult at h ⊢
  split <;> simp_all [passing]

theorem subResult_passing (x : String) (l : Locals) (s : Sig) (h : passing (subResult x l s).2) :
    ∃ v, subResult x l s = ((x, v) :: l, .next) := by
  unfold subResult at h ⊢
  split <;> simp_all [passing]

/-- a block without assignments and loop exits that passes control on falls through and only added declarations in front -/
theorem noAssign_suffix :
    ∀ p, noAssign p = true → ∀ (c : Ctx) l, passing (exec p c l).2 →
      (exec p c l).2 = .next ∧ ∃ pre, (exec p c l).1 = pre ++ l := by
  intro p
  induction p with
  | skip => intro _ c l _; simp [exec]
  | brk => intro hn; simp [noAssign] at hn
  | cont => intro hn; simp [noAssign] at hn
  | ret e => intro _ c l h; simp [exec, passing] at h
  | ite cnd t e iht ihe =>
      intro hn c l h
      simp [noAssign] at hn
      simp only [exec] at h ⊢
      cases hc : eval c l cnd with
      | bool b =>
          rw [hc] at h
          cases b with
          | true =>
              simp only at h ⊢
              obtain ⟨h1, pre, hp⟩ := iht hn.1 c l h
              exact ⟨h1, [], by simp only [hp, scopeExit_append]; rfl⟩
          | false =>
              simp only at h ⊢
              obtain ⟨h1, pre, hp⟩ := ihe hn.2 c l h
              exact ⟨h1, [], by simp only [hp, scopeExit_append]; rfl⟩
      | _ => rw [hc] at h; simp [passing] at h
  | seq a b iha ihb =>
      intro hn c l h
      simp [noAssign] at hn
      simp only [exec] at h ⊢
      have hpa := iha hn.1 c l
      cases ha : exec a c l with
      | mk l2 s2 =>
        rw [ha] at h hpa
        cases s2 with
        | next =>
            simp only at h ⊢
            obtain ⟨_, p1, hp1⟩ := hpa (Or.inl rfl)
            simp only at hp1
            obtain ⟨h2, p2, hp2⟩ := ihb hn.2 c l2 h
            exact ⟨h2, p2 ++ p1, by rw [hp2, hp1, List.append_assoc]⟩
        | brk => have := (hpa (Or.inr (Or.inl rfl))).1; simp at this
        | cont => have := (hpa (Or.inr (Or.inr rfl))).1; simp at this
        | ret v => simp [passing] at h
        | stuck w => simp [passing] at h
  | block p ih =>
      intro hn c l h
      simp [noAssign] at hn
      simp only [exec] at h ⊢
      obtain ⟨h1, pre, hp⟩ := ih hn c l h
      exact ⟨h1, [], by simp only [hp, scopeExit_append]; rfl⟩
  | bind x e =>
      intro _ c l h
      simp only [exec] at h ⊢
      cases hb : eval c l e <;> rw [hb] at h <;> first | (simp [passing] at h; done) | exact ⟨rfl, [(x, _)], rfl⟩
  | bind2 x y e =>
      intro _ c l h
      simp only [exec] at h ⊢
      cases hb : eval c l e <;> rw [hb] at h <;> first | (simp [passing] at h; done) | exact ⟨rfl, [(y, _), (x, _)], rfl⟩
  | assign x e => intro hn; simp [noAssign] at hn
  | assign2 x y e => intro hn; simp [noAssign] at hn
  | check tag body _ =>
      intro _ c l h
      simp only [exec] at h ⊢
      rw [checkResult_passing _ _ _ h]
      exact ⟨rfl, [], rfl⟩
  | sub x params args body _ =>
      intro _ c l h
      simp only [exec] at h ⊢
      split at h
      · simp [passing] at h
      · rename_i hb
        rw [if_neg hb]
        obtain ⟨v, hv⟩ := subResult_passing _ _ _ h
        rw [hv]
        exact ⟨rfl, [(x, v)], rfl⟩
  | checkOn tag recv params args body _ =>
      intro _ c l h
      simp only [exec] at h ⊢
      cases hr : eval c l recv <;> rw [hr] at h <;> try (simp [passing] at h; done)
      simp only at h ⊢
      split at h
      · simp [passing] at h
      · rename_i hb
        rw [if_neg hb]
        rw [checkResult_passing _ _ _ h]
        exact ⟨rfl, [], rfl⟩
  | subOn x recv params args body _ =>
      intro _ c l h
      simp only [exec] at h ⊢
      cases hr : eval c l recv <;> rw [hr] at h <;> try (simp [passing] at h; done)
      simp only at h ⊢
      split at h
      · simp [passing] at h
      · rename_i hb
        rw [if_neg hb]
        obtain ⟨v, hv⟩ := subResult_passing _ _ _ h
        rw [hv]
        exact ⟨rfl, [(x, v)], rfl⟩
  | forEach v coll body _ => intro hn; simp [noAssign] at hn
  | forIdx v coll body _ => intro hn; simp [noAssign] at hn
  | effect s => intro _ c l h; simp [exec, passing] at h
  | unknown s => intro _ c l h; simp [exec, passing] at h

theorem eval_noVar (c : Ctx) (l l' : Locals) :
    ∀ e, exprNoVar e = true → eval c l e = eval c l' e := by
  intro e
  induction e with
  | var n => intro hn; simp [exprNoVar] at hn
  | nonNil e ih => intro hn; simp [exprNoVar] at hn; simp [eval, ih hn]
  | wrapErr t e ih => intro hn; simp [exprNoVar] at hn; simp [eval, ih hn]
  | not a ih => intro hn; simp [exprNoVar] at hn; simp [eval, ih hn]
  | sel a n ih => intro hn; simp [exprNoVar] at hn; simp [eval, ih hn]
  | idx a b iha ihb => intro hn; simp [exprNoVar] at hn; simp [eval, iha hn.1, ihb hn.2]
  | pair a b iha ihb => intro hn; simp [exprNoVar] at hn; simp [eval, iha hn.1, ihb hn.2]
  | and a b iha ihb => intro hn; simp [exprNoVar] at hn; simp [eval, iha hn.1, ihb hn.2]
  | or a b iha ihb => intro hn; simp [exprNoVar] at hn; simp [eval, iha hn.1, ihb hn.2]
  | eq a b iha ihb => intro hn; simp [exprNoVar] at hn; simp [eval, iha hn.1, ihb hn.2]
  | ne a b iha ihb => intro hn; simp [exprNoVar] at hn; simp [eval, iha hn.1, ihb hn.2]
  | lt a b iha ihb => intro hn; simp [exprNoVar] at hn; simp [eval, iha hn.1, ihb hn.2]
  | le a b iha ihb => intro hn; simp [exprNoVar] at hn; simp [eval, iha hn.1, ihb hn.2]
  | gt a b iha ihb => intro hn; simp [exprNoVar] at hn; simp [eval, iha hn.1, ihb hn.2]
  | ge a b iha ihb => intro hn; simp [exprNoVar] at hn; simp [eval, iha hn.1, ihb hn.2]
  | add a b iha ihb => intro hn; simp [exprNoVar] at hn; simp [eval, iha hn.1, ihb hn.2]
  | sub a b iha ihb => intro hn; simp [exprNoVar] at hn; simp [eval, iha hn.1, ihb hn.2]
  | mul a b iha ihb => intro hn; simp [exprNoVar] at hn; simp [eval, iha hn.1, ihb hn.2]
  | mod a b iha ihb => intro hn; simp [exprNoVar] at hn; simp [eval, iha hn.1, ihb hn.2]
  | div a b iha ihb => intro hn; simp [exprNoVar] at hn; simp [eval, iha hn.1, ihb hn.2]
  | call1 f a ih => intro hn; simp [exprNoVar] at hn; simp [eval, ih hn]
  | call2 f a b iha ihb => intro hn; simp [exprNoVar] at hn; simp [eval, iha hn.1, ihb hn.2]
  | call3 f a b d iha ihb ihd =>
      intro hn; simp [exprNoVar] at hn; simp [eval, iha hn.1.1, ihb hn.1.2, ihd hn.2]
  | _ => intro _; simp [eval]

theorem spine_noVar : ∀ p e, e ∈ spine p → exprNoVar e = true := by
  intro p
  induction p with
  | seq a b iha ihb =>
      intro e he
      simp only [spine, List.mem_append] at he
      rcases he with he | he
      · exact iha e he
      · split at he
        · exact ihb e he
        · simp at he
  | block p ih => intro e he; exact ih e he
  | check tag body ih => intro e he; exact ih e he
  | ite cnd t e0 _ _ =>
      intro e he
      simp only [spine] at he
      split at he
      · rename_i hc
        simp only [Bool.and_eq_true] at hc
        simp only [List.mem_singleton] at he
        subst he
        exact hc.2
      · simp at he
  | _ => intro e he; simp [spine] at he

/-- every guard on the spine is false in a run that returns nil or falls through -/
theorem spine_sound (c : Ctx) :
    ∀ p l, ((exec p c l).2 = .ret (.err none) ∨ (exec p c l).2 = .next) →
      ∀ e, e ∈ spine p → eval c l e = .bool false := by
  intro p
  induction p with
  | seq a b iha ihb =>
      intro l hres e he
      simp only [spine, List.mem_append] at he
      simp only [exec] at hres
      cases ha : exec a c l with
      | mk l1 s1 =>
        rw [ha] at hres
        cases s1 with
        | next =>
            simp only at hres
            rcases he with he | he
            · exact iha l (by rw [ha]; exact Or.inr rfl) e he
            · split at he
              · have hb := ihb l1 hres e he
                have hv : exprNoVar e = true := spine_noVar b e he
                rw [eval_noVar c l l1 e hv]; exact hb
              · simp at he
        | ret v =>
            simp only at hres
            rcases hres with hres | hres
            · rcases he with he | he
              · exact iha l (by rw [ha]; exact Or.inl hres) e he
              · split at he
                · rename_i hrej
                  exact absurd (by rw [ha]; exact hres) (rejectOnly_no_accept a hrej c l)
                · simp at he
            · simp at hres
        | brk => simp at hres
        | cont => simp at hres
        | stuck w => simp at hres
  | block p ih =>
      intro l hres e he
      simp only [spine] at he
      simp only [exec] at hres
      exact ih l hres e he
  | check tag body ih =>
      intro l hres e he
      simp only [spine] at he
      simp only [exec] at hres
      have hv : exprNoVar e = true := spine_noVar body e he
      rw [eval_noVar c l [] e hv]
      apply ih [] _ e he
      revert hres
      unfold checkResult
      cases (exec body c []).2 with
      | ret v => cases v with
        | err t => cases t <;> simp
        | _ => simp
      | _ => simp
  | ite cnd t e0 _ _ =>
      intro l hres e he
      simp only [spine] at he
      split at he
      · rename_i hc
        simp only [Bool.and_eq_true] at hc
        simp only [List.mem_singleton] at he
        subst he
        have ht : ∃ x, t = .ret x ∧ isErrExpr x = true := by
          cases t <;> simp [isErrRet] at hc
          exact ⟨_, rfl, hc.1.1⟩
        obtain ⟨x, rfl, hx⟩ := ht
        have he0 : e0 = .skip := by
          have := hc.1.2
          cases e0 <;> simp [isSkip] at this
          rfl
        subst he0
        simp only [exec] at hres
        cases hcv : eval c l e with
        | bool b =>
            cases b with
            | false => rfl
            | true =>
                rw [hcv] at hres
                simp only at hres
                have := rejectOnly_no_accept (.ret x) (by simp [rejectOnly, hx]) c l
                simp only [exec] at this
                rcases hres with hres | hres
                · exact absurd hres this
                · simp at hres
        | _ => rw [hcv] at hres; simp at hres
      · simp at he
  | _ => intro l _ e he; simp [spine] at he

/-- "at least as accepting": an accept stays an accept; a run that passes control on (fall-through, `break`,
`continue`) does exactly the same or becomes an accept -/
def Good (r r' : Locals × Sig) : Prop :=
  (r.2 = .ret (.err none) → r'.2 = .ret (.err none)) ∧
  (passing r.2 → (r' = r ∨ r'.2 = .ret (.err none)))

theorem Good.rfl' (r : Locals × Sig) : Good r r := ⟨fun h => h, fun _ => Or.inl rfl⟩

theorem Good.of_eq {r r' : Locals × Sig} (h : r = r') : Good r r' := by subst h; exact Good.rfl' r

theorem Good.scoped {r r' : Locals × Sig} (l : Locals) (h : Good r r') :
    Good (scopeExit l r.1, r.2) (scopeExit l r'.1, r'.2) := by
  refine ⟨fun ha => h.1 ha, fun hn => ?_⟩
  rcases h.2 hn with h1 | h1
  · left; rw [h1]
  · right; exact h1

theorem Good.of_fail {r r' : Locals × Sig} (h1 : r.2 ≠ .ret (.err none)) (h2 : ¬ passing r.2) : Good r r' :=
  ⟨fun h => absurd h h1, fun h => absurd h h2⟩

theorem checkResult_good (tag : Option String) (l : Locals) {r r' : Locals × Sig} (g : Good r r') :
    Good (checkResult tag l r.2) (checkResult tag l r'.2) := by
  cases hb : r.2 with
  | ret v =>
      cases v with
      | err t =>
          cases t with
          | none => rw [g.1 hb]; exact Good.rfl' _
          | some t => exact Good.of_fail (by simp [checkResult]) (by simp [checkResult, passing])
      | _ => exact Good.of_fail (by simp [checkResult]) (by simp [checkResult, passing])
  | _ => exact Good.of_fail (by simp [checkResult]) (by simp [checkResult, passing])

theorem iter_good (f f' : Locals → Locals × Sig) (mk : Nat → Val) (v : String)
    (hf : ∀ l, Good (f l) (f' l)) : ∀ is l, Good (iter f mk v is l) (iter f' mk v is l) := by
  intro is
  induction is with
  | nil => intro l; exact Good.rfl' _
  | cons i is ih =>
      intro l
      have g := hf ((v, mk i) :: l)
      simp only [iter]
      -- what the second run does once its body has returned nil
      have acc : (f' ((v, mk i) :: l)).2 = .ret (.err none) →
          (match (f' ((v, mk i) :: l)).2 with
            | .next => iter f' mk v is (scopeExit l (f' ((v, mk i) :: l)).1)
            | .cont => iter f' mk v is (scopeExit l (f' ((v, mk i) :: l)).1)
            | .brk => (scopeExit l (f' ((v, mk i) :: l)).1, Sig.next)
            | s => (scopeExit l (f' ((v, mk i) :: l)).1, s)).2 = .ret (.err none) := by
        intro h; rw [h]
      cases hs : (f ((v, mk i) :: l)).2 with
      | next =>
          rcases g.2 (by rw [hs]; exact Or.inl rfl) with h1 | h1
          · rw [h1, hs]; exact ih _
          · exact ⟨fun _ => acc h1, fun _ => Or.inr (acc h1)⟩
      | cont =>
          rcases g.2 (by rw [hs]; exact Or.inr (Or.inr rfl)) with h1 | h1
          · rw [h1, hs]; exact ih _
          · exact ⟨fun _ => acc h1, fun _ => Or.inr (acc h1)⟩
      | brk =>
          rcases g.2 (by rw [hs]; exact Or.inr (Or.inl rfl)) with h1 | h1
          · rw [h1, hs]; exact Good.rfl' _
          · exact ⟨fun _ => acc h1, fun _ => Or.inr (acc h1)⟩
      | ret x =>
          refine ⟨fun hv => ?_, fun hp => ?_⟩
          · simp only at hv
            exact acc (g.1 (by rw [hs]; exact hv))
          · simp [passing] at hp
      | stuck w => exact Good.of_fail (by simp) (by simp [passing])

/-- switching on relaxation flags leaves an `antiCond` condition as it was or makes it false -/
theorem antiCond_eval {c c' : Ctx} (h : CtxLe c c') (l : Locals) :
    ∀ e, antiCond e = true → eval c' l e = eval c l e ∨ eval c' l e = .bool false := by
  intro e
  induction e with
  | not a _ =>
      intro ha
      cases a with
      | flag src n =>
          simp only [eval]
          cases hf : hasFlag c src n with
          | true => left; rw [h.more src n hf]
          | false =>
              cases hf' : hasFlag c' src n with
              | false => left; rfl
              | true => right; rfl
      | _ => simp [antiCond] at ha
  | and a b iha ihb =>
      intro hab
      simp only [antiCond, Bool.or_eq_true, Bool.and_eq_true] at hab
      simp only [eval]
      rcases hab with ⟨ha, hb⟩ | ⟨ha, hb⟩
      · rw [← eval_noRelax h l b hb]
        rcases iha ha with h1 | h1
        · left; rw [h1]
        · right; rw [h1]
      · rw [← eval_noRelax h l a ha]
        cases hav : eval c l a with
        | bool x =>
            cases x with
            | false => left; rfl
            | true =>
                simp only
                rcases ihb hb with h1 | h1
                · left; rw [h1]
                · right; rw [h1]
        | _ => left; rfl
  | _ => intro ha; simp [antiCond] at ha

theorem relax_mono :
    ∀ p, relaxOK p = true → ∀ (c c' : Ctx), CtxLe c c' → ∀ l, Good (exec p c l) (exec p c' l) := by
  intro p
  induction p with
  | skip => intro _ c c' _ l; exact Good.of_eq (by simp [exec])
  | brk => intro _ c c' _ l; exact Good.of_eq (by simp [exec])
  | cont => intro _ c c' _ l; exact Good.of_eq (by simp [exec])
  | ret e => intro hr c c' h l; simp [relaxOK] at hr; exact Good.of_eq (by simp [exec, eval_noRelax h l e hr])
  | bind x e => intro hr c c' h l; simp [relaxOK] at hr; exact Good.of_eq (by simp [exec, eval_noRelax h l e hr])
  | bind2 x y e => intro hr c c' h l; simp [relaxOK] at hr; exact Good.of_eq (by simp [exec, eval_noRelax h l e hr])
  | assign x e => intro hr c c' h l; simp [relaxOK] at hr; exact Good.of_eq (by simp [exec, eval_noRelax h l e hr])
  | assign2 x y e => intro hr c c' h l; simp [relaxOK] at hr; exact Good.of_eq (by simp [exec, eval_noRelax h l e hr])
  | unknown s => intro hr; simp [relaxOK] at hr
  | effect s => intro _ c c' _ l; exact Good.of_eq (by simp [exec])
  | sub x params args body _ =>
      intro hr c c' h l
      simp [relaxOK] at hr
      exact Good.of_eq (exec_noRelax (.sub x params args body) (by simp [progNoRelax, hr.2]; exact hr.1) c c' h l)
  | subOn x recv params args body _ =>
      intro hr c c' h l
      simp [relaxOK] at hr
      exact Good.of_eq (exec_noRelax (.subOn x recv params args body)
        (by simp [progNoRelax, hr.1.1, hr.2]; exact hr.1.2) c c' h l)
  | block p ih =>
      intro hr c c' h l
      simp [relaxOK] at hr
      simp only [exec]
      exact Good.scoped l (ih hr c c' h l)
  | check tag body ih =>
      intro hr c c' h l
      simp [relaxOK] at hr
      simp only [exec]
      exact checkResult_good tag l (ih hr c c' h [])
  | checkOn tag recv params args body ih =>
      intro hr c c' h l
      simp [relaxOK] at hr
      have ha := evalArgs_noRelax h l args (by simpa using hr.1.2)
      simp only [exec, ha, eval_noRelax h l recv hr.1.1]
      split
      · rename_i p _
        split
        · exact Good.rfl' _
        · exact checkResult_good tag l (ih hr.2 _ _ (h.withRecv p) _)
      · exact Good.rfl' _
  | forEach v coll body ih =>
      intro hr c c' h l
      simp [relaxOK] at hr
      simp only [exec, eval_noRelax h l coll hr.1]
      split
      · exact iter_good _ _ _ _ (fun l' => ih hr.2 c c' h l') _ _
      · exact Good.rfl' _
      · exact Good.rfl' _
  | forIdx v coll body ih =>
      intro hr c c' h l
      simp [relaxOK] at hr
      simp only [exec, eval_noRelax h l coll hr.1]
      split
      · exact iter_good _ _ _ _ (fun l' => ih hr.2 c c' h l') _ _
      · exact Good.rfl' _
      · exact Good.rfl' _
  | seq a b iha ihb =>
      intro hr c c' h l
      simp [relaxOK] at hr
      have ga := iha hr.1 c c' h l
      simp only [exec]
      -- under c' the first part may already accept
      have acc : (exec a c' l).2 = .ret (.err none) →
          (match exec a c' l with | (l1, .next) => exec b c' l1 | r => r).2 = .ret (.err none) := by
        intro h1
        cases ha' : exec a c' l with
        | mk l2 s2 => rw [ha'] at h1; simp only at h1; subst h1; rfl
      cases ha : exec a c l with
      | mk l1 s1 =>
        rw [ha] at ga
        cases s1 with
        | next =>
            rcases ga.2 (Or.inl rfl) with h1 | h1
            · rw [h1]; exact ihb hr.2 c c' h l1
            · exact ⟨fun _ => acc h1, fun _ => Or.inr (acc h1)⟩
        | brk =>
            rcases ga.2 (Or.inr (Or.inl rfl)) with h1 | h1
            · rw [h1]; exact Good.rfl' _
            · exact ⟨fun _ => acc h1, fun _ => Or.inr (acc h1)⟩
        | cont =>
            rcases ga.2 (Or.inr (Or.inr rfl)) with h1 | h1
            · rw [h1]; exact Good.rfl' _
            · exact ⟨fun _ => acc h1, fun _ => Or.inr (acc h1)⟩
        | ret v =>
            refine ⟨fun hv => ?_, fun hp => ?_⟩
            · exact acc (ga.1 hv)
            · simp [passing] at hp
        | stuck w => exact Good.of_fail (by simp) (by simp [passing])
  | ite cnd t e iht ihe =>
      intro hr c c' h l
      -- the generic case: the condition mentions no relaxation flag
      have generic : exprNoRelax cnd = true → relaxOK t = true → relaxOK e = true →
          Good (exec (.ite cnd t e) c l) (exec (.ite cnd t e) c' l) := by
        intro hc ht he
        simp only [exec, eval_noRelax h l cnd hc]
        split
        · exact Good.scoped l (iht ht c c' h l)
        · exact Good.scoped l (ihe he c c' h l)
        · exact Good.rfl' _
      by_cases hanti : antiCond cnd = true
      · simp only [relaxOK, hanti, if_true, Bool.and_eq_true] at hr
        obtain ⟨⟨⟨hsk, hrej⟩, hna⟩, hok⟩ := hr
        have he : e = .skip := by cases e <;> simp [isSkip] at hsk; rfl
        subst he
        simp only [exec]
        rcases antiCond_eval h l cnd hanti with h1 | h1
        · rw [h1]
          split
          · exact Good.scoped l (iht hok c c' h l)
          · exact Good.rfl' _
          · exact Good.rfl' _
        · rw [h1]
          simp only [exec, scopeExit_self]
          cases hcv : eval c l cnd with
          | bool b =>
              cases b with
              | false => simp only [exec, scopeExit_self]; exact Good.rfl' _
              | true =>
                  simp only
                  refine ⟨fun ha => absurd ha (rejectOnly_no_accept t hrej c l), fun hn => ?_⟩
                  left
                  obtain ⟨h2, pre, hp⟩ := noAssign_suffix t hna c l hn
                  rw [hp, scopeExit_append, h2]
          | _ => exact Good.of_fail (by simp) (by simp [passing])
      cases cnd with
      | flag src n =>
          rw [relaxOK, if_neg hanti] at hr
          by_cases hrel : relaxFlags.contains n = true
          · simp only [hrel, if_true, Bool.and_eq_true] at hr
            have ht : t = .ret .nil := by
              cases t <;> simp [isRetNil] at hr
              rename_i e0; cases e0 <;> simp [isRetNil] at hr; rfl
            subst ht
            simp only [exec, eval]
            cases hf : hasFlag c src n with
            | true => simp [h.more src n hf]; exact Good.rfl' _
            | false =>
                cases hf' : hasFlag c' src n with
                | false => simp; exact Good.scoped l (ihe hr.2 c c' h l)
                | true => simp; exact ⟨by simp, by simp⟩
          · simp only [hrel] at hr
            simp at hr
            exact generic (by simp [exprNoRelax]; simpa using hrel) hr.1 hr.2
      | _ =>
          rw [relaxOK, if_neg hanti] at hr
          · simp only [Bool.and_eq_true] at hr
            exact generic hr.1.1 hr.1.2 hr.2
          · intro _ _ hh; cases hh

/-- an accepted receiver stays accepted when more relaxation flags are switched on -/
theorem run_mono {c c' : Ctx} (h : CtxLe c c') (p : Prog) (hp : relaxOK p = true)
    (ha : run c p = .accept) : run c' p = .accept := by
  have g := relax_mono p hp c c' h []
  unfold run at ha ⊢
  have : (exec p c []).2 = .ret (.err none) := by
    revert ha
    cases (exec p c []).2 with
    | ret v => cases v with
      | err t => cases t <;> simp
      | _ => simp
    | _ => simp
  simp [g.1 this]

end Ach.GoLite
