import Ach.Model.GoLite
/-!
# Lemmas about the GoLite interpreter

* `eval_noRelax`, `exec_noRelax`: a program that mentions no relaxation flag behaves the same under two contexts that
  differ only in relaxation flags.
* `rejectOnly_no_accept`: a block whose `return`s are all syntactically non-nil errors never returns nil.
* `noAssign_suffix`: a block without assignments that falls through leaves the outer variables untouched.
* `relax_mono`: for a program of the `relaxOK` shape, switching on more relaxation flags can only turn the outcome
  into `accept` or leave it unchanged whenever it was `accept` / fall-through.
-/
namespace Ach.GoLite

/-- `c'` has every relaxation flag of `c` (and possibly more); everything else is equal -/
structure CtxLe (c c' : Ctx) : Prop where
  fields : c.fields = c'.fields
  ext : c.ext = c'.ext
  other : ∀ src n, relaxFlags.contains n = false → hasFlag c src n = hasFlag c' src n
  more : ∀ src n, hasFlag c src n = true → hasFlag c' src n = true

theorem CtxLe.refl (c : Ctx) : CtxLe c c := ⟨rfl, rfl, fun _ _ _ => rfl, fun _ _ h => h⟩

theorem eval_noRelax {c c' : Ctx} (h : CtxLe c c') (l : Locals) :
    ∀ e, exprNoRelax e = true → eval c l e = eval c' l e := by
  intro e
  induction e with
  | fld n => intro _; simp [eval, h.fields]
  | flag src n =>
      intro hn
      simp [exprNoRelax] at hn
      simp [eval, h.other src n (by simpa using hn)]
  | nonNil e ih => intro hn; simp [exprNoRelax] at hn; simp [eval, ih hn]
  | wrapErr t e ih => intro hn; simp [exprNoRelax] at hn; simp [eval, ih hn]
  | not a ih => intro hn; simp [exprNoRelax] at hn; simp [eval, ih hn]
  | and a b iha ihb => intro hn; simp [exprNoRelax] at hn; simp [eval, iha hn.1, ihb hn.2]
  | or a b iha ihb => intro hn; simp [exprNoRelax] at hn; simp [eval, iha hn.1, ihb hn.2]
  | eq a b iha ihb => intro hn; simp [exprNoRelax] at hn; simp [eval, iha hn.1, ihb hn.2]
  | ne a b iha ihb => intro hn; simp [exprNoRelax] at hn; simp [eval, iha hn.1, ihb hn.2]
  | lt a b iha ihb => intro hn; simp [exprNoRelax] at hn; simp [eval, iha hn.1, ihb hn.2]
  | le a b iha ihb => intro hn; simp [exprNoRelax] at hn; simp [eval, iha hn.1, ihb hn.2]
  | gt a b iha ihb => intro hn; simp [exprNoRelax] at hn; simp [eval, iha hn.1, ihb hn.2]
  | ge a b iha ihb => intro hn; simp [exprNoRelax] at hn; simp [eval, iha hn.1, ihb hn.2]
  | add a b iha ihb => intro hn; simp [exprNoRelax] at hn; simp [eval, iha hn.1, ihb hn.2]
  | sub a b iha ihb => intro hn; simp [exprNoRelax] at hn; simp [eval, iha hn.1, ihb hn.2]
  | mul a b iha ihb => intro hn; simp [exprNoRelax] at hn; simp [eval, iha hn.1, ihb hn.2]
  | mod a b iha ihb => intro hn; simp [exprNoRelax] at hn; simp [eval, iha hn.1, ihb hn.2]
  | div a b iha ihb => intro hn; simp [exprNoRelax] at hn; simp [eval, iha hn.1, ihb hn.2]
  | call1 f a ih => intro hn; simp [exprNoRelax] at hn; simp [eval, ih hn, h.ext]
  | call2 f a b iha ihb => intro hn; simp [exprNoRelax] at hn; simp [eval, iha hn.1, ihb hn.2]
  | call3 f a b d iha ihb ihd =>
      intro hn; simp [exprNoRelax] at hn; simp [eval, iha hn.1.1, ihb hn.1.2, ihd hn.2]
  | _ => intro _; simp [eval]

theorem evalArgs_noRelax {c c' : Ctx} (h : CtxLe c c') (l : Locals) (args : List Expr)
    (hn : args.all exprNoRelax = true) : args.map (eval c l) = args.map (eval c' l) := by
  induction args with
  | nil => rfl
  | cons a as ih =>
      simp [List.all_cons] at hn
      simp only [List.map_cons]
      rw [eval_noRelax h l a hn.1, ih (by simpa using hn.2)]

theorem exec_noRelax {c c' : Ctx} (h : CtxLe c c') :
    ∀ p, progNoRelax p = true → ∀ l, exec c p l = exec c' p l := by
  intro p
  induction p with
  | skip => intro _ l; simp [exec]
  | ret e => intro hn l; simp [progNoRelax] at hn; simp [exec, eval_noRelax h l e hn]
  | ite cnd t e iht ihe =>
      intro hn l
      simp [progNoRelax] at hn
      simp [exec, eval_noRelax h l cnd hn.1.1, iht hn.1.2 l, ihe hn.2 l]
  | seq a b iha ihb =>
      intro hn l
      simp [progNoRelax] at hn
      simp only [exec, iha hn.1 l]
      split <;> simp_all
  | block p ih => intro hn l; simp [progNoRelax] at hn; simp [exec, ih hn l]
  | bind x e => intro hn l; simp [progNoRelax] at hn; simp [exec, eval_noRelax h l e hn]
  | bind2 x y e => intro hn l; simp [progNoRelax] at hn; simp [exec, eval_noRelax h l e hn]
  | assign x e => intro hn l; simp [progNoRelax] at hn; simp [exec, eval_noRelax h l e hn]
  | assign2 x y e => intro hn l; simp [progNoRelax] at hn; simp [exec, eval_noRelax h l e hn]
  | check tag body ih => intro hn l; simp [progNoRelax] at hn; simp [exec, ih hn []]
  | sub x params args body ih =>
      intro hn l
      simp [progNoRelax] at hn
      have ha := evalArgs_noRelax h l args (by simpa using hn.1)
      simp only [exec, ha]
      split
      · rfl
      · rw [ih hn.2]
  | unknown s => intro _ l; simp [exec]

/-- a block whose returns are all syntactically non-nil errors never returns nil -/
theorem rejectOnly_no_accept (c : Ctx) :
    ∀ p, rejectOnly p = true → ∀ l, (exec c p l).2 ≠ .ret (.err none) := by
  intro p
  induction p with
  | skip => intro _ l; simp [exec]
  | ret e =>
      intro hr l
      simp only [exec]
      cases e <;> simp [rejectOnly, isErrExpr] at hr
      case mkErr t => simp [eval]
      case call1 f a => simp only [eval]; rcases hr with hr | hr <;> subst hr <;> simp [builtin1]
      case call2 f a b => simp only [eval]; subst hr; simp [builtin2]
      case call3 f a b d => simp only [eval]; subst hr; simp [builtin3]
      case nonNil e => simp only [eval]; split <;> simp
      case wrapErr t e =>
        cases e <;> simp [isErrExpr] at hr
        case nonNil e =>
          simp only [eval]
          split <;> simp
          all_goals (rename_i hx; revert hx; split <;> simp)
  | ite cnd t e iht ihe =>
      intro hr l
      simp [rejectOnly] at hr
      simp only [exec]
      split
      · exact iht hr.1 l
      · exact ihe hr.2 l
      · simp
  | seq a b iha ihb =>
      intro hr l
      simp [rejectOnly] at hr
      simp only [exec]
      split
      · exact ihb hr.2 _
      · rename_i r hne
        have := iha hr.1 l
        exact this
  | block p ih => intro hr l; simp [rejectOnly] at hr; simp only [exec]; exact ih hr l
  | bind x e => intro _ l; simp only [exec]; split <;> simp
  | bind2 x y e => intro _ l; simp only [exec]; split <;> simp
  | assign x e => intro _ l; simp only [exec]; split <;> (try simp) <;> split <;> simp
  | assign2 x y e => intro _ l; simp only [exec]; split <;> (try simp) <;> split <;> simp
  | check tag body _ => intro _ l; simp only [exec]; split <;> simp
  | sub x params args body _ =>
      intro _ l
      simp only [exec]
      split
      · simp
      · split <;> simp
  | unknown s => intro hr; simp [rejectOnly] at hr

theorem scopeExit_append (pre l : Locals) : scopeExit l (pre ++ l) = l := by
  simp [scopeExit]

theorem scopeExit_self (l : Locals) : scopeExit l l = l := by
  simp [scopeExit]

/-- a block without assignments that falls through only added declarations in front -/
theorem noAssign_suffix (c : Ctx) :
    ∀ p, noAssign p = true → ∀ l l1, exec c p l = (l1, .next) → ∃ pre, l1 = pre ++ l := by
  intro p
  induction p with
  | skip => intro _ l l1 h; simp [exec] at h; exact ⟨[], by simp [h]⟩
  | ret e => intro _ l l1 h; simp [exec] at h
  | ite cnd t e iht ihe =>
      intro hn l l1 h
      simp [noAssign] at hn
      simp only [exec] at h
      split at h
      · simp only [Prod.mk.injEq] at h
        obtain ⟨pre, hp⟩ := iht hn.1 l (exec c t l).1 (by rw [← h.2])
        exact ⟨[], by rw [← h.1, hp, scopeExit_append]; simp⟩
      · simp only [Prod.mk.injEq] at h
        obtain ⟨pre, hp⟩ := ihe hn.2 l (exec c e l).1 (by rw [← h.2])
        exact ⟨[], by rw [← h.1, hp, scopeExit_append]; simp⟩
      · simp at h
  | seq a b iha ihb =>
      intro hn l l1 h
      simp [noAssign] at hn
      simp only [exec] at h
      split at h
      · rename_i l2 heq
        obtain ⟨p1, hp1⟩ := iha hn.1 l l2 heq
        obtain ⟨p2, hp2⟩ := ihb hn.2 l2 l1 h
        exact ⟨p2 ++ p1, by rw [hp2, hp1, List.append_assoc]⟩
      · rename_i r hne
        exfalso
        apply hne l1
        exact h
  | block p ih =>
      intro hn l l1 h
      simp [noAssign] at hn
      simp only [exec, Prod.mk.injEq] at h
      obtain ⟨pre, hp⟩ := ih hn l (exec c p l).1 (by rw [← h.2])
      exact ⟨[], by rw [← h.1, hp, scopeExit_append]; simp⟩
  | bind x e =>
      intro _ l l1 h
      simp only [exec] at h
      split at h
      · simp at h
      · simp only [Prod.mk.injEq] at h; exact ⟨[(x, _)], by rw [← h.1]; rfl⟩
  | bind2 x y e =>
      intro _ l l1 h
      simp only [exec] at h
      split at h
      · simp only [Prod.mk.injEq] at h; exact ⟨[(y, _), (x, _)], by rw [← h.1]; rfl⟩
      · simp at h
  | assign x e => intro hn; simp [noAssign] at hn
  | assign2 x y e => intro hn; simp [noAssign] at hn
  | check tag body _ =>
      intro _ l l1 h
      simp only [exec] at h
      split at h
      · simp only [Prod.mk.injEq] at h; exact ⟨[], by simp [h.1]⟩
      · simp at h
      · simp at h
  | sub x params args body _ =>
      intro _ l l1 h
      simp only [exec] at h
      split at h
      · simp at h
      · split at h
        · simp at h
        · simp only [Prod.mk.injEq] at h; exact ⟨[(x, _)], by rw [← h.1]; rfl⟩
        · simp at h
  | unknown s => intro _ l l1 h; simp [exec] at h

theorem eval_noVar (c : Ctx) (l l' : Locals) :
    ∀ e, exprNoVar e = true → eval c l e = eval c l' e := by
  intro e
  induction e with
  | var n => intro hn; simp [exprNoVar] at hn
  | nonNil e ih => intro hn; simp [exprNoVar] at hn; simp [eval, ih hn]
  | wrapErr t e ih => intro hn; simp [exprNoVar] at hn; simp [eval, ih hn]
  | not a ih => intro hn; simp [exprNoVar] at hn; simp [eval, ih hn]
  | and a b iha ihb => intro hn; simp [exprNoVar] at hn; simp [eval, iha hn.1, ihb hn.2]
  | or a b iha ihb => intro hn; simp [exprNoVar] at hn; simp [eval, iha hn.1, ihb hn.2]
  | eq a b iha ihb => intro hn; simp [exprNoVar] at hn; simp [eval, iha hn.1, ihb hn.2]
  | ne a b iha ihb => intro hn; simp [exprNoVar] at hn; simp [eval, iha hn.1, ihb hn.2]
  | lt a b iha ihb => intro hn; simp [exprNoVar] at hn; simp [eval, iha hn.1, ihb hn.2]
  | le a b iha ihb => intro hn; simp [exprNoVar] at hn; simp [eval, iha hn.1, ihb hn.2]
  | gt a b iha ihb => intro hn; simp [exprNoVar] at hn; simp [eval, iha hn.1, ihb hn.2]
  | ge a b iha ihb => intro hn; simp [exprNoVar] at hn; simp [eval, iha hn.1, ihb hn.2]
  | add a b iha ihb => intro hn; simp [exprNoVar] at hn; simp [eval, iha hn.1, ihb hn.2]
  | sub a b iha ihb => intro hn; simp [exprNoVar] at hn; simp [eval, iha hn.1, ihb hn.2]
  | mul a b iha ihb => intro hn; simp [exprNoVar] at hn; simp [eval, iha hn.1, ihb hn.2]
  | mod a b iha ihb => intro hn; simp [exprNoVar] at hn; simp [eval, iha hn.1, ihb hn.2]
  | div a b iha ihb => intro hn; simp [exprNoVar] at hn; simp [eval, iha hn.1, ihb hn.2]
  | call1 f a ih => intro hn; simp [exprNoVar] at hn; simp [eval, ih hn]
  | call2 f a b iha ihb => intro hn; simp [exprNoVar] at hn; simp [eval, iha hn.1, ihb hn.2]
  | call3 f a b d iha ihb ihd =>
      intro hn; simp [exprNoVar] at hn; simp [eval, iha hn.1.1, ihb hn.1.2, ihd hn.2]
  | _ => intro _; simp [eval]

/-- every guard on the spine is false in a run that returns nil or falls through -/
theorem spine_sound (c : Ctx) :
    ∀ p l, ((exec c p l).2 = .ret (.err none) ∨ (exec c p l).2 = .next) →
      ∀ e, e ∈ spine p → eval c l e = .bool false := by
  intro p
  induction p with
  | seq a b iha ihb =>
      intro l hres e he
      simp only [spine, List.mem_append] at he
      simp only [exec] at hres
      cases ha : exec c a l with
      | mk l1 s1 =>
        rw [ha] at hres
        cases s1 with
        | next =>
            simp only at hres
            rcases he with he | he
            · exact iha l (by rw [ha]; exact Or.inr rfl) e he
            · split at he
              · have hb := ihb l1 hres e he
                -- spine guards read no variable
                have hv : exprNoVar e = true := spine_noVar b e he
                rw [eval_noVar c l l1 e hv]; exact hb
              · simp at he
        | ret v =>
            simp only at hres
            rcases hres with hres | hres
            · rcases he with he | he
              · exact iha l (by rw [ha]; exact Or.inl hres) e he
              · split at he
                · rename_i hrej
                  exact absurd (by rw [ha]; exact hres) (rejectOnly_no_accept c a hrej l)
                · simp at he
            · simp at hres
        | stuck w => simp at hres
  | block p ih =>
      intro l hres e he
      simp only [spine] at he
      simp only [exec] at hres
      exact ih l hres e he
  | check tag body ih =>
      intro l hres e he
      simp only [spine] at he
      simp only [exec] at hres
      have hv : exprNoVar e = true := spine_noVar body e he
      rw [eval_noVar c l [] e hv]
      apply ih [] _ e he
      revert hres
      cases (exec c body []).2 with
      | ret v => cases v with
        | err t => cases t <;> simp
        | _ => simp
      | _ => simp
  | ite cnd t e0 _ _ =>
      intro l hres e he
      simp only [spine] at he
      split at he
      · rename_i hc
        simp only [Bool.and_eq_true] at hc
        simp only [List.mem_singleton] at he
        subst he
        have ht : ∃ x, t = .ret x ∧ isErrExpr x = true := by
          cases t <;> simp [isErrRet] at hc
          exact ⟨_, rfl, hc.1.1⟩
        obtain ⟨x, rfl, hx⟩ := ht
        have he0 : e0 = .skip := by
          have := hc.1.2
          cases e0 <;> simp [isSkip] at this
          rfl
        subst he0
        simp only [exec] at hres
        cases hcv : eval c l e with
        | bool b =>
            cases b with
            | false => rfl
            | true =>
                rw [hcv] at hres
                simp only at hres
                have := rejectOnly_no_accept c (.ret x) (by simp [rejectOnly, hx]) l
                simp only [exec] at this
                rcases hres with hres | hres
                · exact absurd hres this
                · simp at hres
        | _ => rw [hcv] at hres; simp at hres
      · simp at he
  | _ => intro l _ e he; simp [spine] at he
where
  spine_noVar : ∀ p e, e ∈ spine p → exprNoVar e = true := by
    intro p
    induction p with
    | seq a b iha ihb =>
        intro e he
        simp only [spine, List.mem_append] at he
        rcases he with he | he
        · exact iha e he
        · split at he
          · exact ihb e he
          · simp at he
    | block p ih => intro e he; exact ih e he
    | check tag body ih => intro e he; exact ih e he
    | ite cnd t e0 _ _ =>
        intro e he
        simp only [spine] at he
        split at he
        · rename_i hc
          simp only [Bool.and_eq_true] at hc
          simp only [List.mem_singleton] at he
          subst he
          exact hc.2
        · simp at he
    | _ => intro e he; simp [spine] at he

/-- "at least as accepting": an accept stays an accept; a fall-through stays the same fall-through or becomes an accept -/
def Good (r r' : Locals × Sig) : Prop :=
  (r.2 = .ret (.err none) → r'.2 = .ret (.err none)) ∧
  (r.2 = .next → (r' = r ∨ r'.2 = .ret (.err none)))

theorem Good.rfl' (r : Locals × Sig) : Good r r := ⟨fun h => h, fun _ => Or.inl rfl⟩

theorem Good.of_eq {r r' : Locals × Sig} (h : r = r') : Good r r' := by subst h; exact Good.rfl' r

theorem Good.scoped {r r' : Locals × Sig} (l : Locals) (h : Good r r') :
    Good (scopeExit l r.1, r.2) (scopeExit l r'.1, r'.2) := by
  refine ⟨fun ha => h.1 ha, fun hn => ?_⟩
  rcases h.2 hn with h1 | h1
  · left; rw [h1]
  · right; exact h1

theorem relax_mono {c c' : Ctx} (h : CtxLe c c') :
    ∀ p, relaxOK p = true → ∀ l, Good (exec c p l) (exec c' p l) := by
  intro p
  induction p with
  | skip => intro _ l; exact Good.of_eq (by simp [exec])
  | ret e => intro hr l; simp [relaxOK] at hr; exact Good.of_eq (by simp [exec, eval_noRelax h l e hr])
  | bind x e => intro hr l; simp [relaxOK] at hr; exact Good.of_eq (by simp [exec, eval_noRelax h l e hr])
  | bind2 x y e => intro hr l; simp [relaxOK] at hr; exact Good.of_eq (by simp [exec, eval_noRelax h l e hr])
  | assign x e => intro hr l; simp [relaxOK] at hr; exact Good.of_eq (by simp [exec, eval_noRelax h l e hr])
  | assign2 x y e => intro hr l; simp [relaxOK] at hr; exact Good.of_eq (by simp [exec, eval_noRelax h l e hr])
  | unknown s => intro hr; simp [relaxOK] at hr
  | sub x params args body _ =>
      intro hr l
      simp [relaxOK] at hr
      exact Good.of_eq (exec_noRelax h (.sub x params args body) (by simp [progNoRelax, hr.2]; exact hr.1) l)
  | block p ih =>
      intro hr l
      simp [relaxOK] at hr
      simp only [exec]
      exact Good.scoped l (ih hr l)
  | check tag body ih =>
      intro hr l
      simp [relaxOK] at hr
      have g := ih hr []
      simp only [exec]
      cases hb : (exec c body []).2 with
      | next => exact ⟨by simp, by simp⟩
      | stuck w => exact ⟨by simp, by simp⟩
      | ret v =>
          cases v with
          | err t =>
              cases t with
              | none =>
                  have := g.1 hb
                  simp [this]
                  exact Good.rfl' _
              | some t => exact ⟨by simp, by simp⟩
          | _ => exact ⟨by simp, by simp⟩
  | seq a b iha ihb =>
      intro hr l
      simp [relaxOK] at hr
      have ga := iha hr.1 l
      simp only [exec]
      cases ha : exec c a l with
      | mk l1 s1 =>
        cases s1 with
        | next =>
            rcases ga.2 (by simp [ha]) with h1 | h1
            · rw [h1, ha]; exact ihb hr.2 l1
            · -- under c' the first part already accepts
              cases ha' : exec c' a l with
              | mk l2 s2 =>
                rw [ha'] at h1
                simp only at h1
                subst h1
                exact ⟨fun _ => rfl, fun _ => Or.inr rfl⟩
        | ret v =>
            refine ⟨fun hv => ?_, by simp⟩
            have h1 := ga.1 (by rw [ha]; exact hv)
            cases ha' : exec c' a l with
            | mk l2 s2 =>
              rw [ha'] at h1
              simp only at h1
              subst h1
              rfl
        | stuck w => exact ⟨by simp, by simp⟩
  | ite cnd t e iht ihe =>
      intro hr l
      -- the generic case: the condition mentions no relaxation flag
      have generic : exprNoRelax cnd = true → relaxOK t = true → relaxOK e = true →
          Good (exec c (.ite cnd t e) l) (exec c' (.ite cnd t e) l) := by
        intro hc ht he
        simp only [exec, eval_noRelax h l cnd hc]
        split
        · exact Good.scoped l (iht ht l)
        · exact Good.scoped l (ihe he l)
        · exact Good.rfl' _
      cases cnd with
      | not a =>
          cases a with
          | flag src n =>
              simp only [relaxOK] at hr
              by_cases hrel : relaxFlags.contains n = true
              · simp only [hrel, if_true, Bool.and_eq_true] at hr
                obtain ⟨⟨⟨hsk, hrej⟩, hna⟩, hok⟩ := hr
                have he : e = .skip := by cases e <;> simp [isSkip] at hsk; rfl
                subst he
                simp only [exec, eval]
                cases hf : hasFlag c src n with
                | true =>
                    simp [h.more src n hf, scopeExit_self]
                    exact Good.rfl' _
                | false =>
                    cases hf' : hasFlag c' src n with
                    | false => simp; exact Good.scoped l (iht hok l)
                    | true =>
                        simp [scopeExit_self]
                        refine ⟨fun ha => absurd ha (rejectOnly_no_accept c t hrej l), fun hn => ?_⟩
                        left
                        obtain ⟨pre, hp⟩ := noAssign_suffix c t hna l (exec c t l).1 (by rw [← hn])
                        rw [hp, scopeExit_append, hn]
              · simp only [hrel] at hr
                simp at hr
                exact generic (by simp [exprNoRelax]; simpa using hrel) hr.1 hr.2
          | _ =>
              simp only [relaxOK, Bool.and_eq_true] at hr
              exact generic hr.1.1 hr.1.2 hr.2
      | flag src n =>
          simp only [relaxOK] at hr
          by_cases hrel : relaxFlags.contains n = true
          · simp only [hrel, if_true, Bool.and_eq_true] at hr
            have ht : t = .ret .nil := by
              cases t <;> simp [isRetNil] at hr
              rename_i e0; cases e0 <;> simp [isRetNil] at hr; rfl
            subst ht
            simp only [exec, eval]
            cases hf : hasFlag c src n with
            | true => simp [h.more src n hf]; exact Good.rfl' _
            | false =>
                cases hf' : hasFlag c' src n with
                | false => simp; exact Good.scoped l (ihe hr.2 l)
                | true => simp; exact ⟨by simp, by simp⟩
          · simp only [hrel] at hr
            simp at hr
            exact generic (by simp [exprNoRelax]; simpa using hrel) hr.1 hr.2
      | _ =>
          simp only [relaxOK, Bool.and_eq_true] at hr
          exact generic hr.1.1 hr.1.2 hr.2

/-- an accepted receiver stays accepted when more relaxation flags are switched on -/
theorem run_mono {c c' : Ctx} (h : CtxLe c c') (p : Prog) (hp : relaxOK p = true)
    (ha : run c p = .accept) : run c' p = .accept := by
  have g := relax_mono h p hp []
  unfold run at ha ⊢
  have : (exec c p []).2 = .ret (.err none) := by
    revert ha
    cases (exec c p []).2 with
    | ret v => cases v with
      | err t => cases t <;> simp
      | _ => simp
    | _ => simp
  simp [g.1 this]

end Ach.GoLite
