import Ach.Model.Lines
import Ach.Proofs.Field
/-!
# Layout invariance of the line splitter
-/
set_option linter.unusedSimpArgs false
namespace Ach

theorem runChars_append (w s a b) : runChars w s (a ++ b) = runChars w (runChars w s a) b := by
  simp [runChars, List.foldl_append]

/-- feeding k non-newline chars to a state whose buffer has room -/
theorem run_partial (w : Nat) (l : Str) (hl : ∀ c ∈ l, isNL c = false) :
    ∀ (pre : Str) (out), pre.length + l.length < w →
    runChars w ⟨pre, out⟩ l = ⟨pre ++ l, out⟩ := by
  induction l with
  | nil => intro pre out _; simp [runChars]
  | cons c cs ih =>
    intro pre out h
    have hc : isNL c = false := hl c (by simp)
    have : runChars w ⟨pre, out⟩ (c :: cs) = runChars w (stepChar w ⟨pre, out⟩ c) cs := by simp [runChars]
    rw [this]
    have hs : stepChar w ⟨pre, out⟩ c = ⟨pre ++ [c], out⟩ := by
      simp [stepChar, hc]; simp at h; omega
    rw [hs, ih (fun c hc' => hl c (by simp [hc'])) (pre ++ [c]) out (by simp at h ⊢; omega)]
    simp

/-- a full record of exactly w non-newline chars is flushed as one line -/
theorem run_full (w : Nat) (hw : 0 < w) (l : Str) (hlen : l.length = w) (hl : ∀ c ∈ l, isNL c = false) (out) :
    runChars w ⟨[], out⟩ l = ⟨[], out ++ [l]⟩ := by
  have hne : l ≠ [] := by intro h; simp [h] at hlen; omega
  obtain ⟨init, last, rfl⟩ : ∃ init last, l = init ++ [last] := ⟨l.dropLast, l.getLast hne, (List.dropLast_concat_getLast hne).symm⟩
  rw [runChars_append, run_partial w init (fun c hc => hl c (by simp [hc])) [] out (by simp at hlen ⊢; omega)]
  have hc : isNL last = false := hl last (by simp)
  simp [runChars, stepChar, hc]
  simp at hlen; omega

/-- newline characters in the empty-buffer state are skipped -/
theorem run_sep_empty (w : Nat) (sep : Str) (hs : ∀ c ∈ sep, isNL c = true) (out) :
    runChars w ⟨[], out⟩ sep = ⟨[], out⟩ := by
  induction sep with
  | nil => simp [runChars]
  | cons c cs ih =>
    have : runChars w ⟨[], out⟩ (c :: cs) = runChars w (stepChar w ⟨[], out⟩ c) cs := by simp [runChars]
    rw [this]
    have : stepChar w ⟨[], out⟩ c = ⟨[], out⟩ := by simp [stepChar, hs c (by simp)]
    rw [this]; exact ih (fun c hc => hs c (by simp [hc]))

/-- a short record (fewer than w chars, no newline) followed by at least one newline is flushed as is -/
theorem run_short (w : Nat) (l : Str) (hne : l ≠ []) (hlen : l.length < w) (hl : ∀ c ∈ l, isNL c = false)
    (sep : Str) (hsne : sep ≠ []) (hs : ∀ c ∈ sep, isNL c = true) (out) :
    runChars w ⟨[], out⟩ (l ++ sep) = ⟨[], out ++ [l]⟩ := by
  rw [runChars_append, run_partial w l hl [] out (by simpa using hlen)]
  cases sep with
  | nil => exact absurd rfl hsne
  | cons c cs =>
    have : runChars w ⟨[] ++ l, out⟩ (c :: cs) = runChars w (stepChar w ⟨l, out⟩ c) cs := by simp [runChars]
    rw [this]
    have hpos : l.length > 0 := by cases l with | nil => exact absurd rfl hne | cons _ _ => simp
    have : stepChar w ⟨l, out⟩ c = ⟨[], out ++ [l]⟩ := by simp [stepChar, hs c (by simp), hpos]
    rw [this]
    exact run_sep_empty w cs (fun c hc => hs c (by simp [hc])) _

/-- **split_join**: any list of full-width records joined with *any* newline-only separators
(LF, CRLF, CR, several, or none at all) splits back into exactly those records. -/
theorem split_join (w : Nat) (hw : 0 < w) (recs : List Str) (seps : List Str)
    (hlen : ∀ r ∈ recs, r.length = w) (hnl : ∀ r ∈ recs, ∀ c ∈ r, isNL c = false)
    (hseps : ∀ s ∈ seps, ∀ c ∈ s, isNL c = true) (hcount : seps.length = recs.length) :
    ∀ out, runChars w ⟨[], out⟩ (List.flatten (List.zipWith (· ++ ·) recs seps)) = ⟨[], out ++ recs⟩ := by
  induction recs generalizing seps with
  | nil => intro out; simp [runChars]
  | cons r rs ih =>
    intro out
    match seps, hcount with
    | s :: ss, hcount =>
      simp only [List.zipWith_cons_cons, List.flatten_cons]
      rw [runChars_append, runChars_append, run_full w hw r (hlen r (by simp)) (hnl r (by simp)),
          run_sep_empty w s (hseps s (by simp))]
      rw [ih ss (fun r hr => hlen r (by simp [hr])) (fun r hr => hnl r (by simp [hr]))
            (fun s hs => hseps s (by simp [hs])) (by simpa using hcount)]
      simp

/-- the eight-layouts core: LF, CRLF, CR, blank lines interleaved (several separators), or one
unbroken stream (empty separators) all give the same flushed lines -/
theorem splitLines_join (recs : List Str) (seps : List Str)
    (hlen : ∀ r ∈ recs, r.length = 94) (hnl : ∀ r ∈ recs, ∀ c ∈ r, isNL c = false)
    (hseps : ∀ s ∈ seps, ∀ c ∈ s, isNL c = true) (hcount : seps.length = recs.length) :
    splitLines 94 (List.flatten (List.zipWith (· ++ ·) recs seps)) = recs := by
  unfold splitLines
  rw [split_join 94 (by decide) recs seps hlen hnl hseps hcount []]
  simp [finish]

/-- trailing blanks trimmed: short lines (with non-empty separators) are flushed as the trimmed lines -/
theorem split_join_short (w : Nat) (hw : 0 < w) (recs : List Str) (seps : List Str)
    (hne : ∀ r ∈ recs, r ≠ []) (hlen : ∀ r ∈ recs, r.length ≤ w) (hnl : ∀ r ∈ recs, ∀ c ∈ r, isNL c = false)
    (hsne : ∀ s ∈ seps, s ≠ []) (hseps : ∀ s ∈ seps, ∀ c ∈ s, isNL c = true) (hcount : seps.length = recs.length) :
    ∀ out, runChars w ⟨[], out⟩ (List.flatten (List.zipWith (· ++ ·) recs seps)) = ⟨[], out ++ recs⟩ := by
  induction recs generalizing seps with
  | nil => intro out; simp [runChars]
  | cons r rs ih =>
    intro out
    match seps, hcount with
    | s :: ss, hcount =>
      simp only [List.zipWith_cons_cons, List.flatten_cons]
      rw [runChars_append]
      have hstep : runChars w ⟨[], out⟩ (r ++ s) = ⟨[], out ++ [r]⟩ := by
        by_cases hfull : r.length = w
        · rw [runChars_append, run_full w hw r hfull (hnl r (by simp)), run_sep_empty w s (hseps s (by simp))]
        · exact run_short w r (hne r (by simp)) (by have := hlen r (by simp); omega) (hnl r (by simp)) s (hsne s (by simp)) (hseps s (by simp)) out
      rw [hstep, ih ss (fun r hr => hne r (by simp [hr])) (fun r hr => hlen r (by simp [hr])) (fun r hr => hnl r (by simp [hr]))
            (fun s hs => hsne s (by simp [hs])) (fun s hs => hseps s (by simp [hs])) (by simpa using hcount)]
      simp

/-- padding a right-trimmed ASCII record back to 94 columns restores it (rune- or byte-measured) -/
theorem rightPad_trimRight_spaces (unit : String) (r : Str) (hlen : r.length = 94)
    (hascii : unit = "rune" ∨ byteLen (trimRightSpaces r) = (trimRightSpaces r).length) :
    rightPad unit (trimRightSpaces r) = some r := by
  have hdecomp : ∃ k, r = trimRightSpaces r ++ spaces k := trimRightSpaces_decomp r
  obtain ⟨k, hk⟩ := hdecomp
  have hl : (trimRightSpaces r).length + k = 94 := by
    have := congrArg List.length hk; simp [spaces] at this; omega
  unfold rightPad
  have hn : (if unit = "rune" then (trimRightSpaces r).length else byteLen (trimRightSpaces r)) = (trimRightSpaces r).length := by
    rcases hascii with h | h
    · simp [h]
    · split <;> simp [h]
  rw [hn]
  have : ¬ (trimRightSpaces r).length > 94 := by omega
  simp only [this, if_false]
  have : 94 - (trimRightSpaces r).length = k := by omega
  rw [this, ← hk]

end Ach

namespace Ach

/-- the splitter never hands out a line longer than the record width, and never an empty one -/
theorem stepChar_inv (w : Nat) (hw : 0 < w) (s : SplitSt) (c : Char)
    (h : s.cur.length < w ∧ ∀ l ∈ s.out, 0 < l.length ∧ l.length ≤ w) :
    (stepChar w s c).cur.length < w ∧ ∀ l ∈ (stepChar w s c).out, 0 < l.length ∧ l.length ≤ w := by
  unfold stepChar
  by_cases hn : isNL c = true
  · simp only [hn, if_true]
    by_cases hp : s.cur.length > 0
    · simp only [hp, if_true]
      refine ⟨by simpa using hw, ?_⟩
      intro l hl
      rcases List.mem_append.1 hl with hl | hl
      · exact h.2 l hl
      · simp at hl; subst hl; exact ⟨hp, by omega⟩
    · simp only [hp, if_false]; exact h
  · simp only [hn, if_false, Bool.false_eq_true]
    by_cases hlt : (s.cur ++ [c]).length < w
    · rw [if_pos hlt]; exact ⟨hlt, h.2⟩
    · rw [if_neg hlt]
      refine ⟨by simpa using hw, ?_⟩
      intro l hl
      rcases List.mem_append.1 hl with hl | hl
      · exact h.2 l hl
      · simp at hl; subst hl
        simp at hlt ⊢; omega

theorem runChars_inv (w : Nat) (hw : 0 < w) : ∀ (cs : Str) (s : SplitSt),
    (s.cur.length < w ∧ ∀ l ∈ s.out, 0 < l.length ∧ l.length ≤ w) →
    (runChars w s cs).cur.length < w ∧ ∀ l ∈ (runChars w s cs).out, 0 < l.length ∧ l.length ≤ w
  | [], _, h => h
  | c :: cs, s, h => by
    have : runChars w s (c :: cs) = runChars w (stepChar w s c) cs := by simp [runChars]
    rw [this]
    exact runChars_inv w hw cs _ (stepChar_inv w hw s c h)

/-- **lines_at_most_94**: for every input text, every line the Reader's loop flushes has between 1 and 94 runes —
so `readLine`'s long-line branch (and `processFixedWidthFile`) is unreachable and padding never overflows -/
theorem splitLines_width (cs : Str) : ∀ l ∈ splitLines 94 cs, 0 < l.length ∧ l.length ≤ 94 := by
  unfold splitLines finish
  have h := runChars_inv 94 (by decide) cs ⟨[], []⟩ ⟨by decide, by simp⟩
  split
  · rename_i hp
    intro l hl
    rcases List.mem_append.1 hl with hl | hl
    · exact h.2 l hl
    · simp at hl; subst hl; exact ⟨hp, by omega⟩
  · exact h.2

/-- padding a flushed line (rune-measured) always succeeds and gives exactly 94 columns -/
theorem rightPad_rune_ok (l : Str) (h : l.length ≤ 94) : ∃ p, rightPad "rune" l = some p ∧ p.length = 94 := by
  unfold rightPad
  have : ¬ l.length > 94 := by omega
  simp only [if_true, this, if_false]
  exact ⟨_, rfl, by simp [spaces]; omega⟩

end Ach
