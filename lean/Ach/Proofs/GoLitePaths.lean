import Ach.Proofs.GoLite
/-!
# Accepting runs pass every statement that can only reject

A validator is a sequence of statements.  Statements that can only reject (`rejectOnly`) and do not assign to declared
variables (`noAssign`) — guards, calls used as `if err := f(); err != nil { return err }`, declarations — are *passed*
by an accepting run: `accept_drop` peels them off the front, leaving an accepting run of the rest from locals that only
grew.  With it a statement deep inside a function (the check-digit comparison of `EntryDetail.Validate`, the
header / control comparisons of `Batch.verify`) is reached without unfolding the statements before it.
-/
namespace Ach.GoLite

/-- the statements of a function body (the right-nested `seq` chain flattened) -/
def stmts : Prog → List Prog
  | .seq a b => a :: stmts b
  | p => [p]

theorem stmts_ne_nil (p : Prog) : stmts p ≠ [] := by
  cases p <;> simp [stmts]

theorem seqs_cons_ne (p : Prog) (ps : List Prog) (h : ps ≠ []) : seqs (p :: ps) = .seq p (seqs ps) := by
  cases ps with
  | nil => exact absurd rfl h
  | cons q qs => rfl

theorem seqs_stmts (p : Prog) : seqs (stmts p) = p := by
  induction p with
  | seq a b _ ihb => rw [stmts, seqs_cons_ne _ _ (stmts_ne_nil b), ihb]
  | _ => rfl

/-- an accepting run of `a; b` where `a` can only reject: `a` fell through with more declarations at most, and `b`
accepted from there -/
theorem accept_seq {a b : Prog} {c : Ctx} {l : Locals} (ha : rejectOnly a = true) (hn : noAssign a = true)
    (h : (exec (.seq a b) c l).2 = .ret (.err none)) :
    ∃ pre, (exec b c (pre ++ l)).2 = .ret (.err none) := by
  simp only [exec] at h
  cases hx : exec a c l with
  | mk l1 s1 =>
    rw [hx] at h
    have hne := rejectOnly_no_accept a ha c l
    rw [hx] at hne
    cases s1 with
    | next =>
        have hp : passing (exec a c l).2 := by rw [hx]; exact Or.inl rfl
        obtain ⟨_, pre, hpre⟩ := noAssign_suffix a hn c l hp
        rw [hx] at hpre
        simp only at hpre h
        exact ⟨pre, by rw [← hpre]; exact h⟩
    | ret v => simp only at h; exact absurd h hne
    | brk => simp at h
    | cont => simp at h
    | stuck _ => simp at h

/-- the same for a whole prefix of such statements -/
theorem accept_drop (c : Ctx) :
    ∀ (ps : List Prog) (rest : Prog) (l : Locals), (∀ p ∈ ps, rejectOnly p = true ∧ noAssign p = true) →
      (exec (seqs (ps ++ [rest])) c l).2 = .ret (.err none) →
      ∃ pre, (exec rest c (pre ++ l)).2 = .ret (.err none) := by
  intro ps
  induction ps with
  | nil => intro rest l _ h; exact ⟨[], by simpa [seqs] using h⟩
  | cons a ps ih =>
      intro rest l hall h
      rw [List.cons_append, seqs_cons_ne _ _ (by simp)] at h
      have ha := hall a (List.mem_cons_self ..)
      obtain ⟨pre1, h1⟩ := accept_seq ha.1 ha.2 h
      obtain ⟨pre2, h2⟩ := ih rest (pre1 ++ l) (fun p hp => hall p (List.mem_cons_of_mem _ hp)) h1
      exact ⟨pre2 ++ pre1, by rw [List.append_assoc]; exact h2⟩

theorem seqs_append_tail (ps tail : List Prog) (ht : tail ≠ []) : seqs (ps ++ tail) = seqs (ps ++ [seqs tail]) := by
  induction ps with
  | nil => simp [seqs]
  | cons a ps ih =>
      rw [List.cons_append, List.cons_append, seqs_cons_ne _ _ (by simp [ht]), seqs_cons_ne _ _ (by simp), ih]

/-- an accepting run of a function whose statements are `ps ++ tail`, every statement of `ps` one that can only reject:
the tail accepts, from locals that hold declarations of `ps` at most -/
theorem accept_reaches (c : Ctx) (p : Prog) (ps tail : List Prog) (hs : stmts p = ps ++ tail) (ht : tail ≠ [])
    (hall : ps.all (fun q => rejectOnly q && noAssign q) = true)
    (h : (exec p c []).2 = .ret (.err none)) :
    ∃ pre, (exec (seqs tail) c pre).2 = .ret (.err none) := by
  rw [← seqs_stmts p, hs, seqs_append_tail ps tail ht] at h
  have hall' : ∀ q ∈ ps, rejectOnly q = true ∧ noAssign q = true := by
    intro q hq
    have := List.all_eq_true.mp hall q hq
    simpa using this
  obtain ⟨pre, hp⟩ := accept_drop c ps (seqs tail) [] hall' h
  exact ⟨pre, by simpa using hp⟩

end Ach.GoLite
