import Ach.Model.Writer
/-! Blocking, grammar round trip and physical counts of the Writer model. -/
set_option linter.unusedSimpArgs false
namespace Ach.Writer

theorem padCount_spec (n : Nat) : (n + padCount n) % 10 = 0 ∧ padCount n < 10 := by
  unfold padCount; split <;> omega

/-- **written_blocking**: the number of records written is a multiple of ten -/
theorem write_length_mod (f : WFile) : (write f).length % 10 = 0 := by
  simp only [write, List.length_append, List.length_replicate]
  exact (padCount_spec _).1

/-- and nothing but all-9 filler follows the file control (the last record of `emit`) -/
theorem write_tail_filler (f : WFile) : ∃ body, emit f = body ++ [.fileControl] ∧
    write f = body ++ [.fileControl] ++ List.replicate (padCount (emit f).length) .filler := by
  refine ⟨.fileHeader :: f.batches.flatMap emitBatch, by simp [emit], by simp [write, emit]⟩

theorem takeAddenda_replicate (n : Nat) (rest : List Kind) (h : rest.head? ≠ some .addenda) :
    takeAddenda (List.replicate n .addenda ++ rest) = (n, rest) := by
  induction n with
  | zero =>
    simp only [List.replicate_zero, List.nil_append]
    cases rest with
    | nil => rfl
    | cons k ks =>
      cases k <;> first | rfl | (simp at h)
  | succ n ih => simp [List.replicate_succ, takeAddenda, ih]

theorem emitEntry_length (e : WEntry) : (emitEntry e).length = 1 + e.addenda := by simp [emitEntry]; omega

theorem takeEntries_emit : ∀ (es : List WEntry) (rest : List Kind) (fuel : Nat),
    (es.flatMap emitEntry).length + 1 ≤ fuel →
    takeEntries fuel (es.flatMap emitEntry ++ .batchControl :: rest) = some (es, rest)
  | [], rest, fuel, h => by
    cases fuel with
    | zero => omega
    | succ n => simp [takeEntries]
  | e :: es, rest, fuel, h => by
    cases fuel with
    | zero => omega
    | succ n =>
      simp only [List.flatMap_cons, emitEntry, List.cons_append, List.append_assoc, takeEntries]
      have hhead : (es.flatMap emitEntry ++ .batchControl :: rest).head? ≠ some .addenda := by
        cases es with
        | nil => simp
        | cons e' es' => simp [emitEntry]
      rw [takeAddenda_replicate _ _ hhead]
      simp only
      have hlen : (es.flatMap emitEntry).length + 1 ≤ n := by
        simp only [List.flatMap_cons, List.length_append, emitEntry_length] at h
        omega
      rw [takeEntries_emit es rest n hlen]

theorem emitBatch_length (b : WBatch) : (emitBatch b).length = 2 + (b.entries.flatMap emitEntry).length := by
  simp [emitBatch]; omega

theorem takeBatches_emit : ∀ (bs : List WBatch) (rest : List Kind) (fuel : Nat),
    (bs.flatMap emitBatch).length + 1 ≤ fuel →
    takeBatches fuel (bs.flatMap emitBatch ++ .fileControl :: rest) = some (bs, rest)
  | [], rest, fuel, h => by
    cases fuel with
    | zero => omega
    | succ n => simp [takeBatches]
  | b :: bs, rest, fuel, h => by
    cases fuel with
    | zero => omega
    | succ n =>
      have hl : (List.flatMap emitBatch (b :: bs)).length = 2 + (b.entries.flatMap emitEntry).length + (bs.flatMap emitBatch).length := by
        simp [List.flatMap_cons, emitBatch_length]
      rw [hl] at h
      simp only [List.flatMap_cons, emitBatch, List.cons_append, List.append_assoc, takeBatches]
      rw [takeEntries_emit b.entries _ n (by omega)]
      simp only [List.nil_append]
      rw [takeBatches_emit bs rest n (by omega)]

/-- **grammar_roundtrip**: the sequence of record kinds the Writer emits (padding included) is in the grammar
`FH (BH (ED AD*)* BC)* FC 9*`, and parsing it gives back exactly the file's tree -/
theorem parse_write (f : WFile) : parse (write f) = some f := by
  simp only [write, emit, List.cons_append, List.append_assoc, parse]
  rw [takeBatches_emit f.batches _ _ (by simp)]
  simp

/-- **create_counts_physical**: the record total `File.Create` computes from the batch controls is the number of records
`Write` emits before padding, so the block count it stores is the number of 10-record blocks physically written -/
theorem createTotalRecords_eq (f : WFile) : createTotalRecords f = (emit f).length := by
  have he : ∀ es : List WEntry, (es.flatMap emitEntry).length = (es.map (fun e => 1 + e.addenda)).sum := by
    intro es
    induction es with
    | nil => rfl
    | cons e es ih => simp only [List.flatMap_cons, List.length_append, emitEntry_length, ih, List.map_cons, List.sum_cons]
  have hb : ∀ b : WBatch, (emitBatch b).length = 2 + batchEntryAddendaCount b := by
    intro b
    rw [emitBatch_length, he]; rfl
  have : ∀ bs : List WBatch, (bs.flatMap emitBatch).length = (bs.map (fun b => 2 + batchEntryAddendaCount b)).sum := by
    intro bs
    induction bs with
    | nil => rfl
    | cons b bs ih => simp [List.flatMap_cons, hb, ih]
  simp [createTotalRecords, emit, this]
  omega

theorem createBlockCount_physical (f : WFile) : createBlockCount f * 10 = (write f).length := by
  have h := createTotalRecords_eq f
  simp only [write, List.length_append, List.length_replicate, createBlockCount, padCount, h]
  by_cases hm : (emit f).length % 10 = 0
  · simp [hm]; omega
  · simp [hm]; omega

end Ach.Writer
