import Ach.Model.Merge
/-!
# Merging conserves entries (C08) — and `convertToFiles` distributes them without loss (C08/C09)
-/
set_option linter.unusedSimpArgs false
namespace Ach.Merge

theorem insertSorted_perm (e : Entry) (es : List Entry) (h : contains e.trace es = false) :
    (insertSorted e es).Perm (e :: es) := by
  induction es with
  | nil => simp [insertSorted]
  | cons x xs ih =>
    simp [contains] at h
    unfold insertSorted
    split
    · exact List.Perm.refl _
    · split
      · rename_i heq; exact absurd heq.symm h.1
      · have := ih (by simp [contains]; exact h.2)
        exact (List.Perm.cons x this).trans (List.Perm.swap e x xs)

def batchTriples (r : Route) (bs : List OutBatch) : List (Route × HKey × Entry) :=
  bs.flatMap (fun b => b.entries.map (fun e => (r, b.key, e)))

theorem place_perm (r : Route) (k : HKey) (e : Entry) (bs : List OutBatch) :
    (batchTriples r (place k e bs)).Perm ((r, k, e) :: batchTriples r bs) := by
  induction bs with
  | nil => simp [place, batchTriples]
  | cons b bs ih =>
    unfold place
    split
    · rename_i hc
      simp at hc
      obtain ⟨hh, hnc⟩ := hc
      simp only [batchTriples, List.flatMap_cons]
      have := insertSorted_perm e b.entries (by simpa using hnc)
      have h2 := (this.map (fun e => (r, b.key, e)))
      simp only [List.map_cons] at h2
      rw [hh] at h2 ⊢
      exact (List.Perm.append_right _ h2)
    · simp only [batchTriples, List.flatMap_cons] at ih ⊢
      refine (List.Perm.append_left _ ih).trans ?_
      exact List.perm_middle

theorem placeAll_perm (r : Route) (k : HKey) : ∀ (es : List Entry) (bs : List OutBatch),
    (batchTriples r (placeAll k es bs)).Perm (es.map (fun e => (r, k, e)) ++ batchTriples r bs)
  | [], bs => by simp [placeAll]
  | e :: es, bs => by
    have ih := placeAll_perm r k es (place k e bs)
    simp only [placeAll, List.foldl_cons] at ih ⊢
    refine ih.trans ?_
    have hp := place_perm r k e bs
    refine (List.Perm.append_left _ hp).trans ?_
    simp only [List.map_cons]
    exact (List.perm_middle (a := (r, k, e)) (l₁ := es.map (fun e => (r, k, e))) (l₂ := batchTriples r bs))

def inBatchTriples (r : Route) (ibs : List InBatch) : List (Route × HKey × Entry) :=
  ibs.flatMap (fun b => b.entries.map (fun e => (r, b.key, e)))

theorem addBatches_perm (r : Route) : ∀ (ibs : List InBatch) (bs : List OutBatch),
    (batchTriples r (addBatches ibs bs)).Perm (inBatchTriples r ibs ++ batchTriples r bs)
  | [], bs => by simp [addBatches, inBatchTriples]
  | ib :: ibs, bs => by
    have ih := addBatches_perm r ibs (placeAll ib.key ib.entries bs)
    simp only [addBatches, List.foldl_cons] at ih ⊢
    refine ih.trans ?_
    have hp := placeAll_perm r ib.key ib.entries bs
    refine (List.Perm.append_left _ hp).trans ?_
    simp only [inBatchTriples, List.flatMap_cons]
    -- X ++ (A ++ B) ~ (A ++ X) ++ B
    rw [← List.append_assoc]
    exact List.Perm.append_right _ List.perm_append_comm

theorem triplesOut_cons (o : OutFile) (os : List OutFile) :
    triplesOut (o :: os) = batchTriples o.route o.batches ++ triplesOut os := by
  simp [triplesOut, batchTriples]

theorem addFile_perm (f : InFile) : ∀ (st : List OutFile),
    (triplesOut (addFile f st)).Perm (inBatchTriples f.route f.batches ++ triplesOut st)
  | [] => by
    simp only [addFile, triplesOut_cons]
    have := addBatches_perm f.route f.batches []
    simp only [batchTriples, List.flatMap_nil, List.append_nil] at this ⊢
    simpa [triplesOut] using this
  | o :: os => by
    unfold addFile
    split
    · rename_i hr
      rw [triplesOut_cons, triplesOut_cons]
      have := addBatches_perm o.route f.batches o.batches
      simp only at this ⊢
      rw [← hr, ← List.append_assoc]
      exact List.Perm.append_right _ this
    · rw [triplesOut_cons, triplesOut_cons]
      have ih := addFile_perm f os
      refine (List.Perm.append_left _ ih).trans ?_
      rw [← List.append_assoc, ← List.append_assoc]
      exact List.Perm.append_right _ List.perm_append_comm

theorem triplesIn_cons (f : InFile) (fs : List InFile) :
    triplesIn (f :: fs) = inBatchTriples f.route f.batches ++ triplesIn fs := by
  simp [triplesIn, inBatchTriples]

/-- **add_conserves / merge_conserves**: after adding any list of files to any accumulated state, the multiset of
(route, header key, entry) triples is exactly the old one plus the inputs' — nothing lost, duplicated or invented -/
theorem addFiles_perm : ∀ (fs : List InFile) (st : List OutFile),
    (triplesOut (addFiles fs st)).Perm (triplesIn fs ++ triplesOut st)
  | [], st => by simp [addFiles, triplesIn]
  | f :: fs, st => by
    have ih := addFiles_perm fs (addFile f st)
    simp only [addFiles, List.foldl_cons] at ih ⊢
    refine ih.trans ?_
    refine (List.Perm.append_left _ (addFile_perm f st)).trans ?_
    rw [triplesIn_cons, ← List.append_assoc]
    exact List.Perm.append_right _ List.perm_append_comm

theorem triplesIn_perm {fs fs' : List InFile} (h : fs.Perm fs') : (triplesIn fs).Perm (triplesIn fs') := by
  unfold triplesIn
  exact List.Perm.flatMap_right _ h

/-! ## routes stay separate -/

def routesDistinct (st : List OutFile) : Prop := (st.map (·.route)).Nodup

theorem addFile_routes (f : InFile) : ∀ (st : List OutFile),
    (addFile f st).map (·.route) = if f.route ∈ st.map (·.route) then st.map (·.route) else st.map (·.route) ++ [f.route]
  | [] => by simp [addFile]
  | o :: os => by
    unfold addFile
    by_cases hr : o.route = f.route
    · simp [hr]
    · have ih := addFile_routes f os
      simp only [hr, if_false, List.map_cons, ih, List.mem_cons]
      have hne : ¬ f.route = o.route := fun h => hr h.symm
      by_cases hc : f.route ∈ os.map (·.route)
      · simp [hc]
      · simp [hc, hne]

theorem addFile_distinct (f : InFile) (st : List OutFile) (h : routesDistinct st) : routesDistinct (addFile f st) := by
  unfold routesDistinct at *
  rw [addFile_routes]
  split
  · exact h
  · rename_i hc
    rw [List.nodup_append]
    refine ⟨h, by simp, ?_⟩
    intro a ha b hb
    simp at hb; subst hb
    intro heq; subst heq
    exact hc ha

theorem addFiles_distinct : ∀ (fs : List InFile) (st : List OutFile), routesDistinct st → routesDistinct (addFiles fs st)
  | [], st, h => by simpa [addFiles] using h
  | f :: fs, st, h => by
    have := addFiles_distinct fs (addFile f st) (addFile_distinct f st h)
    simpa [addFiles] using this

end Ach.Merge

namespace Ach.Merge

/-! ## `convertToFiles`: every entry goes to exactly one output batch, order preserved -/

def csEntries (s : CState) : List Entry := s.out.flatMap wfileEntries ++ wfileEntries s.file ++ s.batch

theorem wfileEntries_append (a b : WFile) : wfileEntries (a ++ b) = wfileEntries a ++ wfileEntries b := by
  simp [wfileEntries]

theorem closeBatch_entries (k : HKey) (s : CState) : csEntries (closeBatch k s) = csEntries s := by
  unfold closeBatch
  split
  · rfl
  · simp [csEntries, wfileEntries_append, wfileEntries]

theorem closeBatch_batch (k : HKey) (s : CState) : (closeBatch k s).batch = [] := by
  unfold closeBatch
  split
  · rename_i h; simpa using h
  · rfl

theorem closeFile_entries (s : CState) : csEntries (closeFile s) = csEntries s := by
  unfold closeFile
  split
  · rfl
  · simp [csEntries, wfileEntries]

theorem closeFile_batch (s : CState) : (closeFile s).batch = s.batch := by
  unfold closeFile; split <;> rfl

theorem stepEntry_entries (c : Cond) (k : HKey) (s : CState) (e : Entry) :
    csEntries (stepEntry c k s e) = csEntries s ++ [e] := by
  unfold stepEntry
  simp only
  split
  · have h1 := closeFile_entries (closeBatch k s)
    rw [closeBatch_entries] at h1
    simp only [csEntries] at h1 ⊢
    simp only [List.append_assoc] at h1 ⊢
    rw [← List.append_assoc, ← List.append_assoc, ← List.append_assoc]
    rw [List.append_assoc (List.flatMap wfileEntries (closeFile (closeBatch k s)).out)] 
    simp only [List.append_assoc]
    rw [← List.append_assoc (wfileEntries (closeFile (closeBatch k s)).file), ← List.append_assoc (List.flatMap _ _)]
    rw [h1]
    simp [List.append_assoc]
  · simp [csEntries, List.append_assoc]

theorem foldl_stepEntry_entries (c : Cond) (k : HKey) : ∀ (es : List Entry) (s : CState),
    csEntries (es.foldl (stepEntry c k) s) = csEntries s ++ es
  | [], s => by simp
  | e :: es, s => by
    rw [List.foldl_cons, foldl_stepEntry_entries c k es, stepEntry_entries]; simp

theorem stepBatch_entries (c : Cond) (s : CState) (b : OutBatch) :
    csEntries (stepBatch c s b) = csEntries s ++ b.entries := by
  unfold stepBatch
  rw [closeBatch_entries, foldl_stepEntry_entries]
  rfl

theorem stepBatch_batch (c : Cond) (s : CState) (b : OutBatch) : (stepBatch c s b).batch = [] := closeBatch_batch _ _

theorem foldl_stepBatch_entries (c : Cond) : ∀ (bs : List OutBatch) (s : CState),
    csEntries (bs.foldl (stepBatch c) s) = csEntries s ++ bs.flatMap (·.entries) ∧
    (s.batch = [] → (bs.foldl (stepBatch c) s).batch = [])
  | [], s => by simp
  | b :: bs, s => by
    obtain ⟨h1, h2⟩ := foldl_stepBatch_entries c bs (stepBatch c s b)
    rw [List.foldl_cons]
    refine ⟨?_, fun _ => h2 (stepBatch_batch c s b)⟩
    rw [h1, stepBatch_entries]; simp

/-- **convert_conserves**: the files written for one route hold exactly that route's entries, in the same order
(batches in order, each batch's entries in trace order) — every entry ends up in exactly one output batch -/
theorem convertOne_entries (c : Cond) (o : OutFile) :
    (convertOne c o).flatMap wfileEntries = o.batches.flatMap (·.entries) := by
  unfold convertOne
  obtain ⟨h1, h2⟩ := foldl_stepBatch_entries c o.batches ⟨[], [], [], 2, 0⟩
  have hb := h2 rfl
  have h3 := closeFile_entries (o.batches.foldl (stepBatch c) ⟨[], [], [], 2, 0⟩)
  rw [h1] at h3
  -- after the final closeFile nothing is pending
  have hfile : (closeFile (o.batches.foldl (stepBatch c) ⟨[], [], [], 2, 0⟩)).file = [] := by
    unfold closeFile; split
    · rename_i h; simpa using h
    · rfl
  have hbatch : (closeFile (o.batches.foldl (stepBatch c) ⟨[], [], [], 2, 0⟩)).batch = [] := by
    rw [closeFile_batch]; exact hb
  simp only [csEntries, hfile, hbatch, wfileEntries, List.flatMap_nil, List.append_nil, List.nil_append] at h3
  simpa [wfileEntries] using h3

end Ach.Merge

namespace Ach.Merge

/-! ## the line limit -/

def sumLines (es : List Entry) : Nat := (es.map (·.lines)).sum

/-- lines the current file would have if it were closed now -/
def real (s : CState) : Nat :=
  2 + (s.file.map (fun b => 2 + sumLines b.2)).sum + (if s.batch.isEmpty then 0 else 2 + sumLines s.batch)

def nEntries (s : CState) : Nat := (wfileEntries s.file).length + s.batch.length

/-- a written file respects the line limit, or holds a single entry (that alone exceeds it) -/
def Good (c : Cond) (f : WFile) : Prop :=
  c.maxLines = 0 ∨ wfileLines f ≤ c.maxLines ∨ (wfileEntries f).length = 1

theorem wfileLines_eq (f : WFile) : wfileLines f = 2 + (f.map (fun b => 2 + sumLines b.2)).sum := rfl

structure Inner (c : Cond) (s : CState) : Prop where
  out : ∀ f ∈ s.out, Good c f
  cnt : real s + (if s.batch.isEmpty then 2 else 0) ≤ s.lines
  cur : c.maxLines = 0 ∨ real s ≤ c.maxLines ∨ nEntries s = 1

structure Outer (c : Cond) (s : CState) : Prop where
  out : ∀ f ∈ s.out, Good c f
  cnt : real s ≤ s.lines
  cur : c.maxLines = 0 ∨ real s ≤ c.maxLines ∨ nEntries s = 1
  nob : s.batch = []

theorem sumLines_append (a b : List Entry) : sumLines (a ++ b) = sumLines a + sumLines b := by
  simp [sumLines]

theorem closeBatch_real (k : HKey) (s : CState) : real (closeBatch k s) = real s ∧ nEntries (closeBatch k s) = nEntries s ∧
    (closeBatch k s).out = s.out ∧ (closeBatch k s).lines = s.lines := by
  unfold closeBatch
  by_cases h : s.batch.isEmpty = true
  · simp [h]
  · simp only [h, if_false, Bool.false_eq_true]
    refine ⟨?_, ?_, by simp, by simp⟩
    · simp [real, h, List.sum_append]; omega
    · simp [nEntries, wfileEntries_append, wfileEntries]
      try omega

/-- closing the current file files a `Good` one -/
theorem closeFile_good (c : Cond) (s : CState) (hb : s.batch = []) (ho : ∀ f ∈ s.out, Good c f)
    (hc : c.maxLines = 0 ∨ real s ≤ c.maxLines ∨ nEntries s = 1) :
    ∀ f ∈ (closeFile s).out, Good c f := by
  unfold closeFile
  by_cases h : s.file.isEmpty = true
  · simpa [h] using ho
  · simp only [h, if_false, Bool.false_eq_true]
    intro f hf
    rcases List.mem_append.1 hf with hf | hf
    · exact ho f hf
    · simp at hf; subst hf
      rcases hc with h0 | h1 | h2
      · exact Or.inl h0
      · right; left
        simpa [real, hb, wfileLines_eq] using h1
      · right; right
        simpa [nEntries, hb] using h2

theorem stepEntry_inner (c : Cond) (k : HKey) (s : CState) (e : Entry) (h : Inner c s) : Inner c (stepEntry c k s e) := by
  unfold stepEntry
  simp only
  by_cases hov : ((decide (c.maxLines > 0) && decide (s.lines + e.lines > c.maxLines)) ||
      (decide (c.maxDollars > 0) && decide (s.dollars + e.amount > c.maxDollars))) = true
  · simp only [hov, if_true]
    obtain ⟨r1, r2, r3, r4⟩ := closeBatch_real k s
    have hgood := closeFile_good c (closeBatch k s) (closeBatch_batch k s) (by rw [r3]; exact h.out) (by rw [r1, r2]; exact h.cur)
    have hfile : (closeFile (closeBatch k s)).file = [] := by
      unfold closeFile; split
      · rename_i hh; simpa using hh
      · rfl
    have hbatch : (closeFile (closeBatch k s)).batch = [] := by rw [closeFile_batch]; exact closeBatch_batch k s
    refine ⟨by simpa using hgood, ?_, ?_⟩
    · simp [real, hfile, hbatch, sumLines]
      try omega
    · right; right; simp [nEntries, hfile, hbatch, wfileEntries]
  · simp only [hov, if_false, Bool.false_eq_true]
    have hnov : ¬ (c.maxLines > 0 ∧ s.lines + e.lines > c.maxLines) := by
      intro ⟨a, b⟩; apply hov; simp [a, b]
    have hcnt := h.cnt
    have hreal : real { s with batch := s.batch ++ [e], lines := s.lines + e.lines, dollars := s.dollars + e.amount } =
        real s + e.lines + (if s.batch.isEmpty then 2 else 0) := by
      by_cases hb : s.batch.isEmpty = true
      · have : s.batch = [] := by simpa using hb
        simp [real, this, sumLines]; omega
      · have hne : s.batch ≠ [] := by simpa using hb
        simp [real, hb, hne, sumLines_append, sumLines]; omega
    have hne' : (s.batch ++ [e]).isEmpty = false := by simp
    refine ⟨h.out, ?_, ?_⟩
    · show real _ + (if (s.batch ++ [e]).isEmpty = true then 2 else 0) ≤ s.lines + e.lines
      have hiff : (if s.batch.isEmpty = true then 2 else 0) = (if s.batch = [] then (2 : Nat) else 0) := by
        simp [List.isEmpty_iff]
      rw [hreal, hne']
      rw [hiff] at hcnt ⊢
      simp; omega
    · by_cases h0 : c.maxLines = 0
      · exact Or.inl h0
      · right; left
        rw [hreal]
        have : ¬ (s.lines + e.lines > c.maxLines) := fun hb => hnov ⟨by omega, hb⟩
        omega

theorem foldl_stepEntry_inner (c : Cond) (k : HKey) : ∀ (es : List Entry) (s : CState), Inner c s →
    Inner c (es.foldl (stepEntry c k) s)
  | [], _, h => h
  | e :: es, s, h => by rw [List.foldl_cons]; exact foldl_stepEntry_inner c k es _ (stepEntry_inner c k s e h)

theorem stepBatch_outer (c : Cond) (s : CState) (b : OutBatch) (h : Outer c s) : Outer c (stepBatch c s b) := by
  unfold stepBatch
  have hin : Inner c { s with lines := s.lines + 2 } := by
    refine ⟨h.out, ?_, ?_⟩
    · have := h.cnt
      have hb : s.batch.isEmpty = true := by simp [h.nob]
      simp only [real, hb, if_true] at this ⊢
      omega
    · simpa [real, nEntries] using h.cur
  have hfin := foldl_stepEntry_inner c b.key b.entries _ hin
  obtain ⟨r1, r2, r3, r4⟩ := closeBatch_real b.key (b.entries.foldl (stepEntry c b.key) { s with lines := s.lines + 2 })
  refine ⟨by rw [r3]; exact hfin.out, ?_, by rw [r1, r2]; exact hfin.cur, closeBatch_batch _ _⟩
  rw [r1, r4]
  have := hfin.cnt
  omega

theorem foldl_stepBatch_outer (c : Cond) : ∀ (bs : List OutBatch) (s : CState), Outer c s → Outer c (bs.foldl (stepBatch c) s)
  | [], _, h => h
  | b :: bs, s, h => by rw [List.foldl_cons]; exact foldl_stepBatch_outer c bs _ (stepBatch_outer c s b h)

/-- **merge_lines_bounded**: every file written for a route has at most `MaxLines` records (file header and control,
batch headers and controls, entries and addenda), unless it holds a single entry -/
theorem convertOne_lines_bounded (c : Cond) (hmax : c.maxLines = 0 ∨ 2 ≤ c.maxLines) (o : OutFile) :
    ∀ f ∈ convertOne c o, Good c f := by
  unfold convertOne
  have h0 : Outer c ⟨[], [], [], 2, 0⟩ :=
    ⟨by simp, by simp [real], by rcases hmax with h | h; exact Or.inl h; right; left; simpa [real] using h, rfl⟩
  have h := foldl_stepBatch_outer c o.batches _ h0
  exact closeFile_good c _ h.nob h.out h.cur

end Ach.Merge

namespace Ach.Merge

/-! ## the dollar limit (same loop, exact counter) -/

def sumAmt (es : List Entry) : Int := (es.map (·.amount)).sum

theorem foldl_amount (es : List Entry) (a : Int) : es.foldl (fun acc e => acc + e.amount) a = a + sumAmt es := by
  induction es generalizing a with
  | nil => simp [sumAmt]
  | cons e es ih => simp only [List.foldl_cons, ih, sumAmt, List.map_cons, List.sum_cons]; omega

theorem wfileDollars_eq (f : WFile) : wfileDollars f = sumAmt (wfileEntries f) := by
  simp [wfileDollars, foldl_amount]

theorem sumAmt_append (a b : List Entry) : sumAmt (a ++ b) = sumAmt a + sumAmt b := by
  simp [sumAmt, List.sum_append]

/-- dollars held by the file being assembled -/
def curDollars (s : CState) : Int := sumAmt (wfileEntries s.file) + sumAmt s.batch

/-- a written file respects the dollar limit, or holds a single entry (that alone exceeds it) -/
def DGood (c : Cond) (f : WFile) : Prop :=
  c.maxDollars ≤ 0 ∨ wfileDollars f ≤ c.maxDollars ∨ (wfileEntries f).length = 1

structure DInv (c : Cond) (s : CState) : Prop where
  out : ∀ f ∈ s.out, DGood c f
  cnt : s.dollars = curDollars s
  cur : c.maxDollars ≤ 0 ∨ curDollars s ≤ c.maxDollars ∨ nEntries s = 1

theorem closeBatch_dollars (k : HKey) (s : CState) : curDollars (closeBatch k s) = curDollars s ∧
    nEntries (closeBatch k s) = nEntries s ∧ (closeBatch k s).out = s.out ∧ (closeBatch k s).dollars = s.dollars := by
  unfold closeBatch
  by_cases h : s.batch.isEmpty = true
  · simp [h]
  · simp only [h, if_false, Bool.false_eq_true]
    refine ⟨?_, ?_, by simp, by simp⟩
    · simp [curDollars, wfileEntries_append, wfileEntries, sumAmt_append, sumAmt]
    · simp [nEntries, wfileEntries_append, wfileEntries]
      try omega

theorem closeFile_dgood (c : Cond) (s : CState) (hb : s.batch = []) (ho : ∀ f ∈ s.out, DGood c f)
    (hc : c.maxDollars ≤ 0 ∨ curDollars s ≤ c.maxDollars ∨ nEntries s = 1) :
    ∀ f ∈ (closeFile s).out, DGood c f := by
  unfold closeFile
  by_cases h : s.file.isEmpty = true
  · simpa [h] using ho
  · simp only [h, if_false, Bool.false_eq_true]
    intro f hf
    rcases List.mem_append.1 hf with hf | hf
    · exact ho f hf
    · simp at hf; subst hf
      rcases hc with h0 | h1 | h2
      · exact Or.inl h0
      · right; left
        simpa [curDollars, hb, wfileDollars_eq, sumAmt] using h1
      · right; right
        simpa [nEntries, hb] using h2

theorem closeBatch_dinv (c : Cond) (k : HKey) (s : CState) (h : DInv c s) : DInv c (closeBatch k s) := by
  obtain ⟨r1, r2, r3, r4⟩ := closeBatch_dollars k s
  exact ⟨by rw [r3]; exact h.out, by rw [r4, r1]; exact h.cnt, by rw [r1, r2]; exact h.cur⟩

theorem stepEntry_dinv (c : Cond) (k : HKey) (s : CState) (e : Entry) (h : DInv c s) : DInv c (stepEntry c k s e) := by
  unfold stepEntry
  simp only
  by_cases hov : ((decide (c.maxLines > 0) && decide (s.lines + e.lines > c.maxLines)) ||
      (decide (c.maxDollars > 0) && decide (s.dollars + e.amount > c.maxDollars))) = true
  · simp only [hov, if_true]
    have hcb := closeBatch_dinv c k s h
    have hgood := closeFile_dgood c (closeBatch k s) (closeBatch_batch k s) hcb.out hcb.cur
    have hfile : (closeFile (closeBatch k s)).file = [] := by
      unfold closeFile; split
      · rename_i hh; simpa using hh
      · rfl
    have hbatch : (closeFile (closeBatch k s)).batch = [] := by rw [closeFile_batch]; exact closeBatch_batch k s
    refine ⟨by simpa using hgood, ?_, ?_⟩
    · simp [curDollars, hfile, hbatch, wfileEntries, sumAmt]
    · right; right; simp [nEntries, hfile, hbatch, wfileEntries]
  · simp only [hov, if_false, Bool.false_eq_true]
    have hnov : ¬ (c.maxDollars > 0 ∧ s.dollars + e.amount > c.maxDollars) := by
      intro ⟨a, b⟩; apply hov; simp [a, b]
    have hcur : curDollars { s with batch := s.batch ++ [e], lines := s.lines + e.lines, dollars := s.dollars + e.amount } =
        curDollars s + e.amount := by
      simp [curDollars, sumAmt_append, sumAmt]; omega
    refine ⟨h.out, ?_, ?_⟩
    · show s.dollars + e.amount = _
      rw [hcur, h.cnt]
    · by_cases h0 : c.maxDollars ≤ 0
      · exact Or.inl h0
      · right; left
        rw [hcur, ← h.cnt]
        have : ¬ (s.dollars + e.amount > c.maxDollars) := fun hb => hnov ⟨by omega, hb⟩
        omega

theorem foldl_stepEntry_dinv (c : Cond) (k : HKey) : ∀ (es : List Entry) (s : CState), DInv c s →
    DInv c (es.foldl (stepEntry c k) s)
  | [], _, h => h
  | e :: es, s, h => by rw [List.foldl_cons]; exact foldl_stepEntry_dinv c k es _ (stepEntry_dinv c k s e h)

theorem stepBatch_dinv (c : Cond) (s : CState) (b : OutBatch) (h : DInv c s) : DInv c (stepBatch c s b) := by
  unfold stepBatch
  have hin : DInv c { s with lines := s.lines + 2 } := ⟨h.out, h.cnt, h.cur⟩
  exact closeBatch_dinv c b.key _ (foldl_stepEntry_dinv c b.key b.entries _ hin)

theorem foldl_stepBatch_dinv (c : Cond) : ∀ (bs : List OutBatch) (s : CState), DInv c s → DInv c (bs.foldl (stepBatch c) s)
  | [], _, h => h
  | b :: bs, s, h => by rw [List.foldl_cons]; exact foldl_stepBatch_dinv c bs _ (stepBatch_dinv c s b h)

theorem foldl_stepBatch_nobatch (c : Cond) : ∀ (bs : List OutBatch) (s : CState), s.batch = [] → (bs.foldl (stepBatch c) s).batch = []
  | [], _, h => h
  | b :: bs, s, _ => by rw [List.foldl_cons]; exact foldl_stepBatch_nobatch c bs _ (stepBatch_batch c s b)

/-- **merge_dollars_bounded**: the entry amounts of every file written for a route sum to at most `MaxDollarAmount`
(when that is positive — `convertToFiles` forces 0 and anything above the Nacha limit to the Nacha limit), unless the
file holds a single entry -/
theorem convertOne_dollars_bounded (c : Cond) (o : OutFile) : ∀ f ∈ convertOne c o, DGood c f := by
  unfold convertOne
  have h0 : DInv c ⟨[], [], [], 2, 0⟩ := by
    refine ⟨by simp, by simp [curDollars, wfileEntries, sumAmt], ?_⟩
    by_cases hm : c.maxDollars ≤ 0
    · exact Or.inl hm
    · right; left; simp [curDollars, wfileEntries, sumAmt]; omega
  have h := foldl_stepBatch_dinv c o.batches _ h0
  exact closeFile_dgood c _ (foldl_stepBatch_nobatch c o.batches _ rfl) h.out h.cur

end Ach.Merge

namespace Ach.Merge

/-! ## when no limit binds, a route's entries end up in one file -/

/-- what `currentFileLineCount` reaches if nothing overflows: 2, plus 2 per accumulated batch (also one without
entries), plus the lines of every entry -/
def countedLines (bs : List OutBatch) : Nat := (bs.map (fun b => 2 + sumLines b.entries)).sum
def totalAmt (bs : List OutBatch) : Int := (bs.map (fun b => sumAmt b.entries)).sum

/-- nothing has been split off so far and what is still to come fits under both limits -/
structure NoSplit (c : Cond) (s : CState) (rl : Nat) (ra : Int) : Prop where
  out : s.out = []
  lines : c.maxLines = 0 ∨ s.lines + rl ≤ c.maxLines
  dollars : c.maxDollars ≤ 0 ∨ s.dollars + ra ≤ c.maxDollars

theorem stepEntry_nosplit (c : Cond) (k : HKey) (s : CState) (e : Entry) (rl : Nat) (ra : Int) (hra : 0 ≤ ra)
    (h : NoSplit c s (e.lines + rl) (e.amount + ra)) : NoSplit c (stepEntry c k s e) rl ra := by
  unfold stepEntry
  simp only
  have hov : ((decide (c.maxLines > 0) && decide (s.lines + e.lines > c.maxLines)) ||
      (decide (c.maxDollars > 0) && decide (s.dollars + e.amount > c.maxDollars))) = false := by
    have h1 : ¬ (c.maxLines > 0 ∧ s.lines + e.lines > c.maxLines) := by
      intro ⟨a, b⟩
      rcases h.lines with h0 | h0 <;> omega
    have h2 : ¬ (c.maxDollars > 0 ∧ s.dollars + e.amount > c.maxDollars) := by
      intro ⟨a, b⟩
      rcases h.dollars with h0 | h0 <;> omega
    simp only [Bool.or_eq_false_iff, Bool.and_eq_false_iff, decide_eq_false_iff_not]
    constructor
    · by_cases a : c.maxLines > 0
      · right; intro b; exact h1 ⟨a, b⟩
      · left; exact a
    · by_cases a : c.maxDollars > 0
      · right; intro b; exact h2 ⟨a, b⟩
      · left; exact a
  simp only [hov, Bool.false_eq_true, if_false]
  refine ⟨h.out, ?_, ?_⟩
  · rcases h.lines with h0 | h0
    · exact Or.inl h0
    · right; show s.lines + e.lines + rl ≤ c.maxLines; omega
  · rcases h.dollars with h0 | h0
    · exact Or.inl h0
    · right; show s.dollars + e.amount + ra ≤ c.maxDollars; omega

theorem sumAmt_nonneg (es : List Entry) (h : ∀ e ∈ es, 0 ≤ e.amount) : 0 ≤ sumAmt es := by
  induction es with
  | nil => simp [sumAmt]
  | cons e es ih =>
    have := ih (fun x hx => h x (by simp [hx]))
    have := h e (by simp)
    simp only [sumAmt, List.map_cons, List.sum_cons] at *
    omega

theorem foldl_stepEntry_nosplit (c : Cond) (k : HKey) : ∀ (es : List Entry) (s : CState) (rl : Nat) (ra : Int),
    0 ≤ ra → (∀ e ∈ es, 0 ≤ e.amount) → NoSplit c s (sumLines es + rl) (sumAmt es + ra) →
    NoSplit c (es.foldl (stepEntry c k) s) rl ra
  | [], _, _, _, _, _, h => by simpa [sumLines, sumAmt] using h
  | e :: es, s, rl, ra, hra, hes, h => by
    rw [List.foldl_cons]
    apply foldl_stepEntry_nosplit c k es _ rl ra hra (fun x hx => hes x (by simp [hx]))
    apply stepEntry_nosplit c k s e (sumLines es + rl) (sumAmt es + ra)
    · have := sumAmt_nonneg es (fun x hx => hes x (by simp [hx])); omega
    · have e1 : sumLines (e :: es) + rl = e.lines + (sumLines es + rl) := by simp [sumLines]; omega
      have e2 : sumAmt (e :: es) + ra = e.amount + (sumAmt es + ra) := by simp [sumAmt]; omega
      rw [e1, e2] at h
      exact h

theorem closeBatch_nosplit (c : Cond) (k : HKey) (s : CState) (rl : Nat) (ra : Int) (h : NoSplit c s rl ra) :
    NoSplit c (closeBatch k s) rl ra := by
  unfold closeBatch
  split
  · exact h
  · exact ⟨h.out, h.lines, h.dollars⟩

theorem totalAmt_nonneg (bs : List OutBatch) (h : ∀ b ∈ bs, ∀ e ∈ b.entries, 0 ≤ e.amount) : 0 ≤ totalAmt bs := by
  induction bs with
  | nil => simp [totalAmt]
  | cons b bs ih =>
    have := ih (fun x hx => h x (by simp [hx]))
    have := sumAmt_nonneg b.entries (h b (by simp))
    simp only [totalAmt, List.map_cons, List.sum_cons] at *
    omega

theorem foldl_stepBatch_nosplit (c : Cond) : ∀ (bs : List OutBatch) (s : CState),
    (∀ b ∈ bs, ∀ e ∈ b.entries, 0 ≤ e.amount) → NoSplit c s (countedLines bs) (totalAmt bs) →
    NoSplit c (bs.foldl (stepBatch c) s) 0 0
  | [], _, _, h => by simpa [countedLines, totalAmt] using h
  | b :: bs, s, hpos, h => by
    rw [List.foldl_cons]
    apply foldl_stepBatch_nosplit c bs _ (fun x hx => hpos x (by simp [hx]))
    unfold stepBatch
    apply closeBatch_nosplit
    apply foldl_stepEntry_nosplit c b.key b.entries _ (countedLines bs) (totalAmt bs)
      (totalAmt_nonneg bs (fun x hx => hpos x (by simp [hx]))) (hpos b (by simp))
    refine ⟨h.out, ?_, ?_⟩
    · rcases h.lines with h0 | h0
      · exact Or.inl h0
      · right
        show s.lines + 2 + (sumLines b.entries + countedLines bs) ≤ c.maxLines
        simp only [countedLines, List.map_cons, List.sum_cons] at h0 ⊢
        omega
    · rcases h.dollars with h0 | h0
      · exact Or.inl h0
      · right
        show s.dollars + (sumAmt b.entries + totalAmt bs) ≤ c.maxDollars
        simp only [totalAmt, List.map_cons, List.sum_cons] at h0 ⊢
        omega

/-- **merge_single_file_when_unlimited**: if the route's accumulated batches fit under both limits (as the code counts
lines) and no amount is negative, `convertToFiles` writes at most one file for the route -/
theorem convertOne_single (c : Cond) (o : OutFile) (hpos : ∀ b ∈ o.batches, ∀ e ∈ b.entries, 0 ≤ e.amount)
    (hl : c.maxLines = 0 ∨ 2 + countedLines o.batches ≤ c.maxLines)
    (hd : c.maxDollars ≤ 0 ∨ totalAmt o.batches ≤ c.maxDollars) :
    (convertOne c o).length ≤ 1 := by
  unfold convertOne
  have h0 : NoSplit c ⟨[], [], [], 2, 0⟩ (countedLines o.batches) (totalAmt o.batches) :=
    ⟨rfl, hl, by rcases hd with h | h; exact Or.inl h; right; simpa using h⟩
  have h := foldl_stepBatch_nosplit c o.batches _ hpos h0
  unfold closeFile
  split
  · simp [h.out]
  · simp [h.out]

end Ach.Merge

namespace Ach.Merge

/-! ## the ordered map stays strictly sorted by trace -/

def StrictAsc : List Entry → Prop
  | [] => True
  | [_] => True
  | a :: b :: rest => a.trace < b.trace ∧ StrictAsc (b :: rest)

theorem strictAsc_tail {a : Entry} {l : List Entry} (h : StrictAsc (a :: l)) : StrictAsc l := by
  cases l with
  | nil => trivial
  | cons b r => exact h.2

theorem insertSorted_head (e x : Entry) (xs : List Entry) :
    ∃ y ys, insertSorted e (x :: xs) = y :: ys ∧ (y.trace = e.trace ∨ y.trace = x.trace) ∧ (y.trace ≤ e.trace) := by
  unfold insertSorted
  split
  · exact ⟨e, x :: xs, rfl, Or.inl rfl, Nat.le_refl _⟩
  · split
    · exact ⟨e, xs, rfl, Or.inl rfl, Nat.le_refl _⟩
    · exact ⟨x, insertSorted e xs, rfl, Or.inr rfl, by omega⟩

theorem insertSorted_sorted (e : Entry) : ∀ (es : List Entry), StrictAsc es → StrictAsc (insertSorted e es)
  | [], _ => trivial
  | [x], _ => by
    unfold insertSorted
    split
    · rename_i h; exact ⟨h, trivial⟩
    · split
      · trivial
      · rename_i h1 h2
        simp only [insertSorted]
        exact ⟨by omega, trivial⟩
  | x :: y :: rest, h => by
    unfold insertSorted
    split
    · rename_i hlt; exact ⟨hlt, h⟩
    · split
      · rename_i _ heq
        -- e replaces x: e.trace = x.trace < y.trace
        exact ⟨by rw [heq]; exact h.1, h.2⟩
      · rename_i h1 h2
        have ih := insertSorted_sorted e (y :: rest) h.2
        obtain ⟨z, zs, hz, hzt, _⟩ := insertSorted_head e y rest
        rw [hz] at ih ⊢
        refine ⟨?_, ih⟩
        rcases hzt with hzt | hzt
        · rw [hzt]; omega
        · rw [hzt]; exact h.1

def AllSorted (bs : List OutBatch) : Prop := ∀ b ∈ bs, StrictAsc b.entries

theorem place_sorted (k : HKey) (e : Entry) : ∀ (bs : List OutBatch), AllSorted bs → AllSorted (place k e bs)
  | [], _ => by intro b hb; simp [place] at hb; subst hb; trivial
  | b :: bs, h => by
    unfold place
    split
    · intro x hx
      rcases List.mem_cons.1 hx with hx | hx
      · subst hx; exact insertSorted_sorted e b.entries (h b (List.mem_cons_self ..))
      · exact h x (List.mem_cons_of_mem _ hx)
    · intro x hx
      rcases List.mem_cons.1 hx with hx | hx
      · subst hx; exact h x (List.mem_cons_self ..)
      · exact place_sorted k e bs (fun y hy => h y (List.mem_cons_of_mem _ hy)) x hx

theorem placeAll_sorted (k : HKey) : ∀ (es : List Entry) (bs : List OutBatch), AllSorted bs → AllSorted (placeAll k es bs)
  | [], _, h => h
  | e :: es, bs, h => by
    simp only [placeAll, List.foldl_cons]
    exact placeAll_sorted k es _ (place_sorted k e bs h)

theorem addBatches_sorted : ∀ (ibs : List InBatch) (bs : List OutBatch), AllSorted bs → AllSorted (addBatches ibs bs)
  | [], _, h => h
  | ib :: ibs, bs, h => by
    simp only [addBatches, List.foldl_cons]
    exact addBatches_sorted ibs _ (placeAll_sorted ib.key ib.entries bs h)

theorem addFile_sorted (f : InFile) : ∀ (st : List OutFile), (∀ o ∈ st, AllSorted o.batches) → ∀ o ∈ addFile f st, AllSorted o.batches
  | [], _ => by
    intro o ho; simp [addFile] at ho; subst ho
    exact addBatches_sorted f.batches [] (by intro b hb; simp at hb)
  | o :: os, h => by
    unfold addFile
    split
    · intro x hx
      rcases List.mem_cons.1 hx with hx | hx
      · subst hx; exact addBatches_sorted f.batches o.batches (h o (List.mem_cons_self ..))
      · exact h x (List.mem_cons_of_mem _ hx)
    · intro x hx
      rcases List.mem_cons.1 hx with hx | hx
      · subst hx; exact h x (List.mem_cons_self ..)
      · exact addFile_sorted f os (fun y hy => h y (List.mem_cons_of_mem _ hy)) x hx

theorem addFiles_sorted : ∀ (fs : List InFile) (st : List OutFile), (∀ o ∈ st, AllSorted o.batches) →
    ∀ o ∈ addFiles fs st, AllSorted o.batches
  | [], _, h => by simpa [addFiles] using h
  | f :: fs, st, h => by
    have := addFiles_sorted fs (addFile f st) (addFile_sorted f st h)
    simpa [addFiles] using this

end Ach.Merge

namespace Ach.Merge

/-! ## equal headers share a batch unless trace numbers collide -/

/-- a later batch with the same header only holds entries whose trace number the earlier batch already has -/
def Spill (a b : OutBatch) : Prop := a.key = b.key → ∀ x ∈ b.entries, contains x.trace a.entries = true

theorem contains_insertSorted (t : Nat) (e : Entry) (es : List Entry) :
    contains t (insertSorted e es) = (decide (e.trace = t) || contains t es) := by
  induction es with
  | nil => simp [insertSorted, contains]
  | cons x xs ih =>
    unfold insertSorted
    split
    · simp [contains]
    · split
      · rename_i h1 h2
        simp only [contains, List.any_cons] at *
        rw [h2]
        cases decide (x.trace = t) <;> simp
      · simp only [contains, List.any_cons] at ih ⊢
        rw [ih]
        cases decide (x.trace = t) <;> cases decide (e.trace = t) <;> simp

theorem mem_insertSorted (x e : Entry) (es : List Entry) (h : x ∈ insertSorted e es) : x = e ∨ x ∈ es := by
  induction es with
  | nil => simp [insertSorted] at h; exact Or.inl h
  | cons y ys ih =>
    unfold insertSorted at h
    split at h
    · simp at h; rcases h with h | h | h
      · exact Or.inl h
      · exact Or.inr (by simp [h])
      · exact Or.inr (by simp [h])
    · split at h
      · simp at h; rcases h with h | h
        · exact Or.inl h
        · exact Or.inr (by simp [h])
      · simp at h; rcases h with h | h
        · exact Or.inr (by simp [h])
        · rcases ih h with h' | h'
          · exact Or.inl h'
          · exact Or.inr (by simp [h'])

/-- what `place` can put after a batch `a` that did not take the entry -/
theorem place_spill (k : HKey) (e : Entry) (a : OutBatch) (hk : a.key = k → contains e.trace a.entries = true) :
    ∀ (bs : List OutBatch), (∀ b ∈ bs, Spill a b) → ∀ b ∈ place k e bs, Spill a b := by
  intro bs
  induction bs with
  | nil =>
    intro _ b hb
    simp [place] at hb
    subst hb
    intro hkey x hx
    simp at hx
    subst hx
    exact hk hkey
  | cons y ys ih =>
    intro h b hb
    unfold place at hb
    split at hb
    · rename_i hc
      simp only [Bool.and_eq_true, decide_eq_true_eq] at hc
      simp only [List.mem_cons] at hb
      rcases hb with hb | hb
      · subst hb
        intro hkey x hx
        rcases mem_insertSorted x e y.entries hx with hxe | hxy
        · subst hxe; exact hk (hkey.trans hc.1)
        · exact h y (by simp) hkey x hxy
      · exact h b (by simp [hb])
    · simp only [List.mem_cons] at hb
      rcases hb with hb | hb
      · subst hb; exact h b (by simp)
      · exact ih (fun b' hb' => h b' (by simp [hb'])) b hb

theorem place_pairwise (k : HKey) (e : Entry) : ∀ (bs : List OutBatch), bs.Pairwise Spill → (place k e bs).Pairwise Spill := by
  intro bs
  induction bs with
  | nil => intro _; simp [place]
  | cons y ys ih =>
    intro h
    rw [List.pairwise_cons] at h
    unfold place
    split
    · rename_i hc
      rw [List.pairwise_cons]
      refine ⟨?_, h.2⟩
      intro b hb hkey x hx
      have := h.1 b hb hkey x hx
      rw [contains_insertSorted]
      simp [this]
    · rename_i hc
      rw [List.pairwise_cons]
      refine ⟨?_, ih h.2⟩
      apply place_spill k e y _ ys h.1
      intro hkey
      simp only [Bool.and_eq_true, decide_eq_true_eq, Bool.not_eq_true', not_and, Bool.not_eq_false] at hc
      exact hc hkey

theorem placeAll_pairwise (k : HKey) : ∀ (es : List Entry) (bs : List OutBatch), bs.Pairwise Spill → (placeAll k es bs).Pairwise Spill
  | [], _, h => h
  | e :: es, bs, h => by
    unfold placeAll
    rw [List.foldl_cons]
    exact placeAll_pairwise k es _ (place_pairwise k e bs h)

theorem addBatches_pairwise : ∀ (ibs : List InBatch) (bs : List OutBatch), bs.Pairwise Spill → (addBatches ibs bs).Pairwise Spill
  | [], _, h => h
  | ib :: ibs, bs, h => by
    unfold addBatches
    rw [List.foldl_cons]
    exact addBatches_pairwise ibs _ (placeAll_pairwise ib.key ib.entries bs h)

theorem addFile_pairwise (f : InFile) : ∀ (st : List OutFile), (∀ o ∈ st, o.batches.Pairwise Spill) →
    ∀ o ∈ addFile f st, o.batches.Pairwise Spill := by
  intro st
  induction st with
  | nil =>
    intro _ o ho
    simp [addFile] at ho
    subst ho
    exact addBatches_pairwise f.batches [] List.Pairwise.nil
  | cons x xs ih =>
    intro h o ho
    unfold addFile at ho
    split at ho
    · simp only [List.mem_cons] at ho
      rcases ho with ho | ho
      · subst ho; exact addBatches_pairwise f.batches _ (h x (by simp))
      · exact h o (by simp [ho])
    · simp only [List.mem_cons] at ho
      rcases ho with ho | ho
      · subst ho; exact h o (by simp)
      · exact ih (fun o' ho' => h o' (by simp [ho'])) o ho

theorem addFiles_pairwise : ∀ (fs : List InFile) (st : List OutFile), (∀ o ∈ st, o.batches.Pairwise Spill) →
    ∀ o ∈ addFiles fs st, o.batches.Pairwise Spill
  | [], _, h => h
  | f :: fs, st, h => by
    unfold addFiles
    rw [List.foldl_cons]
    exact addFiles_pairwise fs _ (addFile_pairwise f st h)

end Ach.Merge

