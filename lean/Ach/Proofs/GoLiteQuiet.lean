import Ach.Proofs.GoLitePaths
/-!
# Loops whose body can only reject are passed without a trace

`noAssign` excludes loops.  A `for … range` whose body has no assignment (and hence no `break` / `continue`) leaves the
locals as they were when it falls through; `quiet` adds such loops to the statements `accept_drop` may peel off.
-/
namespace Ach.GoLite

theorem scopeExit_append3 (pre : Locals) (x : String × Val) (l : Locals) : scopeExit l (pre ++ x :: l) = l := by
  have : pre ++ x :: l = (pre ++ [x]) ++ l := by simp
  rw [this, scopeExit_append]

/-- a loop whose body, when it passes control on, fell through and only added declarations: the loop itself, when it
passes control on, fell through with the locals unchanged -/
theorem iter_quiet (f : Locals → Locals × Sig) (mk : Nat → Val) (v : String)
    (hf : ∀ l', passing (f l').2 → (f l').2 = .next ∧ ∃ pre, (f l').1 = pre ++ l') :
    ∀ is l, passing (iter f mk v is l).2 → iter f mk v is l = (l, .next) := by
  intro is
  induction is with
  | nil => intro l _; simp [iter]
  | cons i is ih =>
      intro l h
      simp only [iter] at h ⊢
      cases hs : (f ((v, mk i) :: l)).2 with
      | next =>
          obtain ⟨_, pre, hp⟩ := hf ((v, mk i) :: l) (by rw [hs]; exact Or.inl rfl)
          rw [hs] at h
          simp only [hp, scopeExit_append3] at h ⊢
          exact ih l h
      | cont =>
          have := (hf ((v, mk i) :: l) (by rw [hs]; exact Or.inr (Or.inr rfl))).1
          rw [hs] at this
          cases this
      | brk =>
          have := (hf ((v, mk i) :: l) (by rw [hs]; exact Or.inr (Or.inl rfl))).1
          rw [hs] at this
          cases this
      | ret x => rw [hs] at h; simp [passing] at h
      | stuck w => rw [hs] at h; simp [passing] at h

/-- no assignment at this level: `noAssign`, or a loop over such a body -/
def quiet : Prog → Bool
  | .forEach _ _ b => noAssign b
  | .forIdx _ _ b => noAssign b
  | p => noAssign p

theorem quiet_suffix (p : Prog) (hq : quiet p = true) (c : Ctx) (l : Locals) (h : passing (exec p c l).2) :
    (exec p c l).2 = .next ∧ ∃ pre, (exec p c l).1 = pre ++ l := by
  cases p with
  | forEach v coll body =>
      simp only [quiet] at hq
      simp only [exec] at h ⊢
      cases hc : eval c l coll with
      | lst pth n =>
          rw [hc] at h
          simp only at h ⊢
          have := iter_quiet (fun l' => exec body c l') (fun i => .ref (elemPath pth i)) v
            (fun l' hp => noAssign_suffix body hq c l' hp) (List.range n) l h
          rw [this]
          exact ⟨rfl, [], rfl⟩
      | nilp => exact ⟨rfl, [], rfl⟩
      | _ => rw [hc] at h; simp [passing] at h
  | forIdx v coll body =>
      simp only [quiet] at hq
      simp only [exec] at h ⊢
      cases hc : eval c l coll with
      | lst pth n =>
          rw [hc] at h
          simp only at h ⊢
          have := iter_quiet (fun l' => exec body c l') (fun k => .int k) v
            (fun l' hp => noAssign_suffix body hq c l' hp) (List.range n) l h
          rw [this]
          exact ⟨rfl, [], rfl⟩
      | nilp => exact ⟨rfl, [], rfl⟩
      | _ => rw [hc] at h; simp [passing] at h
  | _ => exact noAssign_suffix _ (by simpa [quiet] using hq) c l h

theorem accept_seq_q {a b : Prog} {c : Ctx} {l : Locals} (ha : rejectOnly a = true) (hn : quiet a = true)
    (h : (exec (.seq a b) c l).2 = .ret (.err none)) :
    ∃ pre, (exec b c (pre ++ l)).2 = .ret (.err none) := by
  simp only [exec] at h
  cases hx : exec a c l with
  | mk l1 s1 =>
    rw [hx] at h
    have hne := rejectOnly_no_accept a ha c l
    rw [hx] at hne
    cases s1 with
    | next =>
        have hp : passing (exec a c l).2 := by rw [hx]; exact Or.inl rfl
        obtain ⟨_, pre, hpre⟩ := quiet_suffix a hn c l hp
        rw [hx] at hpre
        simp only at hpre h
        exact ⟨pre, by rw [← hpre]; exact h⟩
    | ret v => simp only at h; exact absurd h hne
    | brk => simp at h
    | cont => simp at h
    | stuck _ => simp at h

theorem accept_drop_q (c : Ctx) :
    ∀ (ps : List Prog) (rest : Prog) (l : Locals), (∀ p ∈ ps, rejectOnly p = true ∧ quiet p = true) →
      (exec (seqs (ps ++ [rest])) c l).2 = .ret (.err none) →
      ∃ pre, (exec rest c (pre ++ l)).2 = .ret (.err none) := by
  intro ps
  induction ps with
  | nil => intro rest l _ h; exact ⟨[], by simpa [seqs] using h⟩
  | cons a ps ih =>
      intro rest l hall h
      rw [List.cons_append, seqs_cons_ne _ _ (by simp)] at h
      have ha := hall a (List.mem_cons_self ..)
      obtain ⟨pre1, h1⟩ := accept_seq_q ha.1 ha.2 h
      obtain ⟨pre2, h2⟩ := ih rest (pre1 ++ l) (fun p hp => hall p (List.mem_cons_of_mem _ hp)) h1
      exact ⟨pre2 ++ pre1, by rw [List.append_assoc]; exact h2⟩

/-- an accepting run, from any locals, of a program whose statements are `ps ++ tail` -/
theorem accept_reaches_q (c : Ctx) (p : Prog) (l : Locals) (ps tail : List Prog) (hs : stmts p = ps ++ tail) (ht : tail ≠ [])
    (hall : ps.all (fun q => rejectOnly q && quiet q) = true)
    (h : (exec p c l).2 = .ret (.err none)) :
    ∃ pre, (exec (seqs tail) c (pre ++ l)).2 = .ret (.err none) := by
  rw [← seqs_stmts p, hs, seqs_append_tail ps tail ht] at h
  have hall' : ∀ q ∈ ps, rejectOnly q = true ∧ quiet q = true := by
    intro q hq
    have := List.all_eq_true.mp hall q hq
    simpa using this
  exact accept_drop_q c ps (seqs tail) l hall' h

/-- a program that ends in a `return` never falls through -/
def endsInRet : Prog → Bool
  | .ret _ => true
  | .seq _ b => endsInRet b
  | _ => false

theorem endsInRet_not_next : ∀ p, endsInRet p = true → ∀ (c : Ctx) l, (exec p c l).2 ≠ .next := by
  intro p
  induction p with
  | ret e => intro _ c l; simp [exec]
  | seq a b _ ihb =>
      intro h c l
      simp only [endsInRet] at h
      simp only [exec]
      cases hx : exec a c l with
      | mk l1 s1 =>
        cases s1 with
        | next => exact ihb h c l1
        | _ => simp
  | _ => intro h; simp [endsInRet] at h

end Ach.GoLite
