/-! Helper lemma for C13: service class chosen from two "any" flags equals the
class described by "all credits / all debits / mixed" when every element is
exactly one of the two. -/
namespace Ach.Proofs

theorem any_congr_mem {α : Type} : ∀ {l : List α} {p q : α → Bool}, (∀ a ∈ l, p a = q a) → l.any p = l.any q
  | [], _, _, _ => rfl
  | a :: l, p, q, h => by
    simp only [List.any_cons, h a (by simp), any_congr_mem (l := l) (fun b hb => h b (List.mem_cons_of_mem _ hb))]

theorem any_fst_eq_not_all_snd : ∀ (l : List (Bool × Bool)), (∀ p ∈ l, p.1 ≠ p.2) →
    l.any (·.1) = !(l.all (·.2))
  | [], _ => by simp
  | p :: l, hx => by
    have hp := hx p (by simp)
    have ih := any_fst_eq_not_all_snd l (fun p' hp' => hx p' (List.mem_cons_of_mem _ hp'))
    simp only [List.any_cons, List.all_cons, ih]
    cases hp1 : p.1 <;> cases hp2 : p.2 <;> simp_all

theorem any_snd_eq_not_all_fst : ∀ (l : List (Bool × Bool)), (∀ p ∈ l, p.1 ≠ p.2) →
    l.any (·.2) = !(l.all (·.1))
  | [], _ => by simp
  | p :: l, hx => by
    have hp := hx p (by simp)
    have ih := any_snd_eq_not_all_fst l (fun p' hp' => hx p' (List.mem_cons_of_mem _ hp'))
    simp only [List.any_cons, List.all_cons, ih]
    cases hp1 : p.1 <;> cases hp2 : p.2 <;> simp_all

theorem not_all_both : ∀ (l : List (Bool × Bool)), l ≠ [] → (∀ p ∈ l, p.1 ≠ p.2) →
    ¬ (l.all (·.1) = true ∧ l.all (·.2) = true)
  | [], h, _ => absurd rfl h
  | p :: l, _, hx => by
    intro ⟨ha, hb⟩
    simp only [List.all_cons, Bool.and_eq_true] at ha hb
    have := hx p (by simp)
    cases hp1 : p.1 <;> cases hp2 : p.2 <;> simp_all

theorem classify_flags {α : Type} (M D C old : α) (l : List (Bool × Bool)) (hne : l ≠ [])
    (hx : ∀ p ∈ l, p.1 ≠ p.2) :
      (if (l.any (·.1) && l.any (·.2)) = true then M
       else if l.any (·.2) = true then D
       else if l.any (·.1) = true then C else old) =
      (if l.all (·.1) = true then C else if l.all (·.2) = true then D else M) := by
  rw [any_fst_eq_not_all_snd l hx, any_snd_eq_not_all_fst l hx]
  have := not_all_both l hne hx
  cases ha : l.all (·.1) <;> cases hb : l.all (·.2) <;> simp_all

end Ach.Proofs
