import Ach.Model.ReaderSM
/-!
# Lemmas about the Reader's record dispatcher: reading what the Writer emits rebuilds the tree; no `9` record, no
file; acceptance only grows with the validation outcomes
-/
namespace Ach.ReaderSM

/-! ## addenda slots -/

/-- the order the Writer emits an entry's addenda in: ranks ascend, equal ranks only inside a slice -/
def SlotLE (a b : Slot × Rec) : Prop := a.1.rank < b.1.rank ∨ (a.1.rank = b.1.rank ∧ b.1.multi = true)

theorem attach_append (sl : Slot) (r : Rec) (l : List (Slot × Rec)) (h : ∀ x ∈ l, SlotLE x (sl, r)) :
    attach sl r l = l ++ [(sl, r)] := by
  induction l with
  | nil => rfl
  | cons x xs ih =>
    obtain ⟨sl', r'⟩ := x
    have hx := h (sl', r') (by simp)
    have ih' := ih (fun y hy => h y (by simp [hy]))
    unfold attach
    rcases hx with hlt | ⟨heq, hm⟩
    · have h1 : ¬ sl.rank < sl'.rank := by simp at hlt; omega
      have h2 : ¬ (sl.rank = sl'.rank) := by simp at hlt; omega
      simp [h1, h2, ih']
    · simp at heq hm
      have h1 : ¬ sl.rank < sl'.rank := by omega
      simp [h1, hm, ih']

theorem attachLast_snoc (sl : Slot) (r : Rec) (es : List TEntry) (e : TEntry) :
    attachLast sl r (es ++ [e]) = es ++ [{ e with addenda := attach sl r e.addenda }] := by
  induction es with
  | nil => rfl
  | cons x xs ih =>
    cases xs with
    | nil => simp [attachLast]
    | cons y ys => simp only [List.cons_append] at ih ⊢; unfold attachLast; simp [ih]

/-- `addendaInto` on a batch whose last entry expects addenda and whose slots so far precede the new one -/
theorem addendaInto_snoc (b : TBatch) (es : List TEntry) (e : TEntry) (sl : Slot) (r : Rec)
    (hb : b.entries = es ++ [e]) (hind : e.ind = true) (hle : ∀ x ∈ e.addenda, SlotLE x (sl, r)) :
    addendaInto b (some sl) true r =
      .ok { b with entries := es ++ [{ e with addenda := e.addenda ++ [(sl, r)] }] } := by
  unfold addendaInto
  rw [hb, List.getLast?_concat]
  simp [hind, attachLast_snoc, attach_append sl r e.addenda hle]

/-! ## well-formed trees (the records of a file in the order the Writer emits them) -/

/-- the addenda record `r` selects slot `sl` when it follows an entry of a batch of kind `k` -/
def SlotOK (k : BKind) (sl : Slot) : Rec → Prop
  | .ad stdSlot iatSlot _ =>
    match k with
    | .std => stdSlot = some sl
    | .adv => sl = advSlot
    | .iat => iatSlot = some sl
  | _ => False

/-- an entry record carrying indicator `ind` -/
def EntryOK (ind : Bool) : Rec → Prop
  | .ed i _ => i = ind
  | _ => False

structure WFEntry (k : BKind) (e : TEntry) : Prop where
  line : EntryOK e.ind e.line
  ind : e.addenda ≠ [] → e.ind = true
  slots : ∀ x ∈ e.addenda, SlotOK k x.1 x.2
  order : e.addenda.Pairwise SlotLE

def HeaderOK (k : BKind) : Rec → Prop
  | .bh kind _ => kind = k
  | _ => False

def ControlOK : Option Rec → Prop
  | some (.bc _) => True
  | _ => False

structure WFBatch (b : TBatch) : Prop where
  header : HeaderOK b.kind b.header
  entries : ∀ e ∈ b.entries, WFEntry b.kind e
  control : ControlOK b.control
  iatNonEmpty : b.kind = .iat → b.entries ≠ []

/-! ## running the dispatcher over an emitted batch, every validation succeeding

Two focus positions: `cur` (standard / ADV batch open, no IAT batch pending) and `iat` (IAT batch open). -/

theorem run_append (s : St) (a b : List (Rec × Bits)) : run s (a ++ b) = run (run s a) b := by
  simp [run, List.foldl_append]

theorem allOK_append (a b : List Rec) : allOK (a ++ b) = allOK a ++ allOK b := by simp [allOK]

section cur
variable (h c ac : Option Rec) (bs ibs : List TBatch) (errs : List Err)

theorem run_addenda_cur (b : TBatch) (hk : b.kind ≠ .iat) (es : List TEntry) (e : TEntry) (l : List (Slot × Rec))
    (hb : b.entries = es ++ [e]) (hind : l ≠ [] → e.ind = true)
    (hs : ∀ x ∈ l, SlotOK b.kind x.1 x.2) (ho : (e.addenda ++ l).Pairwise SlotLE) :
    run ⟨h, c, ac, bs, ibs, some b, none, errs⟩ (allOK (l.map (·.2))) =
      ⟨h, c, ac, bs, ibs, some { b with entries := es ++ [{ e with addenda := e.addenda ++ l }] }, none, errs⟩ := by
  induction l generalizing b e with
  | nil => simp [run, allOK, ← hb]
  | cons x xs ih =>
    obtain ⟨sl, r⟩ := x
    have hind' : e.ind = true := hind (by simp)
    have hsl := hs (sl, r) (by simp)
    have hle : ∀ y ∈ e.addenda, SlotLE y (sl, r) := by
      intro y hy
      have := List.pairwise_append.1 ho
      exact this.2.2 y hy (sl, r) (by simp)
    simp only [List.map_cons, allOK, run, List.foldl_cons]
    have hstep : step ⟨h, c, ac, bs, ibs, some b, none, errs⟩ r Bits.all =
        ⟨h, c, ac, bs, ibs, some { b with entries := es ++ [{ e with addenda := e.addenda ++ [(sl, r)] }] }, none, errs⟩ := by
      cases r with
      | ad stdSlot iatSlot id =>
        cases hkind : b.kind with
        | iat => exact absurd hkind hk
        | std =>
          simp only [SlotOK, hkind] at hsl
          subst hsl
          simp [step, hkind, Bits.all, addendaInto_snoc b es e sl _ hb hind' hle]
        | adv =>
          simp only [SlotOK, hkind] at hsl
          have := addendaInto_snoc b es e sl (.ad stdSlot iatSlot id) hb hind' hle
          rw [hsl] at this
          simp [step, hkind, Bits.all, this, hsl]
      | _ => exact absurd hsl (by simp [SlotOK])
    rw [hstep]
    have := ih { b with entries := es ++ [{ e with addenda := e.addenda ++ [(sl, r)] }] } hk
      { e with addenda := e.addenda ++ [(sl, r)] } rfl (fun _ => hind')
      (fun y hy => hs y (by simp [hy])) (by simpa using ho)
    simpa [run, allOK] using this

theorem run_entry_cur (b : TBatch) (hk : b.kind ≠ .iat) (e : TEntry) (he : WFEntry b.kind e) :
    run ⟨h, c, ac, bs, ibs, some b, none, errs⟩ (allOK (emitEntry e)) =
      ⟨h, c, ac, bs, ibs, some { b with entries := b.entries ++ [e] }, none, errs⟩ := by
  unfold emitEntry
  simp only [allOK, List.map_cons, run, List.foldl_cons]
  have hstep : step ⟨h, c, ac, bs, ibs, some b, none, errs⟩ e.line Bits.all =
      ⟨h, c, ac, bs, ibs, some (addEntry b e.line e.ind), none, errs⟩ := by
    have hl := he.line
    cases hline : e.line with
    | ed i id =>
      rw [hline] at hl
      simp only [EntryOK] at hl
      subst hl
      cases hkind : b.kind with
      | iat => exact absurd hkind hk
      | std => simp [step, hkind, Bits.all]
      | adv => simp [step, hkind, Bits.all]
    | _ => rw [hline] at hl; exact absurd hl (by simp [EntryOK])
  rw [hstep]
  have := run_addenda_cur h c ac bs ibs errs (addEntry b e.line e.ind) (by simpa [addEntry] using hk) b.entries
    ⟨e.line, e.ind, []⟩ e.addenda (by simp [addEntry]) he.ind (by simpa [addEntry] using he.slots) (by simpa using he.order)
  simpa [run, allOK, addEntry] using this

theorem run_entries_cur (b : TBatch) (hk : b.kind ≠ .iat) (es : List TEntry) (hes : ∀ e ∈ es, WFEntry b.kind e) :
    run ⟨h, c, ac, bs, ibs, some b, none, errs⟩ (allOK (es.flatMap emitEntry)) =
      ⟨h, c, ac, bs, ibs, some { b with entries := b.entries ++ es }, none, errs⟩ := by
  induction es generalizing b with
  | nil => simp [run, allOK]
  | cons e es ih =>
    simp only [List.flatMap_cons, allOK_append, run_append]
    rw [run_entry_cur h c ac bs ibs errs b hk e (hes e (by simp))]
    have h2 := ih { b with entries := b.entries ++ [e] } hk (fun e' he' => hes e' (by simp [he']))
    simpa using h2

/-- a whole standard / ADV batch, read with nothing pending, is appended to `File.Batches` -/
theorem run_batch_cur (b : TBatch) (hk : b.kind ≠ .iat) (hb : WFBatch b) :
    run ⟨h, c, ac, bs, ibs, none, none, errs⟩ (allOK (emitBatch b)) = ⟨h, c, ac, bs ++ [b], ibs, none, none, errs⟩ := by
  obtain ⟨kind, header, entries, control⟩ := b
  have hh := hb.header
  have hc := hb.control
  simp only at hh hc hk
  cases header with
  | bh k id =>
    simp only [HeaderOK] at hh
    subst hh
    cases control with
    | none => exact absurd hc (by simp [ControlOK])
    | some cr =>
      cases cr with
      | bc cid =>
        unfold emitBatch
        simp only [Option.toList]
        have e1 : allOK (Rec.bh k id :: (List.flatMap emitEntry entries ++ [Rec.bc cid])) =
            [(Rec.bh k id, Bits.all)] ++ allOK (List.flatMap emitEntry entries) ++ [(Rec.bc cid, Bits.all)] := by
          simp [allOK]
        rw [e1, run_append, run_append]
        have hstep : run ⟨h, c, ac, bs, ibs, none, none, errs⟩ [(Rec.bh k id, Bits.all)] =
            ⟨h, c, ac, bs, ibs, some ⟨k, .bh k id, [], none⟩, none, errs⟩ := by
          cases k with
          | iat => exact absurd rfl hk
          | std => simp [run, step, closePending, Bits.all]
          | adv => simp [run, step, closePending, Bits.all]
        rw [hstep]
        rw [run_entries_cur h c ac bs ibs errs ⟨k, .bh k id, [], none⟩ hk entries hb.entries]
        cases k with
        | iat => exact absurd rfl hk
        | std => simp [run, step, Bits.all]
        | adv => simp [run, step, Bits.all]
      | _ => exact absurd hc (by simp [ControlOK])
  | _ => exact absurd hh (by simp [HeaderOK])

theorem run_batches_cur (l : List TBatch) (hl : ∀ b ∈ l, b.kind ≠ .iat ∧ WFBatch b) :
    run ⟨h, c, ac, bs, ibs, none, none, errs⟩ (allOK (l.flatMap emitBatch)) = ⟨h, c, ac, bs ++ l, ibs, none, none, errs⟩ := by
  induction l generalizing bs with
  | nil => simp [run, allOK]
  | cons b l ih =>
    simp only [List.flatMap_cons, allOK_append, run_append]
    rw [run_batch_cur h c ac bs ibs errs b (hl b (by simp)).1 (hl b (by simp)).2]
    have h2 := ih (bs ++ [b]) (fun b' hb' => hl b' (by simp [hb']))
    simpa using h2

end cur

section iat
variable (h c ac : Option Rec) (bs ibs : List TBatch) (errs : List Err)

theorem run_addenda_iat (b : TBatch) (es : List TEntry) (e : TEntry) (l : List (Slot × Rec))
    (hb : b.entries = es ++ [e]) (hind : l ≠ [] → e.ind = true)
    (hs : ∀ x ∈ l, SlotOK .iat x.1 x.2) (ho : (e.addenda ++ l).Pairwise SlotLE) :
    run ⟨h, c, ac, bs, ibs, none, some b, errs⟩ (allOK (l.map (·.2))) =
      ⟨h, c, ac, bs, ibs, none, some { b with entries := es ++ [{ e with addenda := e.addenda ++ l }] }, errs⟩ := by
  induction l generalizing b e with
  | nil => simp [run, allOK, ← hb]
  | cons x xs ih =>
    obtain ⟨sl, r⟩ := x
    have hind' : e.ind = true := hind (by simp)
    have hsl := hs (sl, r) (by simp)
    have hle : ∀ y ∈ e.addenda, SlotLE y (sl, r) := by
      intro y hy
      have := List.pairwise_append.1 ho
      exact this.2.2 y hy (sl, r) (by simp)
    simp only [List.map_cons, allOK, run, List.foldl_cons]
    have hstep : step ⟨h, c, ac, bs, ibs, none, some b, errs⟩ r Bits.all =
        ⟨h, c, ac, bs, ibs, none, some { b with entries := es ++ [{ e with addenda := e.addenda ++ [(sl, r)] }] }, errs⟩ := by
      cases r with
      | ad stdSlot iatSlot id =>
        simp only [SlotOK] at hsl
        subst hsl
        simp [step, Bits.all, addendaInto_snoc b es e sl _ hb hind' hle]
      | _ => exact absurd hsl (by simp [SlotOK])
    rw [hstep]
    have := ih { b with entries := es ++ [{ e with addenda := e.addenda ++ [(sl, r)] }] }
      { e with addenda := e.addenda ++ [(sl, r)] } rfl (fun _ => hind')
      (fun y hy => hs y (by simp [hy])) (by simpa using ho)
    simpa [run, allOK] using this

theorem run_entry_iat (b : TBatch) (e : TEntry) (he : WFEntry .iat e) :
    run ⟨h, c, ac, bs, ibs, none, some b, errs⟩ (allOK (emitEntry e)) =
      ⟨h, c, ac, bs, ibs, none, some { b with entries := b.entries ++ [e] }, errs⟩ := by
  unfold emitEntry
  simp only [allOK, List.map_cons, run, List.foldl_cons]
  have hstep : step ⟨h, c, ac, bs, ibs, none, some b, errs⟩ e.line Bits.all =
      ⟨h, c, ac, bs, ibs, none, some (addEntry b e.line e.ind), errs⟩ := by
    have hl := he.line
    cases hline : e.line with
    | ed i id =>
      rw [hline] at hl
      simp only [EntryOK] at hl
      subst hl
      simp [step, Bits.all]
    | _ => rw [hline] at hl; exact absurd hl (by simp [EntryOK])
  rw [hstep]
  have := run_addenda_iat h c ac bs ibs errs (addEntry b e.line e.ind) b.entries
    ⟨e.line, e.ind, []⟩ e.addenda (by simp [addEntry]) he.ind he.slots (by simpa using he.order)
  simpa [run, allOK, addEntry] using this

theorem run_entries_iat (b : TBatch) (es : List TEntry) (hes : ∀ e ∈ es, WFEntry .iat e) :
    run ⟨h, c, ac, bs, ibs, none, some b, errs⟩ (allOK (es.flatMap emitEntry)) =
      ⟨h, c, ac, bs, ibs, none, some { b with entries := b.entries ++ es }, errs⟩ := by
  induction es generalizing b with
  | nil => simp [run, allOK]
  | cons e es ih =>
    simp only [List.flatMap_cons, allOK_append, run_append]
    rw [run_entry_iat h c ac bs ibs errs b e (hes e (by simp))]
    have h2 := ih { b with entries := b.entries ++ [e] } (fun e' he' => hes e' (by simp [he']))
    simpa using h2

/-- a whole IAT batch (at least one entry), read with nothing pending, is appended to `File.IATBatches` -/
theorem run_batch_iat (b : TBatch) (hk : b.kind = .iat) (hb : WFBatch b) :
    run ⟨h, c, ac, bs, ibs, none, none, errs⟩ (allOK (emitBatch b)) = ⟨h, c, ac, bs, ibs ++ [b], none, none, errs⟩ := by
  obtain ⟨kind, header, entries, control⟩ := b
  have hh := hb.header
  have hc := hb.control
  have hne := hb.iatNonEmpty
  simp only at hh hc hk hne
  subst hk
  cases header with
  | bh k id =>
    simp only [HeaderOK] at hh
    subst hh
    cases control with
    | none => exact absurd hc (by simp [ControlOK])
    | some cr =>
      cases cr with
      | bc cid =>
        unfold emitBatch
        simp only [Option.toList]
        have e1 : allOK (Rec.bh .iat id :: (List.flatMap emitEntry entries ++ [Rec.bc cid])) =
            [(Rec.bh .iat id, Bits.all)] ++ allOK (List.flatMap emitEntry entries) ++ [(Rec.bc cid, Bits.all)] := by
          simp [allOK]
        rw [e1, run_append, run_append]
        have hstep : run ⟨h, c, ac, bs, ibs, none, none, errs⟩ [(Rec.bh .iat id, Bits.all)] =
            ⟨h, c, ac, bs, ibs, none, some ⟨.iat, .bh .iat id, [], none⟩, errs⟩ := by
          simp [run, step, closePending, Bits.all]
        rw [hstep]
        rw [run_entries_iat h c ac bs ibs errs ⟨.iat, .bh .iat id, [], none⟩ entries (by simpa using hb.entries)]
        have hne' : entries ≠ [] := hne rfl
        simp [run, step, Bits.all, hne']
      | _ => exact absurd hc (by simp [ControlOK])
  | _ => exact absurd hh (by simp [HeaderOK])

theorem run_batches_iat (l : List TBatch) (hl : ∀ b ∈ l, b.kind = .iat ∧ WFBatch b) :
    run ⟨h, c, ac, bs, ibs, none, none, errs⟩ (allOK (l.flatMap emitBatch)) = ⟨h, c, ac, bs, ibs ++ l, none, none, errs⟩ := by
  induction l generalizing ibs with
  | nil => simp [run, allOK]
  | cons b l ih =>
    simp only [List.flatMap_cons, allOK_append, run_append]
    rw [run_batch_iat h c ac bs ibs errs b (hl b (by simp)).1 (hl b (by simp)).2]
    have h2 := ih (ibs ++ [b]) (fun b' hb' => hl b' (by simp [hb']))
    simpa using h2

end iat

theorem run_cons (s : St) (r : Rec) (v : Bits) (rest : List (Rec × Bits)) :
    run s ((r, v) :: rest) = run (step s r v) rest := rfl

theorem run_fillers (s : St) : ∀ (vs : List Bits), run s ((List.replicate vs.length Rec.filler).zip vs) = s
  | [] => by simp [run]
  | v :: vs => by
    simp only [List.length_cons, List.replicate_succ, List.zip_cons_cons]
    rw [run_cons]
    exact run_fillers s vs

/-! ## whole files -/

structure WFTree (t : Tree) : Prop where
  header : ∃ id, t.header = .fh id
  batches : ∀ b ∈ t.batches, b.kind ≠ .iat ∧ WFBatch b
  iatBatches : ∀ b ∈ t.iatBatches, b.kind = .iat ∧ WFBatch b
  control : ∃ id, t.control = .fc id

/-- the records before the file control, as the Writer emits them -/
def body (t : Tree) : List Rec := t.header :: (t.batches.flatMap emitBatch ++ t.iatBatches.flatMap emitBatch)

theorem emit_eq_body (t : Tree) : emit t = body t ++ [t.control] := by simp [emit, body]

/-- did the file control record validate as the control the Reader parses it into -/
def controlValid (t : Tree) (vc : Bits) : Bool := if isADV t.batches then vc.v2 else vc.v1

/-- what `Read` returns for the emission of `t` (the Reader's state after the last record; the tail of `Read`
changes nothing) -/
def expected (t : Tree) (vc : Bits) : St :=
  { header := some t.header,
    control := if isADV t.batches then none else some t.control,
    advControl := if isADV t.batches then some t.control else none,
    batches := t.batches,
    iatBatches := t.iatBatches,
    cur := none,
    iat := none,
    errs := if controlValid t vc then [] else [.recInvalid] }

/-- the input of the round trip: every record validates, except that the file control's outcome `vc` is left open;
`fill` are the (irrelevant) outcomes attached to the filler records, one per filler -/
def emitted (t : Tree) (vc : Bits) (fill : List Bits) : List (Rec × Bits) :=
  allOK (body t) ++ [(t.control, vc)] ++ (List.replicate fill.length Rec.filler).zip fill

theorem run_body (t : Tree) (ht : WFTree t) :
    run init (allOK (body t)) = ⟨some t.header, none, none, t.batches, t.iatBatches, none, none, []⟩ := by
  obtain ⟨hid, hh⟩ := ht.header
  unfold body
  have e1 : allOK (t.header :: (t.batches.flatMap emitBatch ++ t.iatBatches.flatMap emitBatch)) =
      [(t.header, Bits.all)] ++ allOK (t.batches.flatMap emitBatch) ++ allOK (t.iatBatches.flatMap emitBatch) := by
    simp [allOK]
  rw [e1, run_append, run_append]
  have h0 : run init [(t.header, Bits.all)] = ⟨some t.header, none, none, [], [], none, none, []⟩ := by
    rw [hh]; simp [run, step, init, Bits.all]
  rw [h0, run_batches_cur (some t.header) none none [] [] [] t.batches ht.batches]
  have h2 := run_batches_iat (some t.header) none none ([] ++ t.batches) [] [] t.iatBatches ht.iatBatches
  simpa using h2

theorem run_emit (t : Tree) (ht : WFTree t) (vc : Bits) (fill : List Bits) :
    run init (emitted t vc fill) = expected t vc := by
  obtain ⟨cid, hc⟩ := ht.control
  unfold emitted
  rw [run_append, run_append, run_body t ht, run_fillers _ fill]
  rw [hc]
  cases hadv : isADV t.batches <;> cases h1 : vc.v1 <;> cases h2 : vc.v2 <;>
    simp [run, step, hadv, expected, controlValid, hc, St.err, h1, h2]

theorem finish_expected (t : Tree) (vc : Bits) : finish false false (expected t vc) = expected t vc := by
  cases hadv : isADV t.batches <;> simp [finish, expected, hadv]

/-- **reading what the Writer emits** (any number of trailing filler records) rebuilds the same tree, and reports
an error only if the file control record itself does not validate -/
theorem read_emit (t : Tree) (ht : WFTree t) (vc : Bits) (fill : List Bits) :
    read (emitted t vc fill) = expected t vc := by
  unfold read
  rw [run_emit t ht vc fill, finish_expected]

theorem finish_errs (a b : Bool) (s : St) : ∃ l, (finish a b s).errs = s.errs ++ l := by
  unfold finish
  cases s.cur <;> simp only [St.err] <;> (repeat' split) <;> simp

/-- a second file control record (what a filler record cut after its first column looks like) is refused -/
theorem read_extra_control (t : Tree) (ht : WFTree t) (vc : Bits) (fill : List Bits) (i : Nat) (v : Bits) :
    (read (emitted t vc fill ++ [(.fc i, v)])).errs ≠ [] := by
  unfold read
  rw [run_append, run_emit t ht vc fill]
  obtain ⟨l, hl⟩ := finish_errs false false (run (expected t vc) [(.fc i, v)])
  rw [hl]
  have : (run (expected t vc) [(.fc i, v)]).errs ≠ [] := by
    cases hadv : isADV t.batches <;> simp [run, step, expected, hadv, St.err]
  intro h
  exact this (List.append_eq_nil_iff.1 h).1

/-! ## no file control record, no file -/

def Rec.isFC : Rec → Bool
  | .fc _ => true
  | _ => false

theorem closePending_controls {s s1 : St} (h : closePending s = .ok s1) :
    s1.control = s.control ∧ s1.advControl = s.advControl ∧ s1.errs = s.errs := by
  unfold closePending at h
  split at h
  · cases h; simp
  · split at h
    · cases h
    · cases h; simp

theorem step_controls (s : St) (r : Rec) (v : Bits) (hr : r.isFC = false) :
    (step s r v).control = s.control ∧ (step s r v).advControl = s.advControl := by
  cases r with
  | fc a => simp [Rec.isFC] at hr
  | fh id => simp only [step, St.err]; (repeat' split) <;> simp_all
  | bh kind id =>
    simp only [step, St.err]
    split
    · simp
    · rename_i s1 h1
      have := closePending_controls h1
      (repeat' split) <;> simp_all
  | ed ind id => simp only [step, St.err]; (repeat' split) <;> simp_all
  | ad stdSlot iatSlot id => simp only [step, St.err]; (repeat' split) <;> simp_all
  | bc id => simp only [step, St.err]; (repeat' split) <;> simp_all
  | filler => simp [step]
  | unknown id => simp [step, St.err]

theorem run_controls (s : St) (rs : List (Rec × Bits)) (hrs : ∀ r ∈ rs, r.1.isFC = false) :
    (run s rs).control = s.control ∧ (run s rs).advControl = s.advControl := by
  induction rs generalizing s with
  | nil => simp [run]
  | cons r rs ih =>
    have h1 := step_controls s r.1 r.2 (hrs r (by simp))
    have h2 := ih (step s r.1 r.2) (fun r' hr' => hrs r' (by simp [hr']))
    simp only [run, List.foldl_cons] at h2 ⊢
    exact ⟨h2.1.trans h1.1, h2.2.trans h1.2⟩

/-- without a file control record the Reader reports `ErrFileControl`, whatever else the text holds and whatever
validates -/
theorem read_without_control (rs : List (Rec × Bits)) (hrs : ∀ r ∈ rs, r.1.isFC = false) :
    Err.missingControl ∈ (read rs).errs := by
  have hc := run_controls init rs hrs
  unfold read finish
  simp only
  generalize run init rs = s at hc
  obtain ⟨h1, h2⟩ := hc
  simp only [init] at h1 h2
  cases hcur : s.cur <;> simp only [St.err, h1, h2] <;> (split <;> simp [h1, h2])

/-! ## everything the Writer emits before the file control is not a file control record -/

theorem slotOK_notFC {k : BKind} {sl : Slot} {r : Rec} (h : SlotOK k sl r) : r.isFC = false := by
  cases r <;> simp_all [SlotOK, Rec.isFC]

theorem emitBatch_notFC (b : TBatch) (hb : WFBatch b) : ∀ r ∈ emitBatch b, r.isFC = false := by
  intro r hr
  unfold emitBatch at hr
  simp only [List.mem_cons, List.mem_append, List.mem_flatMap] at hr
  rcases hr with rfl | ⟨e, he, hre⟩ | hc
  · have := hb.header
    cases hh : b.header <;> simp_all [HeaderOK, Rec.isFC]
  · have hwe := hb.entries e he
    unfold emitEntry at hre
    simp only [List.mem_cons, List.mem_map] at hre
    rcases hre with rfl | ⟨x, hx, rfl⟩
    · have := hwe.line
      cases hl : e.line <;> simp_all [EntryOK, Rec.isFC]
    · exact slotOK_notFC (hwe.slots x hx)
  · have := hb.control
    cases hcc : b.control with
    | none => simp [hcc] at hc
    | some c =>
      simp [hcc] at hc
      subst hc
      rw [hcc] at this
      cases r <;> simp_all [ControlOK, Rec.isFC]

theorem body_notFC (t : Tree) (ht : WFTree t) : ∀ r ∈ body t, r.isFC = false := by
  intro r hr
  unfold body at hr
  simp only [List.mem_cons, List.mem_append, List.mem_flatMap] at hr
  rcases hr with rfl | ⟨b, hb, hrb⟩ | ⟨b, hb, hrb⟩
  · obtain ⟨id, h⟩ := ht.header; simp [h, Rec.isFC]
  · exact emitBatch_notFC b (ht.batches b hb).2 r hrb
  · exact emitBatch_notFC b (ht.iatBatches b hb).2 r hrb

/-- **a transfer cut short before the file control record** — at a record boundary or inside a record (`tail`: whatever
the cut record looks like and however it validates, as long as it is not a file control record) — is rejected -/
theorem read_truncated_body (t : Tree) (ht : WFTree t) (j : Nat) (vs : List Bits) (tail : List (Rec × Bits))
    (htail : ∀ r ∈ tail, r.1.isFC = false) :
    Err.missingControl ∈ (read (((body t).take j).zip vs ++ tail)).errs := by
  apply read_without_control
  intro r hr
  rcases List.mem_append.1 hr with h | h
  · have := (List.of_mem_zip h).1
    exact body_notFC t ht r.1 (List.mem_of_mem_take this)
  · exact htail r h

/-! ## acceptance only grows with the validation outcomes (C15 at the level of the Reader) -/

def Bits.le (v w : Bits) : Prop := (v.v1 = true → w.v1 = true) ∧ (v.v2 = true → w.v2 = true) ∧
  (v.v3 = true → w.v3 = true) ∧ (v.b = true → w.b = true)

theorem step_errs (s : St) (r : Rec) (v : Bits) : ∃ l, (step s r v).errs = s.errs ++ l := by
  cases r with
  | fh id => simp only [step, St.err]; (repeat' split) <;> simp
  | bh kind id =>
    simp only [step, St.err]
    split
    · simp
    · rename_i s1 h1
      have := (closePending_controls h1).2.2
      (repeat' split) <;> simp [this]
  | ed ind id => simp only [step, St.err]; (repeat' split) <;> simp
  | ad stdSlot iatSlot id => simp only [step, St.err]; (repeat' split) <;> simp
  | bc id => simp only [step, St.err]; (repeat' split) <;> simp
  | fc id => simp only [step, St.err]; (repeat' split) <;> simp
  | filler => exact ⟨[], by simp [step]⟩
  | unknown id => simp [step, St.err]

theorem addendaInto_mono (b : TBatch) (slot : Option Slot) (ok ok' : Bool) (r : Rec) (b' : TBatch)
    (hle : ok = true → ok' = true) (h : addendaInto b slot ok r = .ok b') : addendaInto b slot ok' r = .ok b' := by
  unfold addendaInto at h ⊢
  cases hl : b.entries.getLast? with
  | none => simp [hl] at h
  | some e =>
    simp only [hl] at h ⊢
    cases hi : e.ind with
    | false => simp [hi] at h
    | true =>
      simp only [hi] at h ⊢
      cases slot with
      | none => simpa using h
      | some sl =>
        cases hok : ok with
        | false => simp [hok] at h
        | true => simp [hok] at h; simp [hle hok, h]

theorem snoc_ne (l : List Err) (e : Err) : l ++ [e] ≠ l := by
  intro h
  have := congrArg List.length h
  simp at this

/-- a step that raised no error takes the same branch when more validations succeed -/
theorem step_mono (s : St) (r : Rec) (v w : Bits) (hle : Bits.le v w) (hno : (step s r v).errs = s.errs) :
    step s r w = step s r v := by
  obtain ⟨l1, l2, l3, l4⟩ := hle
  cases r with
  | fh id =>
    simp only [step, St.err] at hno ⊢
    split
    · rfl
    · rename_i hh
      simp only [hh] at hno
      cases h1 : v.v1 with
      | true => simp [l1 h1]
      | false => simp [h1] at hno
  | bh kind id =>
    simp only [step, St.err] at hno ⊢
    split
    · rfl
    · rename_i s1 hs1
      simp only [hs1] at hno
      have hs1e : s1.errs = s.errs := (closePending_controls hs1).2.2
      by_cases hk : (kind == BKind.iat) = true
      · simp only [hk, if_true] at hno ⊢
        cases h3 : v.v3 with
        | true => simp [l3 h3]
        | false => simp [h3, hs1e] at hno
      · simp only [hk, if_false, Bool.false_eq_true] at hno ⊢
        cases h1 : v.v1 with
        | false => simp [h1, hs1e] at hno
        | true =>
          cases h2 : v.v2 with
          | false => simp [h1, h2, hs1e] at hno
          | true => simp [l1 h1, l2 h2]
  | ed ind id =>
    simp only [step, St.err] at hno ⊢
    split
    · rename_i ib hib
      simp only [hib] at hno
      cases h3 : v.v3 with
      | true => simp [l3 h3]
      | false => simp [h3] at hno
    · rename_i hib
      simp only [hib] at hno
      split
      · rfl
      · rename_i b hb
        simp only [hb] at hno
        by_cases hk : (b.kind == BKind.adv) = true
        · simp only [hk, if_true] at hno ⊢
          cases h2 : v.v2 with
          | true => simp [l2 h2]
          | false => simp [h2] at hno
        · simp only [hk, if_false, Bool.false_eq_true] at hno ⊢
          cases h1 : v.v1 with
          | true => simp [l1 h1]
          | false => simp [h1] at hno
  | ad stdSlot iatSlot id =>
    simp only [step, St.err] at hno ⊢
    split
    · rename_i b hb
      simp only [hb] at hno
      by_cases hk : (b.kind == BKind.adv) = true
      · simp only [hk, if_true] at hno ⊢
        cases hres : addendaInto b (some advSlot) v.v2 (Rec.ad stdSlot iatSlot id) with
        | ok b' => rw [addendaInto_mono b _ v.v2 w.v2 _ b' l2 hres]
        | error e => simp [hres] at hno
      · simp only [hk, if_false, Bool.false_eq_true] at hno ⊢
        cases hres : addendaInto b stdSlot v.v1 (Rec.ad stdSlot iatSlot id) with
        | ok b' => rw [addendaInto_mono b _ v.v1 w.v1 _ b' l1 hres]
        | error e => simp [hres] at hno
    · rename_i hb
      simp only [hb] at hno
      split
      · rfl
      · rename_i ib hib
        simp only [hib] at hno
        cases hres : addendaInto ib iatSlot v.v3 (Rec.ad stdSlot iatSlot id) with
        | ok b' => rw [addendaInto_mono ib _ v.v3 w.v3 _ b' l3 hres]
        | error e => simp [hres] at hno
  | bc id =>
    simp only [step, St.err] at hno ⊢
    split
    · rename_i b hb
      simp only [hb] at hno
      by_cases hk : (b.kind == BKind.adv) = true
      · simp only [hk, if_true] at hno ⊢
        cases h2 : v.v2 with
        | false => simp [h2] at hno
        | true =>
          cases hb' : v.b with
          | false => simp [h2, hb'] at hno
          | true => simp [l2 h2, l4 hb']
      · simp only [hk, if_false, Bool.false_eq_true] at hno ⊢
        cases h1 : v.v1 with
        | false => simp [h1] at hno
        | true =>
          cases hb' : v.b with
          | false => simp [h1, hb'] at hno
          | true => simp [l1 h1, l4 hb']
    · rename_i hb
      simp only [hb] at hno
      split
      · rfl
      · rename_i ib hib
        simp only [hib] at hno
        split
        · rfl
        · rename_i hne
          simp only [hne, if_false, Bool.false_eq_true] at hno
          cases h1 : v.v1 with
          | false => simp [h1] at hno
          | true =>
            cases hb' : v.b with
            | false => simp [h1, hb'] at hno
            | true => simp [l1 h1, l4 hb']
  | fc id =>
    simp only [step, St.err] at hno ⊢
    split
    · rename_i hadv
      simp only [hadv, if_true] at hno
      split
      · rfl
      · rename_i hnone
        simp only [hnone] at hno
        cases h2 : v.v2 with
        | true => simp [l2 h2]
        | false => simp [h2] at hno
    · rename_i hadv
      simp only [hadv, if_false, Bool.false_eq_true] at hno
      split
      · rfl
      · rename_i hnone
        simp only [hnone] at hno
        cases h1 : v.v1 with
        | true => simp [l1 h1]
        | false => simp [h1] at hno
  | filler => rfl
  | unknown id => rfl

theorem run_errs (s : St) (rs : List (Rec × Bits)) : ∃ l, (run s rs).errs = s.errs ++ l := by
  induction rs generalizing s with
  | nil => exact ⟨[], by simp [run]⟩
  | cons r rs ih =>
    obtain ⟨l1, h1⟩ := step_errs s r.1 r.2
    obtain ⟨l2, h2⟩ := ih (step s r.1 r.2)
    refine ⟨l1 ++ l2, ?_⟩
    have : run s (r :: rs) = run (step s r.1 r.2) rs := rfl
    rw [this, h2, h1, List.append_assoc]

/-- a run without errors is the same run when more validations succeed -/
theorem run_mono : ∀ (rs : List Rec) (s : St) (vs ws : List Bits), s.errs = [] → vs.length = rs.length →
    ws.length = rs.length → (∀ i (h1 : i < vs.length) (h2 : i < ws.length), Bits.le vs[i] ws[i]) →
    (run s (rs.zip vs)).errs = [] → run s (rs.zip ws) = run s (rs.zip vs)
  | [], _, _, _, _, _, _, _, _ => by simp [run]
  | r :: rs, s, vs, ws, hs, hv, hw, hle, herr => by
    cases vs with
    | nil => simp at hv
    | cons v vs =>
      cases ws with
      | nil => simp at hw
      | cons w ws =>
        simp only [List.zip_cons_cons, run_cons] at herr ⊢
        obtain ⟨l1, h1⟩ := step_errs s r v
        obtain ⟨l2, h2⟩ := run_errs (step s r v) (rs.zip vs)
        rw [h2, h1, hs] at herr
        have hl1 : l1 = [] := by
          have := List.append_eq_nil_iff.1 herr
          exact (List.append_eq_nil_iff.1 this.1).2
        have hno : (step s r v).errs = s.errs := by rw [h1, hl1]; simp
        rw [step_mono s r v w (hle 0 (by simp) (by simp)) hno]
        apply run_mono rs (step s r v) vs ws (by rw [hno, hs]) (by simpa using hv) (by simpa using hw)
        · intro i h1' h2'
          have := hle (i + 1) (by simp; omega) (by simp; omega)
          simpa using this
        · rw [h2, h1, hs]; exact herr

theorem finish_mono (a b a' b' : Bool) (ha : a = true → a' = true) (hb : b = true → b' = true) (s : St)
    (h : (finish a b s).errs = []) : (finish a' b' s).errs = [] := by
  unfold finish at h ⊢
  cases hcur : s.cur <;> simp only [hcur, St.err] at h ⊢ <;>
    (cases a <;> cases b <;> cases a' <;> cases b' <;> simp_all <;> (repeat' split at h) <;> simp_all)

/-- **reader_monotone**: a record sequence `Read` accepts is still accepted when more of the record- and batch-level
validations succeed and when missing header / control become allowed — the Reader never turns an extra success into
a rejection -/
theorem read_mono (rs : List Rec) (vs ws : List Bits) (hv : vs.length = rs.length) (hw : ws.length = rs.length)
    (hle : ∀ i (h1 : i < vs.length) (h2 : i < ws.length), Bits.le vs[i] ws[i])
    (a b a' b' : Bool) (ha : a = true → a' = true) (hb : b = true → b' = true)
    (h : (finish a b (run init (rs.zip vs))).errs = []) : (finish a' b' (run init (rs.zip ws))).errs = [] := by
  obtain ⟨l, hl⟩ := finish_errs a b (run init (rs.zip vs))
  have h' := h
  rw [hl] at h'
  have hrun : (run init (rs.zip vs)).errs = [] := (List.append_eq_nil_iff.1 h').1
  rw [run_mono rs init vs ws rfl hv hw hle hrun]
  exact finish_mono a b a' b' ha hb _ h

end Ach.ReaderSM
