import Ach.Model.ReaderSM
/-!
# Lemmas about the Reader's record dispatcher: reading what the Writer emits rebuilds the tree; no `9` record, no file
-/
namespace Ach.ReaderSM

/-! ## addenda slots -/

/-- the order the Writer emits an entry's addenda in: ranks ascend, equal ranks only inside a slice -/
def SlotLE (a b : Slot × Rec) : Prop := a.1.rank < b.1.rank ∨ (a.1.rank = b.1.rank ∧ b.1.multi = true)

theorem attach_append (sl : Slot) (r : Rec) (l : List (Slot × Rec)) (h : ∀ x ∈ l, SlotLE x (sl, r)) :
    attach sl r l = l ++ [(sl, r)] := by
  induction l with
  | nil => rfl
  | cons x xs ih =>
    obtain ⟨sl', r'⟩ := x
    have hx := h (sl', r') (by simp)
    have ih' := ih (fun y hy => h y (by simp [hy]))
    unfold attach
    rcases hx with hlt | ⟨heq, hm⟩
    · have h1 : ¬ sl.rank < sl'.rank := by simp at hlt; omega
      have h2 : ¬ (sl.rank = sl'.rank) := by simp at hlt; omega
      simp [h1, h2, ih']
    · simp at heq hm
      have h1 : ¬ sl.rank < sl'.rank := by omega
      simp [h1, hm, ih']

theorem attachLast_snoc (sl : Slot) (r : Rec) (es : List TEntry) (e : TEntry) :
    attachLast sl r (es ++ [e]) = es ++ [{ e with addenda := attach sl r e.addenda }] := by
  induction es with
  | nil => rfl
  | cons x xs ih =>
    cases xs with
    | nil => simp [attachLast]
    | cons y ys => simp only [List.cons_append] at ih ⊢; unfold attachLast; simp [ih]

/-- `addendaInto` on a batch whose last entry expects addenda and whose slots so far precede the new one -/
theorem addendaInto_snoc (b : TBatch) (es : List TEntry) (e : TEntry) (sl : Slot) (r : Rec)
    (hb : b.entries = es ++ [e]) (hind : e.ind = true) (hle : ∀ x ∈ e.addenda, SlotLE x (sl, r)) :
    addendaInto b (some sl) true r =
      .ok { b with entries := es ++ [{ e with addenda := e.addenda ++ [(sl, r)] }] } := by
  unfold addendaInto
  rw [hb, List.getLast?_concat]
  simp [hind, attachLast_snoc, attach_append sl r e.addenda hle]

/-! ## well-formed trees (what the Writer emits for a file the Reader accepts) -/

/-- the addenda record `r` validates and selects slot `sl` when it follows an entry of a batch of kind `k` -/
def SlotOK (k : BKind) (sl : Slot) : Rec → Prop
  | .ad stdSlot iatSlot okStd okAdv okIat _ =>
    match k with
    | .std => stdSlot = some sl ∧ okStd = true
    | .adv => sl = advSlot ∧ okAdv = true
    | .iat => iatSlot = some sl ∧ okIat = true
  | _ => False

/-- the entry record validates as an entry of a batch of kind `k` and carries indicator `ind` -/
def EntryOK (k : BKind) (ind : Bool) : Rec → Prop
  | .ed i okStd okAdv okIat _ =>
    i = ind ∧ match k with
      | .std => okStd = true
      | .adv => okAdv = true
      | .iat => okIat = true
  | _ => False

structure WFEntry (k : BKind) (e : TEntry) : Prop where
  line : EntryOK k e.ind e.line
  ind : e.addenda ≠ [] → e.ind = true
  slots : ∀ x ∈ e.addenda, SlotOK k x.1 x.2
  order : e.addenda.Pairwise SlotLE

def HeaderOK (k : BKind) : Rec → Prop
  | .bh kind ok newOK _ => kind = k ∧ ok = true ∧ (k ≠ .iat → newOK = true)
  | _ => False

def ControlOK (k : BKind) : Option Rec → Prop
  | some (.bc ok okAdv batchOK _) => batchOK = true ∧ (if k = .adv then okAdv = true else ok = true)
  | _ => False

structure WFBatch (b : TBatch) : Prop where
  header : HeaderOK b.kind b.header
  entries : ∀ e ∈ b.entries, WFEntry b.kind e
  control : ControlOK b.kind b.control
  iatNonEmpty : b.kind = .iat → b.entries ≠ []

/-! ## running the dispatcher over an emitted batch

Two focus positions: `cur` (standard / ADV batch open, no IAT batch pending) and `iat` (IAT batch open). -/

section cur
variable (h c ac : Option Rec) (bs ibs : List TBatch) (errs : List Err)

theorem run_addenda_cur (b : TBatch) (hk : b.kind ≠ .iat) (es : List TEntry) (e : TEntry) (l : List (Slot × Rec))
    (hb : b.entries = es ++ [e]) (hind : l ≠ [] → e.ind = true)
    (hs : ∀ x ∈ l, SlotOK b.kind x.1 x.2) (ho : (e.addenda ++ l).Pairwise SlotLE) :
    run ⟨h, c, ac, bs, ibs, some b, none, errs⟩ (l.map (·.2)) =
      ⟨h, c, ac, bs, ibs, some { b with entries := es ++ [{ e with addenda := e.addenda ++ l }] }, none, errs⟩ := by
  induction l generalizing b e with
  | nil => simp [run, ← hb]
  | cons x xs ih =>
    obtain ⟨sl, r⟩ := x
    have hind' : e.ind = true := hind (by simp)
    have hsl := hs (sl, r) (by simp)
    have hle : ∀ y ∈ e.addenda, SlotLE y (sl, r) := by
      intro y hy
      have := List.pairwise_append.1 ho
      exact this.2.2 y hy (sl, r) (by simp)
    simp only [List.map_cons, run, List.foldl_cons]
    have hstep : step ⟨h, c, ac, bs, ibs, some b, none, errs⟩ r =
        ⟨h, c, ac, bs, ibs, some { b with entries := es ++ [{ e with addenda := e.addenda ++ [(sl, r)] }] }, none, errs⟩ := by
      cases r with
      | ad stdSlot iatSlot okStd okAdv okIat id =>
        cases hkind : b.kind with
        | iat => exact absurd hkind hk
        | std =>
          simp only [SlotOK, hkind] at hsl
          obtain ⟨h1, h2⟩ := hsl
          subst h1; subst h2
          simp [step, hkind, addendaInto_snoc b es e sl _ hb hind' hle]
        | adv =>
          simp only [SlotOK, hkind] at hsl
          obtain ⟨h1, h2⟩ := hsl
          subst h2
          have := addendaInto_snoc b es e sl (.ad stdSlot iatSlot okStd true okIat id) hb hind' hle
          rw [h1] at this
          simp [step, hkind, this, h1]
      | _ => exact absurd hsl (by simp [SlotOK])
    rw [hstep]
    have := ih { b with entries := es ++ [{ e with addenda := e.addenda ++ [(sl, r)] }] } hk
      { e with addenda := e.addenda ++ [(sl, r)] } rfl (fun _ => hind')
      (fun y hy => hs y (by simp [hy])) (by simpa using ho)
    simpa [run] using this

theorem run_entry_cur (b : TBatch) (hk : b.kind ≠ .iat) (e : TEntry) (he : WFEntry b.kind e) :
    run ⟨h, c, ac, bs, ibs, some b, none, errs⟩ (emitEntry e) =
      ⟨h, c, ac, bs, ibs, some { b with entries := b.entries ++ [e] }, none, errs⟩ := by
  unfold emitEntry
  simp only [run, List.foldl_cons]
  have hstep : step ⟨h, c, ac, bs, ibs, some b, none, errs⟩ e.line =
      ⟨h, c, ac, bs, ibs, some (addEntry b e.line e.ind), none, errs⟩ := by
    have hl := he.line
    cases hline : e.line with
    | ed i okStd okAdv okIat id =>
      rw [hline] at hl
      simp only [EntryOK] at hl
      obtain ⟨hi, hok⟩ := hl
      subst hi
      cases hkind : b.kind with
      | iat => exact absurd hkind hk
      | std => simp only [hkind] at hok; simp [step, hkind, hok]
      | adv => simp only [hkind] at hok; simp [step, hkind, hok]
    | _ => rw [hline] at hl; exact absurd hl (by simp [EntryOK])
  rw [hstep]
  have := run_addenda_cur h c ac bs ibs errs (addEntry b e.line e.ind) (by simpa [addEntry] using hk) b.entries
    ⟨e.line, e.ind, []⟩ e.addenda (by simp [addEntry]) he.ind (by simpa [addEntry] using he.slots) (by simpa using he.order)
  simpa [run, addEntry] using this

theorem run_entries_cur (b : TBatch) (hk : b.kind ≠ .iat) (es : List TEntry) (hes : ∀ e ∈ es, WFEntry b.kind e) :
    run ⟨h, c, ac, bs, ibs, some b, none, errs⟩ (es.flatMap emitEntry) =
      ⟨h, c, ac, bs, ibs, some { b with entries := b.entries ++ es }, none, errs⟩ := by
  induction es generalizing b with
  | nil => simp [run]
  | cons e es ih =>
    simp only [List.flatMap_cons, run, List.foldl_append]
    have h1 := run_entry_cur h c ac bs ibs errs b hk e (hes e (by simp))
    simp only [run] at h1
    rw [h1]
    have h2 := ih { b with entries := b.entries ++ [e] } hk (fun e' he' => hes e' (by simp [he']))
    simpa [run] using h2

/-- a whole standard / ADV batch, read with nothing pending, is appended to `File.Batches` -/
theorem run_batch_cur (b : TBatch) (hk : b.kind ≠ .iat) (hb : WFBatch b) :
    run ⟨h, c, ac, bs, ibs, none, none, errs⟩ (emitBatch b) = ⟨h, c, ac, bs ++ [b], ibs, none, none, errs⟩ := by
  obtain ⟨kind, header, entries, control⟩ := b
  have hh := hb.header
  have hc := hb.control
  simp only at hh hc hk
  cases header with
  | bh k ok newOK id =>
    simp only [HeaderOK] at hh
    obtain ⟨h1, h2, h3⟩ := hh
    subst h1; subst h2
    have h3' := h3 hk
    subst h3'
    cases control with
    | none => exact absurd hc (by simp [ControlOK])
    | some cr =>
      cases cr with
      | bc ok okAdv batchOK cid =>
        simp only [ControlOK] at hc
        obtain ⟨hb1, hb2⟩ := hc
        subst hb1
        unfold emitBatch
        simp only [run, List.foldl_cons, List.foldl_append, Option.toList]
        have hstep : step ⟨h, c, ac, bs, ibs, none, none, errs⟩ (.bh k true true id) =
            ⟨h, c, ac, bs, ibs, some ⟨k, .bh k true true id, [], none⟩, none, errs⟩ := by
          cases k with
          | iat => exact absurd rfl hk
          | std => simp [step, closePending]
          | adv => simp [step, closePending]
        rw [hstep]
        have h2 := run_entries_cur h c ac bs ibs errs ⟨k, .bh k true true id, [], none⟩ hk entries hb.entries
        simp only [run] at h2
        rw [h2]
        cases k with
        | iat => exact absurd rfl hk
        | std => simp at hb2; simp [step, hb2]
        | adv => simp at hb2; simp [step, hb2]
      | _ => exact absurd hc (by simp [ControlOK])
  | _ => exact absurd hh (by simp [HeaderOK])

theorem run_batches_cur (l : List TBatch) (hl : ∀ b ∈ l, b.kind ≠ .iat ∧ WFBatch b) :
    run ⟨h, c, ac, bs, ibs, none, none, errs⟩ (l.flatMap emitBatch) = ⟨h, c, ac, bs ++ l, ibs, none, none, errs⟩ := by
  induction l generalizing bs with
  | nil => simp [run]
  | cons b l ih =>
    simp only [List.flatMap_cons, run, List.foldl_append]
    have h1 := run_batch_cur h c ac bs ibs errs b (hl b (by simp)).1 (hl b (by simp)).2
    simp only [run] at h1
    rw [h1]
    have h2 := ih (bs ++ [b]) (fun b' hb' => hl b' (by simp [hb']))
    simpa [run] using h2

end cur

section iat
variable (h c ac : Option Rec) (bs ibs : List TBatch) (errs : List Err)

theorem run_addenda_iat (b : TBatch) (hk : b.kind = .iat) (es : List TEntry) (e : TEntry) (l : List (Slot × Rec))
    (hb : b.entries = es ++ [e]) (hind : l ≠ [] → e.ind = true)
    (hs : ∀ x ∈ l, SlotOK .iat x.1 x.2) (ho : (e.addenda ++ l).Pairwise SlotLE) :
    run ⟨h, c, ac, bs, ibs, none, some b, errs⟩ (l.map (·.2)) =
      ⟨h, c, ac, bs, ibs, none, some { b with entries := es ++ [{ e with addenda := e.addenda ++ l }] }, errs⟩ := by
  induction l generalizing b e with
  | nil => simp [run, ← hb]
  | cons x xs ih =>
    obtain ⟨sl, r⟩ := x
    have hind' : e.ind = true := hind (by simp)
    have hsl := hs (sl, r) (by simp)
    have hle : ∀ y ∈ e.addenda, SlotLE y (sl, r) := by
      intro y hy
      have := List.pairwise_append.1 ho
      exact this.2.2 y hy (sl, r) (by simp)
    simp only [List.map_cons, run, List.foldl_cons]
    have hstep : step ⟨h, c, ac, bs, ibs, none, some b, errs⟩ r =
        ⟨h, c, ac, bs, ibs, none, some { b with entries := es ++ [{ e with addenda := e.addenda ++ [(sl, r)] }] }, errs⟩ := by
      cases r with
      | ad stdSlot iatSlot okStd okAdv okIat id =>
        simp only [SlotOK] at hsl
        obtain ⟨h1, h2⟩ := hsl
        subst h1; subst h2
        simp [step, addendaInto_snoc b es e sl _ hb hind' hle]
      | _ => exact absurd hsl (by simp [SlotOK])
    rw [hstep]
    have := ih { b with entries := es ++ [{ e with addenda := e.addenda ++ [(sl, r)] }] } hk
      { e with addenda := e.addenda ++ [(sl, r)] } rfl (fun _ => hind')
      (fun y hy => hs y (by simp [hy])) (by simpa using ho)
    simpa [run] using this

theorem run_entry_iat (b : TBatch) (hk : b.kind = .iat) (e : TEntry) (he : WFEntry .iat e) :
    run ⟨h, c, ac, bs, ibs, none, some b, errs⟩ (emitEntry e) =
      ⟨h, c, ac, bs, ibs, none, some { b with entries := b.entries ++ [e] }, errs⟩ := by
  unfold emitEntry
  simp only [run, List.foldl_cons]
  have hstep : step ⟨h, c, ac, bs, ibs, none, some b, errs⟩ e.line =
      ⟨h, c, ac, bs, ibs, none, some (addEntry b e.line e.ind), errs⟩ := by
    have hl := he.line
    cases hline : e.line with
    | ed i okStd okAdv okIat id =>
      rw [hline] at hl
      simp only [EntryOK] at hl
      obtain ⟨hi, hok⟩ := hl
      subst hi; subst hok
      simp [step]
    | _ => rw [hline] at hl; exact absurd hl (by simp [EntryOK])
  rw [hstep]
  have := run_addenda_iat h c ac bs ibs errs (addEntry b e.line e.ind) (by simpa [addEntry] using hk) b.entries
    ⟨e.line, e.ind, []⟩ e.addenda (by simp [addEntry]) he.ind he.slots (by simpa using he.order)
  simpa [run, addEntry] using this

theorem run_entries_iat (b : TBatch) (hk : b.kind = .iat) (es : List TEntry) (hes : ∀ e ∈ es, WFEntry .iat e) :
    run ⟨h, c, ac, bs, ibs, none, some b, errs⟩ (es.flatMap emitEntry) =
      ⟨h, c, ac, bs, ibs, none, some { b with entries := b.entries ++ es }, errs⟩ := by
  induction es generalizing b with
  | nil => simp [run]
  | cons e es ih =>
    simp only [List.flatMap_cons, run, List.foldl_append]
    have h1 := run_entry_iat h c ac bs ibs errs b hk e (hes e (by simp))
    simp only [run] at h1
    rw [h1]
    have h2 := ih { b with entries := b.entries ++ [e] } hk (fun e' he' => hes e' (by simp [he']))
    simpa [run] using h2

/-- a whole IAT batch (at least one entry), read with nothing pending, is appended to `File.IATBatches` -/
theorem run_batch_iat (b : TBatch) (hk : b.kind = .iat) (hb : WFBatch b) :
    run ⟨h, c, ac, bs, ibs, none, none, errs⟩ (emitBatch b) = ⟨h, c, ac, bs, ibs ++ [b], none, none, errs⟩ := by
  obtain ⟨kind, header, entries, control⟩ := b
  have hh := hb.header
  have hc := hb.control
  have hne := hb.iatNonEmpty
  simp only at hh hc hk hne
  subst hk
  cases header with
  | bh k ok newOK id =>
    simp only [HeaderOK] at hh
    obtain ⟨h1, h2, _⟩ := hh
    subst h1; subst h2
    cases control with
    | none => exact absurd hc (by simp [ControlOK])
    | some cr =>
      cases cr with
      | bc ok okAdv batchOK cid =>
        simp only [ControlOK] at hc
        obtain ⟨hb1, hb2⟩ := hc
        subst hb1
        simp at hb2
        subst hb2
        unfold emitBatch
        simp only [run, List.foldl_cons, List.foldl_append, Option.toList]
        have hstep : step ⟨h, c, ac, bs, ibs, none, none, errs⟩ (.bh .iat true newOK id) =
            ⟨h, c, ac, bs, ibs, none, some ⟨.iat, .bh .iat true newOK id, [], none⟩, errs⟩ := by
          simp [step, closePending]
        rw [hstep]
        have h2 := run_entries_iat h c ac bs ibs errs ⟨.iat, .bh .iat true newOK id, [], none⟩ rfl entries
          (by simpa using hb.entries)
        simp only [run] at h2
        rw [h2]
        have hne' : entries ≠ [] := hne rfl
        simp [step, hne']
      | _ => exact absurd hc (by simp [ControlOK])
  | _ => exact absurd hh (by simp [HeaderOK])

theorem run_batches_iat (l : List TBatch) (hl : ∀ b ∈ l, b.kind = .iat ∧ WFBatch b) :
    run ⟨h, c, ac, bs, ibs, none, none, errs⟩ (l.flatMap emitBatch) = ⟨h, c, ac, bs, ibs ++ l, none, none, errs⟩ := by
  induction l generalizing ibs with
  | nil => simp [run]
  | cons b l ih =>
    simp only [List.flatMap_cons, run, List.foldl_append]
    have h1 := run_batch_iat h c ac bs ibs errs b (hl b (by simp)).1 (hl b (by simp)).2
    simp only [run] at h1
    rw [h1]
    have h2 := ih (ibs ++ [b]) (fun b' hb' => hl b' (by simp [hb']))
    simpa [run] using h2

end iat

theorem run_fillers (s : St) (n : Nat) : run s (List.replicate n .filler) = s := by
  induction n with
  | zero => rfl
  | succ n ih => simp only [List.replicate_succ, run, List.foldl_cons, step]; simpa [run] using ih

/-! ## whole files -/

structure WFTree (t : Tree) : Prop where
  header : ∃ id, t.header = .fh true id
  batches : ∀ b ∈ t.batches, b.kind ≠ .iat ∧ WFBatch b
  iatBatches : ∀ b ∈ t.iatBatches, b.kind = .iat ∧ WFBatch b
  control : ∃ ok okAdv id, t.control = .fc ok okAdv id

/-- did the file control record validate as the control the Reader parses it into -/
def controlValid (t : Tree) : Bool :=
  match t.control with
  | .fc ok okAdv _ => if isADV t.batches then okAdv else ok
  | _ => false

/-- what `Read` returns for the emission of `t` -/
def expected (t : Tree) : St :=
  { header := some t.header,
    control := if isADV t.batches then none else some t.control,
    advControl := if isADV t.batches then some t.control else none,
    batches := t.batches,
    iatBatches := t.iatBatches,
    cur := none,
    iat := none,
    errs := if controlValid t then [] else [.recInvalid] }

/-- the Reader's state after the last record of the emission of `t` (before the tail of `Read`) -/
def afterRun (t : Tree) : St :=
  { header := some t.header,
    control := if isADV t.batches then none else some t.control,
    advControl := if isADV t.batches then some t.control else none,
    batches := t.batches,
    iatBatches := t.iatBatches,
    cur := none,
    iat := none,
    errs := if controlValid t then [] else [.recInvalid] }

theorem run_emit (t : Tree) (ht : WFTree t) (n : Nat) :
    run init (emit t ++ List.replicate n .filler) = afterRun t := by
  obtain ⟨hid, hh⟩ := ht.header
  obtain ⟨ok, okAdv, cid, hc⟩ := ht.control
  unfold emit
  simp only [run, List.foldl_cons, List.foldl_append, List.cons_append]
  have h0 : step init t.header = ⟨some t.header, none, none, [], [], none, none, []⟩ := by
    rw [hh]; simp [step, init]
  rw [h0]
  have h1 := run_batches_cur (some t.header) none none [] [] [] t.batches ht.batches
  simp only [run] at h1
  rw [h1]
  have h2 := run_batches_iat (some t.header) none none ([] ++ t.batches) [] [] t.iatBatches ht.iatBatches
  simp only [run] at h2
  rw [h2]
  have h3 := run_fillers
  simp only [run] at h3
  simp only [List.nil_append, List.foldl_nil]
  rw [hc]
  cases hadv : isADV t.batches <;> cases ok <;> cases okAdv <;>
    simp [step, hadv, h3, afterRun, controlValid, hc, St.err]

theorem finish_afterRun (t : Tree) : finish false false (afterRun t) = expected t := by
  cases hadv : isADV t.batches <;> simp [finish, afterRun, expected, hadv]

/-- **reading what the Writer emits** (any number of trailing filler records) rebuilds the same tree, and reports
an error only if the file control record itself does not validate -/
theorem read_emit (t : Tree) (ht : WFTree t) (n : Nat) :
    read (emit t ++ List.replicate n .filler) = expected t := by
  unfold read
  rw [run_emit t ht n, finish_afterRun]

theorem finish_errs (a b : Bool) (s : St) : ∃ l, (finish a b s).errs = s.errs ++ l := by
  unfold finish
  cases s.cur <;> simp only [St.err] <;> (repeat' split) <;> simp

/-- a second file control record (what a filler record cut after its first column looks like) is refused -/
theorem read_extra_control (t : Tree) (ht : WFTree t) (n : Nat) (a b : Bool) (i : Nat) :
    (read (emit t ++ List.replicate n .filler ++ [.fc a b i])).errs ≠ [] := by
  unfold read
  have hr : run init (emit t ++ List.replicate n .filler ++ [.fc a b i]) = step (afterRun t) (.fc a b i) := by
    have := run_emit t ht n
    simp only [run, List.foldl_append, List.foldl_cons, List.foldl_nil] at this ⊢
    rw [this]
  rw [hr]
  obtain ⟨l, hl⟩ := finish_errs false false (step (afterRun t) (.fc a b i))
  rw [hl]
  have : (step (afterRun t) (.fc a b i)).errs ≠ [] := by
    cases hadv : isADV t.batches <;> simp [step, afterRun, hadv, St.err]
  intro h
  exact this (List.append_eq_nil_iff.1 h).1

/-! ## no file control record, no file -/

def Rec.isFC : Rec → Bool
  | .fc _ _ _ => true
  | _ => false

theorem closePending_controls {s s1 : St} (h : closePending s = .ok s1) :
    s1.control = s.control ∧ s1.advControl = s.advControl := by
  unfold closePending at h
  split at h
  · cases h; simp
  · split at h
    · cases h
    · cases h; simp

theorem step_controls (s : St) (r : Rec) (hr : r.isFC = false) :
    (step s r).control = s.control ∧ (step s r).advControl = s.advControl := by
  cases r with
  | fc a b c => simp [Rec.isFC] at hr
  | fh ok id => simp only [step, St.err]; (repeat' split) <;> simp_all
  | bh kind ok newOK id =>
    simp only [step, St.err]
    split
    · simp
    · rename_i s1 h1
      have := closePending_controls h1
      (repeat' split) <;> simp_all
  | ed ind okStd okAdv okIat id => simp only [step, St.err]; (repeat' split) <;> simp_all
  | ad stdSlot iatSlot okStd okAdv okIat id => simp only [step, St.err]; (repeat' split) <;> simp_all
  | bc ok okAdv batchOK id => simp only [step, St.err]; (repeat' split) <;> simp_all
  | filler => simp [step]
  | unknown id => simp [step, St.err]

theorem run_controls (s : St) (rs : List Rec) (hrs : ∀ r ∈ rs, r.isFC = false) :
    (run s rs).control = s.control ∧ (run s rs).advControl = s.advControl := by
  induction rs generalizing s with
  | nil => simp [run]
  | cons r rs ih =>
    have h1 := step_controls s r (hrs r (by simp))
    have h2 := ih (step s r) (fun r' hr' => hrs r' (by simp [hr']))
    simp only [run, List.foldl_cons] at h2 ⊢
    exact ⟨h2.1.trans h1.1, h2.2.trans h1.2⟩

/-- without a file control record the Reader reports `ErrFileControl`, whatever else the text holds -/
theorem read_without_control (rs : List Rec) (hrs : ∀ r ∈ rs, r.isFC = false) :
    Err.missingControl ∈ (read rs).errs := by
  have hc := run_controls init rs hrs
  unfold read finish
  simp only
  generalize run init rs = s at hc
  obtain ⟨h1, h2⟩ := hc
  simp only [init] at h1 h2
  cases hcur : s.cur <;> simp only [St.err, h1, h2] <;> (split <;> simp [h1, h2])

/-! ## everything the Writer emits before the file control is not a file control record -/

theorem slotOK_notFC {k : BKind} {sl : Slot} {r : Rec} (h : SlotOK k sl r) : r.isFC = false := by
  cases r <;> simp_all [SlotOK, Rec.isFC]

theorem emitBatch_notFC (b : TBatch) (hb : WFBatch b) : ∀ r ∈ emitBatch b, r.isFC = false := by
  intro r hr
  unfold emitBatch at hr
  simp only [List.mem_cons, List.mem_append, List.mem_flatMap] at hr
  rcases hr with rfl | ⟨e, he, hre⟩ | hc
  · have := hb.header
    cases hh : b.header <;> simp_all [HeaderOK, Rec.isFC]
  · have hwe := hb.entries e he
    unfold emitEntry at hre
    simp only [List.mem_cons, List.mem_map] at hre
    rcases hre with rfl | ⟨x, hx, rfl⟩
    · have := hwe.line
      cases hl : e.line <;> simp_all [EntryOK, Rec.isFC]
    · exact slotOK_notFC (hwe.slots x hx)
  · have := hb.control
    cases hcc : b.control with
    | none => simp [hcc] at hc
    | some c =>
      simp [hcc] at hc
      subst hc
      rw [hcc] at this
      cases r <;> simp_all [ControlOK, Rec.isFC]

/-- the records before the file control, as the Writer emits them -/
def body (t : Tree) : List Rec := t.header :: (t.batches.flatMap emitBatch ++ t.iatBatches.flatMap emitBatch)

theorem emit_eq_body (t : Tree) : emit t = body t ++ [t.control] := by simp [emit, body]

theorem body_notFC (t : Tree) (ht : WFTree t) : ∀ r ∈ body t, r.isFC = false := by
  intro r hr
  unfold body at hr
  simp only [List.mem_cons, List.mem_append, List.mem_flatMap] at hr
  rcases hr with rfl | ⟨b, hb, hrb⟩ | ⟨b, hb, hrb⟩
  · obtain ⟨id, h⟩ := ht.header; simp [h, Rec.isFC]
  · exact emitBatch_notFC b (ht.batches b hb).2 r hrb
  · exact emitBatch_notFC b (ht.iatBatches b hb).2 r hrb

/-- **a transfer cut short before the file control record** — at a record boundary or inside a record (`tail`: whatever
the cut record looks like, as long as it is not a file control record) — is rejected -/
theorem read_truncated_body (t : Tree) (ht : WFTree t) (j : Nat) (tail : List Rec) (htail : ∀ r ∈ tail, r.isFC = false) :
    Err.missingControl ∈ (read ((body t).take j ++ tail)).errs := by
  apply read_without_control
  intro r hr
  rcases List.mem_append.1 hr with h | h
  · exact body_notFC t ht r (List.mem_of_mem_take h)
  · exact htail r h

end Ach.ReaderSM
