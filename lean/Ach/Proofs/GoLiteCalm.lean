import Ach.Proofs.GoLiteQuiet
/-!
# Statements without assignments, loops (nested to any depth) included

`calm` is `noAssign` with loops admitted when their bodies are calm.  A calm statement that passes control on fell
through and only added declarations (`calm_suffix`): the proof is that of `noAssign_suffix` with the two loop cases done
through `iter_quiet`.
-/
namespace Ach.GoLite

def calm : Prog → Bool
  | .assign _ _ | .assign2 _ _ _ => false
  | .ite _ t e => calm t && calm e
  | .seq a b => calm a && calm b
  | .block p => calm p
  | .forEach _ _ b => calm b
  | .forIdx _ _ b => calm b
  | .brk | .cont => false
  | _ => true

theorem calm_suffix :
    ∀ p, calm p = true → ∀ (c : Ctx) l, passing (exec p c l).2 →
      (exec p c l).2 = .next ∧ ∃ pre, (exec p c l).1 = pre ++ l := by
  intro p
  induction p with
  | skip => intro _ c l _; simp [exec]
  | brk => intro hn; simp [calm] at hn
  | cont => intro hn; simp [calm] at hn
  | ret e => intro _ c l h; simp [exec, passing] at h
  | ite cnd t e iht ihe =>
      intro hn c l h
      simp [calm] at hn
      simp only [exec] at h ⊢
      cases hc : eval c l cnd with
      | bool b =>
          rw [hc] at h
          cases b with
          | true =>
              simp only at h ⊢
              obtain ⟨h1, pre, hp⟩ := iht hn.1 c l h
              exact ⟨h1, [], by simp only [hp, scopeExit_append]; rfl⟩
          | false =>
              simp only at h ⊢
              obtain ⟨h1, pre, hp⟩ := ihe hn.2 c l h
              exact ⟨h1, [], by simp only [hp, scopeExit_append]; rfl⟩
      | _ => rw [hc] at h; simp [passing] at h
  | seq a b iha ihb =>
      intro hn c l h
      simp [calm] at hn
      simp only [exec] at h ⊢
      have hpa := iha hn.1 c l
      cases ha : exec a c l with
      | mk l2 s2 =>
        rw [ha] at h hpa
        cases s2 with
        | next =>
            simp only at h ⊢
            obtain ⟨_, p1, hp1⟩ := hpa (Or.inl rfl)
            simp only at hp1
            obtain ⟨h2, p2, hp2⟩ := ihb hn.2 c l2 h
            exact ⟨h2, p2 ++ p1, by rw [hp2, hp1, List.append_assoc]⟩
        | brk => have := (hpa (Or.inr (Or.inl rfl))).1; simp at this
        | cont => have := (hpa (Or.inr (Or.inr rfl))).1; simp at this
        | ret v => simp [passing] at h
        | stuck w => simp [passing] at h
  | block p ih =>
      intro hn c l h
      simp [calm] at hn
      simp only [exec] at h ⊢
      obtain ⟨h1, pre, hp⟩ := ih hn c l h
      exact ⟨h1, [], by simp only [hp, scopeExit_append]; rfl⟩
  | bind x e =>
      intro _ c l h
      simp only [exec] at h ⊢
      cases hb : eval c l e <;> rw [hb] at h <;> first | (simp [passing] at h; done) | exact ⟨rfl, [(x, _)], rfl⟩
  | bind2 x y e =>
      intro _ c l h
      simp only [exec] at h ⊢
      cases hb : eval c l e <;> rw [hb] at h <;> first | (simp [passing] at h; done) | exact ⟨rfl, [(y, _), (x, _)], rfl⟩
  | assign x e => intro hn; simp [calm] at hn
  | assign2 x y e => intro hn; simp [calm] at hn
  | check tag body _ =>
      intro _ c l h
      simp only [exec] at h ⊢
      rw [checkResult_passing _ _ _ h]
      exact ⟨rfl, [], rfl⟩
  | sub x params args body _ =>
      intro _ c l h
      simp only [exec] at h ⊢
      split at h
      · simp [passing] at h
      · rename_i hb
        rw [if_neg hb]
        obtain ⟨v, hv⟩ := subResult_passing _ _ _ h
        rw [hv]
        exact ⟨rfl, [(x, v)], rfl⟩
  | checkOn tag recv params args body _ =>
      intro _ c l h
      simp only [exec] at h ⊢
      cases hr : eval c l recv <;> rw [hr] at h <;> try (simp [passing] at h; done)
      simp only at h ⊢
      split at h
      · simp [passing] at h
      · rename_i hb
        rw [if_neg hb]
        rw [checkResult_passing _ _ _ h]
        exact ⟨rfl, [], rfl⟩
  | subOn x recv params args body _ =>
      intro _ c l h
      simp only [exec] at h ⊢
      cases hr : eval c l recv <;> rw [hr] at h <;> try (simp [passing] at h; done)
      simp only at h ⊢
      split at h
      · simp [passing] at h
      · rename_i hb
        rw [if_neg hb]
        obtain ⟨v, hv⟩ := subResult_passing _ _ _ h
        rw [hv]
        exact ⟨rfl, [(x, v)], rfl⟩
  | forEach v coll body ih =>
      intro hn c l h
      simp only [calm] at hn
      simp only [exec] at h ⊢
      cases hc : eval c l coll with
      | lst pth n =>
          rw [hc] at h
          simp only at h ⊢
          have := iter_quiet (fun l' => exec body c l') (fun i => .ref (elemPath pth i)) v
            (fun l' hp => ih hn c l' hp) (List.range n) l h
          rw [this]
          exact ⟨rfl, [], rfl⟩
      | nilp => exact ⟨rfl, [], rfl⟩
      | _ => rw [hc] at h; simp [passing] at h
  | forIdx v coll body ih =>
      intro hn c l h
      simp only [calm] at hn
      simp only [exec] at h ⊢
      cases hc : eval c l coll with
      | lst pth n =>
          rw [hc] at h
          simp only at h ⊢
          have := iter_quiet (fun l' => exec body c l') (fun k => .int k) v
            (fun l' hp => ih hn c l' hp) (List.range n) l h
          rw [this]
          exact ⟨rfl, [], rfl⟩
      | nilp => exact ⟨rfl, [], rfl⟩
      | _ => rw [hc] at h; simp [passing] at h
  | effect s => intro _ c l h; simp [exec, passing] at h
  | unknown s => intro _ c l h; simp [exec, passing] at h

end Ach.GoLite
