import Ach.Proofs.Field
/-!
# Numeric fields: `parseNumField (numericField v w) = v` for `0 ≤ v < 10^w`
-/
set_option linter.unusedSimpArgs false
namespace Ach

theorem digitChar_spec (d : Nat) : isDigit (digitChar d) = true ∧ digitVal (digitChar d) = d % 10 ∧ isSpace (digitChar d) = false := by
  have h : d % 10 < 10 := Nat.mod_lt _ (by decide)
  unfold digitChar
  match hm : d % 10 with
  | 0 => decide
  | 1 => decide
  | 2 => decide
  | 3 => decide
  | 4 => decide
  | 5 => decide
  | 6 => decide
  | 7 => decide
  | 8 => decide
  | 9 => decide
  | n + 10 => omega

theorem digitsVal_append_single (s : Str) (c : Char) : digitsVal (s ++ [c]) = digitsVal s * 10 + digitVal c := by
  simp [digitsVal, List.foldl_append]

theorem natDigits_spec (n : Nat) :
    digitsVal (natDigits n) = n ∧ (natDigits n).all isDigit = true ∧ (natDigits n) ≠ [] ∧
    (∀ c ∈ natDigits n, isSpace c = false) := by
  induction n using Nat.strongRecOn with
  | ind n ih =>
    rw [natDigits]
    by_cases h : n < 10
    · simp only [h, dif_pos]
      have := digitChar_spec n
      have hm : n % 10 = n := Nat.mod_eq_of_lt h
      refine ⟨?_, ?_, by simp, ?_⟩
      · simp [digitsVal, this.2.1, hm]
      · simp [this.1]
      · intro c hc; simp at hc; subst hc; exact this.2.2
    · simp only [h, dif_neg, not_false_eq_true]
      have ih' := ih (n / 10) (by omega)
      have := digitChar_spec (n % 10)
      refine ⟨?_, ?_, by simp, ?_⟩
      · rw [digitsVal_append_single, ih'.1, this.2.1]; omega
      · simp [List.all_append, ih'.2.1, this.1]
      · intro c hc
        simp only [List.mem_append, List.mem_singleton] at hc
        rcases hc with hc | hc
        · exact ih'.2.2.2 c hc
        · subst hc; exact this.2.2

theorem natDigits_length_le (k : Nat) : ∀ n, n < 10 ^ (k + 1) → (natDigits n).length ≤ k + 1 := by
  induction k with
  | zero =>
    intro n hn
    rw [natDigits]
    have : n < 10 := by simpa using hn
    simp [this]
  | succ k ih =>
    intro n hn
    rw [natDigits]
    by_cases h : n < 10
    · simp [h]
    · simp only [h, dif_neg, not_false_eq_true, List.length_append, List.length_singleton]
      have : n / 10 < 10 ^ (k + 1) := by
        rw [Nat.div_lt_iff_lt_mul (by decide)]
        calc n < 10 ^ (k + 1 + 1) := hn
          _ = 10 ^ (k + 1) * 10 := by rw [Nat.pow_succ]
      have := ih (n / 10) this
      omega

theorem digitsVal_zeros_append (k : Nat) (s : Str) : digitsVal (zeros k ++ s) = digitsVal s := by
  induction k with
  | zero => simp [zeros]
  | succ k ih =>
    simp only [zeros, List.replicate_succ, List.cons_append]
    unfold digitsVal at *
    simp only [List.foldl_cons]
    have : (0 * 10 + digitVal '0') = 0 := by decide
    rw [this]
    exact ih

theorem trimSpace_of_no_space (s : Str) (h : ∀ c ∈ s, isSpace c = false) : trimSpace s = s := by
  have hdw : ∀ (t : Str), (∀ c ∈ t, isSpace c = false) → t.dropWhile isSpace = t := by
    intro t ht
    cases t with
    | nil => rfl
    | cons a t => simp [List.dropWhile_cons, ht a (by simp)]
  unfold trimSpace trimLeft trimRight
  rw [hdw s h, hdw s.reverse (by intro c hc; exact h c (by simpa using hc))]
  simp

theorem atoi_digits (s : Str) (hne : s ≠ []) (hd : s.all isDigit = true) (hmax : (digitsVal s : Int) ≤ maxInt64) :
    atoi s = some (digitsVal s : Int) := by
  cases s with
  | nil => exact absurd rfl hne
  | cons a t =>
    have ha : isDigit a = true := by simp [List.all_cons] at hd; exact hd.1
    have hnm : a ≠ '-' := by intro h; subst h; exact absurd ha (by decide)
    have hnp : a ≠ '+' := by intro h; subst h; exact absurd ha (by decide)
    have hsplit : signSplit (a :: t) = (false, a :: t) := by
      unfold signSplit
      split
      · next r heq => simp at heq; exact absurd heq.1 hnm
      · next r heq => simp at heq; exact absurd heq.1 hnp
      · rfl
    unfold atoi atoiCore
    rw [hsplit]
    simp only [List.isEmpty_cons, Bool.false_or, hd, Bool.not_true, Bool.false_eq_true, if_false]
    have h0 : ¬ ((digitsVal (a :: t) : Int) < minInt64) := by
      have : (0 : Int) ≤ (digitsVal (a :: t) : Int) := Int.natCast_nonneg _
      unfold minInt64; omega
    have h1 : ¬ ((digitsVal (a :: t) : Int) > maxInt64) := by omega
    simp [h0, h1]

theorem zeros_all_digit (k : Nat) : (zeros k).all isDigit = true := by
  induction k with
  | zero => simp [zeros]
  | succ k ih => simp [zeros, List.replicate_succ] at *; exact ⟨by decide, ih⟩

theorem zeros_no_space (k : Nat) : ∀ c ∈ zeros k, isSpace c = false := by
  intro c hc
  simp [zeros] at hc
  rw [hc.2]; decide

/-- **numeric round trip**: a non-negative value that fits its field is recovered by `parseNumField` -/
theorem parseNumField_numericField (v : Int) (w : Nat) (hw1 : 1 ≤ w) (hw : w ≤ lineLength)
    (h0 : 0 ≤ v) (hfit : v < 10 ^ w) (hmax : v ≤ maxInt64) :
    parseNumField (numericField v w) = v := by
  obtain ⟨n, rfl⟩ := Int.eq_ofNat_of_zero_le h0
  have hn : n < 10 ^ w := by exact_mod_cast hfit
  obtain ⟨k, rfl⟩ : ∃ k, w = k + 1 := ⟨w - 1, by omega⟩
  have hlen := natDigits_length_le k n hn
  have hs := natDigits_spec n
  unfold numericField
  have h1 : ¬ (k + 1 > lineLength) := by omega
  simp only [h1, if_false, itoa]
  have h2 : ¬ ((natDigits n).length > k + 1) := by omega
  simp only [h2, if_false]
  unfold parseNumField
  have hns : ∀ c ∈ zeros (k + 1 - (natDigits n).length) ++ natDigits n, isSpace c = false := by
    intro c hc
    rcases List.mem_append.1 hc with hc | hc
    · exact zeros_no_space _ c hc
    · exact hs.2.2.2 c hc
  rw [trimSpace_of_no_space _ hns]
  have hall : (zeros (k + 1 - (natDigits n).length) ++ natDigits n).all isDigit = true := by
    rw [List.all_append, zeros_all_digit, hs.2.1]; rfl
  have hne : zeros (k + 1 - (natDigits n).length) ++ natDigits n ≠ [] := by
    intro h; exact hs.2.2.1 (List.append_eq_nil_iff.1 h).2
  have hval : digitsVal (zeros (k + 1 - (natDigits n).length) ++ natDigits n) = n := by
    rw [digitsVal_zeros_append, hs.1]
  rw [atoi_digits _ hne hall (by rw [hval]; exact hmax), hval]
  rfl

end Ach
