import Ach.Model.Repo
/-!
# Proofs about the repository model

1. the map primitives (`get`/`put`/`del`), well-formed states;
2. `micro_spec`: the micro-steps of one body, run on a memory that agrees with what they observed, amount to `specStep`;
3. the lock invariant, absence of conflicting accesses, the refinement invariant, `Step` ↔ `next`;
4. histories: bookkeeping of calls / linearization points / returns along a run, replay on the specification;
5. lemmas for the sequential clauses (`FindBatch` frame);
6. the step-wise simulation; schedules (`exec`).
-/
namespace Ach.Repo

/-! ## 1. map primitives -/

@[simp] theorem get_put (i j : Nat) (v : FileV) (m : Spec) :
    get j (put i v m) = if j = i then some v else get j m := by
  induction m with
  | nil => simp [put, get, eq_comm]
  | cons p m ih =>
    obtain ⟨k, w⟩ := p
    simp only [put]
    split
    · simp [get, eq_comm]
    · split
      · subst_vars; simp only [get]; split <;> simp_all [eq_comm]
      · simp only [get, ih]; split <;> split <;> simp_all

@[simp] theorem get_del (i j : Nat) (m : Spec) : get j (del i m) = if j = i then none else get j m := by
  induction m with
  | nil => simp [del, get]
  | cons p m ih =>
    obtain ⟨k, w⟩ := p
    simp only [del, List.filter_cons] at ih ⊢
    grind [get]

theorem get_sweepOut (old : List Nat) (j : Nat) (m : Spec) (f : FileV) :
    get j (sweepOut old m) = some f → old.contains f.tok = false := by
  induction m with
  | nil => simp [sweepOut, get]
  | cons p m ih =>
    obtain ⟨k, w⟩ := p
    simp only [sweepOut, List.filter_cons] at ih ⊢
    cases hc : old.contains w.tok
    · simp only [Bool.not_false, if_true, get]
      split
      · intro h; cases h; exact hc
      · exact ih
    · simpa using ih

/-- keys strictly increasing -/
def Sorted (m : Spec) : Prop := m.Pairwise (fun a b => a.1 < b.1)

theorem mem_put {i : Nat} {v : FileV} {m : Spec} {p : Nat × FileV} (h : p ∈ put i v m) : p = (i, v) ∨ p ∈ m := by
  induction m with
  | nil => simpa [put] using h
  | cons q m ih =>
    obtain ⟨k, w⟩ := q
    simp only [put] at h
    split at h
    · simpa using h
    · split at h
      · subst_vars; rcases List.mem_cons.1 h with h | h <;> simp [h]
      · rcases List.mem_cons.1 h with h | h
        · simp [h]
        · rcases ih h with h | h <;> simp [h]

theorem put_sorted {i : Nat} {v : FileV} {m : Spec} (h : Sorted m) : Sorted (put i v m) := by
  induction m with
  | nil => simp [put, Sorted]
  | cons q m ih =>
    obtain ⟨k, w⟩ := q
    simp only [Sorted, List.pairwise_cons] at h
    simp only [put]
    split
    · refine List.pairwise_cons.2 ⟨?_, List.pairwise_cons.2 h⟩
      intro p hp
      rcases List.mem_cons.1 hp with hp | hp
      · simpa [hp]
      · have := h.1 p hp; omega
    · split
      · subst_vars; exact List.pairwise_cons.2 h
      · refine List.pairwise_cons.2 ⟨?_, ih h.2⟩
        intro p hp
        rcases mem_put hp with hp | hp
        · subst hp; simp; omega
        · exact h.1 p hp

theorem filter_sorted {m : Spec} (q : Nat × FileV → Bool) (h : Sorted m) : Sorted (m.filter q) :=
  List.Pairwise.filter q h

theorem mem_iff_get {m : Spec} (h : Sorted m) (i : Nat) (f : FileV) : (i, f) ∈ m ↔ get i m = some f := by
  induction m with
  | nil => simp [get]
  | cons q m ih =>
    obtain ⟨k, w⟩ := q
    simp only [Sorted, List.pairwise_cons] at h
    simp only [List.mem_cons, get, ih h.2, Prod.mk.injEq]
    by_cases hk : k = i
    · subst hk
      simp only [if_true, Option.some.injEq, true_and]
      constructor
      · rintro (h' | h')
        · exact h'.symm
        · have := h.1 _ ((ih h.2).2 h'); simp at this
      · intro h'; exact Or.inl h'.symm
    · simp [hk, Ne.symm hk]

/-- states the sequential clauses speak about: unique (sorted) ids, no duplicate batch id inside a file -/
def WF (m : Spec) : Prop := Sorted m ∧ ∀ i f, get i m = some f → f.batches.Nodup

theorem wf_nil : WF [] := ⟨List.Pairwise.nil, by simp [get]⟩

theorem lastIdx_none {b : Nat} {l : List Nat} : lastIdx b l = none ↔ b ∉ l := by
  induction l with
  | nil => simp [lastIdx]
  | cons x xs ih =>
    simp only [lastIdx, List.mem_cons, not_or]
    cases h : lastIdx b xs with
    | some i =>
      have : b ∈ xs := by
        apply Classical.byContradiction; intro hn; simp [ih.2 hn] at h
      simp [this]
    | none => simp [ih.1 h, eq_comm]

theorem not_mem_eraseIdx {b : Nat} {l : List Nat} {i : Nat} (hn : l.Nodup) (h : lastIdx b l = some i) :
    b ∉ l.eraseIdx i := by
  induction l generalizing i with
  | nil => simp [lastIdx] at h
  | cons x xs ih =>
    simp only [List.nodup_cons] at hn
    simp only [lastIdx] at h
    cases h' : lastIdx b xs with
    | some j =>
      simp only [h', Option.some.injEq] at h; subst h
      have hb : b ∈ xs := by
        apply Classical.byContradiction; intro hb; simp [lastIdx_none.2 hb] at h'
      simp only [List.eraseIdx_cons_succ, List.mem_cons, not_or]
      exact ⟨fun e => hn.1 (e ▸ hb), ih hn.2 h'⟩
    | none =>
      simp only [h'] at h
      split at h
      · cases h; simpa using lastIdx_none.1 h'
      · cases h

theorem specStep_wf {s : Spec} (op : Op) (h : WF s) : WF (specStep s op).1 := by
  obtain ⟨hs, hb⟩ := h
  have putwf : ∀ i v, v.batches.Nodup → WF (put i v s) := fun i v hv =>
    ⟨put_sorted hs, fun j f hj => by
      rw [get_put] at hj; split at hj
      · cases hj; exact hv
      · exact hb j f hj⟩
  have filtwf : ∀ q : Nat × FileV → Bool, WF (s.filter q) := fun q =>
    ⟨filter_sorted q hs, fun j f hj =>
      hb j f ((mem_iff_get hs j f).1 (List.mem_filter.1 ((mem_iff_get (filter_sorted q hs) j f).2 hj)).1)⟩
  cases op <;> simp only [specStep]
  case storeFile i tok =>
    split
    · exact ⟨hs, hb⟩
    · exact putwf _ _ (by simp)
  case findFile i => split <;> exact ⟨hs, hb⟩
  case findAllFiles => exact ⟨hs, hb⟩
  case deleteFile i => exact filtwf _
  case storeBatch i b =>
    split
    · exact ⟨hs, hb⟩
    · rename_i f hf
      split
      · exact ⟨hs, hb⟩
      · rename_i hnb
        exact putwf _ _ (by simpa [List.nodup_append] using ⟨hb i f hf, fun a ha e => hnb (e ▸ ha)⟩)
  case findBatch i b =>
    split
    · exact ⟨hs, hb⟩
    · split <;> exact ⟨hs, hb⟩
  case findAllBatches i => split <;> exact ⟨hs, hb⟩
  case deleteBatch i b =>
    split
    · exact ⟨hs, hb⟩
    · rename_i f hf
      split
      · exact ⟨hs, hb⟩
      · exact putwf _ _ ((hb i f hf).sublist (List.eraseIdx_sublist _ _))
  case sweep old => exact filtwf _

/-! ## 2. one body against the specification -/

/-- the observations `loc` of `op` are true of memory `m` (and `loc` is a point the body of `op` passes through) -/
def LocOk : Op → Loc → Spec → Prop
  | _, .start, _ => True
  | .storeFile id _, .absent, m => get id m = none
  | .findAllFiles, .len _, _ => True
  | .storeBatch id _, .present, m => (get id m).isSome
  | .storeBatch id b, .clear, m => (get id m).isSome ∧ b ∉ batchesOf id m
  | .findBatch id _, .present, m => (get id m).isSome
  | .findAllBatches id, .present, m => (get id m).isSome
  | .deleteBatch id _, .present, m => (get id m).isSome
  | .deleteBatch id b, .at i, m => (get id m).isSome ∧ lastIdx b (batchesOf id m) = some i
  | _, _, _ => False

theorem locOk_start (op : Op) (m : Spec) : LocOk op .start m := by cases op <;> trivial

/-- reads leave the memory alone -/
theorem micro_read {op : Op} {loc : Loc} (m : Spec) (h : isWrite op loc = false) : (micro op loc m).1 = m := by
  cases op <;> cases loc <;> simp [isWrite] at h <;> simp only [micro] <;> (repeat' split) <;> rfl

/-- a write is only ever issued by a writing method -/
theorem isWrite_method {op : Op} {loc : Loc} (h : isWrite op loc = true) : op.method.writes = true := by
  cases op <;> cases loc <;> simp [isWrite] at h <;> rfl

/-- what `micro_spec` promises of one access made on memory `m` -/
def StepOk (op : Op) (m : Spec) : Spec × (Loc ⊕ Res) → Prop
  | (m', .inl loc') => m' = m ∧ LocOk op loc' m
  | (m', .inr r) => (m', r) = specStep m op

/-- **the body of every method, step by step**: on a memory that agrees with its observations the next access either
only reads and extends the observations truthfully, or completes the call with exactly the effect and result of the
atomic `specStep` on the *current* memory -/
theorem micro_spec {op : Op} {loc : Loc} {m : Spec} (h : LocOk op loc m) : StepOk op m (micro op loc m) := by
  have hg : ∃ g, g = (match op with
      | .storeFile id _ | .findFile id | .deleteFile id | .storeBatch id _ | .findBatch id _
      | .findAllBatches id | .deleteBatch id _ => get id m
      | _ => none : Option FileV) := ⟨_, rfl⟩
  obtain ⟨g, hg⟩ := hg
  replace hg := hg.symm
  cases op <;> cases g <;> cases loc <;> simp only [LocOk] at h <;> simp only [] at hg <;>
    simp only [micro, batchesOf, modBatches, hg] <;> (repeat' split) <;>
    simp_all [StepOk, LocOk, specStep, batchesOf]

theorem microRun_eq_specStep (m : Spec) (op : Op) : microRun m op = specStep m op := by
  cases op <;> simp only [microRun, micro, specStep, batchesOf, modBatches] <;> grind [micro, batchesOf, modBatches]

/-! ## 3. the lock, conflicts, the refinement invariant -/

/-- inside its critical section: past the acquire, before the release -/
def Thread.holds (th : Thread) : Bool := match th.pc with
  | .inside _ | .leaving _ => true
  | _ => false

def Thread.kind (kind : Method → LockKind) (th : Thread) : LockKind := match th.prog with
  | op :: _ => kind op.method
  | [] => .none

structure LockInv (kind : Method → LockKind) (s : State) : Prop where
  writer : ∀ t, s.lock.writer = some t ↔ ((s.threads t).holds = true ∧ (s.threads t).kind kind = .write)
  readers : ∀ t, t ∈ s.lock.readers ↔ ((s.threads t).holds = true ∧ (s.threads t).kind kind = .read)
  nodup : s.lock.readers.Nodup
  excl : s.lock.writer ≠ none → s.lock.readers = []

@[simp] theorem setT_threads (s : State) (t u : Nat) (th : Thread) :
    (s.setT t th).threads u = if u = t then th else s.threads u := rfl
@[simp] theorem setT_lock (s : State) (t : Nat) (th : Thread) : (s.setT t th).lock = s.lock := rfl
@[simp] theorem setT_mem (s : State) (t : Nat) (th : Thread) : (s.setT t th).mem = s.mem := rfl

theorem lockInv_init (kind : Method → LockKind) (progs : Nat → List Op) : LockInv kind (init progs) :=
  ⟨fun t => by simp [init, Thread.holds], fun t => by simp [init, Thread.holds], List.nodup_nil, fun _ => rfl⟩

theorem lockInv_step {kind : Method → LockKind} {s s' : State} {l : Label}
    (hi : LockInv kind s) (hs : Step kind s l s') : LockInv kind s' := by
  obtain ⟨hw, hr, hn, he⟩ := hi
  cases hs with
  | @call t op rest h =>
    have := hw t; have := hr t
    refine ⟨fun u => ?_, fun u => ?_, hn, he⟩ <;> have := hw u <;> have := hr u <;>
      by_cases hu : u = t <;> simp_all [Thread.holds, Thread.kind]
  | @acquire t op rest l' h ha =>
    have hwt := hw t; have hrt := hr t
    simp only [h, Thread.holds, Thread.kind] at hwt hrt
    cases hk : kind op.method <;> simp only [hk, Lock.acquire] at ha
    · cases ha
      refine ⟨fun u => ?_, fun u => ?_, hn, he⟩ <;> have := hw u <;> have := hr u <;>
        by_cases hu : u = t <;> simp_all [Thread.holds, Thread.kind]
    · split at ha <;> cases ha
      rename_i hwn
      refine ⟨fun u => ?_, fun u => ?_, ?_, ?_⟩
      · have := hw u; by_cases hu : u = t <;> simp_all [Thread.holds, Thread.kind]
      · have := hr u; by_cases hu : u = t <;> simp_all [Thread.holds, Thread.kind]
      · simp_all
      · simp_all
    · split at ha <;> cases ha
      rename_i hwn
      refine ⟨fun u => ?_, fun u => ?_, ?_, ?_⟩
      · have := hw u
        by_cases hu : u = t
        · simp_all [Thread.holds, Thread.kind]
        · have hu' : ¬ t = u := fun e => hu e.symm
          simp_all [Thread.holds, Thread.kind]
      · have := hr u; by_cases hu : u = t <;> simp_all [Thread.holds, Thread.kind]
      · simp_all
      · simp_all
  | @access t op rest loc h =>
    have := hw t; have := hr t
    refine ⟨fun u => ?_, fun u => ?_, hn, he⟩ <;> have := hw u <;> have := hr u <;>
      by_cases hu : u = t <;> cases (micro op loc s.mem).2 <;> simp_all [Thread.holds, Thread.kind, pcAfter]
  | @release t op rest r h =>
    have hwt := hw t; have hrt := hr t
    simp only [h, Thread.holds, Thread.kind] at hwt hrt
    cases hk : kind op.method <;> simp only [Lock.release]
    · refine ⟨fun u => ?_, fun u => ?_, hn, he⟩ <;> have := hw u <;> have := hr u <;>
        by_cases hu : u = t <;> simp_all [Thread.holds, Thread.kind]
    · refine ⟨fun u => ?_, fun u => ?_, hn.erase t, ?_⟩
      · have := hw u; by_cases hu : u = t <;> simp_all [Thread.holds, Thread.kind]
      · have := hr u; by_cases hu : u = t <;> simp_all [Thread.holds, Thread.kind, hn.mem_erase_iff]
      · intro hx; simp [he hx]
    · have hwt' : s.lock.writer = some t := (hw t).2 (by simp [h, Thread.holds, Thread.kind, hk])
      refine ⟨fun u => ?_, fun u => ?_, hn, by simp⟩
      · by_cases hu : u = t
        · simp_all [Thread.holds, Thread.kind]
        · have := hw u
          simp only [hwt', Option.some.injEq] at this
          have hn' : ¬ ((s.threads u).holds = true ∧ (s.threads u).kind kind = .write) :=
            fun hx => hu (this.2 hx).symm
          simpa [hu] using hn'
      · have := hr u; by_cases hu : u = t <;> simp_all [Thread.holds, Thread.kind]
  | @ret t op rest r h =>
    have := hw t; have := hr t
    refine ⟨fun u => ?_, fun u => ?_, hn, he⟩ <;> have := hw u <;> have := hr u <;>
      by_cases hu : u = t <;> simp_all [Thread.holds, Thread.kind]

/-- a writer excludes every other holder -/
theorem writer_excludes {kind : Method → LockKind} {s : State} {t u : Nat} (hi : LockInv kind s)
    (h : s.lock.writer = some t) (hu : (s.threads u).holds = true) (hk : (s.threads u).kind kind ≠ .none) :
    u = t := by
  cases hk' : (s.threads u).kind kind with
  | none => exact absurd hk' hk
  | read =>
    have := (hi.readers u).2 ⟨hu, hk'⟩
    rw [hi.excl (by simp [h])] at this; cases this
  | write =>
    have := (hi.writer u).2 ⟨hu, hk'⟩
    rw [h] at this; cases this; rfl

theorem no_conflict {kind : Method → LockKind} {s : State} (ld : LockDiscipline kind) (hi : LockInv kind s) :
    ¬ Conflict s := by
  rintro ⟨t, u, op1, r1, l1, op2, r2, l2, hne, ht, hu, hw⟩
  have key : ∀ {a b opa ra la opb rb lb}, s.threads a = ⟨opa :: ra, .inside la⟩ →
      s.threads b = ⟨opb :: rb, .inside lb⟩ → isWrite opa la = true → b = a := by
    intro a b opa ra la opb rb lb ha hb hwa
    have hka := (ld opa.method).2 (isWrite_method hwa)
    refine writer_excludes hi ((hi.writer a).2 ?_) ?_ ?_
    · simp [ha, Thread.holds, Thread.kind, hka]
    · simp [hb, Thread.holds]
    · simpa [hb, Thread.kind] using (ld opb.method).1
  rcases hw with hw | hw
  · exact hne (key ht hu hw).symm
  · exact hne (key hu ht hw)

/-- every thread in the middle of a body has observed what is still true of the memory -/
def SimInv (s : State) : Prop :=
  ∀ t op rest loc, s.threads t = ⟨op :: rest, .inside loc⟩ → LocOk op loc s.mem

theorem simInv_init (progs : Nat → List Op) : SimInv (init progs) := by
  intro t op rest loc h; simp [init] at h

theorem simInv_step {kind : Method → LockKind} {s s' : State} {l : Label} (ld : LockDiscipline kind)
    (hi : LockInv kind s) (hsim : SimInv s) (hs : Step kind s l s') : SimInv s' := by
  intro u op' rest' loc' hu
  cases hs with
  | @call t op rest h =>
    by_cases e : u = t
    · simp [e] at hu
    · simp only [setT_threads, e, if_false] at hu; exact hsim _ _ _ _ hu
  | @acquire t op rest l' h ha =>
    by_cases e : u = t
    · simp only [setT_threads, e, if_true, Thread.mk.injEq, Pc.inside.injEq] at hu
      rw [← hu.2]; exact locOk_start _ _
    · simp only [setT_threads, e, if_false] at hu; exact hsim _ _ _ _ hu
  | @access t op rest loc h =>
    have hms := micro_spec (hsim _ _ _ _ h)
    by_cases e : u = t
    · simp only [setT_threads, e, if_true, Thread.mk.injEq, List.cons.injEq] at hu
      obtain ⟨⟨rfl, rfl⟩, hpc⟩ := hu
      generalize micro op loc s.mem = x at hms hpc ⊢
      obtain ⟨m', (lc | r)⟩ := x
      · simp only [StepOk, pcAfter, Pc.inside.injEq] at hms hpc
        subst hpc; show LocOk op lc m'; rw [hms.1]; exact hms.2
      · simp [pcAfter] at hpc
    · simp only [setT_threads, e, if_false] at hu
      cases hw : isWrite op loc with
      | false => simp only [micro_read _ hw]; exact hsim _ _ _ _ hu
      | true => exact absurd ⟨t, u, _, _, _, _, _, _, fun e' => e e'.symm, h, hu, Or.inl hw⟩ (no_conflict ld hi)
  | @release t op rest r h =>
    by_cases e : u = t
    · simp [e] at hu
    · simp only [setT_threads, e, if_false] at hu; exact hsim _ _ _ _ hu
  | @ret t op rest r h =>
    by_cases e : u = t
    · simp [e] at hu
    · simp only [setT_threads, e, if_false] at hu; exact hsim _ _ _ _ hu

/-! ### `Step` and `next` are the same thing -/

theorem step_iff_next (kind : Method → LockKind) (s s' : State) (t : Nat) (a : Act) :
    Step kind s (t, a) s' ↔ next kind s t = some (a, s') := by
  constructor
  · intro h
    cases h <;> simp_all [next]
  · intro h
    unfold next at h
    split at h
    · cases h; exact .call ‹_›
    · split at h
      · cases h; exact .acquire ‹_› ‹_›
      · cases h
    · cases h; exact .access ‹_›
    · cases h; exact .release ‹_›
    · cases h; exact .ret ‹_›
    · cases h

theorem exec_reachable {kind : Method → LockKind} {progs : Nat → List Op} (sched : List Nat) {s : State}
    (h : Reachable kind progs s) : Reachable kind progs (exec kind s sched) := by
  induction sched generalizing s with
  | nil => exact h
  | cons t ts ih =>
    simp only [exec]
    split
    · rename_i a s' hn
      obtain ⟨tr, hr⟩ := h
      exact ih ⟨_, hr.snoc ((step_iff_next kind s s' t a).2 hn)⟩
    · exact ih h

theorem conflict_of_conflictB {s : State} {t u : Nat} (h : conflictB s t u = true) : Conflict s := by
  simp only [conflictB, Bool.and_eq_true, bne_iff_ne] at h
  obtain ⟨hne, h⟩ := h
  split at h
  · rename_i op1 r1 l1 op2 r2 l2 h1 h2
    exact ⟨t, u, op1, r1, l1, op2, r2, l2, hne, h1, h2, by simpa using h⟩
  · cases h

theorem ld_of_check {kind : Method → LockKind} (h : ldCheck kind = true) : LockDiscipline kind := by
  intro m
  simp only [ldCheck, Method.all, List.all_cons, List.all_nil, Bool.and_true, Bool.and_eq_true] at h
  cases m <;> simp_all [Method.writes]

/-- state invariants along every run -/
theorem run_inv {kind : Method → LockKind} {progs : Nat → List Op} {tr : List Label} {s : State}
    (ld : LockDiscipline kind) (h : Run kind (init progs) tr s) : LockInv kind s ∧ SimInv s := by
  induction h with
  | nil => exact ⟨lockInv_init _ _, simInv_init _⟩
  | snoc _ hs ih => exact ⟨lockInv_step ih.1 hs, simInv_step ld ih.1 ih.2 hs⟩

theorem run_lockInv {kind : Method → LockKind} {progs : Nat → List Op} {tr : List Label} {s : State}
    (h : Run kind (init progs) tr s) : LockInv kind s := by
  induction h with
  | nil => exact lockInv_init _ _
  | snoc _ hs ih => exact lockInv_step ih hs

/-! ## 4. histories -/

/-- bookkeeping of one thread: its calls `cs`, linearization points `ls` and returns `rs` so far, against its
program `prog0` and its control state -/
def HistOk (prog0 : List Op) (th : Thread) (cs : List Op) (ls rs : List (Op × Res)) : Prop :=
  match th.pc, th.prog with
  | .idle, p => rs = ls ∧ cs = ls.map (·.1) ∧ cs ++ p = prog0
  | .waiting, op :: p => rs = ls ∧ cs = ls.map (·.1) ++ [op] ∧ cs ++ p = prog0
  | .inside _, op :: p => rs = ls ∧ cs = ls.map (·.1) ++ [op] ∧ cs ++ p = prog0
  | .leaving r, op :: p => ls = rs ++ [(op, r)] ∧ cs = ls.map (·.1) ∧ cs ++ p = prog0
  | .returning r, op :: p => ls = rs ++ [(op, r)] ∧ cs = ls.map (·.1) ∧ cs ++ p = prog0
  | _, [] => False

structure Hist (progs : Nat → List Op) (tr : List Label) (s : State) : Prop where
  thread : ∀ t, HistOk (progs t) (s.threads t) (calls t tr) (lins t tr) (rets t tr)
  replay : replay [] (linAll tr) = some s.mem

theorem replay_snoc (m : Spec) (l : List (Nat × Op × Res)) (t : Nat) (op : Op) (r : Res) :
    replay m (l ++ [(t, op, r)]) = match replay m l with
      | some m' => if (specStep m' op).2 = r then some (specStep m' op).1 else none
      | none => none := by
  induction l generalizing m with
  | nil => simp [replay]
  | cons x l ih =>
    obtain ⟨u, o, q⟩ := x
    simp only [List.cons_append, replay]
    split
    · exact ih _
    · rfl

theorem calls_snoc (t u : Nat) (a : Act) (tr : List Label) :
    calls t (tr ++ [(u, a)]) = calls t tr ++ (match a with
      | .call op => if u = t then [op] else []
      | _ => []) := by
  cases a <;> simp [calls, List.filterMap_append] <;> split <;> simp_all

theorem rets_snoc (t u : Nat) (a : Act) (tr : List Label) :
    rets t (tr ++ [(u, a)]) = rets t tr ++ (match a with
      | .ret op r => if u = t then [(op, r)] else []
      | _ => []) := by
  cases a <;> simp [rets, List.filterMap_append] <;> split <;> simp_all

theorem lins_snoc (t u : Nat) (a : Act) (tr : List Label) :
    lins t (tr ++ [(u, a)]) = lins t tr ++ (match a with
      | .acc op (some r) => if u = t then [(op, r)] else []
      | _ => []) := by
  rcases a with _ | _ | ⟨op, _ | r⟩ | _ | _ <;> simp [lins, List.filterMap_append] <;> split <;> simp_all

theorem linAll_snoc (u : Nat) (a : Act) (tr : List Label) :
    linAll (tr ++ [(u, a)]) = linAll tr ++ (match a with
      | .acc op (some r) => [(u, op, r)]
      | _ => []) := by
  rcases a with _ | _ | ⟨op, _ | r⟩ | _ | _ <;> simp [linAll, List.filterMap_append]

theorem hist_init (progs : Nat → List Op) : Hist progs [] (init progs) :=
  ⟨fun t => by simp [HistOk, init, calls, lins, rets], rfl⟩

theorem hist_step {kind : Method → LockKind} {progs : Nat → List Op} {tr : List Label} {s s' : State} {l : Label}
    (hsim : SimInv s) (hh : Hist progs tr s) (hs : Step kind s l s') : Hist progs (tr ++ [l]) s' := by
  obtain ⟨hth, hrep⟩ := hh
  -- threads other than the one that moves
  have other : ∀ (t u : Nat) (a : Act) (th : Thread) (thr : Nat → Thread), u ≠ t →
      thr = (s.setT t th).threads →
      HistOk (progs u) (thr u) (calls u (tr ++ [(t, a)])) (lins u (tr ++ [(t, a)])) (rets u (tr ++ [(t, a)])) := by
    intro t u a th thr e hthr
    have hu := hth u
    have e' : ¬ t = u := fun h' => e h'.symm
    rw [calls_snoc, lins_snoc, rets_snoc, hthr]
    rcases a with _ | _ | ⟨op, _ | r⟩ | _ | _ <;> simpa [e, e'] using hu
  cases hs with
  | @call t op rest h =>
    refine ⟨fun u => ?_, by simpa [linAll_snoc] using hrep⟩
    by_cases e : u = t
    · subst e; have hu := hth u; rw [h] at hu
      simp only [HistOk] at hu
      simp [HistOk, calls_snoc, lins_snoc, rets_snoc, hu.1, hu.2.1, ← hu.2.2]
    · exact other t u _ _ _ e rfl
  | @acquire t op rest l' h ha =>
    refine ⟨fun u => ?_, by simpa [linAll_snoc] using hrep⟩
    by_cases e : u = t
    · subst e; have hu := hth u; rw [h] at hu
      simpa [HistOk, calls_snoc, lins_snoc, rets_snoc] using hu
    · exact other t u _ _ _ e rfl
  | @access t op rest loc h =>
    have hms := micro_spec (hsim _ _ _ _ h)
    generalize micro op loc s.mem = x at hms ⊢
    obtain ⟨m', (lc | r)⟩ := x
    · simp only [StepOk] at hms
      refine ⟨fun u => ?_, by simpa [linAll_snoc, linOf, hms.1] using hrep⟩
      by_cases e : u = t
      · subst e; have hu := hth u; rw [h] at hu
        simpa [HistOk, calls_snoc, lins_snoc, rets_snoc, linOf, pcAfter] using hu
      · exact other t u _ _ _ e rfl
    · simp only [StepOk] at hms
      refine ⟨fun u => ?_, ?_⟩
      · by_cases e : u = t
        · subst e; have hu := hth u; rw [h] at hu
          simp only [HistOk] at hu
          simp [HistOk, calls_snoc, lins_snoc, rets_snoc, linOf, pcAfter, hu.1, hu.2.1, ← hu.2.2]
        · exact other t u _ _ _ e rfl
      · simp only [linAll_snoc, linOf, replay_snoc, hrep, ← hms]
        simp
  | @release t op rest r h =>
    refine ⟨fun u => ?_, by simpa [linAll_snoc] using hrep⟩
    by_cases e : u = t
    · subst e; have hu := hth u; rw [h] at hu
      simpa [HistOk, calls_snoc, lins_snoc, rets_snoc] using hu
    · exact other t u _ _ _ e rfl
  | @ret t op rest r h =>
    refine ⟨fun u => ?_, by simpa [linAll_snoc] using hrep⟩
    by_cases e : u = t
    · subst e; have hu := hth u; rw [h] at hu
      simp only [HistOk] at hu
      simp [HistOk, calls_snoc, lins_snoc, rets_snoc, hu.1, hu.2.1, ← hu.2.2]
    · exact other t u _ _ _ e rfl

theorem run_hist {kind : Method → LockKind} {progs : Nat → List Op} {tr : List Label} {s : State}
    (ld : LockDiscipline kind) (h : Run kind (init progs) tr s) : Hist progs tr s := by
  induction h with
  | nil => exact hist_init _
  | snoc hr hs ih => exact hist_step (run_inv ld hr).2 ih hs

/-- a prefix of a run is a run -/
theorem Run.prefix {kind : Method → LockKind} {s0 s : State} {tr : List Label} (h : Run kind s0 tr s) :
    ∀ p q, tr = p ++ q → ∃ mid, Run kind s0 p mid := by
  induction h with
  | nil => intro p q e; simp at e; rw [e.1]; exact ⟨_, Run.nil⟩
  | @snoc tr s l s' hr hs ih =>
    intro p q e
    rcases List.eq_nil_or_concat q with rfl | ⟨q', x, rfl⟩
    · simp at e; rw [← e]; exact ⟨_, hr.snoc hs⟩
    · rw [List.concat_eq_append, ← List.append_assoc] at e
      exact ih p q' (List.append_inj_left' e rfl)

/-- the linearization point of each call lies between its call and its return (counting form) -/
theorem hist_counts {prog0 : List Op} {th : Thread} {cs : List Op} {ls rs : List (Op × Res)}
    (h : HistOk prog0 th cs ls rs) : rs.length ≤ ls.length ∧ ls.length ≤ cs.length := by
  unfold HistOk at h
  split at h
  all_goals first | (obtain ⟨h1, h2, _⟩ := h; simp [h1, h2]) | cases h

/-- the linearization points of one thread are its share of the global linearization order -/
theorem lins_eq_linAll (t : Nat) (tr : List Label) :
    lins t tr = (linAll tr).filterMap (fun x => if x.1 = t then some x.2 else none) := by
  induction tr with
  | nil => rfl
  | cons l tr ih =>
    obtain ⟨u, a⟩ := l
    rcases a with _ | _ | ⟨op, _ | r⟩ | _ | _ <;> simp_all [lins, linAll, List.filterMap_cons]

theorem complete_hist {progs : Nat → List Op} {tr : List Label} {s : State}
    (hh : Hist progs tr s) (hc : Complete s) (t : Nat) :
    calls t tr = progs t ∧ (lins t tr).map (·.1) = progs t ∧ rets t tr = lins t tr := by
  have := hh.thread t
  rw [hc t] at this
  simp only [HistOk, List.append_nil] at this
  exact ⟨this.2.2, this.2.1 ▸ this.2.2, this.1⟩

/-! ## 5. the sequential clauses -/

theorem lastIdx_get {b : Nat} {l : List Nat} {i : Nat} (h : lastIdx b l = some i) : l[i]? = some b := by
  induction l generalizing i with
  | nil => simp [lastIdx] at h
  | cons x xs ih =>
    simp only [lastIdx] at h
    cases h' : lastIdx b xs with
    | some j => simp only [h', Option.some.injEq] at h; subst h; simpa using ih h'
    | none =>
      simp only [h'] at h
      split at h <;> cases h
      simp_all

theorem mem_eraseIdx_other {b c : Nat} {l : List Nat} {i : Nat} (h : lastIdx c l = some i) (hne : b ≠ c) :
    b ∈ l.eraseIdx i ↔ b ∈ l := by
  have hi := lastIdx_get h
  rw [List.mem_eraseIdx_iff_getElem?, List.mem_iff_getElem?]
  constructor
  · rintro ⟨j, _, hj⟩; exact ⟨j, hj⟩
  · rintro ⟨j, hj⟩
    refine ⟨j, fun e => ?_, hj⟩
    subst e; rw [hj] at hi; exact hne (Option.some.inj hi)

/-- the calls that may change whether batch `b` is found in file `id` -/
def touchesBatch (id b : Nat) : Op → Bool
  | .storeBatch i c | .deleteBatch i c => i == id && c == b
  | .deleteFile i => i == id
  | .sweep _ => true
  | _ => false

def hasBatch (id b : Nat) (s : Spec) : Bool := match get id s with
  | some f => decide (b ∈ f.batches)
  | none => false

theorem findBatch_eq (s : Spec) (id b : Nat) :
    specStep s (.findBatch id b) = (s, if hasBatch id b s then .batch b else .notFound) := by
  cases hg : get id s with
  | none => simp [specStep, hasBatch, hg]
  | some f => by_cases hb : b ∈ f.batches <;> simp [specStep, hasBatch, hg, hb]

theorem hasBatch_frame (s : Spec) (id b : Nat) (op : Op) (h : touchesBatch id b op = false) :
    hasBatch id b (specStep s op).1 = hasBatch id b s := by
  cases op <;> simp [touchesBatch] at h <;> simp only [specStep] <;> (repeat' split) <;>
    simp only [hasBatch, get_put, get_del] <;> grind [mem_eraseIdx_other]

/-! ## 6. the simulation, step by step; schedules -/

/-- forward simulation onto the atomic object, with the memory itself as abstract state: a step that is not a
linearization point leaves the abstract state alone, a linearization point is one `specStep` with the result the
thread will return -/
theorem step_sim {kind : Method → LockKind} {s s' : State} {l : Label} (hsim : SimInv s) (hs : Step kind s l s') :
    (∀ op r, l.2 = .acc op (some r) → (s'.mem, r) = specStep s.mem op) ∧
    ((∀ op r, l.2 ≠ .acc op (some r)) → s'.mem = s.mem) := by
  cases hs with
  | call h => exact ⟨fun _ _ e => (by cases e), fun _ => rfl⟩
  | acquire h ha => exact ⟨fun _ _ e => (by cases e), fun _ => rfl⟩
  | @access _ op rest loc h =>
    have hms := micro_spec (hsim _ _ _ _ h)
    generalize micro op loc s.mem = x at hms ⊢
    obtain ⟨m', (lc | r)⟩ := x
    · exact ⟨fun _ _ e => (by simp [linOf] at e), fun _ => hms.1⟩
    · refine ⟨fun op' r' e => ?_, fun hne => absurd rfl (hne op r)⟩
      simp only [linOf, Act.acc.injEq, Option.some.injEq] at e
      obtain ⟨rfl, rfl⟩ := e; exact hms
  | release h => exact ⟨fun _ _ e => (by cases e), fun _ => rfl⟩
  | ret h => exact ⟨fun _ _ e => (by cases e), fun _ => rfl⟩

theorem step_other {kind : Method → LockKind} {s s' : State} {t u : Nat} {a : Act}
    (hs : Step kind s (t, a) s') (hu : u ≠ t) : s'.threads u = s.threads u := by
  cases hs <;> simp [hu]

theorem exec_other (kind : Method → LockKind) (sched : List Nat) (s : State) (u : Nat) (hu : u ∉ sched) :
    (exec kind s sched).threads u = s.threads u := by
  induction sched generalizing s with
  | nil => rfl
  | cons t ts ih =>
    simp only [List.mem_cons, not_or] at hu
    simp only [exec]
    split
    · rename_i a s' hn
      rw [ih _ hu.2, step_other ((step_iff_next kind s s' t a).2 hn) hu.1]
    · exact ih _ hu.2

end Ach.Repo
