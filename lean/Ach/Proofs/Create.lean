import Ach.Model.Create
import Ach.Proofs.Field
/-!
# `upsertOffsets` / `build`: the removal loop, control consistency, balance, idempotence
-/
set_option linter.unusedSimpArgs false
namespace Ach

/-- what the loop subtracts from the control for one removed entry -/
def adjOne (ctl : CControl) (e : CEntry) : CControl :=
  let ctl1 := if e.code = Gen.K.CheckingCredit || e.code = Gen.K.SavingsCredit
    then { ctl with totalCredit := ctl.totalCredit - e.amount }
    else { ctl with totalDebit := ctl.totalDebit - e.amount }
  { ctl1 with entryAddendaCount := ctl1.entryAddendaCount - 1 }

def adjAll (ctl : CControl) (removed : List CEntry) : CControl := removed.foldl adjOne ctl

/-- **the removal loop with `Entries[i+1:]`** removes exactly the OFFSET entries from position `i` on,
adjusting the control once per removed entry; it neither panics nor runs out of fuel -/
theorem removeLoop_mode1 : ∀ (fuel i : Nat) (es : List CEntry) (ctl : CControl),
    es.length - i < fuel → i ≤ es.length →
    removeLoop 1 fuel i es ctl =
      .ok (es.take i ++ (es.drop i).filter (fun e => !e.isOffset), adjAll ctl ((es.drop i).filter (·.isOffset))) := by
  intro fuel
  induction fuel with
  | zero => intro i es ctl h; omega
  | succ fuel ih =>
    intro i es ctl hf hi
    unfold removeLoop
    by_cases hge : i ≥ es.length
    · have : i = es.length := by omega
      subst this
      simp [adjAll]
    · simp only [hge, if_false]
      have hlt : i < es.length := by omega
      have hget : es[i]? = some es[i] := List.getElem?_eq_getElem hlt
      rw [hget]
      simp only
      have hdrop : es.drop i = es[i] :: es.drop (i + 1) := List.drop_eq_getElem_cons hlt
      by_cases ho : es[i].isOffset = true
      · simp only [ho, if_true, strideAt]
        have h1 : ¬ (i + 1 > es.length) := by omega
        simp only [h1, if_false]
        have hlen : (es.take i ++ es.drop (i + 1)).length = es.length - 1 := by
          simp [List.length_take, List.length_drop]; omega
        rw [ih i (es.take i ++ es.drop (i + 1)) _ (by omega) (by omega)]
        have ht : (es.take i ++ es.drop (i + 1)).take i = es.take i := by
          rw [List.take_append_of_le_length (by simp [List.length_take]; omega)]
          rw [List.take_take]; simp
        have hd : (es.take i ++ es.drop (i + 1)).drop i = es.drop (i + 1) := by
          rw [List.drop_append_of_le_length (by simp [List.length_take]; omega)]
          have : (es.take i).drop i = [] := by
            apply List.drop_of_length_le; simp [List.length_take]; omega
          rw [this]; simp
        have hf1 : (es.drop i).filter (fun e => !e.isOffset) = (es.drop (i + 1)).filter (fun e => !e.isOffset) := by
          rw [hdrop, List.filter_cons]; simp [ho]
        have hf2 : (es.drop i).filter (·.isOffset) = es[i] :: (es.drop (i + 1)).filter (·.isOffset) := by
          rw [hdrop, List.filter_cons]; simp [ho]
        rw [ht, hd, hf1, hf2]
        simp only [adjAll, List.foldl_cons]
        rfl
      · simp only [ho, if_false]
        have ho' : es[i].isOffset = false := by simpa using ho
        rw [ih (i + 1) es ctl (by omega) (by omega)]
        have htk : es.take (i + 1) = es.take i ++ [es[i]] := by
          rw [List.take_succ, hget]; simp
        have hf1 : (es.drop i).filter (fun e => !e.isOffset) = es[i] :: (es.drop (i + 1)).filter (fun e => !e.isOffset) := by
          rw [hdrop, List.filter_cons]; simp [ho']
        have hf2 : (es.drop i).filter (·.isOffset) = (es.drop (i + 1)).filter (·.isOffset) := by
          rw [hdrop, List.filter_cons]; simp [ho']
        rw [htk, hf1, hf2, List.append_assoc]
        rfl

/-- entries the library recognises as offsets really are offsets it could have written: one of the four
offset codes and no addenda -/
def OffsetsWellFormed (es : List CEntry) : Prop :=
  ∀ e ∈ es, e.isOffset = true →
    (e.code = Gen.K.CheckingCredit ∨ e.code = Gen.K.SavingsCredit ∨ e.code = Gen.K.CheckingDebit ∨ e.code = Gen.K.SavingsDebit) ∧
    e.addendaCount = 0

/-- the control record equals the values recomputed from the entries (hash aside) -/
structure Tallied (es : List CEntry) (ctl : CControl) : Prop where
  count : ctl.entryAddendaCount = cCount es
  debit : ctl.totalDebit = cDebit es
  credit : ctl.totalCredit = cCredit es

theorem sumBy_cons {α} (f : α → Int) (a : α) (l : List α) : sumBy f (a :: l) = f a + sumBy f l := by
  unfold sumBy
  simp only [List.foldl_cons]
  have : ∀ (l : List α) (x y : Int), List.foldl (fun acc z => acc + f z) (x + y) l = x + List.foldl (fun acc z => acc + f z) y l := by
    intro l
    induction l with
    | nil => intro x y; rfl
    | cons b l ih => intro x y; simp only [List.foldl_cons]; rw [Int.add_assoc, ih]
  have h := this l (f a) 0
  simpa using h

theorem sumBy_nil {α} (f : α → Int) : sumBy f ([] : List α) = 0 := rfl

theorem sumBy_append {α} (f : α → Int) (l₁ l₂ : List α) : sumBy f (l₁ ++ l₂) = sumBy f l₁ + sumBy f l₂ := by
  induction l₁ with
  | nil => simp [sumBy_nil]
  | cons a l ih => simp only [List.cons_append, sumBy_cons, ih]; omega

theorem cCount_cons (e : CEntry) (es : List CEntry) : cCount (e :: es) = (1 + e.addendaCount : Nat) + cCount es := by
  simp [cCount, entryCount, sumBy_cons, toV]

theorem cCredit_cons (e : CEntry) (es : List CEntry) :
    cCredit (e :: es) = (if creditCodes.contains e.code then e.amount else 0) + cCredit es := by
  simp [cCredit, creditTotal, sumBy_cons, toV]

theorem cDebit_cons (e : CEntry) (es : List CEntry) :
    cDebit (e :: es) = (if debitCodes.contains e.code then e.amount else 0) + cDebit es := by
  simp [cDebit, debitTotal, sumBy_cons, toV]

theorem cCount_append (a b : List CEntry) : cCount (a ++ b) = cCount a + cCount b := by
  simp [cCount, entryCount, sumBy_append]
theorem cCredit_append (a b : List CEntry) : cCredit (a ++ b) = cCredit a + cCredit b := by
  simp [cCredit, creditTotal, sumBy_append]
theorem cDebit_append (a b : List CEntry) : cDebit (a ++ b) = cDebit a + cDebit b := by
  simp [cDebit, debitTotal, sumBy_append]

/-- the four offset codes are classified as the loop assumes: 22/32 credit, 27/37 debit -/
theorem offset_codes_classified :
    creditCodes.contains Gen.K.CheckingCredit = true ∧ creditCodes.contains Gen.K.SavingsCredit = true ∧
    debitCodes.contains Gen.K.CheckingDebit = true ∧ debitCodes.contains Gen.K.SavingsDebit = true ∧
    debitCodes.contains Gen.K.CheckingCredit = false ∧ debitCodes.contains Gen.K.SavingsCredit = false ∧
    creditCodes.contains Gen.K.CheckingDebit = false ∧ creditCodes.contains Gen.K.SavingsDebit = false := by decide

theorem offset_codes_mem :
    Gen.K.CheckingCredit ∈ creditCodes ∧ Gen.K.SavingsCredit ∈ creditCodes ∧
    Gen.K.CheckingDebit ∈ debitCodes ∧ Gen.K.SavingsDebit ∈ debitCodes ∧
    ¬ Gen.K.CheckingCredit ∈ debitCodes ∧ ¬ Gen.K.SavingsCredit ∈ debitCodes ∧
    ¬ Gen.K.CheckingDebit ∈ creditCodes ∧ ¬ Gen.K.SavingsDebit ∈ creditCodes := by decide

def isCreditOffsetCode (e : CEntry) : Bool := e.code = Gen.K.CheckingCredit || e.code = Gen.K.SavingsCredit

theorem adjOne_proj (ctl : CControl) (e : CEntry) :
    (adjOne ctl e).entryAddendaCount = ctl.entryAddendaCount - 1 ∧
    (adjOne ctl e).totalCredit = ctl.totalCredit - (if isCreditOffsetCode e then e.amount else 0) ∧
    (adjOne ctl e).totalDebit = ctl.totalDebit - (if isCreditOffsetCode e then 0 else e.amount) ∧
    (adjOne ctl e).serviceClass = ctl.serviceClass ∧ (adjOne ctl e).entryHash = ctl.entryHash := by
  unfold adjOne isCreditOffsetCode
  by_cases h : (decide (e.code = Gen.K.CheckingCredit) || decide (e.code = Gen.K.SavingsCredit)) = true
  · simp only [h, if_true]; simp
  · simp only [h, if_false]; simp

theorem adjAll_proj : ∀ (rm : List CEntry) (ctl : CControl),
    (adjAll ctl rm).entryAddendaCount = ctl.entryAddendaCount - rm.length ∧
    (adjAll ctl rm).totalCredit = ctl.totalCredit - sumBy (fun e => if isCreditOffsetCode e then e.amount else 0) rm ∧
    (adjAll ctl rm).totalDebit = ctl.totalDebit - sumBy (fun e => if isCreditOffsetCode e then 0 else e.amount) rm ∧
    (adjAll ctl rm).serviceClass = ctl.serviceClass
  | [], ctl => by simp [adjAll, sumBy_nil]
  | r :: rm, ctl => by
    have ih := adjAll_proj rm (adjOne ctl r)
    have h1 := adjOne_proj ctl r
    simp only [adjAll, List.foldl_cons] at ih ⊢
    rw [sumBy_cons, sumBy_cons]
    obtain ⟨a1, a2, a3, a4⟩ := ih
    obtain ⟨b1, b2, b3, b4, _⟩ := h1
    refine ⟨?_, ?_, ?_, ?_⟩
    · rw [a1, b1]; simp; omega
    · rw [a2, b2]; omega
    · rw [a3, b3]; omega
    · rw [a4, b4]

theorem sumBy_filter_split {α} (f : α → Int) (p : α → Bool) : ∀ (l : List α),
    sumBy f l = sumBy f (l.filter p) + sumBy f (l.filter (fun x => !p x))
  | [] => by simp [sumBy_nil]
  | a :: l => by
    have ih := sumBy_filter_split f p l
    by_cases h : p a = true
    · simp only [List.filter_cons, h, if_true, Bool.not_true, Bool.false_eq_true, if_false, sumBy_cons]; omega
    · have h' : p a = false := by simpa using h
      simp only [List.filter_cons, h', Bool.false_eq_true, if_false, Bool.not_false, if_true, sumBy_cons]; omega

theorem sumBy_congr {α} (f g : α → Int) : ∀ (l : List α), (∀ a ∈ l, f a = g a) → sumBy f l = sumBy g l
  | [], _ => rfl
  | a :: l, h => by
    rw [sumBy_cons, sumBy_cons, h a (by simp), sumBy_congr f g l (fun b hb => h b (List.mem_cons_of_mem _ hb))]

theorem sumBy_const_one {α} : ∀ (l : List α), sumBy (fun _ => (1 : Int)) l = l.length
  | [] => rfl
  | a :: l => by rw [sumBy_cons, sumBy_const_one l]; simp; omega

/-- removing well-formed offsets with the loop's bookkeeping keeps the control tallied -/
theorem tallied_remove (es : List CEntry) (ctl : CControl) (hw : OffsetsWellFormed es) (h : Tallied es ctl) :
    Tallied (es.filter (fun e => !e.isOffset)) (adjAll ctl (es.filter (·.isOffset))) := by
  obtain ⟨hc, hd, hcr⟩ := h
  have hp := adjAll_proj (es.filter (·.isOffset)) ctl
  have hcls := offset_codes_classified
  have hwf : ∀ e ∈ es.filter (·.isOffset),
      (e.code = Gen.K.CheckingCredit ∨ e.code = Gen.K.SavingsCredit ∨ e.code = Gen.K.CheckingDebit ∨ e.code = Gen.K.SavingsDebit) ∧
      e.addendaCount = 0 := by
    intro e he
    have := List.mem_filter.1 he
    exact hw e this.1 this.2
  -- the three tallies split into kept + removed parts
  have split := fun (f : CEntry → Int) => sumBy_filter_split f (·.isOffset) es
  have hcount : cCount es = cCount (es.filter (fun e => !e.isOffset)) + ((es.filter (·.isOffset)).length : Int) := by
    have h1 : ∀ l : List CEntry, cCount l = sumBy (fun e => ((1 + e.addendaCount : Nat) : Int)) l := by
      intro l; simp only [cCount, entryCount, sumBy, toV, List.foldl_map]
    rw [h1, h1, split]
    have : sumBy (fun e => ((1 + e.addendaCount : Nat) : Int)) (es.filter (·.isOffset)) = ((es.filter (·.isOffset)).length : Int) := by
      rw [← sumBy_const_one]
      apply sumBy_congr
      intro e he; rw [(hwf e he).2]; rfl
    rw [this]; omega
  have hcredit : cCredit es = cCredit (es.filter (fun e => !e.isOffset)) +
      sumBy (fun e => if isCreditOffsetCode e then e.amount else 0) (es.filter (·.isOffset)) := by
    have h1 : ∀ l : List CEntry, cCredit l = sumBy (fun e => if creditCodes.contains e.code then e.amount else 0) l := by
      intro l; simp only [cCredit, creditTotal, sumBy, toV, List.foldl_map]; rfl
    rw [h1, h1, split]
    have : sumBy (fun e => if creditCodes.contains e.code then e.amount else 0) (es.filter (·.isOffset)) =
        sumBy (fun e => if isCreditOffsetCode e then e.amount else 0) (es.filter (·.isOffset)) := by
      apply sumBy_congr
      intro e he
      rcases (hwf e he).1 with h | h | h | h <;> simp only [isCreditOffsetCode, h, hcls] <;> rfl
    rw [this]; omega
  have hdebit : cDebit es = cDebit (es.filter (fun e => !e.isOffset)) +
      sumBy (fun e => if isCreditOffsetCode e then 0 else e.amount) (es.filter (·.isOffset)) := by
    have h1 : ∀ l : List CEntry, cDebit l = sumBy (fun e => if debitCodes.contains e.code then e.amount else 0) l := by
      intro l; simp only [cDebit, debitTotal, sumBy, toV, List.foldl_map]; rfl
    rw [h1, h1, split]
    have : sumBy (fun e => if debitCodes.contains e.code then e.amount else 0) (es.filter (·.isOffset)) =
        sumBy (fun e => if isCreditOffsetCode e then 0 else e.amount) (es.filter (·.isOffset)) := by
      apply sumBy_congr
      intro e he
      rcases (hwf e he).1 with h | h | h | h <;> simp only [isCreditOffsetCode, h, hcls] <;> rfl
    rw [this]; omega
  refine ⟨?_, ?_, ?_⟩
  · rw [hp.1, hc, hcount]; omega
  · rw [hp.2.2.1, hd, hdebit]; omega
  · rw [hp.2.1, hcr, hcredit]; omega

end Ach

namespace Ach

/-- the OFFSET entries `upsertOffsets` appends for regular entries with debit total `D`, credit total `C` -/
def newOffsets (off : COffset) (k : OffsetKind) (last : Int) (D C : Int) : List CEntry :=
  let dcode := dcodeOf k
  let ccode := ccodeOf k
  (if C = 0 then [] else [offsetEntry off dcode C (fmt15 (last + 1))]) ++
  (if D = 0 then [] else [offsetEntry off ccode D (fmt15 (last + (if C = 0 then 1 else 2)))])

def regular (es : List CEntry) : List CEntry := es.filter (fun e => !e.isOffset)

theorem cCount_nil : cCount [] = 0 := rfl
theorem cDebit_nil : cDebit [] = 0 := rfl
theorem cCredit_nil : cCredit [] = 0 := rfl

theorem single_debit_offset (off : COffset) (k : OffsetKind) (amt : Int) (tr : Str) :
    cCount [offsetEntry off (dcodeOf k) amt tr] = 1 ∧ cDebit [offsetEntry off (dcodeOf k) amt tr] = amt ∧
    cCredit [offsetEntry off (dcodeOf k) amt tr] = 0 := by
  have hcls := offset_codes_mem
  refine ⟨?_, ?_, ?_⟩
  · rw [cCount_cons, cCount_nil]; simp [offsetEntry, CEntry.addendaCount]
  · rw [cDebit_cons, cDebit_nil]; cases k <;> simp [offsetEntry, dcodeOf, hcls]
  · rw [cCredit_cons, cCredit_nil]; cases k <;> simp [offsetEntry, dcodeOf, hcls]

theorem single_credit_offset (off : COffset) (k : OffsetKind) (amt : Int) (tr : Str) :
    cCount [offsetEntry off (ccodeOf k) amt tr] = 1 ∧ cDebit [offsetEntry off (ccodeOf k) amt tr] = 0 ∧
    cCredit [offsetEntry off (ccodeOf k) amt tr] = amt := by
  have hcls := offset_codes_mem
  refine ⟨?_, ?_, ?_⟩
  · rw [cCount_cons, cCount_nil]; simp [offsetEntry, CEntry.addendaCount]
  · rw [cDebit_cons, cDebit_nil]; cases k <;> simp [offsetEntry, ccodeOf, hcls]
  · rw [cCredit_cons, cCredit_nil]; cases k <;> simp [offsetEntry, ccodeOf, hcls]

/-- tallies of the appended offsets: count = number of non-zero sides, debit = C, credit = D -/
theorem newOffsets_tallies (off : COffset) (k : OffsetKind) (last D C : Int) :
    cCount (newOffsets off k last D C) = (if C = 0 then 0 else 1) + (if D = 0 then 0 else 1) ∧
    cDebit (newOffsets off k last D C) = C ∧ cCredit (newOffsets off k last D C) = D := by
  have h1 := fun tr => single_debit_offset off k C tr
  have h2 := fun tr => single_credit_offset off k D tr
  unfold newOffsets
  simp only
  by_cases hC : C = 0 <;> by_cases hD : D = 0
  · simp [hC, hD, cCount_nil, cDebit_nil, cCredit_nil]
  · simp only [hC, hD, if_true, if_false, List.nil_append]
    have := h2 (fmt15 (last + 1)); rw [hC] at *; simpa using this
  · simp only [hC, hD, if_true, if_false, List.append_nil]
    have := h1 (fmt15 (last + 1)); rw [hD] at *; simpa using this
  · simp only [hC, hD, if_false]
    have a := h1 (fmt15 (last + 1)); have b := h2 (fmt15 (last + 2))
    rw [cCount_append, cDebit_append, cCredit_append, a.1, a.2.1, a.2.2, b.1, b.2.1, b.2.2]
    omega

/-- the model's two conditional appends are `newOffsets`, and its control bookkeeping adds their tallies -/
theorem appendOffsets_spec (off : COffset) (k : OffsetKind) (reg : List CEntry) (ctl : CControl) :
    (appendOffsets off k reg ctl).1 = reg ++ newOffsets off k (lastTraceNumber reg) ctl.totalDebit ctl.totalCredit ∧
    (appendOffsets off k reg ctl).2.entryAddendaCount =
      ctl.entryAddendaCount + cCount (newOffsets off k (lastTraceNumber reg) ctl.totalDebit ctl.totalCredit) ∧
    (appendOffsets off k reg ctl).2.totalDebit = ctl.totalDebit + ctl.totalCredit ∧
    (appendOffsets off k reg ctl).2.totalCredit = ctl.totalCredit + ctl.totalDebit := by
  have ht := newOffsets_tallies off k (lastTraceNumber reg) ctl.totalDebit ctl.totalCredit
  rw [ht.1]
  unfold appendOffsets newOffsets
  by_cases hC : ctl.totalCredit = 0 <;> by_cases hD : ctl.totalDebit = 0 <;> simp [hC, hD] <;> omega

/-- closed form of `upsertOffsets` (with the `Entries[i+1:]` loop) on a tallied batch: the regular entries followed by
at most one offset per direction; the control is re-tallied and balanced -/
theorem upsert_closed_form (b : CBatch) (off : COffset) (k : OffsetKind)
    (ho : b.offset = some off) (hr : off.routingOK = true) (hk : off.kind = some k)
    (hw : OffsetsWellFormed b.entries) (ht : Tallied b.entries b.control) :
    ∃ b', upsertOffsets 1 b = .ok b' ∧
      b'.entries = regular b.entries ++ newOffsets off k (lastTraceNumber (regular b.entries)) (cDebit (regular b.entries)) (cCredit (regular b.entries)) ∧
      Tallied b'.entries b'.control ∧ b'.control.entryHash = cHash b'.entries ∧
      b'.control.totalDebit = b'.control.totalCredit ∧
      b'.offset = b.offset ∧ b'.odfi = b.odfi ∧ b'.autoTrace = b.autoTrace ∧ b'.headerOK = b.headerOK ∧
      b'.serviceClass = Gen.K.MixedDebitsAndCredits ∧ b'.control.serviceClass = Gen.K.MixedDebitsAndCredits := by
  have hloop := removeLoop_mode1 (2 * b.entries.length + 2) 0 b.entries b.control (by omega) (by omega)
  simp only [List.take_zero, List.nil_append, List.drop_zero] at hloop
  obtain ⟨tc, td, tcr⟩ := tallied_remove b.entries b.control hw ht
  generalize hctl : adjAll b.control (b.entries.filter (·.isOffset)) = ctl at *
  obtain ⟨e1, e2, e3, e4⟩ := appendOffsets_spec off k (regular b.entries) ctl
  have hnt := newOffsets_tallies off k (lastTraceNumber (regular b.entries)) ctl.totalDebit ctl.totalCredit
  have hup : upsertOffsets 1 b = .ok { b with
      entries := (appendOffsets off k (regular b.entries) ctl).1, serviceClass := Gen.K.MixedDebitsAndCredits,
      control := { (appendOffsets off k (regular b.entries) ctl).2 with
        serviceClass := Gen.K.MixedDebitsAndCredits, entryHash := cHash (appendOffsets off k (regular b.entries) ctl).1 } } := by
    unfold upsertOffsets
    simp only [ho, hr, Bool.not_true, Bool.false_eq_true, if_false, hloop, hk, regular]
  refine ⟨_, hup, ?_, ⟨?_, ?_, ?_⟩, rfl, ?_, rfl, rfl, rfl, rfl, rfl, rfl⟩
  · show (appendOffsets off k (regular b.entries) ctl).1 = _
    rw [e1, td, tcr]; rfl
  · show (appendOffsets off k (regular b.entries) ctl).2.entryAddendaCount = cCount (appendOffsets off k (regular b.entries) ctl).1
    rw [e2, e1, cCount_append, tc]; rfl
  · show (appendOffsets off k (regular b.entries) ctl).2.totalDebit = cDebit (appendOffsets off k (regular b.entries) ctl).1
    rw [e3, e1, cDebit_append, hnt.2.1, td]; rfl
  · show (appendOffsets off k (regular b.entries) ctl).2.totalCredit = cCredit (appendOffsets off k (regular b.entries) ctl).1
    rw [e4, e1, cCredit_append, hnt.2.2, tcr]; rfl
  · show (appendOffsets off k (regular b.entries) ctl).2.totalDebit = (appendOffsets off k (regular b.entries) ctl).2.totalCredit
    rw [e3, e4]; omega

end Ach

namespace Ach

theorem regular_append_offsets (reg offs : List CEntry) (h1 : ∀ e ∈ reg, e.isOffset = false) (h2 : ∀ e ∈ offs, e.isOffset = true) :
    regular (reg ++ offs) = reg := by
  unfold regular
  rw [List.filter_append]
  have a : reg.filter (fun e => !e.isOffset) = reg := List.filter_eq_self.2 (fun e he => by simp [h1 e he])
  have b : offs.filter (fun e => !e.isOffset) = [] := List.filter_eq_nil_iff.2 (fun e he => by simp [h2 e he])
  rw [a, b]; simp

theorem regular_not_offset (es : List CEntry) : ∀ e ∈ regular es, e.isOffset = false := by
  intro e he
  have := (List.mem_filter.1 he).2
  simpa using this

theorem newOffsets_are_offsets (off : COffset) (k : OffsetKind) (last D C : Int) :
    ∀ e ∈ newOffsets off k last D C, e.isOffset = true ∧ e.addendaCount = 0 ∧
      (e.code = Gen.K.CheckingCredit ∨ e.code = Gen.K.SavingsCredit ∨ e.code = Gen.K.CheckingDebit ∨ e.code = Gen.K.SavingsDebit) := by
  intro e he
  unfold newOffsets at he
  simp only [List.mem_append] at he
  rcases he with he | he
  · split at he
    · simp at he
    · simp only [List.mem_singleton] at he; subst he
      refine ⟨rfl, rfl, ?_⟩
      cases k <;> simp [offsetEntry, dcodeOf]
  · split at he
    · simp at he
    · simp only [List.mem_singleton] at he; subst he
      refine ⟨rfl, rfl, ?_⟩
      cases k <;> simp [offsetEntry, ccodeOf]

/-- at most one OFFSET entry per direction -/
theorem newOffsets_at_most_one_each (off : COffset) (k : OffsetKind) (last D C : Int) :
    ((newOffsets off k last D C).filter (fun e => e.code = dcodeOf k)).length ≤ 1 ∧
    ((newOffsets off k last D C).filter (fun e => e.code = ccodeOf k)).length ≤ 1 := by
  unfold newOffsets
  by_cases hC : C = 0 <;> by_cases hD : D = 0 <;> cases k <;>
    simp [hC, hD, offsetEntry, dcodeOf, ccodeOf, List.filter_cons, Gen.K.CheckingDebit, Gen.K.CheckingCredit, Gen.K.SavingsDebit, Gen.K.SavingsCredit]

/-- **upsert_idempotent**: running `upsertOffsets` again on its own result changes nothing -/
theorem upsert_idempotent (b b' : CBatch) (off : COffset) (k : OffsetKind)
    (ho : b.offset = some off) (hr : off.routingOK = true) (hk : off.kind = some k)
    (hw : OffsetsWellFormed b.entries) (ht : Tallied b.entries b.control)
    (h : upsertOffsets 1 b = .ok b') : upsertOffsets 1 b' = .ok b' := by
  obtain ⟨b1, h1, e1, t1, hh1, _, o1, od1, a1, hd1, s1, cs1⟩ := upsert_closed_form b off k ho hr hk hw ht
  have : b1 = b' := by rw [h1] at h; exact Except.ok.inj h
  subst this
  have hw1 : OffsetsWellFormed b1.entries := by
    intro e he hoff
    rw [e1] at he
    rcases List.mem_append.1 he with he | he
    · have := regular_not_offset b.entries e he; rw [this] at hoff; exact absurd hoff (by decide)
    · have := newOffsets_are_offsets _ _ _ _ _ e he; exact ⟨this.2.2, this.2.1⟩
  obtain ⟨b2, h2, e2, t2, hh2, _, o2, od2, a2, hd2, s2, cs2⟩ := upsert_closed_form b1 off k (by rw [o1, ho]) hr hk hw1 t1
  rw [h2]
  have hreg : regular b1.entries = regular b.entries := by
    rw [e1]
    exact regular_append_offsets _ _ (regular_not_offset b.entries) (fun e he => (newOffsets_are_offsets _ _ _ _ _ e he).1)
  have hent : b2.entries = b1.entries := by rw [e2, hreg, ← e1]
  congr 1
  -- all fields agree
  cases b1 with
  | mk h1 sc1 od1' es1 c1 of1 at1 =>
    cases b2 with
    | mk h2' sc2 od2' es2 c2 of2 at2 =>
      simp only at *
      subst hent
      cases c1; cases c2
      simp only [CBatch.mk.injEq, CControl.mk.injEq] at *
      obtain ⟨tc1, td1, tcr1⟩ := t1
      obtain ⟨tc2, td2, tcr2⟩ := t2
      simp only at *
      refine ⟨by rw [hd2], by rw [s2, s1], by rw [od2], trivial, ⟨by rw [cs2, cs1], by rw [tc2, tc1], by rw [hh2, hh1], by rw [td2, td1], by rw [tcr2, tcr1]⟩, by rw [o2], by rw [a2]⟩

end Ach

namespace Ach

/-- `buildEntry` only touches the trace number and the Addenda05 sequence numbers -/
theorem buildEntry_preserves (b : CBatch) (s : Nat) (e e' : CEntry) (h : buildEntry b s e = some e') :
    e'.code = e.code ∧ e'.amount = e.amount ∧ e'.rdfi = e.rdfi ∧ e'.isOffset = e.isOffset ∧
    e'.addendaCount = e.addendaCount := by
  unfold buildEntry at h
  split at h
  · injection h with h; subst h
    simp [CEntry.addendaCount]
  · contradiction

def sameTallies (e e' : CEntry) : Prop :=
  e'.code = e.code ∧ e'.amount = e.amount ∧ e'.rdfi = e.rdfi ∧ e'.isOffset = e.isOffset ∧ e'.addendaCount = e.addendaCount

theorem buildEntries_tallies (b : CBatch) : ∀ (s : Nat) (es es' : List CEntry), buildEntries b s es = some es' →
    cCount es' = cCount es ∧ cDebit es' = cDebit es ∧ cCredit es' = cCredit es ∧
    (OffsetsWellFormed es → OffsetsWellFormed es') ∧ es'.length = es.length ∧
    es'.map (fun e => rdfiValue (toV e)) = es.map (fun e => rdfiValue (toV e))
  | _, [], es', h => by
    simp [buildEntries] at h; subst h
    exact ⟨rfl, rfl, rfl, id, rfl, rfl⟩
  | s, e :: es, es', h => by
    unfold buildEntries at h
    cases h1 : buildEntry b s e with
    | none => simp [h1] at h
    | some e1 =>
      cases h2 : buildEntries b (s + 1) es with
      | none => simp [h1, h2] at h
      | some es1 =>
        simp [h1, h2] at h; subst h
        obtain ⟨p1, p2, p3, p4, p5⟩ := buildEntry_preserves b s e e1 h1
        obtain ⟨i1, i2, i3, i4, i5, i6⟩ := buildEntries_tallies b (s + 1) es es1 h2
        refine ⟨?_, ?_, ?_, ?_, by simp [i5], ?_⟩
        · rw [cCount_cons, cCount_cons, i1, p5]
        · rw [cDebit_cons, cDebit_cons, i2, p1, p2]
        · rw [cCredit_cons, cCredit_cons, i3, p1, p2]
        · intro hw x hx hoff
          rcases List.mem_cons.1 hx with hx | hx
          · subst hx
            have := hw e (List.mem_cons_self ..) (by rw [← p4]; exact hoff)
            rw [p1, p5]; exact this
          · exact i4 (fun y hy => hw y (List.mem_cons_of_mem _ hy)) x hx hoff
        · simp only [List.map_cons, i6]
          congr 1
          simp [rdfiValue, toV, p3]

theorem cHash_eq_of_rdfi (es es' : List CEntry)
    (h : es'.map (fun e => rdfiValue (toV e)) = es.map (fun e => rdfiValue (toV e))) : cHash es' = cHash es := by
  unfold cHash batchHash
  have : ∀ l : List CEntry, sumBy rdfiValue (l.map toV) = sumBy id (l.map (fun e => rdfiValue (toV e))) := by
    intro l; simp [sumBy, List.foldl_map]
  rw [this, this, h]

/-- **build_controls**: after a successful `build` the control record equals the values recomputed from the
entries (count, debit and credit totals, entry hash); with an Offset configured the batch is balanced -/
theorem build_controls (b b' : CBatch) (hw : OffsetsWellFormed b.entries) (h : build 1 b = .ok b') :
    Tallied b'.entries b'.control ∧ b'.control.entryHash = cHash b'.entries ∧
    (b.offset ≠ none → b'.control.totalDebit = b'.control.totalCredit) := by
  unfold build at h
  split at h
  · contradiction
  · split at h
    · contradiction
    · cases hb : buildEntries b 1 b.entries with
      | none => simp [hb] at h
      | some es =>
        simp only [hb] at h
        obtain ⟨i1, i2, i3, i4, _, _⟩ := buildEntries_tallies b 1 b.entries es hb
        cases ho : b.offset with
        | none =>
          unfold upsertOffsets at h
          simp only [ho] at h
          injection h with h; subst h
          exact ⟨⟨rfl, rfl, rfl⟩, rfl, fun hne => absurd rfl hne⟩
        | some off =>
          -- the routing / account-type checks must have passed
          have hr : off.routingOK = true := by
            cases hr : off.routingOK with
            | true => rfl
            | false => unfold upsertOffsets at h; simp [ho, hr] at h
          cases hk : off.kind with
          | none =>
            have hloop := removeLoop_mode1 (2 * es.length + 2) 0 es ⟨b.serviceClass, cCount es, cHash es, cDebit es, cCredit es⟩ (by omega) (by omega)
            unfold upsertOffsets at h; simp [ho, hr, hk, hloop] at h
          | some k =>
            obtain ⟨b1, h1, _, t1, hh1, bal, _⟩ := upsert_closed_form
              { b with entries := es, control := ⟨b.serviceClass, cCount es, cHash es, cDebit es, cCredit es⟩ } off k ho hr hk
              (i4 hw) ⟨rfl, rfl, rfl⟩
            rw [h1] at h
            injection h with h; subst h
            exact ⟨t1, hh1, fun _ => bal⟩

end Ach

namespace Ach

theorem buildEntry_congr (b1 b2 : CBatch) (h1 : b1.odfi = b2.odfi) (h2 : b1.autoTrace = b2.autoTrace) (s : Nat) (e : CEntry) :
    buildEntry b1 s e = buildEntry b2 s e := by
  unfold buildEntry; rw [h1, h2]

theorem stringField_take_self (s : Str) (w : Nat) (hw : w ≤ lineLength) : (stringField s w).take w = stringField s w :=
  List.take_of_length_le (by rw [stringField_length s w hw]; omega)

/-- an entry that went through `buildEntry` is a fixed point of `buildEntry`, whatever sequence number is offered -/
theorem buildEntry_settled (b : CBatch) (s : Nat) (e e' : CEntry) (h : buildEntry b s e = some e') :
    ∀ s', buildEntry b s' e' = some e' := by
  intro s'
  unfold buildEntry at h
  cases ht : atoi ((stringField e.trace 15).take 8) with
  | none => simp [ht] at h
  | some t =>
    cases hod : atoi ((stringField b.odfi 8).take 8) with
    | none => simp [ht, hod] at h
    | some o =>
      simp only [ht, hod] at h
      injection h with h
      by_cases hc : (t ≠ o && b.autoTrace) = true
      · -- the trace was re-assigned: its prefix is now the padded ODFI
        simp only [hc, if_true] at h
        subst h
        have hlen : (setTrace b.odfi s).length = 15 := by
          unfold setTrace
          rw [List.length_append, stringField_length _ 8 (by decide), numericField_length _ 7 (by decide)]
        have h15 : stringField (setTrace b.odfi s) 15 = setTrace b.odfi s := stringField_of_length _ 15 (by decide) hlen
        have hpre : (setTrace b.odfi s).take 8 = stringField b.odfi 8 := by
          unfold setTrace
          rw [List.take_append_of_le_length (by rw [stringField_length _ 8 (by decide)]; omega)]
          exact stringField_take_self _ 8 (by decide)
        have ho' : atoi (stringField b.odfi 8) = some o := by rw [← stringField_take_self b.odfi 8 (by decide)]; exact hod
        unfold buildEntry
        simp only [h15, hpre, ho', hod]
        simp [h15]
      · simp only [hc, if_false, Bool.false_eq_true] at h
        subst h
        unfold buildEntry
        simp only [ht, hod, hc, if_false, Bool.false_eq_true]
        simp

theorem buildEntries_of_settled (b : CBatch) : ∀ (es : List CEntry), (∀ e ∈ es, ∀ s, buildEntry b s e = some e) →
    ∀ s, buildEntries b s es = some es
  | [], _, _ => rfl
  | e :: es, h, s => by
    unfold buildEntries
    rw [h e (List.mem_cons_self ..) s, buildEntries_of_settled b es (fun x hx => h x (List.mem_cons_of_mem _ hx)) (s + 1)]

theorem buildEntries_settled (b : CBatch) : ∀ (s : Nat) (es es' : List CEntry), buildEntries b s es = some es' →
    ∀ e ∈ es', ∀ s', buildEntry b s' e = some e
  | _, [], es', h => by simp [buildEntries] at h; subst h; intro e he; simp at he
  | s, e :: es, es', h => by
    unfold buildEntries at h
    cases h1 : buildEntry b s e with
    | none => simp [h1] at h
    | some e1 =>
      cases h2 : buildEntries b (s + 1) es with
      | none => simp [h1, h2] at h
      | some es1 =>
        simp [h1, h2] at h; subst h
        intro x hx
        rcases List.mem_cons.1 hx with hx | hx
        · subst hx; exact buildEntry_settled b s e x h1
        · exact buildEntries_settled b (s + 1) es es1 h2 x hx

/-- **build_idempotent**: building a built batch again changes nothing — entries (trace and addenda sequence
numbers included), control record and offsets.
Hypotheses: `hreg` — at least one entry is not an OFFSET entry (an all-OFFSET batch is emptied by `upsertOffsets`, and
the next `build` reports "no entries"); `hoff` — the OFFSET entries' own trace numbers carry the batch's ODFI prefix
(true whenever the last regular trace number is numeric and does not overflow 15 digits; it is the one thing `build`
does not itself establish). -/
theorem build_idempotent (b b' : CBatch) (hw : OffsetsWellFormed b.entries) (h : build 1 b = .ok b')
    (hreg : ∃ e ∈ b.entries, e.isOffset = false)
    (hoff : ∀ e ∈ b'.entries, e.isOffset = true → ∀ s, buildEntry b' s e = some e) :
    build 1 b' = .ok b' := by
  have hctl := build_controls b b' hw h
  unfold build at h
  split at h
  · contradiction
  · rename_i hhdr
    split at h
    · contradiction
    · rename_i hne
      cases hb : buildEntries b 1 b.entries with
      | none => simp [hb] at h
      | some es =>
        simp only [hb] at h
        have hset := buildEntries_settled b 1 b.entries es hb
        obtain ⟨_, _, _, i4, ilen, _⟩ := buildEntries_tallies b 1 b.entries es hb
        -- a regular entry survives `buildEntries`
        have hreg' : ∃ e ∈ es, e.isOffset = false := by
          have key : ∀ (s : Nat) (l l' : List CEntry), buildEntries b s l = some l' →
              (∃ e ∈ l, e.isOffset = false) → ∃ e ∈ l', e.isOffset = false := by
            intro s l
            induction l generalizing s with
            | nil => intro l' _ ⟨e, he, _⟩; simp at he
            | cons x xs ih =>
              intro l' hl ⟨e, he, hoe⟩
              unfold buildEntries at hl
              cases hx : buildEntry b s x with
              | none => simp [hx] at hl
              | some x1 =>
                cases hxs : buildEntries b (s + 1) xs with
                | none => simp [hx, hxs] at hl
                | some xs1 =>
                  simp [hx, hxs] at hl; subst hl
                  rcases List.mem_cons.1 he with he | he
                  · subst he
                    exact ⟨x1, List.mem_cons_self .., by rw [(buildEntry_preserves b s e x1 hx).2.2.2.1]; exact hoe⟩
                  · obtain ⟨y, hy, hyo⟩ := ih (s + 1) xs1 hxs ⟨e, he, hoe⟩
                    exact ⟨y, List.mem_cons_of_mem _ hy, hyo⟩
          exact key 1 b.entries es hb hreg
        cases ho : b.offset with
        | none =>
          unfold upsertOffsets at h
          simp only [ho] at h
          injection h with h; subst h
          unfold build
          have hne' : ¬ (es.isEmpty = true) := by
            intro he
            have : es = [] := by simpa using he
            obtain ⟨e, he', _⟩ := hreg'
            rw [this] at he'; simp at he'
          simp only [hhdr, hne', if_false]
          have : buildEntries { b with entries := es, control := ⟨b.serviceClass, cCount es, cHash es, cDebit es, cCredit es⟩ } 1 es = some es := by
            apply buildEntries_of_settled
            intro e he s
            have := buildEntry_congr { b with entries := es, control := ⟨b.serviceClass, cCount es, cHash es, cDebit es, cCredit es⟩ } b rfl rfl s e
            rw [this]; exact hset e he s
          simp only [ho] at this
          simp only [this, Bool.false_eq_true, if_false]
          unfold upsertOffsets
          simp only [ho]
        | some off =>
          have hr : off.routingOK = true := by
            cases hr : off.routingOK with
            | true => rfl
            | false => unfold upsertOffsets at h; simp [ho, hr] at h
          cases hk : off.kind with
          | none =>
            have hloop := removeLoop_mode1 (2 * es.length + 2) 0 es ⟨b.serviceClass, cCount es, cHash es, cDebit es, cCredit es⟩ (by omega) (by omega)
            unfold upsertOffsets at h; simp [ho, hr, hk, hloop] at h
          | some k =>
            obtain ⟨b1, h1, e1, t1, hh1, bal, o1, od1, a1, hd1, s1, cs1⟩ := upsert_closed_form
              { b with entries := es, control := ⟨b.serviceClass, cCount es, cHash es, cDebit es, cCredit es⟩ } off k ho hr hk (i4 hw) ⟨rfl, rfl, rfl⟩
            have hb1 : b1 = b' := by rw [h1] at h; exact Except.ok.inj h
            subst hb1
            try simp only at e1 o1 od1 a1 hd1
            -- second build: every entry of b1 is settled
            have hsettled : ∀ e ∈ b1.entries, ∀ s, buildEntry b1 s e = some e := by
              intro e he s
              by_cases hoe : e.isOffset = true
              · exact hoff e he hoe s
              · rw [e1] at he
                rcases List.mem_append.1 he with he | he
                · have hmem : e ∈ es := (List.mem_filter.1 he).1
                  rw [buildEntry_congr b1 b od1 a1]; exact hset e hmem s
                · exact absurd (newOffsets_are_offsets _ _ _ _ _ e he).1 hoe
            have hbe := buildEntries_of_settled b1 b1.entries hsettled 1
            have hne1 : ¬ (b1.entries.isEmpty = true) := by
              intro he
              have h0 : b1.entries = [] := by simpa using he
              obtain ⟨e, he', hoe⟩ := hreg'
              have : e ∈ b1.entries := by
                rw [e1]; exact List.mem_append_left _ (List.mem_filter.2 ⟨he', by simp [hoe]⟩)
              rw [h0] at this; simp at this
            have hhdr1 : ¬ ((!b1.headerOK) = true) := by rw [hd1]; exact hhdr
            -- the control recomputed by the second build is b1's own control
            have hctl1 : (⟨b1.serviceClass, cCount b1.entries, cHash b1.entries, cDebit b1.entries, cCredit b1.entries⟩ : CControl) = b1.control := by
              obtain ⟨tc, td, tcr⟩ := t1
              cases hc : b1.control with
              | mk sc cnt hsh deb cre =>
                rw [hc] at tc td tcr hh1 cs1
                simp only at tc td tcr hh1 cs1
                rw [s1, ← cs1, tc, td, tcr, hh1]
            have hw1 : OffsetsWellFormed b1.entries := by
              intro e he hoffe
              rw [e1] at he
              rcases List.mem_append.1 he with he | he
              · have := regular_not_offset _ e he; rw [this] at hoffe; exact absurd hoffe (by decide)
              · have := newOffsets_are_offsets _ _ _ _ _ e he; exact ⟨this.2.2, this.2.1⟩
            unfold build
            simp only [hhdr1, hne1, if_false, hbe, hctl1]
            have hself : ({ b1 with entries := b1.entries, control := b1.control } : CBatch) = b1 := by cases b1; rfl
            rw [hself]
            have hup1 : upsertOffsets 1 b1 = .ok b1 := by
              apply upsert_idempotent { b with entries := es, control := ⟨b.serviceClass, cCount es, cHash es, cDebit es, cCredit es⟩ } b1 off k ho hr hk (i4 hw) ⟨rfl, rfl, rfl⟩ h1
            exact hup1

end Ach
