import Ach.Model.Field
/-!
# Field-level lemmas: widths and parse ∘ render
-/
set_option linter.unusedSimpArgs false
namespace Ach

theorem List.length_dropWhile_le' {α : Type} (p : α → Bool) : ∀ (l : List α), (l.dropWhile p).length ≤ l.length
  | [] => by simp
  | a :: l => by
    have := List.length_dropWhile_le' p l
    by_cases h : p a = true
    · simp [List.dropWhile_cons, h]; omega
    · simp [List.dropWhile_cons, h]

/-! ## trimSpace -/

def Trimmed (s : Str) : Prop := trimSpace s = s

instance (s : Str) : Decidable (Trimmed s) := inferInstanceAs (Decidable (trimSpace s = s))

theorem isSpace_space : isSpace ' ' = true := by decide

theorem dropWhile_isSpace_spaces_append (n : Nat) (t : Str) :
    (spaces n ++ t).dropWhile isSpace = t.dropWhile isSpace := by
  induction n with
  | zero => simp [spaces]
  | succ n ih =>
    simp only [spaces, List.replicate_succ, List.cons_append, List.dropWhile_cons, isSpace_space, if_true]
    exact ih

theorem trimRight_append_spaces (s : Str) (n : Nat) : trimRight (s ++ spaces n) = trimRight s := by
  unfold trimRight
  rw [List.reverse_append]
  have : (spaces n).reverse = spaces n := by simp [spaces]
  rw [this, dropWhile_isSpace_spaces_append]

theorem dropWhile_eq_self_of_head {p : Char → Bool} : ∀ {s : Str}, s.dropWhile p = s → (s.dropWhile p).dropWhile p = s.dropWhile p
  | _, h => by rw [h, h]

theorem dropWhile_idem (p : Char → Bool) (s : Str) : (s.dropWhile p).dropWhile p = s.dropWhile p := by
  induction s with
  | nil => simp
  | cons c s ih =>
    by_cases h : p c = true
    · simp [List.dropWhile_cons, h, ih]
    · simp [List.dropWhile_cons, h]

theorem trimLeft_idem (s : Str) : trimLeft (trimLeft s) = trimLeft s := dropWhile_idem _ _

theorem trimRight_idem (s : Str) : trimRight (trimRight s) = trimRight s := by
  unfold trimRight
  rw [List.reverse_reverse, dropWhile_idem]

/-- a string is left-trimmed iff it is empty or starts with a non-space -/
theorem trimLeft_eq_self_iff (s : Str) : trimLeft s = s ↔ (∀ c, s.head? = some c → isSpace c = false) := by
  cases s with
  | nil => simp [trimLeft]
  | cons c s =>
    simp only [trimLeft, List.dropWhile_cons, List.head?_cons, Option.some.injEq, forall_eq']
    by_cases h : isSpace c = true
    · simp only [h, if_true]
      constructor
      · intro hh
        have := List.length_dropWhile_le' isSpace s
        have : (List.dropWhile isSpace s).length = (c :: s).length := by rw [hh]
        simp at this; omega
      · intro hh; simp [h] at hh
    · simp [h]

/-- trimming on the right keeps a left-trimmed string left-trimmed -/
theorem trimLeft_trimRight_of_trimLeft (s : Str) (h : trimLeft s = s) : trimLeft (trimRight s) = trimRight s := by
  rw [trimLeft_eq_self_iff] at h ⊢
  intro c hc
  -- the head of trimRight s, if any, is the head of s
  cases s with
  | nil => simp [trimRight] at hc
  | cons a s =>
    have ha := h a (by simp)
    -- trimRight (a :: s) is a prefix of a :: s and, since a is not a space, non-empty with head a
    have hpre : ∀ (t : Str), ∃ u, t = trimRight t ++ u := by
      intro t
      unfold trimRight
      refine ⟨(t.reverse.takeWhile isSpace).reverse, ?_⟩
      rw [← List.reverse_append, List.takeWhile_append_dropWhile, List.reverse_reverse]
    obtain ⟨u, hu⟩ := hpre (a :: s)
    cases htr : trimRight (a :: s) with
    | nil =>
      -- then a :: s = u consists of spaces only (u is the reversed takeWhile), contradiction with a non-space
      rw [htr] at hc; simp at hc
    | cons b t =>
      rw [htr] at hu hc
      simp only [List.cons_append, List.cons.injEq] at hu
      simp only [List.head?_cons, Option.some.injEq] at hc
      rw [← hc, ← hu.1]; exact ha

theorem trimSpace_idem (s : Str) : trimSpace (trimSpace s) = trimSpace s := by
  unfold trimSpace
  rw [trimLeft_trimRight_of_trimLeft _ (trimLeft_idem s), trimRight_idem]

theorem trimmed_trimSpace (s : Str) : Trimmed (trimSpace s) := trimSpace_idem s

theorem trimmed_nil : Trimmed [] := by simp [Trimmed, trimSpace, trimLeft, trimRight]

/-- for a trimmed string, `trimSpace` undoes blank padding on the right -/
theorem trimSpace_append_spaces (s : Str) (n : Nat) (h : Trimmed s) : trimSpace (s ++ spaces n) = s := by
  cases s with
  | nil =>
    simp only [List.nil_append, trimSpace, trimLeft]
    have : List.dropWhile isSpace (spaces n) = [] := by
      have := dropWhile_isSpace_spaces_append n []
      simpa using this
    rw [this]; simp [trimRight]
  | cons a s =>
    -- a is not a space (s is left-trimmed), so trimLeft does nothing on a :: s ++ spaces
    have hl : trimLeft (a :: s) = a :: s := by
      have h1 : trimSpace (a :: s) = a :: s := h
      unfold trimSpace at h1
      -- trimRight (trimLeft x) = x  ⇒ trimLeft x = x (lengths)
      have hlen1 : (trimRight (trimLeft (a :: s))).length ≤ (trimLeft (a :: s)).length := by
        unfold trimRight
        have := List.length_dropWhile_le' isSpace (trimLeft (a :: s)).reverse
        simpa using this
      have hlen2 : (trimLeft (a :: s)).length ≤ (a :: s).length := List.length_dropWhile_le' _ _
      rw [h1] at hlen1
      -- dropWhile of full length is the identity
      have : (trimLeft (a :: s)).length = (a :: s).length := by omega
      unfold trimLeft at this ⊢
      by_cases ha : isSpace a = true
      · simp only [List.dropWhile_cons, ha, if_true] at this
        have := List.length_dropWhile_le' isSpace s
        simp at *; omega
      · simp [List.dropWhile_cons, ha]
    have ha : isSpace a = false := by
      have := (trimLeft_eq_self_iff (a :: s)).1 hl a (by simp)
      exact this
    unfold trimSpace
    have : trimLeft ((a :: s) ++ spaces n) = (a :: s) ++ spaces n := by
      simp [trimLeft, List.dropWhile_cons, ha]
    rw [this, trimRight_append_spaces]
    have h1 : trimSpace (a :: s) = a :: s := h
    unfold trimSpace at h1
    rw [hl] at h1; exact h1

theorem trimRight_eq_self_iff (s : Str) : trimRight s = s ↔ (∀ c, s.getLast? = some c → isSpace c = false) := by
  have h := trimLeft_eq_self_iff s.reverse
  rw [List.head?_reverse] at h
  rw [← h]
  unfold trimRight trimLeft
  constructor
  · intro hh; have := congrArg List.reverse hh; simpa using this
  · intro hh; rw [hh]; simp

/-- if trimming both sides changes nothing then trimming the left changes nothing -/
theorem trimLeft_of_trimmed (s : Str) (h : Trimmed s) : trimLeft s = s := by
  unfold Trimmed trimSpace at h
  have hlen1 : (trimRight (trimLeft s)).length ≤ (trimLeft s).length := by
    unfold trimRight
    have := List.length_dropWhile_le' isSpace (trimLeft s).reverse
    simpa using this
  have hlen2 : (trimLeft s).length ≤ s.length := List.length_dropWhile_le' _ _
  rw [h] at hlen1
  have hh : (trimLeft s).length = s.length := by omega
  cases s with
  | nil => rfl
  | cons a t =>
    unfold trimLeft at hh ⊢
    by_cases ha : isSpace a = true
    · simp only [List.dropWhile_cons, ha, if_true] at hh
      have := List.length_dropWhile_le' isSpace t
      simp at *; omega
    · simp [List.dropWhile_cons, ha]

theorem trimmed_iff (s : Str) : Trimmed s ↔ trimLeft s = s ∧ trimRight s = s := by
  constructor
  · intro h
    have hl := trimLeft_of_trimmed s h
    refine ⟨hl, ?_⟩
    have h' : trimSpace s = s := h
    unfold trimSpace at h'; rw [hl] at h'; exact h'
  · intro ⟨hl, hr⟩
    show trimSpace s = s
    unfold trimSpace; rw [hl, hr]

/-- a string is trimmed iff neither its first nor its last character is white space -/
theorem trimmed_iff_edges (s : Str) : Trimmed s ↔
    (∀ c, s.head? = some c → isSpace c = false) ∧ (∀ c, s.getLast? = some c → isSpace c = false) := by
  rw [trimmed_iff, trimLeft_eq_self_iff, trimRight_eq_self_iff]

theorem trimRightSpaces_decomp (r : Str) : ∃ k, r = trimRightSpaces r ++ spaces k := by
  unfold trimRightSpaces
  refine ⟨(r.reverse.takeWhile (· == ' ')).length, ?_⟩
  have h1 : r = (r.reverse.dropWhile (· == ' ')).reverse ++ (r.reverse.takeWhile (· == ' ')).reverse := by
    rw [← List.reverse_append, List.takeWhile_append_dropWhile, List.reverse_reverse]
  have h2 : ∀ (l : Str), l.takeWhile (· == ' ') = spaces (l.takeWhile (· == ' ')).length := by
    intro l
    induction l with
    | nil => simp [spaces]
    | cons a l ih =>
      by_cases ha : (a == ' ') = true
      · have : a = ' ' := by simpa using ha
        simp only [List.takeWhile_cons, ha, if_true, List.length_cons, spaces, List.replicate_succ]
        rw [this]; congr 1
      · simp [List.takeWhile_cons, ha, spaces]
  have h3 : (r.reverse.takeWhile (· == ' ')).reverse = spaces (r.reverse.takeWhile (· == ' ')).length := by
    rw [h2 r.reverse]; simp [spaces]
  rw [← h3]; exact h1

/-! ## widths -/

theorem alphaField_length (s : Str) (max : Nat) (h : max ≤ lineLength) : (alphaField s max).length = max := by
  unfold alphaField
  have : ¬ max > lineLength := by omega
  simp only [this, if_false]
  split
  · simp; omega
  · simp [spaces]; omega

theorem stringField_length (s : Str) (max : Nat) (h : max ≤ lineLength) : (stringField s max).length = max := by
  unfold stringField
  have : ¬ max > lineLength := by omega
  simp only [this, if_false]
  split
  · simp; omega
  · simp [zeros]; omega

theorem numericField_length (n : Int) (max : Nat) (h : max ≤ lineLength) : (numericField n max).length = max := by
  unfold numericField
  have : ¬ max > lineLength := by omega
  simp only [this, if_false]
  split
  · simp; omega
  · simp [zeros]; omega

/-! ## parse ∘ render for strings -/

theorem trimSpace_alphaField (s : Str) (max : Nat) (hm : max ≤ lineLength) (hl : s.length ≤ max) (ht : Trimmed s) :
    trimSpace (alphaField s max) = s := by
  unfold alphaField
  have h1 : ¬ max > lineLength := by omega
  have h2 : ¬ s.length > max := by omega
  simp only [h1, h2, if_false]
  exact trimSpace_append_spaces s _ ht

theorem alphaField_of_length (s : Str) (max : Nat) (hm : max ≤ lineLength) (hl : s.length = max) : alphaField s max = s := by
  unfold alphaField
  have h1 : ¬ max > lineLength := by omega
  have h2 : ¬ s.length > max := by omega
  simp [h1, h2, hl, spaces]

theorem stringField_of_length (s : Str) (max : Nat) (hm : max ≤ lineLength) (hl : s.length = max) : stringField s max = s := by
  unfold stringField
  have h1 : ¬ max > lineLength := by omega
  have h2 : ¬ s.length > max := by omega
  simp [h1, h2, hl, zeros]

end Ach
