import Ach.Model.IO
/-!
# Lemmas for C16 (`Ach.Model.IO`)

Writer: one invariant, `WInv w t n k` — "the fault budget is conserved, and *if the sticky error is still nil* then
everything submitted so far (`t`) is either delivered or buffered, in order, and `lineNum = n`" — is pushed through every
operation as a Hoare triple `Step`.  It does not care whether an error result is checked or dropped: after a failure
the sticky error is set and the invariant holds vacuously, which is exactly why the final `Flush` is enough.
-/
namespace Ach.IO
variable {α : Type}

/-! ## the underlying writer -/

theorem Under.write_budget (u : Under α) (p : List α) :
    (u.write p).1.got.length + (u.write p).1.room = u.got.length + u.room := by
  unfold Under.write
  split
  · simp; omega
  · simp; omega

theorem Under.write_got (u : Under α) (p : List α) :
    (u.write p).1.got = u.got ++ p.take (u.write p).2.1 := by
  unfold Under.write
  split <;> simp

/-! ## bufio.Writer -/

/-- budget conserved; no sticky error ⇒ delivered ++ buffered = submitted -/
def BInv (b : BW α) (t : List α) (k : Nat) : Prop :=
  b.wr.got.length + b.wr.room = k ∧ (b.err = none → b.wr.got ++ b.buf = t)

theorem flush_sticky (b : BW α) (e : WErr) (h : b.err = some e) : b.flush = (b, some e) := by
  simp [BW.flush, h]

/-- `Flush` returns exactly the sticky error it leaves behind -/
theorem flush_ret (b : BW α) : b.flush.2 = b.flush.1.err := by
  unfold BW.flush
  dsimp only
  split
  · next e h => simp [h]
  · next h =>
    split
    · simp [h]
    · split <;> simp_all

theorem flush_ok_buf (b : BW α) (h : b.flush.1.err = none) : b.flush.1.buf = [] := by
  revert h
  unfold BW.flush
  dsimp only
  split
  · next e h => simp [h]
  · split
    · next h0 => intro _; simpa using h0
    · split <;> simp

theorem flush_inv (b : BW α) (t : List α) (k : Nat) (h : BInv b t k) : BInv b.flush.1 t k := by
  obtain ⟨hb, ht⟩ := h
  unfold BW.flush
  dsimp only
  split
  · exact ⟨hb, ht⟩
  · next hn =>
    split
    · exact ⟨hb, ht⟩
    · have hbud := Under.write_budget b.wr b.buf
      have hgot := Under.write_got b.wr b.buf
      split
      · refine ⟨by simpa [hb] using hbud, ?_⟩
        simp
      · next he =>
        refine ⟨by simpa [hb] using hbud, fun _ => ?_⟩
        have hn' : ¬ ((b.wr.write b.buf).2.1 < b.buf.length) := by
          intro hlt
          simp [hlt] at he
          cases hx : (b.wr.write b.buf).2.2 <;> simp [hx] at he
        have : List.take (b.wr.write b.buf).2.1 b.buf = b.buf := List.take_of_length_le (by omega)
        simp [hgot, this, ← ht hn]

/-- the invariant of the `WriteString` loop: the rest of `s` still to be copied is accounted for -/
theorem wsLoop_inv (k : Nat) : ∀ (fuel : Nat) (b : BW α) (s t : List α), BInv b t k →
    (b.wsLoop fuel s).1.wr.got.length + (b.wsLoop fuel s).1.wr.room = k ∧
    ((b.wsLoop fuel s).1.err = none →
      (b.wsLoop fuel s).1.wr.got ++ (b.wsLoop fuel s).1.buf ++ (b.wsLoop fuel s).2 = t ++ s) := by
  intro fuel
  induction fuel with
  | zero => intro b s t h; exact ⟨h.1, fun he => by simp [BW.wsLoop, h.2 he]⟩
  | succ fuel ih =>
    intro b s t h
    unfold BW.wsLoop
    split
    · have h1 : BInv ({ b with buf := b.buf ++ s.take b.avail } : BW α) (t ++ s.take b.avail) k :=
        ⟨h.1, fun he => by simp [← h.2 he]⟩
      have := ih _ (s.drop b.avail) _ (flush_inv _ _ _ h1)
      refine ⟨this.1, fun he => ?_⟩
      rw [this.2 he, List.append_assoc, List.take_append_drop]
    · exact ⟨h.1, fun he => by simp [h.2 he]⟩

theorem wsLoop_sticky (e : WErr) : ∀ (fuel : Nat) (b : BW α) (s : List α), b.err = some e →
    b.wsLoop fuel s = (b, s) := by
  intro fuel b s h
  cases fuel <;> simp [BW.wsLoop, h]

theorem writeString_sticky (b : BW α) (s : List α) (e : WErr) (h : b.err = some e) :
    b.writeString s = (b, some e) := by
  simp [BW.writeString, wsLoop_sticky e _ b s h, h]

theorem writeString_ret (b : BW α) (s : List α) : (b.writeString s).2 = (b.writeString s).1.err := by
  unfold BW.writeString
  dsimp only
  split
  · next e h => simp [h]
  · next h => simp [h]

theorem writeString_inv (b : BW α) (s t : List α) (k : Nat) (h : BInv b t k) :
    BInv (b.writeString s).1 (t ++ s) k := by
  have hl := wsLoop_inv k (s.length + 1) b s t h
  unfold BW.writeString
  dsimp only
  split
  · next e he => exact ⟨hl.1, fun hn => by simp [he] at hn⟩
  · next he => exact ⟨hl.1, fun _ => by simpa [List.append_assoc] using hl.2 he⟩

/-- a string that fits is just appended to the buffer: no underlying write -/
theorem writeString_fits (b : BW α) (s : List α) (he : b.err = none) (hf : s.length ≤ b.avail) :
    b.writeString s = ({ b with buf := b.buf ++ s }, none) := by
  have : b.wsLoop (s.length + 1) s = (b, s) := by
    simp [BW.wsLoop, Nat.not_lt.mpr hf]
  simp [BW.writeString, this, he]

/-! ### the model's buffer never exceeds `cap`, and the loop's fuel never runs out -/

def BW.Wf (b : BW α) : Prop := 0 < b.cap ∧ b.buf.length ≤ b.cap

theorem flush_wf (b : BW α) (h : b.Wf) : b.flush.1.Wf ∧ b.flush.1.cap = b.cap ∧
    (b.flush.1.err = none → b.flush.1.buf = []) := by
  refine ⟨?_, ?_, flush_ok_buf b⟩
  · unfold BW.flush
    dsimp only
    split
    · exact h
    · split
      · exact h
      · split
        · exact ⟨h.1, by simp; have := h.2; omega⟩
        · exact ⟨h.1, by simp⟩
  · unfold BW.flush
    dsimp only
    split
    · rfl
    · split
      · rfl
      · split <;> rfl

/-- with enough fuel the loop stops because its condition is false -/
theorem wsLoop_exit : ∀ (fuel : Nat) (b : BW α) (s : List α), b.Wf →
    (b.err = none → s.length + (if b.buf.length = 0 then 0 else 1) ≤ fuel) →
    (b.wsLoop fuel s).1.Wf ∧ (b.wsLoop fuel s).1.cap = b.cap ∧
    ((b.wsLoop fuel s).1.err = none → (b.wsLoop fuel s).2.length ≤ (b.wsLoop fuel s).1.avail) := by
  intro fuel
  induction fuel with
  | zero =>
    intro b s h hf
    refine ⟨h, rfl, fun he => ?_⟩
    have := hf he
    have : s.length = 0 := by omega
    simp [BW.wsLoop, this]
  | succ fuel ih =>
    intro b s h hf
    unfold BW.wsLoop
    split
    · next hc =>
      simp at hc
      have hf := hf hc.2
      have hb1 : ({ b with buf := b.buf ++ s.take b.avail } : BW α).Wf := ⟨h.1, by
        have := h.2
        simp [BW.avail]; omega⟩
      have hfl := flush_wf _ hb1
      have := ih _ (s.drop b.avail) hfl.1 (fun hn => by
        simp only [hfl.2.2 hn, List.length_nil, if_true, List.length_drop]
        by_cases hb0 : b.buf.length = 0
        · have : b.avail = b.cap := by simp [BW.avail, hb0]
          have := h.1
          simp [hb0] at hf
          omega
        · simp [hb0] at hf; omega)
      exact ⟨this.1, by rw [this.2.1, hfl.2.1], this.2.2⟩
    · next hc =>
      refine ⟨h, rfl, fun he => ?_⟩
      have he : b.err = none := he
      simp [he] at hc
      show s.length ≤ b.avail
      omega

theorem writeString_wf (b : BW α) (s : List α) (h : b.Wf) : (b.writeString s).1.Wf := by
  have hl := wsLoop_exit (s.length + 1) b s h (fun _ => by split <;> omega)
  unfold BW.writeString
  dsimp only
  split
  · exact hl.1
  · next he =>
    have := hl.2.2 he
    have := hl.1.2
    exact ⟨hl.1.1, by simp [BW.avail] at *; omega⟩

/-! ## the Writer: Hoare triples over `WInv` -/

theorem flush_mono (b : BW α) (h : b.flush.1.err = none) : b.err = none := by
  cases he : b.err with
  | none => rfl
  | some e => simp [flush_sticky b e he, he] at h

theorem writeString_mono (b : BW α) (s : List α) (h : (b.writeString s).1.err = none) : b.err = none := by
  cases he : b.err with
  | none => rfl
  | some e => simp [writeString_sticky b s e he, he] at h

def WInv (w : W α) (t : List α) (n k : Nat) : Prop :=
  w.bw.wr.got.length + w.bw.wr.room = k ∧ (w.bw.err = none → w.bw.wr.got ++ w.bw.buf = t ∧ w.lineNum = n)

/-- `{WInv t n} c {WInv t' n'}`, and an error result implies that the sticky error is set -/
def Step (c : W α → Res α) (t : List α) (n : Nat) (t' : List α) (n' : Nat) : Prop :=
  ∀ w k, WInv w t n k → WInv (c w).1 t' n' k ∧ ((c w).2.isSome → (c w).1.bw.err.isSome)

theorem winv_of_err {w : W α} {t : List α} {n k : Nat} (h : WInv w t n k) (he : w.bw.err.isSome) (t' : List α) (n' : Nat) :
    WInv w t' n' k :=
  ⟨h.1, fun hn => by simp [hn] at he⟩

theorem step_ws (s t : List α) (n : Nat) : Step (ws s) t n (t ++ s) n := by
  intro w k h
  have hi := writeString_inv w.bw s t k ⟨h.1, fun he => (h.2 he).1⟩
  refine ⟨⟨hi.1, fun he => ⟨hi.2 he, (h.2 (writeString_mono _ _ he)).2⟩⟩, fun hs => ?_⟩
  have : (ws s w).2 = (ws s w).1.bw.err := writeString_ret w.bw s
  rwa [← this]

theorem step_wflush (f : W α → W α) (t : List α) (n n' : Nat) (hf : ∀ w, (f w).bw = w.bw)
    (hn : ∀ w, w.lineNum = n → (f w).lineNum = n') : Step (fun w => wflush (f w)) t n t n' := by
  intro w k h
  have hi := flush_inv w.bw t k ⟨h.1, fun he => (h.2 he).1⟩
  simp only [wflush, hf]
  refine ⟨⟨hi.1, fun he => ⟨hi.2 he, hn w (h.2 (flush_mono _ he)).2⟩⟩, fun hs => ?_⟩
  have : w.bw.flush.2 = w.bw.flush.1.err := flush_ret w.bw
  rwa [← this]

theorem andThen_step {chk : Bool} {r : Res α} {f : W α → Res α} {t1 t2 : List α} {n1 n2 k : Nat}
    (hr : WInv r.1 t1 n1 k ∧ (r.2.isSome → r.1.bw.err.isSome)) (hf : Step f t1 n1 t2 n2) :
    WInv (andThen chk r f).1 t2 n2 k ∧ ((andThen chk r f).2.isSome → (andThen chk r f).1.bw.err.isSome) := by
  unfold andThen
  split
  · next hc =>
    simp at hc
    have he := hr.2 (by simp [hc.2])
    exact ⟨winv_of_err hr.1 he _ _, fun _ => he⟩
  · exact hf r.1 k hr.1

theorem step_lineDone (t : List α) (n : Nat) : Step lineDone t n t (n + 1) := by
  intro w k h
  unfold lineDone
  split
  · exact step_wflush (fun w => { w with lineNum := w.lineNum + 1 }) t n (n + 1) (fun _ => rfl)
      (fun w hw => by simp [hw]) w k h
  · exact ⟨⟨h.1, fun he => ⟨(h.2 he).1, by simp [(h.2 he).2]⟩⟩, by simp⟩

theorem step_writeLine (p : Policy) (cfg : Cfg α) (l t : List α) (n : Nat) :
    Step (writeLine p cfg l) t n (t ++ emitLine cfg l) (n + countLine l) := by
  intro w k h
  unfold writeLine emitLine countLine
  split
  · exact ⟨by simpa using h, by simp⟩
  · refine andThen_step (step_ws l t n w k h) ?_
    intro w k h
    refine andThen_step (step_ws cfg.ending _ n w k h) ?_
    rw [List.append_assoc]
    exact step_lineDone _ _

theorem step_writeLines (p : Policy) (cfg : Cfg α) : ∀ (ls : List (List α)) (t : List α) (n : Nat),
    Step (writeLines p cfg ls) t n (t ++ emitLines cfg ls) (n + countLines ls) := by
  intro ls
  induction ls with
  | nil => intro t n w k h; simpa [writeLines, emitLines, countLines] using h
  | cons l ls ih =>
    intro t n w k h
    unfold writeLines
    have := andThen_step (chk := p.checkCalls) (step_writeLine p cfg l t n w k h) (ih _ _)
    simpa [emitLines, countLines, List.append_assoc, Nat.add_assoc] using this

theorem step_padLoop (p : Policy) (cfg : Cfg α) : ∀ (m : Nat) (t : List α) (n : Nat),
    Step (padLoop p cfg m) t n (t ++ padding cfg m) n := by
  intro m
  induction m with
  | zero => intro t n w k h; simpa [padLoop, padding] using h
  | succ m ih =>
    intro t n w k h
    unfold padLoop
    have := andThen_step (chk := p.checkPadWS) (step_ws cfg.padLine t n w k h)
      (fun w k h => andThen_step (chk := p.checkPadWS) (step_ws cfg.ending _ n w k h) (ih _ _))
    simpa [padding, List.replicate_succ, List.append_assoc] using this

theorem step_padAll (p : Policy) (cfg : Cfg α) (t : List α) (n : Nat) :
    Step (fun w => padLoop p cfg (padCount w.lineNum) w) t n (t ++ padding cfg (padCount n)) n := by
  intro w k h
  show WInv (padLoop p cfg (padCount w.lineNum) w).1 _ _ _ ∧ ((padLoop p cfg (padCount w.lineNum) w).2.isSome →
    (padLoop p cfg (padCount w.lineNum) w).1.bw.err.isSome)
  cases he : w.bw.err with
  | none => rw [(h.2 he).2]; exact step_padLoop p cfg _ t n w k h
  | some e =>
    have hs : w.bw.err.isSome := by simp [he]
    have h1 := step_padLoop p cfg (padCount w.lineNum) t 0 w k (winv_of_err h hs _ _)
    have h2 := step_padLoop p cfg (padCount w.lineNum) t 1 w k (winv_of_err h hs _ _)
    refine ⟨⟨h1.1.1, fun hn => ?_⟩, h1.2⟩
    have := (h1.1.2 hn).2.symm.trans (h2.1.2 hn).2
    omega

/-- everything `Write` submits before its final `Flush`, as the chain of steps produces it -/
def bodyBytes (cfg : Cfg α) (f : WFile α) : List α :=
  emitLine cfg f.header ++ emitLines cfg f.batches ++ emitLines cfg f.iat ++ emitLine cfg f.control

def bodyCount (f : WFile α) : Nat :=
  0 + countLine f.header + countLines f.batches + countLines f.iat + countLine f.control

theorem step_writeBody (p : Policy) (cfg : Cfg α) (f : WFile α) (t : List α) (n : Nat) :
    Step (writeBody p cfg f) t n (t ++ bodyBytes cfg f ++ padding cfg (padCount (bodyCount f))) (bodyCount f) := by
  intro w k h
  unfold writeBody bodyBytes bodyCount
  have h0 : WInv ({ w with lineNum := 0 } : W α) t 0 k := ⟨h.1, fun he => ⟨(h.2 he).1, rfl⟩⟩
  simp only [← List.append_assoc]
  refine andThen_step (step_writeLine p cfg f.header t 0 _ k h0) ?_
  intro w k h
  refine andThen_step (step_writeLines p cfg f.batches _ _ w k h) ?_
  intro w k h
  refine andThen_step (step_writeLines p cfg f.iat _ _ w k h) ?_
  intro w k h
  refine andThen_step (step_writeLine p cfg f.control _ _ w k h) ?_
  exact step_padAll p cfg _ _

theorem render_eq (cfg : Cfg α) (f : WFile α) :
    render cfg f = bodyBytes cfg f ++ padding cfg (padCount (bodyCount f)) := by
  simp [render, bodyBytes, bodyCount, WFile.lines, emitLines, countLines, List.append_assoc, Nat.add_assoc]

/-- **no loss, no reordering, no duplication**: if `Write` (ending in `return w.w.Flush()`) returns nil on a writer
without a pending error, the underlying writer has received what it had, then what was buffered, then exactly the
rendering of the file; nothing stays buffered. -/
theorem write_ok (p : Policy) (hp : p.returnsFlush = true) (cfg : Cfg α) (f : WFile α) (w : W α)
    (h : (write p cfg f w).2 = none) :
    (write p cfg f w).1.bw.wr.got = w.bw.wr.got ++ w.bw.buf ++ render cfg f ∧ (write p cfg f w).1.bw.buf = [] ∧
    (write p cfg f w).1.bw.err = none ∧
    (write p cfg f w).1.bw.wr.got.length + (write p cfg f w).1.bw.wr.room = w.bw.wr.got.length + w.bw.wr.room := by
  have hw : WInv w (w.bw.wr.got ++ w.bw.buf) w.lineNum (w.bw.wr.got.length + w.bw.wr.room) := ⟨rfl, fun _ => ⟨rfl, rfl⟩⟩
  have hb := step_writeBody p cfg f _ _ w _ hw
  revert h
  unfold write andThen
  split
  · next hc => intro h; simp at hc; simp [h] at hc
  · intro h
    have hfl := step_wflush id _ _ _ (fun _ => rfl) (fun _ h => h) _ _ hb.1
    have he : (wflush (writeBody p cfg f w).1).1.bw.err = none := by
      have := flush_ret (writeBody p cfg f w).1.bw
      simp only [wflush] at h ⊢
      rw [← this]; exact h
    have hbuf := flush_ok_buf _ he
    have hgot := (hfl.1.2 he).1
    simp only [id] at hgot
    simp only [wflush] at hbuf hgot he ⊢
    rw [hbuf, List.append_nil] at hgot
    exact ⟨by rw [hgot, render_eq, List.append_assoc, List.append_assoc], hbuf, he, hfl.1.1⟩

/-- **every failure is reported**: if the underlying writer cannot take everything that is buffered plus the file,
`Write` returns an error -/
theorem write_fails (p : Policy) (hp : p.returnsFlush = true) (cfg : Cfg α) (f : WFile α) (w : W α)
    (hk : w.bw.wr.room < w.bw.buf.length + (render cfg f).length) : (write p cfg f w).2 ≠ none := by
  intro h
  have := write_ok p hp cfg f w h
  have hl := congrArg List.length this.1
  simp at hl
  omega

/-! ## failures that can only surface at the final Flush -/

/-- nothing has reached the underlying writer `u`; everything (`t`) sits in the buffer of size `cap` -/
def Fit (cap : Nat) (u : Under α) (w : W α) (t : List α) (n : Nat) : Prop :=
  w.bw.err = none ∧ w.bw.wr = u ∧ w.bw.buf = t ∧ w.lineNum = n ∧ w.bw.cap = cap

theorem andThen_none {chk : Bool} {r : Res α} {f : W α → Res α} (h : r.2 = none) : andThen chk r f = f r.1 := by
  simp [andThen, h]

theorem fit_ws {cap : Nat} {u : Under α} {w : W α} {t : List α} {n : Nat} (s : List α) (h : Fit cap u w t n)
    (hl : (t ++ s).length ≤ cap) : (ws s w).2 = none ∧ Fit cap u (ws s w).1 (t ++ s) n := by
  obtain ⟨he, hu, hb, hn, hc⟩ := h
  have : w.bw.writeString s = ({ w.bw with buf := w.bw.buf ++ s }, none) :=
    writeString_fits _ _ he (by simp [BW.avail, hb, hc] at *; omega)
  simp [ws, this, Fit, he, hu, hb, hn, hc]

theorem fit_lineDone {cap : Nat} {u : Under α} {w : W α} {t : List α} {n : Nat} (h : Fit cap u w t n)
    (hl : t.length + 94 ≤ cap) : (lineDone w).2 = none ∧ Fit cap u (lineDone w).1 t (n + 1) := by
  obtain ⟨he, hu, hb, hn, hc⟩ := h
  have : ¬ w.bw.avail < 94 := by simp [BW.avail, hb, hc]; omega
  simp [lineDone, this, Fit, he, hu, hb, hn, hc]

theorem fit_writeLine (p : Policy) (cfg : Cfg α) {cap : Nat} {u : Under α} {w : W α} {t : List α} {n : Nat}
    (l : List α) (h : Fit cap u w t n) (hl : (t ++ emitLine cfg l).length + 94 ≤ cap) :
    (writeLine p cfg l w).2 = none ∧ Fit cap u (writeLine p cfg l w).1 (t ++ emitLine cfg l) (n + countLine l) := by
  unfold writeLine
  unfold emitLine countLine at *
  split
  · next hi => simpa [hi] using h
  · next hi =>
    simp only [hi] at hl ⊢
    simp at hl
    have h1 := fit_ws l h (by simp; omega)
    rw [andThen_none h1.1]
    have h2 := fit_ws cfg.ending h1.2 (by simp; omega)
    rw [andThen_none h2.1]
    have h3 := fit_lineDone h2.2 (by simp; omega)
    simpa [List.append_assoc] using h3

theorem fit_writeLines (p : Policy) (cfg : Cfg α) {cap : Nat} {u : Under α} : ∀ (ls : List (List α)) (w : W α)
    (t : List α) (n : Nat), Fit cap u w t n → (t ++ emitLines cfg ls).length + 94 ≤ cap →
    (writeLines p cfg ls w).2 = none ∧ Fit cap u (writeLines p cfg ls w).1 (t ++ emitLines cfg ls) (n + countLines ls) := by
  intro ls
  induction ls with
  | nil => intro w t n h _; simpa [writeLines, emitLines, countLines] using h
  | cons l ls ih =>
    intro w t n h hl
    unfold writeLines
    simp [emitLines] at hl
    have h1 := fit_writeLine p cfg l h (by simp; omega)
    rw [andThen_none h1.1]
    have h2 := ih _ _ _ h1.2 (by simp [emitLines]; omega)
    simpa [emitLines, countLines, List.append_assoc, Nat.add_assoc] using h2

theorem fit_padLoop (p : Policy) (cfg : Cfg α) {cap : Nat} {u : Under α} : ∀ (m : Nat) (w : W α)
    (t : List α) (n : Nat), Fit cap u w t n → (t ++ padding cfg m).length ≤ cap →
    (padLoop p cfg m w).2 = none ∧ Fit cap u (padLoop p cfg m w).1 (t ++ padding cfg m) n := by
  intro m
  induction m with
  | zero => intro w t n h _; simpa [padLoop, padding] using h
  | succ m ih =>
    intro w t n h hl
    unfold padLoop
    simp [padding, List.replicate_succ] at hl
    have h1 := fit_ws cfg.padLine h (by simp; omega)
    rw [andThen_none h1.1]
    have h2 := fit_ws cfg.ending h1.2 (by simp; omega)
    rw [andThen_none h2.1]
    have h3 := ih _ _ _ h2.2 (by simp [padding]; omega)
    simpa [padding, List.replicate_succ, List.append_assoc] using h3

/-- a file that fits the buffer with 94 bytes to spare is not written at all before the final `Flush` -/
theorem fit_writeBody (p : Policy) (cfg : Cfg α) (f : WFile α) (cap : Nat) (u : Under α)
    (hl : (render cfg f).length + 94 ≤ cap) :
    (writeBody p cfg f (newWriter cap u)).2 = none ∧
    Fit cap u (writeBody p cfg f (newWriter cap u)).1 (render cfg f) (bodyCount f) := by
  rw [render_eq] at hl ⊢
  unfold bodyBytes at hl ⊢
  unfold bodyCount at hl ⊢
  unfold writeBody
  simp at hl
  have h0 : Fit cap u ({ newWriter cap u with lineNum := 0 } : W α) [] 0 := ⟨rfl, rfl, rfl, rfl, rfl⟩
  have h1 := fit_writeLine p cfg f.header h0 (by simp; omega)
  rw [andThen_none h1.1]
  have h2 := fit_writeLines p cfg f.batches _ _ _ h1.2 (by simp; omega)
  rw [andThen_none h2.1]
  have h3 := fit_writeLines p cfg f.iat _ _ _ h2.2 (by simp; omega)
  rw [andThen_none h3.1]
  have h4 := fit_writeLine p cfg f.control h3.2 (by simp; omega)
  rw [andThen_none h4.1]
  rw [h4.2.2.2.2.1]
  have h5 := fit_padLoop p cfg (padCount (0 + countLine f.header + countLines f.batches + countLines f.iat + countLine f.control))
    _ _ _ h4.2 (by simp; omega)
  simpa [List.append_assoc] using h5

/-! ## the Reader -/

theorem Plan.read_lt (p : Plan) (pos n : Nat) (hn : 0 < n) (h : pos < p.limit) :
    (p.read pos n).2.2 = none ∧ 0 < (p.read pos n).2.1 ∧ (p.read pos n).2.1 ≤ n ∧
    (p.read pos n).1 = pos + (p.read pos n).2.1 ∧ (p.read pos n).1 ≤ p.limit := by
  simp only [Plan.read, h, if_true]
  refine ⟨trivial, ?_, ?_, trivial, ?_⟩ <;> split <;> omega

theorem Plan.read_ge (p : Plan) (pos n : Nat) (h : ¬ pos < p.limit) : p.read pos n = (pos, 0, some p.endErr) := by
  simp [Plan.read, h]

/-- `io.ReadAtLeast`'s loop over the fault plan: either `mn` bytes, or everything up to the failure and its error -/
theorem readLoop_spec (p : Plan) : ∀ (fuel pos n mn : Nat), pos ≤ p.limit → n ≤ mn → mn - n + 1 ≤ fuel →
    readLoop p fuel pos n mn =
      if mn ≤ n + (p.limit - pos) then (pos + (mn - n), mn, none)
      else (p.limit, n + (p.limit - pos), some p.endErr) := by
  intro fuel
  induction fuel with
  | zero => intro pos n mn _ _ h; omega
  | succ fuel ih =>
    intro pos n mn hp hn hf
    unfold readLoop
    by_cases hlt : n < mn
    · simp only [hlt, if_true]
      by_cases hpl : pos < p.limit
      · obtain ⟨h1, h2, h3, h4, h5⟩ := Plan.read_lt p pos (mn - n) (by omega) hpl
        simp only [h1]
        rw [ih _ _ _ h5 (by omega) (by omega), h4]
        generalize (p.read pos (mn - n)).2.1 = m at *
        split <;> split <;> first | omega | (simp; omega)
      · rw [Plan.read_ge p pos _ hpl]
        have : pos = p.limit := by omega
        simp only []
        rw [if_neg (by omega)]
        simp [this]
    · have : n = mn := by omega
      simp [this]

def sniffErr (p : Plan) : RErr := if 0 < p.limit ∧ p.endErr = .eof then .unexpectedEOF else p.endErr

theorem readFull_spec (p : Plan) (size : Nat) :
    readFull p size = if size ≤ p.limit then (size, size, none) else (p.limit, p.limit, some (sniffErr p)) := by
  have := readLoop_spec p (size + 1) 0 0 size (by omega) (by omega) (by omega)
  simp only [Nat.zero_add, Nat.sub_zero] at this
  unfold readFull
  simp only [this]
  by_cases h : size ≤ p.limit
  · simp [h]
  · simp only [h, if_false, sniffErr]
    cases he : p.endErr <;> by_cases h0 : 0 < p.limit <;> simp [h0]

theorem scanAll_none (p : Plan) (bufSz : Nat) (hb : 0 < bufSz) : ∀ (fuel pv seen : Nat), pv + 1 ≤ fuel →
    scanAll p bufSz fuel ⟨pv, none⟩ seen = (seen + pv, none) := by
  intro fuel
  induction fuel with
  | zero => intro pv seen h; omega
  | succ fuel ih =>
    intro pv seen h
    unfold scanAll
    by_cases hpv : 0 < pv
    · simp only [CRdr.read, gt_iff_lt, hpv, if_true]
      rw [ih _ _ (by omega)]
      simp; omega
    · have : pv = 0 := by omega
      simp [CRdr.read, this]

theorem scanAll_some (p : Plan) (bufSz : Nat) (hb : 0 < bufSz) : ∀ (fuel pv pos seen : Nat), pos ≤ p.limit →
    pv + (p.limit - pos) + 1 ≤ fuel →
    scanAll p bufSz fuel ⟨pv, some pos⟩ seen =
      (seen + pv + (p.limit - pos), if p.endErr = .eof then none else some p.endErr) := by
  intro fuel
  induction fuel with
  | zero => intro pv pos seen _ h; omega
  | succ fuel ih =>
    intro pv pos seen hp h
    unfold scanAll
    by_cases hpv : 0 < pv
    · simp only [CRdr.read, gt_iff_lt, hpv, if_true]
      rw [ih _ _ _ hp (by omega)]
      simp; omega
    · have hpv0 : pv = 0 := by omega
      subst hpv0
      by_cases hpl : pos < p.limit
      · obtain ⟨h1, h2, h3, h4, h5⟩ := Plan.read_lt p pos bufSz hb hpl
        simp only [CRdr.read, gt_iff_lt, Nat.lt_irrefl, if_false, h1]
        rw [ih _ _ _ h5 (by omega), h4]
        simp; omega
      · rw [show (CRdr.read p ⟨0, some pos⟩ bufSz) = (⟨0, some pos⟩, 0, some p.endErr) by
          simp [CRdr.read, Plan.read_ge p pos _ hpl]]
        have : p.limit - pos = 0 := by omega
        simp [this]

theorem Plan.limit_le_total (p : Plan) : p.limit ≤ p.total := by simp [Plan.limit]; omega

/-- complete description of the I/O verdict of `NewReader(src).Read()` (with the `scanner.Err()` check) -/
theorem readFile_eq (p : Plan) :
    readFile true p =
      if sniffLen ≤ p.limit then (if p.endErr = .eof then .ok p.limit else .errScan p.endErr p.limit)
      else match p.endErr with
        | .other => .errNilScanner
        | _ => .ok p.limit := by
  have hlt := p.limit_le_total
  unfold readFile newReader charsetNewReader
  rw [readFull_spec]
  by_cases h : sniffLen ≤ p.limit
  · simp only [h, if_true, read]
    rw [scanAll_some p 4096 (by omega) _ _ _ _ h (by omega)]
    by_cases he : p.endErr = .eof <;> simp [he] <;> omega
  · simp only [h, if_false, sniffErr]
    cases he : p.endErr with
    | other => simp [read]
    | unexpectedEOF =>
      simp [read]
      rw [scanAll_none p 4096 (by omega) _ _ _ (by omega)]
      simp
    | eof =>
      by_cases h0 : 0 < p.limit
      · simp [h0, read]
        rw [scanAll_none p 4096 (by omega) _ _ _ (by omega)]
        simp
      · have : p.limit = 0 := by omega
        simp [read, this]
        rw [scanAll_none p 4096 (by omega) _ _ _ (by omega)]

end Ach.IO
