import Ach.Model.Flatten
/-! Conservation, the conflict invariant and idempotence of the flatten loop. -/
set_option linter.unusedSimpArgs false
namespace Ach.Flatten

theorem absorb_perm (b : FBatch) : ∀ (gs : List FBatch), (allEntries (absorb b gs)).Perm (allEntries gs ++ b.entries)
  | [] => by simp [absorb, allEntries]
  | g :: gs => by
    unfold absorb
    split
    · simp only [allEntries, List.flatMap_cons]
      rw [List.append_assoc, List.append_assoc]
      exact List.Perm.append_left _ List.perm_append_comm
    · have ih := absorb_perm b gs
      simp only [allEntries, List.flatMap_cons] at ih ⊢
      rw [List.append_assoc]
      exact List.Perm.append_left _ ih

theorem foldl_absorb_perm : ∀ (bs gs : List FBatch),
    (allEntries (bs.foldl (fun gs b => absorb b gs) gs)).Perm (allEntries gs ++ allEntries bs)
  | [], gs => by simp [allEntries]
  | b :: bs, gs => by
    rw [List.foldl_cons]
    refine (foldl_absorb_perm bs (absorb b gs)).trans ?_
    have : allEntries (b :: bs) = b.entries ++ allEntries bs := by simp [allEntries]
    rw [this, ← List.append_assoc]
    exact List.Perm.append_right _ (absorb_perm b gs)

/-- **flatten_conserves**: whatever order the batches are processed in, the groups hold exactly the input's entries -/
theorem flatten_conserves (bs bs' : List FBatch) (h : bs'.Perm bs) : (allEntries (flatten bs')).Perm (allEntries bs) := by
  have := foldl_absorb_perm bs' []
  simp only [allEntries, List.flatMap_nil, List.nil_append] at this
  refine this.trans ?_
  exact List.Perm.flatMap_right _ h

/-! ## groups with equal signatures always conflict -/

def Conf (a b : FBatch) : Prop := a.sig = b.sig → shares a.entries b.entries = true

theorem shares_symm (a b : List FEntry) : shares a b = shares b a := by
  unfold shares
  apply Bool.eq_iff_iff.2
  simp only [List.any_eq_true, decide_eq_true_eq]
  constructor
  · rintro ⟨x, hx, y, hy, h⟩; exact ⟨y, hy, x, hx, h.symm⟩
  · rintro ⟨x, hx, y, hy, h⟩; exact ⟨y, hy, x, hx, h.symm⟩

theorem shares_mono_right (a b c : List FEntry) (h : shares a b = true) : shares a (b ++ c) = true := by
  unfold shares at *
  simp only [List.any_eq_true, decide_eq_true_eq] at *
  obtain ⟨x, hx, y, hy, e⟩ := h
  exact ⟨x, hx, y, List.mem_append_left _ hy, e⟩

theorem shares_mono_left (a b c : List FEntry) (h : shares a b = true) : shares (a ++ c) b = true := by
  rw [shares_symm] at h ⊢; exact shares_mono_right _ _ _ h

/-- every group after `absorb` is an old group (possibly grown, same signature) or the new batch itself -/
theorem absorb_mem (b : FBatch) : ∀ (gs : List FBatch) (x : FBatch), x ∈ absorb b gs →
    (∃ g ∈ gs, g.sig = x.sig ∧ ∃ extra, x.entries = g.entries ++ extra) ∨ (x = b ∧ ∀ g ∈ gs, canMerge b g = false)
  | [], x, hx => by simp [absorb] at hx; exact Or.inr ⟨hx, by simp⟩
  | g :: gs, x, hx => by
    unfold absorb at hx
    split at hx
    · rcases List.mem_cons.1 hx with hx | hx
      · subst hx; exact Or.inl ⟨g, List.mem_cons_self .., rfl, b.entries, rfl⟩
      · exact Or.inl ⟨x, List.mem_cons_of_mem _ hx, rfl, [], by simp⟩
    · rename_i hc
      rcases List.mem_cons.1 hx with hx | hx
      · subst hx; exact Or.inl ⟨x, List.mem_cons_self .., rfl, [], by simp⟩
      · rcases absorb_mem b gs x hx with ⟨g', hg', h1, h2⟩ | ⟨h1, h2⟩
        · exact Or.inl ⟨g', List.mem_cons_of_mem _ hg', h1, h2⟩
        · refine Or.inr ⟨h1, ?_⟩
          intro g' hg'
          rcases List.mem_cons.1 hg' with hg' | hg'
          · subst hg'; simpa using hc
          · exact h2 g' hg'

theorem absorb_conf (b : FBatch) : ∀ (gs : List FBatch), gs.Pairwise Conf → (absorb b gs).Pairwise Conf
  | [], _ => by simp [absorb]
  | g :: gs, h => by
    rw [List.pairwise_cons] at h
    obtain ⟨hg, hgs⟩ := h
    unfold absorb
    split
    · rw [List.pairwise_cons]
      refine ⟨?_, hgs⟩
      intro x hx hs
      exact shares_mono_left _ _ _ (hg x hx hs)
    · rename_i hc
      rw [List.pairwise_cons]
      refine ⟨?_, absorb_conf b gs hgs⟩
      intro x hx hs
      rcases absorb_mem b gs x hx with ⟨g', hg', h1, extra, h2⟩ | ⟨h1, _⟩
      · rw [h2]; exact shares_mono_right _ _ _ (hg g' hg' (by rw [h1]; exact hs))
      · subst h1
        -- g could not take b although signatures are equal: they share a trace
        have : canMerge x g = false := by simpa using hc
        simp only [canMerge, Bool.and_eq_false_iff, decide_eq_false_iff_not, Bool.not_eq_false'] at this
        rcases this with h | h
        · exact absurd hs h
        · rw [shares_symm]; simpa using h

/-- **flatten_groups_conflict**: in the result, two groups with equal signatures always share a trace number -/
theorem flatten_groups_conflict (bs : List FBatch) : (flatten bs).Pairwise Conf := by
  unfold flatten
  have : ∀ (bs gs : List FBatch), gs.Pairwise Conf → (bs.foldl (fun gs b => absorb b gs) gs).Pairwise Conf := by
    intro bs
    induction bs with
    | nil => intro gs h; exact h
    | cons b bs ih => intro gs h; rw [List.foldl_cons]; exact ih _ (absorb_conf b gs h)
  exact this bs [] List.Pairwise.nil

/-! ## flattening a flattened file changes nothing -/

theorem absorb_of_conf (b : FBatch) : ∀ (gs : List FBatch), (∀ g ∈ gs, Conf g b) → absorb b gs = gs ++ [b]
  | [], _ => rfl
  | g :: gs, h => by
    unfold absorb
    have hc : canMerge b g = false := by
      simp only [canMerge, Bool.and_eq_false_iff, decide_eq_false_iff_not, Bool.not_eq_false']
      by_cases hs : g.sig = b.sig
      · right; rw [shares_symm]; exact h g (List.mem_cons_self ..) hs
      · left; exact hs
    simp only [hc, Bool.false_eq_true, if_false, List.cons_append]
    rw [absorb_of_conf b gs (fun x hx => h x (List.mem_cons_of_mem _ hx))]

theorem foldl_absorb_of_conf : ∀ (bs gs : List FBatch), (gs ++ bs).Pairwise Conf →
    bs.foldl (fun gs b => absorb b gs) gs = gs ++ bs
  | [], gs, _ => by simp
  | b :: bs, gs, h => by
    rw [List.foldl_cons]
    have hb : ∀ g ∈ gs, Conf g b := by
      intro g hg
      have := List.pairwise_append.1 h
      exact this.2.2 g hg b (List.mem_cons_self ..)
    rw [absorb_of_conf b gs hb]
    have : (gs ++ [b] ++ bs).Pairwise Conf := by simpa using h
    rw [foldl_absorb_of_conf bs (gs ++ [b]) this]
    simp

theorem conf_symm {a b : FBatch} (h : Conf a b) : Conf b a := by
  intro hs; rw [shares_symm]; exact h hs.symm

/-- **flatten_idempotent**: the groups of a flattened file, processed again in any order, come out unchanged
(each its own group — no merge happens) -/
theorem flatten_idempotent (bs : List FBatch) (p : List FBatch) (hp : p.Perm (flatten bs)) : flatten p = p := by
  have hc : p.Pairwise Conf := (hp.pairwise_iff (fun h => conf_symm h)).2 (flatten_groups_conflict bs)
  unfold flatten
  have := foldl_absorb_of_conf p [] (by simpa using hc)
  simpa using this

/-! ## entries of a group in trace order -/

theorem insertByTrace_perm (e : FEntry) : ∀ (l : List FEntry), (insertByTrace e l).Perm (e :: l)
  | [] => List.Perm.refl _
  | x :: xs => by
    unfold insertByTrace
    split
    · exact List.Perm.refl _
    · exact ((insertByTrace_perm e xs).cons x).trans (List.Perm.swap e x xs)

theorem sortByTrace_perm : ∀ (l : List FEntry), (sortByTrace l).Perm l
  | [] => List.Perm.refl _
  | e :: es => (insertByTrace_perm e (sortByTrace es)).trans ((sortByTrace_perm es).cons e)

def Ascending (l : List FEntry) : Prop := l.Pairwise (fun a b => a.trace ≤ b.trace)

theorem insertByTrace_sorted (e : FEntry) : ∀ (l : List FEntry), Ascending l → Ascending (insertByTrace e l)
  | [], _ => by simp [insertByTrace, Ascending]
  | x :: xs, h => by
    unfold insertByTrace
    unfold Ascending at h ⊢
    rw [List.pairwise_cons] at h
    split
    · rename_i hle
      rw [List.pairwise_cons]
      refine ⟨?_, List.pairwise_cons.2 h⟩
      intro y hy
      rcases List.mem_cons.1 hy with rfl | hy
      · exact hle
      · exact Nat.le_trans hle (h.1 y hy)
    · rename_i hle
      rw [List.pairwise_cons]
      refine ⟨?_, insertByTrace_sorted e xs h.2⟩
      intro y hy
      rcases List.mem_cons.1 ((insertByTrace_perm e xs).mem_iff.1 hy) with rfl | hy
      · omega
      · exact h.1 y hy

theorem sortByTrace_sorted : ∀ (l : List FEntry), Ascending (sortByTrace l)
  | [] => by simp [sortByTrace, Ascending]
  | e :: es => insertByTrace_sorted e _ (sortByTrace_sorted es)

/-- with distinct trace numbers the order is strict -/
theorem sortByTrace_strict (l : List FEntry) (h : (l.map (·.trace)).Nodup) :
    (sortByTrace l).Pairwise (fun a b => a.trace < b.trace) := by
  have hs := sortByTrace_sorted l
  have hn : ((sortByTrace l).map (·.trace)).Nodup := ((sortByTrace_perm l).map _).nodup_iff.2 h
  unfold Ascending at hs
  generalize sortByTrace l = s at hs hn
  induction s with
  | nil => exact List.Pairwise.nil
  | cons x xs ih =>
    rw [List.pairwise_cons] at hs ⊢
    simp only [List.map_cons, List.nodup_cons] at hn
    refine ⟨?_, ih hs.2 hn.2⟩
    intro y hy
    have := hs.1 y hy
    have hne : x.trace ≠ y.trace := by
      intro he
      exact hn.1 (List.mem_map.2 ⟨y, hy, he.symm⟩)
    omega

theorem sortByTrace_of_sorted : ∀ (l : List FEntry), Ascending l → sortByTrace l = l
  | [], _ => rfl
  | e :: es, h => by
    unfold Ascending at h
    rw [List.pairwise_cons] at h
    simp only [sortByTrace, sortByTrace_of_sorted es h.2]
    cases es with
    | nil => rfl
    | cons x xs => simp [insertByTrace, h.1 x (by simp)]

theorem allEntries_flattenSorted (bs : List FBatch) : (allEntries (flattenSorted bs)).Perm (allEntries (flatten bs)) := by
  unfold flattenSorted allEntries
  generalize flatten bs = gs
  induction gs with
  | nil => exact List.Perm.refl _
  | cons g gs ih =>
    simp only [List.map_cons, List.flatMap_cons]
    exact List.Perm.append (sortByTrace_perm g.entries) ih

end Ach.Flatten
