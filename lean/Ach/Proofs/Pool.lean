import Ach.Model.Pool
/-!
# Proofs about the buffer pool LTS (`Ach.Model.Pool`)

* `Inv` / `inv_step` / `inv_run` — ownership invariant, preserved by every step.
* `sim_step` / `sim_run` — each goroutine's private view evolves exactly as in the reference semantics.
* `next?_iff` — the executable transition function and the relation `Step` coincide.
* keyed store: `find` after `set`/`del`, commutation of requests on different keys.
-/
namespace Ach.Pool

/-! ## Lists -/

theorem get_set {α} {l : List α} {t u : Nat} {a x : α} (h : (l.set t a)[u]? = some x) :
    (u = t ∧ x = a) ∨ (u ≠ t ∧ l[u]? = some x) := by
  rw [List.getElem?_set] at h
  split at h
  · next e => subst e; split at h <;> simp_all
  · next e => exact Or.inr ⟨fun e' => e e'.symm, h⟩

/-! ## Ownership invariant -/

structure Inv (s : State) : Prop where
  poolNodup : s.pool.Nodup
  poolEmpty : ∀ b ∈ s.pool, s.heap b = []
  poolAlloc : ∀ b ∈ s.pool, b < s.fresh
  heldNodup : ∀ (t : Nat) (th : Thread), s.threads[t]? = some th → th.held.Nodup
  heldAlloc : ∀ (t : Nat) (th : Thread), s.threads[t]? = some th → ∀ b ∈ th.held, b < s.fresh
  heldNotPool : ∀ (t : Nat) (th : Thread), s.threads[t]? = some th → ∀ b ∈ th.held, b ∉ s.pool
  heldDisjoint : ∀ (t u : Nat) (th th' : Thread), s.threads[t]? = some th → s.threads[u]? = some th' → t ≠ u →
    ∀ b ∈ th.held, b ∉ th'.held
  disc : ∀ (t : Nat) (th : Thread), s.threads[t]? = some th → Disciplined th.prog

/-- frame lemma: goroutine `t` changes to `th'`, the shared part changes, everybody else is untouched -/
theorem inv_update {s : State} (hi : Inv s) {t : Nat} {th th' : Thread} (ht : s.threads[t]? = some th)
    {heap' : BufId → Bytes} {fresh' : BufId} {pool' : List BufId}
    (c1 : pool'.Nodup) (c2 : ∀ b ∈ pool', heap' b = [] ∧ b < fresh') (c3 : s.fresh ≤ fresh')
    (c4 : th'.held.Nodup ∧ ∀ b ∈ th'.held, b < fresh' ∧ b ∉ pool')
    (c5 : ∀ (u : Nat) (x : Thread), u ≠ t → s.threads[u]? = some x → ∀ b ∈ x.held, b ∉ pool' ∧ b ∉ th'.held)
    (c6 : Disciplined th'.prog) :
    Inv { heap := heap', fresh := fresh', pool := pool', threads := setThread s t th' } := by
  obtain ⟨h1, h2, h3, h4, h5, h6, h7, h8⟩ := hi
  constructor <;> simp only [setThread] <;> grind [get_set]

theorem inv_step {s s' : State} {l : Label} (hi : Inv s) (hs : Step s l s') : Inv s' := by
  have ⟨h1, h2, h3, h4, h5, h6, h7, h8⟩ := hi
  cases hs with
  | drop hb => constructor <;> grind [List.Nodup.erase, List.mem_of_mem_erase]
  | putKeep ht hp => exact absurd (h8 _ _ ht) (by simp [Disciplined, hp])
  | getNew ht hp =>
    exact inv_update hi ht h1 (by grind [upd]) (Nat.le_succ _) (by grind) (by grind) (by grind [Disciplined])
  | getPooled ht hp hb =>
    exact inv_update hi ht (h1.erase _) (by grind [List.mem_of_mem_erase]) (Nat.le_refl _)
      (by grind [List.Nodup.mem_erase_iff]) (by grind [List.mem_of_mem_erase]) (by grind [Disciplined])
  | write ht hp hh =>
    exact inv_update hi ht h1 (by grind [upd]) (Nat.le_refl _) (by grind) (by grind) (by grind [Disciplined])
  | emit ht hp hh =>
    exact inv_update hi ht h1 (by grind) (Nat.le_refl _) (by grind) (by grind) (by grind [Disciplined])
  | reset ht hp hh =>
    exact inv_update hi ht h1 (by grind [upd]) (Nat.le_refl _) (by grind) (by grind) (by grind [Disciplined])
  | put ht hp hh =>
    exact inv_update hi ht (by grind) (by grind [upd]) (Nat.le_refl _) (by grind) (by grind) (by grind [Disciplined])
  | skip ht hp hne hh =>
    exact inv_update hi ht h1 (by grind) (Nat.le_refl _) (by grind) (by grind) (by grind [Disciplined])

theorem inv_run {s s' : State} {ls : List Label} (hi : Inv s) (hr : Run s ls s') : Inv s' := by
  induction hr with
  | nil => exact hi
  | cons hs _ ih => exact ih (inv_step hi hs)

theorem init_threads (progs : List (List Op)) (t : Nat) :
    (init progs).threads[t]? = (progs[t]?).map fun p => ⟨p, [], []⟩ := by simp [init]

theorem inv_init {progs : List (List Op)} (hd : ∀ p ∈ progs, Disciplined p) : Inv (init progs) := by
  constructor <;> (try simp only [init_threads]) <;> (try simp [init]) <;> grind [List.mem_of_getElem?]

/-! ## Simulation of the private view -/

/-- what goroutine `th` sees of the heap: the contents of the buffers it holds, and its outputs -/
def view (h : BufId → Bytes) (th : Thread) : Local := ⟨th.held.map h, th.outs⟩

/-- where the reference semantics takes the goroutine from its present view -/
def future (h : BufId → Bytes) (th : Thread) : Local := seqRun (view h th) th.prog

theorem map_upd {h : BufId → Bytes} {b : BufId} {v : Bytes} {l : List BufId} (hb : b ∉ l) :
    l.map (upd h b v) = l.map h := by
  apply List.map_congr_left; intro x hx; simp only [upd]; split
  · next e => exact absurd (e ▸ hx) hb
  · rfl

theorem sim_update {s : State} {t : Nat} {th th' : Thread} (ht : s.threads[t]? = some th)
    {heap' : BufId → Bytes} (hown : future heap' th' = future s.heap th)
    (hframe : ∀ (u : Nat) (x : Thread), u ≠ t → s.threads[u]? = some x → ∀ b ∈ x.held, heap' b = s.heap b)
    (u : Nat) : ((setThread s t th')[u]?).map (future heap') = (s.threads[u]?).map (future s.heap) := by
  have hlt : t < s.threads.length := (List.getElem?_eq_some_iff.1 ht).1
  by_cases hu : u = t
  · subst hu; simp [setThread, List.getElem?_set_self hlt, ht, hown]
  · rw [setThread, List.getElem?_set_ne (fun e => hu e.symm)]
    cases hx : s.threads[u]? with
    | none => rfl
    | some x =>
      simp only [Option.map_some, future, view]
      rw [List.map_congr_left (hframe u x hu hx)]

theorem sim_step {s s' : State} {l : Label} (hi : Inv s) (hs : Step s l s') (u : Nat) :
    (s'.threads[u]?).map (future s'.heap) = (s.threads[u]?).map (future s.heap) := by
  have ⟨h1, h2, h3, h4, h5, h6, h7, h8⟩ := hi
  cases hs with
  | drop hb => rfl
  | putKeep ht hp => exact absurd (h8 _ _ ht) (by simp [Disciplined, hp])
  | @getNew t th rest ht hp =>
    refine sim_update ht ?_ (by grind [upd]) u
    have : s.fresh ∉ th.held := fun hm => Nat.lt_irrefl _ (h5 _ _ ht _ hm)
    simp [future, view, seqRun, seqStep, hp, upd, map_upd this]
  | getPooled ht hp hb =>
    exact sim_update ht (by simp [future, view, seqRun, seqStep, hp, h2 _ hb]) (fun _ _ _ _ _ _ => rfl) u
  | write ht hp hh =>
    refine sim_update ht ?_ (by grind [upd]) u
    have := h4 _ _ ht
    simp [hh] at this
    simp [future, view, seqRun, seqStep, hp, hh, upd, map_upd this.1]
  | emit ht hp hh =>
    exact sim_update ht (by simp [future, view, seqRun, seqStep, hp, hh]) (fun _ _ _ _ _ _ => rfl) u
  | reset ht hp hh =>
    refine sim_update ht ?_ (by grind [upd]) u
    have := h4 _ _ ht
    simp [hh] at this
    simp [future, view, seqRun, seqStep, hp, hh, upd, map_upd this.1]
  | put ht hp hh =>
    refine sim_update ht ?_ (by grind [upd]) u
    have := h4 _ _ ht
    simp [hh] at this
    simp [future, view, seqRun, seqStep, hp, hh, map_upd this.1]
  | @skip t th op rest ht hp hne hh =>
    refine sim_update ht ?_ (fun _ _ _ _ _ _ => rfl) u
    cases op <;> simp_all [future, view, seqRun, seqStep]

theorem sim_run {s s' : State} {ls : List Label} (hi : Inv s) (hr : Run s ls s') (u : Nat) :
    (s'.threads[u]?).map (future s'.heap) = (s.threads[u]?).map (future s.heap) := by
  induction hr with
  | nil => rfl
  | cons hs _ ih => rw [ih (inv_step hi hs), sim_step hi hs]

/-- the private view of every goroutine, continued sequentially, ends where its program run alone ends -/
theorem sim_init {progs : List (List Op)} (hd : ∀ p ∈ progs, Disciplined p) {ls : List Label} {s : State}
    (hr : Run (init progs) ls s) {t : Nat} {th : Thread} (ht : s.threads[t]? = some th) :
    ∃ p, progs[t]? = some p ∧ seqRun (view s.heap th) th.prog = seqRun ⟨[], []⟩ p := by
  have h := sim_run (inv_init hd) hr t
  rw [ht, init_threads] at h
  cases hp : progs[t]? with
  | none => simp [hp] at h
  | some p => exact ⟨p, rfl, by simpa [hp, future, view] using h⟩

/-! ## Reference semantics: outputs only grow; render and parse jobs -/

theorem seqRun_append (l : Local) (p q : List Op) : seqRun l (p ++ q) = seqRun (seqRun l p) q := by
  simp [seqRun]

theorem seqStep_outs (l : Local) (op : Op) : ∃ e, (seqStep l op).outs = l.outs ++ e := by
  cases op <;> simp only [seqStep] <;> (try split) <;> first | exact ⟨_, rfl⟩ | exact ⟨[], (List.append_nil _).symm⟩

theorem seqRun_outs (l : Local) (p : List Op) : ∃ e, (seqRun l p).outs = l.outs ++ e := by
  induction p generalizing l with
  | nil => exact ⟨[], by simp [seqRun]⟩
  | cons op p ih =>
    obtain ⟨e1, h1⟩ := seqStep_outs l op
    obtain ⟨e2, h2⟩ := ih (seqStep l op)
    exact ⟨e1 ++ e2, by simp only [seqRun, List.foldl_cons] at h2 ⊢; rw [h2, h1, List.append_assoc]⟩

theorem seqRun_writes (b : Bytes) (bs o : List Bytes) (cs : List Bytes) :
    seqRun ⟨b :: bs, o⟩ (cs.map Op.write) = ⟨(b ++ cs.flatten) :: bs, o⟩ := by
  induction cs generalizing b with
  | nil => simp [seqRun]
  | cons c cs ih => simpa [seqRun, seqStep] using ih (b ++ c)

theorem seqRun_job (bs o : List Bytes) (j : Job) : seqRun ⟨bs, o⟩ j.ops = ⟨bs, o ++ [renderSeq j]⟩ := by
  have h : seqRun ⟨bs, o⟩ j.ops = seqRun (seqRun ⟨[] :: bs, o⟩ (j.chunks.map Op.write)) [Op.emit, Op.put] := by
    simp [Job.ops, seqRun, seqStep]
  rw [h, seqRun_writes]; simp [seqRun, seqStep, renderSeq]

theorem seqRun_jobs (bs o : List Bytes) (js : List Job) :
    seqRun ⟨bs, o⟩ (js.flatMap Job.ops) = ⟨bs, o ++ js.map renderSeq⟩ := by
  induction js generalizing o with
  | nil => simp [seqRun]
  | cons j js ih => rw [List.flatMap_cons, seqRun_append, seqRun_job, ih]; simp

theorem seqRun_fields (bs o : List Bytes) (fs : List (List Bytes)) :
    seqRun ⟨[] :: bs, o⟩ (fs.flatMap fun f => f.map Op.write ++ [Op.emit, Op.reset])
      = ⟨[] :: bs, o ++ fs.map List.flatten⟩ := by
  induction fs generalizing o with
  | nil => simp [seqRun]
  | cons f fs ih =>
    rw [List.flatMap_cons, seqRun_append, seqRun_append, seqRun_writes]
    simpa [seqRun, seqStep] using ih (o ++ [f.flatten])

theorem seqRun_parse (bs o : List Bytes) (fs : List (List Bytes)) :
    seqRun ⟨bs, o⟩ (parseOps fs) = ⟨bs, o ++ fs.map List.flatten⟩ := by
  have h : seqRun ⟨bs, o⟩ (parseOps fs) = seqRun (seqRun ⟨[] :: bs, o⟩
      (fs.flatMap fun f => f.map Op.write ++ [Op.emit, Op.reset])) [Op.put] := by
    rw [← seqRun_append]; simp [parseOps, seqRun, seqStep]
  rw [h, seqRun_fields]; simp [seqRun, seqStep]

/-- in every reachable state each goroutine has produced a prefix of what it produces alone, and all of it once done -/
theorem noninterference {progs : List (List Op)} (hd : ∀ p ∈ progs, Disciplined p) {ls : List Label} {s : State}
    (hr : Run (init progs) ls s) {t : Nat} {th : Thread} (ht : s.threads[t]? = some th) :
    ∃ p, progs[t]? = some p ∧ (∃ e, seqOutputs p = th.outs ++ e) ∧ (th.prog = [] → th.outs = seqOutputs p) := by
  obtain ⟨p, hp, h⟩ := sim_init hd hr ht
  refine ⟨p, hp, ?_, fun hnil => ?_⟩
  · obtain ⟨e, he⟩ := seqRun_outs (view s.heap th) th.prog
    exact ⟨e, by rw [seqOutputs, ← h, he]; rfl⟩
  · rw [seqOutputs, ← h, hnil]; rfl

/-! ## Every goroutine with work left can move (Get can always fall through to New) -/

theorem progress (s : State) {t : Nat} {th : Thread} (ht : s.threads[t]? = some th) (hp : th.prog ≠ []) :
    ∃ l s', Step s l s' := by
  obtain ⟨op, rest, hp⟩ := List.exists_cons_of_ne_nil hp
  cases hh : th.held with
  | nil =>
    cases op with
    | get => exact ⟨_, _, Step.getNew ht hp⟩
    | _ => exact ⟨_, _, Step.skip ht hp (by simp) hh⟩
  | cons b bs =>
    cases op with
    | get => exact ⟨_, _, Step.getNew ht hp⟩
    | write c => exact ⟨_, _, Step.write ht hp hh⟩
    | emit => exact ⟨_, _, Step.emit ht hp hh⟩
    | reset => exact ⟨_, _, Step.reset ht hp hh⟩
    | put => exact ⟨_, _, Step.put ht hp hh⟩
    | putKeep => exact ⟨_, _, Step.putKeep ht hp hh⟩

/-! ## The executable transition function is the relation -/

theorem next?_sound {s s' : State} {l : Label} (h : next? s l = some s') : Step s l s' := by
  cases l with
  | drop b =>
    simp only [next?] at h
    split at h
    · next hb => cases h; exact Step.drop hb
    · cases h
  | getNew t =>
    simp only [next?] at h
    split at h
    · next rest held outs ht => cases h; exact Step.getNew ht rfl
    · cases h
  | getPooled t b =>
    simp only [next?] at h
    split at h
    · next rest held outs ht =>
      split at h
      · next hb => cases h; exact Step.getPooled ht rfl hb
      · cases h
    · cases h
  | run t =>
    simp only [next?] at h
    split at h
    · next ht => cases h; exact Step.write ht rfl rfl
    · next ht => cases h; exact Step.emit ht rfl rfl
    · next ht => cases h; exact Step.reset ht rfl rfl
    · next ht => cases h; exact Step.put ht rfl rfl
    · next ht => cases h; exact Step.putKeep ht rfl rfl
    · cases h
    · next op rest outs hget ht => cases h; exact Step.skip ht rfl hget rfl
    · cases h

theorem next?_complete {s s' : State} {l : Label} (h : Step s l s') : next? s l = some s' := by
  cases h with
  | drop hb => simp [next?, hb]
  | @skip t th op rest ht hp hne hh =>
    obtain ⟨prog, held, outs⟩ := th
    simp only at hp hh; subst hp hh
    cases op <;> simp_all [next?]
  | @getNew t th rest ht hp =>
    obtain ⟨prog, held, outs⟩ := th
    simp only at hp; subst hp
    simp_all [next?]
  | @getPooled t th rest b ht hp hb =>
    obtain ⟨prog, held, outs⟩ := th
    simp only at hp; subst hp
    simp_all [next?]
  | @write t th rest c b bs ht hp hh =>
    obtain ⟨prog, held, outs⟩ := th
    simp only at hp hh; subst hp; subst hh
    simp_all [next?]
  | @emit t th rest b bs ht hp hh =>
    obtain ⟨prog, held, outs⟩ := th
    simp only at hp hh; subst hp; subst hh
    simp_all [next?]
  | @reset t th rest b bs ht hp hh =>
    obtain ⟨prog, held, outs⟩ := th
    simp only at hp hh; subst hp; subst hh
    simp_all [next?]
  | @put t th rest b bs ht hp hh =>
    obtain ⟨prog, held, outs⟩ := th
    simp only at hp hh; subst hp; subst hh
    simp_all [next?]
  | @putKeep t th rest b bs ht hp hh =>
    obtain ⟨prog, held, outs⟩ := th
    simp only at hp hh; subst hp; subst hh
    simp_all [next?]

theorem next?_iff {s s' : State} {l : Label} : next? s l = some s' ↔ Step s l s' := ⟨next?_sound, next?_complete⟩

theorem exec_sound {s s' : State} {ls : List Label} (h : exec s ls = some s') : Run s ls s' := by
  induction ls generalizing s with
  | nil => simp only [exec, Option.some.injEq] at h; exact h ▸ Run.nil
  | cons l ls ih =>
    simp only [exec] at h
    split at h
    · next s1 h1 => exact Run.cons (next?_sound h1) (ih h)
    · cases h

theorem observe_sound {progs : List (List Op)} {ls : List Label} {t : Nat} {p : List Op} {o : List Bytes}
    (h : observe progs ls t = some (p, o)) :
    ∃ s th, Run (init progs) ls s ∧ s.threads[t]? = some th ∧ th.prog = p ∧ th.outs = o := by
  simp only [observe] at h
  split at h
  · next s hs =>
    cases ht : s.threads[t]? with
    | none => simp [ht] at h
    | some th => simp [ht] at h; exact ⟨s, th, exec_sound hs, ht, h.1, h.2⟩
  · cases h

/-! ## Keyed store -/

section Store
variable {V R : Type}

theorem find_del (m : Store V) (k k' : String) : (m.del k).find k' = if k = k' then none else m.find k' := by
  induction m with
  | nil => simp [Store.del, Store.find]
  | cons e m ih => obtain ⟨a, v⟩ := e; grind [Store.del, Store.find]

theorem find_set (m : Store V) (k k' : String) (v : V) :
    (m.set k v).find k' = if k = k' then some v else m.find k' := by
  simp only [Store.set, Store.find, find_del]; split <;> simp_all

/-- observational equality of stores (a Go map has no order) -/
def Store.Equiv (m m' : Store V) : Prop := ∀ k, m.find k = m'.find k

/-- observationally equal stores answer every request alike and stay observationally equal -/
theorem repoStep_congr {m m' : Store V} (h : Store.Equiv m m') (a : ROp V R) :
    (repoStep m a).2 = (repoStep m' a).2 ∧ Store.Equiv (repoStep m a).1 (repoStep m' a).1 := by
  cases a <;> simp only [repoStep, ← h _] <;> (try split) <;>
    exact ⟨by simp, fun k => by simp [find_set, find_del, h k]⟩

theorem repoStep_find_other (m : Store V) (a : ROp V R) {k : String} (hk : a.key ≠ k) :
    (repoStep m a).1.find k = m.find k := by
  cases a <;> simp only [repoStep, ROp.key] at hk ⊢ <;> (try split) <;> simp [find_set, find_del, hk]

/-- the answer to a request depends only on the entry under its own key -/
theorem repoStep_resp_local {m m' : Store V} (a : ROp V R) (h : m.find a.key = m'.find a.key) :
    (repoStep m a).2 = (repoStep m' a).2 := by
  cases a <;> simp only [repoStep, ROp.key] at h ⊢ <;> (try rw [h]) <;> (try split) <;> rfl

theorem repoStep_find_own {m m' : Store V} (a : ROp V R) (h : m.find a.key = m'.find a.key) :
    (repoStep m a).1.find a.key = (repoStep m' a).1.find a.key := by
  cases a <;> simp only [repoStep, ROp.key] at h ⊢ <;> (try rw [h]) <;> (try split) <;>
    simp [find_set, find_del, h]

theorem repo_commute (m : Store V) (a b : ROp V R) (hk : a.key ≠ b.key) :
    (repoStep m a).2 = (repoStep (repoStep m b).1 a).2 ∧
    (repoStep (repoStep m a).1 b).2 = (repoStep m b).2 ∧
    Store.Equiv (repoStep (repoStep m a).1 b).1 (repoStep (repoStep m b).1 a).1 := by
  have hba : (repoStep m b).1.find a.key = m.find a.key := repoStep_find_other m b (Ne.symm hk)
  have hab : (repoStep m a).1.find b.key = m.find b.key := repoStep_find_other m a hk
  refine ⟨repoStep_resp_local a hba.symm, repoStep_resp_local b hab, fun k => ?_⟩
  by_cases ka : a.key = k
  · subst ka
    rw [repoStep_find_other _ b (Ne.symm hk)]
    exact repoStep_find_own a hba.symm
  · rw [repoStep_find_other _ a ka]
    by_cases kb : b.key = k
    · subst kb; exact repoStep_find_own b hab
    · rw [repoStep_find_other _ b kb, repoStep_find_other _ b kb, repoStep_find_other _ a ka]
end Store

end Ach.Pool
