import Ach.Model.FileCreate
import Ach.Proofs.Create
/-!
# `File.Create`: the file it leaves validates, and creating again changes nothing
-/
namespace Ach.FileCreate
open Ach

/-- the batch with header and control number set to `n` -/
def setNumber (b : VBatch) (n : Int) : VBatch :=
  { b with header := { b.header with batchNumber := n }, control := { b.control with batchNumber := n } }

theorem batchValidate_setNumber (o : Opts) (b : VBatch) (n : Int) (h : batchValidate o b = true) :
    batchValidate o (setNumber b n) = true := by
  unfold batchValidate at h ⊢
  simp only [setNumber, Bool.and_eq_true] at h ⊢
  obtain ⟨⟨⟨⟨⟨⟨⟨⟨⟨⟨⟨⟨⟨h1, h2⟩, h3⟩, h4⟩, h5⟩, h6⟩, _⟩, h8⟩, h9⟩, h10⟩, h11⟩, h12⟩, h13⟩, h14⟩ := h
  exact ⟨⟨⟨⟨⟨⟨⟨⟨⟨⟨⟨⟨⟨h1, h2⟩, h3⟩, h4⟩, h5⟩, h6⟩, by simp⟩, h8⟩, h9⟩, h10⟩, h11⟩, h12⟩, h13⟩, h14⟩

theorem renumber_length : ∀ (s : Int) (bs : List VBatch), (renumber s bs).length = bs.length
  | _, [] => rfl
  | s, b :: bs => by simp [renumber, renumber_length (s + 1) bs]

theorem renumber_valid (o : Opts) : ∀ (s : Int) (bs : List VBatch), (∀ b ∈ bs, batchValidate o b = true) →
    ∀ b ∈ renumber s bs, batchValidate o b = true
  | _, [], _ => by intro b hb; simp [renumber] at hb
  | s, x :: xs, h => by
    intro b hb
    simp only [renumber, List.mem_cons] at hb
    rcases hb with hb | hb
    · subst hb
      split
      · exact batchValidate_setNumber o x s (h x (by simp))
      · exact h x (by simp)
    · exact renumber_valid o (s + 1) xs (fun y hy => h y (by simp [hy])) b hb

/-- a function of a control that does not look at its batch number -/
def NumberBlind (g : VControl → Int) : Prop := ∀ (c : VControl) (n : Int), g { c with batchNumber := n } = g c

theorem sumBy_renumber (g : VControl → Int) (hg : NumberBlind g) : ∀ (s : Int) (bs : List VBatch),
    sumBy g ((renumber s bs).map (·.control)) = sumBy g (bs.map (·.control))
  | _, [] => rfl
  | s, b :: bs => by
    simp only [renumber, List.map_cons, sumBy_cons, sumBy_renumber g hg (s + 1) bs]
    split
    · rw [show ({ b with header := { b.header with batchNumber := s }, control := { b.control with batchNumber := s } } : VBatch).control
          = { b.control with batchNumber := s } from rfl, hg]
    · rfl

theorem renumberIAT_length : ∀ (s : Int) (l : List (Int × VControl)), (renumberIAT s l).length = l.length
  | _, [] => rfl
  | s, (h, c) :: cs => by simp [renumberIAT, renumberIAT_length (s + 1) cs]

theorem sumBy_renumberIAT (g : VControl → Int) (hg : NumberBlind g) : ∀ (s : Int) (l : List (Int × VControl)),
    sumBy g (renumberIAT s l) = sumBy g (l.map (·.2))
  | _, [] => rfl
  | s, (h, c) :: cs => by
    simp only [renumberIAT, List.map_cons, sumBy_cons, sumBy_renumberIAT g hg (s + 1) cs]
    split
    · rw [hg]
    · rfl

theorem blind_eac : NumberBlind (·.entryAddendaCount) := fun _ _ => rfl
theorem blind_hash : NumberBlind (·.entryHash) := fun _ _ => rfl
theorem blind_debit : NumberBlind (·.totalDebit) := fun _ _ => rfl
theorem blind_credit : NumberBlind (·.totalCredit) := fun _ _ => rfl

/-- **a created file validates**: if the header validates, every batch validates (they are not touched except for the
number), the fresh control validates and the numbering the loop leaves is ascending (or the options waive that), the
file `File.Create` leaves passes `File.ValidateWith` -/
theorem fileCreate_validates (o : Opts) (f : VFile) (hdrs : List Int) (hlen : hdrs.length = f.iatControls.length)
    (hh : o.allowMissingFileHeader = true ∨ f.headerOK = true)
    (hb : ∀ b ∈ f.batches, batchValidate o b = true)
    (hasc : o.allowUnorderedBatchNumbers = true ∨ o.customTraceNumbers = true ∨ batchNumbersAscend 0 (renumber 1 f.batches) = true) :
    fileValidate o (fileCreate f hdrs true) = true := by
  unfold fileValidate fileCreate
  simp only [Bool.or_eq_true, Bool.and_eq_true, decide_eq_true_eq, List.all_eq_true]
  right
  refine ⟨⟨⟨⟨⟨⟨⟨⟨?_, ?_⟩, ?_⟩, ?_⟩, ?_⟩, ?_⟩, ?_⟩, ?_⟩, ?_⟩
  · exact hh
  · simp [sumControls, renumber_length, renumberIAT_length, hlen]
  · exact renumber_valid o 1 f.batches hb
  · right; trivial
  · right; simp [allControls, sumControls]
  · simp [allControls, sumControls]
  · simp [allControls, sumControls]
  · rcases hasc with h | h | h
    · left; left; exact h
    · left; right; exact h
    · right; exact h
  · simp [allControls, sumControls]

theorem newNumbers_eq : ∀ (bs : List VBatch) (s : Int),
    (renumber s bs).map (·.header.batchNumber) = newNumbers s (bs.map (·.header.batchNumber))
  | [], _ => rfl
  | b :: bs, s => by
    simp only [renumber, List.map_cons, newNumbers, newNumbers_eq bs (s + 1)]
    split <;> rfl

/-- fresh batches (every number ≤ 1, as the constructors leave them) are numbered 1, 2, 3, … -/
theorem renumber_fresh_ascending : ∀ (bs : List VBatch) (s last : Int), last < s →
    (∀ b ∈ bs, b.header.batchNumber ≤ 1) → batchNumbersAscend last (renumber s bs) = true
  | [], _, _, _, _ => rfl
  | b :: bs, s, last, hl, h => by
    have hb := h b (by simp)
    simp only [renumber, hb, if_true, batchNumbersAscend, Bool.and_eq_true, decide_eq_true_eq]
    exact ⟨hl, renumber_fresh_ascending bs (s + 1) s (by omega) (fun x hx => h x (by simp [hx]))⟩

/-- the loop is idempotent: a second pass finds every number where the first left it -/
theorem renumber_idem : ∀ (bs : List VBatch) (s : Int), 1 ≤ s → renumber s (renumber s bs) = renumber s bs
  | [], _, _ => rfl
  | b :: bs, s, hs => by
    simp only [renumber]
    rw [renumber_idem bs (s + 1) (by omega)]
    congr 1
    by_cases hb : b.header.batchNumber ≤ 1
    · simp only [hb, if_true]
      by_cases h1 : s ≤ 1
      · simp [h1]
      · simp [h1]
    · simp [hb]

theorem newNumbers_idem : ∀ (ns : List Int) (s : Int), 1 ≤ s → newNumbers s (newNumbers s ns) = newNumbers s ns
  | [], _, _ => rfl
  | n :: ns, s, hs => by
    simp only [newNumbers]
    rw [newNumbers_idem ns (s + 1) (by omega)]
    congr 1
    by_cases hb : n ≤ 1
    · simp only [hb, if_true]
      by_cases h1 : s ≤ 1
      · simp [h1]
      · simp [h1]
    · simp [hb]

theorem renumberIAT_idem : ∀ (l : List (Int × VControl)) (s : Int), 1 ≤ s →
    renumberIAT s ((newNumbers s (l.map (·.1))).zip (renumberIAT s l)) = renumberIAT s l
  | [], _, _ => rfl
  | (h, c) :: cs, s, hs => by
    simp only [List.map_cons, newNumbers, renumberIAT, List.zip_cons_cons]
    rw [renumberIAT_idem cs (s + 1) (by omega)]
    congr 1
    by_cases hb : h ≤ 1
    · simp only [hb, if_true]
      by_cases h1 : s ≤ 1
      · simp [h1]
      · simp [h1]
    · simp [hb]

/-- **Create again changes nothing** (the IAT header numbers the first pass left are `newNumbers …`) -/
theorem fileCreate_idempotent (f : VFile) (hdrs : List Int) (hlen : hdrs.length = f.iatControls.length) (ok : Bool) :
    fileCreate (fileCreate f hdrs ok) (newNumbers (1 + f.batches.length) hdrs) ok = fileCreate f hdrs ok := by
  have hz : (hdrs.zip f.iatControls).map (·.1) = hdrs := by
    rw [List.map_fst_zip]; omega
  unfold fileCreate
  simp only [renumber_length]
  rw [renumber_idem f.batches 1 (by omega)]
  have := renumberIAT_idem (hdrs.zip f.iatControls) (1 + (f.batches.length : Int)) (by omega)
  rw [hz] at this
  rw [this]

end Ach.FileCreate
