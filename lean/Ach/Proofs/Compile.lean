import Ach.Model.Layout
/-! `compile` only ever returns layouts of width 94 (whatever the extracted facts are). -/
namespace Ach
open Ach.Gen

/-- `compile` only ever returns layouts of width 94 -/
theorem compile_width (pf : ParseFact) (rf : RenderFact) (L : Layout) (h : compile pf rf = .ok L) :
    Layout.width L = lineLength := by
  unfold compile at h
  simp only [bind, Except.bind, pure, Except.pure] at h
  repeat (split at h <;> try contradiction)
  all_goals (first | (injection h with h; subst h; simp_all) | simp_all)


end Ach
