import Ach.Model.Validate
/-!
# Relaxation options only relax: monotonicity of the validation model in `Opts`
-/
namespace Ach

/-- `o ≤ o'`: every relaxation flag set in `o` is set in `o'`; the non-relaxation options
(`requireABAOrigin`, `preserveSpaces`) are equal -/
structure Opts.le (o o' : Opts) : Prop where
  skipAll : o.skipAll = true → o'.skipAll = true
  bypassOrigin : o.bypassOrigin = true → o'.bypassOrigin = true
  bypassDestination : o.bypassDestination = true → o'.bypassDestination = true
  customTraceNumbers : o.customTraceNumbers = true → o'.customTraceNumbers = true
  allowZeroBatches : o.allowZeroBatches = true → o'.allowZeroBatches = true
  allowMissingFileHeader : o.allowMissingFileHeader = true → o'.allowMissingFileHeader = true
  allowMissingFileControl : o.allowMissingFileControl = true → o'.allowMissingFileControl = true
  bypassCompanyIdentificationMatch : o.bypassCompanyIdentificationMatch = true → o'.bypassCompanyIdentificationMatch = true
  customReturnCodes : o.customReturnCodes = true → o'.customReturnCodes = true
  unequalServiceClassCode : o.unequalServiceClassCode = true → o'.unequalServiceClassCode = true
  allowUnorderedBatchNumbers : o.allowUnorderedBatchNumbers = true → o'.allowUnorderedBatchNumbers = true
  allowInvalidCheckDigit : o.allowInvalidCheckDigit = true → o'.allowInvalidCheckDigit = true
  unequalAddendaCounts : o.unequalAddendaCounts = true → o'.unequalAddendaCounts = true
  allowInvalidAmounts : o.allowInvalidAmounts = true → o'.allowInvalidAmounts = true
  allowZeroEntryAmount : o.allowZeroEntryAmount = true → o'.allowZeroEntryAmount = true
  allowSpecialCharacters : o.allowSpecialCharacters = true → o'.allowSpecialCharacters = true
  requireABAOrigin : o.requireABAOrigin = o'.requireABAOrigin
  preserveSpaces : o.preserveSpaces = o'.preserveSpaces

/-- a guard `flag || check` is monotone in the flag -/
theorem or_mono {a a' c : Bool} (h : a = true → a' = true) (hc : (a || c) = true) : (a' || c) = true := by
  cases a <;> cases a' <;> cases c <;> simp_all

theorem or2_mono {a a' b b' c : Bool} (h1 : a = true → a' = true) (h2 : b = true → b' = true)
    (hc : (a || b || c) = true) : (a' || b' || c) = true := by
  cases a <;> cases a' <;> cases b <;> cases b' <;> cases c <;> simp_all

theorem entryOK_mono {o o' : Opts} (h : o.le o') (e : VEntry) (he : entryOK o e = true) : entryOK o' e = true := by
  simp only [entryOK, Bool.and_eq_true] at he ⊢
  obtain ⟨⟨⟨a, b⟩, c⟩, d⟩ := he
  exact ⟨⟨⟨a, b⟩, c⟩, or_mono h.allowInvalidCheckDigit d⟩

theorem all_mono {α} {p q : α → Bool} (l : List α) (h : ∀ a, p a = true → q a = true) (hl : l.all p = true) : l.all q = true := by
  rw [List.all_eq_true] at hl ⊢
  exact fun a ha => h a (hl a ha)

/-- **batch level**: a batch accepted under `o` is accepted under every `o' ≥ o` -/
theorem batchValidate_mono {o o' : Opts} (h : o.le o') (b : VBatch) (hb : batchValidate o b = true) :
    batchValidate o' b = true := by
  simp only [batchValidate, Bool.and_eq_true] at hb ⊢
  obtain ⟨⟨⟨⟨⟨⟨⟨⟨⟨⟨⟨⟨⟨h1, h2⟩, h3⟩, h4⟩, h5⟩, h6⟩, h7⟩, h8⟩, h9⟩, h10⟩, h11⟩, h12⟩, h13⟩, h14⟩ := hb
  exact ⟨⟨⟨⟨⟨⟨⟨⟨⟨⟨⟨⟨⟨h1, h2⟩, all_mono _ (entryOK_mono h) h3⟩, or_mono h.unequalServiceClassCode h4⟩,
    or_mono h.bypassCompanyIdentificationMatch h5⟩, h6⟩, h7⟩, or_mono h.unequalAddendaCounts h8⟩,
    or_mono h.customTraceNumbers h9⟩, h10⟩, h11⟩, h12⟩, or2_mono h.customTraceNumbers h.bypassOrigin h13⟩, h14⟩

/-- **IAT batch level** -/
theorem iatBatchValidate_mono {o o' : Opts} (h : o.le o') (b : VBatch) (hb : iatBatchValidate o b = true) :
    iatBatchValidate o' b = true := by
  simp only [iatBatchValidate, Bool.and_eq_true] at hb ⊢
  obtain ⟨⟨⟨⟨⟨⟨⟨⟨⟨⟨⟨h1, h2⟩, h3⟩, h4⟩, h6⟩, h7⟩, h8⟩, h9⟩, h10⟩, h11⟩, h12⟩, h13⟩ := hb
  exact ⟨⟨⟨⟨⟨⟨⟨⟨⟨⟨⟨h1, h2⟩, h3⟩, or_mono h.unequalServiceClassCode h4⟩, h6⟩, h7⟩, or_mono h.unequalAddendaCounts h8⟩,
    or_mono h.customTraceNumbers h9⟩, h10⟩, h11⟩, h12⟩, or2_mono h.customTraceNumbers h.bypassOrigin h13⟩

/-- **file level** -/
theorem fileValidate_mono {o o' : Opts} (h : o.le o') (f : VFile) (hf : fileValidate o f = true) :
    fileValidate o' f = true := by
  unfold fileValidate at hf ⊢
  by_cases hs : o.skipAll = true
  · simp [h.skipAll hs]
  · have hs' : o.skipAll = false := by simpa using hs
    rw [hs', Bool.false_or] at hf
    simp only [Bool.and_eq_true] at hf
    obtain ⟨⟨⟨⟨⟨⟨⟨⟨h1, h2⟩, h3⟩, h4⟩, h5⟩, h6⟩, h7⟩, h8⟩, h9⟩ := hf
    have : ((o'.allowMissingFileHeader || f.headerOK) &&
        decide (f.control.batchCount = (f.batches.length + f.iatControls.length : Nat)) &&
        f.batches.all (batchValidate o') &&
        (o'.allowMissingFileControl || f.controlOK) &&
        (o'.unequalAddendaCounts || decide (f.control.entryAddendaCount = sumBy (·.entryAddendaCount) (allControls f))) &&
        decide (f.control.totalDebit = sumBy (·.totalDebit) (allControls f)) &&
        decide (f.control.totalCredit = sumBy (·.totalCredit) (allControls f)) &&
        (o'.allowUnorderedBatchNumbers || o'.customTraceNumbers || batchNumbersAscend 0 f.batches) &&
        decide (f.control.entryHash = leastSignificantDigits (sumBy (·.entryHash) (allControls f)) 10)) = true := by
      simp only [Bool.and_eq_true]
      exact ⟨⟨⟨⟨⟨⟨⟨⟨or_mono h.allowMissingFileHeader h1, h2⟩, all_mono _ (fun b => batchValidate_mono h b) h3⟩,
        or_mono h.allowMissingFileControl h4⟩, or_mono h.unequalAddendaCounts h5⟩, h6⟩, h7⟩,
        or2_mono h.allowUnorderedBatchNumbers h.customTraceNumbers h8⟩, h9⟩
    rw [this]; simp

end Ach
