import Ach.Model.Server
/-!
# The server refines a map from ID to file

`Spec` is the abstract object: a total function `Id → Option F` and the `base.ID()` counter.  `specStep` describes
every request directly on the map (`upd` / `del` / `ins` = insert-if-absent); `abs` reads a `State` as a `Spec`.
`step_refines` / `run_refines`: the association-list repository of `Ach.Model.Server` commutes with `abs`, and every
response is the spec's (for `GET /files`: some enumeration of the map — Go iterates the map in random order).
The second half proves the per-request facts the clauses of C17 are made of.
-/
namespace Ach.Server
variable {F T : Type}

/-! ## the specification -/

abbrev Map (F : Type) := Id → Option F

def Map.upd (m : Map F) (id : Id) (f : F) : Map F := fun k => if k = id then some f else m k
def Map.del (m : Map F) (id : Id) : Map F := fun k => if k = id then none else m k
/-- insert only if the key is free -/
def Map.ins (m : Map F) (id : Id) (f : F) : Map F := if (m id).isSome then m else m.upd id f
def Map.insOpt (m : Map F) : Option (Id × F) → Map F
  | some p => m.ins p.1 p.2
  | none => m

structure Spec (F : Type) where
  m : Map F
  next : Nat

def abs (s : State F) : Spec F := ⟨find s.files, s.next⟩

/-- the server on a map.  (`list`: the body is a placeholder, see `RespOK`.) -/
def specStep (L : Lib F T) (σ : Spec F) : Req → Spec F × Resp F T
  | .create path json body opts =>
    let d := decodeCreate L σ.next path json body opts
    let dup := (σ.m d.id).isSome
    (⟨σ.m.ins d.id d.file, if d.gen then σ.next + 1 else σ.next⟩,
     ⟨if d.parseErr then .libErr else if dup then .badRequest else .ok, .idFile d.id d.file⟩)
  | .get id =>
    (σ, match σ.m id with
        | some f => ⟨.ok, .file f⟩
        | none => ⟨.notFound, .none⟩)
  | .list => (σ, ⟨.ok, .files []⟩)
  | .delete id => (⟨σ.m.del id, σ.next⟩, ⟨.ok, .none⟩)
  | .contents id crlf =>
    match σ.m id with
    | none => (σ, ⟨.error, .none⟩)
    | some f =>
      (⟨σ.m.upd id (L.create f).1, σ.next⟩,
       if (L.create f).2.isSome then ⟨.libErr, .none⟩ else
       match L.writeText (L.create f).1 crlf with
       | .ok t => ⟨.ok, .text t⟩
       | .error _ => ⟨.libErr, .none⟩)
  | .validate id opts =>
    (σ, match σ.m id with
        | none => ⟨.badRequest, .none⟩
        | some f => ⟨if (L.validate f opts).isSome then .badRequest else .ok, .none⟩)
  | .build id =>
    match σ.m id with
    | none => (σ, ⟨.error, .none⟩)
    | some f => (⟨σ.m.upd id (L.create f).1, σ.next⟩, ⟨if (L.create f).2.isSome then .libErr else .ok, .file (L.create f).1⟩)
  | .flatten id =>
    match σ.m id with
    | none => (σ, ⟨.notFound, .none⟩)
    | some f =>
      if (L.create f).2.isSome then (⟨σ.m.upd id (L.create f).1, σ.next⟩, ⟨.libErr, .none⟩) else
      match (L.flatten (L.create f).1).2 with
      | .error _ => (⟨σ.m.upd id (L.flatten (L.create f).1).1, σ.next⟩, ⟨.libErr, .none⟩)
      | .ok g =>
        (⟨(σ.m.upd id (L.flatten (L.create f).1).1).ins (L.freshId σ.next) (L.setId g (L.freshId σ.next)), σ.next + 1⟩,
         ⟨.ok, .idFile (L.freshId σ.next) (L.setId g (L.freshId σ.next))⟩)
  | .segment id =>
    match σ.m id with
    | none => (σ, ⟨.notFound, .none⟩)
    | some f =>
      match (svcSegment L f).2 with
      | none => (⟨σ.m.upd id (svcSegment L f).1, σ.next⟩, ⟨.libErr, .none⟩)
      | some cd =>
        (⟨((σ.m.upd id (svcSegment L f).1).insOpt (segParts L σ.next cd).1).insOpt (segParts L σ.next cd).2, σ.next + 2⟩,
         ⟨.ok, .seg (segParts L σ.next cd).1 (segParts L σ.next cd).2⟩)
  | .segmentBody json body opts =>
    match decodeSegment L json body opts with
    | none => (σ, ⟨.libErr, .none⟩)
    | some f =>
      match (svcSegment L (withOpts L f opts)).2 with
      | none => (σ, ⟨.libErr, .none⟩)
      | some cd =>
        (⟨(σ.m.insOpt (segParts L σ.next cd).1).insOpt (segParts L σ.next cd).2, σ.next + 2⟩,
         ⟨.ok, .seg (segParts L σ.next cd).1 (segParts L σ.next cd).2⟩)
  | .addBatch id b =>
    let sb := stampBatch L σ.next b
    match σ.m id with
    | none => (⟨σ.m, sb.2.2⟩, ⟨.notFound, .none⟩)
    | some f =>
      if hasBatch L f sb.2.1 then (⟨σ.m, sb.2.2⟩, ⟨.badRequest, .none⟩)
      else (⟨σ.m.upd id (L.addBatch f sb.1), sb.2.2⟩, ⟨.ok, .id sb.2.1⟩)
  | .getBatch id bid =>
    (σ, match σ.m id with
        | none => ⟨.notFound, .none⟩
        | some f =>
          match (L.batches f).find? (isBatch L bid) with
          | some b => ⟨.ok, .batch b⟩
          | none => ⟨.notFound, .none⟩)
  | .batches id => (σ, ⟨.ok, .batches ((σ.m id).map L.batches)⟩)
  | .delBatch id bid =>
    match σ.m id with
    | none => (σ, ⟨.error, .none⟩)
    | some f =>
      match lastIdx (isBatch L bid) (L.batches f) with
      | some i => (⟨σ.m.upd id (L.dropBatch f i), σ.next⟩, ⟨.ok, .none⟩)
      | none => (σ, ⟨.notFound, .none⟩)

def specRun (L : Lib F T) (σ : Spec F) (reqs : List Req) : Spec F := reqs.foldl (fun σ r => (specStep L σ r).1) σ

/-- `fs` lists the map: every key once, exactly the bound pairs -/
def Enumerates (fs : Files F) (m : Map F) : Prop :=
  (fs.map (·.1)).Nodup ∧ ∀ k f, (k, f) ∈ fs ↔ m k = some f

/-- the response the spec allows for request `r` in state `σ` -/
def RespOK (L : Lib F T) (σ : Spec F) (r : Req) (out : Resp F T) : Prop :=
  match r with
  | .list => out.status = .ok ∧ ∃ fs, Enumerates fs σ.m ∧ out.body = .files (fs.map (·.2))
  | _ => out = (specStep L σ r).2

def RespsOK (L : Lib F T) : Spec F → List Req → List (Resp F T) → Prop
  | _, [], [] => True
  | σ, r :: rs, o :: os => RespOK L σ r o ∧ RespsOK L (specStep L σ r).1 rs os
  | _, _, _ => False

/-! ## the repository is a map -/

theorem find_store_isNone (fs : Files F) (id : Id) (f : F) : (store fs id f).isNone = (find fs id).isSome := by
  unfold store; cases find fs id <;> rfl

theorem find_keep (fs : Files F) (id : Id) (f : F) : find (keep fs id f) = Map.ins (find fs) id f := by
  unfold keep store Map.ins
  cases h : find fs id with
  | some g => simp
  | none =>
    funext k
    simp [find, Map.upd, eq_comm]

theorem find_store_getD (fs : Files F) (id : Id) (f : F) :
    find ((store fs id f).getD fs) = Map.ins (find fs) id f := find_keep fs id f

theorem find_erase_eq (fs : Files F) (id k : Id) :
    find (erase fs id) k = if k = id then none else find fs k := by
  induction fs with
  | nil => simp [erase, find]
  | cons p fs ih =>
    obtain ⟨a, x⟩ := p
    unfold erase at ih ⊢
    by_cases ha : a = id <;> by_cases hk : k = id <;> by_cases hak : a = k <;>
      simp_all [find] <;> omega

theorem find_erase (fs : Files F) (id : Id) : find (erase fs id) = Map.del (find fs) id := by
  funext k; rw [find_erase_eq]; rfl

theorem find_put_eq (fs : Files F) (id : Id) (f : F) (k : Id) :
    find (put fs id f) k = if k = id then (find fs id).map (fun _ => f) else find fs k := by
  induction fs with
  | nil => simp [put, find]
  | cons p fs ih =>
    obtain ⟨a, x⟩ := p
    unfold put at ih ⊢
    by_cases ha : a = id <;> by_cases hk : k = id <;> by_cases hak : a = k <;>
      simp_all [find] <;> omega

theorem find_put (fs : Files F) (id : Id) (f g : F) (h : find fs id = some g) :
    find (put fs id f) = Map.upd (find fs) id f := by
  funext k
  rw [find_put_eq, h]
  simp [Map.upd]

theorem find_keepOpt (fs : Files F) (o : Option (Id × F)) : find (keepOpt fs o) = Map.insOpt (find fs) o := by
  cases o <;> simp [keepOpt, Map.insOpt, find_keep]

/-! ## one step -/

theorem Map.upd_def (m : Map F) (id : Id) (f : F) : m.upd id f = fun k => if k = id then some f else m k := rfl

theorem find_put' (fs : Files F) (id : Id) (f : F) :
    find (put fs id f) = fun k => if k = id then (find fs id).map (fun _ => f) else find fs k :=
  funext (find_put_eq fs id f)

/-- case analysis on the one lookup a handler makes, then on every remaining `if` / `match` of both sides -/
local macro "by_lookup " t:term : tactic =>
  `(tactic| (cases hlook : $t <;> simp only [] <;> (repeat' split) <;>
      simp_all [find_put', Map.upd_def, find_keep, storeSegments, find_keepOpt]))

theorem step_refines_state (L : Lib F T) (s : State F) (r : Req) :
    abs (step L s r).1 = (specStep L (abs s) r).1 := by
  cases r with
  | create path json body opts => simp [step, createFile, specStep, abs, find_store_getD]; rfl
  | list => rfl
  | delete id => simp [step, deleteFile, specStep, abs, find_erase]
  | batches id => rfl
  | get id => simp only [step, getFile, specStep, abs]; by_lookup find s.files id
  | validate id o => simp only [step, validateFile, specStep, abs]; by_lookup find s.files id
  | contents id c => simp only [step, getFileContents, specStep, abs]; by_lookup find s.files id
  | build id => simp only [step, buildFile, specStep, abs]; by_lookup find s.files id
  | flatten id => simp only [step, flattenBatches, specStep, abs]; by_lookup find s.files id
  | segment id => simp only [step, segmentFileID, specStep, abs]; by_lookup find s.files id
  | segmentBody j b o => simp only [step, segmentFile, specStep, abs]; by_lookup decodeSegment L j b o
  | addBatch id b => simp only [step, createBatch, specStep, abs]; by_lookup find s.files id
  | getBatch id bid => simp only [step, getBatch, specStep, abs]; by_lookup find s.files id
  | delBatch id bid => simp only [step, deleteBatch, specStep, abs]; by_lookup find s.files id

theorem step_refines_resp (L : Lib F T) (s : State F) (r : Req) (hr : r ≠ .list) :
    (step L s r).2 = (specStep L (abs s) r).2 := by
  cases r with
  | create path json body opts => simp [step, createFile, specStep, abs, find_store_isNone]; rfl
  | list => exact absurd rfl hr
  | delete id => rfl
  | batches id => rfl
  | get id => simp only [step, getFile, specStep, abs]; by_lookup find s.files id
  | validate id o => simp only [step, validateFile, specStep, abs]; by_lookup find s.files id
  | contents id c => simp only [step, getFileContents, specStep, abs]; by_lookup find s.files id
  | build id => simp only [step, buildFile, specStep, abs]; by_lookup find s.files id
  | flatten id => simp only [step, flattenBatches, specStep, abs]; by_lookup find s.files id
  | segment id => simp only [step, segmentFileID, specStep, abs]; by_lookup find s.files id
  | segmentBody j b o => simp only [step, segmentFile, specStep, abs]; by_lookup decodeSegment L j b o
  | addBatch id b => simp only [step, createBatch, specStep, abs]; by_lookup find s.files id
  | getBatch id bid => simp only [step, getBatch, specStep, abs]; by_lookup find s.files id
  | delBatch id bid => simp only [step, deleteBatch, specStep, abs]; by_lookup find s.files id

/-! ## keys are unique (needed only for `GET /files`) -/

def keys (fs : Files F) : List Id := fs.map (·.1)

/-- the repository invariant: no key twice -/
def Inv (s : State F) : Prop := (keys s.files).Nodup

theorem find_none_iff (fs : Files F) (id : Id) : find fs id = none ↔ id ∉ keys fs := by
  induction fs with
  | nil => simp [find, keys]
  | cons p fs ih =>
    obtain ⟨a, x⟩ := p
    by_cases h : a = id
    · simp [find, keys, h]
    · have h' : ¬ id = a := fun e => h e.symm
      simpa [find, keys, h, h'] using ih

theorem keys_put (fs : Files F) (id : Id) (f : F) : keys (put fs id f) = keys fs := by
  induction fs with
  | nil => rfl
  | cons p fs ih =>
    obtain ⟨a, x⟩ := p
    unfold keys put at ih ⊢
    by_cases h : a = id <;> simp_all

theorem nodup_erase (fs : Files F) (id : Id) (h : (keys fs).Nodup) : (keys (erase fs id)).Nodup := by
  unfold keys erase
  exact List.Nodup.sublist (List.Sublist.map _ List.filter_sublist) h

theorem nodup_keep (fs : Files F) (id : Id) (f : F) (h : (keys fs).Nodup) : (keys (keep fs id f)).Nodup := by
  unfold keep store
  cases hf : find fs id with
  | some g => simpa using h
  | none =>
    have := (find_none_iff fs id).mp hf
    simp only [Option.getD_some, keys, List.map_cons, List.nodup_cons]
    exact ⟨this, h⟩

theorem nodup_keepOpt (fs : Files F) (o : Option (Id × F)) (h : (keys fs).Nodup) : (keys (keepOpt fs o)).Nodup := by
  cases o with
  | none => exact h
  | some p => exact nodup_keep fs p.1 p.2 h

theorem inv_step (L : Lib F T) (s : State F) (r : Req) (h : Inv s) : Inv (step L s r).1 := by
  unfold Inv at *
  cases r with
  | create path json body opts => exact nodup_keep _ _ _ h
  | list => exact h
  | delete id => exact nodup_erase _ _ h
  | batches id => exact h
  | get id => simp only [step, getFile]; split <;> exact h
  | validate id o => simp only [step, validateFile]; split <;> exact h
  | contents id c => simp only [step, getFileContents]; split <;> simp_all [keys_put]
  | build id => simp only [step, buildFile]; split <;> simp_all [keys_put]
  | flatten id =>
    simp only [step, flattenBatches]
    repeat' split
    all_goals first
      | exact h
      | (simp only [keys_put]; exact h)
      | (apply nodup_keep; simp only [keys_put]; exact h)
  | segment id =>
    simp only [step, segmentFileID, storeSegments]
    repeat' split
    all_goals first
      | exact h
      | (simp only [keys_put]; exact h)
      | (apply nodup_keepOpt; apply nodup_keepOpt; simp only [keys_put]; exact h)
  | segmentBody j b o =>
    simp only [step, segmentFile, storeSegments]
    repeat' split
    all_goals first
      | exact h
      | (apply nodup_keepOpt; apply nodup_keepOpt; exact h)
  | addBatch id b => simp only [step, createBatch]; repeat' split
                     all_goals first
                       | exact h
                       | (simp only [keys_put]; exact h)
  | getBatch id bid => simp only [step, getBatch]; repeat' split
                       all_goals exact h
  | delBatch id bid => simp only [step, deleteBatch]; repeat' split
                       all_goals first
                         | exact h
                         | (simp only [keys_put]; exact h)

theorem enumerates_of_nodup (fs : Files F) (h : (keys fs).Nodup) : Enumerates fs (find fs) := by
  refine ⟨h, ?_⟩
  induction fs with
  | nil => simp [find]
  | cons p fs ih =>
    obtain ⟨a, x⟩ := p
    simp only [keys, List.map_cons, List.nodup_cons] at h
    intro k f
    by_cases hk : a = k
    · subst hk
      have hn : find fs a = none := (find_none_iff fs a).mpr h.1
      have : (a, f) ∉ fs := fun hm => h.1 (List.mem_map.mpr ⟨(a, f), hm, rfl⟩)
      simp [find, this, eq_comm]
    · have hk' : ¬ k = a := fun e => hk e.symm
      have := ih h.2 k f
      simpa [find, hk, hk'] using this

theorem step_respOK (L : Lib F T) (s : State F) (r : Req) (h : Inv s) : RespOK L (abs s) r (step L s r).2 := by
  by_cases hr : r = .list
  · subst hr
    exact ⟨rfl, s.files, enumerates_of_nodup _ h, rfl⟩
  · have := step_refines_resp L s r hr
    cases r <;> first | exact absurd rfl hr | exact this

/-! ## request sequences -/

theorem run_refines (L : Lib F T) (s : State F) (h : Inv s) (reqs : List Req) :
    abs (run L s reqs).1 = specRun L (abs s) reqs ∧ RespsOK L (abs s) reqs (run L s reqs).2 ∧ Inv (run L s reqs).1 := by
  induction reqs generalizing s with
  | nil => exact ⟨rfl, trivial, h⟩
  | cons r rs ih =>
    have := ih (step L s r).1 (inv_step L s r h)
    simp only [run, specRun, List.foldl_cons, RespsOK]
    rw [← step_refines_state]
    exact ⟨this.1, ⟨step_respOK L s r h, this.2.1⟩, this.2.2⟩

theorem inv_init : Inv (init : State F) := List.nodup_nil

/-! ## what one request does to the stored files -/

/-- the key a request is *meant* to alter (the API's editing requests) -/
def Req.edits : Req → Option Id
  | .delete id | .addBatch id _ | .delBatch id _ => some id
  | _ => none

/-- the library leaves `f` as it is when the server runs `Create` / `FlattenBatches` / `SegmentFile` on it -/
def Stable (L : Lib F T) (f : F) : Prop := (L.create f).1 = f ∧ (L.flatten f).1 = f ∧ (L.segment f).1 = f

theorem svcSegment_stable (L : Lib F T) (f : F) (h : Stable L f) : (svcSegment L f).1 = f := by
  unfold svcSegment
  simp only [h.1]
  repeat' split
  all_goals first | rfl | exact h.2.2 | exact h.1

theorem ins_of_some (m : Map F) (id k : Id) (g f : F) (h : m k = some f) : (m.ins id g) k = some f := by
  unfold Map.ins Map.upd
  by_cases hk : k = id
  · subst hk; simp [h]
  · split <;> simp [hk, h]

theorem insOpt_of_some (m : Map F) (o : Option (Id × F)) (k : Id) (f : F) (h : m k = some f) : (m.insOpt o) k = some f := by
  cases o with
  | none => exact h
  | some p => exact ins_of_some m p.1 k p.2 f h

theorem ins_new (m : Map F) (id k : Id) (g : F) (h : m k = none) (h' : (m.ins id g) k ≠ none) : k = id := by
  unfold Map.ins Map.upd at h'
  by_cases hk : k = id
  · exact hk
  · split at h' <;> simp_all

theorem insOpt_new (m : Map F) (o : Option (Id × F)) (k : Id) (h : m k = none) (h' : (m.insOpt o) k ≠ none) :
    ∃ p, o = some p ∧ k = p.1 := by
  cases o with
  | none => exact absurd h h'
  | some p => exact ⟨p, rfl, ins_new m p.1 k p.2 h h'⟩

theorem upd_of_ne (m : Map F) (id k : Id) (g f : F) (hne : ¬ k = id) (h : m k = some f) : (m.upd id g) k = some f := by
  simp [Map.upd, hne, h]

theorem upd_new (m : Map F) (id k : Id) (g x : F) (hk : m k = none) (hid : m id = some g) : (m.upd id x) k = none := by
  have : ¬ k = id := fun e => by rw [e, hid] at hk; cases hk
  simp [Map.upd, this, hk]

/-- the new map in terms of the old one, request by request — `specStep` read through `abs` -/
theorem find_step (L : Lib F T) (s : State F) (r : Req) : find (step L s r).1.files = (specStep L (abs s) r).1.m :=
  congrArg Spec.m (step_refines_state L s r)

theorem next_step (L : Lib F T) (s : State F) (r : Req) : (step L s r).1.next = (specStep L (abs s) r).1.next :=
  congrArg Spec.next (step_refines_state L s r)

set_option hygiene false in
/-- close `(new map) k = some f` goals after all case splits; expects `hk : σ.m k = some f`, `hne : ¬ k = id` -/
local macro "keep_key" : tactic =>
  `(tactic| (simp only [specStep]; repeat' split) <;> first
      | exact hk
      | exact upd_of_ne _ _ _ _ _ hne hk
      | exact ins_of_some _ _ _ _ _ (upd_of_ne _ _ _ _ _ hne hk)
      | exact insOpt_of_some _ _ _ _ (insOpt_of_some _ _ _ _ (upd_of_ne _ _ _ _ _ hne hk)))

/-- **key isolation** on the map: a binding changes only through a request that names its key in `writes` -/
theorem spec_isolation (L : Lib F T) (σ : Spec F) (r : Req) (k : Id) (f : F)
    (hk : σ.m k = some f) (hw : r.writes ≠ some k) : (specStep L σ r).1.m k = some f := by
  cases r with
  | create path json body opts => exact ins_of_some _ _ _ _ _ hk
  | list => exact hk
  | batches id => exact hk
  | get id => exact hk
  | validate id o => exact hk
  | getBatch id bid => exact hk
  | delete id =>
    have : ¬ k = id := fun e => hw (by rw [e]; rfl)
    simp [specStep, Map.del, this, hk]
  | segmentBody j b o =>
    simp only [specStep]
    repeat' split
    all_goals first | exact hk | exact insOpt_of_some _ _ _ _ (insOpt_of_some _ _ _ _ hk)
  | contents id c => have hne : ¬ k = id := fun e => hw (by rw [e]; rfl); keep_key
  | build id => have hne : ¬ k = id := fun e => hw (by rw [e]; rfl); keep_key
  | flatten id => have hne : ¬ k = id := fun e => hw (by rw [e]; rfl); keep_key
  | segment id => have hne : ¬ k = id := fun e => hw (by rw [e]; rfl); keep_key
  | addBatch id b => have hne : ¬ k = id := fun e => hw (by rw [e]; rfl); keep_key
  | delBatch id bid => have hne : ¬ k = id := fun e => hw (by rw [e]; rfl); keep_key

/-- a file on which the library's in-place calls are the identity survives every request except the API's own edits
of its key (`DELETE`, add / delete batch) -/
theorem spec_stable (L : Lib F T) (σ : Spec F) (r : Req) (k : Id) (f : F)
    (hk : σ.m k = some f) (hs : Stable L f) (he : r.edits ≠ some k) : (specStep L σ r).1.m k = some f := by
  by_cases hw : r.writes = some k
  · cases r with
    | contents id c =>
      cases (Option.some.inj hw : id = k)
      simp [specStep, hk, Map.upd, hs.1]
    | build id =>
      cases (Option.some.inj hw : id = k)
      simp [specStep, hk, Map.upd, hs.1]
    | flatten id =>
      cases (Option.some.inj hw : id = k)
      simp only [specStep, hk, hs.1, hs.2.1]
      repeat' split
      all_goals first
        | exact ins_of_some _ _ _ _ _ (by simp [Map.upd])
        | simp [Map.upd]
    | segment id =>
      cases (Option.some.inj hw : id = k)
      simp only [specStep, hk, svcSegment_stable L f hs]
      repeat' split
      all_goals first
        | exact insOpt_of_some _ _ _ _ (insOpt_of_some _ _ _ _ (by simp [Map.upd]))
        | simp [Map.upd]
    | delete id => exact absurd hw he
    | addBatch id b => exact absurd hw he
    | delBatch id bid => exact absurd hw he
    | _ => cases hw
  · exact spec_isolation L σ r k f hk hw

theorem insOpt2_new (m : Map F) (a b : Option (Id × F)) (k : Id) (hk : m k = none)
    (h' : ((m.insOpt a).insOpt b) k ≠ none) : (∃ p, a = some p ∧ k = p.1) ∨ (∃ p, b = some p ∧ k = p.1) := by
  by_cases h1 : (m.insOpt a) k = none
  · exact .inr (insOpt_new _ b k h1 h')
  · exact .inl (insOpt_new m a k hk h1)

theorem segParts_new (L : Lib F T) (m : Map F) (n : Nat) (cd : Option F × Option F) (k : Id) (hk : m k = none)
    (h' : ((m.insOpt (segParts L n cd).1).insOpt (segParts L n cd).2) k ≠ none) :
    k = L.freshId n ∨ k = L.freshId (n + 1) := by
  rcases insOpt2_new m _ _ k hk h' with ⟨p, hp, rfl⟩ | ⟨p, hp, rfl⟩
  · left
    simp only [segParts, Option.map_eq_some_iff] at hp
    obtain ⟨g, _, rfl⟩ := hp; rfl
  · right
    simp only [segParts, Option.map_eq_some_iff] at hp
    obtain ⟨g, _, rfl⟩ := hp; rfl

/-- keys appear only by `create` (under the ID it answers) or as one of the two IDs a request may draw -/
theorem spec_new_key (L : Lib F T) (σ : Spec F) (r : Req) (k : Id)
    (hk : σ.m k = none) (h' : (specStep L σ r).1.m k ≠ none) :
    (∃ p j b o, r = .create p j b o ∧ k = (decodeCreate L σ.next p j b o).id) ∨
    k = L.freshId σ.next ∨ k = L.freshId (σ.next + 1) := by
  cases r with
  | create path json body opts => exact .inl ⟨path, json, body, opts, rfl, ins_new _ _ _ _ hk h'⟩
  | list => exact absurd hk h'
  | batches id => exact absurd hk h'
  | get id => exact absurd hk h'
  | validate id o => exact absurd hk h'
  | getBatch id bid => exact absurd hk h'
  | delete id => simp [specStep, Map.del, hk] at h'
  | segmentBody j b o =>
    simp only [specStep] at h'
    repeat' split at h'
    all_goals first
      | exact absurd hk h'
      | exact .inr (segParts_new L _ _ _ k hk h')
  | _ =>
    simp only [specStep] at h'
    repeat' split at h'
    all_goals first
      | exact absurd hk h'
      | exact absurd (upd_new _ _ k _ _ hk ‹_›) h'
      | exact .inr (.inl (ins_new _ _ k _ (upd_new _ _ k _ _ hk ‹_›) h'))
      | exact .inr (segParts_new L _ _ _ k (upd_new _ _ k _ _ hk ‹_›) h')

/-! ## the same facts on the model -/

theorem step_isolation (L : Lib F T) (s : State F) (r : Req) (k : Id) (f : F)
    (hk : find s.files k = some f) (hw : r.writes ≠ some k) : find (step L s r).1.files k = some f := by
  rw [find_step]; exact spec_isolation L (abs s) r k f hk hw

theorem step_stable (L : Lib F T) (s : State F) (r : Req) (k : Id) (f : F)
    (hk : find s.files k = some f) (hs : Stable L f) (he : r.edits ≠ some k) :
    find (step L s r).1.files k = some f := by
  rw [find_step]; exact spec_stable L (abs s) r k f hk hs he

theorem step_new_key (L : Lib F T) (s : State F) (r : Req) (k : Id)
    (hk : find s.files k = none) (h' : find (step L s r).1.files k ≠ none) :
    (∃ p j b o, r = .create p j b o ∧ k = (decodeCreate L s.next p j b o).id) ∨
    k = L.freshId s.next ∨ k = L.freshId (s.next + 1) := by
  rw [find_step] at h'; exact spec_new_key L (abs s) r k hk h'

theorem run_isolation (L : Lib F T) (s : State F) (reqs : List Req) (k : Id) (f : F)
    (hk : find s.files k = some f) (hw : ∀ r ∈ reqs, r.writes ≠ some k) :
    find (run L s reqs).1.files k = some f := by
  induction reqs generalizing s with
  | nil => exact hk
  | cons r rs ih =>
    exact ih (step L s r).1 (step_isolation L s r k f hk (hw r (List.mem_cons_self ..)))
      (fun r' hr' => hw r' (List.mem_cons_of_mem _ hr'))

theorem run_stable (L : Lib F T) (s : State F) (reqs : List Req) (k : Id) (f : F)
    (hk : find s.files k = some f) (hs : Stable L f) (he : ∀ r ∈ reqs, r.edits ≠ some k) :
    find (run L s reqs).1.files k = some f := by
  induction reqs generalizing s with
  | nil => exact hk
  | cons r rs ih =>
    exact ih (step L s r).1 (step_stable L s r k f hk hs (he r (List.mem_cons_self ..)))
      (fun r' hr' => he r' (List.mem_cons_of_mem _ hr'))

/-- everything `POST /files/{fileID}` does -/
theorem create_effect (L : Lib F T) (s : State F) (path : Option Id) (json : Bool) (body : Tok) (opts : Opts) :
    (step L s (.create path json body opts)).2.body =
      .idFile (decodeCreate L s.next path json body opts).id (decodeCreate L s.next path json body opts).file ∧
    find (step L s (.create path json body opts)).1.files =
      Map.ins (find s.files) (decodeCreate L s.next path json body opts).id
        (decodeCreate L s.next path json body opts).file ∧
    (step L s (.create path json body opts)).2.status =
      (if (decodeCreate L s.next path json body opts).parseErr then .libErr
       else if (find s.files (decodeCreate L s.next path json body opts).id).isSome then .badRequest else .ok) := by
  simp [step, createFile, find_store_getD, find_store_isNone]

theorem create_dup_files (L : Lib F T) (s : State F) (path : Option Id) (json : Bool) (body : Tok) (opts : Opts) (g : F)
    (h : find s.files (decodeCreate L s.next path json body opts).id = some g) :
    (step L s (.create path json body opts)).1.files = s.files := by
  simp [step, createFile, store, h]

theorem status_never_created_conflict (L : Lib F T) (s : State F) (r : Req) :
    (step L s r).2.status ≠ .created ∧ (step L s r).2.status ≠ .conflict := by
  cases r <;>
    simp only [step, createFile, getFile, getFiles, deleteFile, getFileContents, validateFile, buildFile,
      flattenBatches, segmentFileID, segmentFile, storeSegments, createBatch, getBatch, getBatches, deleteBatch] <;>
    (repeat' split) <;> simp

end Ach.Server
