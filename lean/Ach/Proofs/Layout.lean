import Ach.Model.Layout
import Ach.Proofs.Num
/-!
# Generic record round trip

For *any* layout (in particular any list `compile` returns):

* `renderRec_length` : if every field renders to its declared width, the record is `L.width` columns;
* `parseRec_renderRec` : if moreover every field value is recovered by its parser, parsing the rendering
  returns the values (`RecOK`);
* `renderRec_fix` : under the weaker per-field condition "re-rendering the re-parsed field gives the same
  text" the record text is a fixed point of render ∘ parse.

The per-field sufficient conditions (what "within its NACHA width" means for each converter pair) follow.
-/
set_option linter.unusedSimpArgs false
namespace Ach

/-- strong: the field renders to its width and its value is recovered -/
def FieldOK (ps : Bool) (f : FieldSpec) (v : Val) : Prop :=
  (renderField f v).length = f.w ∧ parseField ps f (renderField f v) = v

/-- weak: the field renders to its width and re-rendering the parsed text reproduces it -/
def FieldFix (ps : Bool) (f : FieldSpec) (v : Val) : Prop :=
  (renderField f v).length = f.w ∧ renderField f (parseField ps f (renderField f v)) = renderField f v

theorem FieldOK.fix {ps f v} (h : FieldOK ps f v) : FieldFix ps f v := ⟨h.1, by rw [h.2]⟩

def RecAll (P : FieldSpec → Val → Prop) : Layout → List Val → Prop
  | [], [] => True
  | f :: L, v :: vs => P f v ∧ RecAll P L vs
  | _, _ => False

abbrev RecOK (ps : Bool) := RecAll (FieldOK ps)
abbrev RecFix (ps : Bool) := RecAll (FieldFix ps)

theorem RecAll.mono {P Q : FieldSpec → Val → Prop} (h : ∀ f v, P f v → Q f v) :
    ∀ {L vs}, RecAll P L vs → RecAll Q L vs
  | [], [], _ => trivial
  | _ :: _, _ :: _, ⟨a, b⟩ => ⟨h _ _ a, RecAll.mono h b⟩
  | [], _ :: _, hf => hf.elim
  | _ :: _, [], hf => hf.elim

theorem renderRec_length_of {P : FieldSpec → Val → Prop} (hP : ∀ f v, P f v → (renderField f v).length = f.w) :
    ∀ {L : Layout} {vs : List Val}, RecAll P L vs → (renderRec L vs).length = Layout.width L
  | [], [], _ => by simp [renderRec, Layout.width]
  | f :: L, v :: vs, ⟨a, b⟩ => by
    simp only [renderRec, List.length_append, Layout.width, List.map_cons, List.sum_cons]
    rw [hP f v a, renderRec_length_of hP b]; rfl
  | [], _ :: _, hf => hf.elim
  | _ :: _, [], hf => hf.elim

/-- **C02 (record level)**: a record whose fields are within their widths renders to exactly `width` columns -/
theorem renderRec_length {ps : Bool} {L : Layout} {vs : List Val} (h : RecFix ps L vs) :
    (renderRec L vs).length = Layout.width L :=
  renderRec_length_of (P := FieldFix ps) (fun _ _ h => h.1) h

/-- **C01 (record level)**: parsing what was rendered returns every field value -/
theorem parseRec_renderRec {ps : Bool} : ∀ {L : Layout} {vs : List Val}, RecOK ps L vs →
    parseRec ps L (renderRec L vs) = vs
  | [], [], _ => by simp [parseRec]
  | f :: L, v :: vs, ⟨a, b⟩ => by
    simp only [renderRec, parseRec]
    have hlen := a.1
    have h1 : (renderField f v ++ renderRec L vs).take f.w = renderField f v := by
      rw [List.take_append_of_le_length (by omega), List.take_of_length_le (by omega)]
    have h2 : (renderField f v ++ renderRec L vs).drop f.w = renderRec L vs := by
      rw [List.drop_append_of_le_length (by omega), List.drop_of_length_le (by omega)]; simp
    rw [h1, h2, a.2, parseRec_renderRec b]
  | [], _ :: _, hf => hf.elim
  | _ :: _, [], hf => hf.elim

/-- **C01 fixed point (record level)**: write ∘ read ∘ write = write on the record text -/
theorem renderRec_fix {ps : Bool} : ∀ {L : Layout} {vs : List Val}, RecFix ps L vs →
    renderRec L (parseRec ps L (renderRec L vs)) = renderRec L vs
  | [], [], _ => by simp [parseRec, renderRec]
  | f :: L, v :: vs, ⟨a, b⟩ => by
    simp only [renderRec, parseRec]
    have hlen := a.1
    have h1 : (renderField f v ++ renderRec L vs).take f.w = renderField f v := by
      rw [List.take_append_of_le_length (by omega), List.take_of_length_le (by omega)]
    have h2 : (renderField f v ++ renderRec L vs).drop f.w = renderRec L vs := by
      rw [List.drop_append_of_le_length (by omega), List.drop_of_length_le (by omega)]; simp
    rw [h1, h2, a.2, renderRec_fix b]
  | [], _ :: _, hf => hf.elim
  | _ :: _, [], hf => hf.elim

/-! ## what the Reader produces is render-stable

`parseRec` of any line of the right width gives values that satisfy `FieldFix`,
provided every field's converter pair is *stable* (`StableSpec`). -/

/-- the converter pair of `f` reproduces its text for every possible column content -/
def StableSpec (ps : Bool) (f : FieldSpec) : Prop :=
  ∀ cols : Str, cols.length = f.w → FieldFix ps f (parseField ps f cols)

theorem parseRec_recFix {ps : Bool} : ∀ (L : Layout), (∀ f ∈ L, StableSpec ps f) →
    ∀ line : Str, line.length = Layout.width L → RecFix ps L (parseRec ps L line)
  | [], _, _, _ => trivial
  | f :: L, hs, line, hl => by
    simp only [Layout.width, List.map_cons, List.sum_cons] at hl
    refine ⟨hs f (by simp) _ (by simp; omega), ?_⟩
    exact parseRec_recFix L (fun g hg => hs g (List.mem_cons_of_mem _ hg)) _ (by simp [Layout.width]; omega)

/-- **reader fixed point (record level)**: for a layout whose fields are all stable, and any line of
the right width, write(read(line)) is a fixed point of write ∘ read -/
theorem reader_record_fixed_point {ps : Bool} (L : Layout) (hs : ∀ f ∈ L, StableSpec ps f)
    (line : Str) (hl : line.length = Layout.width L) :
    renderRec L (parseRec ps L (renderRec L (parseRec ps L line))) = renderRec L (parseRec ps L line) :=
  renderRec_fix (parseRec_recFix L hs line hl)

/-! ## per-field sufficient conditions -/

theorem fieldOK_lit_none (ps : Bool) (name : String) (s : Str) : FieldOK ps ⟨name, s.length, .lit s, .none⟩ .unit :=
  ⟨rfl, rfl⟩

theorem fieldOK_raw_raw (ps : Bool) (name : String) (w : Nat) (t : Str) (h : t.length = w) :
    FieldOK ps ⟨name, w, .raw, .raw⟩ (.s t) := ⟨h, rfl⟩

theorem fieldOK_alpha_raw (ps : Bool) (name : String) (w : Nat) (t : Str) (hw : w ≤ lineLength) (h : t.length = w) :
    FieldOK ps ⟨name, w, .alpha, .raw⟩ (.s t) := by
  simp only [FieldOK, renderField, parseField, alphaField_of_length t w hw h, h, and_self]

theorem fieldOK_str_raw (ps : Bool) (name : String) (w : Nat) (t : Str) (hw : w ≤ lineLength) (h : t.length = w) :
    FieldOK ps ⟨name, w, .str, .raw⟩ (.s t) := by
  simp only [FieldOK, renderField, parseField, stringField_of_length t w hw h, h, and_self]

theorem fieldOK_alpha_trim (ps : Bool) (name : String) (w : Nat) (t : Str) (hw : w ≤ lineLength)
    (hl : t.length ≤ w) (ht : Trimmed t) : FieldOK ps ⟨name, w, .alpha, .trim⟩ (.s t) := by
  simp only [FieldOK, renderField, parseField, alphaField_length t w hw, trimSpace_alphaField t w hw hl ht, and_self]

theorem fieldOK_alpha_trimOpts (name : String) (w : Nat) (t : Str) (hw : w ≤ lineLength)
    (hl : t.length ≤ w) (ht : Trimmed t) : FieldOK false ⟨name, w, .alpha, .trimOpts⟩ (.s t) := by
  simp only [FieldOK, renderField, parseField, parseStringFieldWithOpts, alphaField_length t w hw,
    trimSpace_alphaField t w hw hl ht, and_self, Bool.false_eq_true, if_false]

/-- with PreserveSpaces the value is the full-width column content -/
theorem fieldOK_alpha_trimOpts_preserve (name : String) (w : Nat) (t : Str) (hw : w ≤ lineLength)
    (hl : t.length = w) : FieldOK true ⟨name, w, .alpha, .trimOpts⟩ (.s t) := by
  simp only [FieldOK, renderField, parseField, parseStringFieldWithOpts, alphaField_of_length t w hw hl, hl, if_true, and_self]

theorem fieldOK_num_num (ps : Bool) (name : String) (w : Nat) (k : Int) (hw1 : 1 ≤ w) (hw : w ≤ lineLength)
    (h0 : 0 ≤ k) (hfit : k < 10 ^ w) (hmax : k ≤ maxInt64) : FieldOK ps ⟨name, w, .num, .num⟩ (.n k) := by
  simp only [FieldOK, renderField, parseField, numericField_length k w hw,
    parseNumField_numericField k w hw1 hw h0 hfit hmax, and_self]

/-- an unpadded `strconv.Itoa` field (transaction code, service class, …): the value must be
non-negative and have exactly `w` decimal digits -/
theorem fieldOK_itoa_num (ps : Bool) (name : String) (w : Nat) (n : Nat)
    (hl : (natDigits n).length = w) (hmax : (n : Int) ≤ maxInt64) : FieldOK ps ⟨name, w, .itoa, .num⟩ (.n n) := by
  have hs := natDigits_spec n
  refine ⟨by simpa [renderField, itoa] using hl, ?_⟩
  simp only [renderField, parseField, itoa, parseNumField]
  rw [trimSpace_of_no_space _ hs.2.2.2, atoi_digits _ hs.2.2.1 hs.2.1 (by rw [hs.1]; exact hmax), hs.1]
  rfl

/-- a trimmed full-width string field written zero-padded and read back trimmed -/
theorem fieldOK_str_trim (ps : Bool) (name : String) (w : Nat) (t : Str) (hw : w ≤ lineLength)
    (hl : t.length = w) (ht : Trimmed t) : FieldOK ps ⟨name, w, .str, .trim⟩ (.s t) := by
  simp only [FieldOK, renderField, parseField, stringField_of_length t w hw hl, hl, true_and]
  exact congrArg Val.s ht

theorem fieldOK_raw_trim (ps : Bool) (name : String) (w : Nat) (t : Str)
    (hl : t.length = w) (ht : Trimmed t) : FieldOK ps ⟨name, w, .raw, .trim⟩ (.s t) := by
  simp only [FieldOK, renderField, parseField, hl, true_and]
  exact congrArg Val.s ht

/-! ## stability of converter pairs (what the Reader produces) -/

theorem stable_lit_none (ps : Bool) (name : String) (s : Str) : StableSpec ps ⟨name, s.length, .lit s, .none⟩ :=
  fun _ _ => ⟨rfl, rfl⟩

/-- a literal that is also read (reserved columns that `Parse` keeps): the text is reproduced although the value is not -/
theorem stable_lit_any (ps : Bool) (name : String) (s : Str) (pk : PK) : StableSpec ps ⟨name, s.length, .lit s, pk⟩ :=
  fun _ _ => ⟨rfl, rfl⟩

theorem stable_raw_raw (ps : Bool) (name : String) (w : Nat) : StableSpec ps ⟨name, w, .raw, .raw⟩ :=
  fun _ h => ⟨h, rfl⟩

theorem stable_alpha_raw (ps : Bool) (name : String) (w : Nat) (hw : w ≤ lineLength) : StableSpec ps ⟨name, w, .alpha, .raw⟩ :=
  fun cols h => (fieldOK_alpha_raw ps name w cols hw h).fix

theorem stable_str_raw (ps : Bool) (name : String) (w : Nat) (hw : w ≤ lineLength) : StableSpec ps ⟨name, w, .str, .raw⟩ :=
  fun cols h => (fieldOK_str_raw ps name w cols hw h).fix

theorem length_trimSpace_le (s : Str) : (trimSpace s).length ≤ s.length := by
  unfold trimSpace trimRight trimLeft
  have h1 := List.length_dropWhile_le' isSpace s
  have h2 := List.length_dropWhile_le' isSpace (List.dropWhile isSpace s).reverse
  simp at h2 ⊢; omega

theorem stable_alpha_trim (ps : Bool) (name : String) (w : Nat) (hw : w ≤ lineLength) : StableSpec ps ⟨name, w, .alpha, .trim⟩ :=
  fun cols h => (fieldOK_alpha_trim ps name w (trimSpace cols) hw (by have := length_trimSpace_le cols; simp at h; omega) (trimmed_trimSpace cols)).fix

theorem stable_alpha_trimOpts (ps : Bool) (name : String) (w : Nat) (hw : w ≤ lineLength) : StableSpec ps ⟨name, w, .alpha, .trimOpts⟩ := by
  intro cols h
  cases ps with
  | false =>
    have := (fieldOK_alpha_trimOpts name w (trimSpace cols) hw (by have := length_trimSpace_le cols; simp at h; omega) (trimmed_trimSpace cols)).fix
    simpa [parseField, parseStringFieldWithOpts] using this
  | true =>
    have := (fieldOK_alpha_trimOpts_preserve name w cols hw h).fix
    simpa [parseField, parseStringFieldWithOpts] using this

/-- zero padding on the left keeps a trimmed string trimmed -/
theorem trimmed_zeros_append (k : Nat) (t : Str) (ht : Trimmed t) : Trimmed (zeros k ++ t) := by
  rw [trimmed_iff_edges] at ht ⊢
  constructor
  · intro c hc
    cases k with
    | zero => exact ht.1 c (by simpa [zeros] using hc)
    | succ k =>
      simp [zeros, List.replicate_succ] at hc
      subst hc; decide
  · intro c hc
    cases t with
    | nil =>
      simp only [List.append_nil] at hc
      have : c ∈ zeros k := List.mem_of_getLast? hc
      exact zeros_no_space k c this
    | cons a t' =>
      rw [List.getLast?_append] at hc
      cases hl : (a :: t').getLast? with
      | none => simp at hl
      | some d =>
        rw [hl] at hc
        simp at hc
        subst hc
        exact ht.2 d hl

/-- zero-padded string read back trimmed: the *text* is stable (the value gains the padding) -/
theorem stable_str_trim (ps : Bool) (name : String) (w : Nat) (hw : w ≤ lineLength) : StableSpec ps ⟨name, w, .str, .trim⟩ := by
  intro cols hcols
  simp at hcols
  have hlen : (stringField (trimSpace cols) w).length = w := stringField_length _ _ hw
  refine ⟨by simpa [renderField, parseField] using hlen, ?_⟩
  simp only [renderField, parseField]
  have htl := length_trimSpace_le cols
  have ht := trimmed_trimSpace cols
  generalize trimSpace cols = t at *
  have hx : stringField t w = zeros (w - t.length) ++ t := by
    unfold stringField
    have h1 : ¬ w > lineLength := by omega
    have h2 : ¬ t.length > w := by omega
    simp [h1, h2]
  rw [hx]
  have hxt : trimSpace (zeros (w - t.length) ++ t) = zeros (w - t.length) ++ t := trimmed_zeros_append _ t ht
  rw [hxt]
  exact stringField_of_length _ w hw (by simp [zeros]; omega)

end Ach
