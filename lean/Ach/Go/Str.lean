/-!
# Go string substrate

Go strings that are valid UTF-8 are modelled as `List Char` (Unicode scalar
values).  `len(s)` / `s[a:b]` (bytes) are modelled through `utf8Len` / the byte
view in `Ach.Go.Utf8`.  Definitions mirror the Go standard library; they are
*modelled, not verified* (trusted base), and are differentially tested against
the real functions through the `field` correspondence stream.
-/
namespace Ach

abbrev Str := List Char

/-- `unicode.IsSpace` (White_Space property as tabulated in Go's `unicode` package) -/
def isSpace (c : Char) : Bool :=
  let v := c.val.toNat
  (9 ≤ v && v ≤ 13) || v = 0x20 || v = 0x85 || v = 0xA0 || v = 0x1680 ||
  (0x2000 ≤ v && v ≤ 0x200A) || v = 0x2028 || v = 0x2029 || v = 0x202F || v = 0x205F || v = 0x3000

def trimLeft (s : Str) : Str := s.dropWhile isSpace
def trimRight (s : Str) : Str := (s.reverse.dropWhile isSpace).reverse
/-- `strings.TrimSpace` -/
def trimSpace (s : Str) : Str := trimRight (trimLeft s)

/-- `strings.TrimRight(s, " ")`: what "trailing blanks trimmed" does to a line -/
def trimRightSpaces (s : Str) : Str := (s.reverse.dropWhile (· == ' ')).reverse

def isDigit (c : Char) : Bool := '0' ≤ c && c ≤ '9'

def digitVal (c : Char) : Nat := c.toNat - '0'.toNat

def digitChar (d : Nat) : Char :=
  match d % 10 with
  | 0 => '0' | 1 => '1' | 2 => '2' | 3 => '3' | 4 => '4'
  | 5 => '5' | 6 => '6' | 7 => '7' | 8 => '8' | _ => '9'

/-- number of bytes of the UTF-8 encoding of a scalar value (`utf8.RuneLen`) -/
def runeLen (c : Char) : Nat :=
  let v := c.val.toNat
  if v < 0x80 then 1 else if v < 0x800 then 2 else if v < 0x10000 then 3 else 4

/-- Go `len(s)` -/
def byteLen (s : Str) : Nat := (s.map runeLen).sum

def isAscii (c : Char) : Bool := c.val.toNat < 0x80
def allAscii (s : Str) : Bool := s.all isAscii

def spaces (n : Nat) : Str := List.replicate n ' '
def zeros (n : Nat) : Str := List.replicate n '0'

/-- decimal digits of a natural number, most significant first (`strconv.Itoa` for n ≥ 0) -/
def natDigits (n : Nat) : Str :=
  if _h : n < 10 then [digitChar n] else natDigits (n / 10) ++ [digitChar (n % 10)]
termination_by n
decreasing_by omega

/-- `strconv.Itoa` / `FormatInt(n, 10)` -/
def itoa (n : Int) : Str :=
  match n with
  | .ofNat k => natDigits k
  | .negSucc k => '-' :: natDigits (k + 1)

/-- value of a string of decimal digits (no validation) -/
def digitsVal (s : Str) : Nat := s.foldl (fun acc c => acc * 10 + digitVal c) 0

def maxInt64 : Int := 9223372036854775807
def minInt64 : Int := -9223372036854775808

/-- `strconv.Atoi` on a 64-bit platform.  `none` = syntax error (Go returns 0
with an error).  A range error returns the clamped value (Go returns it
together with an error that `parseNumField` ignores). -/
def signSplit : Str → Bool × Str
  | '-' :: r => (true, r)
  | '+' :: r => (false, r)
  | r => (false, r)

def atoiCore (neg : Bool) (ds : Str) : Option Int :=
  if ds.isEmpty || !ds.all isDigit then none
  else
    let v : Int := digitsVal ds
    let v := if neg then -v else v
    some (if v > maxInt64 then maxInt64 else if v < minInt64 then minInt64 else v)

def atoi (s : Str) : Option Int := atoiCore (signSplit s).1 (signSplit s).2

end Ach
