import Ach.Go.Str
/-! UTF-8 byte view of a Go string (`[]byte(s)`, `s[i]`, `len(s)`), for the sites that index bytes. -/
namespace Ach

def encodeChar (c : Char) : List UInt8 :=
  let v := c.val.toNat
  if v < 0x80 then [UInt8.ofNat v]
  else if v < 0x800 then [UInt8.ofNat (0xC0 + v / 64), UInt8.ofNat (0x80 + v % 64)]
  else if v < 0x10000 then [UInt8.ofNat (0xE0 + v / 4096), UInt8.ofNat (0x80 + v / 64 % 64), UInt8.ofNat (0x80 + v % 64)]
  else [UInt8.ofNat (0xF0 + v / 262144), UInt8.ofNat (0x80 + v / 4096 % 64), UInt8.ofNat (0x80 + v / 64 % 64), UInt8.ofNat (0x80 + v % 64)]

def utf8 (s : Str) : List UInt8 := s.flatMap encodeChar

theorem encodeChar_length (c : Char) : (encodeChar c).length = runeLen c := by
  unfold encodeChar runeLen
  simp only
  split
  · rfl
  · split
    · rfl
    · split <;> rfl

theorem encodeChar_ne_nil (c : Char) : 1 ≤ (encodeChar c).length := by
  rw [encodeChar_length]; unfold runeLen; simp only; split <;> (try split) <;> (try split) <;> omega

/-- the rune count never exceeds the byte length -/
theorem length_le_utf8_length (s : Str) : s.length ≤ (utf8 s).length := by
  induction s with
  | nil => simp [utf8]
  | cons c s ih =>
    have := encodeChar_ne_nil c
    simp only [utf8, List.flatMap_cons, List.length_append, List.length_cons] at *
    omega

end Ach
