/-!
# Fact schemas

Plain data types for the tables that `/verif/gofacts` re-extracts from /repo's
Go source on every check (`Ach/Generated/*.lean`).  Nothing here is proved;
the obligations over the generated values live in `Ach/Props/*`.
-/
namespace Ach.Gen

/-- one `case` clause of a Go `switch` (or one `if x == a || x == b` chain) -/
structure Clause where
  ivals : List Int
  svals : List String
  effect : String
deriving Repr, DecidableEq

structure Switch where
  fn : String
  tag : String
  dflt : String
  hasDflt : Bool
  clauses : List Clause
deriving Repr, DecidableEq

/-- columns `[lo,hi)` of a record are assigned to `field` through `conv` -/
structure Span where
  field : String
  lo : Int
  hi : Int
  unit : String
  conv : String
deriving Repr, DecidableEq

structure ParseFact where
  recName : String
  idiom : String
  guard : String
  spans : List Span
  consts : List (String × String)
deriving Repr, DecidableEq

structure Seg where
  kind : String
  field : String
  width : Int
  lit : String
  hash : Nat
  cond : String
deriving Repr, DecidableEq

structure RenderFact where
  recName : String
  nilGuard : Bool
  segs : List Seg
deriving Repr, DecidableEq

structure FuncFact where
  fn : String
  hash : Nat
  calls : List (String × String)
deriving Repr, DecidableEq

structure OptRef where
  fn : String
  flag : String
  negated : Bool
  effect : String
  cond : String
deriving Repr, DecidableEq

structure SchemaField where
  go : String
  json : String
  omitempty : Bool
  exported : Bool
  typ : String
deriving Repr, DecidableEq

structure Schema where
  name : String
  custom : Bool
  fields : List SchemaField
deriving Repr, DecidableEq

structure LockFact where
  method : String
  lock : String
  deferUnlock : String
  touchesShared : Bool
  writesShared : Bool
  accessBeforeLock : Bool
  hash : Nat
deriving Repr, DecidableEq

structure SendFact where
  fn : String
  ch : String
  inSelect : Bool
  selectsDone : Bool
deriving Repr, DecidableEq

structure MaskCall where
  fn : String
  target : String
  mask : String
  arg : String
  guard : String
deriving Repr, DecidableEq

structure PoolUse where
  fn : String
  gets : Nat
  deferSaves : Nat
  escapes : Nat
deriving Repr, DecidableEq

structure IOFact where
  fn : String
  present : Bool
  droppedErrors : List String
  lastReturn : String
  checksScannerErr : Bool
  hash : Nat
deriving Repr, DecidableEq

end Ach.Gen
