import Ach.Go.Str
/-! Hex transport for the line protocol (driver glue; not part of the model). -/
namespace Ach.Driver

def hexDigit (n : Nat) : Char :=
  if n < 10 then Char.ofNat (48 + n) else Char.ofNat (87 + n)

def hexVal (c : Char) : Option Nat :=
  if '0' ≤ c && c ≤ '9' then some (c.toNat - 48)
  else if 'a' ≤ c && c ≤ 'f' then some (c.toNat - 87)
  else if 'A' ≤ c && c ≤ 'F' then some (c.toNat - 55)
  else none

def bytesToHex (b : ByteArray) : String :=
  if b.size = 0 then "-" else
  String.ofList (b.toList.foldr (fun x acc => hexDigit (x.toNat / 16) :: hexDigit (x.toNat % 16) :: acc) [])

def hexToBytes (s : String) : Option ByteArray :=
  if s = "-" then some ByteArray.empty else
  let rec go (cs : List Char) (acc : ByteArray) : Option ByteArray :=
    match cs with
    | [] => some acc
    | a :: b :: rest =>
      match hexVal a, hexVal b with
      | some x, some y => go rest (acc.push (UInt8.ofNat (x * 16 + y)))
      | _, _ => none
    | _ => none
  go s.toList ByteArray.empty

/-- hex of the UTF-8 encoding of a model string -/
def strToHex (s : Ach.Str) : String := bytesToHex (String.ofList s).toUTF8

/-- model string from hex of valid UTF-8; `none` for invalid UTF-8 (never sent by the harness) -/
def hexToStr (h : String) : Option Ach.Str := do
  let b ← hexToBytes h
  let s ← String.fromUTF8? b
  pure s.toList

end Ach.Driver
