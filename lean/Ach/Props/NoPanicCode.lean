import Ach.Props.AcceptedTraces
import Ach.Props.AcceptedHash
import Ach.Props.CheckDigitCode
import Ach.Props.RuneClassCode
import Ach.Props.DirBridge
/-!
# The byte-slicing helpers never leave their strings (C06), on the code as translated on this run

In the GoLite embedding an index or slice outside its string, a nil dereference and a division by zero evaluate to
`Val.bad`, and `bad` is strict: a statement that meets it ends the run in `Sig.stuck`.  A theorem saying that a translated
function *returns* — for **every** argument of its domain, not only the accepted ones — is therefore a proof that none of
the panic sites the embedding models (those `index_site_census` lists for the function) is reached.

Limit of the embedding, stated in each theorem: byte slicing of non-ASCII text is outside it (`bad` although Go would
slice the bytes), so the string arguments are ASCII; non-ASCII arguments stay with the oracle.
-/
namespace Ach.Props.NoPanicCode
open Ach Ach.GoLite Ach.Gen

theorem byteLen_ascii (s : Str) (h : allAscii s = true) : byteLen s = s.length := by
  unfold byteLen
  induction s with
  | nil => rfl
  | cons a s ih =>
      have ha : isAscii a = true ∧ allAscii s = true := by
        simpa [allAscii] using h
      have h1 : runeLen a = 1 := by
        have := ha.1
        unfold isAscii at this
        unfold runeLen
        simp only [decide_eq_true_eq] at this
        have h2 : a.toNat < 128 := this
        simp [h2]
      simp only [List.map_cons, List.sum_cons, List.length_cons, h1]
      have := ih ha.2
      omega

/-- `EntryDetail.CATXAddendaRecordsField` (`r.IndividualName[:4]`): for every ASCII name of any length the function
returns a string — the slice is guarded by the rune count -/
theorem catxAddendaRecordsField_returns (c : Ctx) (name : Str) (hA : allAscii name = true)
    (hn : lookup c.fields (joinPath c.recv "IndividualName") = .str name) :
    ∃ s, (exec v_EntryDetail_CATXAddendaRecordsField c []).2 = .ret (.str s) := by
  have hrc : builtin1 c.ext "utf8.RuneCountInString" (Val.str name) = .int name.length := by simp [builtin1]
  by_cases h5 : name.length < 5
  · have h5i : (name.length : Int) < 5 := by omega
    exact ⟨name, by simp [v_EntryDetail_CATXAddendaRecordsField, seqs, exec, eval, hn, hrc, cmpVals, h5i]⟩
  · have h5i : ¬ (name.length : Int) < 5 := by omega
    have hsl : builtin3 "slice" (Val.str name) (Val.int 0) (Val.int 4) = .str (name.take 4) := by
      have h4 : (4 : Int) ≤ (name.length : Int) := by omega
      simp [builtin3, sliceAscii, hA, h4]
    have hps : builtin1 c.ext "parseStringField" (Val.str (name.take 4)) = .str (trimSpace (name.take 4)) := by simp [builtin1]
    exact ⟨trimSpace (name.take 4), by
      simp [v_EntryDetail_CATXAddendaRecordsField, seqs, exec, eval, hn, hrc, cmpVals, h5i, hsl, hps]⟩

/-- `CheckRoutingNumber` (`routingNumber[len(routingNumber)-1]`): for every ASCII argument of any length the function
returns an error value (nil or not) — the index is guarded by the nine-rune check -/
theorem checkRoutingNumber_returns (c : Ctx) (s : Str) (hA : allAscii s = true) :
    ∃ e, (exec v_CheckRoutingNumber c [("routingNumber", .str s)]).2 = .ret (.err e) := by
  have hrc : builtin1 c.ext "utf8.RuneCountInString" (Val.str s) = .int s.length := by simp [builtin1]
  have hlen : builtin1 c.ext "len" (Val.str s) = .int s.length := by simp [builtin1, byteLen_ascii s hA]
  have hcd : builtin1 c.ext "CalculateCheckDigit" (Val.str s) = .int (calculateCheckDigit s) := by simp [builtin1]
  have he1 : ∀ v, builtin1 c.ext "errors.New" v = .err (some "") := by intro v; simp [builtin1]
  have he2 : ∀ a b, builtin2 "fmt.Errorf" a b = .err (some "") := by intro a b; simp [builtin2]
  have he3 : ∀ a b d, builtin3 "fmt.Errorf" a b d = .err (some "") := by intro a b d; simp [builtin3]
  by_cases h0 : s = []
  · subst h0
    exact ⟨some "", by simp [v_CheckRoutingNumber, seqs, exec, eval, lookup, cmpVals, he1]⟩
  · by_cases h9 : s.length = 9
    · have h9i : (s.length : Int) = 9 := by omega
      have hidx : builtin2 "index" (Val.str s) (Val.int 8) = .int ((s[8]?.getD ' ').toNat) := by
        have : (8 : Int) < (s.length : Int) := by omega
        simp [builtin2, hA, this]
      by_cases heq : calculateCheckDigit s = ((s[8]?.getD ' ').toNat : Int) - 48
      · exact ⟨none, by
          simp [v_CheckRoutingNumber, seqs, exec, eval, lookup, cmpVals, arith, update, scopeExit, h0, hrc, hlen, hcd, h9i, hidx, heq]⟩
      · exact ⟨some "", by
          simp [v_CheckRoutingNumber, seqs, exec, eval, lookup, cmpVals, arith, update, scopeExit, h0, hrc, hlen, hcd, h9i, hidx, heq, he3]⟩
    · have h9i : ¬ (s.length : Int) = 9 := by omega
      exact ⟨some "", by
        simp [v_CheckRoutingNumber, seqs, exec, eval, lookup, cmpVals, scopeExit, h0, hrc, h9i, he2]⟩

open Ach.Props.AcceptedTraces in
/-- one turn of the loop of `isTraceNumberODFI` on an ASCII trace number of any length (also shorter than eight bytes):
it falls through with the loop's variables restored, or returns the field error — the `[:8]` is guarded by `len` -/
theorem odfiBody_total (c : Ctx) (b : Str) (ep : String) (t : Str) (hA : allAscii t = true)
    (ht : lookup c.fields (joinPath ep "TraceNumber") = .str t) :
    ((exec odfiBody c [("entry", .ref ep), ("bhODFI", .str b)]).2 = .next ∧
      scopeExit [("bhODFI", Val.str b)] (exec odfiBody c [("entry", .ref ep), ("bhODFI", .str b)]).1 = [("bhODFI", .str b)]) ∨
    (exec odfiBody c [("entry", .ref ep), ("bhODFI", .str b)]).2 = .ret (.err (some "ODFIIdentificationField")) := by
  have hlen : builtin1 c.ext "len" (Val.str t) = .int t.length := by simp [builtin1, byteLen_ascii t hA]
  by_cases h8 : 8 ≤ t.length
  · have h8i : (8 : Int) ≤ (t.length : Int) := by omega
    have hsl : builtin3 "slice" (Val.str t) (Val.int 0) (Val.int 8) = .str (t.take 8) := by
      simp [builtin3, sliceAscii, hA, h8i]
    by_cases hbe : b = t.take 8
    · left
      simp [odfiBody, seqs, exec, eval, lookup, ht, hlen, hsl, cmpVals, h8i, update, hbe, scopeExit]
    · right
      simp [odfiBody, seqs, exec, eval, lookup, ht, hlen, hsl, cmpVals, h8i, update, hbe, scopeExit]
  · have h8i : ¬ (8 : Int) ≤ (t.length : Int) := by omega
    by_cases hbe : b = []
    · left
      simp [odfiBody, seqs, exec, eval, lookup, ht, hlen, cmpVals, h8i, hbe, scopeExit]
    · right
      simp [odfiBody, seqs, exec, eval, lookup, ht, hlen, cmpVals, h8i, hbe, scopeExit]

open Ach.Props.AcceptedTraces in
/-- the loop, over any list of entries: it ends by falling through or by returning the field error — never stuck -/
theorem odfi_iter_total (c : Ctx) (p : String) (n : Nat) (tr : Nat → Str) (b : Str)
    (hA : ∀ i, i < n → allAscii (tr i) = true)
    (htr : ∀ i, i < n → lookup c.fields (joinPath (elemPath p i) "TraceNumber") = .str (tr i)) :
    ∀ is : List Nat, (∀ i ∈ is, i < n) →
      (iter (fun l' => exec odfiBody c l') (fun i => .ref (elemPath p i)) "entry" is [("bhODFI", .str b)]).2 = .next ∨
      (iter (fun l' => exec odfiBody c l') (fun i => .ref (elemPath p i)) "entry" is [("bhODFI", .str b)]).2 =
        .ret (.err (some "ODFIIdentificationField")) := by
  intro is
  induction is with
  | nil => intro _; left; simp [iter]
  | cons j is ih =>
      intro hlt
      have hj := hlt j (List.mem_cons_self ..)
      simp only [iter]
      rcases odfiBody_total c b (elemPath p j) (tr j) (hA j hj) (htr j hj) with ⟨hs, hsc⟩ | hs
      · rw [hs]
        simp only [hsc]
        exact ih (fun k hk => hlt k (List.mem_cons_of_mem _ hk))
      · rw [hs]
        right; rfl

open Ach.Props.AcceptedTraces in
/-- C06 — `Batch.isTraceNumberODFI` (`entry.TraceNumber[:8]`) **returns** for every batch: any number of entries, ASCII
trace numbers of any length (empty and shorter than eight included), either value of `BypassOriginValidation` -/
theorem isTraceNumberODFI_returns (c : Ctx) (hp p : String) (n : Nat) (tr : Nat → Str) (odfi : Str)
    (hH : lookup c.fields (joinPath c.recv "Header") = .ref hp)
    (ho : lookup c.fields (joinPath hp "ODFIIdentification") = .str odfi)
    (hE : lookup c.fields (joinPath c.recv "Entries") = .lst p n)
    (hA : ∀ i, i < n → allAscii (tr i) = true)
    (htr : ∀ i, i < n → lookup c.fields (joinPath (elemPath p i) "TraceNumber") = .str (tr i)) :
    ∃ e, (exec v_Batch_isTraceNumberODFI c []).2 = .ret (.err e) := by
  rw [isTraceNumberODFI_shape]
  have h8 : builtin2 "stringField" (Val.str odfi) (Val.int 8) = .str (stringField odfi 8) := by simp [builtin2]
  by_cases hflag : hasFlag c "recv" "BypassOriginValidation" = true
  · exact ⟨none, by simp [odfiProg, seqs, exec, eval, hflag]⟩
  · have hflag' : hasFlag c "recv" "BypassOriginValidation" = false := by simpa using hflag
    have hl := odfi_iter_total c p n tr (stringField odfi 8) hA htr (List.range n) (fun k hk => List.mem_range.mp hk)
    simp only [odfiProg, seqs, exec, eval, hflag', hH, ho, hE, h8, scopeExit_self]
    generalize (iter _ _ _ _ _) = r at hl ⊢
    obtain ⟨l1, s1⟩ := r
    simp only at hl
    rcases hl with hl | hl
    · subst hl; exact ⟨none, by simp⟩
    · subst hl; exact ⟨some "ODFIIdentificationField", by simp⟩

/-! ## the functions already characterised elsewhere, read as "never stuck" -/

/-- `aba8` (`rtn[0]`, `rtn[1:9]`, `rtn[:8]`): returns a string for every ASCII argument of any length -/
theorem aba8_returns (c : Ctx) (r : Str) (ha : allAscii r = true) :
    ∃ s, (exec v_aba8 c [("rtn", .str r)]).2 = .ret (.str s) :=
  ⟨_, Ach.Props.AcceptedHash.aba8_exec c r ha⟩

/-- `EntryDetail.CreditOrDebit` (`tc[1:2]`): returns a string for **every** integer transaction code -/
theorem creditOrDebit_returns (c : Ctx) (t : Int)
    (ht : lookup c.fields (joinPath c.recv "TransactionCode") = .int t) :
    ∃ s, (exec v_EntryDetail_CreditOrDebit c []).2 = .ret (.str s) :=
  ⟨_, Ach.Props.DirBridge.code_dir_is_model_dir c t ht⟩

/-- `CalculateCheckDigit` (a `range` over the string with an index per digit): returns a number for every ASCII argument of
any length -/
theorem calculateCheckDigit_returns (c : Ctx) (s : Str) (hA : allAscii s = true) :
    ∃ d, (exec v_CalculateCheckDigit c [("routingNumber", .str s)]).2 = .ret (.int d) :=
  ⟨_, Ach.Props.CheckDigitCode.calculateCheckDigit_exec c s hA⟩

/-- the two rune-class loops of the validator return an error value for every string, ASCII or not, of any length -/
theorem runeClass_returns (c : Ctx) (s : Str) :
    (∃ e, (exec v_validator_isUpperASCII c [("s", .str s)]).2 = .ret (.err e)) ∧
    (∃ e, (exec v_validator_isAlphanumeric c [("s", .str s)]).2 = .ret (.err e)) := by
  constructor
  · rw [Ach.Props.RuneClassCode.isUpperASCII_exec]
    simp only [builtin1, errIf]
    split <;> exact ⟨_, rfl⟩
  · rw [Ach.Props.RuneClassCode.isAlphanumeric_exec]
    simp only [builtin1, errIf]
    split <;> exact ⟨_, rfl⟩

/-- non-vacuity: the guards matter — on a short name the CATX accessor returns the name itself, on a short trace number
the ODFI check compares with "", and a slice without its guard is `bad` in the embedding -/
example : sliceAscii ['a', 'b'] 0 4 = .bad ∧ sliceAscii ['a', 'b', 'c', 'd', 'e'] 0 4 = .str ['a', 'b', 'c', 'd'] := by decide
example : (exec v_EntryDetail_CATXAddendaRecordsField
    { fields := [("IndividualName", .str ['a', 'b'])], recvFlags := [], paramFlags := [], ext := [] } []).2 = .ret (.str ['a', 'b']) := by
  decide +kernel

end Ach.Props.NoPanicCode
