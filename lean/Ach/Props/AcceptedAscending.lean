import Ach.Props.AcceptedTraces
/-!
# Trace numbers of an accepted batch strictly ascend (C03)

`Batch.isSequenceAscending` carries the previous trace number through its loop.  Its translation is shown to be — today —
the program `ascProg`; the loop is unrolled by induction with the carried variable as the invariant.
-/
namespace Ach.Props.AcceptedAscending
open Ach Ach.GoLite Ach.Gen

def ascBody : Prog :=
  seqs [(.ite (.not (.flag "recv" "CustomTraceNumbers"))
      (.ite (.le (.sel (.var "entry") "TraceNumber") (.var "lastSeq")) (.ret (.mkErr "TraceNumber")) .skip)
      .skip),
    (.assign "lastSeq" (.sel (.var "entry") "TraceNumber"))]

def ascProg : Prog :=
  seqs [(.block (seqs [(.sub "_t1" [] [] v_Batch_IsADV),
      (.ite (.not (.var "_t1"))
        (seqs [(.bind "lastSeq" (.str "0")), (.forEach "entry" (.fld "Entries") ascBody)])
        .skip)])),
    (.ret .nil)]

/-- the translated `Batch.isSequenceAscending` is that program -/
theorem isSequenceAscending_shape : v_Batch_isSequenceAscending = ascProg := by decide +kernel

/-- Go's string order on the trace numbers: each one greater than the one before, the first greater than "0" -/
def ascending (tr : Nat → Str) : Str → List Nat → Prop
  | _, [] => True
  | x, i :: is => strLt x (tr i) = true ∧ ascending tr (tr i) is

theorem ascBody_next (c : Ctx) (hflag : hasFlag c "recv" "CustomTraceNumbers" = false) (x : Str) (ep : String) (t : Str)
    (rest : Locals)
    (ht : lookup c.fields (joinPath ep "TraceNumber") = .str t)
    (h : (exec ascBody c (("entry", .ref ep) :: ("lastSeq", .str x) :: rest)).2 = .next ∨
         (exec ascBody c (("entry", .ref ep) :: ("lastSeq", .str x) :: rest)).2 = .cont) :
    strLt x t = true ∧
      scopeExit (("lastSeq", Val.str x) :: rest) (exec ascBody c (("entry", .ref ep) :: ("lastSeq", .str x) :: rest)).1 =
        ("lastSeq", .str t) :: rest := by
  by_cases hlt : strLt x t = true
  · simp [ascBody, seqs, exec, eval, lookup, ht, hflag, cmpVals, hlt, update, scopeExit] at h ⊢
  · simp [ascBody, seqs, exec, eval, lookup, ht, hflag, cmpVals, hlt, update, scopeExit] at h


theorem ascBody_no_brk (c : Ctx) (hflag : hasFlag c "recv" "CustomTraceNumbers" = false) (x : Str) (ep : String) (t : Str)
    (rest : Locals) (ht : lookup c.fields (joinPath ep "TraceNumber") = .str t) :
    (exec ascBody c (("entry", .ref ep) :: ("lastSeq", .str x) :: rest)).2 ≠ .brk := by
  by_cases hlt : strLt x t = true <;>
    simp [ascBody, seqs, exec, eval, lookup, ht, hflag, cmpVals, hlt, update, scopeExit]

/-- the loop: if it falls through from `lastSeq = x`, the visited trace numbers ascend from `x` -/
theorem asc_iter (c : Ctx) (hflag : hasFlag c "recv" "CustomTraceNumbers" = false) (p : String) (n : Nat) (tr : Nat → Str)
    (rest : Locals)
    (htr : ∀ i, i < n → lookup c.fields (joinPath (elemPath p i) "TraceNumber") = .str (tr i)) :
    ∀ is : List Nat, (∀ i ∈ is, i < n) → ∀ x : Str,
      (iter (fun l' => exec ascBody c l') (fun i => .ref (elemPath p i)) "entry" is (("lastSeq", .str x) :: rest)).2 = .next →
      ascending tr x is := by
  intro is
  induction is with
  | nil => intro _ _ _; trivial
  | cons j is ih =>
      intro hlt x h
      have hj := htr j (hlt j (List.mem_cons_self ..))
      simp only [iter] at h
      cases hs : (exec ascBody c (("entry", .ref (elemPath p j)) :: ("lastSeq", .str x) :: rest)).2 with
      | next =>
          obtain ⟨hpj, hsc⟩ := ascBody_next c hflag x (elemPath p j) (tr j) rest hj (Or.inl hs)
          rw [hs] at h
          simp only [hsc] at h
          exact ⟨hpj, ih (fun k hk => hlt k (List.mem_cons_of_mem _ hk)) (tr j) h⟩
      | cont =>
          obtain ⟨hpj, hsc⟩ := ascBody_next c hflag x (elemPath p j) (tr j) rest hj (Or.inr hs)
          rw [hs] at h
          simp only [hsc] at h
          exact ⟨hpj, ih (fun k hk => hlt k (List.mem_cons_of_mem _ hk)) (tr j) h⟩
      | brk => exact absurd hs (ascBody_no_brk c hflag x (elemPath p j) (tr j) rest hj)
      | ret v => rw [hs] at h; simp at h
      | stuck w => rw [hs] at h; simp at h

/-- C03 — `Batch.isSequenceAscending()` returns nil (standard batch, `CustomTraceNumbers` off) only if the trace numbers
strictly ascend in Go's string order, the first one above "0", for batches of any size -/
theorem isSequenceAscending_accepts (c : Ctx) (hp p : String) (n : Nat) (tr : Nat → Str) (sec : Str)
    (hflag : hasFlag c "recv" "CustomTraceNumbers" = false)
    (hH : lookup c.fields (joinPath c.recv "Header") = .ref hp)
    (hsec : lookup c.fields (joinPath hp "StandardEntryClassCode") = .str sec) (hnadv : sec ≠ ['A', 'D', 'V'])
    (hE : lookup c.fields (joinPath c.recv "Entries") = .lst p n)
    (htr : ∀ i, i < n → lookup c.fields (joinPath (elemPath p i) "TraceNumber") = .str (tr i))
    (h : (exec v_Batch_isSequenceAscending c []).2 = .ret (.err none)) :
    ascending tr ['0'] (List.range n) := by
  rw [isSequenceAscending_shape] at h
  have hadv : (exec v_Batch_IsADV c []).2 = .ret (.bool false) := by
    simp [v_Batch_IsADV, seqs, exec, eval, hH, hsec, cmpVals, lookup, hnadv]
  simp only [ascProg, seqs, exec, eval, hH, hE, List.map_nil, List.zip_nil_left, List.reverse_nil, hadv, subResult] at h
  have h0 : ("0" : String).toList = ['0'] := by decide
  simp [lookup, h0, scopeExit] at h
  cases hs : (iter (fun l' => exec ascBody c l') (fun i => Val.ref (elemPath p i)) "entry" (List.range n)
      [("lastSeq", Val.str ['0']), ("_t1", Val.bool false)]).2 with
  | next =>
      exact asc_iter c hflag p n tr [("_t1", .bool false)] htr (List.range n) (fun k hk => List.mem_range.mp hk) ['0'] hs
  | ret v =>
      exfalso
      have hna := iter_no_accept (fun l' => exec ascBody c l') (fun i => Val.ref (elemPath p i)) "entry"
        (fun l => rejectOnly_no_accept ascBody (by decide) c l) (List.range n)
        [("lastSeq", Val.str ['0']), ("_t1", Val.bool false)]
      rw [hs] at hna
      revert h
      generalize (iter _ _ _ _ _) = r at hs hna ⊢
      obtain ⟨l1, s1⟩ := r
      simp only at hs
      subst hs
      intro h
      simp at h
      exact hna (by rw [h])
  | brk | cont | stuck _ =>
      exfalso
      revert h
      generalize (iter _ _ _ _ _) = r at hs ⊢
      obtain ⟨l1, s1⟩ := r
      simp only at hs
      subst hs
      simp


/-- the statement of `Batch.verify` that runs `isSequenceAscending` -/
def ascBlock : Prog :=
  .ite (.not (.flag "recv" "CustomTraceNumbers")) (.check none v_Batch_isSequenceAscending) .skip

/-- today that is the fifth statement of `Batch.verify`, and the four before it can only reject -/
theorem verify_runs_ascending_check :
    (stmts v_Batch_verify).drop 4 = ascBlock :: (stmts v_Batch_verify).drop 5 ∧
    (stmts v_Batch_verify).drop 5 ≠ [] ∧
    ((stmts v_Batch_verify).take 4).all (fun q => rejectOnly q && noAssign q) = true ∧
    rejectOnly ascBlock = true := by
  decide +kernel

theorem ascBlock_passes (c : Ctx) (pre : Locals) (hflag : hasFlag c "recv" "CustomTraceNumbers" = false)
    (h : (exec ascBlock c pre).2 = .next) : (exec v_Batch_isSequenceAscending c []).2 = .ret (.err none) := by
  simp only [ascBlock, exec, eval, hflag] at h
  generalize (exec v_Batch_isSequenceAscending c []).2 = s at h ⊢
  cases s with
  | ret v =>
      cases v with
      | err t =>
          cases t with
          | none => rfl
          | some t => simp [checkResult] at h
      | _ => simp [checkResult] at h
  | _ => simp [checkResult] at h

/-- C03, trace numbers strictly ascend — for every standard (non-ADV) batch value, of any size: if `Batch.verify()`
(translated from the source on this run) returns nil and `CustomTraceNumbers` is off, each entry's trace number is greater
(Go string order) than the one before it -/
theorem accepted_batch_traces_ascend (c : Ctx) (hp p : String) (n : Nat) (tr : Nat → Str) (sec : Str)
    (hflag : hasFlag c "recv" "CustomTraceNumbers" = false)
    (hH : lookup c.fields (joinPath c.recv "Header") = .ref hp)
    (hsec : lookup c.fields (joinPath hp "StandardEntryClassCode") = .str sec) (hnadv : sec ≠ ['A', 'D', 'V'])
    (hE : lookup c.fields (joinPath c.recv "Entries") = .lst p n)
    (htr : ∀ i, i < n → lookup c.fields (joinPath (elemPath p i) "TraceNumber") = .str (tr i))
    (ha : run c v_Batch_verify = .accept) :
    ascending tr ['0'] (List.range n) := by
  have hres := Ach.Props.Validators.accept_ret c _ ha
  obtain ⟨hd, hne, hall, hro⟩ := verify_runs_ascending_check
  have hs : stmts v_Batch_verify = (stmts v_Batch_verify).take 4 ++ (stmts v_Batch_verify).drop 4 :=
    (List.take_append_drop _ _).symm
  obtain ⟨pre, hpre⟩ := accept_reaches c _ _ _ hs (by rw [hd]; simp) hall hres
  rw [hd, seqs_cons_ne _ _ hne] at hpre
  have hpass := Ach.Props.Accepted.accept_seq_left hro hpre
  exact isSequenceAscending_accepts c hp p n tr sec hflag hH hsec hnadv hE htr (ascBlock_passes c pre hflag hpass)

/-- what `ascending` says for three entries -/
example (tr : Nat → Str) (h : ascending tr ['0'] (List.range 3)) :
    strLt ['0'] (tr 0) = true ∧ strLt (tr 0) (tr 1) = true ∧ strLt (tr 1) (tr 2) = true := by
  simpa [List.range, List.range.loop, ascending] using h

end Ach.Props.AcceptedAscending
