import Ach.Props.AcceptedFileValidate
/-!
# Every batch of an accepted file passed `Batch.verify` (C03, end to end)

The loop of `File.ValidateWith` that validates each batch dispatches on the batch's dynamic type.  Its translation is
shown to be — today — the chain `if b.(type) == T { b.Validate() of T }` over the table below; every `BatchXXX.Validate`
of the table except the ADV one starts with `Batch.verify()`.  So for a file on which `File.ValidateWith` returns nil,
each batch, taken as the receiver, satisfies everything `Ach.Props.Accepted*` proves of an accepted `Batch.verify`.
-/
namespace Ach.Props.AcceptedFileBatches
open Ach Ach.GoLite Ach.Gen Ach.Props.AcceptedFile Ach.Props.AcceptedFileValidate

def chainProg : List (String × Prog) → Prog
  | [] => .effect "dispatch: unknown dynamic type"
  | (T, P) :: rest => .ite (.eq (.sel (.var "b") "$type") (.str T)) (.checkOn none (.var "b") [] [] P) (chainProg rest)

def dispatchTable : List (String × Prog) :=
  [("BatchACK", v_BatchACK_Validate), ("BatchADV", v_BatchADV_Validate), ("BatchARC", v_BatchARC_Validate),
   ("BatchATX", v_BatchATX_Validate), ("BatchBOC", v_BatchBOC_Validate), ("BatchCCD", v_BatchCCD_Validate),
   ("BatchCIE", v_BatchCIE_Validate), ("BatchCOR", v_BatchCOR_Validate), ("BatchCTX", v_BatchCTX_Validate),
   ("BatchDNE", v_BatchDNE_Validate), ("BatchENR", v_BatchENR_Validate), ("BatchMTE", v_BatchMTE_Validate),
   ("BatchPOP", v_BatchPOP_Validate), ("BatchPOS", v_BatchPOS_Validate), ("BatchPPD", v_BatchPPD_Validate),
   ("BatchRCK", v_BatchRCK_Validate), ("BatchSHR", v_BatchSHR_Validate), ("BatchTEL", v_BatchTEL_Validate),
   ("BatchTRC", v_BatchTRC_Validate), ("BatchTRX", v_BatchTRX_Validate), ("BatchWEB", v_BatchWEB_Validate),
   ("BatchXCK", v_BatchXCK_Validate)]

/-- the batch loop of the translated `File.ValidateWith` is the dispatch chain over that table; it is the second
statement of the branch for files that are not ADV files, after one statement that can only reject; and every validator
of the table but the ADV one starts with `Batch.verify()` -/
theorem batch_loop_dispatches :
    (stmts nonAdvPart).drop 1 = (.forEach "b" (.fld "Batches") (chainProg dispatchTable)) :: (stmts nonAdvPart).drop 2 ∧
    (stmts nonAdvPart).drop 2 ≠ [] ∧
    ((stmts nonAdvPart).take 1).all (fun q => rejectOnly q && quiet q) = true ∧
    rejectOnly (.forEach "b" (.fld "Batches") (chainProg dispatchTable)) = true ∧
    noAssign (chainProg dispatchTable) = true ∧
    dispatchTable.all (fun tp => tp.1 == "BatchADV" ||
      ((stmts tp.2)[0]? == some (.check none v_Batch_verify) && (stmts tp.2).length > 1)) = true := by
  decide +kernel

/-- a loop whose body restores the locals and that fell through: every iteration's body fell through -/
theorem iter_all_pass (f : Locals → Locals × Sig) (mk : Nat → Val) (v : String)
    (hf : ∀ l', passing (f l').2 → (f l').2 = .next ∧ ∃ pre, (f l').1 = pre ++ l') :
    ∀ is l, passing (iter f mk v is l).2 → ∀ i ∈ is, (f ((v, mk i) :: l)).2 = .next := by
  intro is
  induction is with
  | nil => intro l _ i hi; simp at hi
  | cons j is ih =>
      intro l h i hi
      simp only [iter] at h
      cases hs : (f ((v, mk j) :: l)).2 with
      | next =>
          obtain ⟨_, pre, hp⟩ := hf ((v, mk j) :: l) (by rw [hs]; exact Or.inl rfl)
          rw [hs] at h
          simp only [hp, scopeExit_append3] at h
          rcases List.mem_cons.mp hi with rfl | hi'
          · exact hs
          · exact ih l h i hi'
      | cont =>
          have := (hf ((v, mk j) :: l) (by rw [hs]; exact Or.inr (Or.inr rfl))).1
          rw [hs] at this
          cases this
      | brk =>
          have := (hf ((v, mk j) :: l) (by rw [hs]; exact Or.inr (Or.inl rfl))).1
          rw [hs] at this
          cases this
      | ret x => rw [hs] at h; simp [passing] at h
      | stuck w => rw [hs] at h; simp [passing] at h

/-- the dispatch chain, when it falls through on a batch of dynamic type `T`, ran the validator the table gives for `T`,
and that returned nil -/
theorem chain_pass (c : Ctx) (l : Locals) (ep T : String) (hb : lookup l "b" = .ref ep)
    (ht : lookup c.fields (joinPath ep "$type") = .str T.toList) :
    ∀ cases : List (String × Prog), (exec (chainProg cases) c l).2 = .next →
      ∃ P, (T, P) ∈ cases ∧ (exec P { c with recv := ep } []).2 = .ret (.err none) := by
  intro cases
  induction cases with
  | nil => intro h; simp [chainProg, exec] at h
  | cons tp rest ih =>
      obtain ⟨T', P'⟩ := tp
      intro h
      simp only [chainProg, exec, eval, hb, ht, cmpVals] at h
      by_cases heq : T.toList = T'.toList
      · have hT : T = T' := String.toList_injective heq
        subst hT
        simp only [heq, decide_true] at h
        refine ⟨P', List.mem_cons_self .., ?_⟩
        simp only [exec, eval, hb, List.map_nil] at h
        simp at h
        generalize (exec P' { c with recv := ep } []).2 = s at h ⊢
        cases s with
        | ret v =>
            cases v with
            | err t =>
                cases t with
                | none => rfl
                | some t => simp [checkResult] at h
            | _ => simp [checkResult] at h
        | _ => simp [checkResult] at h
      · simp only [heq, decide_false] at h
        obtain ⟨P, hm, hp⟩ := ih h
        exact ⟨P, List.mem_cons_of_mem _ hm, hp⟩


/-- C03, end to end — for every file value of standard batches (any number, any sizes) on which `File.ValidateWith(opts)`
— translated from the source on this run — returns nil without `SkipAll`: every batch whose dynamic type is one of the
21 standard batch types passed `Batch.verify()` as the receiver.  All of `accepted_batch_header_control_agree`,
`accepted_batch_traces_begin_with_odfi`, `accepted_batch_traces_ascend`, `accepted_batch_entry_hash`,
`accepted_batch_entry_count` and `accepted_batch_totals` therefore hold of every batch of an accepted file. -/
theorem accepted_file_batches_verified (c : Ctx) (bp : String) (nb : Nat)
    (hB : lookup c.fields (joinPath c.recv "Batches") = .lst bp nb)
    (hskip : hasFlag c "param" "SkipAll" = false)
    (hnadv : (exec v_File_IsADV c []).2 = .ret (.bool false))
    (ha : run c v_File_ValidateWith = .accept) :
    ∀ i, i < nb → ∀ T : String, lookup c.fields (joinPath (elemPath bp i) "$type") = .str T.toList →
      T ≠ "BatchADV" → run { c with recv := elemPath bp i } v_Batch_verify = .accept := by
  intro i hi T hT hnadvT
  obtain ⟨L, hacc⟩ := accepted_file_enters_nonadv c hskip hnadv ha
  obtain ⟨hd1, hne2, hall1, hroF, hnaC, htab⟩ := batch_loop_dispatches
  have hs1 : stmts nonAdvPart = (stmts nonAdvPart).take 1 ++ (stmts nonAdvPart).drop 1 := (List.take_append_drop _ _).symm
  obtain ⟨pre, h1⟩ := accept_reaches_q c nonAdvPart _ _ _ hs1 (by rw [hd1]; simp) hall1 hacc
  rw [hd1, seqs_cons_ne _ _ hne2] at h1
  have hloop := Ach.Props.Accepted.accept_seq_left hroF h1
  simp only [exec, eval, hB] at hloop
  have hbody := iter_all_pass (fun l' => exec (chainProg dispatchTable) c l') (fun k => .ref (elemPath bp k)) "b"
    (fun l' hp => noAssign_suffix _ hnaC c l' hp) (List.range nb) (pre ++ L) (by rw [hloop]; exact Or.inl rfl)
    i (List.mem_range.mpr hi)
  obtain ⟨P, hm, hP⟩ := chain_pass c _ (elemPath bp i) T (by simp [lookup]) hT dispatchTable hbody
  have hrow := List.all_eq_true.mp htab (T, P) hm
  simp only [Bool.or_eq_true, beq_iff_eq, Bool.and_eq_true, decide_eq_true_eq] at hrow
  rcases hrow with hadv | ⟨h0, hlen⟩
  · exact absurd hadv hnadvT
  · -- P = verify; rest
    have hst : ∃ rest, rest ≠ [] ∧ stmts P = (.check none v_Batch_verify) :: rest := by
      cases hsp : stmts P with
      | nil => rw [hsp] at hlen; simp at hlen
      | cons a rest =>
          rw [hsp] at h0 hlen
          simp at h0
          refine ⟨rest, ?_, by rw [h0]⟩
          intro hr; rw [hr] at hlen; simp at hlen
    obtain ⟨rest, hr, hst⟩ := hst
    rw [← seqs_stmts P, hst, seqs_cons_ne _ _ hr] at hP
    have hv := Ach.Props.AcceptedHash.check_passes _ [] none _ (Ach.Props.Accepted.accept_seq_left (by decide) hP)
    unfold run
    rw [hv]


/-- every `BatchXXX.Validate` of the table but the ADV one, when it returns nil, had `Batch.verify()` return nil first -/
theorem accepted_sec_validate_verified (name : String) (P : Prog) (hm : (name, P) ∈ dispatchTable) (hn : name ≠ "BatchADV")
    (c : Ctx) (ha : run c P = .accept) : run c v_Batch_verify = .accept := by
  have hres := Ach.Props.Validators.accept_ret c _ ha
  have hrow := List.all_eq_true.mp batch_loop_dispatches.2.2.2.2.2 (name, P) hm
  simp only [Bool.or_eq_true, beq_iff_eq, Bool.and_eq_true, decide_eq_true_eq] at hrow
  rcases hrow with hadv | ⟨h0, hlen⟩
  · exact absurd hadv hn
  · have hst : ∃ rest, rest ≠ [] ∧ stmts P = (.check none v_Batch_verify) :: rest := by
      cases hsp : stmts P with
      | nil => rw [hsp] at hlen; simp at hlen
      | cons a rest =>
          rw [hsp] at h0 hlen
          simp at h0
          refine ⟨rest, ?_, by rw [h0]⟩
          intro hr; rw [hr] at hlen; simp at hlen
    obtain ⟨rest, hr, hst⟩ := hst
    rw [← seqs_stmts P, hst, seqs_cons_ne _ _ hr] at hres
    have hv := Ach.Props.AcceptedHash.check_passes c [] none _ (Ach.Props.Accepted.accept_seq_left (by decide) hres)
    unfold run
    rw [hv]

/-- the same for IAT batches: `IATBatch.Validate()` = nil ⇒ `IATBatch.verify()` = nil -/
theorem accepted_iat_validate_verified (c : Ctx) (ha : run c v_IATBatch_Validate = .accept) :
    run c v_IATBatch_verify = .accept := by
  have hres := Ach.Props.Validators.accept_ret c _ ha
  have hshape : stmts v_IATBatch_Validate = (.check none v_IATBatch_verify) :: (stmts v_IATBatch_Validate).drop 1 ∧
      (stmts v_IATBatch_Validate).drop 1 ≠ [] := by decide +kernel
  rw [← seqs_stmts v_IATBatch_Validate, hshape.1, seqs_cons_ne _ _ hshape.2] at hres
  have hv := Ach.Props.AcceptedHash.check_passes c [] none _ (Ach.Props.Accepted.accept_seq_left (by decide) hres)
  unfold run
  rw [hv]

end Ach.Props.AcceptedFileBatches
