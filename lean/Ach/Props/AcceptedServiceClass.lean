import Ach.Props.AcceptedFileBatches
/-!
# Every entry of an accepted batch respects a credits-only / debits-only service class (C03)

Each `BatchXXX.Validate` walks its entries and calls `ValidTranCodeForServiceClassCode(entry)`.  For the validators whose
translated loop has the shape `shapeOK` (20 of the 21 standard classes today: CTX assigns to a counter in the loop
before the call and stays on the hand-written model), an accepting run called it for **every** entry and it returned
nil; and that function, translated too, returns nil only if a 220 batch entry is a credit and a 225 batch entry a debit
(by `EntryDetail.CreditOrDebit`, translated as well: the second digit of the transaction code).
-/
namespace Ach.Props.AcceptedServiceClass
open Ach Ach.GoLite Ach.Gen Ach.Props.AcceptedFileBatches

def svcCall : Prog := .checkOn none .self ["entry"] [(.var "entry")] v_Batch_ValidTranCodeForServiceClassCode

/-- statements that leave the locals exactly as they were when they pass control on -/
def keeps : Prog → Bool
  | .ite _ t e => noAssign t && noAssign e
  | .block p => noAssign p
  | .check _ _ => true
  | .checkOn _ _ _ _ _ => true
  | .skip => true
  | _ => false

theorem keeps_exact (p : Prog) (hk : keeps p = true) (c : Ctx) (l : Locals) (h : passing (exec p c l).2) :
    (exec p c l).2 = .next ∧ (exec p c l).1 = l := by
  have hn : noAssign p = true := by
    cases p <;> simp_all [keeps, noAssign]
  obtain ⟨h1, pre, hp⟩ := noAssign_suffix p hn c l h
  refine ⟨h1, ?_⟩
  cases p with
  | ite cnd t e =>
      simp only [exec] at h ⊢
      cases hc : eval c l cnd with
      | bool b =>
          rw [hc] at h
          simp only [keeps, Bool.and_eq_true] at hk
          cases b with
          | true =>
              simp only at h ⊢
              obtain ⟨_, pre', hp'⟩ := noAssign_suffix t hk.1 c l h
              rw [hp', scopeExit_append]
          | false =>
              simp only at h ⊢
              obtain ⟨_, pre', hp'⟩ := noAssign_suffix e hk.2 c l h
              rw [hp', scopeExit_append]
      | _ => simp [hc, passing] at h
  | block q =>
      simp only [exec] at h ⊢
      simp only [keeps] at hk
      obtain ⟨_, pre', hp'⟩ := noAssign_suffix q hk c l h
      rw [hp', scopeExit_append]
  | check tag body =>
      simp only [exec] at h ⊢
      rw [checkResult_passing _ _ _ h]
  | checkOn tag recv params args body =>
      simp only [exec] at h ⊢
      cases hr : eval c l recv <;> rw [hr] at h <;> try (simp [passing] at h; done)
      simp only at h ⊢
      split at h
      · simp [passing] at h
      · rename_i hb
        rw [if_neg hb]
        rw [checkResult_passing _ _ _ h]
  | skip => simp [exec]
  | _ => simp [keeps] at hk

/-- falling through a sequence of such statements leaves the locals as they were and reaches the rest -/
theorem keeps_drop (c : Ctx) :
    ∀ (ps : List Prog) (rest : Prog) (l : Locals), (∀ p ∈ ps, keeps p = true) →
      (exec (seqs (ps ++ [rest])) c l).2 = .next → (exec rest c l).2 = .next := by
  intro ps
  induction ps with
  | nil => intro rest l _ h; simpa [seqs] using h
  | cons a ps ih =>
      intro rest l hall h
      rw [List.cons_append, seqs_cons_ne _ _ (by simp)] at h
      simp only [exec] at h
      have ha := hall a (List.mem_cons_self ..)
      cases hx : exec a c l with
      | mk l1 s1 =>
        rw [hx] at h
        cases s1 with
        | next =>
            have := keeps_exact a ha c l (by rw [hx]; exact Or.inl rfl)
            rw [hx] at this
            simp only at this h
            rw [this.2] at h
            exact ih rest l (fun p hp => hall p (List.mem_cons_of_mem _ hp)) h
        | _ => simp at h

/-- the names a statement declares at its own level when it passes control on: nothing for the statements `keeps`
describes, the bound names for declarations and calls that bind their result, both parts for a sequence -/
def declares : Prog → Option (List String)
  | .bind x _ => some [x]
  | .bind2 x y _ => some [y, x]
  | .sub x _ _ _ => some [x]
  | .subOn x _ _ _ _ => some [x]
  | .seq a b => match declares a, declares b with
      | some da, some db => some (db ++ da)
      | _, _ => none
  | p => if keeps p then some [] else none

theorem declares_exact : ∀ (p : Prog) (names : List String), declares p = some names → ∀ (c : Ctx) (l : Locals),
    passing (exec p c l).2 → (exec p c l).2 = .next ∧ ∃ pre, (exec p c l).1 = pre ++ l ∧ pre.map Prod.fst = names := by
  intro p
  induction p with
  | bind x e =>
      intro names hd c l h
      simp only [declares, Option.some.injEq] at hd
      subst hd
      simp only [exec] at h ⊢
      cases hb : eval c l e <;> rw [hb] at h <;> first | (simp [passing] at h; done) | exact ⟨rfl, [(x, _)], rfl, rfl⟩
  | bind2 x y e =>
      intro names hd c l h
      simp only [declares, Option.some.injEq] at hd
      subst hd
      simp only [exec] at h ⊢
      cases hb : eval c l e <;> rw [hb] at h <;> first | (simp [passing] at h; done) | exact ⟨rfl, [(y, _), (x, _)], rfl, rfl⟩
  | sub x params args body _ =>
      intro names hd c l h
      simp only [declares, Option.some.injEq] at hd
      subst hd
      simp only [exec] at h ⊢
      split at h
      · simp [passing] at h
      · rename_i hb
        rw [if_neg hb]
        obtain ⟨v, hv⟩ := subResult_passing _ _ _ h
        rw [hv]
        exact ⟨rfl, [(x, v)], rfl, rfl⟩
  | subOn x recv params args body _ =>
      intro names hd c l h
      simp only [declares, Option.some.injEq] at hd
      subst hd
      simp only [exec] at h ⊢
      cases hr : eval c l recv <;> rw [hr] at h <;> try (simp [passing] at h; done)
      simp only at h ⊢
      split at h
      · simp [passing] at h
      · rename_i hb
        rw [if_neg hb]
        obtain ⟨v, hv⟩ := subResult_passing _ _ _ h
        rw [hv]
        exact ⟨rfl, [(x, v)], rfl, rfl⟩
  | seq a b iha ihb =>
      intro names hd c l h
      simp only [declares] at hd
      cases hda : declares a with
      | none => rw [hda] at hd; simp at hd
      | some da =>
        cases hdb : declares b with
        | none => rw [hda, hdb] at hd; simp at hd
        | some db =>
          rw [hda, hdb] at hd
          simp only [Option.some.injEq] at hd
          subst hd
          simp only [exec] at h ⊢
          have hpa := iha da hda c l
          cases hx : exec a c l with
          | mk l2 s2 =>
            rw [hx] at h hpa
            cases s2 with
            | next =>
                simp only at h ⊢
                obtain ⟨_, p1, hp1, hn1⟩ := hpa (Or.inl rfl)
                simp only at hp1
                obtain ⟨h2, p2, hp2, hn2⟩ := ihb db hdb c l2 h
                refine ⟨h2, p2 ++ p1, ?_, ?_⟩
                · rw [hp2, hp1, List.append_assoc]
                · rw [List.map_append, hn2, hn1]
            | brk => have := (hpa (Or.inr (Or.inl rfl))).1; simp at this
            | cont => have := (hpa (Or.inr (Or.inr rfl))).1; simp at this
            | ret v => simp [passing] at h
            | stuck w => simp [passing] at h
  | _ =>
      intro names hd c l h
      simp only [declares] at hd
      split at hd
      · rename_i hk
        simp only [Option.some.injEq] at hd
        subst hd
        obtain ⟨h1, h2⟩ := keeps_exact _ hk c l h
        exact ⟨h1, [], by simpa using h2, rfl⟩
      · simp at hd

theorem lookup_append_of_not_mem (pre l : Locals) (k : String) (h : k ∉ pre.map Prod.fst) :
    lookup (pre ++ l) k = lookup l k := by
  induction pre with
  | nil => rfl
  | cons x xs ih =>
      obtain ⟨n, v⟩ := x
      simp only [List.map_cons, List.mem_cons, not_or] at h
      have hne : (n == k) = false := by
        rw [beq_eq_false_iff_ne]
        exact fun e => h.1 e.symm
      simp only [List.cons_append, lookup, hne]
      exact ih h.2

/-- falling through a sequence of statements that declare at most names other than `entry` keeps `entry` visible -/
theorem declares_drop (c : Ctx) :
    ∀ (ps : List Prog) (rest : Prog) (l : Locals),
      (∀ p ∈ ps, ∃ names, declares p = some names ∧ "entry" ∉ names) →
      (exec (seqs (ps ++ [rest])) c l).2 = .next →
      ∃ pre, "entry" ∉ pre.map Prod.fst ∧ (exec rest c (pre ++ l)).2 = .next := by
  intro ps
  induction ps with
  | nil => intro rest l _ h; exact ⟨[], by simp, by simpa [seqs] using h⟩
  | cons a ps ih =>
      intro rest l hall h
      rw [List.cons_append, seqs_cons_ne _ _ (by simp)] at h
      simp only [exec] at h
      obtain ⟨names, hd, hne⟩ := hall a (List.mem_cons_self ..)
      cases hx : exec a c l with
      | mk l1 s1 =>
        rw [hx] at h
        cases s1 with
        | next =>
            obtain ⟨_, p1, hp1, hn1⟩ := declares_exact a names hd c l (by rw [hx]; exact Or.inl rfl)
            rw [hx] at hp1
            simp only at hp1 h
            rw [hp1] at h
            obtain ⟨p2, hn2, h2⟩ := ih rest (p1 ++ l) (fun p hp => hall p (List.mem_cons_of_mem _ hp)) h
            refine ⟨p2 ++ p1, ?_, by rw [List.append_assoc]; exact h2⟩
            rw [List.map_append, List.mem_append, not_or]
            exact ⟨hn2, by rw [hn1]; exact hne⟩
        | _ => simp at h

/-- where the entry loop stands in a validator and where the call stands in the loop body -/
def loopOf (P : Prog) : Option (Nat × Prog) :=
  let S := stmts P
  match S.findIdx? (fun q => match q with | .forEach "entry" (.fld "Entries") _ => true | _ => false) with
  | some k => match S[k]? with
    | some (.forEach _ _ b) => some (k, b)
    | _ => none
  | none => none

def callAt (b : Prog) : Option Nat := (stmts b).findIdx? (fun q => q == svcCall)

def shapeOK (P : Prog) : Bool :=
  match loopOf P with
  | some (k, b) =>
      let S := stmts P
      (S[k]? == some (.forEach "entry" (.fld "Entries") b)) &&
      (S.take k).all (fun q => rejectOnly q && quiet q) && rejectOnly (.forEach "entry" (.fld "Entries") b) &&
      decide (k + 1 < S.length) && noAssign b &&
      (match callAt b with
       | some j => ((stmts b)[j]? == some svcCall) &&
           ((stmts b).take j).all (fun q => match declares q with | some names => !names.contains "entry" | none => false)
       | none => false)
  | none => false

/-- the classes whose validator has that shape today -/
def shapedClasses : List String :=
  ["BatchACK", "BatchARC", "BatchATX", "BatchBOC", "BatchCCD", "BatchCIE", "BatchCOR", "BatchDNE", "BatchENR", "BatchMTE",
   "BatchPOP", "BatchPOS", "BatchPPD", "BatchRCK", "BatchSHR", "BatchTEL", "BatchTRC", "BatchTRX", "BatchWEB", "BatchXCK"]

theorem validators_walk_entries :
    dispatchTable.all (fun tp => !shapedClasses.contains tp.1 || shapeOK tp.2) = true ∧
    shapedClasses.all (fun n => (dispatchTable.lookup n).isSome) = true := by
  decide +kernel


theorem split_at {α} (S : List α) (k : Nat) (x : α) (h : S[k]? = some x) : S = S.take k ++ x :: S.drop (k + 1) := by
  have hk : k < S.length := by
    rcases Nat.lt_or_ge k S.length with h' | h'
    · exact h'
    · rw [List.getElem?_eq_none h'] at h; cases h
  have hx : S[k] = x := by
    rw [List.getElem?_eq_getElem hk] at h
    exact Option.some.inj h
  rw [← hx, ← List.drop_eq_getElem_cons hk, List.take_append_drop]

theorem seq_next_left {a b : Prog} {c : Ctx} {l : Locals} (h : (exec (.seq a b) c l).2 = .next) : (exec a c l).2 = .next := by
  simp only [exec] at h
  cases hx : exec a c l with
  | mk l1 s1 =>
    rw [hx] at h
    cases s1 with
    | next => rfl
    | _ => simp at h

theorem svcCall_passes (c : Ctx) (ep : String) (pre2 pre : Locals) (hne : "entry" ∉ pre2.map Prod.fst)
    (h : (exec svcCall c (pre2 ++ ("entry", .ref ep) :: pre)).2 = .next) :
    (exec v_Batch_ValidTranCodeForServiceClassCode c [("entry", .ref ep)]).2 = .ret (.err none) := by
  simp only [svcCall, exec, eval, List.map_cons, List.map_nil] at h
  have hc : ({ c with recv := c.recv } : Ctx) = c := rfl
  have hl : lookup (pre2 ++ ("entry", Val.ref ep) :: pre) "entry" = .ref ep := by
    rw [lookup_append_of_not_mem _ _ _ hne]; simp [lookup]
  simp [hc, hl] at h
  generalize (exec v_Batch_ValidTranCodeForServiceClassCode c [("entry", Val.ref ep)]).2 = s at h ⊢
  cases s with
  | ret v =>
      cases v with
      | err t =>
          cases t with
          | none => rfl
          | some t => simp [checkResult] at h
      | _ => simp [checkResult] at h
  | _ => simp [checkResult] at h

/-- a validator of that shape, when it returns nil, called `ValidTranCodeForServiceClassCode` for every entry of the batch,
and every call returned nil -/
theorem svc_checked (P : Prog) (hsh : shapeOK P = true) (c : Ctx) (p : String) (n : Nat)
    (hE : lookup c.fields (joinPath c.recv "Entries") = .lst p n) (ha : (exec P c []).2 = .ret (.err none)) :
    ∀ i, i < n → (exec v_Batch_ValidTranCodeForServiceClassCode c [("entry", .ref (elemPath p i))]).2 = .ret (.err none) := by
  unfold shapeOK at hsh
  cases hl : loopOf P with
  | none => rw [hl] at hsh; simp at hsh
  | some kb =>
    obtain ⟨k, b⟩ := kb
    rw [hl] at hsh
    simp only [Bool.and_eq_true, beq_iff_eq, decide_eq_true_eq] at hsh
    obtain ⟨⟨⟨⟨⟨h1, h2⟩, h3⟩, h4⟩, h5⟩, h6⟩ := hsh
    cases hj : callAt b with
    | none => rw [hj] at h6; simp at h6
    | some j =>
      rw [hj] at h6
      simp only [Bool.and_eq_true, beq_iff_eq] at h6
      obtain ⟨h6, h7⟩ := h6
      -- reach the loop
      have hS := split_at (stmts P) k _ h1
      have hne : (stmts P).drop (k + 1) ≠ [] := by
        intro hd
        have := congrArg List.length hd
        simp at this
        omega
      obtain ⟨pre, hpre⟩ := accept_reaches_q c P [] ((stmts P).take k) (_ :: (stmts P).drop (k + 1)) hS (by simp) h2 ha
      rw [seqs_cons_ne _ _ hne] at hpre
      have hloop := Ach.Props.Accepted.accept_seq_left h3 hpre
      simp only [exec, eval, hE, List.append_nil] at hloop
      intro i hi
      have hbody := iter_all_pass (fun l' => exec b c l') (fun k => .ref (elemPath p k)) "entry"
        (fun l' hp => noAssign_suffix _ h5 c l' hp) (List.range n) pre (by rw [hloop]; exact Or.inl rfl)
        i (List.mem_range.mpr hi)
      -- reach the call inside the body
      have hB := split_at (stmts b) j _ h6
      rw [← seqs_stmts b, hB] at hbody
      have hk : ∀ q ∈ (stmts b).take j, ∃ names, declares q = some names ∧ "entry" ∉ names := by
        intro q hq
        have := List.all_eq_true.mp h7 q hq
        cases hdq : declares q with
        | none => rw [hdq] at this; simp at this
        | some names =>
            rw [hdq] at this
            refine ⟨names, rfl, ?_⟩
            simpa using this
      cases hr : (stmts b).drop (j + 1) with
      | nil =>
          rw [hr] at hbody
          obtain ⟨pre2, hn2, h2⟩ := declares_drop c _ svcCall _ hk hbody
          exact svcCall_passes c _ pre2 pre hn2 h2
      | cons r rs =>
          rw [hr] at hbody
          rw [seqs_append_tail _ (svcCall :: r :: rs) (by simp)] at hbody
          obtain ⟨pre2, hn2, h2⟩ := declares_drop c _ (seqs (svcCall :: r :: rs)) _ hk hbody
          rw [seqs_cons_ne _ _ (by simp)] at h2
          exact svcCall_passes c _ pre2 pre hn2 (seq_next_left h2)

/-! ## what the call checks -/

open Ach.Props.AcceptedAmounts in
def svcProg : Prog :=
  seqs [(.block (seqs [(.bind "_tag" (.sel (.var "entry") "TransactionCode")),
      (.ite (orEq [81, 83, 85, 87, 82, 84, 86, 88]) (.block (.ret (.mkErr "TransactionCode"))) .skip)])),
    (.ite (.flag "recv" "CheckTransactionCode") (.ret .nil) .skip),
    (.block (seqs [(.bind "_tag" (.sel (.fld "Header") "ServiceClassCode")),
      (.ite (.eq (.var "_tag") (.int 280)) (.block (.ret (.mkErr "ServiceClassCode")))
        (.ite (.eq (.var "_tag") (.int 200)) (.block (.ret .nil))
          (.ite (.eq (.var "_tag") (.int 220))
            (.block (.block (seqs [(.subOn "_t2" (.var "entry") [] [] v_EntryDetail_CreditOrDebit),
              (.ite (.ne (.var "_t2") (.str "C")) (.ret (.mkErr "TransactionCode")) .skip)])))
            (.ite (.eq (.var "_tag") (.int 225))
              (.block (.block (seqs [(.subOn "_t1" (.var "entry") [] [] v_EntryDetail_CreditOrDebit),
                (.ite (.ne (.var "_t1") (.str "D")) (.ret (.mkErr "TransactionCode")) .skip)])))
              .skip))))])),
    (.ret .nil)]

/-- the translated `Batch.ValidTranCodeForServiceClassCode` is that program -/
theorem validTranCode_shape : v_Batch_ValidTranCodeForServiceClassCode = svcProg := by decide +kernel

/-- it returns nil (no `CheckTransactionCode` callback) only if the entry's direction — as `EntryDetail.CreditOrDebit()`
gives it — fits a credits-only (220) or debits-only (225) header, and the header is not an ADV one (280) -/
theorem validTranCode_accepts (c : Ctx) (ep hp : String) (t s : Int) (cd : Str)
    (hflag : hasFlag c "recv" "CheckTransactionCode" = false)
    (ht : lookup c.fields (joinPath ep "TransactionCode") = .int t)
    (hH : lookup c.fields (joinPath c.recv "Header") = .ref hp)
    (hs : lookup c.fields (joinPath hp "ServiceClassCode") = .int s)
    (hcd : (exec v_EntryDetail_CreditOrDebit { c with recv := ep } []).2 = .ret (.str cd))
    (h : (exec v_Batch_ValidTranCodeForServiceClassCode c [("entry", .ref ep)]).2 = .ret (.err none)) :
    s ≠ 280 ∧ (s = 220 → cd = ['C']) ∧ (s = 225 → cd = ['D']) := by
  rw [validTranCode_shape] at h
  have hl : lookup [("_tag", Val.int t), ("entry", Val.ref ep)] "_tag" = .int t := by simp [lookup]
  have hor := Ach.Props.AcceptedAmounts.orEq_eval c _ t hl [81, 83, 85, 87, 82, 84, 86, 88] (by decide)
  have hC : ("C" : String).toList = ['C'] := by decide
  have hD : ("D" : String).toList = ['D'] := by decide
  by_cases hadv : t ∈ ([81, 83, 85, 87, 82, 84, 86, 88] : List Int)
  · simp [svcProg, seqs, exec, eval, lookup, ht, hor, hadv, scopeExit] at h
  · by_cases e280 : s = 280
    · subst e280
      simp [svcProg, seqs, exec, eval, lookup, ht, hor, hadv, hflag, hH, hs, cmpVals, scopeExit] at h
    · by_cases e200 : s = 200
      · subst e200; simp
      · by_cases e220 : s = 220
        · subst e220
          by_cases hc : cd = ['C']
          · simp [hc]
          · simp [svcProg, seqs, exec, eval, lookup, ht, hor, hadv, hflag, hH, hs, cmpVals, scopeExit, hcd, subResult, hC, hc] at h
        · by_cases e225 : s = 225
          · subst e225
            by_cases hc : cd = ['D']
            · simp [hc]
            · simp [svcProg, seqs, exec, eval, lookup, ht, hor, hadv, hflag, hH, hs, cmpVals, scopeExit, hcd, subResult, hD, hc] at h
          · simp [e280, e220, e225]

/-- `EntryDetail.CreditOrDebit()` on a two-digit transaction code: by the second digit -/
def creditOrDebitOf (t : Int) : Str :=
  let d := t % 10
  if 1 ≤ d ∧ d ≤ 4 then ['C'] else if 5 ≤ d then ['D'] else []

def twoDigit : List Int := (List.range 90).map (fun k => Int.ofNat k + 10)

def codCtx (t : Int) : Ctx := { fields := [("TransactionCode", .int t)], recvFlags := [], paramFlags := [], ext := [] }

/-- the translated `EntryDetail.CreditOrDebit` on every two-digit code (evaluated on all ninety) -/
theorem creditOrDebit_table :
    twoDigit.all (fun t => (exec v_EntryDetail_CreditOrDebit (codCtx t) []).2 == .ret (.str (creditOrDebitOf t))) = true := by
  decide +kernel


def digitChar (d : Int) : Char := Char.ofNat (48 + d.toNat)

theorem itoa_second_digit :
    twoDigit.all (fun t => sliceAscii (itoa t) 1 2 == .str [digitChar (t % 10)]) = true := by
  decide +kernel

theorem mem_twoDigit (t : Int) (h10 : 10 ≤ t) (h99 : t ≤ 99) : t ∈ twoDigit := by
  unfold twoDigit
  rw [List.mem_map]
  refine ⟨(t - 10).toNat, List.mem_range.mpr (by omega), ?_⟩
  simp only [Int.ofNat_eq_natCast]
  omega

/-- the translated `EntryDetail.CreditOrDebit`, for every entry whose transaction code has two digits: "C" when the
second digit is 1–4, "D" when it is 5–9, "" when it is 0 -/
theorem creditOrDebit_exec (c : Ctx) (t : Int) (h10 : 10 ≤ t) (h99 : t ≤ 99)
    (ht : lookup c.fields (joinPath c.recv "TransactionCode") = .int t) :
    (exec v_EntryDetail_CreditOrDebit c []).2 = .ret (.str (creditOrDebitOf t)) := by
  have hm := mem_twoDigit t h10 h99
  have hsl : sliceAscii (itoa t) 1 2 = .str [digitChar (t % 10)] := by
    have := List.all_eq_true.mp itoa_second_digit t hm
    simpa using this
  have hitoa : builtin1 c.ext "strconv.Itoa" (Val.int t) = .str (itoa t) := by simp [builtin1]
  have hb3 : builtin3 "slice" (Val.str (itoa t)) (Val.int 1) (Val.int 2) = sliceAscii (itoa t) 1 2 := by simp [builtin3]
  have h1 : ¬ t < 10 := by omega
  have h2 : ¬ t > 99 := by omega
  have hd : t % 10 = 0 ∨ t % 10 = 1 ∨ t % 10 = 2 ∨ t % 10 = 3 ∨ t % 10 = 4 ∨ t % 10 = 5 ∨ t % 10 = 6 ∨ t % 10 = 7 ∨
      t % 10 = 8 ∨ t % 10 = 9 := by omega
  unfold creditOrDebitOf
  rcases hd with hk | hk | hk | hk | hk | hk | hk | hk | hk | hk <;>
    simp [v_EntryDetail_CreditOrDebit, seqs, exec, eval, lookup, ht, hitoa, hb3, hsl, cmpVals, scopeExit, h1, h2, hk, digitChar]


/-- C03, service class — for the 20 classes above and every batch value of any size: if `BatchXXX.Validate()` (translated
from the source on this run) returns nil, no `CheckTransactionCode` callback is set and the transaction codes have two
digits, then for **every** entry: in a credits-only (220) batch the second digit of its code is 1–4 (a credit), in a
debits-only (225) batch it is 5–9 (a debit), and the header's class is not 280 -/
theorem accepted_batch_service_class (name : String) (P : Prog) (hm : (name, P) ∈ dispatchTable)
    (hshaped : name ∈ shapedClasses) (c : Ctx) (hp p : String) (n : Nat) (tc : Nat → Int) (s : Int)
    (hflag : hasFlag c "recv" "CheckTransactionCode" = false)
    (hH : lookup c.fields (joinPath c.recv "Header") = .ref hp)
    (hs : lookup c.fields (joinPath hp "ServiceClassCode") = .int s)
    (hE : lookup c.fields (joinPath c.recv "Entries") = .lst p n)
    (ht : ∀ i, i < n → lookup c.fields (joinPath (elemPath p i) "TransactionCode") = .int (tc i))
    (h2 : ∀ i, i < n → 10 ≤ tc i ∧ tc i ≤ 99)
    (ha : run c P = .accept) :
    ∀ i, i < n → s ≠ 280 ∧ (s = 220 → creditOrDebitOf (tc i) = ['C']) ∧ (s = 225 → creditOrDebitOf (tc i) = ['D']) := by
  intro i hi
  have hres := Ach.Props.Validators.accept_ret c _ ha
  have hrow := List.all_eq_true.mp validators_walk_entries.1 (name, P) hm
  have hsh : shapeOK P = true := by
    simp only [Bool.or_eq_true, Bool.not_eq_true'] at hrow
    rcases hrow with hno | hok
    · have : shapedClasses.contains name = true := by simpa using hshaped
      rw [this] at hno
      cases hno
    · exact hok
  have hcall := svc_checked P hsh c p n hE hres i hi
  have hcd := creditOrDebit_exec { c with recv := elemPath p i } (tc i) (h2 i hi).1 (h2 i hi).2 (ht i hi)
  exact validTranCode_accepts c (elemPath p i) hp (tc i) s _ hflag (ht i hi) hH hs hcd hcall


/-- the two notions of direction in the validation code agree: every code `calculateBatchAmounts` adds to the credit total
is a credit by `EntryDetail.CreditOrDebit` (second digit 1–4), every code it adds to the debit total a debit — so a
credits-only batch accepted by `ValidTranCodeForServiceClassCode` has a zero debit total, and the reverse
(C03; also the classification C11 and C13 rest on) -/
theorem creditOrDebit_agrees_with_amount_lists :
    Ach.Props.AcceptedAmounts.creditCodes.all (fun t => creditOrDebitOf t == ['C']) = true ∧
    Ach.Props.AcceptedAmounts.debitCodes.all (fun t => creditOrDebitOf t == ['D']) = true ∧
    (Ach.Props.AcceptedAmounts.creditCodes ++ Ach.Props.AcceptedAmounts.debitCodes).all (fun t => twoDigit.contains t) = true := by
  decide +kernel

/-- hence in an accepted credits-only batch no entry counts towards the debit total, and the reverse -/
theorem credit_entry_has_no_debit_part (t a : Int) (h : creditOrDebitOf t = ['C']) :
    Ach.Props.AcceptedAmounts.debitPart t a = 0 ∨ Ach.Props.AcceptedAmounts.creditCodes.contains t = true := by
  unfold Ach.Props.AcceptedAmounts.debitPart
  by_cases hc : Ach.Props.AcceptedAmounts.creditCodes.contains t = true
  · exact Or.inr hc
  · left
    simp only [hc]
    by_cases hd : Ach.Props.AcceptedAmounts.debitCodes.contains t = true
    · exfalso
      have := List.all_eq_true.mp creditOrDebit_agrees_with_amount_lists.2.1 t (by simpa using hd)
      simp [h] at this
    · have hnm : t ∉ Ach.Props.AcceptedAmounts.debitCodes := by simpa using hd
      simp [hnm]

end Ach.Props.AcceptedServiceClass
