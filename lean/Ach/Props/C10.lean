import Ach.Proofs.Pipeline
import Ach.Generated.Pipeline
/-!
# C10 — MergeDir equals MergeFiles over the directory, under every schedule

Model: `Ach.Model.Pipeline` (the walk as a pure function over a tree; the goroutines of `MergeDir` as a labelled
transition system whose runs are the schedules).  All theorems hold for every worker count `n ≥ 1`, every list of
walked paths and every run (induction over `Reach`).

* `walk_complete` — the walk sends every file of the tree exactly once (all levels when sub-directories are
  enabled, the top level otherwise) when the source continues after a sub-directory, which it does
  (`pipeline_params_from_source`, `source_walk_complete`).  `walk_incomplete_counterexample` is the theorem about the
  old behaviour `return walkDir(sub)` (finding D3, fixed in /repo by a7642603).
* `pipeline_invariant`, `pipeline_delivers`, `pipeline_error`, `pipeline_error_iff`, `pipeline_terminates` — hold for
  every parameter value.
* `pipeline_no_deadlock` needs the walker's send to be abandonable on an errgroup error; the source has that
  (`pipeline_params_from_source`, `source_no_deadlock`).  For the old parameter values (plain sends, `errgroup.Group`
  without context) `pipeline_deadlock_reachable` exhibits the stuck run (N = 1, paths = [unparseable, good]; finding
  D4, fixed in /repo by a36b4c2a) and `pipeline_no_deadlock_if_all_parse` is what held; `pipeline_deadlock_dichotomy`
  shows the condition is exact.
* `mergedir_equals_mergefiles` — with order-independence of merging (hypothesis, C08) the merged content of every
  error-free finished run equals the merge of the accepted parseable files in walk order.
* `pipeline_params_from_source` — the parameter values computed from the generated facts, `by decide`; an edit of
  merge.go that takes a send out of its `select`, drops the `Done()` case, drops `errgroup.WithContext` or changes
  the sub-directory handling breaks it and with it `source_walk_complete` / `source_no_deadlock`.

## The `sync.Once` (merge.go:374-377) — schedule-dependent, reported as a finding

`seed` records which file's `Header` / `GetValidation()` was copied into `sorted` by `setup.Do`.  Proved:
`seed_before_merge` (the seeding happens before any parsed file can reach the merger, so `pickOutFile` never compares
against the zero header), `seed_is_merged` (in an error-free finished run the seeding file is one of the merged
files, and there is none iff nothing was merged), and `seed_schedule_dependent`: with two workers and two good files
there are two finished runs with the **same** merge order `[0,1]` whose seeds are `0` and `1`.
Consequence in merge.go (by reading `outFile.add`, `pickOutFile`, `convertToFiles`; not part of the model): the
output file for the seeding file's origin/destination pair carries `sorted.header` = the *seeding* file's whole
FileHeader, every other output file the header of the *first merged* file of its pair.  The key fields
(ImmediateOrigin, ImmediateDestination) and the merged ValidateOpts (`merge` is a field-wise OR over the pair's files)
do not depend on that choice; the remaining header fields (FileCreationDate/Time, FileIDModifier, the two names,
ReferenceCode), the order of the output files, the batch order and batch numbers do.  Scenario: two accepted files
with equal origin/destination and FileIDModifier "A" / "B", `ParseWorkers ≥ 2`: the merged file's FileIDModifier is
"A" or "B" depending on which worker reaches `setup.Do` first; and the run of `seed_schedule_dependent` yields header
of file 1 with file 0's batches first, which `MergeFiles` produces for no input order.  Hence equality with
`MergeFiles` can only be claimed for the content the property names (multiset of entries, grouping by
origin/destination), which is what `mergeOrderIndependent` abstracts.

## Trusted / modelled, not verified

* Go channel semantics: an unbuffered send completes together with a receive (rendezvous step); `select` picks any
  ready case; `context` cancellation is observed by `Done()` any time after `cancel`; `errgroup.Group.Wait` returns
  the first non-nil error after all goroutines returned, and `errgroup.WithContext` cancels its context at that
  first error; `sync.WaitGroup`; `sync.Once.Do` runs the first caller's function and no `Do` returns before it
  completed.  The two helper goroutines (`pathsGroup.Wait(); pathsCancelFunc()` and the parsing one) are folded into
  `walkerFinish` / `mergerFinish`.
* `walkerAbort k`: in the source an abandoned send makes that `walkDir` invocation return nil, i.e. the rest of the
  directory being listed is skipped and the parent's loop goes on; the model allows any number `k` of skipped paths
  (a superset; the step's enabling condition does not depend on `k`, so progress transfers).
* Reading and parsing a file (`readValidateOptsFromFile`, `readFile`) is one local step with a fixed outcome per
  path (`parseable`); `opts.AcceptFile` is a function of the path (`accepted`).
* `sorted.add` does not fail on a parsed file (its error returns need a nil BatchHeader / nil outFile).  If it did,
  the merger would return early and a worker blocked on `mergableFiles <- file` could only leave through the
  `workerAbort` step — that is the only place where `workerSendCancellable` matters; it is not needed for
  `pipeline_no_deadlock` in this model.
* `ReadDir` succeeds.  The `os.ReadDir` fallback for a directory the fs.FS lists as empty (merge.go:310; the model
  names these directories, `osFallbackDirs`, `os_fallback_witness`, and the driver prints them) is not modelled
  further; it is a **finding**: with `opts.FS` set, an empty sub-directory makes MergeDir fail with
  "os.readdir sub failed: open sub: no such file or directory" although every file is fine, and an empty root
  directory makes it list the process's working directory on the real file system (probe: a `LICENSE` file there
  gives "reading LICENSE failed").  `walk_complete` is about the files of the tree and is not affected.
* Which context a `Done()` case belongs to is not in the facts (see the final report): `selectsDone` on the two
  sends is read as "the errgroup context when `mergeDirUsesGroupCtx`".
* Not exhibited: the Go memory model / data-race freedom (covered by `-race` runs only).  At the level of the
  model the only shared data written by workers is the `sync.Once` seed, ordered before the merger's reads by
  `seed_before_merge`.
-/
namespace Ach.Props.C10
open Ach.Pipeline Ach.Gen

/-! ## parameters from the generated facts -/

def sendsOn (fs : List SendFact) (fn ch : String) : List SendFact := fs.filter (fun f => f.fn == fn && f.ch == ch)

/-- there is such a channel operation and every one sits in a `select` that also has a `Done()` case -/
def allSelectDone (fs : List SendFact) (fn ch : String) : Bool :=
  !(sendsOn fs fn ch).isEmpty && (sendsOn fs fn ch).all (fun f => f.inSelect && f.selectsDone)

def paramsOf (sends : List SendFact) (groupCtx : Bool) : Params :=
  ⟨allSelectDone sends "walkDir" "discoveredPaths", allSelectDone sends "queueFileForMerging" "mergableFiles", groupCtx⟩

/-- the model's `workerExit` / `mergerFinish`: both receives sit in a `select` with a `Done()` case -/
def receiveSelectsOk (sel : List SendFact) : Bool :=
  allSelectDone sel "queueFileForMerging" "discoveredPaths" && allSelectDone sel "MergeDir" "mergableFiles"

def sourceParams : Params := paramsOf pipeSends mergeDirUsesGroupCtx
def sourceBeh : SubdirBeh := subdirBehOf walkSubdir

/-- plain channel sends and `var g errgroup.Group` (merge.go before a36b4c2a) -/
def oldParams : Params := ⟨false, false, false⟩
/-- both sends in a `select` with `Done()` of the `errgroup.WithContext` context -/
def fixedParams : Params := ⟨true, true, true⟩

/-- the fact tables as they were extracted before the two fixes map to `oldParams` / `.returnCall`
(`paramsOf` does discriminate) -/
theorem old_facts_give_old_params :
    paramsOf [⟨"walkDir", "discoveredPaths", false, false⟩, ⟨"queueFileForMerging", "mergableFiles", false, false⟩] false
      = oldParams ∧ subdirBehOf "return-recursive-call" = .returnCall := by decide

/-! ## the walk -/

/-- **walk_complete**: when the source continues after a sub-directory, the walk sends exactly the files of the
tree, each once (it *is* the depth-first flattening, a fortiori a permutation of it); with sub-directories disabled
it sends exactly the top-level files, whatever the sub-directory behaviour -/
theorem walk_complete (dir : String) (items : List Node) :
    walkItems true .continue dir items = allFiles dir items ∧
    (walkItems true .continue dir items).Perm (allFiles dir items) ∧
    ∀ beh, walkItems false beh dir items = topFiles dir items :=
  ⟨walk_continue_eq_allFiles dir items, by rw [walk_continue_eq_allFiles], fun beh => walk_nosub_eq_topFiles beh dir items⟩

def lossyTree : List Node :=
  [.file "a.ach" .accept true, .dir "d" [.file "c.ach" .accept true], .file "e.ach" .accept true]

/-- **walk_incomplete_counterexample** (finding D3, for the old behaviour `.returnCall`): with `return walkDir(sub)`
the file after the sub-directory is in the tree but is never sent -/
theorem walk_incomplete_counterexample :
    (⟨"e.ach", .accept, true⟩ : Sent) ∈ allFiles "." lossyTree ∧
    walkItems true .returnCall "." lossyTree = [⟨"a.ach", .accept, true⟩, ⟨"d/c.ach", .accept, true⟩] ∧
    (⟨"e.ach", .accept, true⟩ : Sent) ∉ walkItems true .returnCall "." lossyTree := by
  simp [lossyTree, walkItems, allFiles, join]

/-- the directories on which `walkDir` reads the operating system instead of the fs.FS: an empty sub-directory -/
theorem os_fallback_witness :
    osFallbackDirs true .continue "." [.file "a.ach" .accept true, .dir "sub" []] = ["sub"] ∧
    osFallbackDirs true .continue "." [] = ["."] := by
  simp [osFallbackDirs, osFallbackItems, join]

/-! ## the pipeline -/

/-- **pipeline_invariant**: in every reachable state — the merger has finished only if all workers returned; a
worker returned cleanly only if the walker is done; the walker is done only when nothing is left; everything sent or
still to send is a walked path; and, while no error occurred, sent ++ still-to-send = walked paths (nothing skipped)
and merged ⊎ in-flight = the good files among the paths sent so far -/
theorem pipeline_invariant {P : Params} {n : Nat} {paths : List PFile} {s : St} (h : Reach P n paths s) :
    (s.mergerDone = true → ∀ w ∈ s.workers, w.isExited = true) ∧
    (W.exited .ok ∈ s.workers → s.walkerDone = true) ∧
    (s.walkerDone = true → s.remaining = []) ∧
    s.workers.length = n ∧
    (∀ p, p ∈ s.sent ∨ p ∈ s.remaining → p ∈ paths) ∧
    (s.err = false → s.sent ++ s.remaining = paths) ∧
    (s.err = false → (s.acc ++ s.workers.flatMap inflight).Perm (goodIds s.sent)) := by
  have hi := inv_reach h
  refine ⟨fun hm => by simpa [allExited] using hi.c.merger hm, hi.c.exitOk, hi.c.walked, hi.c.len, hi.c.sub, hi.c.split,
    fun he => ?_⟩
  rw [List.perm_iff_count]
  intro x
  simpa [List.count_append] using hi.b he x

/-- **pipeline_delivers**: every finished run without error has merged exactly the multiset of accepted parseable
files among the walked paths -/
theorem pipeline_delivers {P : Params} {n : Nat} {paths : List PFile} {s : St} (h : Reach P n paths s)
    (ht : terminal s = true) (he : s.err = false) : s.acc.Perm (goodIds paths) :=
  delivers (inv_reach h) ht he

/-- progress whenever an error lets the walker abandon its send (lemma behind the two no-deadlock theorems) -/
theorem pipeline_progress {P : Params} {n : Nat} {paths : List PFile} {s : St} (hn : 1 ≤ n) (h : Reach P n paths s)
    (hnt : terminal s = false) (hab : s.err = true → P.walkerAbortable = true) : ∃ l t, Step P s l t :=
  progress hn (inv_reach h).c hnt hab

/-- **pipeline_no_deadlock**: with both sends cancellable by the errgroup context, every reachable non-terminal
state has a successor.  (Only `walkerSendCancellable ∧ groupCtx` is used, see `pipeline_progress`.) -/
theorem pipeline_no_deadlock {P : Params} {n : Nat} {paths : List PFile} {s : St} (hn : 1 ≤ n)
    (hw : P.walkerSendCancellable = true) (_hs : P.workerSendCancellable = true) (hg : P.groupCtx = true)
    (h : Reach P n paths s) (hnt : terminal s = false) : ∃ l t, Step P s l t :=
  pipeline_progress hn h hnt (fun _ => by simp [Params.walkerAbortable, hw, hg])

/-- **pipeline_no_deadlock_if_all_parse**: for any parameters (`oldParams` included), if no walked path is an accepted
unparseable file then no worker ever returns an error and every reachable non-terminal state has a successor -/
theorem pipeline_no_deadlock_if_all_parse {P : Params} {n : Nat} {paths : List PFile} {s : St} (hn : 1 ≤ n)
    (hall : ∀ p ∈ paths, p.bad = false) (h : Reach P n paths s) (hnt : terminal s = false) :
    s.err = false ∧ ∃ l t, Step P s l t := by
  have hi := inv_reach h
  have he : s.err = false := by
    cases he : s.err with
    | false => rfl
    | true =>
      obtain ⟨p, hp, hb⟩ := hi.c.errBad he
      have := hall p (hi.c.sub p (Or.inl hp))
      simp [hb] at this
  exact ⟨he, pipeline_progress hn h hnt (fun h' => by simp [he] at h')⟩

/-- **pipeline_terminates**: a natural-number measure strictly decreases on every step, so every run is finite
(at most `runMeasure (init n paths) = 3·|paths| + n + 2` steps) -/
theorem pipeline_terminates {P : Params} {s t : St} {l : Label} (h : Step P s l t) : runMeasure t < runMeasure s :=
  measure_decreases h

theorem measure_init (n : Nat) (paths : List PFile) : runMeasure (init n paths) = 3 * paths.length + n + 2 := by
  simp [runMeasure, init, W.rank, List.map_replicate]

/-- **pipeline_error**: once a worker has taken an unparseable accepted file and read it, every later state —
in particular the final one — has an error as its result -/
theorem pipeline_error {P : Params} {s u : St} {i : Nat} {p : PFile} (hg : s.workers[i]? = some (.got p))
    (hb : p.bad = true) (hu : Steps P (parseSt s i p) u) :
    Step P s (.parse i) (parseSt s i p) ∧ result u = none := by
  refine ⟨Step.parse s i p hg, ?_⟩
  have : u.err = true := err_monotone hu (by simp [parseSt, hb])
  simp [result, this]

/-- the result of a finished run is an error exactly when some walked path is an accepted file that cannot be
parsed ("returning an error when an accepted file cannot be parsed") -/
theorem pipeline_error_iff {P : Params} {n : Nat} {paths : List PFile} {s : St} (h : Reach P n paths s)
    (ht : terminal s = true) : result s = none ↔ ∃ p ∈ paths, p.bad = true := by
  rw [← terminal_err_iff (inv_reach h) ht]
  cases he : s.err <;> simp [result, he]

def badGood : List PFile := [⟨0, true, false⟩, ⟨1, true, true⟩]

def stuckSt : St := ⟨[⟨1, true, true⟩], [⟨0, true, false⟩], false, [.exited .err], [], true, none, true⟩

/-- finding D4 for any parameters under which the walker cannot abandon its send: one worker, paths
[unparseable, good]; after `send 0, parse 0, mergerFinish` the walker is blocked on its send forever -/
theorem deadlock_of_not_abortable (P : Params) (h : P.walkerAbortable = false) :
    Reach P 1 badGood stuckSt ∧ terminal stuckSt = false ∧ ¬ ∃ l t, Step P stuckSt l t := by
  obtain ⟨a, b, c⟩ := P
  cases a <;> cases b <;> cases c <;> simp [Params.walkerAbortable] at h <;>
    exact ⟨reach_of_runLabels [.send 0, .parse 0, .mergerFinish] Reach.init (by decide), by decide,
      stuck_of_enabled_nil (by decide)⟩

/-- **pipeline_deadlock_reachable** (counterexample to no-deadlock for the old parameter values) -/
theorem pipeline_deadlock_reachable :
    Reach oldParams 1 badGood stuckSt ∧ terminal stuckSt = false ∧ ¬ ∃ l t, Step oldParams stuckSt l t :=
  deadlock_of_not_abortable oldParams (by decide)

/-- the condition of `pipeline_no_deadlock` is exact -/
theorem pipeline_deadlock_dichotomy (P : Params) :
    (P.walkerAbortable = true ∧ ∀ n paths s, 1 ≤ n → Reach P n paths s → terminal s = false → ∃ l t, Step P s l t) ∨
    (P.walkerAbortable = false ∧ ∃ n paths s, 1 ≤ n ∧ Reach P n paths s ∧ terminal s = false ∧ ¬ ∃ l t, Step P s l t) := by
  cases h : P.walkerAbortable with
  | true => exact Or.inl ⟨rfl, fun n paths s hn hr hnt => pipeline_progress hn hr hnt (fun _ => h)⟩
  | false =>
    obtain ⟨h1, h2, h3⟩ := deadlock_of_not_abortable P h
    exact Or.inr ⟨rfl, 1, badGood, stuckSt, Nat.le_refl 1, h1, h2, h3⟩

/-! ## schedule independence -/

/-- **mergedir_equals_mergefiles**: let `merge` be the merged content as a function of the list of files handed
to `sorted.add`, and assume it does not depend on their order (`mergeOrderIndependent`, proved for C08).  Then every
finished error-free run of the pipeline over the walked tree, under every schedule and worker count, yields the
content of merging the accepted parseable files of the tree in walk order — all files when the walk continues after
sub-directories and they are enabled, the top-level ones when they are disabled. -/
theorem mergedir_equals_mergefiles {R : Type} (merge : List Nat → R)
    (mergeOrderIndependent : ∀ a b : List Nat, a.Perm b → merge a = merge b)
    {P : Params} {n : Nat} (subdirs : Bool) (items : List Node) {s : St}
    (h : Reach P n (pathsOfTree subdirs .continue items) s) (ht : terminal s = true) (he : s.err = false) :
    merge s.acc = merge (goodIds (numberFrom 0 (if subdirs then allFiles "." items else topFiles "." items))) := by
  have := mergeOrderIndependent _ _ (pipeline_delivers h ht he)
  cases subdirs
  · simpa [pathsOfTree, walk_nosub_eq_topFiles] using this
  · simpa [pathsOfTree, walk_continue_eq_allFiles] using this

/-- two finished runs over the same paths (any two schedules, any two worker counts) agree: both fail or both
succeed with the same content -/
theorem mergedir_schedule_independent {R : Type} (merge : List Nat → R)
    (mergeOrderIndependent : ∀ a b : List Nat, a.Perm b → merge a = merge b)
    {P : Params} {n m : Nat} {paths : List PFile} {s t : St} (hs : Reach P n paths s) (ht : Reach P m paths t)
    (hts : terminal s = true) (htt : terminal t = true) : (result s).map merge = (result t).map merge := by
  have e1 := terminal_err_iff (inv_reach hs) hts
  have e2 := terminal_err_iff (inv_reach ht) htt
  cases hes : s.err with
  | true =>
    have : t.err = true := e2.2 (e1.1 hes)
    simp [result, hes, this]
  | false =>
    have het : t.err = false := by
      cases het : t.err with
      | false => rfl
      | true => have := e1.2 (e2.1 het); simp [hes] at this
    have := mergeOrderIndependent _ _ ((pipeline_delivers hs hts hes).trans (pipeline_delivers ht htt het).symm)
    simp [result, hes, het, this]

/-! ## the `sync.Once` seed -/

/-- the header is seeded before any parsed file is held by a worker or has reached the merger -/
theorem seed_before_merge {P : Params} {n : Nat} {paths : List PFile} {s : St} (h : Reach P n paths s)
    (hx : s.acc ≠ [] ∨ ∃ f, W.holding f ∈ s.workers) : s.seed.isSome = true := by
  cases hq : s.seed with
  | some f => rfl
  | none =>
    obtain ⟨h1, h2⟩ := (inv_reach h).s.seedNone hq
    rcases hx with hx | ⟨f, hf⟩
    · exact absurd h1 hx
    · exact absurd hf (h2 f)

/-- in a finished error-free run the seeding file is among the merged ones; there is none iff nothing was merged -/
theorem seed_is_merged {P : Params} {n : Nat} {paths : List PFile} {s : St} (h : Reach P n paths s)
    (ht : terminal s = true) (he : s.err = false) :
    (∀ f, s.seed = some f → f ∈ s.acc) ∧ (s.seed = none ↔ s.acc = []) := by
  have hi := inv_reach h
  have hin : ∀ f, s.seed = some f → f ∈ s.acc := by
    intro f hf
    rcases hi.s.seedIn he f hf with h | h
    · exact h
    · have hall := (terminal_parts ht).2.2
      simp [allExited] at hall
      have := hall _ h; simp [W.isExited] at this
  refine ⟨hin, fun hq => (hi.s.seedNone hq).1, fun ha => ?_⟩
  cases hq : s.seed with
  | none => rfl
  | some f => have := hin f hq; simp [ha] at this

def twoGood : List PFile := [⟨0, true, true⟩, ⟨1, true, true⟩]
def endSeed (k : Nat) : St :=
  ⟨[], twoGood, true, [.exited .ok, .exited .ok], [0, 1], true, some k, false⟩

/-- **seed_schedule_dependent**: two workers, two good files, under the extracted parameters (`fixedParams`; the
same runs exist under all parameters): two finished error-free runs with the same merge order `[0,1]`, seeded by file 0 and by file 1 -/
theorem seed_schedule_dependent :
    Reach fixedParams 2 twoGood (endSeed 0) ∧ Reach fixedParams 2 twoGood (endSeed 1) ∧
    terminal (endSeed 0) = true ∧ terminal (endSeed 1) = true ∧ (endSeed 0).acc = (endSeed 1).acc :=
  ⟨reach_of_runLabels [.send 0, .send 1, .parse 0, .parse 1, .deliver 0, .deliver 1, .walkerFinish, .workerExit 0,
      .workerExit 1, .mergerFinish] Reach.init (by decide),
   reach_of_runLabels [.send 0, .send 1, .parse 1, .parse 0, .deliver 0, .deliver 1, .walkerFinish, .workerExit 0,
      .workerExit 1, .mergerFinish] Reach.init (by decide),
   by decide, by decide, rfl⟩

/-! ## the tree the facts were extracted from -/

/-- **pipeline_params_from_source**: the parameter values as functions of the generated facts evaluate to: both
sends cancellable by the errgroup context, walk continues after a sub-directory; and the two receive `select`s have
their `Done()` case (so the model's `workerExit` and `mergerFinish` steps exist) -/
theorem pipeline_params_from_source :
    sourceParams = paramsOf pipeSends mergeDirUsesGroupCtx ∧ sourceBeh = subdirBehOf walkSubdir ∧
    sourceParams = fixedParams ∧ sourceBeh = .continue ∧ receiveSelectsOk pipeSelects = true := by
  decide

/-- `walk_complete` applies to the source -/
theorem source_walk_complete (dir : String) (items : List Node) :
    walkItems true sourceBeh dir items = allFiles dir items ∧ walkItems false sourceBeh dir items = topFiles dir items := by
  rw [pipeline_params_from_source.2.2.2.1]
  exact ⟨(walk_complete dir items).1, (walk_complete dir items).2.2 _⟩

/-- `pipeline_no_deadlock` applies to the source, unconditionally -/
theorem source_no_deadlock {n : Nat} {paths : List PFile} {s : St} (hn : 1 ≤ n) (h : Reach sourceParams n paths s)
    (hnt : terminal s = false) : ∃ l t, Step sourceParams s l t := by
  have hp := pipeline_params_from_source.2.2.1
  exact pipeline_no_deadlock hn (by rw [hp]; rfl) (by rw [hp]; rfl) (by rw [hp]; rfl) h hnt

/-- F: the functions the model was written against (update together with the model when they change) -/
theorem pipeline_functions_unchanged :
    pipeHashes.filter (fun h => ["MergeDir", "walkDir", "queueFileForMerging", "readFile"].contains h.1) =
      [("MergeDir", 8987153640830505350), ("walkDir", 15410378209412867284),
       ("queueFileForMerging", 15133382288849418941), ("readFile", 5781826654915650618)] := by decide +kernel

/-! ## non-vacuity -/

/-- a reachable, non-terminal, error-free state with a file in flight and one merged (two workers, three paths:
good, skipped, good) — the hypotheses of `pipeline_invariant` / `pipeline_no_deadlock_if_all_parse` are satisfiable -/
example : ∃ s, Reach oldParams 2 [⟨0, true, true⟩, ⟨1, false, true⟩, ⟨2, true, true⟩] s ∧ terminal s = false ∧
    s.err = false ∧ s.acc = [0] ∧ W.holding 2 ∈ s.workers ∧ s.seed = some 0 :=
  ⟨_, reach_of_runLabels [.send 0, .send 1, .parse 0, .parse 1, .deliver 0, .send 1, .parse 1] Reach.init rfl,
    by decide, by decide, by decide, by decide, by decide⟩

/-- a finished error-free run (hypotheses of `pipeline_delivers`) and a finished run with an error under the fixed
parameters (hypotheses of `pipeline_error_iff`, right-hand side true): the run that was stuck before now ends -/
example : (∃ s, Reach fixedParams 2 twoGood s ∧ terminal s = true ∧ s.err = false) ∧
    (∃ s, Reach fixedParams 1 badGood s ∧ terminal s = true ∧ result s = none) :=
  ⟨⟨_, seed_schedule_dependent.1, by decide, by decide⟩,
   ⟨_, reach_of_runLabels [.send 0, .parse 0, .walkerAbort 0, .walkerFinish, .mergerFinish] Reach.init rfl, by decide, by decide⟩⟩

end Ach.Props.C10
