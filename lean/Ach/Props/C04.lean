import Ach.Proofs.Tamper
import Ach.Props.C03
import Ach.Props.Dispatch
/-!
# C04 — tampered or truncated files are never accepted as something else

Single-digit tampering, by field class (the protected fields of the property):

* routing number / check digit — `routing_digit_flip_detected`, `check_digit_flip_detected`: the 3-7-1 weights are units
  modulo 10, so changing any one of the eight routing digits, or the check digit, breaks the equality the entry
  validator tests; for *every* digit position and replacement (algebra, not enumeration);
* every numeric field is fixed-width decimal — `digit_flip_changes_number`: a changed digit is a changed number;
* amounts — `tamper_amount_rejected`: a changed amount changes the batch total that the (unchanged) control is compared with;
* batch control and header fields — `tamper_batch_control_rejected`, `tamper_batch_header_rejected`;
* file control fields — `tamper_file_control_rejected`;
* IAT batches — `tamper_iat_amount_rejected`, `tamper_iat_batch_control_rejected`, `tamper_iat_batch_header_rejected`
  (the Reader validates an IAT batch with `IATBatch.verify` at its control record).

All on the validation model of C03 (`batchValidate {}`, `fileValidate {}`), which is what the Reader runs for every
batch at its control record and `File.Validate` runs for the file control.  The step from "column changed in the text"
to "field value changed" is the layout theorem of C01 (each protected field is a `num`/`raw` span) together with
`digit_flip_changes_number`.

Truncation (`no proper prefix of the text is accepted as a different file`), on the Reader's dispatcher model
(`Ach.ReaderSM`, facts and correspondence in `Ach.Props.Dispatch`), by where the cut falls in a written file
`header, batches…, file control, 9-filler…`:

* before the file control record, at a record boundary or inside a record — `truncated_before_control_rejected`:
  what is left holds no file control record (a cut record keeps its first column), so `Read` reports `ErrFileControl`;
* inside the file control record — `truncated_inside_control`: the Reader returns the same tree with the cut record as
  its control, and then either the record or the file fails validation or every integrity field still has its value —
  `truncated_control_rejected_or_same`; a cut at or before the end of the entry/addenda count (columns 14-21,
  `file_control_columns`) always changes that count, which is positive in a valid file — `truncated_count_differs`;
* after the file control — `truncated_in_filler_same_or_rejected`: filler records are not part of the file; a filler cut
  after its first column reads as a second file control and is refused.

The oracle additionally enumerates every truncation offset of every sampled file against the real Reader.
-/
namespace Ach.Props.C04
open Ach Ach.Gen

/-- a changed routing digit changes the computed check digit (any of the 8 positions, any replacement digit) -/
theorem routing_digit_flip_detected (d0 d1 d2 d3 d4 d5 d6 d7 x : Nat) (hx : x ≤ 9)
    (h0 : d0 ≤ 9) (h1 : d1 ≤ 9) (h2 : d2 ≤ 9) (h3 : d3 ≤ 9) (h4 : d4 ≤ 9) (h5 : d5 ≤ 9) (h6 : d6 ≤ 9) (h7 : d7 ≤ 9) :
    let cd := fun l => roundUp10 (weightedSum l) - weightedSum l
    (x ≠ d0 → cd [x, d1, d2, d3, d4, d5, d6, d7] ≠ cd [d0, d1, d2, d3, d4, d5, d6, d7]) ∧
    (x ≠ d1 → cd [d0, x, d2, d3, d4, d5, d6, d7] ≠ cd [d0, d1, d2, d3, d4, d5, d6, d7]) ∧
    (x ≠ d2 → cd [d0, d1, x, d3, d4, d5, d6, d7] ≠ cd [d0, d1, d2, d3, d4, d5, d6, d7]) ∧
    (x ≠ d3 → cd [d0, d1, d2, x, d4, d5, d6, d7] ≠ cd [d0, d1, d2, d3, d4, d5, d6, d7]) ∧
    (x ≠ d4 → cd [d0, d1, d2, d3, x, d5, d6, d7] ≠ cd [d0, d1, d2, d3, d4, d5, d6, d7]) ∧
    (x ≠ d5 → cd [d0, d1, d2, d3, d4, x, d6, d7] ≠ cd [d0, d1, d2, d3, d4, d5, d6, d7]) ∧
    (x ≠ d6 → cd [d0, d1, d2, d3, d4, d5, x, d7] ≠ cd [d0, d1, d2, d3, d4, d5, d6, d7]) ∧
    (x ≠ d7 → cd [d0, d1, d2, d3, d4, d5, d6, x] ≠ cd [d0, d1, d2, d3, d4, d5, d6, d7]) := by
  intro cd
  obtain ⟨a0, a1, a2, a3, a4, a5, a6, a7⟩ := weightedSum_flip d0 d1 d2 d3 d4 d5 d6 d7 x hx h0 h1 h2 h3 h4 h5 h6 h7
  exact ⟨fun h => checkDigit_of_sum_ne _ _ (a0 h), fun h => checkDigit_of_sum_ne _ _ (a1 h), fun h => checkDigit_of_sum_ne _ _ (a2 h),
    fun h => checkDigit_of_sum_ne _ _ (a3 h), fun h => checkDigit_of_sum_ne _ _ (a4 h), fun h => checkDigit_of_sum_ne _ _ (a5 h),
    fun h => checkDigit_of_sum_ne _ _ (a6 h), fun h => checkDigit_of_sum_ne _ _ (a7 h)⟩

/-- a changed check digit no longer equals the computed one -/
theorem check_digit_flip_detected (n d d' : Nat) (hd : d ≤ 9) (hd' : d' ≤ 9) (hne : d ≠ d')
    (h : roundUp10 n - n = d) : roundUp10 n - n ≠ d' := stored_checkDigit_flip n d d' hd hd' hne h

/-- a fixed-width decimal field with one digit changed denotes a different number -/
theorem digit_flip_changes_number (pre post : Str) (a b : Char) (hne : digitVal a ≠ digitVal b) :
    digitsVal (pre ++ a :: post) ≠ digitsVal (pre ++ b :: post) := Ach.digit_flip_changes_number pre post a b hne

private theorem bne_of_ne {a b : Bool} (h : a = true) (h' : b ≠ true) : a ≠ b := by
  intro e; rw [e] at h; exact h' h

/-- **tamper_amount_rejected**: in an accepted batch, changing the amount of any entry whose code is tallied
(every standard code is) makes the batch rejected — the control still holds the old total -/
theorem tamper_amount_rejected (b : VBatch) (pre post : List VEntry) (e : VEntry) (a' : Int)
    (hb : b.entries = pre ++ e :: post) (hacc : batchValidate {} b = true) (hne : a' ≠ e.amount)
    (hcls : creditCodes.contains e.code = true ∨ debitCodes.contains e.code = true) :
    batchValidate {} { b with entries := pre ++ { e with amount := a' } :: post } = false := by
  obtain ⟨_, _, hd, hc, _⟩ := C03.validate_sound_batch b hacc
  cases hv : batchValidate {} { b with entries := pre ++ { e with amount := a' } :: post } with
  | false => rfl
  | true =>
    obtain ⟨_, _, hd', hc', _⟩ := C03.validate_sound_batch _ hv
    simp only at hd' hc'
    rw [hb] at hd hc
    rcases hcls with h | h
    · have := sumBy_set_ne (fun x : VEntry => if creditCodes.contains x.code then x.amount else 0) pre post
        { e with amount := a' } e (by
          have hm : e.code ∈ creditCodes := by simpa using h
          simp only [List.contains_eq_mem, hm, decide_true, if_true]; exact hne)
      exact absurd (hc'.trans hc.symm) this
    · have := sumBy_set_ne (fun x : VEntry => if debitCodes.contains x.code then x.amount else 0) pre post
        { e with amount := a' } e (by
          have hm : e.code ∈ debitCodes := by simpa using h
          simp only [List.contains_eq_mem, hm, decide_true, if_true]; exact hne)
      exact absurd (hd'.trans hd.symm) this

/-- **tamper_batch_control_rejected**: in an accepted batch, changing the control's service class, count, hash,
totals, ODFI or batch number (everything else unchanged) makes the batch rejected -/
theorem tamper_batch_control_rejected (b : VBatch) (c' : VControl) (hacc : batchValidate {} b = true)
    (hne : c'.serviceClass ≠ b.control.serviceClass ∨ c'.entryAddendaCount ≠ b.control.entryAddendaCount ∨
      c'.entryHash ≠ b.control.entryHash ∨ c'.totalDebit ≠ b.control.totalDebit ∨ c'.totalCredit ≠ b.control.totalCredit ∨
      c'.odfi ≠ b.control.odfi ∨ c'.batchNumber ≠ b.control.batchNumber) :
    batchValidate {} { b with control := c' } = false := by
  obtain ⟨h1, h2, h3, h4, h5, h6, h7, _⟩ := C03.validate_sound_batch b hacc
  cases hv : batchValidate {} { b with control := c' } with
  | false => rfl
  | true =>
    obtain ⟨g1, g2, g3, g4, g5, g6, g7, _⟩ := C03.validate_sound_batch _ hv
    simp only at g1 g2 g3 g4 g5 g6 g7
    rcases hne with h | h | h | h | h | h | h
    · exact absurd (g5.symm.trans h5) h
    · exact absurd (g1.symm.trans h1) h
    · exact absurd (g2.symm.trans h2) h
    · exact absurd (g3.symm.trans h3) h
    · exact absurd (g4.symm.trans h4) h
    · exact absurd (g6.symm.trans h6) h
    · exact absurd (g7.symm.trans h7) h

/-- **tamper_batch_header_rejected**: changing the header's ODFI or batch number is detected through the control -/
theorem tamper_batch_header_rejected (b : VBatch) (h' : VHeader) (hacc : batchValidate {} b = true)
    (hne : h'.odfi ≠ b.header.odfi ∨ h'.batchNumber ≠ b.header.batchNumber) :
    batchValidate {} { b with header := h' } = false := by
  obtain ⟨_, _, _, _, _, h6, h7, _⟩ := C03.validate_sound_batch b hacc
  cases hv : batchValidate {} { b with header := h' } with
  | false => rfl
  | true =>
    obtain ⟨_, _, _, _, _, g6, g7, _⟩ := C03.validate_sound_batch _ hv
    simp only at g6 g7
    rcases hne with h | h
    · exact absurd (g6.trans h6.symm) h
    · exact absurd (g7.trans h7.symm) h

/-! ### the same for IAT batches (`iatBatchValidate`, what the Reader runs at an IAT batch's control record) -/

theorem tamper_iat_amount_rejected (b : VBatch) (pre post : List VEntry) (e : VEntry) (a' : Int)
    (hb : b.entries = pre ++ e :: post) (hacc : iatBatchValidate {} b = true) (hne : a' ≠ e.amount)
    (hcls : iatCreditCodes.contains e.code = true ∨ iatDebitCodes.contains e.code = true) :
    iatBatchValidate {} { b with entries := pre ++ { e with amount := a' } :: post } = false := by
  obtain ⟨_, _, hd, hc, _⟩ := C03.validate_sound_iat_batch b hacc
  cases hv : iatBatchValidate {} { b with entries := pre ++ { e with amount := a' } :: post } with
  | false => rfl
  | true =>
    obtain ⟨_, _, hd', hc', _⟩ := C03.validate_sound_iat_batch _ hv
    simp only at hd' hc'
    rw [hb] at hd hc
    unfold iatDebitTotal at hd hd'
    unfold iatCreditTotal at hc hc'
    rcases hcls with h | h
    · have := sumBy_set_ne (fun x : VEntry => if iatCreditCodes.contains x.code then x.amount else 0) pre post
        { e with amount := a' } e (by
          have hm : e.code ∈ iatCreditCodes := by simpa using h
          simp only [List.contains_eq_mem, hm, decide_true, if_true]; exact hne)
      exact absurd (hc'.trans hc.symm) this
    · have := sumBy_set_ne (fun x : VEntry => if iatDebitCodes.contains x.code then x.amount else 0) pre post
        { e with amount := a' } e (by
          have hm : e.code ∈ iatDebitCodes := by simpa using h
          simp only [List.contains_eq_mem, hm, decide_true, if_true]; exact hne)
      exact absurd (hd'.trans hd.symm) this

theorem tamper_iat_batch_control_rejected (b : VBatch) (c' : VControl) (hacc : iatBatchValidate {} b = true)
    (hne : c'.serviceClass ≠ b.control.serviceClass ∨ c'.entryAddendaCount ≠ b.control.entryAddendaCount ∨
      c'.entryHash ≠ b.control.entryHash ∨ c'.totalDebit ≠ b.control.totalDebit ∨ c'.totalCredit ≠ b.control.totalCredit ∨
      c'.odfi ≠ b.control.odfi ∨ c'.batchNumber ≠ b.control.batchNumber) :
    iatBatchValidate {} { b with control := c' } = false := by
  obtain ⟨h1, h2, h3, h4, h5, h6, h7, _⟩ := C03.validate_sound_iat_batch b hacc
  cases hv : iatBatchValidate {} { b with control := c' } with
  | false => rfl
  | true =>
    obtain ⟨g1, g2, g3, g4, g5, g6, g7, _⟩ := C03.validate_sound_iat_batch _ hv
    simp only at g1 g2 g3 g4 g5 g6 g7
    rcases hne with h | h | h | h | h | h | h
    · exact absurd (g5.symm.trans h5) h
    · exact absurd (g1.symm.trans h1) h
    · exact absurd (g2.symm.trans h2) h
    · exact absurd (g3.symm.trans h3) h
    · exact absurd (g4.symm.trans h4) h
    · exact absurd (g6.symm.trans h6) h
    · exact absurd (g7.symm.trans h7) h

theorem tamper_iat_batch_header_rejected (b : VBatch) (h' : VHeader) (hacc : iatBatchValidate {} b = true)
    (hne : h'.odfi ≠ b.header.odfi ∨ h'.batchNumber ≠ b.header.batchNumber) :
    iatBatchValidate {} { b with header := h' } = false := by
  obtain ⟨_, _, _, _, _, h6, h7, _⟩ := C03.validate_sound_iat_batch b hacc
  cases hv : iatBatchValidate {} { b with header := h' } with
  | false => rfl
  | true =>
    obtain ⟨_, _, _, _, _, g6, g7, _⟩ := C03.validate_sound_iat_batch _ hv
    simp only at g6 g7
    rcases hne with h | h
    · exact absurd (g6.trans h6.symm) h
    · exact absurd (g7.trans h7.symm) h

/-- **tamper_file_control_rejected**: changing the file control's batch count, entry/addenda count, hash or totals -/
theorem tamper_file_control_rejected (f : VFile) (c' : VFileControl) (hacc : fileValidate {} f = true)
    (hne : c'.batchCount ≠ f.control.batchCount ∨ c'.entryAddendaCount ≠ f.control.entryAddendaCount ∨
      c'.entryHash ≠ f.control.entryHash ∨ c'.totalDebit ≠ f.control.totalDebit ∨ c'.totalCredit ≠ f.control.totalCredit) :
    fileValidate {} { f with control := c' } = false := by
  obtain ⟨h1, h2, h3, h4, h5, _⟩ := C03.validate_sound_file_partial f hacc
  cases hv : fileValidate {} { f with control := c' } with
  | false => rfl
  | true =>
    obtain ⟨g1, g2, g3, g4, g5, _⟩ := C03.validate_sound_file_partial _ hv
    simp only [allControls] at g1 g2 g3 g4 g5 h1 h2 h3 h4 h5
    rcases hne with h | h | h | h | h
    · exact absurd (g1.trans h1.symm) h
    · exact absurd (g2.trans h2.symm) h
    · exact absurd (g5.trans h5.symm) h
    · exact absurd (g3.trans h3.symm) h
    · exact absurd (g4.trans h4.symm) h

/-! ## truncation -/

open Ach.ReaderSM in
/-- **a transfer cut short before the file control record** is rejected: the records before the cut are a prefix of
what the Writer emitted ahead of the control (however they validate); `tail` is the remainder of a record the cut fell
into, if any — it keeps its first column, so it is not a file control record -/
theorem truncated_before_control_rejected (t : Tree) (ht : WFTree t) (j : Nat) (vs : List Bits) (tail : List (Rec × Bits))
    (htail : ∀ r ∈ tail, r.1.isFC = false) :
    (read (((body t).take j).zip vs ++ tail)).errs ≠ [] := by
  intro h
  have := Dispatch.read_truncated_body t ht j vs tail htail
  rw [h] at this
  simp at this

open Ach.ReaderSM in
/-- **cut inside the file control record**: same tree, the cut record as control; accepted by the Reader only if that
record validates (`vc`) -/
theorem truncated_inside_control (t : Tree) (ht : WFTree t) (id : Nat) (vc : Bits) :
    read (allOK (body t) ++ [(.fc id, vc)]) = expected { t with control := .fc id } vc :=
  Dispatch.read_truncated_control t ht id vc

/-- …and then validation either refuses the file or the control's integrity fields are all what they were -/
theorem truncated_control_rejected_or_same (f : VFile) (c' : VFileControl) (hacc : fileValidate {} f = true) :
    fileValidate {} { f with control := c' } = false ∨
    (c'.batchCount = f.control.batchCount ∧ c'.entryAddendaCount = f.control.entryAddendaCount ∧
      c'.entryHash = f.control.entryHash ∧ c'.totalDebit = f.control.totalDebit ∧ c'.totalCredit = f.control.totalCredit) := by
  by_cases h1 : c'.batchCount = f.control.batchCount
  · by_cases h2 : c'.entryAddendaCount = f.control.entryAddendaCount
    · by_cases h3 : c'.entryHash = f.control.entryHash
      · by_cases h4 : c'.totalDebit = f.control.totalDebit
        · by_cases h5 : c'.totalCredit = f.control.totalCredit
          · exact Or.inr ⟨h1, h2, h3, h4, h5⟩
          · exact Or.inl (tamper_file_control_rejected f c' hacc (Or.inr (Or.inr (Or.inr (Or.inr h5)))))
        · exact Or.inl (tamper_file_control_rejected f c' hacc (Or.inr (Or.inr (Or.inr (Or.inl h4)))))
      · exact Or.inl (tamper_file_control_rejected f c' hacc (Or.inr (Or.inr (Or.inl h3))))
    · exact Or.inl (tamper_file_control_rejected f c' hacc (Or.inr (Or.inl h2)))
  · exact Or.inl (tamper_file_control_rejected f c' hacc (Or.inl h1))

/-- a zero-padded decimal field cut after `j` of its columns (the Reader pads with blanks) parses to a different
number whenever the field's value is positive — the entry/addenda count of a file with at least one entry is -/
theorem truncated_count_differs (ds : Str) (j : Nat) (hd : ds.all isDigit = true) (hlen : ds.length ≤ 18)
    (hj : j < ds.length) (hpos : 0 < digitsVal ds) :
    parseNumField (ds.take j ++ spaces (ds.length - j)) ≠ parseNumField ds :=
  truncated_number_differs ds j hd hlen hj hpos

/-- non-vacuity: the count `00000012` cut after 7, 3 or 0 columns reads as 1, 0, 0 -/
example : parseNumField ("0000001".toList ++ spaces 1) = 1 ∧ parseNumField ("000".toList ++ spaces 5) = 0 ∧
    parseNumField (spaces 8) = 0 ∧ parseNumField "00000012".toList = 12 := by decide

/-- F: the columns of the file control record: everything after column 55 is the reserved blank field, the
entry/addenda count ends at column 21 -/
theorem file_control_columns :
    (parse_FileControl.spans.map fun s => (s.field, s.lo, s.hi)) =
      [("", 0, 1), ("BatchCount", 1, 7), ("BlockCount", 7, 13), ("EntryAddendaCount", 13, 21), ("EntryHash", 21, 31),
       ("TotalDebitEntryDollarAmountInFile", 31, 43), ("TotalCreditEntryDollarAmountInFile", 43, 55), ("", 55, 94)] := by decide +kernel

open Ach.ReaderSM in
/-- **cut inside the blocking filler**: with any number of whole filler records the file reads as itself
(`Dispatch.read_emit`); a last filler cut after its first column is a second file control record and is refused -/
theorem truncated_in_filler_same_or_rejected (t : Tree) (ht : WFTree t) (vc : Bits) (fill : List Bits) :
    read (emitted t vc fill) = expected t vc ∧
    ∀ i v, (read (emitted t vc fill ++ [(.fc i, v)])).errs ≠ [] :=
  ⟨Dispatch.read_emit t ht vc fill, fun i v => Dispatch.read_truncated_filler t ht vc fill i v⟩

end Ach.Props.C04
