import Ach.Props.C03IATCode
import Ach.Props.C03ModelAccept
import Ach.Props.C03IATSample
/-!
# What the code accepts of IAT batches, the hand-written model accepts (C03)

The IAT analogue of `Ach.Props.C03ModelAccept`: if `IATBatch.verify()` as translated from the source on this run returns nil
under the default options for a non-empty IAT batch of any size, then the hand model's `iatBatchValidate {}` holds of the
model batch read off the same fields — so `validate_sound_iat_batch` and the IAT tamper theorems speak about the IAT
batches the code accepts.
-/
namespace Ach.Props.C03IATModelAccept
open Ach Ach.GoLite Ach.Gen Ach.Props.C03IATCode Ach.Props.ModelBridge Ach.Props.C03ModelAccept

def entryOf {c : Ctx} (B : IATStd c) (i : Nat) : VEntry :=
  { code := B.tc i, rdfi := B.rdfi i, checkDigit := B.cd i, amount := B.am i, trace := B.tr i,
    addendaCount := ((B.recs i).sum - 1).toNat, extraOK := true }

def toModel {c : Ctx} (B : IATStd c) : VBatch :=
  { header := { serviceClass := B.hscc, companyId := [], odfi := B.hodfi, batchNumber := B.hbn },
    entries := (List.range B.n).map (entryOf B),
    control := { serviceClass := B.cscc, entryAddendaCount := B.count, entryHash := B.hash, totalDebit := B.debit,
                 totalCredit := B.credit, companyId := [], odfi := B.codfi, batchNumber := B.cbn },
    extraOK := true }

/-- the IAT copy of the code lists is the standard one (regenerated tables) -/
theorem iat_lists_are_standard : Ach.iatCreditCodes = Ach.creditCodes ∧ Ach.iatDebitCodes = Ach.debitCodes := by
  decide +kernel

theorem iatTracePrefix_model (t b : Str) (h : Ach.Props.AcceptedIATTraces.iatTracePrefix t = .str b) :
    (stringField t 15).take 8 = b := by
  unfold Ach.Props.AcceptedIATTraces.iatTracePrefix sliceAscii at h
  split at h
  · simpa using h
  · cases h

/-- **what the code accepts of IAT batches, the model accepts** -/
theorem iat_code_accept_implies_model_accept (c : Ctx) (B : IATStd c) (hdef : Ach.Props.C03Code.defaultOpts c)
    (hn : 0 < B.n) (hrec : ∀ i, i < B.n → 1 ≤ (B.recs i).sum)
    (ha : run c v_IATBatch_verify = .accept) :
    iatBatchValidate {} (toModel B) = true := by
  obtain ⟨k1, k2, k3, k4, a1, a2, a3, e1, e3, e4⟩ := c03_iat_batch c B hdef ha
  obtain ⟨lc, ld⟩ := iat_lists_are_standard
  have hmem : ∀ e ∈ (toModel B).entries, ∃ i, i < B.n ∧ e = entryOf B i := by
    intro e he
    simp only [toModel, List.mem_map, List.mem_range] at he
    obtain ⟨i, hi, rfl⟩ := he
    exact ⟨i, hi, rfl⟩
  simp only [iatBatchValidate, Bool.and_eq_true, Bool.or_eq_true, decide_eq_true_eq, Bool.false_eq_true, false_or,
    List.all_eq_true, Bool.not_eq_true']
  refine ⟨⟨⟨⟨⟨⟨⟨⟨⟨⟨⟨?_, rfl⟩, ?_⟩, a1⟩, a2⟩, a3⟩, ?_⟩, ?_⟩, ?_⟩, ?_⟩, ?_⟩, ?_⟩
  · have : (toModel B).entries.length = B.n := by simp [toModel]
    cases hl : (toModel B).entries with
    | nil => rw [hl] at this; simp at this; omega
    | cons _ _ => rfl
  · intro e he
    obtain ⟨i, hi, rfl⟩ := hmem e he
    have hcd := e1 i hi
    simp only [iatEntryOK, entryOf, Bool.and_eq_true, decide_eq_true_eq, hcd]
    exact ⟨trivial, trivial⟩
  · unfold entryCount
    rw [sumBy_eq_sum]
    simp only [toModel, List.map_map]
    rw [k1]
    apply map_sum_congr
    intro i hi
    have := hrec i (List.mem_range.mp hi)
    simp only [Function.comp, entryOf]
    omega
  · simp only [toModel]
    exact ascending_model B.tr (entryOf B) (fun _ => rfl) (List.range B.n) ['-', '1'] e4
  · unfold iatDebitTotal
    rw [sumBy_eq_sum, ld]
    simp only [toModel, List.map_map]
    rw [k4]
    apply map_sum_congr
    intro i _
    simp only [Function.comp, entryOf]
    rw [debitPart_model]
    simp
  · unfold iatCreditTotal
    rw [sumBy_eq_sum, lc]
    simp only [toModel, List.map_map]
    rw [k3]
    apply map_sum_congr
    intro i _
    simp only [Function.comp, entryOf]
    rw [creditPart_model]
    simp
  · unfold batchHash
    rw [sumBy_eq_sum]
    simp only [toModel, List.map_map]
    rw [k2]
    congr 1
    apply map_sum_congr
    intro i _
    simp only [Function.comp]
    exact (rdfiNumber_eq (entryOf B i)).symm
  · unfold iatTracePrefixOK
    simp only [List.all_eq_true, decide_eq_true_eq]
    intro e he
    obtain ⟨i, hi, rfl⟩ := hmem e he
    exact iatTracePrefix_model (B.tr i) _ (e3 i hi)

/-- hence the consequences `validate_sound_iat_batch` draws hold of the IAT batch the code accepted -/
theorem iat_model_theorems_apply_to_the_code (c : Ctx) (B : IATStd c) (hdef : Ach.Props.C03Code.defaultOpts c)
    (hn : 0 < B.n) (hrec : ∀ i, i < B.n → 1 ≤ (B.recs i).sum) (ha : run c v_IATBatch_verify = .accept) :
    iatBatchValidate {} (toModel B) = true ∧ (toModel B).entries.length = B.n := by
  exact ⟨iat_code_accept_implies_model_accept c B hdef hn hrec ha, by simp [toModel]⟩

/-- non-vacuity: the theorem applies to the sample IAT batch -/
theorem iat_sample_model_accepts :
    iatBatchValidate {} (toModel Ach.Props.C03IATSample.sampleIAT) = true :=
  iat_code_accept_implies_model_accept _ Ach.Props.C03IATSample.sampleIAT Ach.Props.C03IATSample.iat_sample_default_opts
    (by decide) (fun _ _ => by show (1 : Int) ≤ ([1, 1, 1, 1, 1, 1, 1, 1, 1, 0, 0] : List Int).sum; decide)
    Ach.Props.C03IATSample.iat_sample_verified

end Ach.Props.C03IATModelAccept
