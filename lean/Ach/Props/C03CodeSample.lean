import Ach.Props.C03Code
import Ach.Props.AcceptedSample
/-!
# Non-vacuity of `c03_standard_batch`: the sample file's batch is a `StdBatch`, and the theorem applies to it
-/
namespace Ach.Props.C03CodeSample
open Ach Ach.GoLite Ach.Gen Ach.Props.AcceptedSample Ach.Props.C03Code

def bctx : Ctx := { sampleFile with recv := "Batches[0]" }

def sampleStd : StdBatch bctx where
  hp := "Batches[0].Header"
  cp := "Batches[0].Control"
  p := "Batches[0].Entries"
  n := 1
  sec := "CCD".toList
  hH := by decide +kernel
  hC := by decide +kernel
  hE := by decide +kernel
  hsec := by decide +kernel
  hnadv := by decide +kernel
  hscc := 200
  cscc := 200
  hbn := 1
  cbn := 1
  hodfi := "10380340".toList
  codfi := "10380340".toList
  hcid := "535832157".toList
  ccid := "535832157".toList
  h1 := by decide +kernel
  h2 := by decide +kernel
  h3 := by decide +kernel
  h4 := by decide +kernel
  h5 := by decide +kernel
  h6 := by decide +kernel
  h7 := by decide +kernel
  h8 := by decide +kernel
  count := 1
  hash := 25607041
  credit := 0
  debit := 696796
  k1 := by decide +kernel
  k2 := by decide +kernel
  k3 := by decide +kernel
  k4 := by decide +kernel
  rdfi := fun _ => "25607041".toList
  cd := fun _ => "5".toList
  tr := fun _ => "103803400000001".toList
  tc := fun _ => 47
  am := fun _ => 696796
  cnt := fun _ => 0
  e1 := by decide +kernel
  e2 := by decide +kernel
  e3 := by decide +kernel
  e4 := by decide +kernel
  e5 := by decide +kernel
  e6 := by decide +kernel
  ascii := by decide +kernel

theorem sample_default_opts : defaultOpts bctx := by
  intro f
  simp [hasFlag, bctx, sampleFile]

/-- the hypotheses of `c03_standard_batch` are satisfiable: it applies to the sample batch, whose control figures are
indeed what its one entry determines -/
theorem sample_satisfies_c03 :
    sampleStd.count = 1 ∧ sampleStd.hash = 25607041 ∧ sampleStd.hodfi = sampleStd.codfi := by
  have h := c03_standard_batch bctx sampleStd sample_default_opts sample_batch_verified
  exact ⟨by decide, by decide, h.2.2.2.2.2.1⟩

end Ach.Props.C03CodeSample
