import Ach.Props.AcceptedFileBatches
/-!
# Non-vacuity of the accepted-file theorems: a concrete file that the translated `File.ValidateWith` accepts

The file below is one of the generator files the `filevalidate` stream compared with the real `File.ValidateWith` (one CCD
batch, no options); it is written out here once, as a witness that the hypotheses of `accepted_file_control_sums` and
`accepted_file_batches_verified` are satisfiable.  It is a test, not a theorem about all files.
-/
namespace Ach.Props.AcceptedSample
open Ach Ach.GoLite Ach.Gen

def fields0 : List (String × Val) := [
  ("ID", .str "f56b2".toList),
  ("Header", .ref "Header"),
  ("Header.ID", .str "fh1".toList),
  ("Header.priorityCode", .str "01".toList),
  ("Header.ImmediateDestination", .str "306627446".toList),
  ("Header.ImmediateOrigin", .str "317512854".toList),
  ("Header.FileCreationDate", .str "481117".toList),
  ("Header.FileCreationTime", .str "1109".toList),
  ("Header.FileIDModifier", .str "6".toList),
  ("Header.recordSize", .str "094".toList),
  ("Header.blockingFactor", .str "10".toList),
  ("Header.formatCode", .str "1".toList),
  ("Header.ImmediateDestinationName", .str "Federal Reserve Bank".toList),
  ("Header.ImmediateOriginName", .str "".toList),
  ("Header.ReferenceCode", .str "".toList),
  ("Header.LineNumber", .int 0),
  ("Batches", .lst "Batches" 1),
  ("Batches[0].$type", .str "BatchCCD".toList),
  ("Batches[0].id", .str "b1".toList),
  ("Batches[0].Header", .ref "Batches[0].Header"),
  ("Batches[0].Header.ID", .str "b1".toList),
  ("Batches[0].Header.ServiceClassCode", .int 200),
  ("Batches[0].Header.CompanyName", .str "Payee Name".toList),
  ("Batches[0].Header.CompanyDiscretionaryData", .str "".toList),
  ("Batches[0].Header.CompanyIdentification", .str "535832157".toList)
]

def fields1 : List (String × Val) := [
  ("Batches[0].Header.StandardEntryClassCode", .str "CCD".toList),
  ("Batches[0].Header.CompanyEntryDescription", .str "F8Obiu".toList),
  ("Batches[0].Header.CompanyDescriptiveDate", .str "321010".toList),
  ("Batches[0].Header.EffectiveEntryDate", .str "920612".toList),
  ("Batches[0].Header.SettlementDate", .str "".toList),
  ("Batches[0].Header.OriginatorStatusCode", .int 1),
  ("Batches[0].Header.ODFIIdentification", .str "10380340".toList),
  ("Batches[0].Header.BatchNumber", .int 1),
  ("Batches[0].Header.LineNumber", .int 0),
  ("Batches[0].Entries", .lst "Batches[0].Entries" 1),
  ("Batches[0].Entries[0].ID", .str "b1e1".toList),
  ("Batches[0].Entries[0].TransactionCode", .int 47),
  ("Batches[0].Entries[0].RDFIIdentification", .str "25607041".toList),
  ("Batches[0].Entries[0].CheckDigit", .str "5".toList),
  ("Batches[0].Entries[0].DFIAccountNumber", .str "H".toList),
  ("Batches[0].Entries[0].Amount", .int 696796),
  ("Batches[0].Entries[0].IdentificationNumber", .str "VJ".toList),
  ("Batches[0].Entries[0].IndividualName", .str "Ln".toList),
  ("Batches[0].Entries[0].DiscretionaryData", .str "".toList),
  ("Batches[0].Entries[0].AddendaRecordIndicator", .int 0),
  ("Batches[0].Entries[0].TraceNumber", .str "103803400000001".toList),
  ("Batches[0].Entries[0].Addenda02", .nilp),
  ("Batches[0].Entries[0].Addenda05", .nilp),
  ("Batches[0].Entries[0].Addenda98", .nilp),
  ("Batches[0].Entries[0].Addenda98Refused", .nilp)
]

def fields2 : List (String × Val) := [
  ("Batches[0].Entries[0].Addenda99", .nilp),
  ("Batches[0].Entries[0].Addenda99Contested", .nilp),
  ("Batches[0].Entries[0].Addenda99Dishonored", .nilp),
  ("Batches[0].Entries[0].Category", .str "Forward".toList),
  ("Batches[0].Entries[0].LineNumber", .int 0),
  ("Batches[0].Control", .ref "Batches[0].Control"),
  ("Batches[0].Control.ID", .str "".toList),
  ("Batches[0].Control.ServiceClassCode", .int 200),
  ("Batches[0].Control.EntryAddendaCount", .int 1),
  ("Batches[0].Control.EntryHash", .int 25607041),
  ("Batches[0].Control.TotalDebitEntryDollarAmount", .int 696796),
  ("Batches[0].Control.TotalCreditEntryDollarAmount", .int 0),
  ("Batches[0].Control.CompanyIdentification", .str "535832157".toList),
  ("Batches[0].Control.MessageAuthenticationCode", .str "".toList),
  ("Batches[0].Control.ODFIIdentification", .str "10380340".toList),
  ("Batches[0].Control.BatchNumber", .int 1),
  ("Batches[0].Control.LineNumber", .int 0),
  ("Batches[0].ADVEntries", .nilp),
  ("Batches[0].ADVControl", .nilp),
  ("Batches[0].category", .str "Forward".toList),
  ("IATBatches", .nilp),
  ("Control", .ref "Control"),
  ("Control.ID", .str "f56b2".toList),
  ("Control.BatchCount", .int 1),
  ("Control.BlockCount", .int 1)
]

def fields3 : List (String × Val) := [
  ("Control.EntryAddendaCount", .int 1),
  ("Control.EntryHash", .int 25607041),
  ("Control.TotalDebitEntryDollarAmountInFile", .int 696796),
  ("Control.TotalCreditEntryDollarAmountInFile", .int 0),
  ("Control.LineNumber", .int 0),
  ("ADVControl", .ref "ADVControl"),
  ("ADVControl.ID", .str "".toList),
  ("ADVControl.BatchCount", .int 0),
  ("ADVControl.BlockCount", .int 0),
  ("ADVControl.EntryAddendaCount", .int 0),
  ("ADVControl.EntryHash", .int 0),
  ("ADVControl.TotalDebitEntryDollarAmountInFile", .int 0),
  ("ADVControl.TotalCreditEntryDollarAmountInFile", .int 0),
  ("ADVControl.LineNumber", .int 0),
  ("NotificationOfChange", .nilp),
  ("ReturnEntries", .nilp)
]

def sampleFile : Ctx where
  fields := fields0 ++ fields1 ++ fields2 ++ fields3
  recvFlags := []
  paramFlags := []
  ext := []

/-- non-vacuity: the kernel evaluates the translated `File.ValidateWith` on the sample file to `accept` -/
theorem sample_file_accepted : run sampleFile v_File_ValidateWith = .accept := by decide +kernel
theorem sample_file_not_adv : (exec v_File_IsADV sampleFile []).2 = .ret (.bool false) := by decide +kernel
theorem sample_batch_verified : run { sampleFile with recv := "Batches[0]" } v_Batch_verify = .accept := by decide +kernel




/-- the hypotheses of `accepted_file_batches_verified` hold of the sample file together: the theorem applies -/
theorem sample_meets_hypotheses : run { sampleFile with recv := "Batches[0]" } v_Batch_verify = .accept :=
  Ach.Props.AcceptedFileBatches.accepted_file_batches_verified sampleFile "Batches" 1 (by decide +kernel) (by decide +kernel)
    (by decide +kernel) (by decide +kernel) 0 (by omega) "BatchCCD" (by decide +kernel) (by decide)

end Ach.Props.AcceptedSample
