import Ach.Props.AcceptedIAT
import Ach.Props.AcceptedIATCount
import Ach.Props.AcceptedIATTraces
import Ach.Props.AcceptedIATEntries
import Ach.Props.C03Code
/-!
# C03 for IAT batches, stated once, on the validation code translated from the source on this run

The IAT analogue of `Ach.Props.C03Code`: `IATStd c` describes an IAT batch stored in a context, `c03_iat_batch` is the
property's batch-level statement for it — one hypothesis, `IATBatch.verify()` returned nil under the default options, and
every arithmetic clause as a conclusion, for batches of any size.  The one clause that was missing at the level of
`verify` (trace numbers begin with the header's ODFI) is proved here first.
-/
namespace Ach.Props.C03IATCode
open Ach Ach.GoLite Ach.Gen Ach.Props.AcceptedIATTraces

/-- the statement of `IATBatch.verify` that runs `isTraceNumberODFI` (and `isAddendaSequence`) -/
def iatTraceBlock : Prog :=
  .ite (.not (.flag "recv" "CustomTraceNumbers"))
    (seqs [(.check none v_IATBatch_isTraceNumberODFI), (.check none v_IATBatch_isAddendaSequence)])
    .skip

/-- today that statement is the third from the end of `IATBatch.verify`, and every statement before it can only reject -/
theorem iat_verify_runs_trace_checks :
    (stmts v_IATBatch_verify).drop ((stmts v_IATBatch_verify).length - 3) =
      iatTraceBlock :: (stmts v_IATBatch_verify).drop ((stmts v_IATBatch_verify).length - 2) ∧
    (stmts v_IATBatch_verify).drop ((stmts v_IATBatch_verify).length - 2) ≠ [] ∧
    ((stmts v_IATBatch_verify).take ((stmts v_IATBatch_verify).length - 3)).all (fun q => rejectOnly q && noAssign q) = true ∧
    rejectOnly iatTraceBlock = true := by
  decide +kernel

theorem iatTraceBlock_passes (c : Ctx) (pre : Locals) (hflag : hasFlag c "recv" "CustomTraceNumbers" = false)
    (h : (exec iatTraceBlock c pre).2 = .next) : (exec v_IATBatch_isTraceNumberODFI c []).2 = .ret (.err none) := by
  simp only [iatTraceBlock, seqs, exec, eval, hflag] at h
  generalize (exec v_IATBatch_isTraceNumberODFI c []).2 = s at h ⊢
  cases s with
  | ret v =>
      cases v with
      | err t =>
          cases t with
          | none => rfl
          | some t => simp [checkResult] at h
      | _ => simp [checkResult] at h
  | _ => simp [checkResult] at h

/-- C03, IAT, trace numbers begin with the ODFI — for every IAT batch value of any size: if `IATBatch.verify()` (translated
from the source on this run) returns nil and neither `CustomTraceNumbers` nor `BypassOriginValidation` is on, the first
eight columns of every entry's trace number field are the header's ODFI identification -/
theorem accepted_iat_batch_traces_begin_with_odfi (c : Ctx) (hp p : String) (n : Nat) (tr : Nat → Str) (odfi : Str)
    (hf1 : hasFlag c "recv" "CustomTraceNumbers" = false)
    (hf2 : hasFlag c "recv" "BypassOriginValidation" = false)
    (hH : lookup c.fields (joinPath c.recv "Header") = .ref hp)
    (ho : lookup c.fields (joinPath hp "ODFIIdentification") = .str odfi)
    (hE : lookup c.fields (joinPath c.recv "Entries") = .lst p n)
    (htr : ∀ i, i < n → lookup c.fields (joinPath (elemPath p i) "TraceNumber") = .str (tr i))
    (ha : run c v_IATBatch_verify = .accept) :
    ∀ i, i < n → iatTracePrefix (tr i) = .str (stringField odfi 8) := by
  have hres := Ach.Props.Validators.accept_ret c _ ha
  obtain ⟨hd, hne, hall, hro⟩ := iat_verify_runs_trace_checks
  have hs : stmts v_IATBatch_verify = (stmts v_IATBatch_verify).take ((stmts v_IATBatch_verify).length - 3) ++
      (stmts v_IATBatch_verify).drop ((stmts v_IATBatch_verify).length - 3) := (List.take_append_drop _ _).symm
  obtain ⟨pre, hpre⟩ := accept_reaches c _ _ _ hs (by rw [hd]; simp) hall hres
  rw [hd, seqs_cons_ne _ _ hne] at hpre
  have hpass := Ach.Props.Accepted.accept_seq_left hro hpre
  exact iat_isTraceNumberODFI_accepts c hp p n tr odfi hf2 hH ho hE htr (iatTraceBlock_passes c pre hf1 hpass)

/-- an IAT batch stored in a context: where its header, control and entries are, and what the fields the property speaks
about hold -/
structure IATStd (c : Ctx) where
  hp : String
  cp : String
  p : String
  n : Nat
  hH : lookup c.fields (joinPath c.recv "Header") = .ref hp
  hC : lookup c.fields (joinPath c.recv "Control") = .ref cp
  hE : lookup c.fields (joinPath c.recv "Entries") = .lst p n
  -- header / control fields
  hscc : Int
  cscc : Int
  hbn : Int
  cbn : Int
  hodfi : Str
  codfi : Str
  h1 : lookup c.fields (joinPath hp "ServiceClassCode") = .int hscc
  h2 : lookup c.fields (joinPath cp "ServiceClassCode") = .int cscc
  h5 : lookup c.fields (joinPath hp "ODFIIdentification") = .str hodfi
  h6 : lookup c.fields (joinPath cp "ODFIIdentification") = .str codfi
  h7 : lookup c.fields (joinPath hp "BatchNumber") = .int hbn
  h8 : lookup c.fields (joinPath cp "BatchNumber") = .int cbn
  -- control figures
  count : Int
  hash : Int
  credit : Int
  debit : Int
  k1 : lookup c.fields (joinPath cp "EntryAddendaCount") = .int count
  k2 : lookup c.fields (joinPath cp "EntryHash") = .int hash
  k3 : lookup c.fields (joinPath cp "TotalCreditEntryDollarAmount") = .int credit
  k4 : lookup c.fields (joinPath cp "TotalDebitEntryDollarAmount") = .int debit
  -- entries
  rdfi : Nat → Str
  cd : Nat → Str
  tr : Nat → Str
  tc : Nat → Int
  am : Nat → Int
  /-- the records each entry stands for: itself, one per addenda pointer that is set, the lengths of Addenda17/18 -/
  recs : Nat → List Int
  e1 : ∀ i, i < n → lookup c.fields (joinPath (elemPath p i) "RDFIIdentification") = .str (rdfi i)
  e2 : ∀ i, i < n → lookup c.fields (joinPath (elemPath p i) "CheckDigit") = .str (cd i)
  e3 : ∀ i, i < n → lookup c.fields (joinPath (elemPath p i) "TraceNumber") = .str (tr i)
  e4 : ∀ i, i < n → lookup c.fields (joinPath (elemPath p i) "TransactionCode") = .int (tc i)
  e5 : ∀ i, i < n → lookup c.fields (joinPath (elemPath p i) "Amount") = .int (am i)
  e6 : ∀ i, i < n → Ach.Props.AcceptedIATCount.iatItems.map (Ach.Props.AcceptedIATCount.itemVal c (elemPath p i)) = (recs i).map some
  ascii : ∀ i, i < n → allAscii (rdfi i) = true

/-- C03, IAT batches, on the translated code: an accepted IAT batch (any size, default options) satisfies the control
arithmetic — count, hash, totals; header/control agreement; every entry's check digit; trace numbers that begin with the
header's ODFI and strictly ascend (from "-1", as `IATBatch.isSequenceAscending` starts) -/
theorem c03_iat_batch (c : Ctx) (B : IATStd c) (hdef : Ach.Props.C03Code.defaultOpts c)
    (ha : run c v_IATBatch_verify = .accept) :
    B.count = ((List.range B.n).map (fun i => (B.recs i).sum)).sum ∧
    B.hash = leastSignificantDigits (((List.range B.n).map (fun i => Ach.Props.AcceptedHash.rdfiNumber (B.rdfi i))).sum) 10 ∧
    B.credit = ((List.range B.n).map (fun i => Ach.Props.AcceptedAmounts.creditPart (B.tc i) (B.am i))).sum ∧
    B.debit = ((List.range B.n).map (fun i => Ach.Props.AcceptedAmounts.debitPart (B.tc i) (B.am i))).sum ∧
    B.hscc = B.cscc ∧ B.hodfi = B.codfi ∧ B.hbn = B.cbn ∧
    (∀ i, i < B.n → atoi (B.cd i) = some (calculateCheckDigit (stringField (B.rdfi i) 8))) ∧
    (∀ i, i < B.n → iatTracePrefix (B.tr i) = .str (stringField B.hodfi 8)) ∧
    Ach.Props.AcceptedAscending.ascending B.tr ['-', '1'] (List.range B.n) := by
  obtain ⟨a1, a2, a3⟩ := Ach.Props.Accepted.accepted_iat_batch_header_control_agree c B.hp B.cp B.hodfi B.codfi B.hbn B.cbn
    B.hscc B.cscc B.hH B.hC B.h1 B.h2 B.h5 B.h6 B.h7 B.h8 ha
  obtain ⟨t1, t2, t3⟩ := Ach.Props.AcceptedIAT.accepted_iat_batch_totals_and_hash c B.cp B.p B.n B.tc B.am B.rdfi
    (fun i => Ach.Props.AcceptedHash.rdfiNumber (B.rdfi i)) B.credit B.debit B.hash B.hC B.k3 B.k4 B.k2 B.hE B.e4 B.e5 B.e1
    (fun i hi => Ach.Props.AcceptedHash.rdfiContribution_ascii c (B.rdfi i) (B.ascii i hi)) ha
  obtain ⟨c1, c2⟩ := Ach.Props.AcceptedIATCount.accepted_iat_batch_count_and_order c B.cp B.p B.n B.recs B.tr B.count B.hC B.k1
    B.hE B.e6 B.e3 ha
  refine ⟨c1 (hdef _), t3, t1, t2, a3 (hdef _), a1, a2, ?_, ?_, c2 (hdef _)⟩
  · exact Ach.Props.AcceptedIATEntries.accepted_iat_batch_every_check_digit c B.p B.n B.rdfi B.cd B.hE B.e1 B.e2 ha
  · exact accepted_iat_batch_traces_begin_with_odfi c B.hp B.p B.n B.tr B.hodfi (hdef _) (hdef _) B.hH B.h5 B.hE B.e3 ha

end Ach.Props.C03IATCode
