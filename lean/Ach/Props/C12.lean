import Ach.Proofs.Flatten
import Ach.Generated.Topics
/-!
# C12 — FlattenBatches consolidates batches without changing the entries

Model `Ach.Model.Flatten`: the merge loop of `Flatten` over (header signature, entries) pairs, processed in *any* order
(`sort.Slice` by entry count is unstable).

* `flatten_conserves` — the result's entries are a permutation of the input's, whatever the processing order;
* `flatten_groups_conflict` — in the result no two batches have equal header signatures unless they share a trace number;
* `flatten_idempotent` — flattening the result again (in any order) performs no merge: every batch comes out unchanged;
* `flatten_entries_ascending` — every batch of the result holds its entries in ascending trace order (`AddToFile`'s sort),
  strictly ascending when the group's trace numbers are distinct, and the sorted result still holds exactly the
  input's entries; sorting an already sorted group changes nothing;
* `flatten_sums` — hence every per-entry total (entry/addenda count, debit and credit amounts) is unchanged;
* `flatten_functions_unchanged` (F) — the functions the model mirrors have the bodies it was written against.

Not modelled: that the signature is the first 87 *bytes* of the rendered header (a multi-byte character shifts the cut —
found by the oracle, known finding), `Create` of the merged batches (C05), the sanity checks on the file control (which compare `Control`, not `ADVControl`).
-/
namespace Ach.Props.C12
open Ach.Flatten

theorem flatten_conserves (bs bs' : List FBatch) (h : bs'.Perm bs) : (allEntries (flatten bs')).Perm (allEntries bs) :=
  Ach.Flatten.flatten_conserves bs bs' h

theorem flatten_groups_conflict (bs : List FBatch) :
    (flatten bs).Pairwise (fun a b => a.sig = b.sig → shares a.entries b.entries = true) :=
  Ach.Flatten.flatten_groups_conflict bs

theorem flatten_idempotent (bs p : List FBatch) (hp : p.Perm (flatten bs)) : flatten p = p :=
  Ach.Flatten.flatten_idempotent bs p hp

theorem flatten_entries_ascending (bs : List FBatch) :
    (∀ g ∈ flattenSorted bs, g.entries.Pairwise (fun a b => a.trace ≤ b.trace)) ∧
    (∀ g ∈ flatten bs, (g.entries.map (·.trace)).Nodup → (sortByTrace g.entries).Pairwise (fun a b => a.trace < b.trace)) ∧
    (allEntries (flattenSorted bs)).Perm (allEntries bs) ∧
    (∀ g ∈ flattenSorted bs, sortByTrace g.entries = g.entries) := by
  refine ⟨?_, fun g _ h => sortByTrace_strict g.entries h, ?_, ?_⟩
  · intro g hg
    obtain ⟨g0, _, rfl⟩ := List.mem_map.1 hg
    exact sortByTrace_sorted g0.entries
  · exact (allEntries_flattenSorted bs).trans (Ach.Flatten.flatten_conserves bs bs (List.Perm.refl _))
  · intro g hg
    obtain ⟨g0, _, rfl⟩ := List.mem_map.1 hg
    exact sortByTrace_of_sorted _ (sortByTrace_sorted g0.entries)

theorem sum_map_perm {α} (f : α → Int) {a b : List α} (h : a.Perm b) : (a.map f).sum = (b.map f).sum := by
  induction h with
  | nil => rfl
  | cons x _ ih => simp [ih]
  | swap x y l => simp; omega
  | trans _ _ ih1 ih2 => exact ih1.trans ih2

/-- **flatten_sums**: every per-entry quantity (count of records, debit amount, credit amount, …) has the same total
over the flattened file as over the input, whatever the processing order -/
theorem flatten_sums (bs bs' : List FBatch) (h : bs'.Perm bs) (f : FEntry → Int) :
    ((allEntries (flattenSorted bs')).map f).sum = ((allEntries bs).map f).sum :=
  sum_map_perm f ((allEntries_flattenSorted bs').trans (Ach.Flatten.flatten_conserves bs bs' h))

theorem flatten_functions_unchanged : Ach.Gen.hashes_flatten = [("Flatten", 17433447634489127110), ("File.FlattenBatches", 1536511262116566390), ("canMerge", 10022370995848969961), ("mergeableBatcher.GetHeaderSignature", 8692522239459761802), ("mergeableBatcher.GetTraceNumbers", 5489775042599663990), ("mergeableBatcher.Consume", 16867738305919833767), ("mergeableBatcher.Copy", 17960276134899704992), ("mergeableBatcher.AddToFile", 9783587712370690963), ("mergeableIATBatch.GetHeaderSignature", 765302516057565604), ("mergeableIATBatch.Consume", 9696842403323344610), ("mergeableIATBatch.Copy", 1045880233085641850), ("mergeableIATBatch.AddToFile", 4703499552243858790)] := by decide +kernel

/-- non-vacuity: three batches, two with the same header and disjoint traces are merged, the third (colliding trace) is kept apart -/
example : flatten [⟨1, [⟨10, 0⟩]⟩, ⟨1, [⟨11, 1⟩]⟩, ⟨1, [⟨10, 2⟩]⟩] = [⟨1, [⟨10, 0⟩, ⟨11, 1⟩]⟩, ⟨1, [⟨10, 2⟩]⟩] := by decide

end Ach.Props.C12
