import Ach.Props.AcceptedHash
import Ach.Props.AddendaCount
/-!
# The entry/addenda count of an accepted batch is the number of its entry and addenda records (C03)

`Batch.isBatchEntryCount` adds `1 + entry.addendaCount()` over the entries and compares the sum with the control.  Its
translation is shown to be — today — the program below; the loop is unrolled by induction with the running count as the
invariant, and `addendaCount` is the function shown in `Ach.Props.AddendaCount` to count the entry's addenda records.
-/
namespace Ach.Props.AcceptedCount
open Ach Ach.GoLite Ach.Gen

def countBody : Prog :=
  seqs [(.subOn "_t1" (.var "entry") [] [] v_EntryDetail_addendaCount),
    (.assign "entryCount" (.add (.var "entryCount") (.add (.int 1) (.var "_t1"))))]

def countGuard (ctl : String) : Prog :=
  .ite (.ne (.var "entryCount") (.sel (.fld ctl) "EntryAddendaCount"))
    (seqs [(.ite (.flag "recv" "UnequalAddendaCounts") (.ret .nil) .skip), (.ret (.mkErr "EntryAddendaCount"))])
    .skip

def advCountLoop : Prog :=
  .forEach "entry" (.fld "ADVEntries")
    (seqs [(.assign "entryCount" (.add (.var "entryCount") (.int 1))),
      (.ite (.ne (.sel (.var "entry") "Addenda99") .nil) (.assign "entryCount" (.add (.var "entryCount") (.int 1))) .skip)])

def countProg : Prog :=
  seqs [(.bind "entryCount" (.int 0)),
    (.block (seqs [(.sub "_t2" [] [] v_Batch_IsADV),
      (.ite (.not (.var "_t2"))
        (seqs [(.forEach "entry" (.fld "Entries") countBody), countGuard "Control"])
        (seqs [advCountLoop, countGuard "ADVControl"]))])),
    (.ret .nil)]

/-- the translated `Batch.isBatchEntryCount` is that program -/
theorem isBatchEntryCount_shape : v_Batch_isBatchEntryCount = countProg := by decide +kernel

/-- the addenda count of the entry stored under path `ep`, as the code computes it -/
def addendaCountOf (c : Ctx) (ep : String) : Option Int :=
  match (exec v_EntryDetail_addendaCount { c with recv := ep } []).2 with
  | .ret (.int k) => some k
  | _ => none

theorem countBody_exec (c : Ctx) (ep : String) (k a : Int) (rest : Locals)
    (hk : addendaCountOf c ep = some k) :
    (exec countBody c (("entry", .ref ep) :: ("_t2", .bool false) :: ("entryCount", .int a) :: rest)).2 = .next ∧
    scopeExit (("_t2", Val.bool false) :: ("entryCount", Val.int a) :: rest)
      (exec countBody c (("entry", .ref ep) :: ("_t2", .bool false) :: ("entryCount", .int a) :: rest)).1 =
      ("_t2", .bool false) :: ("entryCount", .int (a + (1 + k))) :: rest := by
  unfold addendaCountOf at hk
  generalize hS : (exec v_EntryDetail_addendaCount { c with recv := ep } []).2 = S at hk
  cases S with
  | ret w =>
      cases w with
      | int k' =>
          simp at hk
          subst hk
          simp [countBody, seqs, exec, eval, lookup, hS, subResult, arith, update, scopeExit]
      | _ => simp at hk
  | _ => simp at hk

theorem count_iter (c : Ctx) (p : String) (n : Nat) (cnt : Nat → Int) (rest : Locals)
    (hc : ∀ i, i < n → addendaCountOf c (elemPath p i) = some (cnt i)) :
    ∀ is : List Nat, (∀ i ∈ is, i < n) → ∀ a : Int,
      iter (fun l' => exec countBody c l') (fun i => .ref (elemPath p i)) "entry" is
          (("_t2", .bool false) :: ("entryCount", .int a) :: rest) =
        (("_t2", .bool false) :: ("entryCount", .int (a + (is.map (fun i => 1 + cnt i)).sum)) :: rest, .next) := by
  intro is
  induction is with
  | nil => intro _ a; simp [iter]
  | cons j is ih =>
      intro hlt a
      have hj := hlt j (List.mem_cons_self ..)
      obtain ⟨h1, h2⟩ := countBody_exec c (elemPath p j) (cnt j) a rest (hc j hj)
      simp only [iter, h1, h2]
      rw [ih (fun k hk => hlt k (List.mem_cons_of_mem _ hk)) (a + (1 + cnt j))]
      simp only [List.map_cons, List.sum_cons]
      have : a + (1 + cnt j) + (List.map (fun i => 1 + cnt i) is).sum =
          a + (1 + cnt j + (List.map (fun i => 1 + cnt i) is).sum) := by omega
      rw [this]

/-- `Batch.isBatchEntryCount()` of a standard batch returns nil, with `UnequalAddendaCounts` off, only if the control's
entry/addenda count is the number of entries plus their addenda counts — for batches of any size -/
theorem isBatchEntryCount_accepts (c : Ctx) (hp cp p : String) (n : Nat) (cnt : Nat → Int) (sec : Str) (e : Int)
    (hflag : hasFlag c "recv" "UnequalAddendaCounts" = false)
    (hH : lookup c.fields (joinPath c.recv "Header") = .ref hp)
    (hsec : lookup c.fields (joinPath hp "StandardEntryClassCode") = .str sec) (hnadv : sec ≠ ['A', 'D', 'V'])
    (hC : lookup c.fields (joinPath c.recv "Control") = .ref cp)
    (he : lookup c.fields (joinPath cp "EntryAddendaCount") = .int e)
    (hE : lookup c.fields (joinPath c.recv "Entries") = .lst p n)
    (hc : ∀ i, i < n → addendaCountOf c (elemPath p i) = some (cnt i))
    (h : (exec v_Batch_isBatchEntryCount c []).2 = .ret (.err none)) :
    e = ((List.range n).map (fun i => 1 + cnt i)).sum := by
  rw [isBatchEntryCount_shape] at h
  have hadv : (exec v_Batch_IsADV c []).2 = .ret (.bool false) := by
    simp [v_Batch_IsADV, seqs, exec, eval, hH, hsec, cmpVals, lookup, hnadv]
  have hit := count_iter c p n cnt [] hc (List.range n) (fun k hk => List.mem_range.mp hk) 0
  by_cases heq : ((List.range n).map (fun i => 1 + cnt i)).sum = e
  · exact heq.symm
  · simp [countProg, countGuard, seqs, exec, eval, hE, hC, he, hadv, subResult, lookup, hit, scopeExit, cmpVals, hflag, heq] at h


/-- the code's addenda count of an entry is the number of its addenda records (`Ach.Props.AddendaCount`) -/
theorem addendaCountOf_counts (c : Ctx) (ep : String) (vals : List Nat)
    (hv : Ach.Props.AddendaCount.entryItems.map (Ach.Props.AddendaCount.itemVal { c with recv := ep }) = vals.map some) :
    addendaCountOf c ep = some ((vals.sum : Nat) : Int) := by
  unfold addendaCountOf
  rw [Ach.Props.AddendaCount.addendaCount_counts_records { c with recv := ep } vals hv]

/-- the statement of `Batch.verify` that runs `isBatchEntryCount` is the fourth, and the three before it can only reject -/
theorem verify_runs_entry_count_check :
    (stmts v_Batch_verify).drop 3 = (.check none v_Batch_isBatchEntryCount) :: (stmts v_Batch_verify).drop 4 ∧
    (stmts v_Batch_verify).drop 4 ≠ [] ∧
    ((stmts v_Batch_verify).take 3).all (fun q => rejectOnly q && noAssign q) = true := by
  decide +kernel

/-- C03, entry/addenda count — for every standard (non-ADV) batch value, of any size: if `Batch.verify()` (translated
from the source on this run) returns nil and `UnequalAddendaCounts` is off, the control's entry/addenda count is the
number of entry records plus the number of their addenda records -/
theorem accepted_batch_entry_count (c : Ctx) (hp cp p : String) (n : Nat) (cnt : Nat → Int) (sec : Str) (e : Int)
    (hflag : hasFlag c "recv" "UnequalAddendaCounts" = false)
    (hH : lookup c.fields (joinPath c.recv "Header") = .ref hp)
    (hsec : lookup c.fields (joinPath hp "StandardEntryClassCode") = .str sec) (hnadv : sec ≠ ['A', 'D', 'V'])
    (hC : lookup c.fields (joinPath c.recv "Control") = .ref cp)
    (he : lookup c.fields (joinPath cp "EntryAddendaCount") = .int e)
    (hE : lookup c.fields (joinPath c.recv "Entries") = .lst p n)
    (hc : ∀ i, i < n → addendaCountOf c (elemPath p i) = some (cnt i))
    (ha : run c v_Batch_verify = .accept) :
    e = ((List.range n).map (fun i => 1 + cnt i)).sum := by
  have hres := Ach.Props.Validators.accept_ret c _ ha
  obtain ⟨hd, hne, hall⟩ := verify_runs_entry_count_check
  have hs : stmts v_Batch_verify = (stmts v_Batch_verify).take 3 ++ (stmts v_Batch_verify).drop 3 :=
    (List.take_append_drop _ _).symm
  obtain ⟨pre, hpre⟩ := accept_reaches c _ _ _ hs (by rw [hd]; simp) hall hres
  rw [hd, seqs_cons_ne _ _ hne] at hpre
  have hpass := Ach.Props.Accepted.accept_seq_left (by decide) hpre
  exact isBatchEntryCount_accepts c hp cp p n cnt sec e hflag hH hsec hnadv hC he hE hc
    (Ach.Props.AcceptedHash.check_passes c pre none _ hpass)

end Ach.Props.AcceptedCount
