import Ach.Proofs.GoLiteQuiet
import Ach.Props.AcceptedFile
/-!
# An accepted file's control carries the sums over its batch controls (C03, `File.ValidateWith`)

`File.ValidateWith` — translated from the source on every run — is shown to have, today, this outline: the `SkipAll`
guard; the header check; then, for a file that is not an ADV file, a branch whose statements can only reject (the batch
count, the loop that validates every batch through the validator of its dynamic type, the control check) up to the
calls of `isEntryAddendaCount(false)`, `isFileAmount(false)`, the batch order check and `isEntryHash(false)`.  An
accepting run therefore passed the three helpers, and `Ach.Props.AcceptedFile` says what that means.
-/
namespace Ach.Props.AcceptedFileValidate
open Ach Ach.GoLite Ach.Gen Ach.Props.AcceptedFile

def skipGuard : Prog := .ite (.flag "param" "SkipAll") (.ret .nil) .skip

/-- the branch of `File.ValidateWith` for files that are not ADV files, read off the translated program -/
def nonAdvPart : Prog :=
  match (stmts v_File_ValidateWith)[2]? with
  | some (Prog.block (Prog.seq _ (Prog.ite _ t _))) => t
  | _ => .skip

def callCount : Prog := .checkOn none .self ["IsADV"] [(.bool false)] v_File_isEntryAddendaCount
def callAmount : Prog := .checkOn none .self ["IsADV"] [(.bool false)] v_File_isFileAmount
def callHash : Prog := .checkOn none .self ["IsADV"] [(.bool false)] v_File_isEntryHash

/-- the outline of the translated `File.ValidateWith` -/
theorem file_validate_outline :
    (stmts v_File_ValidateWith)[0]? = some skipGuard ∧
    (((stmts v_File_ValidateWith)[1]?).map (fun q => rejectOnly q && quiet q)) = some true ∧
    (stmts v_File_ValidateWith)[2]? =
      some (.block (.seq (.sub "_t1" [] [] v_File_IsADV) (.ite (.not (.var "_t1")) nonAdvPart .skip))) ∧
    (stmts v_File_ValidateWith).length > 3 ∧
    endsInRet nonAdvPart = true ∧
    (stmts nonAdvPart).drop 3 = callCount :: callAmount :: (stmts nonAdvPart).drop 5 ∧
    (stmts nonAdvPart).drop 6 = [callHash, .ret .nil] ∧
    ((stmts nonAdvPart).take 6).all (fun q => rejectOnly q && quiet q) = true := by
  decide +kernel


def hdrCheck : Prog := ((stmts v_File_ValidateWith)[1]?).getD .skip

def mainBlock : Prog := .block (.seq (.sub "_t1" [] [] v_File_IsADV) (.ite (.not (.var "_t1")) nonAdvPart .skip))

theorem file_validate_outline2 :
    stmts v_File_ValidateWith = skipGuard :: hdrCheck :: mainBlock :: (stmts v_File_ValidateWith).drop 3 ∧
    (stmts v_File_ValidateWith).drop 3 ≠ [] ∧ rejectOnly hdrCheck = true ∧ quiet hdrCheck = true ∧
    rejectOnly callCount = true ∧ quiet callCount = true ∧ rejectOnly callAmount = true ∧ rejectOnly callHash = true ∧
    (stmts nonAdvPart).drop 5 ≠ [] := by
  decide +kernel

theorem checkOn_self_passes (c : Ctx) (l : Locals) (tag : Option String) (body : Prog)
    (h : (exec (.checkOn tag .self ["IsADV"] [(.bool false)] body) c l).2 = .next) :
    (exec body c [("IsADV", .bool false)]).2 = .ret (.err none) := by
  simp only [exec, eval, List.map_cons, List.map_nil] at h
  have hc : ({ c with recv := c.recv } : Ctx) = c := rfl
  simp [hc] at h
  generalize (exec body c [("IsADV", Val.bool false)]).2 = s at h ⊢
  cases s with
  | ret v =>
      cases v with
      | err t =>
          cases t with
          | none => rfl
          | some t => simp [checkResult] at h
      | _ => simp [checkResult] at h
  | _ => simp [checkResult] at h

/-- an accepting run of `File.ValidateWith` on a file that is not an ADV file, without `SkipAll`, is an accepting run of
the branch for such files -/
theorem accepted_file_enters_nonadv (c : Ctx) (hskip : hasFlag c "param" "SkipAll" = false)
    (hnadv : (exec v_File_IsADV c []).2 = .ret (.bool false))
    (ha : run c v_File_ValidateWith = .accept) :
    ∃ L, (exec nonAdvPart c L).2 = .ret (.err none) := by
  have hres := Ach.Props.Validators.accept_ret c _ ha
  obtain ⟨hS, hR, hro1, hq1, _, _, _, _, _⟩ := file_validate_outline2
  obtain ⟨_, _, _, _, hend, _, _, _⟩ := file_validate_outline
  rw [← seqs_stmts v_File_ValidateWith, hS, seqs_cons_ne _ _ (by simp)] at hres
  have hg : exec skipGuard c [] = ([], .next) := by simp [skipGuard, exec, eval, hskip, scopeExit]
  simp only [exec, hg] at hres
  rw [seqs_cons_ne _ _ (by simp)] at hres
  obtain ⟨pre, h1⟩ := accept_seq_q hro1 hq1 hres
  simp only [List.append_nil] at h1
  rw [seqs_cons_ne _ _ hR] at h1
  have hb : (exec mainBlock c pre).2 = (exec nonAdvPart c (("_t1", .bool false) :: pre)).2 := by
    simp [mainBlock, exec, eval, hnadv, subResult, lookup]
  have hnn := endsInRet_not_next nonAdvPart hend c (("_t1", .bool false) :: pre)
  refine ⟨("_t1", .bool false) :: pre, ?_⟩
  simp only [exec] at h1
  cases hx : exec mainBlock c pre with
  | mk l1 s1 =>
    rw [hx] at h1 hb
    simp only at hb
    cases s1 with
    | next => exact absurd hb.symm hnn
    | ret v => simp only at h1; rw [← hb]; exact h1
    | brk => simp at h1
    | cont => simp at h1
    | stuck _ => simp at h1

/-- … and ran the three helpers with `IsADV = false`, each of which returned nil -/
theorem accepted_file_ran_helpers (c : Ctx) (hskip : hasFlag c "param" "SkipAll" = false)
    (hnadv : (exec v_File_IsADV c []).2 = .ret (.bool false))
    (ha : run c v_File_ValidateWith = .accept) :
    (exec v_File_isEntryAddendaCount c [("IsADV", .bool false)]).2 = .ret (.err none) ∧
    (exec v_File_isFileAmount c [("IsADV", .bool false)]).2 = .ret (.err none) ∧
    (exec v_File_isEntryHash c [("IsADV", .bool false)]).2 = .ret (.err none) := by
  obtain ⟨L, hacc⟩ := accepted_file_enters_nonadv c hskip hnadv ha
  obtain ⟨_, _, _, _, hroC, hqC, hroA, hroH, hne5⟩ := file_validate_outline2
  obtain ⟨_, _, _, _, _, hd3, hd6, hall6⟩ := file_validate_outline
  have hs3 : stmts nonAdvPart = (stmts nonAdvPart).take 3 ++ (stmts nonAdvPart).drop 3 := (List.take_append_drop _ _).symm
  have hall3 : ((stmts nonAdvPart).take 3).all (fun q => rejectOnly q && quiet q) = true := by
    have h6 := List.all_eq_true.mp hall6
    apply List.all_eq_true.mpr
    intro q hq
    apply h6
    have : (stmts nonAdvPart).take 3 = ((stmts nonAdvPart).take 6).take 3 := by simp [List.take_take]
    rw [this] at hq
    exact List.mem_of_mem_take hq
  obtain ⟨pre3, h3⟩ := accept_reaches_q c nonAdvPart _ _ _ hs3 (by rw [hd3]; simp) hall3 hacc
  rw [hd3, seqs_cons_ne _ _ (by simp)] at h3
  have hcount := checkOn_self_passes c _ none _ (Ach.Props.Accepted.accept_seq_left hroC h3)
  obtain ⟨pre4, h4⟩ := accept_seq_q hroC hqC h3
  rw [seqs_cons_ne _ _ hne5] at h4
  have hamount := checkOn_self_passes c _ none _ (Ach.Props.Accepted.accept_seq_left hroA h4)
  have hs6 : stmts nonAdvPart = (stmts nonAdvPart).take 6 ++ (stmts nonAdvPart).drop 6 := (List.take_append_drop _ _).symm
  obtain ⟨pre6, h6⟩ := accept_reaches_q c nonAdvPart _ _ _ hs6 (by rw [hd6]; simp) hall6 hacc
  rw [hd6] at h6
  have hhash := checkOn_self_passes c _ none _ (Ach.Props.Accepted.accept_seq_left hroH h6)
  exact ⟨hcount, hamount, hhash⟩

/-- C03, file control — for every file value of standard and IAT batches (any number of them) on which
`File.ValidateWith(opts)` — translated from the source on this run — returns nil without `SkipAll`: the file control's
entry/addenda count (unless `UnequalAddendaCounts`), debit total, credit total and entry hash are the sums (the hash: the
ten least significant digits of the sum) of the corresponding fields of the batch controls and IAT batch controls -/
theorem accepted_file_control_sums (c : Ctx) (B : Batches c) (cp : String)
    (cntB cntI dbB dbI crB crI hsB hsI : Nat → Int) (cnt td tc hash : Int)
    (hskip : hasFlag c "param" "SkipAll" = false)
    (hnadv : (exec v_File_IsADV c []).2 = .ret (.bool false))
    (hC : lookup c.fields (joinPath c.recv "Control") = .ref cp)
    (h1 : ∀ i, i < B.nb → lookup c.fields (joinPath (B.bc i) "EntryAddendaCount") = .int (cntB i))
    (h2 : ∀ i, i < B.ni → lookup c.fields (joinPath (B.ic i) "EntryAddendaCount") = .int (cntI i))
    (h3 : ∀ i, i < B.nb → lookup c.fields (joinPath (B.bc i) "TotalDebitEntryDollarAmount") = .int (dbB i))
    (h4 : ∀ i, i < B.nb → lookup c.fields (joinPath (B.bc i) "TotalCreditEntryDollarAmount") = .int (crB i))
    (h5 : ∀ i, i < B.ni → lookup c.fields (joinPath (B.ic i) "TotalDebitEntryDollarAmount") = .int (dbI i))
    (h6 : ∀ i, i < B.ni → lookup c.fields (joinPath (B.ic i) "TotalCreditEntryDollarAmount") = .int (crI i))
    (h7 : ∀ i, i < B.nb → lookup c.fields (joinPath (B.bc i) "EntryHash") = .int (hsB i))
    (h8 : ∀ i, i < B.ni → lookup c.fields (joinPath (B.ic i) "EntryHash") = .int (hsI i))
    (e1 : lookup c.fields (joinPath cp "EntryAddendaCount") = .int cnt)
    (e2 : lookup c.fields (joinPath cp "TotalDebitEntryDollarAmountInFile") = .int td)
    (e3 : lookup c.fields (joinPath cp "TotalCreditEntryDollarAmountInFile") = .int tc)
    (e4 : lookup c.fields (joinPath cp "EntryHash") = .int hash)
    (ha : run c v_File_ValidateWith = .accept) :
    (hasFlag c "recv" "UnequalAddendaCounts" = false → cnt = total B cntB cntI) ∧
    td = total B dbB dbI ∧ tc = total B crB crI ∧ hash = leastSignificantDigits (total B hsB hsI) 10 := by
  obtain ⟨a1, a2, a3⟩ := accepted_file_ran_helpers c hskip hnadv ha
  obtain ⟨t1, t2⟩ := file_isFileAmount_accepts c B dbB crB dbI crI cp td tc h3 h4 h5 h6 hC e2 e3 a2
  exact ⟨fun hf => file_isEntryAddendaCount_accepts c B cntB cntI cp cnt hf h1 h2 hC e1 a1, t1, t2,
    file_isEntryHash_accepts c B hsB hsI cp hash h7 h8 hC e4 a3⟩

end Ach.Props.AcceptedFileValidate
