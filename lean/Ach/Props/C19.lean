import Ach.Proofs.Pool
import Ach.Generated.Sites
/-!
# C19 — Concurrent work on distinct files never interferes  *(partial)*

Independent library calls share exactly this mutable state: the `sync.Pool` of `*bytes.Buffer` in perf.go, the
package-level tables (`spaceZeros`, `stringZeros`, `changeCodeDict`, `returnCodeDict`, …) and, in the server, the
repository map.  What is proved here, for **every** number of goroutines, every program and every interleaving:

* `pool_invariant` — a pooled buffer is empty and nobody holds it; no buffer is held twice;
* `pool_noninterference` (+ `_render`, `_parse`) — each goroutine's outputs are those of the same code run alone;
* `pool_progress` — a goroutine with work left is never blocked by the others (Get falls through to New);
* `pool_discipline_from_source` — the hypothesis of the two theorems, read off the generated `poolUsers` table;
* `globals_written_only_at_init` — read off the generated write census (`libGlobalWrites`, `serverGlobalWrites`,
  `…GlobalMethodCalls`): no function of package `ach` or `server` other than `init` assigns to a package-level variable,
  deletes from / clears one, takes its address or passes a package-level map, slice or pointer to a callee; the only
  method calls on package-level variables are the pool's `Get`/`Put` (inside `getBuffer`/`saveBuffer`, the model above),
  `regexp.MatchString` (documented safe for concurrent use) and, in the server, the Prometheus counters and an error's
  `Error()`.  So the tables (`returnCodeDict`, `changeCodeDict`, …) one file's validation reads are never written by
  another's: a result cannot depend on which other files were processed before or meanwhile;
* `pool_violation_counterexample` — without the discipline a *disciplined* goroutine's output is corrupted;
* `repo_distinct_keys_commute` — repository requests on different file IDs commute (responses and final store).

**Trusted / modelled, not verified**: the `sync.Pool` contract (Get = some object Put before and not handed out since,
or `New()`; objects may be dropped; Get/Put atomic); `bytes.Buffer` (`WriteString`/`WriteRune` append, `Reset`
empties, `String()` copies into an immutable string); `defer` runs after the return value is evaluated; every
micro-op is atomic and the memory is sequentially consistent; the translation of the 49 functions into micro-op
programs (`Job.ops`, `parseOps`, nested for `Reader.Read`) — tied to the source by the counts in `poolUsers` and the
body hashes of `getBuffer`/`saveBuffer`; repository methods atomic (that is C18).

**Not exhibited**: data races as such and the Go memory model (only the `-race` runs of the oracle speak about them);
Prometheus counters;
that `LookupChangeCode`/`LookupReturnCode`/`…CodeField()` hand out pointers INTO the shared dictionaries (a caller
that writes through them would interfere with every other goroutine — nothing in package `ach` does).
-/
namespace Ach.Props.C19
open Ach Ach.Gen Ach.Pool

/-! ## Discipline, from the source -/

/-- may a reference to the buffer be alive after its `Put`?  Only if some `getBuffer` is not paired with a
    `defer saveBuffer` (a non-deferred save, or none), or the buffer escapes the function. -/
def mayOutlivePut (u : PoolUse) : Bool := u.gets != u.deferSaves || u.escapes != 0

/-- the programs the functions of a fact table can give rise to: a Put-with-live-reference (`putKeep`) needs a
    function whose facts allow it -/
def FromUsers (users : List PoolUse) (p : List Op) : Prop :=
  Op.putKeep ∈ p → ∃ u ∈ users, mayOutlivePut u = true

def expectedHashes : List (String × Nat) :=
  [("getBuffer", 7708224129504980250), ("saveBuffer", 3622025256836801352)]

/-- C19, discipline (F): each of the functions calling `getBuffer` has as many `defer saveBuffer(buf)` as `getBuffer()`
    and lets no buffer escape; `getBuffer`/`saveBuffer` are the bodies that were modelled (Reset, then Put). -/
theorem pool_discipline_from_source :
    (poolUsers.all fun u => !mayOutlivePut u) = true ∧ poolUsers.isEmpty = false ∧ poolHashes = expectedHashes := by
  decide

/-- C19, no shared mutable state besides the pool (F): outside `init`, no function writes a package-level variable (in
    any of the ways the census recognises), in the library or in the server; method calls on package-level variables are
    exactly the pool's, a compiled regexp's matcher, the server's metric counters and an error value's `Error`. -/
theorem globals_written_only_at_init :
    libGlobalWrites = [] ∧ serverGlobalWrites = [] ∧
    libGlobalMethodCalls = [("byteBufferPool", "getBuffer", "Get"), ("byteBufferPool", "saveBuffer", "Put"),
      ("hhmmRegex", "validator.validateSimpleTime", "MatchString")] ∧
    serverGlobalMethodCalls = [("errInvalidFile", "codeFrom", "Error"), ("filesCreated", "createFileEndpoint", "With"),
      ("filesDeleted", "deleteFileEndpoint", "Add")] ∧
    (["returnCodeDict", "changeCodeDict"].all fun v => libGlobalVars.any fun g => g.1 == v) = true := by
  decide +kernel

/-- hence every program built from those functions is disciplined -/
theorem disciplined_of_source {p : List Op} (h : FromUsers poolUsers p) : Disciplined p := by
  intro hk
  obtain ⟨u, hu, hm⟩ := h hk
  have := List.all_eq_true.1 pool_discipline_from_source.1 u hu
  simp [hm] at this

/-! ## Ownership -/

/-- goroutine `t` holds buffer `b` -/
def Holds (s : State) (t : Nat) (b : BufId) : Prop := ∃ th, s.threads[t]? = some th ∧ b ∈ th.held

/-- C19, pool clause 1: in every state reachable by any interleaving, a pooled buffer is empty and held by nobody, a
    buffer is held by at most one goroutine, and at most once (each buffer is thus in the pool, or held by exactly
    one goroutine, or garbage: dropped by the pool). -/
theorem pool_invariant {progs : List (List Op)} (hsrc : ∀ p ∈ progs, FromUsers poolUsers p)
    {ls : List Label} {s : State} (hr : Run (init progs) ls s) :
    s.pool.Nodup ∧
    (∀ b ∈ s.pool, s.heap b = [] ∧ ∀ t, ¬ Holds s t b) ∧
    (∀ b t u, Holds s t b → Holds s u b → t = u) ∧
    (∀ (t : Nat) (th : Thread), s.threads[t]? = some th → th.held.Nodup) := by
  have hi := inv_run (inv_init fun p hp => disciplined_of_source (hsrc p hp)) hr
  refine ⟨hi.poolNodup, fun b hb => ⟨hi.poolEmpty b hb, ?_⟩, ?_, hi.heldNodup⟩
  · rintro t ⟨th, ht, hm⟩; exact hi.heldNotPool t th ht b hm hb
  · rintro b t u ⟨th, ht, hm⟩ ⟨th', hu, hm'⟩
    exact Classical.byContradiction fun hne => hi.heldDisjoint t u th th' ht hu hne b hm hm'

/-! ## Non-interference -/

/-- C19, pool clause 2: N goroutines, arbitrary disciplined programs, arbitrary interleaving (including the pool
    dropping objects): at every moment goroutine `t` has produced a prefix of what its program produces when run
    alone, and exactly that once it is done — whatever the other goroutines do. -/
theorem pool_noninterference {progs : List (List Op)} (hsrc : ∀ p ∈ progs, FromUsers poolUsers p)
    {ls : List Label} {s : State} (hr : Run (init progs) ls s) {t : Nat} {th : Thread}
    (ht : s.threads[t]? = some th) :
    ∃ p, progs[t]? = some p ∧ (∃ e, seqOutputs p = th.outs ++ e) ∧ (th.prog = [] → th.outs = seqOutputs p) :=
  noninterference (fun p hp => disciplined_of_source (hsrc p hp)) hr ht

/-- … for goroutines each rendering a list of records (`String()` methods): the outputs of a finished goroutine are
    `renderSeq job = concat chunks`, job by job, in order. -/
theorem pool_noninterference_render {jobs : List (List Job)} {ls : List Label} {s : State}
    (hr : Run (init (jobs.map fun js => js.flatMap Job.ops)) ls s) {t : Nat} {th : Thread}
    (ht : s.threads[t]? = some th) (hdone : th.prog = []) :
    ∃ js, jobs[t]? = some js ∧ th.outs = js.map renderSeq := by
  have hd : ∀ p ∈ jobs.map (fun js => js.flatMap Job.ops), Disciplined p := by
    intro p hp
    obtain ⟨js, _, rfl⟩ := List.mem_map.1 hp
    simp [Disciplined, Job.ops]
  obtain ⟨p, hp, _, h⟩ := noninterference hd hr ht
  rw [List.getElem?_map] at hp
  cases hj : jobs[t]? with
  | none => simp [hj] at hp
  | some js =>
    simp [hj] at hp; subst hp
    exact ⟨js, rfl, by rw [h hdone, seqOutputs, seqRun_jobs]; rfl⟩

/-- the reference outputs of a `Parse` activation: one string per field, the concatenation of its runes -/
theorem seqOutputs_parse (fields : List (List Bytes)) : seqOutputs (parseOps fields) = fields.map List.flatten := by
  rw [seqOutputs, seqRun_parse]; rfl

/-- C19, liveness side: a goroutine with work left always has a step, whatever the state of the pool. -/
theorem pool_progress (s : State) {t : Nat} {th : Thread} (ht : s.threads[t]? = some th) (hp : th.prog ≠ []) :
    ∃ l s', Step s l s' := progress s ht hp

/-- the executable transition function used for the examples below is the relation the theorems are about -/
theorem next_is_step {s s' : State} {l : Label} : next? s l = some s' ↔ Step s l s' := next?_iff

/-! ## Non-vacuity: a run in which a buffer really is recycled between goroutines -/

def jobA : Job := ⟨[[65, 65], [65]]⟩
def jobB : Job := ⟨[[66, 66, 66, 66]]⟩
/-- g0 renders A then B; g1 renders B; g1 takes over the buffer g0 has just put back, g0 then gets a new one -/
def sched : List Label :=
  [.getNew 0, .run 0, .run 0, .run 0, .run 0, .getPooled 1 0, .getNew 0, .run 1, .run 0, .run 1, .run 0, .run 1, .run 0]

example : observe [jobA.ops ++ jobB.ops, jobB.ops] sched 0 = some ([], [[65, 65, 65], [66, 66, 66, 66]]) ∧
    observe [jobA.ops ++ jobB.ops, jobB.ops] sched 1 = some ([], [[66, 66, 66, 66]]) := by decide

example : ∀ p ∈ [jobA.ops ++ jobB.ops, jobB.ops, parseOps [[[49], [50]], [[51]]]], FromUsers poolUsers p := by
  intro p hp hk; revert hk hp; simp [jobA, jobB, Job.ops, parseOps]; rintro (rfl | rfl | rfl) <;> simp

/-- `Reader.Read` shape: the line buffer is held while `Parse` gets, uses and puts back a second one (nesting);
    here g1 runs it while g0 renders, g1's inner Get recycling g0's buffer -/
def readOps : List Op := [.get, .write [54, 50]] ++ [.emit] ++ parseOps [[[54]], [[50]]] ++ [.reset, .put]

example : seqOutputs readOps = [[54, 50], [54], [50]] ∧
    observe [jobA.ops, readOps] ([.getNew 1, .run 1, .getNew 0, .run 0, .run 0, .run 0, .run 0, .run 1,
      .getPooled 1 1] ++ List.replicate 9 (.run 1)) 1 = some ([], [[54, 50], [54], [50]]) := by decide

/-! ## The discipline is necessary -/

/-- a goroutine that saves its buffer and then goes on writing to it -/
def bad : List Op := [.get, .putKeep, .write [65, 65, 65, 65], .emit]
def victim : Job := ⟨[[66, 66]]⟩
def badSched : List Label :=
  [.getNew 0, .run 0, .getPooled 1 0, .run 1, .run 0, .run 1, .run 1, .run 0]

/-- C19, necessity of the discipline: with ONE goroutine that Puts its buffer back while still using it, a second,
    disciplined goroutine rendering "BB" returns "BBAAAA".  (Not a defect of the code: `pool_discipline_from_source`
    shows no function does this.) -/
theorem pool_violation_counterexample :
    Disciplined victim.ops ∧ seqOutputs victim.ops = [[66, 66]] ∧
    ∃ ls s th, Run (init [bad, victim.ops]) ls s ∧ s.threads[1]? = some th ∧ th.prog = [] ∧
      th.outs = [[66, 66, 65, 65, 65, 65]] := by
  refine ⟨by decide, by decide, badSched, ?_⟩
  have h : observe [bad, victim.ops] badSched 1 = some ([], [[66, 66, 65, 65, 65, 65]]) := by decide
  obtain ⟨s, th, hr, ht, hp, ho⟩ := observe_sound h
  exact ⟨s, th, hr, ht, hp, ho⟩

/-! ## Requests on different file IDs -/

/-- C19, repository clause: two requests (store / find / delete / a batch-level change inside one file) addressed to
    different IDs give the same two responses and observationally the same store in either order. -/
theorem repo_distinct_keys_commute {V R : Type} (m : Store V) (a b : ROp V R) (hk : a.key ≠ b.key) :
    (repoStep m a).2 = (repoStep (repoStep m b).1 a).2 ∧
    (repoStep (repoStep m a).1 b).2 = (repoStep m b).2 ∧
    Store.Equiv (repoStep (repoStep m a).1 b).1 (repoStep (repoStep m b).1 a).1 :=
  repo_commute m a b hk

/-- … and "observationally the same" is all a later request can see -/
theorem repo_equiv_congr {V R : Type} {m m' : Store V} (h : Store.Equiv m m') (a : ROp V R) :
    (repoStep m a).2 = (repoStep m' a).2 ∧ Store.Equiv (repoStep m a).1 (repoStep m' a).1 :=
  repoStep_congr h a

/-- the two orders give different lists (hence `Store.Equiv`, not `=`), and the hypothesis is satisfiable -/
example : let a : ROp Nat Unit := .store "f1" 1; let b : ROp Nat Unit := .store "f2" 2
    a.key ≠ b.key ∧ (repoStep (repoStep [] a).1 b).1 ≠ (repoStep (repoStep [] b).1 a).1 := by decide

end Ach.Props.C19
