import Ach.Props.AcceptedFileValidate
/-!
# A control value that is not what its entries add up to is rejected (C04, on the translated validation code)

Contrapositives of the `accepted_…` theorems: for every batch / file value — any size — whose control record carries a
count, hash, total, ODFI or batch number other than the one its entries (batches) determine, the validation code as
translated from the source on this run does **not** return nil.  A single changed digit of such a field changes its
value (decimal fields of fixed width are injective: `Ach.Props.C04.digit_flip_changes_number`), so it is refused.
-/
namespace Ach.Props.TamperRejected
open Ach Ach.GoLite Ach.Gen

theorem wrong_entry_hash_rejected (c : Ctx) (hp cp p : String) (n : Nat) (r : Nat → Str) (sec : Str) (e : Int)
    (hH : lookup c.fields (joinPath c.recv "Header") = .ref hp)
    (hsec : lookup c.fields (joinPath hp "StandardEntryClassCode") = .str sec) (hnadv : sec ≠ ['A', 'D', 'V'])
    (hC : lookup c.fields (joinPath c.recv "Control") = .ref cp)
    (he : lookup c.fields (joinPath cp "EntryHash") = .int e)
    (hE : lookup c.fields (joinPath c.recv "Entries") = .lst p n)
    (hr : ∀ i, i < n → lookup c.fields (joinPath (elemPath p i) "RDFIIdentification") = .str (r i))
    (hascii : ∀ i, i < n → allAscii (r i) = true)
    (hwrong : e ≠ leastSignificantDigits (((List.range n).map (fun i => Ach.Props.AcceptedHash.rdfiNumber (r i))).sum) 10) :
    run c v_Batch_verify ≠ .accept :=
  fun ha => hwrong (Ach.Props.AcceptedHash.accepted_batch_entry_hash_ascii c hp cp p n r sec e hH hsec hnadv hC he hE hr hascii ha)

theorem wrong_entry_count_rejected (c : Ctx) (hp cp p : String) (n : Nat) (cnt : Nat → Int) (sec : Str) (e : Int)
    (hflag : hasFlag c "recv" "UnequalAddendaCounts" = false)
    (hH : lookup c.fields (joinPath c.recv "Header") = .ref hp)
    (hsec : lookup c.fields (joinPath hp "StandardEntryClassCode") = .str sec) (hnadv : sec ≠ ['A', 'D', 'V'])
    (hC : lookup c.fields (joinPath c.recv "Control") = .ref cp)
    (he : lookup c.fields (joinPath cp "EntryAddendaCount") = .int e)
    (hE : lookup c.fields (joinPath c.recv "Entries") = .lst p n)
    (hc : ∀ i, i < n → Ach.Props.AcceptedCount.addendaCountOf c (elemPath p i) = some (cnt i))
    (hwrong : e ≠ ((List.range n).map (fun i => 1 + cnt i)).sum) :
    run c v_Batch_verify ≠ .accept :=
  fun ha => hwrong (Ach.Props.AcceptedCount.accepted_batch_entry_count c hp cp p n cnt sec e hflag hH hsec hnadv hC he hE hc ha)

theorem wrong_totals_rejected (c : Ctx) (hp cp p : String) (n : Nat) (tc am : Nat → Int) (sec : Str) (tcr tdb : Int)
    (hH : lookup c.fields (joinPath c.recv "Header") = .ref hp)
    (hsec : lookup c.fields (joinPath hp "StandardEntryClassCode") = .str sec) (hnadv : sec ≠ ['A', 'D', 'V'])
    (hC : lookup c.fields (joinPath c.recv "Control") = .ref cp)
    (hcr : lookup c.fields (joinPath cp "TotalCreditEntryDollarAmount") = .int tcr)
    (hdb : lookup c.fields (joinPath cp "TotalDebitEntryDollarAmount") = .int tdb)
    (hE : lookup c.fields (joinPath c.recv "Entries") = .lst p n)
    (ht : ∀ i, i < n → lookup c.fields (joinPath (elemPath p i) "TransactionCode") = .int (tc i))
    (ham : ∀ i, i < n → lookup c.fields (joinPath (elemPath p i) "Amount") = .int (am i))
    (hwrong : tcr ≠ ((List.range n).map (fun i => Ach.Props.AcceptedAmounts.creditPart (tc i) (am i))).sum ∨
              tdb ≠ ((List.range n).map (fun i => Ach.Props.AcceptedAmounts.debitPart (tc i) (am i))).sum) :
    run c v_Batch_verify ≠ .accept := by
  intro ha
  obtain ⟨h1, h2⟩ := Ach.Props.AcceptedAmounts.accepted_batch_totals c hp cp p n tc am sec tcr tdb hH hsec hnadv hC hcr hdb hE ht ham ha
  rcases hwrong with h | h
  · exact h h1
  · exact h h2

theorem header_control_mismatch_rejected (c : Ctx) (hp cp : String) (sec ci1 ci2 o1 o2 : Str) (n1 n2 s1 s2 : Int)
    (hH : lookup c.fields (joinPath c.recv "Header") = .ref hp)
    (hC : lookup c.fields (joinPath c.recv "Control") = .ref cp)
    (hsec : lookup c.fields (joinPath hp "StandardEntryClassCode") = .str sec) (hnadv : sec ≠ ['A', 'D', 'V'])
    (hs1 : lookup c.fields (joinPath hp "ServiceClassCode") = .int s1)
    (hs2 : lookup c.fields (joinPath cp "ServiceClassCode") = .int s2)
    (hc1 : lookup c.fields (joinPath hp "CompanyIdentification") = .str ci1)
    (hc2 : lookup c.fields (joinPath cp "CompanyIdentification") = .str ci2)
    (ho1 : lookup c.fields (joinPath hp "ODFIIdentification") = .str o1)
    (ho2 : lookup c.fields (joinPath cp "ODFIIdentification") = .str o2)
    (hn1 : lookup c.fields (joinPath hp "BatchNumber") = .int n1)
    (hn2 : lookup c.fields (joinPath cp "BatchNumber") = .int n2)
    (hwrong : o1 ≠ o2 ∨ n1 ≠ n2 ∨ (hasFlag c "recv" "UnequalServiceClassCode" = false ∧ s1 ≠ s2)) :
    run c v_Batch_verify ≠ .accept := by
  intro ha
  obtain ⟨h1, h2, h3, _⟩ := Ach.Props.Accepted.accepted_batch_header_control_agree c hp cp sec ci1 ci2 o1 o2 n1 n2 s1 s2
    hH hC hsec hnadv hs1 hs2 hc1 hc2 ho1 ho2 hn1 hn2 ha
  rcases hwrong with h | h | ⟨hf, h⟩
  · exact h h1
  · exact h h2
  · exact h (h3 hf)

theorem wrong_check_digit_rejected (c : Ctx) (hflag : hasFlag c "recv" "AllowInvalidCheckDigit" = false) (rdfi cd : Str)
    (hr : lookup c.fields (joinPath c.recv "RDFIIdentification") = .str rdfi)
    (hc : lookup c.fields (joinPath c.recv "CheckDigit") = .str cd)
    (hwrong : atoi cd ≠ some (calculateCheckDigit (stringField rdfi 8))) :
    run c v_EntryDetail_Validate ≠ .accept :=
  fun ha => hwrong (Ach.Props.Accepted.accepted_entry_check_digit c hflag rdfi cd hr hc ha)

open Ach.Props.AcceptedFile in
theorem wrong_file_control_rejected (c : Ctx) (B : Batches c) (cp : String)
    (cntB cntI dbB dbI crB crI hsB hsI : Nat → Int) (cnt td tc hash : Int)
    (hskip : hasFlag c "param" "SkipAll" = false)
    (hnadv : (exec v_File_IsADV c []).2 = .ret (.bool false))
    (hC : lookup c.fields (joinPath c.recv "Control") = .ref cp)
    (h1 : ∀ i, i < B.nb → lookup c.fields (joinPath (B.bc i) "EntryAddendaCount") = .int (cntB i))
    (h2 : ∀ i, i < B.ni → lookup c.fields (joinPath (B.ic i) "EntryAddendaCount") = .int (cntI i))
    (h3 : ∀ i, i < B.nb → lookup c.fields (joinPath (B.bc i) "TotalDebitEntryDollarAmount") = .int (dbB i))
    (h4 : ∀ i, i < B.nb → lookup c.fields (joinPath (B.bc i) "TotalCreditEntryDollarAmount") = .int (crB i))
    (h5 : ∀ i, i < B.ni → lookup c.fields (joinPath (B.ic i) "TotalDebitEntryDollarAmount") = .int (dbI i))
    (h6 : ∀ i, i < B.ni → lookup c.fields (joinPath (B.ic i) "TotalCreditEntryDollarAmount") = .int (crI i))
    (h7 : ∀ i, i < B.nb → lookup c.fields (joinPath (B.bc i) "EntryHash") = .int (hsB i))
    (h8 : ∀ i, i < B.ni → lookup c.fields (joinPath (B.ic i) "EntryHash") = .int (hsI i))
    (e1 : lookup c.fields (joinPath cp "EntryAddendaCount") = .int cnt)
    (e2 : lookup c.fields (joinPath cp "TotalDebitEntryDollarAmountInFile") = .int td)
    (e3 : lookup c.fields (joinPath cp "TotalCreditEntryDollarAmountInFile") = .int tc)
    (e4 : lookup c.fields (joinPath cp "EntryHash") = .int hash)
    (hwrong : (hasFlag c "recv" "UnequalAddendaCounts" = false ∧ cnt ≠ total B cntB cntI) ∨ td ≠ total B dbB dbI ∨
      tc ≠ total B crB crI ∨ hash ≠ leastSignificantDigits (total B hsB hsI) 10) :
    run c v_File_ValidateWith ≠ .accept := by
  intro ha
  obtain ⟨a1, a2, a3, a4⟩ := Ach.Props.AcceptedFileValidate.accepted_file_control_sums c B cp cntB cntI dbB dbI crB crI hsB hsI
    cnt td tc hash hskip hnadv hC h1 h2 h3 h4 h5 h6 h7 h8 e1 e2 e3 e4 ha
  rcases hwrong with ⟨hf, h⟩ | h | h | h
  · exact h (a1 hf)
  · exact h a2
  · exact h a3
  · exact h a4

end Ach.Props.TamperRejected
