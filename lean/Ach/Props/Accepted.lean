import Ach.Proofs.GoLitePaths
import Ach.Props.Validators
/-!
# What an accepted record satisfies, read off the translated validators (C03)
-/
namespace Ach.Props.Accepted
open Ach Ach.GoLite Ach.Gen

/-- all statements of a function but the last `k` -/
def frontOf (p : Prog) (k : Nat) : List Prog := (stmts p).take ((stmts p).length - k)

/-- the statement of `EntryDetail.Validate` that compares the check digit -/
def checkDigitBlock : Prog :=
  .ite (.not (.flag "recv" "AllowInvalidCheckDigit"))
    (seqs [(.bind "calculated" (.call1 "CalculateCheckDigit" (.call2 "stringField" (.fld "RDFIIdentification") (.int 8)))),
      (.bind2 "edCheckDigit" "err" (.call1 "strconv.Atoi" (.fld "CheckDigit"))),
      (.ite (.ne (.var "err") .nil) (.ret (.wrapErr "CheckDigit" (.nonNil (.var "err")))) .skip),
      (.ite (.ne (.var "calculated") (.var "edCheckDigit")) (.ret (.mkErr "RDFIIdentification")) .skip)])
    .skip

/-- today `EntryDetail.Validate` ends with that statement and `return nil`, and every statement before it can only
reject -/
theorem entry_validate_ends_with_check_digit :
    stmts v_EntryDetail_Validate = frontOf v_EntryDetail_Validate 2 ++ [checkDigitBlock, .ret .nil] ∧
    (frontOf v_EntryDetail_Validate 2).all (fun q => rejectOnly q && noAssign q) = true := by
  decide +kernel

theorem check_digit_block_accepts (c : Ctx) (pre : Locals)
    (hflag : hasFlag c "recv" "AllowInvalidCheckDigit" = false) (rdfi cd : Str)
    (hr : lookup c.fields (joinPath c.recv "RDFIIdentification") = .str rdfi)
    (hc : lookup c.fields (joinPath c.recv "CheckDigit") = .str cd)
    (h : (exec (seqs [checkDigitBlock, .ret .nil]) c pre).2 = .ret (.err none)) :
    atoi cd = some (calculateCheckDigit (stringField rdfi 8)) := by
  have h8 : builtin2 "stringField" (Val.str rdfi) (Val.int 8) = .str (stringField rdfi 8) := by
    simp [builtin2]
  have hcalc : ∀ s : Str, builtin1 c.ext "CalculateCheckDigit" (Val.str s) = .int (calculateCheckDigit s) := by
    intro s; simp [builtin1]
  cases ha : atoi cd with
  | none =>
      have hatoi : builtin1 c.ext "strconv.Atoi" (Val.str cd) = .pair (.int 0) (.err (some "")) := by
        simp [builtin1, ha]
      simp only [seqs, checkDigitBlock, exec, eval, hflag, hr, hc, h8, hcalc, hatoi] at h
      simp [lookup, cmpVals, scopeExit] at h
  | some v =>
      by_cases hb : 18 < (signSplit cd).2.length ∧ (v = maxInt64 ∨ v = minInt64)
      · have hatoi : builtin1 c.ext "strconv.Atoi" (Val.str cd) = .bad := by
          simp [builtin1, ha]
          grind
        simp only [seqs, checkDigitBlock, exec, eval, hflag, hr, hc, h8, hcalc, hatoi] at h
        simp [scopeExit] at h
      · have hatoi : builtin1 c.ext "strconv.Atoi" (Val.str cd) = .pair (.int v) (.err none) := by
          simp [builtin1, ha]
          grind
        simp only [seqs, checkDigitBlock, exec, eval, hflag, hr, hc, h8, hcalc, hatoi] at h
        by_cases heq : calculateCheckDigit (stringField rdfi 8) = v
        · rw [heq]
        · simp [lookup, cmpVals, scopeExit, heq] at h


/-- C03, check digit — for every entry value: if `EntryDetail.Validate()` (translated from the source on this run)
returns nil and `AllowInvalidCheckDigit` is off, the entry's check digit is the number computed from the first eight
characters of its routing number -/
theorem accepted_entry_check_digit (c : Ctx) (hflag : hasFlag c "recv" "AllowInvalidCheckDigit" = false) (rdfi cd : Str)
    (hr : lookup c.fields (joinPath c.recv "RDFIIdentification") = .str rdfi)
    (hc : lookup c.fields (joinPath c.recv "CheckDigit") = .str cd)
    (ha : run c v_EntryDetail_Validate = .accept) :
    atoi cd = some (calculateCheckDigit (stringField rdfi 8)) := by
  have hres := Ach.Props.Validators.accept_ret c _ ha
  obtain ⟨hs, hall⟩ := entry_validate_ends_with_check_digit
  obtain ⟨pre, hp⟩ := accept_reaches c _ _ _ hs (by simp) hall hres
  exact check_digit_block_accepts c pre hflag rdfi cd hr hc hp

/-! ## header and control of a batch agree -/

/-- the statement of `Batch.verify` that compares the header with the control -/
def headerControlBlock : Prog :=
  .block (seqs [(.sub "_t1" [] [] v_Batch_IsADV),
    (.ite (.not (.var "_t1"))
      (seqs [(.ite (.and (.not (.flag "recv" "UnequalServiceClassCode")) (.ne (.sel (.fld "Header") "ServiceClassCode") (.sel (.fld "Control") "ServiceClassCode")))
          (.ret (.mkErr "ServiceClassCode")) .skip),
        (.ite (.and (.ne (.sel (.fld "Header") "CompanyIdentification") (.sel (.fld "Control") "CompanyIdentification")) (.not (.flag "recv" "BypassCompanyIdentificationMatch")))
          (.ret (.mkErr "CompanyIdentification")) .skip),
        (.ite (.ne (.sel (.fld "Header") "ODFIIdentification") (.sel (.fld "Control") "ODFIIdentification"))
          (.ret (.mkErr "ODFIIdentification")) .skip),
        (.ite (.ne (.sel (.fld "Header") "BatchNumber") (.sel (.fld "Control") "BatchNumber"))
          (.ret (.mkErr "BatchNumber")) .skip)])
      (seqs [(.ite (.and (.not (.flag "recv" "UnequalServiceClassCode")) (.ne (.sel (.fld "Header") "ServiceClassCode") (.sel (.fld "ADVControl") "ServiceClassCode")))
          (.ret (.mkErr "ServiceClassCode")) .skip),
        (.ite (.ne (.sel (.fld "Header") "ODFIIdentification") (.sel (.fld "ADVControl") "ODFIIdentification"))
          (.ret (.mkErr "ODFIIdentification")) .skip),
        (.ite (.ne (.sel (.fld "Header") "BatchNumber") (.sel (.fld "ADVControl") "BatchNumber"))
          (.ret (.mkErr "BatchNumber")) .skip)]))])

/-- today the third statement of `Batch.verify` is that block, the two before it can only reject, and so can the block -/
theorem verify_compares_header_with_control :
    (stmts v_Batch_verify).drop 2 = headerControlBlock :: (stmts v_Batch_verify).drop 3 ∧
    (stmts v_Batch_verify).drop 3 ≠ [] ∧
    ((stmts v_Batch_verify).take 2).all (fun q => rejectOnly q && noAssign q) = true ∧
    rejectOnly headerControlBlock = true := by
  decide +kernel

/-- a statement that can only reject, in front of an accepting rest, fell through -/
theorem accept_seq_left {a b : Prog} {c : Ctx} {l : Locals} (ha : rejectOnly a = true)
    (h : (exec (.seq a b) c l).2 = .ret (.err none)) : (exec a c l).2 = .next := by
  simp only [exec] at h
  have hne := rejectOnly_no_accept a ha c l
  cases hx : exec a c l with
  | mk l1 s1 =>
    rw [hx] at h hne
    cases s1 with
    | next => rfl
    | ret v => simp only at h; exact absurd h hne
    | brk => simp at h
    | cont => simp at h
    | stuck _ => simp at h

theorem header_control_block_passes (c : Ctx) (pre : Locals) (hp cp : String) (sec ci1 ci2 o1 o2 : Str) (n1 n2 s1 s2 : Int)
    (hH : lookup c.fields (joinPath c.recv "Header") = .ref hp)
    (hC : lookup c.fields (joinPath c.recv "Control") = .ref cp)
    (hsec : lookup c.fields (joinPath hp "StandardEntryClassCode") = .str sec) (hnadv : sec ≠ ['A', 'D', 'V'])
    (hs1 : lookup c.fields (joinPath hp "ServiceClassCode") = .int s1)
    (hs2 : lookup c.fields (joinPath cp "ServiceClassCode") = .int s2)
    (hc1 : lookup c.fields (joinPath hp "CompanyIdentification") = .str ci1)
    (hc2 : lookup c.fields (joinPath cp "CompanyIdentification") = .str ci2)
    (ho1 : lookup c.fields (joinPath hp "ODFIIdentification") = .str o1)
    (ho2 : lookup c.fields (joinPath cp "ODFIIdentification") = .str o2)
    (hn1 : lookup c.fields (joinPath hp "BatchNumber") = .int n1)
    (hn2 : lookup c.fields (joinPath cp "BatchNumber") = .int n2)
    (h : (exec headerControlBlock c pre).2 = .next) :
    o1 = o2 ∧ n1 = n2 ∧ (hasFlag c "recv" "UnequalServiceClassCode" = false → s1 = s2) ∧
      (hasFlag c "recv" "BypassCompanyIdentificationMatch" = false → ci1 = ci2) := by
  have hadv : (exec v_Batch_IsADV c []).2 = .ret (.bool false) := by
    simp [v_Batch_IsADV, seqs, exec, eval, hH, hsec, cmpVals, lookup, hnadv]
  simp only [headerControlBlock, seqs, exec, eval, hH, hC, hs1, hs2, hc1, hc2, ho1, ho2, hn1, hn2] at h
  simp only [List.map_nil, List.zip_nil_left, List.reverse_nil, hadv, subResult] at h
  cases hf1 : hasFlag c "recv" "UnequalServiceClassCode" <;> cases hf2 : hasFlag c "recv" "BypassCompanyIdentificationMatch" <;>
    by_cases e1 : s1 = s2 <;> by_cases e2 : ci1 = ci2 <;> by_cases e3 : o1 = o2 <;> by_cases e4 : n1 = n2 <;>
    simp [hf1, hf2, e1, e2, e3, e4, lookup, cmpVals, scopeExit] at h ⊢


/-- C03, header / control — for every standard (non-ADV) batch value: if `Batch.verify()` (translated from the source on
this run; every `BatchXXX.Validate` starts with it) returns nil, header and control carry the same ODFI identification
and batch number, the same service class unless `UnequalServiceClassCode` is on, and the same company identification
unless `BypassCompanyIdentificationMatch` is on -/
theorem accepted_batch_header_control_agree (c : Ctx) (hp cp : String) (sec ci1 ci2 o1 o2 : Str) (n1 n2 s1 s2 : Int)
    (hH : lookup c.fields (joinPath c.recv "Header") = .ref hp)
    (hC : lookup c.fields (joinPath c.recv "Control") = .ref cp)
    (hsec : lookup c.fields (joinPath hp "StandardEntryClassCode") = .str sec) (hnadv : sec ≠ ['A', 'D', 'V'])
    (hs1 : lookup c.fields (joinPath hp "ServiceClassCode") = .int s1)
    (hs2 : lookup c.fields (joinPath cp "ServiceClassCode") = .int s2)
    (hc1 : lookup c.fields (joinPath hp "CompanyIdentification") = .str ci1)
    (hc2 : lookup c.fields (joinPath cp "CompanyIdentification") = .str ci2)
    (ho1 : lookup c.fields (joinPath hp "ODFIIdentification") = .str o1)
    (ho2 : lookup c.fields (joinPath cp "ODFIIdentification") = .str o2)
    (hn1 : lookup c.fields (joinPath hp "BatchNumber") = .int n1)
    (hn2 : lookup c.fields (joinPath cp "BatchNumber") = .int n2)
    (ha : run c v_Batch_verify = .accept) :
    o1 = o2 ∧ n1 = n2 ∧ (hasFlag c "recv" "UnequalServiceClassCode" = false → s1 = s2) ∧
      (hasFlag c "recv" "BypassCompanyIdentificationMatch" = false → ci1 = ci2) := by
  have hres := Ach.Props.Validators.accept_ret c _ ha
  obtain ⟨hd, hne, hall, hro⟩ := verify_compares_header_with_control
  have hs : stmts v_Batch_verify = (stmts v_Batch_verify).take 2 ++ (stmts v_Batch_verify).drop 2 :=
    (List.take_append_drop 2 _).symm
  obtain ⟨pre, hpre⟩ := accept_reaches c _ _ _ hs (by rw [hd]; simp) hall hres
  rw [hd, seqs_cons_ne _ _ hne] at hpre
  exact header_control_block_passes c pre hp cp sec ci1 ci2 o1 o2 n1 n2 s1 s2 hH hC hsec hnadv hs1 hs2 hc1 hc2 ho1 ho2
    hn1 hn2 (accept_seq_left hro hpre)

/-- C03, header / control of an IAT batch — the comparisons stand on the spine of `IATBatch.verify`: an accepted IAT
batch has the same ODFI identification and batch number in header and control, and the same service class unless
`UnequalServiceClassCode` is on -/
theorem accepted_iat_batch_header_control_agree (c : Ctx) (hp cp : String) (o1 o2 : Str) (n1 n2 s1 s2 : Int)
    (hH : lookup c.fields (joinPath c.recv "Header") = .ref hp)
    (hC : lookup c.fields (joinPath c.recv "Control") = .ref cp)
    (hs1 : lookup c.fields (joinPath hp "ServiceClassCode") = .int s1)
    (hs2 : lookup c.fields (joinPath cp "ServiceClassCode") = .int s2)
    (ho1 : lookup c.fields (joinPath hp "ODFIIdentification") = .str o1)
    (ho2 : lookup c.fields (joinPath cp "ODFIIdentification") = .str o2)
    (hn1 : lookup c.fields (joinPath hp "BatchNumber") = .int n1)
    (hn2 : lookup c.fields (joinPath cp "BatchNumber") = .int n2)
    (ha : run c v_IATBatch_verify = .accept) :
    o1 = o2 ∧ n1 = n2 ∧ (hasFlag c "recv" "UnequalServiceClassCode" = false → s1 = s2) := by
  have hres := Ach.Props.Validators.accept_ret c _ ha
  have h1 := spine_sound c v_IATBatch_verify [] (Or.inl hres)
    (.ne (.sel (.fld "Header") "ODFIIdentification") (.sel (.fld "Control") "ODFIIdentification")) (by decide +kernel)
  have h2 := spine_sound c v_IATBatch_verify [] (Or.inl hres)
    (.ne (.sel (.fld "Header") "BatchNumber") (.sel (.fld "Control") "BatchNumber")) (by decide +kernel)
  have h3 := spine_sound c v_IATBatch_verify [] (Or.inl hres)
    (.and (.not (.flag "recv" "UnequalServiceClassCode")) (.ne (.sel (.fld "Header") "ServiceClassCode") (.sel (.fld "Control") "ServiceClassCode")))
    (by decide +kernel)
  simp only [eval, hH, hC, ho1, ho2, hn1, hn2, hs1, hs2] at h1 h2 h3
  refine ⟨?_, ?_, ?_⟩
  · by_cases e : o1 = o2
    · exact e
    · simp [cmpVals, e] at h1
  · by_cases e : n1 = n2
    · exact e
    · simp [cmpVals, e] at h2
  · intro hf
    by_cases e : s1 = s2
    · exact e
    · simp [cmpVals, e, hf] at h3

/-- non-vacuity: a concrete entry that `EntryDetail.Validate` accepts (routing 23138010, check digit 4) -/
def sampleEntry : Ctx where
  fields := [("TransactionCode", .int 22), ("RDFIIdentification", .str "23138010".toList), ("CheckDigit", .str "4".toList),
    ("DFIAccountNumber", .str "12345678".toList), ("Amount", .int 100000), ("IdentificationNumber", .str "".toList),
    ("IndividualName", .str "Receiver Account Name".toList), ("DiscretionaryData", .str "".toList),
    ("AddendaRecordIndicator", .int 0), ("TraceNumber", .str "121042880000001".toList), ("Category", .str "Forward".toList)]
  recvFlags := []
  paramFlags := []
  ext := []

example : run sampleEntry v_EntryDetail_Validate = .accept := by decide +kernel
example : atoi "4".toList = some (calculateCheckDigit (stringField "23138010".toList 8)) := by decide +kernel

end Ach.Props.Accepted
