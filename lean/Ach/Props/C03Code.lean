import Ach.Props.AcceptedEntries
import Ach.Props.AcceptedCount
import Ach.Props.AcceptedAmounts
import Ach.Props.AcceptedAscending
import Ach.Props.AcceptedTraces
/-!
# C03 for standard batches, stated once, on the validation code translated from the source on this run

`StdBatch c` describes a standard (non-ADV) batch stored in a context: where its header, control and entries are and
what the fields hold that the property speaks about.  `c03_standard_batch` is the property's batch-level statement at
full strength for such a batch of any size under the default options: one hypothesis — `Batch.verify()` returned nil —
and every clause as a conclusion.  (Each clause is proved in its own `Ach.Props.Accepted*` module; the options that
relax a clause are named there.)
-/
namespace Ach.Props.C03Code
open Ach Ach.GoLite Ach.Gen

structure StdBatch (c : Ctx) where
  hp : String
  cp : String
  p : String
  n : Nat
  sec : Str
  hH : lookup c.fields (joinPath c.recv "Header") = .ref hp
  hC : lookup c.fields (joinPath c.recv "Control") = .ref cp
  hE : lookup c.fields (joinPath c.recv "Entries") = .lst p n
  hsec : lookup c.fields (joinPath hp "StandardEntryClassCode") = .str sec
  hnadv : sec ≠ ['A', 'D', 'V']
  -- header / control fields
  hscc : Int
  cscc : Int
  hbn : Int
  cbn : Int
  hodfi : Str
  codfi : Str
  hcid : Str
  ccid : Str
  h1 : lookup c.fields (joinPath hp "ServiceClassCode") = .int hscc
  h2 : lookup c.fields (joinPath cp "ServiceClassCode") = .int cscc
  h3 : lookup c.fields (joinPath hp "CompanyIdentification") = .str hcid
  h4 : lookup c.fields (joinPath cp "CompanyIdentification") = .str ccid
  h5 : lookup c.fields (joinPath hp "ODFIIdentification") = .str hodfi
  h6 : lookup c.fields (joinPath cp "ODFIIdentification") = .str codfi
  h7 : lookup c.fields (joinPath hp "BatchNumber") = .int hbn
  h8 : lookup c.fields (joinPath cp "BatchNumber") = .int cbn
  -- control figures
  count : Int
  hash : Int
  credit : Int
  debit : Int
  k1 : lookup c.fields (joinPath cp "EntryAddendaCount") = .int count
  k2 : lookup c.fields (joinPath cp "EntryHash") = .int hash
  k3 : lookup c.fields (joinPath cp "TotalCreditEntryDollarAmount") = .int credit
  k4 : lookup c.fields (joinPath cp "TotalDebitEntryDollarAmount") = .int debit
  -- entries
  rdfi : Nat → Str
  cd : Nat → Str
  tr : Nat → Str
  tc : Nat → Int
  am : Nat → Int
  cnt : Nat → Int
  e1 : ∀ i, i < n → lookup c.fields (joinPath (elemPath p i) "RDFIIdentification") = .str (rdfi i)
  e2 : ∀ i, i < n → lookup c.fields (joinPath (elemPath p i) "CheckDigit") = .str (cd i)
  e3 : ∀ i, i < n → lookup c.fields (joinPath (elemPath p i) "TraceNumber") = .str (tr i)
  e4 : ∀ i, i < n → lookup c.fields (joinPath (elemPath p i) "TransactionCode") = .int (tc i)
  e5 : ∀ i, i < n → lookup c.fields (joinPath (elemPath p i) "Amount") = .int (am i)
  e6 : ∀ i, i < n → Ach.Props.AcceptedCount.addendaCountOf c (elemPath p i) = some (cnt i)
  ascii : ∀ i, i < n → allAscii (rdfi i) = true

/-- no relaxation option is on in the receiver's stored options -/
def defaultOpts (c : Ctx) : Prop :=
  ∀ f, hasFlag c "recv" f = false

/-- C03, standard batches, on the translated code: an accepted batch satisfies the control arithmetic -/
theorem c03_standard_batch (c : Ctx) (B : StdBatch c) (hdef : defaultOpts c) (ha : run c v_Batch_verify = .accept) :
    -- the control's entry/addenda count, hash and totals are those recomputed from the entries
    B.count = ((List.range B.n).map (fun i => 1 + B.cnt i)).sum ∧
    B.hash = leastSignificantDigits (((List.range B.n).map (fun i => Ach.Props.AcceptedHash.rdfiNumber (B.rdfi i))).sum) 10 ∧
    B.credit = ((List.range B.n).map (fun i => Ach.Props.AcceptedAmounts.creditPart (B.tc i) (B.am i))).sum ∧
    B.debit = ((List.range B.n).map (fun i => Ach.Props.AcceptedAmounts.debitPart (B.tc i) (B.am i))).sum ∧
    -- header and control agree
    B.hscc = B.cscc ∧ B.hodfi = B.codfi ∧ B.hbn = B.cbn ∧ B.hcid = B.ccid ∧
    -- every entry: check digit, amount in field, trace number begins with the ODFI
    (∀ i, i < B.n → atoi (B.cd i) = some (calculateCheckDigit (stringField (B.rdfi i) 8))) ∧
    (∀ i, i < B.n → 0 ≤ B.am i ∧ B.am i ≤ 9999999999) ∧
    (∀ i, i < B.n → Ach.Props.AcceptedTraces.tracePrefix (B.tr i) = .str (stringField B.hodfi 8)) ∧
    -- trace numbers strictly ascend
    Ach.Props.AcceptedAscending.ascending B.tr ['0'] (List.range B.n) := by
  obtain ⟨a1, a2, a3, a4⟩ := Ach.Props.Accepted.accepted_batch_header_control_agree c B.hp B.cp B.sec B.hcid B.ccid B.hodfi B.codfi
    B.hbn B.cbn B.hscc B.cscc B.hH B.hC B.hsec B.hnadv B.h1 B.h2 B.h3 B.h4 B.h5 B.h6 B.h7 B.h8 ha
  obtain ⟨t1, t2⟩ := Ach.Props.AcceptedAmounts.accepted_batch_totals c B.hp B.cp B.p B.n B.tc B.am B.sec B.credit B.debit
    B.hH B.hsec B.hnadv B.hC B.k3 B.k4 B.hE B.e4 B.e5 ha
  refine ⟨?_, ?_, t1, t2, a3 (hdef _), a1, a2, a4 (hdef _), ?_, ?_, ?_, ?_⟩
  · exact Ach.Props.AcceptedCount.accepted_batch_entry_count c B.hp B.cp B.p B.n B.cnt B.sec B.count (hdef _) B.hH B.hsec B.hnadv
      B.hC B.k1 B.hE B.e6 ha
  · exact Ach.Props.AcceptedHash.accepted_batch_entry_hash_ascii c B.hp B.cp B.p B.n B.rdfi B.sec B.hash B.hH B.hsec B.hnadv
      B.hC B.k2 B.hE B.e1 B.ascii ha
  · intro i hi
    exact Ach.Props.AcceptedEntries.accepted_batch_every_entry c B.hp B.p B.n B.sec B.rdfi B.cd B.hH B.hsec B.hnadv B.hE B.e1 B.e2
      ha i hi (hdef _)
  · exact Ach.Props.AcceptedEntries.accepted_batch_every_amount c B.hp B.p B.n B.sec B.am B.hH B.hsec B.hnadv B.hE B.e5 ha
  · exact Ach.Props.AcceptedTraces.accepted_batch_traces_begin_with_odfi c B.hp B.p B.n B.tr B.hodfi (hdef _) (hdef _) B.hH B.h5
      B.hE B.e3 ha
  · exact Ach.Props.AcceptedAscending.accepted_batch_traces_ascend c B.hp B.p B.n B.tr B.sec (hdef _) B.hH B.hsec B.hnadv B.hE
      B.e3 ha

end Ach.Props.C03Code
