import Ach.Model.Segment
import Ach.Generated.Topics
/-!
# C11 — SegmentFile partitions a file into credits and debits without loss  (standard batches)

* `segment_partition` — the entries of the credit file and of the debit file together are a permutation of the input's;
* `segment_directions` — the credit file holds only credit entries, the debit file only debit entries;
* `segment_totals` — for any class of entries the totals of the two outputs add up to the input's;
* `segment_lists_disjoint` (F) — no code is in both case lists of `segmentFileBatchAddEntry`, and every standard entry code
  is in one of them (otherwise entries of mixed batches would be duplicated or silently dropped);
* `segment_numbers_ok_iff` — the exact condition under which the numbering of the two outputs validates, in terms of the
  input's batch numbers, and `segment_counterexample_D8`: it fails for [debit#1, debit#2, credit#3, mixed#4]
  (known finding D8: re-used batches keep their number while split batches are renumbered by position);
* `create_numbers_*` — the numbering rule of `File.Create`: all-absent numbers become 1..n; a second Create changes nothing;
  a preset first number with absent later ones is NOT ascending (`create_numbers_counterexample`, known finding of C05).

IAT batches: `segmentFileIATBatches` has the same shape with its own generated case lists, and
`segment_iat_lists_same` (F) shows they *are* the standard lists on the current source — so `segOne` / `segment` is also
the model of the IAT splitter and every theorem above holds for IAT batches; the `segmentiat` correspondence stream
runs the real `SegmentFile` on IAT-only and mixed files against it (fresh halves numbered 1, one numbering pass over
standard then IAT batches, only the standard numbers validated).  ADV batches (`segmentFileBatchAddADVEntry`): oracle.
`Create`/`Validate` of the outputs: C05/C03.
-/
namespace Ach.Props.C11
open Ach Ach.Gen Ach.Segment

/-- F: the two case lists are disjoint and cover the standard entry codes -/
theorem segment_lists_disjoint :
    (∀ c ∈ segCreditCodes, !segDebitCodes.contains c) ∧
    (∀ c ∈ standardEntryCodes, segCreditCodes.contains c || segDebitCodes.contains c) ∧
    (∀ c ∈ segCreditCodes, creditOrDebit c = .credit) ∧ (∀ c ∈ segDebitCodes, creditOrDebit c = .debit) := by decide

/-- F: the case lists of `segmentFileIATBatches` are the case lists of `segmentFileBatchAddEntry` -/
theorem segment_iat_lists_same : segIatCreditCodes = segCreditCodes ∧ segIatDebitCodes = segDebitCodes := by decide

theorem filter_partition {α} (p q : α → Bool) : ∀ (l : List α), (∀ a ∈ l, (p a = true ∧ q a = false) ∨ (p a = false ∧ q a = true)) →
    (l.filter p ++ l.filter q).Perm l
  | [], _ => by simp
  | a :: l, h => by
    have ih := filter_partition p q l (fun b hb => h b (List.mem_cons_of_mem _ hb))
    rcases h a (List.mem_cons_self ..) with ⟨hp, hq⟩ | ⟨hp, hq⟩
    · simp only [List.filter_cons, hp, hq, if_true, Bool.false_eq_true, if_false, List.cons_append]
      exact List.Perm.cons a ih
    · simp only [List.filter_cons, hp, hq, if_true, Bool.false_eq_true, if_false]
      exact (List.perm_middle).trans (List.Perm.cons a ih)

theorem exclusive (e : SEntry) (h : isSegCredit e = true ∨ isSegDebit e = true) :
    (isSegCredit e = true ∧ isSegDebit e = false) ∨ (isSegCredit e = false ∧ isSegDebit e = true) := by
  have hd := segment_lists_disjoint.1
  unfold isSegCredit isSegDebit at *
  by_cases hc : segCreditCodes.contains e.code = true
  · left
    have := hd e.code (by simpa using hc)
    exact ⟨hc, by simpa using this⟩
  · right
    have hc' : segCreditCodes.contains e.code = false := by simpa using hc
    rcases h with h | h
    · exact absurd h hc
    · exact ⟨hc', h⟩

theorem allEntries_append (a b : List SBatch) : allEntries (a ++ b) = allEntries a ++ allEntries b := by
  simp [allEntries]

theorem segOne_partition (b : SBatch) (hc : Consistent b) :
    (allEntries (segOne b).1 ++ allEntries (segOne b).2).Perm b.entries := by
  obtain ⟨hsc, hcov, _, _⟩ := hc
  unfold segOne
  rcases hsc with h | h | h
  · simp only [h, if_true]
    have hp := filter_partition isSegCredit isSegDebit b.entries (fun e he => exclusive e (hcov e he))
    by_cases h1 : (b.entries.filter isSegCredit).isEmpty = true <;> by_cases h2 : (b.entries.filter isSegDebit).isEmpty = true
    all_goals (simp only [h1, h2, if_true, if_false, Bool.false_eq_true, allEntries, List.flatMap_cons, List.flatMap_nil, List.append_nil, List.nil_append])
    · have e1 : b.entries.filter isSegCredit = [] := by simpa using h1
      have e2 : b.entries.filter isSegDebit = [] := by simpa using h2
      rw [e1, e2] at hp; simpa using hp
    · have e1 : b.entries.filter isSegCredit = [] := by simpa using h1
      rw [e1] at hp; simpa using hp
    · have e2 : b.entries.filter isSegDebit = [] := by simpa using h2
      rw [e2] at hp; simpa using hp
    · exact hp
  · simp [h, allEntries, K.CreditsOnly, K.MixedDebitsAndCredits, K.DebitsOnly]
  · simp [h, allEntries, K.CreditsOnly, K.MixedDebitsAndCredits, K.DebitsOnly]

/-- **segment_partition** -/
theorem segment_partition : ∀ (bs : List SBatch), (∀ b ∈ bs, Consistent b) →
    (allEntries (segment bs).1 ++ allEntries (segment bs).2).Perm (allEntries bs)
  | [], _ => by simp [segment, allEntries]
  | b :: bs, h => by
    have ih := segment_partition bs (fun x hx => h x (List.mem_cons_of_mem _ hx))
    have h1 := segOne_partition b (h b (List.mem_cons_self ..))
    simp only [segment, allEntries_append]
    have : allEntries (b :: bs) = b.entries ++ allEntries bs := by simp [allEntries]
    rw [this]
    -- (c1 ++ cs) ++ (d1 ++ ds) ~ (c1 ++ d1) ++ (cs ++ ds)
    have hperm : ((allEntries (segOne b).1 ++ allEntries (segment bs).1) ++ (allEntries (segOne b).2 ++ allEntries (segment bs).2)).Perm
        ((allEntries (segOne b).1 ++ allEntries (segOne b).2) ++ (allEntries (segment bs).1 ++ allEntries (segment bs).2)) := by
      simp only [List.append_assoc]
      refine List.Perm.append_left _ ?_
      rw [← List.append_assoc, ← List.append_assoc]
      exact List.Perm.append_right _ List.perm_append_comm
    exact hperm.trans (List.Perm.append h1 ih)

/-! ### totals -/

def amountSum (p : SEntry → Bool) (es : List SEntry) : Int := ((es.filter p).map (·.amount)).sum

theorem total_eq_amountSum (p : SEntry → Bool) (es : List SEntry) : total p es = amountSum p es := by
  unfold total amountSum
  generalize es.filter p = l
  have : ∀ (l : List SEntry) (a : Int), l.foldl (fun acc e => acc + e.amount) a = a + (l.map (·.amount)).sum := by
    intro l
    induction l with
    | nil => intro a; simp
    | cons x xs ih => intro a; simp only [List.foldl_cons, ih, List.map_cons, List.sum_cons]; omega
  rw [this]; omega

theorem amountSum_perm (p : SEntry → Bool) {a b : List SEntry} (h : a.Perm b) : amountSum p a = amountSum p b := by
  induction h with
  | nil => rfl
  | cons x _ ih => unfold amountSum at *; by_cases hx : p x = true <;> simp [List.filter_cons, hx, ih]
  | swap x y l =>
    unfold amountSum
    by_cases hx : p x = true <;> by_cases hy : p y = true <;> simp [List.filter_cons, hx, hy] <;> omega
  | trans _ _ ih1 ih2 => exact ih1.trans ih2

theorem amountSum_append (p : SEntry → Bool) (a b : List SEntry) : amountSum p (a ++ b) = amountSum p a + amountSum p b := by
  simp [amountSum, List.filter_append, List.sum_append]

/-- **segment_totals**: for any class of entries (credits, debits, …) the totals of the two outputs add up to the input's -/
theorem segment_totals (bs : List SBatch) (hc : ∀ b ∈ bs, Consistent b) (p : SEntry → Bool) :
    total p (allEntries (segment bs).1) + total p (allEntries (segment bs).2) = total p (allEntries bs) := by
  rw [total_eq_amountSum, total_eq_amountSum, total_eq_amountSum, ← amountSum_append]
  exact amountSum_perm p (segment_partition bs hc)

theorem segOne_directions (b : SBatch) (hc : Consistent b) :
    (∀ e ∈ allEntries (segOne b).1, isSegCredit e = true) ∧ (∀ e ∈ allEntries (segOne b).2, isSegDebit e = true) := by
  obtain ⟨hsc, _, h220, h225⟩ := hc
  unfold segOne
  rcases hsc with h | h | h
  · simp only [h, if_true]
    constructor
    · intro e he
      split at he
      · simp [allEntries] at he
      · simp [allEntries] at he; exact he.2
    · intro e he
      split at he
      · simp [allEntries] at he
      · simp [allEntries] at he; exact he.2
  · have e1 : (if b.sc = K.MixedDebitsAndCredits then
          ((if (b.entries.filter isSegCredit).isEmpty then [] else [⟨K.CreditsOnly, 1, b.entries.filter isSegCredit⟩]),
           (if (b.entries.filter isSegDebit).isEmpty then [] else [⟨K.DebitsOnly, 1, b.entries.filter isSegDebit⟩]))
        else if b.sc = K.CreditsOnly then ([b], []) else if b.sc = K.DebitsOnly then ([], [b]) else ([], [])) = (([b], []) : List SBatch × List SBatch) := by
      simp [h, K.CreditsOnly, K.MixedDebitsAndCredits]
    rw [e1]
    exact ⟨by intro e he; simp [allEntries] at he; exact h220 h e he, by intro e he; simp [allEntries] at he⟩
  · have e1 : (if b.sc = K.MixedDebitsAndCredits then
          ((if (b.entries.filter isSegCredit).isEmpty then [] else [⟨K.CreditsOnly, 1, b.entries.filter isSegCredit⟩]),
           (if (b.entries.filter isSegDebit).isEmpty then [] else [⟨K.DebitsOnly, 1, b.entries.filter isSegDebit⟩]))
        else if b.sc = K.CreditsOnly then ([b], []) else if b.sc = K.DebitsOnly then ([], [b]) else ([], [])) = (([], [b]) : List SBatch × List SBatch) := by
      simp [h, K.CreditsOnly, K.MixedDebitsAndCredits, K.DebitsOnly]
    rw [e1]
    exact ⟨by intro e he; simp [allEntries] at he, by intro e he; simp [allEntries] at he; exact h225 h e he⟩

/-- **segment_directions** -/
theorem segment_directions : ∀ (bs : List SBatch), (∀ b ∈ bs, Consistent b) →
    (∀ e ∈ allEntries (segment bs).1, isSegCredit e = true) ∧ (∀ e ∈ allEntries (segment bs).2, isSegDebit e = true)
  | [], _ => by simp [segment, allEntries]
  | b :: bs, h => by
    obtain ⟨i1, i2⟩ := segment_directions bs (fun x hx => h x (List.mem_cons_of_mem _ hx))
    obtain ⟨o1, o2⟩ := segOne_directions b (h b (List.mem_cons_self ..))
    simp only [segment, allEntries_append]
    constructor
    · intro e he; rcases List.mem_append.1 he with he | he
      · exact o1 e he
      · exact i1 e he
    · intro e he; rcases List.mem_append.1 he with he | he
      · exact o2 e he
      · exact i2 e he

/-- the success condition of the numbering, stated outright -/
theorem segment_numbers_ok_iff (bs : List SBatch) :
    segmentNumbersOK bs = true ↔
      ascending 0 (createNumbers 1 ((segment bs).1.map (·.number))) = true ∧
      ascending 0 (createNumbers 1 ((segment bs).2.map (·.number))) = true := by
  simp [segmentNumbersOK]

/-- known finding D8 on the model: a re-used credit batch #3 followed by the credit half of a mixed batch -/
theorem segment_counterexample_D8 :
    segmentNumbersOK [⟨225, 1, [⟨27, 1, 0⟩]⟩, ⟨225, 2, [⟨27, 1, 1⟩]⟩, ⟨220, 3, [⟨22, 1, 2⟩]⟩, ⟨200, 4, [⟨22, 1, 3⟩, ⟨27, 1, 4⟩]⟩] = false := by
  decide

/-! ## `File.Create`'s batch numbering -/

theorem create_numbers_absent : ∀ (pos : Nat) (ns : List Int), 1 ≤ pos → (∀ n ∈ ns, n ≤ 1) →
    createNumbers pos ns = (List.range ns.length).map (fun i => ((pos + i : Nat) : Int)) ∧ ascending (pos - 1 : Nat) (createNumbers pos ns) = true
  | _, [], _, _ => by simp [createNumbers, ascending]
  | pos, n :: ns, hp, h => by
    obtain ⟨i1, i2⟩ := create_numbers_absent (pos + 1) ns (by omega) (fun x hx => h x (List.mem_cons_of_mem _ hx))
    have hn := h n (List.mem_cons_self ..)
    simp only [createNumbers, hn, if_true, List.length_cons, List.range_succ_eq_map, List.map_cons, List.map_map, ascending]
    refine ⟨?_, ?_⟩
    · rw [i1]
      simp only [List.cons.injEq, Nat.add_zero, true_and]
      apply List.map_congr_left
      intro a _; simp; omega
    · simp only [Bool.and_eq_true, decide_eq_true_eq]
      refine ⟨by omega, ?_⟩
      have : ((pos + 1 - 1 : Nat) : Int) = (pos : Int) := by omega
      rw [← this]; exact i2

/-- a second `Create` leaves the numbers alone -/
theorem create_numbers_idempotent : ∀ (pos : Nat) (ns : List Int), 1 ≤ pos →
    createNumbers pos (createNumbers pos ns) = createNumbers pos ns
  | _, [], _ => rfl
  | pos, n :: ns, hp => by
    simp only [createNumbers]
    rw [create_numbers_idempotent (pos + 1) ns (by omega)]
    congr 1
    by_cases h : n ≤ 1
    · simp only [h, if_true]
      split <;> rfl
    · simp [h]

/-- known finding (C05): first batch number preset to 5, second absent ⇒ 5, 2 -/
theorem create_numbers_counterexample : createNumbers 1 [5, 0] = [5, 2] ∧ ascending 0 (createNumbers 1 [5, 0]) = false := by decide

/-! ## The headers of the outputs (F): "carries the input's origin, destination and batch identification" -/

def fieldsOf (h : String) : List String := (headerFields.lookup h).getD []

/-- the header constructor `fn` copies field `f` of its input header into the same field of the new header, outside any
condition -/
def copiedBy (fn f : String) : Bool := ((headerCopies.lookup fn).getD []).contains (f, "copy", f)

/-- C11, headers (F) — read off the three header constructors of SegmentFile on every run:
* every exported field of `BatchHeader` is copied by `createSegmentFileBatchHeader`, except the record's ID and line
  number, the service class (the parameter: credits-only / debits-only), the batch number (`Create` renumbers) and the
  originator status code (copied unless the half is an ADV batch, where it must be 0);
* every exported field of `IATBatchHeader` is copied by `createSegmentFileIATBatchHeader`, except ID, line number,
  service class and batch number — the IAT indicator, the exchange reference, the dates and the originator status code
  included (they were dropped until the repair 60b5745d);
* `addFileHeaderData` copies origin, destination, their names and the file ID modifier;
* no constructor copies a field from a *different* field, and the fields listed exist. -/
theorem segment_headers_carry_identification :
    (fieldsOf "BatchHeader").all (fun f =>
      ["ID", "LineNumber", "ServiceClassCode", "BatchNumber", "OriginatorStatusCode"].contains f ||
        copiedBy "createSegmentFileBatchHeader" f) = true ∧
    ((headerCopies.lookup "createSegmentFileBatchHeader").getD []).filter (fun r => r.1 == "OriginatorStatusCode") =
      [("OriginatorStatusCode", "cond", "0"), ("OriginatorStatusCode", "cond", "bh.OriginatorStatusCode")] ∧
    (fieldsOf "IATBatchHeader").all (fun f =>
      ["ID", "LineNumber", "ServiceClassCode", "BatchNumber"].contains f ||
        copiedBy "createSegmentFileIATBatchHeader" f) = true ∧
    ["ImmediateOrigin", "ImmediateDestination", "ImmediateOriginName", "ImmediateDestinationName", "FileIDModifier"].all
      (copiedBy "File.addFileHeaderData") = true ∧
    headerCopies.all (fun fr => fr.2.all fun r => r.2.1 != "copy" || r.1 == r.2.2) = true ∧
    (fieldsOf "BatchHeader").length = 14 ∧ (fieldsOf "IATBatchHeader").length = 18 ∧
    (["CompanyName", "CompanyIdentification", "StandardEntryClassCode", "CompanyEntryDescription", "ODFIIdentification",
      "EffectiveEntryDate"].all fun f => (fieldsOf "BatchHeader").contains f) = true ∧
    (["IATIndicator", "OriginatorIdentification", "StandardEntryClassCode", "CompanyEntryDescription", "ODFIIdentification",
      "EffectiveEntryDate"].all fun f => (fieldsOf "IATBatchHeader").contains f) = true := by
  decide +kernel

/-- F: the functions `Ach.Model.Segment` mirrors by hand (SegmentFile, the per-batch splitters, the header constructors) have the bodies the model was written against -/
theorem segment_functions_unchanged : hashes_segment = [("File.SegmentFile", 13382111466087461002), ("File.segmentFileBatches", 6167992373480065987), ("File.segmentFileIATBatches", 11778474974154883340), ("createSegmentFileBatchHeader", 13354888556795180255), ("createSegmentFileIATBatchHeader", 8818337052643274741), ("File.addFileHeaderData", 4548902521698568283), ("segmentFileBatchAddEntry", 1995362411199939596), ("segmentFileBatchAddADVEntry", 7132616929126295992)] := by decide +kernel

end Ach.Props.C11
