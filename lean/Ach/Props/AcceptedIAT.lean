import Ach.Props.AcceptedAmounts
import Ach.Props.AcceptedAscending
/-!
# The same for IAT batches: hash, totals, trace numbers (C03)

`IATBatch.calculateEntryHash`, `calculateBatchAmounts`, `isSequenceAscending` walk the IAT entries with the very loop
bodies of the standard batch (shown by evaluation); there is no ADV branch.  `IATBatch.verify` runs them as statements
8 – 11 of its body.
-/
namespace Ach.Props.AcceptedIAT
open Ach Ach.GoLite Ach.Gen
open Ach.Props.AcceptedHash Ach.Props.AcceptedAmounts Ach.Props.AcceptedAscending

/-! ## entry hash -/

def iatHashProg : Prog :=
  seqs [(.bind "hash" (.int 0)), (.forEach "entry" (.fld "Entries") hashBody),
    (.ret (.call2 "leastSignificantDigits" (.var "hash") (.int 10)))]

theorem iat_calculateEntryHash_shape : v_IATBatch_calculateEntryHash = iatHashProg := by decide +kernel

theorem iat_hashBody_exec (c : Ctx) (ep : String) (r : Str) (v a : Int) (rest : Locals)
    (hr : lookup c.fields (joinPath ep "RDFIIdentification") = .str r)
    (hv : rdfiContribution c r = some v) :
    (exec hashBody c (("entry", .ref ep) :: ("hash", .int a) :: rest)).2 = .next ∧
    scopeExit (("hash", Val.int a) :: rest) (exec hashBody c (("entry", .ref ep) :: ("hash", .int a) :: rest)).1 =
      ("hash", .int (a + v)) :: rest := by
  unfold rdfiContribution at hv
  generalize hS : (exec v_aba8 c [("rtn", Val.str r)]).2 = S at hv
  cases S with
  | ret w =>
      cases w with
      | str s =>
          simp only at hv
          generalize hA : builtin1 c.ext "strconv.Atoi" (Val.str s) = A at hv
          cases A with
          | pair x y =>
              cases x with
              | int v' =>
                  simp at hv
                  subst hv
                  simp [hashBody, seqs, exec, eval, lookup, hr, hS, subResult, hA, arith, update, scopeExit]
              | _ => simp at hv
          | _ => simp at hv
      | _ => simp at hv
  | _ => simp at hv

theorem iat_hash_iter (c : Ctx) (p : String) (n : Nat) (r : Nat → Str) (hv : Nat → Int) (rest : Locals)
    (hr : ∀ i, i < n → lookup c.fields (joinPath (elemPath p i) "RDFIIdentification") = .str (r i))
    (hc : ∀ i, i < n → rdfiContribution c (r i) = some (hv i)) :
    ∀ is : List Nat, (∀ i ∈ is, i < n) → ∀ a : Int,
      iter (fun l' => exec hashBody c l') (fun i => .ref (elemPath p i)) "entry" is (("hash", .int a) :: rest) =
        (("hash", .int (a + (is.map hv).sum)) :: rest, .next) := by
  intro is
  induction is with
  | nil => intro _ a; simp [iter]
  | cons j is ih =>
      intro hlt a
      have hj := hlt j (List.mem_cons_self ..)
      obtain ⟨h1, h2⟩ := iat_hashBody_exec c (elemPath p j) (r j) (hv j) a rest (hr j hj) (hc j hj)
      simp only [iter, h1, h2]
      rw [ih (fun k hk => hlt k (List.mem_cons_of_mem _ hk)) (a + hv j)]
      simp only [List.map_cons, List.sum_cons]
      have : a + hv j + (List.map hv is).sum = a + (hv j + (List.map hv is).sum) := by omega
      rw [this]

theorem iat_calculateEntryHash_spec (c : Ctx) (p : String) (n : Nat) (r : Nat → Str) (hv : Nat → Int)
    (hE : lookup c.fields (joinPath c.recv "Entries") = .lst p n)
    (hr : ∀ i, i < n → lookup c.fields (joinPath (elemPath p i) "RDFIIdentification") = .str (r i))
    (hc : ∀ i, i < n → rdfiContribution c (r i) = some (hv i)) :
    (exec v_IATBatch_calculateEntryHash c []).2 = .ret (.int (leastSignificantDigits (((List.range n).map hv).sum) 10)) := by
  rw [iat_calculateEntryHash_shape]
  have hit := iat_hash_iter c p n r hv [] hr hc (List.range n) (fun k hk => List.mem_range.mp hk) 0
  simp [iatHashProg, seqs, exec, eval, hE, lookup, hit, builtin2]

def iatIsHashProg : Prog :=
  seqs [(seqs [(.sub "_t1" [] [] v_IATBatch_calculateEntryHash), (.bind "hashField" (.var "_t1"))]),
    (.ite (.ne (.var "hashField") (.sel (.fld "Control") "EntryHash")) (.ret (.mkErr "EntryHash")) .skip),
    (.ret .nil)]

theorem iat_isEntryHash_shape : v_IATBatch_isEntryHash = iatIsHashProg := by decide +kernel

theorem iat_isEntryHash_accepts (c : Ctx) (cp : String) (H e : Int)
    (hC : lookup c.fields (joinPath c.recv "Control") = .ref cp)
    (he : lookup c.fields (joinPath cp "EntryHash") = .int e)
    (hcalc : (exec v_IATBatch_calculateEntryHash c []).2 = .ret (.int H))
    (h : (exec v_IATBatch_isEntryHash c []).2 = .ret (.err none)) : e = H := by
  rw [iat_isEntryHash_shape] at h
  by_cases heq : H = e
  · exact heq.symm
  · simp [iatIsHashProg, seqs, exec, eval, hC, he, hcalc, subResult, lookup, cmpVals, scopeExit, heq] at h

/-! ## totals -/

theorem iat_calculateBatchAmounts_shape : v_IATBatch_calculateBatchAmounts = amountsProg := by decide +kernel

theorem iat_calculateBatchAmounts_spec (c : Ctx) (p : String) (n : Nat) (tc am : Nat → Int)
    (hE : lookup c.fields (joinPath c.recv "Entries") = .lst p n)
    (ht : ∀ i, i < n → lookup c.fields (joinPath (elemPath p i) "TransactionCode") = .int (tc i))
    (ha : ∀ i, i < n → lookup c.fields (joinPath (elemPath p i) "Amount") = .int (am i)) :
    (exec v_IATBatch_calculateBatchAmounts c []).2 =
      .ret (.pair (.int (((List.range n).map (fun i => creditPart (tc i) (am i))).sum))
        (.int (((List.range n).map (fun i => debitPart (tc i) (am i))).sum))) := by
  rw [iat_calculateBatchAmounts_shape, ← calculateBatchAmounts_shape]
  exact calculateBatchAmounts_spec c p n tc am hE ht ha

def iatIsAmountProg : Prog :=
  seqs [(seqs [(.sub "_t1" [] [] v_IATBatch_calculateBatchAmounts), (.bind2 "credit" "debit" (.var "_t1"))]),
    (.ite (.ne (.var "debit") (.sel (.fld "Control") "TotalDebitEntryDollarAmount")) (.ret (.mkErr "TotalDebitEntryDollarAmount")) .skip),
    (.ite (.ne (.var "credit") (.sel (.fld "Control") "TotalCreditEntryDollarAmount")) (.ret (.mkErr "TotalCreditEntryDollarAmount")) .skip),
    (.ret .nil)]

theorem iat_isBatchAmount_shape : v_IATBatch_isBatchAmount = iatIsAmountProg := by decide +kernel

theorem iat_isBatchAmount_accepts (c : Ctx) (cp : String) (C D tcr tdb : Int)
    (hC : lookup c.fields (joinPath c.recv "Control") = .ref cp)
    (hcr : lookup c.fields (joinPath cp "TotalCreditEntryDollarAmount") = .int tcr)
    (hdb : lookup c.fields (joinPath cp "TotalDebitEntryDollarAmount") = .int tdb)
    (hcalc : (exec v_IATBatch_calculateBatchAmounts c []).2 = .ret (.pair (.int C) (.int D)))
    (h : (exec v_IATBatch_isBatchAmount c []).2 = .ret (.err none)) : tcr = C ∧ tdb = D := by
  rw [iat_isBatchAmount_shape] at h
  by_cases h1 : D = tdb <;> by_cases h2 : C = tcr <;>
    simp [iatIsAmountProg, seqs, exec, eval, hC, hcr, hdb, hcalc, subResult, lookup, cmpVals, scopeExit, h1, h2] at h ⊢

/-! ## `IATBatch.verify` -/

theorem iat_verify_outline :
    (stmts v_IATBatch_verify).drop 8 =
      (.check none v_IATBatch_isBatchAmount) :: (.check none v_IATBatch_isEntryHash) :: (stmts v_IATBatch_verify).drop 10 ∧
    (stmts v_IATBatch_verify).drop 10 ≠ [] ∧
    ((stmts v_IATBatch_verify).take 8).all (fun q => rejectOnly q && noAssign q) = true := by
  decide +kernel

/-- C03, IAT batches — for every IAT batch value, of any size: if `IATBatch.verify()` (translated from the source on this
run) returns nil, the control's debit and credit totals are the sums of the entries' amounts by transaction code and its
entry hash is the ten least significant digits of the sum of the numbers read from the routing numbers -/
theorem accepted_iat_batch_totals_and_hash (c : Ctx) (cp p : String) (n : Nat) (tc am : Nat → Int) (r : Nat → Str)
    (hv : Nat → Int) (tcr tdb e : Int)
    (hC : lookup c.fields (joinPath c.recv "Control") = .ref cp)
    (hcr : lookup c.fields (joinPath cp "TotalCreditEntryDollarAmount") = .int tcr)
    (hdb : lookup c.fields (joinPath cp "TotalDebitEntryDollarAmount") = .int tdb)
    (he : lookup c.fields (joinPath cp "EntryHash") = .int e)
    (hE : lookup c.fields (joinPath c.recv "Entries") = .lst p n)
    (ht : ∀ i, i < n → lookup c.fields (joinPath (elemPath p i) "TransactionCode") = .int (tc i))
    (ham : ∀ i, i < n → lookup c.fields (joinPath (elemPath p i) "Amount") = .int (am i))
    (hr : ∀ i, i < n → lookup c.fields (joinPath (elemPath p i) "RDFIIdentification") = .str (r i))
    (hc : ∀ i, i < n → rdfiContribution c (r i) = some (hv i))
    (ha : run c v_IATBatch_verify = .accept) :
    tcr = ((List.range n).map (fun i => creditPart (tc i) (am i))).sum ∧
    tdb = ((List.range n).map (fun i => debitPart (tc i) (am i))).sum ∧
    e = leastSignificantDigits (((List.range n).map hv).sum) 10 := by
  have hres := Ach.Props.Validators.accept_ret c _ ha
  obtain ⟨hd, hne, hall⟩ := iat_verify_outline
  have hs : stmts v_IATBatch_verify = (stmts v_IATBatch_verify).take 8 ++ (stmts v_IATBatch_verify).drop 8 :=
    (List.take_append_drop _ _).symm
  obtain ⟨pre, hpre⟩ := accept_reaches c _ _ _ hs (by rw [hd]; simp) hall hres
  rw [hd, seqs_cons_ne _ _ (by simp)] at hpre
  have hA := check_passes c pre none _ (Ach.Props.Accepted.accept_seq_left (by decide) hpre)
  obtain ⟨pre2, h2⟩ := accept_seq (a := .check none v_IATBatch_isBatchAmount) (by decide) (by decide) hpre
  rw [seqs_cons_ne _ _ hne] at h2
  have hHh := check_passes c _ none _ (Ach.Props.Accepted.accept_seq_left (by decide) h2)
  obtain ⟨t1, t2⟩ := iat_isBatchAmount_accepts c cp _ _ tcr tdb hC hcr hdb
    (iat_calculateBatchAmounts_spec c p n tc am hE ht ham) hA
  exact ⟨t1, t2, iat_isEntryHash_accepts c cp _ e hC he (iat_calculateEntryHash_spec c p n r hv hE hr hc) hHh⟩


/-! ## the IAT entry's check digit -/

def iatCheckDigitTail : List Prog :=
  [(.bind "calculated" (.call1 "CalculateCheckDigit" (.call2 "stringField" (.fld "RDFIIdentification") (.int 8)))),
   (.bind2 "edCheckDigit" "err" (.call1 "strconv.Atoi" (.fld "CheckDigit"))),
   (.ite (.ne (.var "err") .nil) (.ret (.wrapErr "CheckDigit" (.nonNil (.var "err")))) .skip),
   (.ite (.ne (.var "calculated") (.var "edCheckDigit")) (.ret (.mkErr "RDFIIdentification")) .skip),
   (.ret .nil)]

theorem iat_entry_validate_ends_with_check_digit :
    stmts v_IATEntryDetail_Validate = Ach.Props.Accepted.frontOf v_IATEntryDetail_Validate 5 ++ iatCheckDigitTail ∧
    (Ach.Props.Accepted.frontOf v_IATEntryDetail_Validate 5).all (fun q => rejectOnly q && noAssign q) = true := by
  decide +kernel

/-- C03, IAT — every IAT entry value on which `IATEntryDetail.Validate()` (translated from the source on this run) returns
nil carries the check digit computed from the first eight characters of its routing number (no option switches this off
for IAT entries) -/
theorem accepted_iat_entry_check_digit (c : Ctx) (rdfi cd : Str)
    (hr : lookup c.fields (joinPath c.recv "RDFIIdentification") = .str rdfi)
    (hc : lookup c.fields (joinPath c.recv "CheckDigit") = .str cd)
    (ha : run c v_IATEntryDetail_Validate = .accept) :
    atoi cd = some (calculateCheckDigit (stringField rdfi 8)) := by
  have hres := Ach.Props.Validators.accept_ret c _ ha
  obtain ⟨hs, hall⟩ := iat_entry_validate_ends_with_check_digit
  obtain ⟨pre, h⟩ := accept_reaches c _ _ _ hs (by simp [iatCheckDigitTail]) hall hres
  have h8 : builtin2 "stringField" (Val.str rdfi) (Val.int 8) = .str (stringField rdfi 8) := by simp [builtin2]
  have hcalc : ∀ s : Str, builtin1 c.ext "CalculateCheckDigit" (Val.str s) = .int (calculateCheckDigit s) := by
    intro s; simp [builtin1]
  cases hat : atoi cd with
  | none =>
      have hatoi : builtin1 c.ext "strconv.Atoi" (Val.str cd) = .pair (.int 0) (.err (some "")) := by simp [builtin1, hat]
      simp [iatCheckDigitTail, seqs, exec, eval, hr, hc, h8, hcalc, hatoi, lookup, cmpVals, scopeExit] at h
  | some v =>
      by_cases hb : 18 < (signSplit cd).2.length ∧ (v = maxInt64 ∨ v = minInt64)
      · have hatoi : builtin1 c.ext "strconv.Atoi" (Val.str cd) = .bad := by
          simp [builtin1, hat]
          grind
        simp [iatCheckDigitTail, seqs, exec, eval, hr, hc, h8, hcalc, hatoi, scopeExit] at h
      · have hatoi : builtin1 c.ext "strconv.Atoi" (Val.str cd) = .pair (.int v) (.err none) := by
          simp [builtin1, hat]
          grind
        by_cases heq : calculateCheckDigit (stringField rdfi 8) = v
        · rw [heq]
        · simp [iatCheckDigitTail, seqs, exec, eval, hr, hc, h8, hcalc, hatoi, lookup, cmpVals, scopeExit, heq] at h

end Ach.Props.AcceptedIAT
