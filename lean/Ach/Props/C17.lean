import Ach.Proofs.Server
import Ach.Model.ServerDriver
import Ach.Generated.Sites
/-!
# C17 — The HTTP server is a faithful store: what goes in comes out

Model: `Ach.Server.step` (`Ach/Model/Server.lean`), one transition per decoded request, mirroring routing.go,
files.go, batches.go, service.go, repository.go; tied to the source by `server_functions_unchanged` (body hashes of
every mirrored function, regenerated on each run) and by the `server` correspondence stream
(`Ach.Server.runOps`, `Ach/Model/ServerDriver.lean`).

* `server_refines_map` — for **every** request sequence the repository state read as a function `Id → Option File`
  equals the fold of `specStep` over the empty map, and every response is the specification's.
* the clauses: `get_after_create`, `get_after_create_run`, `contents_is_writer_output`, `validate_is_library`,
  `build_is_library`, `flatten_is_library`, `segment_is_library`, `addBatch_is_library`, `getBatch_is_library`,
  `batches_is_library`, `delBatch_is_library`, `delete_then_not_found`, `duplicate_create_refused`,
  `server_key_isolation(_run)`, `server_inserts_only_fresh`.
* where the code is **not** a faithful store (stated exactly, to be checked against the real server):
  `create_stores_despite_parse_error`, `parse_error_masks_duplicate`, `get_after_build` (+ `build_changes_get_counterexample`),
  `read_requests_write_back`, `missing_id_statuses`, `status_never_created_conflict`,
  `derived_store_collision_is_200`.
  "Returned unchanged" therefore holds under `Stable L f` (the library's in-place `Create` / `FlattenBatches` /
  `SegmentFile` are the identity on the stored file — for `Create` on a parsed valid file that is property C05):
  `stored_file_stable`.

Trusted / modelled, not verified: the `ach` library calls are uninterpreted (`Lib`); value semantics for files (no
aliasing between stored files: `SegmentFile` shares `Batcher` pointers between source and parts, file.go:1180-1182);
`ValidateWith` and the Writer do not modify the file; `Flatten` always sets a non-empty ID (file.go:1277); the read-
after-write law of Go fields (`f.ID = x` then `f.ID == x`) is built into `decodeCreate` / `stampBatch`; wrapped
error strings never contain the substrings `codeFrom` looks for; sequential requests (concurrency is C18).
Not exhibited: HTTP parsing, gorilla/mux routing, go-kit encode/decode plumbing (decode failures before the endpoint,
a `POST /segment` JSON body without a "file" key), JSON encoding, the balance endpoint (excluded by the property),
the TTL cleanup goroutine.
-/
namespace Ach.Props.C17
open Ach.Server

variable {F T : Type}

/-! ## tie to the source -/

/-- every function of package server the model mirrors, with the hash of its normalised body -/
def modelled : List (String × Nat) := [
  ("MakeHTTPHandler", 7355924792161024232), ("codeFrom", 18082956264989600820),
  ("encodeResponse", 9302670982442540319), ("encodeTextResponse", 17490993346791174662),
  ("encodeError", 8754624342635834157), ("marshalStructWithError", 10946647436394874351),
  ("readValidateOpts", 14411612112246954803), ("GetLineEnding", 5589005958046905319),
  ("createFileEndpoint", 7394087492345372775), ("decodeCreateFileRequest", 12080995449744339690),
  ("getFilesEndpoint", 8776169571605000254), ("getFileEndpoint", 1986556982122931839),
  ("decodeGetFileRequest", 3405565854104192090), ("deleteFileEndpoint", 6971931292991804372),
  ("decodeDeleteFileRequest", 18136197449884473781), ("buildFileEndpoint", 8027062489996156947),
  ("decodeBuildFileRequest", 14032383900110207630), ("getFileContentsEndpoint", 13489338919452769743),
  ("decodeGetFileContentsRequest", 12072299066360164233), ("validateFileEndpoint", 16504151500755762674),
  ("decodeValidateFileRequest", 16112665202153066307), ("segmentFileIDEndpoint", 4572708182168131678),
  ("decodeSegmentFileIDRequest", 7808695945346996735), ("segmentFileEndpoint", 462704198495247102),
  ("decodeSegmentFileRequest", 14441302972953111278), ("flattenBatchesEndpoint", 16634923472264188102),
  ("decodeFlattenBatchesRequest", 13956109844349647230), ("createBatchEndpoint", 14191987002992737437),
  ("decodeCreateBatchRequest", 7134579207217838288), ("getBatchesEndpoint", 7783797358016236442),
  ("decodeGetBatchesRequest", 12334519328759065534), ("getBatchEndpoint", 16509385431742696556),
  ("decodeGetBatchRequest", 6454891487863962716), ("deleteBatchEndpoint", 5435369781161315254),
  ("decodeDeleteBatchRequest", 2209634321487423691),
  ("repositoryInMemory.StoreFile", 5238297674936942396), ("repositoryInMemory.FindFile", 14180771047204466752),
  ("repositoryInMemory.FindAllFiles", 5390125899727251336), ("repositoryInMemory.DeleteFile", 10664202471910957164),
  ("repositoryInMemory.StoreBatch", 10369522212633806333), ("repositoryInMemory.FindBatch", 751639383380015541),
  ("repositoryInMemory.FindAllBatches", 4695842734299230670), ("repositoryInMemory.DeleteBatch", 257065001440626611),
  ("service.GetFile", 14626936114301758146), ("service.GetFiles", 14803411663628934762),
  ("service.BuildFile", 4258440359166792272), ("service.DeleteFile", 405481581686156109),
  ("service.GetFileContents", 7980064745904965632), ("service.ValidateFile", 10572267819059346924),
  ("service.SegmentFileID", 7888584268474920999), ("service.SegmentFile", 8076978809228121562),
  ("service.FlattenBatches", 14220328066971616891), ("service.CreateBatch", 9644805027652575923),
  ("service.GetBatch", 1632467170175104115), ("service.GetBatches", 121674364257705592),
  ("service.DeleteBatch", 2383607826129551808),
  ("createFileResponse.error", 17619553237030079424), ("getFileResponse.error", 17619553237030079424),
  ("getFilesResponse.error", 17619553237030079424), ("deleteFileResponse.error", 17619553237030079424),
  ("buildFileResponse.error", 17619553237030079424), ("getFileContentsResponse.error", 17619553237030079424),
  ("validateFileResponse.error", 17619553237030079424), ("createBatchResponse.error", 17619553237030079424),
  ("getBatchResponse.error", 17619553237030079424), ("getBatchesResponse.error", 17619553237030079424),
  ("deleteBatchResponse.error", 17619553237030079424)]

/-- response types that must *not* implement `errorer` (their store errors are answered with 200) -/
def notErrorers : List String := ["segmentedFilesResponse.error", "flattenBatchesResponse.error"]

/-- **F**: the modelled functions are the ones in the source today (any edit to one of them breaks this), and the
flatten / segment responses still have no `error()` method -/
theorem server_functions_unchanged :
    modelled.all (fun p => Gen.serverHashes.lookup p.1 == some p.2) = true ∧
    notErrorers.all (fun n => (Gen.serverHashes.lookup n).isNone) = true := by decide +kernel

/-! ## refinement -/

/-- **server_refines_map**: over any request sequence the server behaves as the map `specStep` describes: same
final map and draw counter, and every response is the one the specification gives (for `GET /files`, the files of an
enumeration of the map) -/
theorem server_refines_map (L : Lib F T) (reqs : List Req) :
    abs (run L init reqs).1 = specRun L ⟨fun _ => none, 0⟩ reqs ∧
    RespsOK L ⟨fun _ => none, 0⟩ reqs (run L init reqs).2 :=
  ⟨(run_refines L init inv_init reqs).1, (run_refines L init inv_init reqs).2.1⟩

/-- the same from any reachable (duplicate-free) state, one step at a time -/
theorem server_step_refines (L : Lib F T) (s : State F) (h : Inv s) (r : Req) :
    abs (step L s r).1 = (specStep L (abs s) r).1 ∧ RespOK L (abs s) r (step L s r).2 ∧ Inv (step L s r).1 :=
  ⟨step_refines_state L s r, step_respOK L s r h, inv_step L s r h⟩

/-! ## create / get -/

/-- `GET /files/{id}` answers exactly the stored value -/
theorem get_returns_stored (L : Lib F T) (s : State F) (id : Id) :
    step L s (.get id) = (s, match find s.files id with
                             | some f => ⟨.ok, .file f⟩
                             | none => ⟨.notFound, .none⟩) := by
  cases h : find s.files id <;> simp [step, getFile, h]

/-- clause "a created file is returned by GET": after a create answered 200 with `{id, file}`, `GET id` answers 200
with that very file -/
theorem get_after_create (L : Lib F T) (s : State F) (path : Option Id) (json : Bool) (body : Tok) (opts : Opts)
    (id : Id) (f : F) (h : (step L s (.create path json body opts)).2 = ⟨.ok, .idFile id f⟩) :
    (step L (step L s (.create path json body opts)).1 (.get id)).2 = ⟨.ok, .file f⟩ := by
  obtain ⟨hb, hm, hs⟩ := create_effect L s path json body opts
  rw [h] at hb hs
  cases hb
  have hfree : (find s.files (decodeCreate L s.next path json body opts).id).isSome = false := by
    cases hp : (decodeCreate L s.next path json body opts).parseErr <;>
      cases hd : (find s.files (decodeCreate L s.next path json body opts).id).isSome <;> simp_all
  rw [get_returns_stored, hm]
  simp [Map.ins, hfree, Map.upd]

/-- **deviation** (files.go:90 stores before :108-110 looks at the parse error; decode :148-150 always yields a
file): whenever the ID is free the submitted file is stored — also when the answer is the parse error -/
theorem create_stores_despite_parse_error (L : Lib F T) (s : State F) (path : Option Id) (json : Bool) (body : Tok)
    (opts : Opts) (hfree : find s.files (decodeCreate L s.next path json body opts).id = none) :
    find (step L s (.create path json body opts)).1.files (decodeCreate L s.next path json body opts).id =
      some (decodeCreate L s.next path json body opts).file ∧
    ((decodeCreate L s.next path json body opts).parseErr = true →
      (step L s (.create path json body opts)).2.status = .libErr) := by
  obtain ⟨_, hm, hs⟩ := create_effect L s path json body opts
  refine ⟨by rw [hm]; simp [Map.ins, hfree, Map.upd], fun hp => by rw [hs]; simp [hp]⟩

/-- the path ID is the ID used -/
theorem create_uses_path_id (L : Lib F T) (n : Nat) (p : Id) (json : Bool) (body : Tok) (opts : Opts) :
    (decodeCreate L n (some p) json body opts).id = p := rfl

/-- clause "IDs are unique": creating under an ID that exists is refused (400; never 200) and leaves the whole
repository as it was.  **deviation** `parse_error_masks_duplicate`: if the body also failed to parse, the answer is
the parse error, not "already exists" (files.go:108-110). -/
theorem duplicate_create_refused (L : Lib F T) (s : State F) (path : Option Id) (json : Bool) (body : Tok)
    (opts : Opts) (g : F) (h : find s.files (decodeCreate L s.next path json body opts).id = some g) :
    (step L s (.create path json body opts)).1.files = s.files ∧
    (step L s (.create path json body opts)).2.status =
      (if (decodeCreate L s.next path json body opts).parseErr then .libErr else .badRequest) := by
  refine ⟨create_dup_files L s path json body opts g h, ?_⟩
  rw [(create_effect L s path json body opts).2.2, h]; rfl

theorem parse_error_masks_duplicate (L : Lib F T) (s : State F) (id : Id) (json : Bool) (body : Tok) (opts : Opts)
    (g : F) (h : find s.files id = some g) (hp : (decodeCreate L s.next (some id) json body opts).parseErr = true) :
    (step L s (.create (some id) json body opts)).2.status = .libErr := by
  rw [(duplicate_create_refused L s (some id) json body opts g h).2, hp]; rfl

/-! ## the endpoints are the library calls on the stored file -/

/-- clause "GET contents = the writer's output": `Create` succeeds ⇒ the body is `writeText` of the (re-created)
stored file with the requested line ending; under `Stable` that is the stored file itself -/
theorem contents_is_writer_output (L : Lib F T) (s : State F) (id : Id) (crlf : Bool) (f : F) (t : T)
    (hf : find s.files id = some f) (hc : (L.create f).2 = none) (hw : L.writeText (L.create f).1 crlf = .ok t) :
    (step L s (.contents id crlf)).2 = ⟨.ok, .text t⟩ := by
  simp [step, getFileContents, hf, hc, hw]

/-- a missing ID, a `Create` error and a writer error are answered with an error status and no body
(before /repo commit f9ebbe96 all three were answered 200 with an empty body) -/
theorem contents_failure_is_error (L : Lib F T) (s : State F) (id : Id) (crlf : Bool)
    (h : find s.files id = none ∨ ∃ f, find s.files id = some f ∧
      ((L.create f).2.isSome ∨ ∃ e, L.writeText (L.create f).1 crlf = .error e)) :
    (step L s (.contents id crlf)).2.status ≠ .ok ∧ (step L s (.contents id crlf)).2.body = .none := by
  rcases h with h | ⟨f, hf, hc | ⟨e, he⟩⟩
  · simp [step, getFileContents, h]
  · simp [step, getFileContents, hf, hc]
  · simp only [step, getFileContents, hf, he]; split <;> simp

/-- clause "validate = library": 200 iff `ValidateWith(opts)` accepts the stored file; nothing changes -/
theorem validate_is_library (L : Lib F T) (s : State F) (id : Id) (opts : Opts) (f : F)
    (hf : find s.files id = some f) :
    step L s (.validate id opts) = (s, ⟨if (L.validate f opts).isSome then .badRequest else .ok, .none⟩) := by
  simp [step, validateFile, hf]

/-- clause "build = library": the answer is the receiver after `File.Create` with `Create`'s verdict — and
(**deviation**, service.go:124 acts on the stored pointer) that value replaces the stored file -/
theorem build_is_library (L : Lib F T) (s : State F) (id : Id) (f : F) (hf : find s.files id = some f) :
    (step L s (.build id)).2 = ⟨if (L.create f).2.isSome then .libErr else .ok, .file (L.create f).1⟩ ∧
    find (step L s (.build id)).1.files id = some (L.create f).1 := by
  refine ⟨by simp [step, buildFile, hf], ?_⟩
  simp [step, buildFile, hf, find_put_eq]

/-- **deviation**: `GET` after `build` returns `Create`'s output, not what was stored -/
theorem get_after_build (L : Lib F T) (s : State F) (id : Id) (f : F) (hf : find s.files id = some f) :
    (step L (step L s (.build id)).1 (.get id)).2 = ⟨.ok, .file (L.create f).1⟩ := by
  rw [get_returns_stored, (build_is_library L s id f hf).2]

/-- **deviation**, all four "read" endpoints that call library methods through the stored pointer (service.go:124,
137, 238/242, 256/259): the stored file becomes the receiver's value after the calls -/
theorem read_requests_write_back (L : Lib F T) (s : State F) (id : Id) (crlf : Bool) (f : F)
    (hf : find s.files id = some f) :
    find (step L s (.contents id crlf)).1.files id = some (L.create f).1 ∧
    find (step L s (.build id)).1.files id = some (L.create f).1 ∧
    find (step L s (.flatten id)).1.files id =
      some (if (L.create f).2.isSome then (L.create f).1 else (L.flatten (L.create f).1).1) ∧
    find (step L s (.segment id)).1.files id = some (svcSegment L f).1 := by
  have hid : ∀ g : F, (Map.upd (find s.files) id g) id = some g := fun g => by simp [Map.upd]
  refine ⟨?_, (build_is_library L s id f hf).2, ?_, ?_⟩
  · simp [step, getFileContents, hf, find_put_eq]
  · rw [find_step]
    simp only [specStep, abs, hf]
    repeat' split
    all_goals first
      | exact hid _
      | exact ins_of_some _ _ _ _ _ (hid _)
  · rw [find_step]
    simp only [specStep, abs, hf]
    repeat' split
    all_goals first
      | exact hid _
      | exact insOpt_of_some _ _ _ _ (insOpt_of_some _ _ _ _ (hid _))

/-- clause "flatten = library": when `Create` and `FlattenBatches` succeed the answer is the library's flattened file
stamped with the next generated ID, and it is stored under that ID if the ID is free -/
theorem flatten_is_library (L : Lib F T) (s : State F) (id : Id) (f g : F) (hf : find s.files id = some f)
    (hc : (L.create f).2 = none) (hfl : (L.flatten (L.create f).1).2 = .ok g) :
    (step L s (.flatten id)).2 = ⟨.ok, .idFile (L.freshId s.next) (L.setId g (L.freshId s.next))⟩ ∧
    (find s.files (L.freshId s.next) = none →
      find (step L s (.flatten id)).1.files (L.freshId s.next) = some (L.setId g (L.freshId s.next))) ∧
    (step L s (.flatten id)).1.next = s.next + 1 := by
  refine ⟨by simp [step, flattenBatches, hf, hc, hfl], fun hfree => ?_, by simp [step, flattenBatches, hf, hc, hfl]⟩
  have hne : ¬ L.freshId s.next = id := fun e => by rw [e, hf] at hfree; cases hfree
  simp [step, flattenBatches, hf, hc, hfl, find_keep, Map.ins, find_put_eq, hne, hfree, Map.upd]

/-- library errors of flatten / segment are passed through (`libErr`), a missing file is 404 -/
theorem flatten_segment_errors (L : Lib F T) (s : State F) (id : Id) (f : F) (hf : find s.files id = some f)
    (hc : (L.create f).2.isSome) :
    (step L s (.flatten id)).2 = ⟨.libErr, .none⟩ ∧ (step L s (.segment id)).2 = ⟨.libErr, .none⟩ := by
  constructor
  · simp [step, flattenBatches, hf, hc]
  · simp [step, segmentFileID, hf, svcSegment, hc]

/-- clause "segment = library": when `Create` and `SegmentFile` succeed the answer carries the library's credit and
debit files stamped with the next two generated IDs (an empty side is omitted), each stored under its ID if free -/
theorem segment_is_library (L : Lib F T) (s : State F) (id : Id) (f : F) (cd : Option F × Option F)
    (hf : find s.files id = some f) (hc : (L.create f).2 = none) (hsg : (L.segment (L.create f).1).2 = .ok cd) :
    (step L s (.segment id)).2 = ⟨.ok, .seg (segParts L s.next cd).1 (segParts L s.next cd).2⟩ ∧
    find (step L s (.segment id)).1.files =
      ((Map.upd (find s.files) id (L.segment (L.create f).1).1).insOpt (segParts L s.next cd).1).insOpt
        (segParts L s.next cd).2 ∧
    (step L s (.segment id)).1.next = s.next + 2 := by
  have hsv : svcSegment L f = ((L.segment (L.create f).1).1, some cd) := by simp [svcSegment, hc, hsg]
  refine ⟨by simp [step, segmentFileID, hf, hsv, storeSegments], ?_, by simp [step, segmentFileID, hf, hsv]⟩
  simp [step, segmentFileID, hf, hsv, storeSegments, find_keepOpt, find_put _ _ _ _ hf]

/-- **deviation** (files.go:591-615, 791-809: the `StoreFile` error is put in a response type without `error()`):
when a generated ID is already taken the derived file is *not* stored and the answer is still 200 with that file -/
theorem derived_store_collision_is_200 (L : Lib F T) (s : State F) (id : Id) (f g h : F)
    (hf : find s.files id = some f) (hc : (L.create f).2 = none) (hfl : (L.flatten (L.create f).1).2 = .ok g)
    (htaken : find s.files (L.freshId s.next) = some h) (hne : L.freshId s.next ≠ id) :
    (step L s (.flatten id)).2.status = .ok ∧
    find (step L s (.flatten id)).1.files (L.freshId s.next) = some h := by
  refine ⟨by simp [step, flattenBatches, hf, hc, hfl], ?_⟩
  exact step_isolation L s (.flatten id) _ h htaken (fun e => hne (Option.some.inj e).symm)

/-- clause "batch endpoints = library", add: a batch whose ID is new to the file is appended with `AddBatch` and
its ID answered; one whose ID exists is refused with 400 and the file is untouched -/
theorem addBatch_is_library (L : Lib F T) (s : State F) (id : Id) (b : Batch) (f : F)
    (hf : find s.files id = some f) :
    (hasBatch L f (stampBatch L s.next b).2.1 = false →
      (step L s (.addBatch id b)).2 = ⟨.ok, .id (stampBatch L s.next b).2.1⟩ ∧
      find (step L s (.addBatch id b)).1.files id = some (L.addBatch f (stampBatch L s.next b).1)) ∧
    (hasBatch L f (stampBatch L s.next b).2.1 = true →
      (step L s (.addBatch id b)).2 = ⟨.badRequest, .none⟩ ∧ (step L s (.addBatch id b)).1.files = s.files) := by
  constructor <;> intro h <;> simp [step, createBatch, hf, h, find_put_eq]

/-- get: the first batch of `File.Batches` with that ID, else 404 -/
theorem getBatch_is_library (L : Lib F T) (s : State F) (id bid : Id) (f : F) (hf : find s.files id = some f) :
    step L s (.getBatch id bid) = (s, match (L.batches f).find? (isBatch L bid) with
                                     | some b => ⟨.ok, .batch b⟩
                                     | none => ⟨.notFound, .none⟩) := by
  cases h : (L.batches f).find? (isBatch L bid) <;> simp [step, getBatch, hf, h]

/-- list: `File.Batches` of the stored file (`null` for a missing file, still 200) -/
theorem batches_is_library (L : Lib F T) (s : State F) (id : Id) :
    step L s (.batches id) = (s, ⟨.ok, .batches ((find s.files id).map L.batches)⟩) := rfl

/-- delete: the last batch with that ID is cut out of `File.Batches` (nothing else of the file changes) -/
theorem delBatch_is_library (L : Lib F T) (s : State F) (id bid : Id) (f : F) (i : Nat)
    (hf : find s.files id = some f) (hi : lastIdx (isBatch L bid) (L.batches f) = some i) :
    (step L s (.delBatch id bid)).2 = ⟨.ok, .none⟩ ∧
    find (step L s (.delBatch id bid)).1.files id = some (L.dropBatch f i) := by
  constructor <;> simp [step, deleteBatch, hf, hi, find_put_eq]

/-! ## delete -/

/-- clause "after DELETE the ID is not found": the key is gone, `GET` answers 404 — and it stays so over any
requests other than a create, since nothing else binds a caller-chosen ID (`server_inserts_only_fresh`) -/
theorem delete_then_not_found (L : Lib F T) (s : State F) (id : Id) :
    (step L s (.delete id)).2 = ⟨.ok, .none⟩ ∧
    find (step L s (.delete id)).1.files id = none ∧
    (step L (step L s (.delete id)).1 (.get id)).2 = ⟨.notFound, .none⟩ := by
  have h : find (step L s (.delete id)).1.files id = none := by simp [step, deleteFile, find_erase_eq]
  exact ⟨rfl, h, by rw [get_returns_stored, h]⟩

/-- **status deviations** for an ID that is not stored: contents 500 (the wrapped "not found"), validate 400, build 500, list-batches
200 `null`, delete-batch 500, delete 200; only get / flatten / segment / add-batch / get-batch say 404 -/
theorem missing_id_statuses (L : Lib F T) (s : State F) (id bid : Id) (b : Batch) (o : Opts) (c : Bool)
    (h : find s.files id = none) :
    (step L s (.get id)).2.status = .notFound ∧ (step L s (.contents id c)).2 = ⟨.error, .none⟩ ∧
    (step L s (.validate id o)).2.status = .badRequest ∧ (step L s (.build id)).2.status = .error ∧
    (step L s (.flatten id)).2.status = .notFound ∧ (step L s (.segment id)).2.status = .notFound ∧
    (step L s (.addBatch id b)).2.status = .notFound ∧ (step L s (.getBatch id bid)).2.status = .notFound ∧
    (step L s (.batches id)).2 = ⟨.ok, .batches none⟩ ∧ (step L s (.delBatch id bid)).2.status = .error ∧
    (step L s (.delete id)).2.status = .ok := by
  simp [step, getFile, getFileContents, validateFile, buildFile, flattenBatches, segmentFileID, createBatch, getBatch,
    getBatches, deleteBatch, deleteFile, h]

/-- **status deviation**: no request is ever answered 201 or 409 (a create is 200, a duplicate 400) -/
theorem status_never_created_conflict (L : Lib F T) (s : State F) (r : Req) :
    (step L s r).2.status ≠ .created ∧ (step L s r).2.status ≠ .conflict :=
  Ach.Server.status_never_created_conflict L s r

/-! ## isolation -/

/-- **server_key_isolation**: a stored file is altered only by a request whose `writes` names its key — requests
addressed to another ID, all creates, and `POST /segment` leave it exactly as it is -/
theorem server_key_isolation (L : Lib F T) (s : State F) (r : Req) (k : Id) (f : F)
    (hk : find s.files k = some f) (hw : r.writes ≠ some k) : find (step L s r).1.files k = some f :=
  step_isolation L s r k f hk hw

theorem server_key_isolation_run (L : Lib F T) (s : State F) (reqs : List Req) (k : Id) (f : F)
    (hk : find s.files k = some f) (hw : ∀ r ∈ reqs, r.writes ≠ some k) :
    find (run L s reqs).1.files k = some f :=
  run_isolation L s reqs k f hk hw

/-- requests may only *add* keys that are generated IDs — except a create, which adds the ID it answers -/
theorem server_inserts_only_fresh (L : Lib F T) (s : State F) (r : Req) (k : Id)
    (hk : find s.files k = none) (h' : find (step L s r).1.files k ≠ none) :
    (∃ p j b o, r = .create p j b o ∧ k = (decodeCreate L s.next p j b o).id) ∨
    k = L.freshId s.next ∨ k = L.freshId (s.next + 1) :=
  step_new_key L s r k hk h'

/-- clause "returned unchanged", at full length: if the library's in-place calls are the identity on the stored
file (`Stable`; for `Create` this is C05), then over any requests that are not the API's own edits of that key
(`DELETE`, add / delete batch) the file stays stored unchanged … -/
theorem stored_file_stable (L : Lib F T) (s : State F) (reqs : List Req) (k : Id) (f : F)
    (hk : find s.files k = some f) (hs : Stable L f) (he : ∀ r ∈ reqs, r.edits ≠ some k) :
    find (run L s reqs).1.files k = some f :=
  run_stable L s reqs k f hk hs he

/-- … so a `GET` at the end of such a sequence started by a successful create returns the created file -/
theorem get_after_create_run (L : Lib F T) (s : State F) (path : Option Id) (json : Bool) (body : Tok) (opts : Opts)
    (id : Id) (f : F) (reqs : List Req) (h : (step L s (.create path json body opts)).2 = ⟨.ok, .idFile id f⟩)
    (hs : Stable L f) (he : ∀ r ∈ reqs, r.edits ≠ some id) :
    (step L (run L (step L s (.create path json body opts)).1 reqs).1 (.get id)).2 = ⟨.ok, .file f⟩ := by
  have h0 := get_after_create L s path json body opts id f h
  rw [get_returns_stored] at h0
  have hk : find (step L s (.create path json body opts)).1.files id = some f := by
    cases hx : find (step L s (.create path json body opts)).1.files id with
    | none => rw [hx] at h0; cases h0
    | some g => rw [hx] at h0; cases h0; rfl
  rw [get_returns_stored, stored_file_stable L _ reqs id f hk hs he]

/-! ## non-vacuity and counterexamples, on the token library of the driver -/

/-- a valid, tabulated token file is `Stable` for `tokLib`: the hypotheses of `stored_file_stable` are satisfiable -/
example : Stable tokLib ⟨3, some 1, true, true, 0, [0]⟩ := ⟨by decide, by decide, by decide⟩

def f1 : TFile := ⟨3, some 1, true, false, 0, [0]⟩
def f1t : TFile := { f1 with tab := true }

/-- a non-trivial run (driver lines `create 1 3 1 1`, `build 1`, `contents 1 1`, `flatten 1`, `segment 1`,
`create 2 6 1 1`, `delete 2`, `get 2`, `create 1 5 1 1`, `get 1`): every clause fires at least once -/
example :
    (run tokLib init [.create (some 1) false (mkBody 3 true true) 0, .build 1, .contents 1 true, .flatten 1,
        .segment 1, .create (some 2) false (mkBody 6 true true) 0, .delete 2, .get 2,
        .create (some 1) false (mkBody 5 true true) 0, .get 1]).2 =
      [⟨.ok, .idFile 1 f1⟩, ⟨.ok, .file f1t⟩, ⟨.ok, .text (f1t, true)⟩,
       ⟨.ok, .idFile 100 { f1t with id := some 100, kind := 1 }⟩,
       ⟨.ok, .seg (some (101, { f1t with id := some 101, kind := 2 })) (some (102, { f1t with id := some 102, kind := 3 }))⟩,
       ⟨.ok, .idFile 2 ⟨6, some 2, true, false, 0, [0]⟩⟩, ⟨.ok, .none⟩, ⟨.notFound, .none⟩,
       ⟨.badRequest, .idFile 1 ⟨5, some 1, true, false, 0, [0]⟩⟩, ⟨.ok, .file f1t⟩] := by decide +kernel

/-- **counterexample** to "GET returns what was created" without `Stable`: in `tokLib`, `Create` sets `tab`, so the
file `GET` returns after `build` differs from the one returned before -/
theorem build_changes_get_counterexample :
    (step tokLib (step tokLib init (.create (some 1) false (mkBody 3 true true) 0)).1 (.get 1)).2 ≠
    (step tokLib (step tokLib (step tokLib init (.create (some 1) false (mkBody 3 true true) 0)).1 (.build 1)).1
      (.get 1)).2 := by decide +kernel

/-- **counterexample** to "an error answer means nothing was stored" (driver lines `create 2 6 0 0`, `get 2`): a body
that fails to parse is answered with the error and then served by `GET` -/
theorem rejected_create_is_served_counterexample :
    (run tokLib init [.create (some 2) false (mkBody 6 false false) 0, .get 2]).2 =
      [⟨.libErr, .idFile 2 ⟨6, some 2, false, false, 0, []⟩⟩, ⟨.ok, .file ⟨6, some 2, false, false, 0, []⟩⟩] := by
  decide +kernel

end Ach.Props.C17
