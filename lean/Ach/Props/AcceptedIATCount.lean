import Ach.Props.AcceptedIAT
/-!
# IAT batches: entry/addenda count, ascending trace numbers, ODFI prefix (C03)
-/
namespace Ach.Props.AcceptedIATCount
open Ach Ach.GoLite Ach.Gen
open Ach.Props.AcceptedHash Ach.Props.AcceptedAscending Ach.Props.AcceptedTraces

/-! ## entry/addenda count -/

inductive IItem where
  | one
  | ptr (f : String)
  | lens (f g : String)
deriving DecidableEq, Repr

def bump (e : Expr) : Prog := .assign "entryCount" (.add (.var "entryCount") e)

def itemStmt : IItem → Prog
  | .one => bump (.int 1)
  | .ptr f => .ite (.ne (.sel (.var "entry") f) .nil) (bump (.int 1)) .skip
  | .lens f g => bump (.add (.call1 "len" (.sel (.var "entry") f)) (.call1 "len" (.sel (.var "entry") g)))

/-- what `IATBatch.isBatchEntryCount` counts per entry, in its order: the entry record, the seven mandatory addenda, the
Addenda17 and Addenda18 records, an Addenda98, an Addenda99 -/
def iatItems : List IItem :=
  [.one, .ptr "Addenda10", .ptr "Addenda11", .ptr "Addenda12", .ptr "Addenda13", .ptr "Addenda14", .ptr "Addenda15",
   .ptr "Addenda16", .lens "Addenda17" "Addenda18", .ptr "Addenda98", .ptr "Addenda99"]

def iatCountGuard : Prog :=
  .ite (.ne (.var "entryCount") (.sel (.fld "Control") "EntryAddendaCount"))
    (seqs [(.ite (.flag "recv" "UnequalAddendaCounts") (.ret .nil) .skip), (.ret (.mkErr "EntryAddendaCount"))])
    .skip

def iatCountProg : Prog :=
  seqs [(.bind "entryCount" (.int 0)), (.forEach "entry" (.fld "Entries") (seqs (iatItems.map itemStmt))), iatCountGuard,
    (.ret .nil)]

theorem iat_isBatchEntryCount_shape : v_IATBatch_isBatchEntryCount_err = iatCountProg := by decide +kernel

def lenOf (v : Val) : Option Int :=
  match v with
  | .lst _ n => some n
  | .nilp => some 0
  | _ => none

def itemVal (c : Ctx) (ep : String) : IItem → Option Int
  | .one => some 1
  | .ptr f => match lookup c.fields (joinPath ep f) with
      | .ref _ => some 1
      | .nilp => some 0
      | _ => none
  | .lens f g => match lenOf (lookup c.fields (joinPath ep f)), lenOf (lookup c.fields (joinPath ep g)) with
      | some a, some b => some (a + b)
      | _, _ => none

theorem itemStmt_exec (c : Ctx) (ep : String) (it : IItem) (v a : Int) (rest : Locals) (hv : itemVal c ep it = some v) :
    exec (itemStmt it) c (("entry", .ref ep) :: ("entryCount", .int a) :: rest) =
      (("entry", .ref ep) :: ("entryCount", .int (a + v)) :: rest, .next) := by
  cases it with
  | one =>
      simp [itemVal] at hv
      subst hv
      simp [itemStmt, bump, exec, eval, lookup, arith, update]
  | ptr f =>
      simp only [itemVal] at hv
      cases hx : lookup c.fields (joinPath ep f) <;> rw [hx] at hv <;> simp at hv
      · subst hv
        simp [itemStmt, bump, exec, eval, lookup, hx, cmpVals, arith, update, scopeExit]
      · subst hv
        simp [itemStmt, bump, exec, eval, lookup, hx, cmpVals, arith, update, scopeExit]
  | lens f g =>
      simp only [itemVal] at hv
      cases hx : lookup c.fields (joinPath ep f) <;> cases hy : lookup c.fields (joinPath ep g) <;>
        rw [hx, hy] at hv <;> simp [lenOf] at hv <;> subst hv <;>
        simp [itemStmt, bump, exec, eval, lookup, hx, hy, builtin1, arith, update]

theorem items_exec (c : Ctx) (ep : String) (rest : Locals) :
    ∀ (items : List IItem), items ≠ [] → ∀ (vals : List Int) (a : Int), items.map (itemVal c ep) = vals.map some →
      exec (seqs (items.map itemStmt)) c (("entry", .ref ep) :: ("entryCount", .int a) :: rest) =
        (("entry", .ref ep) :: ("entryCount", .int (a + vals.sum)) :: rest, .next) := by
  intro items
  induction items with
  | nil => intro h; exact absurd rfl h
  | cons it items ih =>
      intro _ vals a hv
      cases vals with
      | nil => simp at hv
      | cons v vs =>
          simp only [List.map_cons, List.cons.injEq] at hv
          cases items with
          | nil =>
              have : vs = [] := by
                cases vs with
                | nil => rfl
                | cons _ _ => simp at hv
              subst this
              simp only [List.map_nil, List.map_cons, seqs, List.sum_cons, List.sum_nil, Int.add_zero]
              exact itemStmt_exec c ep it v a rest hv.1
          | cons it2 items2 =>
              rw [List.map_cons, seqs_cons_ne _ _ (by simp)]
              simp only [exec, itemStmt_exec c ep it v a rest hv.1]
              rw [ih (by simp) vs (a + v) hv.2]
              simp only [List.sum_cons]
              have : a + v + vs.sum = a + (v + vs.sum) := by omega
              rw [this]

theorem iat_count_iter (c : Ctx) (p : String) (n : Nat) (vals : Nat → List Int) (rest : Locals)
    (hv : ∀ i, i < n → iatItems.map (itemVal c (elemPath p i)) = (vals i).map some) :
    ∀ is : List Nat, (∀ i ∈ is, i < n) → ∀ a : Int,
      iter (fun l' => exec (seqs (iatItems.map itemStmt)) c l') (fun i => .ref (elemPath p i)) "entry" is
          (("entryCount", .int a) :: rest) =
        (("entryCount", .int (a + (is.map (fun i => (vals i).sum)).sum)) :: rest, .next) := by
  intro is
  induction is with
  | nil => intro _ a; simp [iter]
  | cons j is ih =>
      intro hlt a
      have hj := hlt j (List.mem_cons_self ..)
      have hb := items_exec c (elemPath p j) rest iatItems (by decide) (vals j) a (hv j hj)
      simp only [iter, hb]
      have hsc : scopeExit (("entryCount", Val.int a) :: rest)
          (("entry", Val.ref (elemPath p j)) :: ("entryCount", Val.int (a + (vals j).sum)) :: rest) =
          ("entryCount", Val.int (a + (vals j).sum)) :: rest := by simp [scopeExit]
      rw [hsc, ih (fun k hk => hlt k (List.mem_cons_of_mem _ hk))]
      simp only [List.map_cons, List.sum_cons]
      have : a + (vals j).sum + (List.map (fun i => (vals i).sum) is).sum =
          a + ((vals j).sum + (List.map (fun i => (vals i).sum) is).sum) := by omega
      rw [this]

/-- C03, IAT — `IATBatch.isBatchEntryCount()` returns a nil error, with `UnequalAddendaCounts` off, only if the control's
entry/addenda count is the number of entry records plus all their addenda records (10–16, every 17 and 18, 98, 99) —
for batches of any size -/
theorem iat_isBatchEntryCount_accepts (c : Ctx) (cp p : String) (n : Nat) (vals : Nat → List Int) (e : Int)
    (hflag : hasFlag c "recv" "UnequalAddendaCounts" = false)
    (hC : lookup c.fields (joinPath c.recv "Control") = .ref cp)
    (he : lookup c.fields (joinPath cp "EntryAddendaCount") = .int e)
    (hE : lookup c.fields (joinPath c.recv "Entries") = .lst p n)
    (hv : ∀ i, i < n → iatItems.map (itemVal c (elemPath p i)) = (vals i).map some)
    (h : (exec v_IATBatch_isBatchEntryCount_err c []).2 = .ret (.err none)) :
    e = ((List.range n).map (fun i => (vals i).sum)).sum := by
  rw [iat_isBatchEntryCount_shape] at h
  have hit := iat_count_iter c p n vals [] hv (List.range n) (fun k hk => List.mem_range.mp hk) 0
  by_cases heq : ((List.range n).map (fun i => (vals i).sum)).sum = e
  · exact heq.symm
  · simp [iatCountProg, iatCountGuard, seqs, exec, eval, hE, hC, he, lookup, hit, cmpVals, hflag, heq, scopeExit] at h

/-! ## ascending trace numbers -/

def iatAscProg : Prog :=
  seqs [(.bind "lastSeq" (.str "-1")), (.forEach "entry" (.fld "Entries") ascBody), (.ret .nil)]

theorem iat_isSequenceAscending_shape : v_IATBatch_isSequenceAscending = iatAscProg := by decide +kernel

/-- C03, IAT — `IATBatch.isSequenceAscending()` returns nil, with `CustomTraceNumbers` off, only if the trace numbers
strictly ascend (Go string order), the first above "-1" -/
theorem iat_isSequenceAscending_accepts (c : Ctx) (p : String) (n : Nat) (tr : Nat → Str)
    (hflag : hasFlag c "recv" "CustomTraceNumbers" = false)
    (hE : lookup c.fields (joinPath c.recv "Entries") = .lst p n)
    (htr : ∀ i, i < n → lookup c.fields (joinPath (elemPath p i) "TraceNumber") = .str (tr i))
    (h : (exec v_IATBatch_isSequenceAscending c []).2 = .ret (.err none)) :
    ascending tr ['-', '1'] (List.range n) := by
  rw [iat_isSequenceAscending_shape] at h
  have h0 : ("-1" : String).toList = ['-', '1'] := by decide
  simp [iatAscProg, seqs, exec, eval, hE, h0] at h
  cases hs : (iter (fun l' => exec ascBody c l') (fun i => Val.ref (elemPath p i)) "entry" (List.range n)
      [("lastSeq", Val.str ['-', '1'])]).2 with
  | next => exact asc_iter c hflag p n tr [] htr (List.range n) (fun k hk => List.mem_range.mp hk) ['-', '1'] hs
  | ret v =>
      exfalso
      have hna := iter_no_accept (fun l' => exec ascBody c l') (fun i => Val.ref (elemPath p i)) "entry"
        (fun l => rejectOnly_no_accept ascBody (by decide) c l) (List.range n) [("lastSeq", Val.str ['-', '1'])]
      rw [hs] at hna
      revert h
      generalize (iter _ _ _ _ _) = r at hs hna ⊢
      obtain ⟨l1, s1⟩ := r
      simp only at hs
      subst hs
      intro h
      simp at h
      exact hna (by rw [h])
  | brk | cont | stuck _ =>
      exfalso
      revert h
      generalize (iter _ _ _ _ _) = r at hs ⊢
      obtain ⟨l1, s1⟩ := r
      simp only at hs
      subst hs
      simp

/-! ## `IATBatch.verify` -/

theorem iat_verify_outline2 :
    (stmts v_IATBatch_verify).drop 6 =
      (.check none v_IATBatch_isBatchEntryCount_err) ::
        (.ite (.not (.flag "recv" "CustomTraceNumbers")) (.check none v_IATBatch_isSequenceAscending) .skip) ::
        (stmts v_IATBatch_verify).drop 8 ∧
    (stmts v_IATBatch_verify).drop 8 ≠ [] ∧
    ((stmts v_IATBatch_verify).take 6).all (fun q => rejectOnly q && noAssign q) = true := by
  decide +kernel

/-- C03, IAT batches — for every IAT batch value, of any size: if `IATBatch.verify()` (translated from the source on this
run) returns nil, the control's entry/addenda count is the number of entry and addenda records (unless
`UnequalAddendaCounts`) and the trace numbers strictly ascend (unless `CustomTraceNumbers`) -/
theorem accepted_iat_batch_count_and_order (c : Ctx) (cp p : String) (n : Nat) (vals : Nat → List Int) (tr : Nat → Str) (e : Int)
    (hC : lookup c.fields (joinPath c.recv "Control") = .ref cp)
    (he : lookup c.fields (joinPath cp "EntryAddendaCount") = .int e)
    (hE : lookup c.fields (joinPath c.recv "Entries") = .lst p n)
    (hv : ∀ i, i < n → iatItems.map (itemVal c (elemPath p i)) = (vals i).map some)
    (htr : ∀ i, i < n → lookup c.fields (joinPath (elemPath p i) "TraceNumber") = .str (tr i))
    (ha : run c v_IATBatch_verify = .accept) :
    (hasFlag c "recv" "UnequalAddendaCounts" = false → e = ((List.range n).map (fun i => (vals i).sum)).sum) ∧
    (hasFlag c "recv" "CustomTraceNumbers" = false → ascending tr ['-', '1'] (List.range n)) := by
  have hres := Ach.Props.Validators.accept_ret c _ ha
  obtain ⟨hd, hne, hall⟩ := iat_verify_outline2
  have hs : stmts v_IATBatch_verify = (stmts v_IATBatch_verify).take 6 ++ (stmts v_IATBatch_verify).drop 6 :=
    (List.take_append_drop _ _).symm
  obtain ⟨pre, hpre⟩ := accept_reaches c _ _ _ hs (by rw [hd]; simp) hall hres
  rw [hd, seqs_cons_ne _ _ (by simp)] at hpre
  have hA := check_passes c pre none _ (Ach.Props.Accepted.accept_seq_left (by decide) hpre)
  obtain ⟨pre2, h2⟩ := accept_seq (a := .check none v_IATBatch_isBatchEntryCount_err) (by decide) (by decide) hpre
  rw [seqs_cons_ne _ _ hne] at h2
  have hB := Ach.Props.Accepted.accept_seq_left (a := .ite (.not (.flag "recv" "CustomTraceNumbers")) (.check none v_IATBatch_isSequenceAscending) .skip) (by decide) h2
  refine ⟨fun hf => iat_isBatchEntryCount_accepts c cp p n vals e hf hC he hE hv hA, fun hf => ?_⟩
  have hasc : (exec v_IATBatch_isSequenceAscending c []).2 = .ret (.err none) := by
    simp only [exec, eval, hf] at hB
    generalize (exec v_IATBatch_isSequenceAscending c []).2 = s at hB ⊢
    cases s with
    | ret v =>
        cases v with
        | err t =>
            cases t with
            | none => rfl
            | some t => simp [checkResult] at hB
        | _ => simp [checkResult] at hB
    | _ => simp [checkResult] at hB
  exact iat_isSequenceAscending_accepts c p n tr hf hE htr hasc

end Ach.Props.AcceptedIATCount
