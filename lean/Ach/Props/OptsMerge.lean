import Ach.Proofs.GoLite
import Ach.Generated.Checks
import Ach.Props.Validators
/-!
# `ValidateOpts.merge` is the field-wise OR (shared by C08, C09)

`outFile.add` gives a merged file, and a merged batch that takes entries from several input files, the options
`a.merge(b)` of the files that contributed.  `merge` is read from the source on every run (`optsMergeRows`: one row
`F: v.L || other.R` per key of the literal it returns; `optsMergeNilGuards`: the two `nil` guards; `optsMergeLaterAssigned`:
what the statements after the literal assign).  Here it is shown to be — today — the OR of every boolean field of
`ValidateOpts` with itself (`opts_merge_is_pointwise_or`, by evaluation); every such merge keeps every flag either side
had (`merged_has_left`, `merged_has_right`), adds none neither side had (`merged_only_from_sides`), and so a batch or
file that its own file's options accept is accepted under the merged options (`merged_opts_keep_acceptance`, through
`run_mono`): entries whose trace numbers, amounts or return codes were admitted by an option of their input file are
neither rejected (C09) nor renumbered (C08: `CustomTraceNumbers`, `BypassOriginValidation`) when they share an output
batch with entries of a file that did not have the option.  A row that reads another field, a field without a row or a
statement that resets a boolean field afterwards breaks the first obligation.
-/
namespace Ach.Props.OptsMerge
open Ach Ach.GoLite Ach.Gen

/-- the flags of `a.merge(b)` for a merge given by rows (field, receiver field, argument field) -/
def mergeFlags (rows : List (String × String × String)) (a b : List String) : List String :=
  rows.filterMap (fun r => if a.contains r.2.1 || b.contains r.2.2 then some r.1 else none)

def pointwise (fs : List String) : List (String × String × String) := fs.map (fun f => (f, f, f))

/-- the `ValidateOpts.merge` in the tree: nil guards first, then a literal that ORs every boolean field with itself,
then statements that only assign the (non-boolean) `CheckTransactionCode`, then `return out` -/
theorem opts_merge_is_pointwise_or :
    optsMergeShape = true ∧ optsMergeNilGuards = true ∧ optsMergeRows = pointwise optBoolFlags ∧
    optsMergeLaterAssigned.all (fun f => !optBoolFlags.contains f && optFlags.contains f) = true := by decide +kernel

/-- every relaxation flag the validators read is a boolean field of `ValidateOpts`, so it has a row -/
theorem relax_flags_have_rows : relaxFlags.all (fun f => optBoolFlags.contains f) = true := by decide +kernel

theorem mem_mergeFlags_pointwise (fs a b : List String) (f : String) :
    f ∈ mergeFlags (pointwise fs) a b ↔ f ∈ fs ∧ (f ∈ a ∨ f ∈ b) := by
  simp only [mergeFlags, pointwise, List.mem_filterMap, List.mem_map]
  constructor
  · rintro ⟨r, ⟨g, hg, rfl⟩, hr⟩
    simp only [Bool.or_eq_true, List.contains_iff_mem] at hr
    split at hr
    · next hc => simp at hr; subst hr; exact ⟨hg, hc⟩
    · simp at hr
  · rintro ⟨hf, hab⟩
    refine ⟨(f, f, f), ⟨f, hf, rfl⟩, ?_⟩
    simp only [Bool.or_eq_true, List.contains_iff_mem]
    rw [if_pos hab]

/-- C08 / C09: the merged options keep every boolean option of the receiver … -/
theorem merged_has_left (fs a b : List String) (f : String) (hf : f ∈ fs) (ha : f ∈ a) :
    f ∈ mergeFlags (pointwise fs) a b := (mem_mergeFlags_pointwise fs a b f).mpr ⟨hf, Or.inl ha⟩

/-- … and of the argument (the file merged in later), … -/
theorem merged_has_right (fs a b : List String) (f : String) (hf : f ∈ fs) (hb : f ∈ b) :
    f ∈ mergeFlags (pointwise fs) a b := (mem_mergeFlags_pointwise fs a b f).mpr ⟨hf, Or.inr hb⟩

/-- … and has no option neither side had -/
theorem merged_only_from_sides (fs a b : List String) (f : String) (h : f ∈ mergeFlags (pointwise fs) a b) :
    f ∈ a ∨ f ∈ b := ((mem_mergeFlags_pointwise fs a b f).mp h).2

/-- merging is independent of the order of the two files (as far as the boolean options go) -/
theorem merged_comm (fs a b : List String) (f : String) :
    f ∈ mergeFlags (pointwise fs) a b ↔ f ∈ mergeFlags (pointwise fs) b a := by
  simp only [mem_mergeFlags_pointwise]
  constructor <;> (rintro ⟨h1, h2⟩; exact ⟨h1, h2.symm⟩)

/-- the context in which the receiver's stored options are replaced by the merged ones.  The other file may bring
relaxations; the non-relaxation options (`SkipAll`, `RequireABAOrigin`, `PreserveSpaces`) of the two are assumed to agree
— `RequireABAOrigin` makes validation stricter, so a file valid without it may be invalid with it. -/
theorem merged_ctx_le (c : Ctx) (other : List String)
    (hown : ∀ f ∈ c.recvFlags, f ∈ optBoolFlags)
    (hstrict : ∀ f ∈ other, relaxFlags.contains f = false → f ∈ c.recvFlags) :
    CtxLe c { c with recvFlags := mergeFlags (pointwise optBoolFlags) c.recvFlags other } := by
  refine ⟨rfl, rfl, rfl, ?_, ?_⟩
  · intro src n hn
    simp only [hasFlag]
    split
    · rw [Bool.eq_iff_iff]
      simp only [List.contains_iff_mem, mem_mergeFlags_pointwise]
      constructor
      · intro h; exact ⟨hown n h, Or.inl h⟩
      · rintro ⟨_, h | h⟩
        · exact h
        · exact hstrict n h hn
    · rfl
  · intro src n hh
    simp only [hasFlag] at hh ⊢
    split
    · next hs =>
      rw [if_pos hs] at hh
      simp only [List.contains_iff_mem] at hh ⊢
      exact merged_has_left _ _ _ _ (hown n hh) hh
    · next hs => rw [if_neg hs] at hh; exact hh

/-- C08 / C09: whatever a translated validator (record, batch, IAT batch, file) accepts under the options stored with the
receiver, it accepts when those options are replaced by their merge with another file's options -/
theorem merged_opts_keep_acceptance (name : String) (p : Prog) (hmem : (name, p) ∈ validatorProgs)
    (c : Ctx) (other : List String)
    (hown : ∀ f ∈ c.recvFlags, f ∈ optBoolFlags)
    (hstrict : ∀ f ∈ other, relaxFlags.contains f = false → f ∈ c.recvFlags)
    (ha : run c p = .accept) :
    run { c with recvFlags := mergeFlags (pointwise optBoolFlags) c.recvFlags other } p = .accept :=
  Ach.Props.Validators.record_validators_monotone name p hmem c _ (merged_ctx_le c other hown hstrict) ha

/-- non-vacuity: a file that only had `AllowZeroEntryAmount`, merged into one that had `CustomTraceNumbers`, has both -/
example : mergeFlags optsMergeRows ["CustomTraceNumbers"] ["AllowZeroEntryAmount"] = ["CustomTraceNumbers", "AllowZeroEntryAmount"] := by
  decide +kernel

end Ach.Props.OptsMerge
