import Ach.Props.Validators
/-!
# The translated `isUpperASCII` / `isAlphanumeric` compute the interpreter's built-ins (all strings)

`validator.isUpperASCII` and `validator.isAlphanumeric` (validators.go) walk the runes of a string and return an error at
the first one outside a class.  They are built-ins of the GoLite interpreter (`errIf (!s.all upperRune)`,
`errIf (!s.all alnumRune)`).  Here the Go functions themselves — translated from the source on every run, `for _, r :=
range s` as a loop over the runes — are shown to return exactly that, for every string of any length (induction over
the runes): the two built-ins are no longer trusted.
-/
namespace Ach.Props.RuneClassCode
open Ach Ach.GoLite Ach.Gen

/-- a loop `for _, r := range s { B }` whose body continues on runes of a class and returns an error otherwise -/
def classLoop (B : Prog) : Prog :=
  seqs [(.forIdx "_k" (.call1 "runeIndices" (.var "s")) (seqs [(.bind "r" (.call2 "runeAt" (.var "s") (.var "_k"))), B])),
    (.ret .nil)]

theorem class_iter (c : Ctx) (B : Prog) (ok : Char → Bool) (s : Str) (rest : Locals)
    (hB : ∀ (ch : Char) (k : Nat) (l : Locals),
      exec B c (("r", .int ch.toNat) :: ("_k", .int k) :: l) =
        (("r", .int ch.toNat) :: ("_k", .int k) :: l, if ok ch then .cont else .ret (.err (some "")))) :
    ∀ is : List Nat, (∀ i ∈ is, i < s.length) →
      iter (fun l' => exec (seqs [(.bind "r" (.call2 "runeAt" (.var "s") (.var "_k"))), B]) c l') (fun k => .int k) "_k" is
          (("s", .str s) :: rest) =
        (("s", .str s) :: rest, if is.all (fun i => ok (s[i]?.getD ' ')) then .next else .ret (.err (some ""))) := by
  intro is
  induction is with
  | nil => intro _; simp [iter]
  | cons j is ih =>
      intro hlt
      have hj := hlt j (List.mem_cons_self ..)
      have hji : ((j : Int) < (s.length : Int)) := by omega
      have hat : builtin2 "runeAt" (Val.str s) (Val.int j) = .int ((s[j]?.getD ' ').toNat) := by
        simp [builtin2, hji]
      have hb : exec (seqs [(.bind "r" (.call2 "runeAt" (.var "s") (.var "_k"))), B]) c (("_k", .int j) :: ("s", .str s) :: rest) =
          (("r", .int (s[j]?.getD ' ').toNat) :: ("_k", .int j) :: ("s", .str s) :: rest,
            if ok (s[j]?.getD ' ') then .cont else .ret (.err (some ""))) := by
        have hl1 : lookup (("_k", Val.int (j : Int)) :: ("s", Val.str s) :: rest) "s" = .str s := by simp [lookup]
        have hl2 : lookup (("_k", Val.int (j : Int)) :: ("s", Val.str s) :: rest) "_k" = .int j := by simp [lookup]
        simp only [seqs, exec, eval, hl1, hl2, hat]
        rw [hB]
      simp only [iter, hb]
      have hsc : scopeExit (("s", Val.str s) :: rest)
          (("r", Val.int (s[j]?.getD ' ').toNat) :: ("_k", Val.int j) :: ("s", Val.str s) :: rest) = ("s", Val.str s) :: rest := by
        simp [scopeExit]
      by_cases hok : ok (s[j]?.getD ' ') = true
      · simp only [hok, if_true, hsc]
        rw [ih (fun k hk => hlt k (List.mem_cons_of_mem _ hk))]
        simp [hok]
      · have hokf : ok (s[j]?.getD ' ') = false := by simpa using hok
        simp [hokf, hsc]

theorem all_range_getD (s : Str) (ok : Char → Bool) : (List.range s.length).all (fun i => ok (s[i]?.getD ' ')) = s.all ok := by
  have : (List.range s.length).map (fun i => ok (s[i]?.getD ' ')) = s.map ok := by
    apply List.ext_getElem
    · simp
    · intro i h1 h2
      simp at h1
      simp [h1]
  have e1 : (List.range s.length).all (fun i => ok (s[i]?.getD ' ')) = ((List.range s.length).map (fun i => ok (s[i]?.getD ' '))).all id := by
    simp [List.all_map]
  have e2 : s.all ok = (s.map ok).all id := by simp [List.all_map]
  rw [e1, e2, this]

/-- every loop of that form returns `errIf (!s.all ok)` -/
theorem classLoop_exec (c : Ctx) (B : Prog) (ok : Char → Bool) (s : Str)
    (hB : ∀ (ch : Char) (k : Nat) (l : Locals),
      exec B c (("r", .int ch.toNat) :: ("_k", .int k) :: l) =
        (("r", .int ch.toNat) :: ("_k", .int k) :: l, if ok ch then .cont else .ret (.err (some "")))) :
    (exec (classLoop B) c [("s", .str s)]).2 = .ret (errIf (!s.all ok)) := by
  have hit := class_iter c B ok s [] hB (List.range s.length) (fun k hk => List.mem_range.mp hk)
  rw [all_range_getD] at hit
  have hri : builtin1 c.ext "runeIndices" (Val.str s) = .lst "" s.length := by simp [builtin1]
  simp only [classLoop, seqs, exec, eval, lookup] at hit ⊢
  by_cases hall : s.all ok = true
  · simp [hri, hit, hall, errIf]
  · have hf : s.all ok = false := by simpa using hall
    simp [hri, hit, hf, errIf]


/-! ## isUpperASCII -/

def upperBody : Prog :=
  seqs [(.ite (.or (.or (.eq (.var "r") (.int 32)) (.and (.le (.int 48) (.var "r")) (.le (.var "r") (.int 57))))
        (.and (.le (.int 65) (.var "r")) (.le (.var "r") (.int 90)))) .cont .skip),
    (.ret (.call3 "fmt.Errorf" (.str "%w: %c") (.mkErr "") (.var "r")))]

theorem isUpperASCII_shape : v_validator_isUpperASCII = classLoop upperBody := by decide +kernel

theorem upperRune_iff (ch : Char) :
    upperRune ch = true ↔ (ch.toNat = 32 ∨ (48 ≤ ch.toNat ∧ ch.toNat ≤ 57) ∨ (65 ≤ ch.toNat ∧ ch.toNat ≤ 90)) := by
  unfold upperRune
  simp only [Char.toNat, Bool.or_eq_true, Bool.and_eq_true, beq_iff_eq, decide_eq_true_eq]
  constructor
  · rintro ((h | h) | h)
    · exact Or.inl h
    · exact Or.inr (Or.inl h)
    · exact Or.inr (Or.inr h)
  · rintro (h | h | h)
    · exact Or.inl (Or.inl h)
    · exact Or.inl (Or.inr h)
    · exact Or.inr h

theorem upperBody_exec (c : Ctx) (ch : Char) (k : Nat) (l : Locals) :
    exec upperBody c (("r", .int ch.toNat) :: ("_k", .int k) :: l) =
      (("r", .int ch.toNat) :: ("_k", .int k) :: l, if upperRune ch then .cont else .ret (.err (some ""))) := by
  by_cases h : upperRune ch = true
  · rw [if_pos h]
    rcases (upperRune_iff ch).mp h with h1 | ⟨h1, h2⟩ | ⟨h1, h2⟩
    · have e : (ch.toNat : Int) = 32 := by omega
      simp [upperBody, seqs, exec, eval, lookup, cmpVals, scopeExit, e]
    · have e0 : ¬ ((ch.toNat : Int) = 32) := by omega
      have e1 : (48 : Int) ≤ ch.toNat := by omega
      have e2 : (ch.toNat : Int) ≤ 57 := by omega
      simp [upperBody, seqs, exec, eval, lookup, cmpVals, scopeExit, e0, e1, e2]
    · have e0 : ¬ ((ch.toNat : Int) = 32) := by omega
      have e1 : ¬ ((ch.toNat : Int) ≤ 57) := by omega
      have e2 : (65 : Int) ≤ ch.toNat := by omega
      have e3 : (ch.toNat : Int) ≤ 90 := by omega
      have e4 : (48 : Int) ≤ ch.toNat := by omega
      simp [upperBody, seqs, exec, eval, lookup, cmpVals, scopeExit, e0, e1, e2, e3, e4]
  · rw [if_neg h]
    have hn : ¬ (ch.toNat = 32 ∨ (48 ≤ ch.toNat ∧ ch.toNat ≤ 57) ∨ (65 ≤ ch.toNat ∧ ch.toNat ≤ 90)) :=
      fun hh => h ((upperRune_iff ch).mpr hh)
    have e0 : ¬ ((ch.toNat : Int) = 32) := by omega
    have e1 : ¬ ((48 : Int) ≤ ch.toNat ∧ (ch.toNat : Int) ≤ 57) := by omega
    have e2 : ¬ ((65 : Int) ≤ ch.toNat ∧ (ch.toNat : Int) ≤ 90) := by omega
    by_cases a : (48 : Int) ≤ ch.toNat <;> by_cases b : (ch.toNat : Int) ≤ 57 <;> by_cases d : (65 : Int) ≤ ch.toNat <;>
      by_cases f : (ch.toNat : Int) ≤ 90 <;>
      first
      | (exfalso; omega)
      | simp [upperBody, seqs, exec, eval, lookup, cmpVals, scopeExit, builtin3, e0, a, b, d, f]

/-- C02 / C03 / C15: the Go function `validator.isUpperASCII`, as translated from the source on this run, returns nil
exactly when every rune is a blank, a digit or an upper-case ASCII letter — what the interpreter's built-in returns — for
every string -/
theorem isUpperASCII_exec (c : Ctx) (s : Str) :
    (exec v_validator_isUpperASCII c [("s", .str s)]).2 = .ret (builtin1 c.ext "isUpperASCII" (.str s)) := by
  rw [isUpperASCII_shape, classLoop_exec c upperBody upperRune s (upperBody_exec c)]
  simp [builtin1]


/-! ## isAlphanumeric -/

def alnumBody : Prog :=
  seqs [(.ite (.and (.le (.int 32) (.var "r")) (.le (.var "r") (.int 126))) .cont .skip),
    (.ite (.and (.le (.int 192) (.var "r")) (.le (.var "r") (.int 255))) .cont .skip),
    (.ite (.or (.eq (.var "r") (.int 160)) (.or (.eq (.var "r") (.int 162)) (.or (.eq (.var "r") (.int 172))
        (.or (.eq (.var "r") (.int 166)) (.or (.eq (.var "r") (.int 177)) (.eq (.var "r") (.int 216)))))))
      (.block .cont) .skip),
    (.ret (.call3 "fmt.Errorf" (.str "%w: %c") (.mkErr "") (.var "r")))]

theorem isAlphanumeric_shape : v_validator_isAlphanumeric = classLoop alnumBody := by decide +kernel

theorem alnumRune_iff (ch : Char) :
    alnumRune ch = true ↔ ((32 ≤ ch.toNat ∧ ch.toNat ≤ 126) ∨ (192 ≤ ch.toNat ∧ ch.toNat ≤ 255) ∨ ch.toNat = 160 ∨
      ch.toNat = 162 ∨ ch.toNat = 172 ∨ ch.toNat = 166 ∨ ch.toNat = 177 ∨ ch.toNat = 216) := by
  unfold alnumRune
  simp only [Char.toNat, Bool.or_eq_true, Bool.and_eq_true, beq_iff_eq, decide_eq_true_eq]
  omega

theorem alnumBody_exec (c : Ctx) (ch : Char) (k : Nat) (l : Locals) :
    exec alnumBody c (("r", .int ch.toNat) :: ("_k", .int k) :: l) =
      (("r", .int ch.toNat) :: ("_k", .int k) :: l, if alnumRune ch then .cont else .ret (.err (some ""))) := by
  by_cases h : alnumRune ch = true
  · rw [if_pos h]
    rcases (alnumRune_iff ch).mp h with ⟨h1, h2⟩ | ⟨h1, h2⟩ | h1 | h1 | h1 | h1 | h1 | h1
    · have e1 : (32 : Int) ≤ ch.toNat := by omega
      have e2 : (ch.toNat : Int) ≤ 126 := by omega
      simp [alnumBody, seqs, exec, eval, lookup, cmpVals, scopeExit, e1, e2]
    · have e1 : (32 : Int) ≤ ch.toNat := by omega
      have e2 : ¬ (ch.toNat : Int) ≤ 126 := by omega
      have e3 : (192 : Int) ≤ ch.toNat := by omega
      have e4 : (ch.toNat : Int) ≤ 255 := by omega
      simp [alnumBody, seqs, exec, eval, lookup, cmpVals, scopeExit, e1, e2, e3, e4]
    · have e : (ch.toNat : Int) = 160 := by omega
      simp [alnumBody, seqs, exec, eval, lookup, cmpVals, scopeExit, e]
    · have e : (ch.toNat : Int) = 162 := by omega
      simp [alnumBody, seqs, exec, eval, lookup, cmpVals, scopeExit, e]
    · have e : (ch.toNat : Int) = 172 := by omega
      simp [alnumBody, seqs, exec, eval, lookup, cmpVals, scopeExit, e]
    · have e : (ch.toNat : Int) = 166 := by omega
      simp [alnumBody, seqs, exec, eval, lookup, cmpVals, scopeExit, e]
    · have e : (ch.toNat : Int) = 177 := by omega
      simp [alnumBody, seqs, exec, eval, lookup, cmpVals, scopeExit, e]
    · have e : (ch.toNat : Int) = 216 := by omega
      simp [alnumBody, seqs, exec, eval, lookup, cmpVals, scopeExit, e]
  · rw [if_neg h]
    have hn : ¬ ((32 ≤ ch.toNat ∧ ch.toNat ≤ 126) ∨ (192 ≤ ch.toNat ∧ ch.toNat ≤ 255) ∨ ch.toNat = 160 ∨
        ch.toNat = 162 ∨ ch.toNat = 172 ∨ ch.toNat = 166 ∨ ch.toNat = 177 ∨ ch.toNat = 216) :=
      fun hh => h ((alnumRune_iff ch).mpr hh)
    have n160 : ¬ ((ch.toNat : Int) = 160) := by omega
    have n162 : ¬ ((ch.toNat : Int) = 162) := by omega
    have n172 : ¬ ((ch.toNat : Int) = 172) := by omega
    have n166 : ¬ ((ch.toNat : Int) = 166) := by omega
    have n177 : ¬ ((ch.toNat : Int) = 177) := by omega
    have n216 : ¬ ((ch.toNat : Int) = 216) := by omega
    by_cases a : (32 : Int) ≤ ch.toNat <;> by_cases b : (ch.toNat : Int) ≤ 126 <;> by_cases d : (192 : Int) ≤ ch.toNat <;>
      by_cases f : (ch.toNat : Int) ≤ 255 <;>
      first
      | (exfalso; omega)
      | simp [alnumBody, seqs, exec, eval, lookup, cmpVals, scopeExit, builtin3, n160, n162, n172, n166, n177, n216, a, b, d, f]

/-- C02 / C03 / C15: the Go function `validator.isAlphanumeric`, as translated from the source on this run, returns nil
exactly when every rune lies in the accepted ranges and singletons — what the interpreter's built-in returns — for every
string -/
theorem isAlphanumeric_exec (c : Ctx) (s : Str) :
    (exec v_validator_isAlphanumeric c [("s", .str s)]).2 = .ret (builtin1 c.ext "isAlphanumeric" (.str s)) := by
  rw [isAlphanumeric_shape, classLoop_exec c alnumBody alnumRune s (alnumBody_exec c)]
  simp [builtin1]

end Ach.Props.RuneClassCode
