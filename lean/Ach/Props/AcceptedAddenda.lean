import Ach.Props.Accepted
import Ach.Generated.Dicts
/-!
# What the default rules demand of a return addenda (C15: the rule `CustomReturnCodes` relaxes)
-/
namespace Ach.Props.AcceptedAddenda
open Ach Ach.GoLite Ach.Gen

def returnCodeBlock : Prog :=
  .ite (.not (.flag "recv" "CustomReturnCodes"))
    (seqs [(.bind2 "_" "ok" (.call1 "dict.returnCodeDict" (.fld "ReturnCode"))),
      (.ite (.not (.var "ok")) (.ret (.mkErr "ReturnCode")) .skip)])
    .skip

theorem addenda99_validate_shape :
    stmts v_Addenda99_Validate = Ach.Props.Accepted.frontOf v_Addenda99_Validate 2 ++ [returnCodeBlock, .ret .nil] ∧
    (Ach.Props.Accepted.frontOf v_Addenda99_Validate 2).all (fun q => rejectOnly q && noAssign q) = true := by
  decide +kernel

/-- the return codes the library knows (the keys of `returnCodeDict`, re-extracted from the source on every run) -/
def knownReturnCodes : List String := (dictKeys.lookup "returnCodeDict").getD []

/-- for every Addenda99 value: `Addenda99.Validate()` (translated from the source on this run) returns nil without
`CustomReturnCodes` only if the return code is a key of `returnCodeDict` — the table no validation ever writes
(`Ach.Props.C19.globals_written_only_at_init`) -/
theorem accepted_addenda99_return_code (c : Ctx) (rc : Str)
    (hflag : hasFlag c "recv" "CustomReturnCodes" = false)
    (hr : lookup c.fields (joinPath c.recv "ReturnCode") = .str rc)
    (ha : run c v_Addenda99_Validate = .accept) :
    knownReturnCodes.contains (String.ofList rc) = true := by
  have hres := Ach.Props.Validators.accept_ret c _ ha
  obtain ⟨hs, hall⟩ := addenda99_validate_shape
  obtain ⟨pre, h⟩ := accept_reaches c _ _ _ hs (by simp) hall hres
  have hd : builtin1 c.ext "dict.returnCodeDict" (Val.str rc) =
      .pair (.int 0) (.bool (knownReturnCodes.contains (String.ofList rc))) := by
    have hk : dictKeys.lookup "returnCodeDict" = some knownReturnCodes := by decide +kernel
    have hdrop : (("dict.returnCodeDict" : String).drop 5).copy = "returnCodeDict" := by decide +kernel
    have hsw : ("dict.returnCodeDict" : String).startsWith "dict." = true := by decide +kernel
    simp [builtin1, hsw, hdrop, hk]
  by_cases hin : knownReturnCodes.contains (String.ofList rc) = true
  · exact hin
  · have hnm : String.ofList rc ∉ knownReturnCodes := by simpa using hin
    simp [returnCodeBlock, seqs, exec, eval, hflag, hr, hd, hnm, lookup, scopeExit] at h

example : knownReturnCodes.contains "R01" = true ∧ knownReturnCodes.contains "R93" = false := by decide +kernel


/-! ## notifications of change -/

def changeCodeTail : List Prog :=
  [(.bind2 "_" "ok" (.call1 "dict.changeCodeDict" (.fld "ChangeCode"))),
   (.ite (.not (.var "ok")) (.ret (.mkErr "ChangeCode")) .skip),
   (.ite (.eq (.fld "CorrectedData") (.str "")) (.ret (.mkErr "CorrectedData")) .skip),
   (.ret .nil)]

theorem addenda98_validate_shape :
    stmts v_Addenda98_Validate = Ach.Props.Accepted.frontOf v_Addenda98_Validate 4 ++ changeCodeTail ∧
    (Ach.Props.Accepted.frontOf v_Addenda98_Validate 4).all (fun q => rejectOnly q && noAssign q) = true := by
  decide +kernel

def knownChangeCodes : List String := (dictKeys.lookup "changeCodeDict").getD []

/-- for every Addenda98 value: `Addenda98.Validate()` (translated from the source on this run) returns nil only if the
change code is a key of `changeCodeDict` and the corrected data is not empty -/
theorem accepted_addenda98_change_code (c : Ctx) (cc cdata : Str)
    (hc : lookup c.fields (joinPath c.recv "ChangeCode") = .str cc)
    (hd : lookup c.fields (joinPath c.recv "CorrectedData") = .str cdata)
    (ha : run c v_Addenda98_Validate = .accept) :
    knownChangeCodes.contains (String.ofList cc) = true ∧ cdata ≠ [] := by
  have hres := Ach.Props.Validators.accept_ret c _ ha
  obtain ⟨hs, hall⟩ := addenda98_validate_shape
  obtain ⟨pre, h⟩ := accept_reaches c _ _ _ hs (by simp [changeCodeTail]) hall hres
  have hdict : builtin1 c.ext "dict.changeCodeDict" (Val.str cc) =
      .pair (.int 0) (.bool (knownChangeCodes.contains (String.ofList cc))) := by
    have hk : dictKeys.lookup "changeCodeDict" = some knownChangeCodes := by decide +kernel
    have hdrop : (("dict.changeCodeDict" : String).drop 5).copy = "changeCodeDict" := by decide +kernel
    have hsw : ("dict.changeCodeDict" : String).startsWith "dict." = true := by decide +kernel
    simp [builtin1, hsw, hdrop, hk]
  have he : ("" : String).toList = [] := by decide
  by_cases hin : String.ofList cc ∈ knownChangeCodes
  · by_cases hnd : cdata = []
    · simp [changeCodeTail, seqs, exec, eval, hc, hd, hdict, hin, hnd, he, lookup, cmpVals, scopeExit] at h
    · exact ⟨by simpa using hin, hnd⟩
  · simp [changeCodeTail, seqs, exec, eval, hc, hd, hdict, hin, lookup, scopeExit] at h

end Ach.Props.AcceptedAddenda
