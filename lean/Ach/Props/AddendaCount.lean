import Ach.Proofs.GoLite
import Ach.Generated.Validators
/-!
# `EntryDetail.addendaCount` counts every addenda record an entry holds (shared by C02, C05, C09)

`addendaCount` is what `Batch.build` puts into the control's entry/addenda count, what `isBatchEntryCount` compares and
what the merge line budget charges per entry.  It is translated from the source on every run
(`v_EntryDetail_addendaCount`); here it is shown to be — today — the counting program over the entry's seven addenda
fields (`addendaCount_is_count`, by evaluation), and every program of that form is shown to return the number of
non-nil addenda pointers plus the lengths of the addenda slices (`countProg_spec`): one per record the Writer emits for
the entry (`Ach.Props.Addenda`: the Writer walks the same fields).  A change that counts two kinds once, skips a kind
for some category, or returns early breaks the first obligation.
-/
namespace Ach.Props.AddendaCount
open Ach Ach.GoLite Ach.Gen

inductive Item where
  | ptr (f : String)
  | lst (f : String)
deriving DecidableEq, Repr

def bump : Prog := .assign "n" (.add (.var "n") (.int 1))

def itemStmt : Item → Prog
  | .ptr f => .ite (.ne (.fld f) .nil) bump .skip
  | .lst f => .forIdx "i" (.fld f) (.ite (.ne (.idx (.fld f) (.var "i")) .nil) bump .skip)

def tailProg (items : List Item) : Prog := seqs (items.map itemStmt ++ [.ret (.var "n")])

def countProg (items : List Item) : Prog := seqs [.bind "n" (.int 0), tailProg items]

/-- the addenda fields of a standard entry, in the order `addendaCount` walks them -/
def entryItems : List Item :=
  [.ptr "Addenda02", .lst "Addenda05", .ptr "Addenda98", .ptr "Addenda98Refused", .ptr "Addenda99",
   .ptr "Addenda99Dishonored", .ptr "Addenda99Contested"]

/-- the translated `EntryDetail.addendaCount` is the counting program over `entryItems` -/
theorem addendaCount_is_count : v_EntryDetail_addendaCount = countProg entryItems := by decide +kernel

/-- records an item stands for: a non-nil pointer is one record, a slice of n records is n -/
def itemVal (c : Ctx) : Item → Option Nat
  | .ptr f => match lookup c.fields (joinPath c.recv f) with
      | .ref _ => some 1
      | .nilp => some 0
      | _ => none
  | .lst f => match lookup c.fields (joinPath c.recv f) with
      | .lst _ n => some n
      | .nilp => some 0
      | _ => none

theorem seqs_cons (p : Prog) (ps : List Prog) (h : ps ≠ []) : seqs (p :: ps) = .seq p (seqs ps) := by
  cases ps with
  | nil => exact absurd rfl h
  | cons q qs => rfl

theorem tailProg_cons (it : Item) (items : List Item) :
    tailProg (it :: items) = .seq (itemStmt it) (tailProg items) := by
  unfold tailProg
  rw [List.map_cons, List.cons_append, seqs_cons _ _ (by simp)]

theorem bump_exec (c : Ctx) (k : Int) : exec bump c [("n", .int k)] = ([("n", .int (k + 1))], .next) := by
  simp [bump, exec, eval, lookup, arith, update]

theorem bump_exec_i (c : Ctx) (j : Val) (k : Int) :
    exec bump c [("i", j), ("n", .int k)] = ([("i", j), ("n", .int (k + 1))], .next) := by
  simp [bump, exec, eval, lookup, arith, update]

/-- a loop whose body adds one to `n` for every index below m adds the number of indices -/
theorem iter_count (g : Locals → Locals × Sig) (m : Nat)
    (hg : ∀ j, j < m → ∀ k : Int, g [("i", .int j), ("n", .int k)] = ([("i", .int j), ("n", .int (k + 1))], .next)) :
    ∀ (is : List Nat), (∀ j ∈ is, j < m) → ∀ k : Int,
      iter g (fun j => .int j) "i" is [("n", .int k)] = ([("n", .int (k + is.length))], .next) := by
  intro is
  induction is with
  | nil => intro _ k; simp [iter]
  | cons j is ih =>
      intro hb k
      have hj : j < m := hb j (List.mem_cons_self ..)
      simp only [iter, hg j hj k]
      have hs : scopeExit [("n", Val.int k)] [("i", Val.int (j : Int)), ("n", Val.int (k + 1))] = [("n", Val.int (k + 1))] := by
        simp [scopeExit]
      rw [hs, ih (fun j' hj' => hb j' (List.mem_cons_of_mem _ hj')) (k + 1)]
      have : k + 1 + (is.length : Int) = k + ((j :: is).length : Int) := by
        simp only [List.length_cons]
        omega
      rw [this]

def loopBody (f : String) : Prog := .ite (.ne (.idx (.fld f) (.var "i")) .nil) bump .skip

theorem loopBody_exec (c : Ctx) (f p : String) (m : Nat) (hf : lookup c.fields (joinPath c.recv f) = .lst p m)
    (j : Nat) (hj : j < m) (k : Int) :
    exec (loopBody f) c [("i", .int j), ("n", .int k)] = ([("i", .int j), ("n", .int (k + 1))], .next) := by
  have hcond : eval c [("i", Val.int j), ("n", Val.int k)] (.ne (.idx (.fld f) (.var "i")) .nil) = .bool true := by
    simp [eval, hf, lookup, cmpVals, hj]
  simp [loopBody, exec, hcond, bump_exec_i, scopeExit]

theorem exec_forIdx (i : String) (coll : Expr) (body : Prog) (c : Ctx) (l : Locals) :
    exec (.forIdx i coll body) c l =
      match eval c l coll with
      | .lst _ n => iter (fun l' => exec body c l') (fun k => .int k) i (List.range n) l
      | .nilp => (l, .next)
      | _ => (l, .stuck "range") := by
  rw [exec]
  split <;> simp_all

/-- one item: the counter grows by the item's value -/
theorem itemStmt_exec (c : Ctx) (it : Item) (v : Nat) (hv : itemVal c it = some v) (k : Int) :
    exec (itemStmt it) c [("n", .int k)] = ([("n", .int (k + v))], .next) := by
  cases it with
  | ptr f =>
      simp only [itemVal] at hv
      simp only [itemStmt, exec, eval, lookup]
      generalize lookup c.fields (joinPath c.recv f) = x at hv
      cases x <;> simp at hv
      · subst hv
        simp [cmpVals, bump_exec, scopeExit]
      · subst hv
        simp [cmpVals, exec, scopeExit]
  | lst f =>
      simp only [itemVal] at hv
      show exec (.forIdx "i" (.fld f) (loopBody f)) c [("n", .int k)] = _
      rw [exec_forIdx]
      simp only [eval]
      cases hx : lookup c.fields (joinPath c.recv f) <;> rw [hx] at hv <;> simp at hv
      · subst hv; simp
      · rename_i p m
        subst hv
        simp only
        have := iter_count (fun l' => exec (loopBody f) c l') m (fun j hj k => loopBody_exec c f p m hx j hj k)
          (List.range m) (fun j hj => List.mem_range.mp hj) k
        rw [this]
        simp

/-- every program of the counting form returns the sum of its items -/
theorem tailProg_spec (c : Ctx) :
    ∀ (items : List Item) (vals : List Nat), items.map (itemVal c) = vals.map some → ∀ k : Int,
      (exec (tailProg items) c [("n", .int k)]).2 = .ret (.int (k + vals.sum)) := by
  intro items
  induction items with
  | nil =>
      intro vals hv k
      cases vals with
      | nil => simp [tailProg, seqs, exec, eval, lookup]
      | cons _ _ => simp at hv
  | cons it items ih =>
      intro vals hv k
      cases vals with
      | nil => simp at hv
      | cons v vs =>
          simp only [List.map_cons, List.cons.injEq] at hv
          rw [tailProg_cons]
          simp only [exec, itemStmt_exec c it v hv.1 k]
          rw [ih vs hv.2 (k + v)]
          simp [List.sum_cons]
          omega

/-- C02 / C05 / C09: for every entry (whatever its category, SEC code or field values), `addendaCount()` is the number
of its non-nil addenda pointers plus the lengths of its addenda slices -/
theorem addendaCount_counts_records (c : Ctx) (vals : List Nat)
    (hv : entryItems.map (itemVal c) = vals.map some) :
    (exec v_EntryDetail_addendaCount c []).2 = .ret (.int vals.sum) := by
  rw [addendaCount_is_count]
  simp only [countProg, seqs, exec, eval]
  have := tailProg_spec c entryItems vals hv 0
  simpa using this

/-- non-vacuity: an entry with an Addenda02, three Addenda05, an Addenda98 and a refused Addenda98 counts six -/
def sampleEntry : Ctx where
  fields := [("Addenda02", .ref "Addenda02"), ("Addenda05", .lst "Addenda05" 3), ("Addenda98", .ref "Addenda98"),
    ("Addenda98Refused", .ref "Addenda98Refused"), ("Addenda99", .nilp), ("Addenda99Dishonored", .nilp), ("Addenda99Contested", .nilp)]
  recvFlags := []
  paramFlags := []
  ext := []

example : (exec v_EntryDetail_addendaCount sampleEntry []).2 = .ret (.int 6) := by decide +kernel
example : entryItems.map (itemVal sampleEntry) = [1, 3, 1, 1, 0, 0, 0].map some := by decide +kernel

end Ach.Props.AddendaCount
