import Ach.Props.C03IATCode
/-!
# Non-vacuity of `c03_iat_batch`: a concrete IAT batch that the translated `IATBatch.verify` accepts

The batch below is one of the generator batches the `batchvalidate` stream compared with the real `IATBatch.Validate`
(one forward entry with its seven mandatory addenda and one Addenda17, no options); it is written out here once, as a
witness that the hypotheses of `c03_iat_batch` are satisfiable.  It is a test, not a theorem about all batches.
-/
namespace Ach.Props.C03IATSample
open Ach Ach.GoLite Ach.Gen Ach.Props.C03IATCode

def iatFields0 : List (String × Val) := [
  ("ID", .str "b1".toList),
  ("Header", .ref "Header"),
  ("Header.ID", .str "b1".toList),
  ("Header.ServiceClassCode", .int 225),
  ("Header.IATIndicator", .str "".toList),
  ("Header.ForeignExchangeIndicator", .str "FF".toList),
  ("Header.ForeignExchangeReferenceIndicator", .int 3),
  ("Header.ForeignExchangeReference", .str "".toList),
  ("Header.ISODestinationCountryCode", .str "US".toList),
  ("Header.OriginatorIdentification", .str "XzE3KT".toList),
  ("Header.StandardEntryClassCode", .str "IAT".toList),
  ("Header.CompanyEntryDescription", .str "TRADEPAYMT".toList),
  ("Header.ISOOriginatingCurrencyCode", .str "CAD".toList),
  ("Header.ISODestinationCurrencyCode", .str "USD".toList),
  ("Header.EffectiveEntryDate", .str "501221".toList),
  ("Header.SettlementDate", .str "".toList),
  ("Header.OriginatorStatusCode", .int 1),
  ("Header.ODFIIdentification", .str "05560351".toList),
  ("Header.BatchNumber", .int 1),
  ("Header.LineNumber", .int 0),
  ("Entries", .lst "Entries" 1),
  ("Entries[0].ID", .str "b1e1".toList),
  ("Entries[0].TransactionCode", .int 47),
  ("Entries[0].RDFIIdentification", .str "29968350".toList),
  ("Entries[0].CheckDigit", .str "0".toList)
]

def iatFields1 : List (String × Val) := [
  ("Entries[0].AddendaRecords", .int 8),
  ("Entries[0].Amount", .int 1483067),
  ("Entries[0].DFIAccountNumber", .str "294-006020690".toList),
  ("Entries[0].OFACScreeningIndicator", .str "".toList),
  ("Entries[0].SecondaryOFACScreeningIndicator", .str "".toList),
  ("Entries[0].AddendaRecordIndicator", .int 1),
  ("Entries[0].TraceNumber", .str "055603510000001".toList),
  ("Entries[0].Addenda10", .ref "Entries[0].Addenda10"),
  ("Entries[0].Addenda10.ID", .str "".toList),
  ("Entries[0].Addenda10.TypeCode", .str "10".toList),
  ("Entries[0].Addenda10.TransactionTypeCode", .str "MIS".toList),
  ("Entries[0].Addenda10.ForeignPaymentAmount", .int 1483067),
  ("Entries[0].Addenda10.ForeignTraceNumber", .str "".toList),
  ("Entries[0].Addenda10.Name", .str "yxuiy3 Tp3)Z+,kbCis' QUF.rrw".toList),
  ("Entries[0].Addenda10.EntryDetailSequenceNumber", .int 1),
  ("Entries[0].Addenda10.LineNumber", .int 0),
  ("Entries[0].Addenda11", .ref "Entries[0].Addenda11"),
  ("Entries[0].Addenda11.ID", .str "".toList),
  ("Entries[0].Addenda11.TypeCode", .str "11".toList),
  ("Entries[0].Addenda11.OriginatorName", .str "dMvt:AVccGJo u'V4S".toList),
  ("Entries[0].Addenda11.OriginatorStreetAddress", .str "f,IFSLiPusK'NQ)7#17Z".toList),
  ("Entries[0].Addenda11.EntryDetailSequenceNumber", .int 1),
  ("Entries[0].Addenda11.LineNumber", .int 0),
  ("Entries[0].Addenda12", .ref "Entries[0].Addenda12"),
  ("Entries[0].Addenda12.ID", .str "".toList)
]

def iatFields2 : List (String × Val) := [
  ("Entries[0].Addenda12.TypeCode", .str "12".toList),
  ("Entries[0].Addenda12.OriginatorCityStateProvince", .str "Cln Iu3tn8I5*LC\\".toList),
  ("Entries[0].Addenda12.OriginatorCountryPostalCode", .str "US*58550\\".toList),
  ("Entries[0].Addenda12.EntryDetailSequenceNumber", .int 1),
  ("Entries[0].Addenda12.LineNumber", .int 0),
  ("Entries[0].Addenda13", .ref "Entries[0].Addenda13"),
  ("Entries[0].Addenda13.ID", .str "".toList),
  ("Entries[0].Addenda13.TypeCode", .str "13".toList),
  ("Entries[0].Addenda13.ODFIName", .str "TQG.jD.F#6oXSB".toList),
  ("Entries[0].Addenda13.ODFIIDNumberQualifier", .str "03".toList),
  ("Entries[0].Addenda13.ODFIIdentification", .str "40112987603".toList),
  ("Entries[0].Addenda13.ODFIBranchCountryCode", .str "MX".toList),
  ("Entries[0].Addenda13.EntryDetailSequenceNumber", .int 1),
  ("Entries[0].Addenda13.LineNumber", .int 0),
  ("Entries[0].Addenda14", .ref "Entries[0].Addenda14"),
  ("Entries[0].Addenda14.ID", .str "".toList),
  ("Entries[0].Addenda14.TypeCode", .str "14".toList),
  ("Entries[0].Addenda14.RDFIName", .str "9YiFZ#te-aPdEhOeqzYE n7'HA9eX".toList),
  ("Entries[0].Addenda14.RDFIIDNumberQualifier", .str "02".toList),
  ("Entries[0].Addenda14.RDFIIdentification", .str "633569784021591552390242032".toList),
  ("Entries[0].Addenda14.RDFIBranchCountryCode", .str "AU".toList),
  ("Entries[0].Addenda14.EntryDetailSequenceNumber", .int 1),
  ("Entries[0].Addenda14.LineNumber", .int 0),
  ("Entries[0].Addenda15", .ref "Entries[0].Addenda15"),
  ("Entries[0].Addenda15.ID", .str "".toList)
]

def iatFields3 : List (String × Val) := [
  ("Entries[0].Addenda15.TypeCode", .str "15".toList),
  ("Entries[0].Addenda15.ReceiverIDNumber", .str "".toList),
  ("Entries[0].Addenda15.ReceiverStreetAddress", .str "0 D1kJk+d1y #9dX iW  9z(O(1 Tx".toList),
  ("Entries[0].Addenda15.EntryDetailSequenceNumber", .int 1),
  ("Entries[0].Addenda15.LineNumber", .int 0),
  ("Entries[0].Addenda16", .ref "Entries[0].Addenda16"),
  ("Entries[0].Addenda16.ID", .str "".toList),
  ("Entries[0].Addenda16.TypeCode", .str "16".toList),
  ("Entries[0].Addenda16.ReceiverCityStateProvince", .str "wEw#zZ XA,Ab*RV\\".toList),
  ("Entries[0].Addenda16.ReceiverCountryPostalCode", .str "CA*360876\\".toList),
  ("Entries[0].Addenda16.EntryDetailSequenceNumber", .int 1),
  ("Entries[0].Addenda16.LineNumber", .int 0),
  ("Entries[0].Addenda17", .lst "Entries[0].Addenda17" 1),
  ("Entries[0].Addenda17[0].ID", .str "".toList),
  ("Entries[0].Addenda17[0].TypeCode", .str "17".toList),
  ("Entries[0].Addenda17[0].PaymentRelatedInformation", .str "mDtsLST X49   uap&On-nFcBzlnE-+EEpDe,i0".toList),
  ("Entries[0].Addenda17[0].SequenceNumber", .int 1),
  ("Entries[0].Addenda17[0].EntryDetailSequenceNumber", .int 1),
  ("Entries[0].Addenda17[0].LineNumber", .int 0),
  ("Entries[0].Addenda18", .nilp),
  ("Entries[0].Addenda98", .nilp),
  ("Entries[0].Addenda99", .nilp),
  ("Entries[0].Category", .str "Forward".toList),
  ("Entries[0].LineNumber", .int 0),
  ("Control", .ref "Control")
]

def iatFields4 : List (String × Val) := [
  ("Control.ID", .str "".toList),
  ("Control.ServiceClassCode", .int 225),
  ("Control.EntryAddendaCount", .int 9),
  ("Control.EntryHash", .int 29968350),
  ("Control.TotalDebitEntryDollarAmount", .int 1483067),
  ("Control.TotalCreditEntryDollarAmount", .int 0),
  ("Control.CompanyIdentification", .str "XzE3KT".toList),
  ("Control.MessageAuthenticationCode", .str "".toList),
  ("Control.ODFIIdentification", .str "05560351".toList),
  ("Control.BatchNumber", .int 1),
  ("Control.LineNumber", .int 0),
  ("category", .str "Forward".toList)
]

def iatExt : List (String × Bool) := [
  ("iso3166.Valid:US", true),
  ("iso4217.Lookup:CAD", true),
  ("iso4217.Lookup:USD", true)
]

def iatSample : Ctx := { fields := iatFields0 ++ iatFields1 ++ iatFields2 ++ iatFields3 ++ iatFields4, recvFlags := [], paramFlags := [], ext := iatExt }

/-- the translated `IATBatch.verify` (and the whole `IATBatch.Validate`) accepts the sample -/
theorem iat_sample_verified : run iatSample v_IATBatch_verify = .accept := by decide +kernel
theorem iat_sample_validated : run iatSample v_IATBatch_Validate = .accept := by decide +kernel

def sampleIAT : IATStd iatSample where
  hp := "Header"
  cp := "Control"
  p := "Entries"
  n := 1
  hH := by decide +kernel
  hC := by decide +kernel
  hE := by decide +kernel
  hscc := 225
  cscc := 225
  hbn := 1
  cbn := 1
  hodfi := "05560351".toList
  codfi := "05560351".toList
  h1 := by decide +kernel
  h2 := by decide +kernel
  h5 := by decide +kernel
  h6 := by decide +kernel
  h7 := by decide +kernel
  h8 := by decide +kernel
  count := 9
  hash := 29968350
  credit := 0
  debit := 1483067
  k1 := by decide +kernel
  k2 := by decide +kernel
  k3 := by decide +kernel
  k4 := by decide +kernel
  rdfi := fun _ => "29968350".toList
  cd := fun _ => "0".toList
  tr := fun _ => "055603510000001".toList
  tc := fun _ => 47
  am := fun _ => 1483067
  recs := fun _ => [1, 1, 1, 1, 1, 1, 1, 1, 1, 0, 0]
  e1 := by decide +kernel
  e2 := by decide +kernel
  e3 := by decide +kernel
  e4 := by decide +kernel
  e5 := by decide +kernel
  e6 := by decide +kernel
  ascii := by decide +kernel

theorem iat_sample_default_opts : Ach.Props.C03Code.defaultOpts iatSample := by
  intro f
  simp [hasFlag, iatSample]

/-- the hypotheses of `c03_iat_batch` are satisfiable: it applies to the sample, whose control figures are what its one
entry (nine records) determines -/
theorem iat_sample_satisfies_c03 :
    sampleIAT.count = 9 ∧ sampleIAT.hodfi = sampleIAT.codfi ∧
    Ach.Props.AcceptedIATTraces.iatTracePrefix "055603510000001".toList = .str (stringField "05560351".toList 8) := by
  have h := c03_iat_batch iatSample sampleIAT iat_sample_default_opts iat_sample_verified
  exact ⟨by decide, h.2.2.2.2.2.1, h.2.2.2.2.2.2.2.2.1 0 (by decide)⟩

end Ach.Props.C03IATSample
