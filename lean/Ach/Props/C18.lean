import Ach.Proofs.Repo
import Ach.Generated.Locks
/-!
# C18 — the file repository is linearizable under concurrent clients

Model: `Ach.Model.Repo` (sequential specification `specStep`; concurrent LTS of any number of threads over one RW
lock, every method split into the shared accesses of its Go body).  All theorems are for **every** number of
threads, every program and every interleaving (induction over runs; no bounds).

* `lock_discipline_from_source` (F) — the lock kinds read off server/repository.go today satisfy `LockDiscipline`;
  `read_locked_store_counterexample` shows the hypothesis is needed.
* `repo_lock_invariant` — in every reachable state the holders of the lock are exactly the threads inside a critical
  section of the matching kind, and a writer excludes every other holder.
* `repo_no_conflicting_access` — no reachable state has two threads before conflicting accesses.
* `repo_refines_atomic` — forward simulation onto the atomic map; `repo_linearizable` — for complete runs the order of
  linearization points is a permutation of the calls that replays on `specStep` with exactly the returned results;
  `repo_realtime_order` — that order respects real-time precedence (each linearization point lies between the call
  and the return).
* `second_store_fails`, `find_after_delete_fails`, `list_is_stored_set`, `batch_found_between` — the four sequential
  clauses, on `specStep`.

Tie to the code: `Ach.Gen.repoMethods` (lock call, deferred unlock, accesses before the lock — regenerated from the
source on every check) and the `repo` correspondence stream (`Ach.Repo.runOps`: `specStep`, and with the `micro`
prefix the micro-steps, against the real repository on the same call sequences).

Trusted / modelled, not verified: the contract of `sync.RWMutex` stated in `Ach.Model.Repo` (no writer preference,
fairness or starvation); `defer` running the unlock after the last access; sequentially consistent memory, i.e. the
Go memory model is not exhibited — "no race" is proved as "no two enabled conflicting accesses" in the model; the
heap as a value map (a `*ach.File` is its id), which hides that `FindFile`/`FindBatch`/`FindAll*` hand out pointers
into the repository that callers may read or write after the lock is released; the ticker goroutine of
`NewRepositoryInMemory` (its body `cleanupOldFiles` is the writer op `sweep`, its timing is not modelled);
`StoreFile(nil)`.
-/
namespace Ach.Props.C18
open Ach Ach.Repo

/-- the lock each method takes, as extracted from the Go source -/
def srcKind : Method → LockKind := kindFrom Ach.Gen.repoMethods

/-- **F**: the source today: writers under `Lock`/`defer Unlock`, readers under `RLock`/`defer RUnlock`, nothing
before the lock.  Changing a `Lock()` to `RLock()`, dropping a lock or a `defer`, or touching `r.files` before the
lock breaks this proof. -/
theorem lock_discipline_from_source : LockDiscipline srcKind := ld_of_check (by decide)

/-- **F**: the model does not miss anything the extractor saw: every method of the table is a method of the model,
touches the map, and is a writer in the model whenever the extractor saw a write.  (The converse fails for
`DeleteBatch`: the table says `writesShared := false` although the body assigns `file.Batches` through the pointer
read from the map; the model counts it as a writer.) -/
theorem facts_agree_with_model :
    (Ach.Gen.repoMethods.all fun f => Method.all.any fun m => m.goName == f.method) = true ∧
    (Method.all.all fun m => match Ach.Gen.repoMethods.find? (fun f => f.method = m.goName) with
      | some f => f.touchesShared && !f.accessBeforeLock && (!f.writesShared || m.writes)
      | none => false) = true := by decide +kernel

/-- **F**: the bodies of the nine repository methods are the ones the sequential model (`specStep` / `microRun`: store
appends, find and delete go by ID) was written from.  The lock census above cannot see a change of *what* a method
does under its lock — e.g. `DeleteBatch` removing return batches by content instead of by ID (seed C18-j); this pin
sends such an edit to the oracle's search. -/
theorem repo_methods_as_modelled :
    Ach.Gen.repoMethods.map (fun f => (f.method, f.hash)) = [
      ("DeleteBatch", 257065001440626611), ("DeleteFile", 10664202471910957164),
      ("FindAllBatches", 4695842734299230670), ("FindAllFiles", 5390125899727251336),
      ("FindBatch", 751639383380015541), ("FindFile", 14180771047204466752),
      ("StoreBatch", 10369522212633806333), ("StoreFile", 5238297674936942396),
      ("cleanupOldFiles", 5924950020328261761)] := by decide +kernel

/-- **repo_lock_invariant** — for any lock kinds: holders = threads inside a section of that kind; readers are not
counted twice; a writer excludes all other holders -/
theorem repo_lock_invariant {kind : Method → LockKind} {progs : Nat → List Op} {s : State}
    (h : Reachable kind progs s) :
    LockInv kind s ∧
    ∀ t u, s.lock.writer = some t → (s.threads u).holds = true → (s.threads u).kind kind ≠ .none → u = t := by
  obtain ⟨tr, hr⟩ := h
  exact ⟨run_lockInv hr, fun t u hw hu hk => writer_excludes (run_lockInv hr) hw hu hk⟩

/-- **repo_no_conflicting_access** — "no operation races with another", at the level of the model -/
theorem repo_no_conflicting_access {kind : Method → LockKind} (ld : LockDiscipline kind) {progs : Nat → List Op}
    {s : State} (h : Reachable kind progs s) : ¬ Conflict s := by
  obtain ⟨tr, hr⟩ := h
  exact no_conflict ld (run_lockInv hr)

/-- **repo_refines_atomic** — forward simulation from the concurrent LTS to the atomic object (abstract state = the
memory): only linearization points (`acc op (some r)`, the access that completes the body) change it, and each is
one `specStep` whose result is the one the thread goes on to return -/
theorem repo_refines_atomic {kind : Method → LockKind} (ld : LockDiscipline kind) {progs : Nat → List Op}
    {s s' : State} {l : Label} (h : Reachable kind progs s) (hs : Step kind s l s') :
    (∀ op r, l.2 = .acc op (some r) → (s'.mem, r) = specStep s.mem op) ∧
    ((∀ op r, l.2 ≠ .acc op (some r)) → s'.mem = s.mem) := by
  obtain ⟨tr, hr⟩ := h
  exact step_sim (run_inv ld hr).2 hs

/-- **linearizability of complete runs**: when all threads have finished, the linearization points in trace order
(`linAll tr`) are a permutation of all calls — thread `t`'s share of it is `t`'s program in program order —, each call
returned the result recorded at its linearization point, and the sequential specification, started on the empty
repository and fed the calls in that order, produces exactly these results and ends in the final memory -/
theorem repo_linearizable {kind : Method → LockKind} (ld : LockDiscipline kind) {progs : Nat → List Op}
    {tr : List Label} {s : State} (h : Run kind (init progs) tr s) (hc : Complete s) :
    (∀ t, ((linAll tr).filterMap (fun x => if x.1 = t then some x.2 else none)).map (·.1) = progs t) ∧
    (∀ t, rets t tr = (linAll tr).filterMap (fun x => if x.1 = t then some x.2 else none)) ∧
    (∀ t, calls t tr = progs t) ∧
    replay [] (linAll tr) = some s.mem := by
  have hh := run_hist ld h
  refine ⟨fun t => ?_, fun t => ?_, fun t => (complete_hist hh hc t).1, hh.replay⟩
  · rw [← lins_eq_linAll]; exact (complete_hist hh hc t).2.1
  · rw [← lins_eq_linAll]; exact (complete_hist hh hc t).2.2

/-- **the linearization order respects real time**.  At every point of a run (`p` = the trace so far) and for every
thread, #returns ≤ #linearization points ≤ #calls: the k-th linearization point of a thread lies between its k-th
call and its k-th return.  Hence if call no. `k` of `t` has returned within `p` and call no. `j` of `u` has not yet
been issued within `p`, the former's linearization point is in `p` and the latter's is not, i.e. it comes later in
`linAll (p ++ q) = linAll p ++ linAll q`. -/
theorem repo_realtime_order {kind : Method → LockKind} (ld : LockDiscipline kind) {progs : Nat → List Op}
    {p q : List Label} {s : State} (h : Run kind (init progs) (p ++ q) s) :
    (∀ t, (rets t p).length ≤ (lins t p).length ∧ (lins t p).length ≤ (calls t p).length) ∧
    (∀ t u k j, k < (rets t p).length → (calls u p).length ≤ j → k < (lins t p).length ∧ (lins u p).length ≤ j) ∧
    linAll (p ++ q) = linAll p ++ linAll q := by
  obtain ⟨mid, hm⟩ := h.prefix p q rfl
  have hc := fun t => hist_counts ((run_hist ld hm).thread t)
  refine ⟨hc, fun t u k j hk hj => ⟨?_, ?_⟩, by simp [linAll, List.filterMap_append]⟩
  · have := (hc t).1; omega
  · have := (hc u).2; omega

/-! ## the sequential clauses -/

/-- a second store of an existing id fails and leaves the first file in place -/
theorem second_store_fails (s : Spec) (id tok tok' : Nat) :
    (∀ f, get id s = some f → specStep s (.storeFile id tok') = (s, .exists)) ∧
    ((specStep s (.storeFile id tok)).2 = .ok →
      specStep (specStep s (.storeFile id tok)).1 (.storeFile id tok') = ((specStep s (.storeFile id tok)).1, .exists) ∧
      get id (specStep s (.storeFile id tok)).1 = some ⟨tok, []⟩) := by
  constructor
  · intro f hf; simp [specStep, hf]
  · cases hg : get id s <;> simp [specStep, hg]

/-- a find after a completed delete fails -/
theorem find_after_delete_fails (s : Spec) (id : Nat) :
    (specStep s (.deleteFile id)).2 = .ok ∧
    specStep (specStep s (.deleteFile id)).1 (.findFile id) = ((specStep s (.deleteFile id)).1, .notFound) := by
  simp [specStep]

/-- listing returns exactly the stored set (each stored id once, in id order) and changes nothing -/
theorem list_is_stored_set (s : Spec) (h : WF s) :
    specStep s .findAllFiles = (s, .files (listing s)) ∧
    (∀ id tok, (id, tok) ∈ listing s ↔ ∃ bs, get id s = some ⟨tok, bs⟩) ∧
    (listing s).Pairwise (fun a b => a.1 < b.1) := by
  refine ⟨rfl, fun id tok => ?_, ?_⟩
  · simp only [listing, List.mem_map, Prod.mk.injEq]
    constructor
    · rintro ⟨⟨i, f⟩, hm, rfl, rfl⟩; exact ⟨f.batches, (mem_iff_get h.1 _ _).1 hm⟩
    · rintro ⟨bs, hg⟩; exact ⟨(id, ⟨tok, bs⟩), (mem_iff_get h.1 _ _).2 hg, rfl, rfl⟩
  · exact List.pairwise_map.2 h.1

/-- well-formedness holds of the empty repository and is kept by every call -/
theorem wf_reachable (ops : List Op) : WF (ops.foldl (fun s op => (specStep s op).1) []) := by
  suffices ∀ s, WF s → WF (ops.foldl (fun s op => (specStep s op).1) s) from this _ wf_nil
  induction ops with
  | nil => exact fun s h => h
  | cons op ops ih => exact fun s h => ih _ (specStep_wf op h)

/-- a batch is found in a file exactly between its store and its delete: found right after a successful
`StoreBatch`, not found right after a successful `DeleteBatch`, and no call other than `StoreBatch`/`DeleteBatch`
of that batch, `DeleteFile` of that file or the sweeper changes whether it is found -/
theorem batch_found_between (s : Spec) (id b : Nat) :
    ((specStep s (.storeBatch id b)).2 = .ok →
      (specStep (specStep s (.storeBatch id b)).1 (.findBatch id b)).2 = .batch b) ∧
    (WF s → (specStep s (.deleteBatch id b)).2 = .ok →
      (specStep (specStep s (.deleteBatch id b)).1 (.findBatch id b)).2 = .notFound) ∧
    (∀ op, touchesBatch id b op = false →
      (specStep (specStep s op).1 (.findBatch id b)).2 = (specStep s (.findBatch id b)).2) := by
  refine ⟨?_, ?_, fun op h => by simp [findBatch_eq, hasBatch_frame s id b op h]⟩
  · cases hg : get id s with
    | none => simp [specStep, hg]
    | some f => by_cases hb : b ∈ f.batches <;> simp [specStep, hg, hb]
  · intro hwf
    cases hg : get id s with
    | none => simp [specStep, hg]
    | some f =>
      cases hl : lastIdx b f.batches with
      | none => simp [specStep, hg, hl]
      | some i => simp [specStep, hg, hl, not_mem_eraseIdx (hwf.2 id f hg) hl]

/-- run alone, the micro-steps of a body are the atomic step (also exercised by the `micro` lines of the driver) -/
theorem micro_steps_are_atomic (m : Spec) (op : Op) : microRun m op = specStep m op := microRun_eq_specStep m op

/-! ## the hypothesis is needed -/

/-- `StoreFile` under `RLock` instead of `Lock`, everything else as in the source -/
def badKind (m : Method) : LockKind := if m = .storeFile then .read else srcKind m

def twoStores (t : Nat) : List Op := if t = 0 then [.storeFile 1 7] else if t = 1 then [.storeFile 1 8] else []

/-- with `StoreFile` under the read lock the discipline fails, a state with a write of `r.files[1]` enabled beside a
read of it is reachable, and further on both stores of the same id have succeeded -/
theorem read_locked_store_counterexample :
    ¬ LockDiscipline badKind ∧
    (∃ s, Reachable badKind twoStores s ∧ Conflict s) ∧
    (∃ s, Reachable badKind twoStores s ∧
      (s.threads 0).pc = .leaving .ok ∧ (s.threads 1).pc = .leaving .ok ∧ s.mem = [(1, ⟨8, []⟩)]) := by
  refine ⟨fun h => ?_, ⟨exec badKind (init twoStores) [0, 0, 1, 1, 0], exec_reachable _ ⟨[], .nil⟩, ?_⟩,
    ⟨exec badKind (init twoStores) [0, 0, 1, 1, 0, 1, 0, 1], exec_reachable _ ⟨[], .nil⟩, ?_⟩⟩
  · have := (h .storeFile).2 rfl; revert this; decide
  · exact conflict_of_conflictB (t := 0) (u := 1) (by decide)
  · decide

/-- non-vacuity: under the source's lock kinds two clients storing the same id have a complete run (the second
waits for the lock, then fails), so `repo_linearizable` speaks about something -/
example : ∃ tr s, Run srcKind (init twoStores) tr s ∧ Complete s ∧ s.mem = [(1, ⟨7, []⟩)] := by
  have hr := exec_reachable (kind := srcKind) (progs := twoStores) [0, 1, 0, 0, 0, 0, 0, 1, 1, 1, 1] ⟨[], .nil⟩
  obtain ⟨tr, hr⟩ := hr
  refine ⟨tr, _, hr, fun t => ?_, by decide⟩
  by_cases h0 : t = 0
  · subst h0; decide
  · by_cases h1 : t = 1
    · subst h1; decide
    · rw [exec_other _ _ _ _ (by simp [h0, h1])]; simp [init, twoStores, h0, h1]

end Ach.Props.C18
