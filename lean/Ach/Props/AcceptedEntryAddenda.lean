import Ach.Props.AcceptedEntries
import Ach.Props.AcceptedAddenda
/-!
# The return addenda of every entry of an accepted batch passed `Addenda99.Validate` (C03 / C15 / C19)
-/
namespace Ach.Props.AcceptedEntryAddenda
open Ach Ach.GoLite Ach.Gen Ach.Props.AcceptedEntries Ach.Props.AcceptedServiceClass

/-- statements that leave the locals exactly as they were when they pass control on: those of `keeps`, and loops whose
body has no assignment -/
def keeps2 : Prog → Bool
  | .forEach _ _ b => calm b
  | p => keeps p

theorem keeps2_exact (p : Prog) (hk : keeps2 p = true) (c : Ctx) (l : Locals) (h : passing (exec p c l).2) :
    (exec p c l).2 = .next ∧ (exec p c l).1 = l := by
  cases p with
  | forEach v coll body =>
      simp only [keeps2] at hk
      simp only [exec] at h ⊢
      cases hc : eval c l coll with
      | lst pth n =>
          rw [hc] at h
          simp only at h ⊢
          have := iter_quiet (fun l' => exec body c l') (fun i => .ref (elemPath pth i)) v
            (fun l' hp => calm_suffix body hk c l' hp) (List.range n) l h
          rw [this]
          exact ⟨rfl, rfl⟩
      | nilp => exact ⟨rfl, rfl⟩
      | _ => rw [hc] at h; simp [passing] at h
  | _ => exact keeps_exact _ (by simpa [keeps2] using hk) c l h

theorem keeps2_drop (c : Ctx) :
    ∀ (ps : List Prog) (rest : Prog) (l : Locals), (∀ p ∈ ps, keeps2 p = true) →
      (exec (seqs (ps ++ [rest])) c l).2 = .next → (exec rest c l).2 = .next := by
  intro ps
  induction ps with
  | nil => intro rest l _ h; simpa [seqs] using h
  | cons a ps ih =>
      intro rest l hall h
      rw [List.cons_append, seqs_cons_ne _ _ (by simp)] at h
      simp only [exec] at h
      have ha := hall a (List.mem_cons_self ..)
      cases hx : exec a c l with
      | mk l1 s1 =>
        rw [hx] at h
        cases s1 with
        | next =>
            have := keeps2_exact a ha c l (by rw [hx]; exact Or.inl rfl)
            rw [hx] at this
            simp only at this h
            rw [this.2] at h
            exact ih rest l (fun p hp => hall p (List.mem_cons_of_mem _ hp)) h
        | _ => simp at h

def callAddenda99 : Prog :=
  .ite (.ne (.sel (.var "entry") "Addenda99") .nil)
    (.checkOn none (.sel (.var "entry") "Addenda99") [] [] v_Addenda99_Validate) .skip

/-- where the entry loop of `isFieldInclusion` validates the return addenda -/
theorem entry_body_validates_addenda99 :
    (stmts entryBody).drop 5 = callAddenda99 :: (stmts entryBody).drop 6 ∧
    (stmts entryBody).drop 6 ≠ [] ∧
    ((stmts entryBody).take 5).all keeps2 = true := by
  decide +kernel

/-- C03 / C15 / C19 — for every standard batch value of any size on which `Batch.verify()` (translated from the source on
this run) returns nil: the Addenda99 of every entry that has one passed `Addenda99.Validate()`; so, without
`CustomReturnCodes`, every return code in an accepted batch is a key of `returnCodeDict` -/
theorem accepted_batch_return_codes_known (c : Ctx) (hp p : String) (n : Nat) (sec : Str) (ap : Nat → String) (rc : Nat → Str)
    (hflag : hasFlag c "recv" "CustomReturnCodes" = false)
    (hH : lookup c.fields (joinPath c.recv "Header") = .ref hp)
    (hsec : lookup c.fields (joinPath hp "StandardEntryClassCode") = .str sec) (hnadv : sec ≠ ['A', 'D', 'V'])
    (hE : lookup c.fields (joinPath c.recv "Entries") = .lst p n)
    (ha : run c v_Batch_verify = .accept) :
    ∀ i, i < n → lookup c.fields (joinPath (elemPath p i) "Addenda99") = .ref (ap i) →
      lookup c.fields (joinPath (ap i) "ReturnCode") = .str (rc i) →
      Ach.Props.AcceptedAddenda.knownReturnCodes.contains (String.ofList (rc i)) = true := by
  intro i hi hA hR
  have hres := Ach.Props.Validators.accept_ret c _ ha
  obtain ⟨hd1, hne2, hall1, hFI, hneFI, hend, hSP, hneSP, hroF, hcalm, hEB, hneEB⟩ := field_inclusion_outline
  obtain ⟨hd5, hne6, hk5⟩ := entry_body_validates_addenda99
  -- as in `accepted_batch_entries_validated`: the body of the entry loop fell through for entry i
  have hs : stmts v_Batch_verify = (stmts v_Batch_verify).take 1 ++ (stmts v_Batch_verify).drop 1 :=
    (List.take_append_drop _ _).symm
  obtain ⟨pre, h1⟩ := accept_reaches c _ _ _ hs (by rw [hd1]; simp) hall1 hres
  rw [hd1, seqs_cons_ne _ _ hne2] at h1
  have hfi := Ach.Props.AcceptedHash.check_passes c pre _ _ (Ach.Props.Accepted.accept_seq_left (by decide) h1)
  rw [← seqs_stmts v_Batch_isFieldInclusion, hFI, seqs_cons_ne _ _ (by simp)] at hfi
  obtain ⟨pre2, h2⟩ := accept_seq (a := .checkOn none (.fld "Header") [] [] v_BatchHeader_Validate) (by decide) (by decide) hfi
  rw [seqs_cons_ne _ _ hneFI] at h2
  have hadv : (exec v_Batch_IsADV c []).2 = .ret (.bool false) := by
    simp [v_Batch_IsADV, seqs, exec, eval, hH, hsec, cmpVals, lookup, hnadv]
  simp only [List.append_nil] at h2
  have hb : (exec stdBlock c pre2).2 = (exec stdPart c (("_t1", .bool false) :: pre2)).2 := by
    simp [stdBlock, exec, eval, hadv, subResult, lookup]
  have hnn := endsInRet_not_next stdPart hend c (("_t1", .bool false) :: pre2)
  have hstd : (exec stdPart c (("_t1", .bool false) :: pre2)).2 = .ret (.err none) := by
    simp only [exec] at h2
    cases hx : exec stdBlock c pre2 with
    | mk l1 s1 =>
      rw [hx] at h2 hb
      simp only at hb
      cases s1 with
      | next => exact absurd hb.symm hnn
      | ret v => simp only at h2; rw [← hb]; exact h2
      | brk => simp at h2
      | cont => simp at h2
      | stuck _ => simp at h2
  rw [← seqs_stmts stdPart, hSP, seqs_cons_ne _ _ hneSP] at hstd
  have hloop := Ach.Props.Accepted.accept_seq_left hroF hstd
  simp only [exec, eval, hE] at hloop
  have hbody := Ach.Props.AcceptedFileBatches.iter_all_pass (fun l' => exec entryBody c l') (fun k => .ref (elemPath p k)) "entry"
    (fun l' hp' => calm_suffix entryBody hcalm c l' hp') (List.range n) _ (by rw [hloop]; exact Or.inl rfl)
    i (List.mem_range.mpr hi)
  -- inside the body: the five statements before the Addenda99 check keep the locals
  have hB5 : stmts entryBody = (stmts entryBody).take 5 ++ (callAddenda99 :: (stmts entryBody).drop 6) := by
    rw [← hd5]; exact (List.take_append_drop _ _).symm
  rw [← seqs_stmts entryBody, hB5, seqs_append_tail _ _ (by simp)] at hbody
  have h5 := keeps2_drop c _ _ _ (fun q hq => List.all_eq_true.mp hk5 q hq) hbody
  rw [seqs_cons_ne _ _ hne6] at h5
  have hcall := seq_next_left h5
  -- the entry has an Addenda99: its validator ran and returned nil
  have hv : (exec v_Addenda99_Validate { c with recv := ap i } []).2 = .ret (.err none) := by
    simp only [callAddenda99, exec, eval] at hcall
    simp [lookup, hA, cmpVals] at hcall
    generalize (exec v_Addenda99_Validate { c with recv := ap i } []).2 = s at hcall ⊢
    cases s with
    | ret v =>
        cases v with
        | err t =>
            cases t with
            | none => rfl
            | some t => simp [checkResult, scopeExit] at hcall
        | _ => simp [checkResult, scopeExit] at hcall
    | _ => simp [checkResult, scopeExit] at hcall
  have hrun : run { c with recv := ap i } v_Addenda99_Validate = .accept := by unfold run; rw [hv]
  exact Ach.Props.AcceptedAddenda.accepted_addenda99_return_code { c with recv := ap i } (rc i) hflag hR hrun

end Ach.Props.AcceptedEntryAddenda
