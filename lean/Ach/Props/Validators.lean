import Ach.Proofs.GoLite
import Ach.Generated.Validators
/-!
# Record-level validators (shared by C03, C04, C15)

The programs in `Ach.Gen.validatorProgs` are translated from /repo's `Validate` / `ValidateWith` /
`fieldInclusion` / `…OverflowsField` methods and the `validator` helpers on every run (gofacts/golite.go), and
interpreted by `Ach.GoLite.run`.  Obligations:

* `validator_entries`, `validators_translated`: every record type still has its entry point and the translator
  understood every statement and every built-in of every function (no `unknown` node);
* `validators_relax_shape`: every occurrence of a relaxation flag in those functions has one of the two shapes
  `if !flag { checks that can only reject }` / `if flag { return nil }` — a *regenerated* fact about today's source;
* `record_validators_monotone` (C15): hence, for every record type and every SEC batch type, every receiver value
  and every pair of option sets O ⊆ O', a record / batch accepted under O is accepted under O' (`relax_mono`, proved
  once for the interpreter — loops, calls on other records and early returns included — for all programs of that
  shape).  The batch validators are `BatchXXX.Validate`: `Batch.verify` and everything it calls (field inclusion =
  the record validators of every record of the batch, header/control equalities, entry count, ascending traces, totals,
  hash, trace ODFI, addenda sequence, category) and the per-entry rules of the SEC code; every record of the batch is
  taken to carry the same options (what the Reader and File.SetValidation produce);
* `entry_amount_in_field`, `batch_control_totals_in_field`, `file_control_totals_in_field` (C03): an accepted entry
  has 0 ≤ Amount ≤ 9,999,999,999 and accepted controls have totals that fit their 12-digit fields, read off the
  guards on the spine of today's functions (`spine_sound`).

Trusted: the translator (syntactic; tied behaviourally by the `recvalidate` stream: real validators vs `run` on
harvested and mutated records of all 26 types × option sets — and by the `batchvalidate` stream: real
`BatchXXX.Validate()` of all 22 SEC codes on generator batches with mutated fields / entries / addenda × option sets vs
`run`, accept or the FieldName of the outermost error compared); the hand-written built-ins of `Ach.GoLite`
(`isAlphanumeric`, `CalculateCheckDigit`, converters, strconv) — same stream.
-/
namespace Ach.Props.Validators
open Ach.GoLite Ach.Gen

/-- every record type has its validator entry point -/
theorem validator_entries : validatorEntries =
    ["ADVBatchControl.Validate", "ADVEntryDetail.Validate", "ADVFileControl.Validate", "Addenda02.Validate",
     "Addenda05.Validate", "Addenda10.Validate", "Addenda11.Validate", "Addenda12.Validate", "Addenda13.Validate",
     "Addenda14.Validate", "Addenda15.Validate", "Addenda16.Validate", "Addenda17.Validate", "Addenda18.Validate",
     "Addenda98.Validate", "Addenda98Refused.Validate", "Addenda99.Validate", "Addenda99Contested.Validate",
     "Addenda99Dishonored.Validate", "BatchControl.Validate", "BatchHeader.Validate", "EntryDetail.Validate",
     "FileControl.Validate", "FileHeader.ValidateWith", "IATBatchHeader.Validate", "IATEntryDetail.Validate"] := by
  decide

/-- every SEC code has its batch validator entry point -/
theorem batch_validator_entries : batchValidatorEntries =
    ["BatchACK.Validate", "BatchADV.Validate", "BatchARC.Validate", "BatchATX.Validate", "BatchBOC.Validate",
     "BatchCCD.Validate", "BatchCIE.Validate", "BatchCOR.Validate", "BatchCTX.Validate", "BatchDNE.Validate",
     "BatchENR.Validate", "BatchMTE.Validate", "BatchPOP.Validate", "BatchPOS.Validate", "BatchPPD.Validate",
     "BatchRCK.Validate", "BatchSHR.Validate", "BatchTEL.Validate", "BatchTRC.Validate", "BatchTRX.Validate",
     "BatchWEB.Validate", "BatchXCK.Validate", "IATBatch.Validate"] := by
  decide

/-- the file-level entry point -/
theorem file_validator_entries : fileValidatorEntries = ["File.ValidateWith"] := by decide

/-- every entry point was translated -/
theorem validator_entries_present :
    (validatorEntries ++ batchValidatorEntries ++ fileValidatorEntries).all (fun e => (validatorProgs.lookup e).isSome) = true := by decide +kernel

/-- the translator understood every statement, expression and built-in of every function -/
theorem validators_translated : validatorProgs.all (fun p => progKnown p.2) = true := by decide +kernel

/-- every use of a relaxation flag has a relaxing shape — in every translated function, the IAT ones included
(`IATBatch.isBatchEntryCount` returns (count, error); its only translated caller discards the count, so it is
translated as the function returning the error: `…#err`) -/
theorem validators_relax_shape : validatorProgs.all (fun p => relaxOK p.2) = true := by decide +kernel

/-- C15 for every translated validator — the 26 record validators and the 22 SEC batch validators (`Batch.verify`,
its helpers, the record validators of every record in the batch, the per-entry SEC rules): acceptance is monotone in
the relaxation flags (receiver options and `ValidateWith` parameter alike), for every receiver value -/
theorem record_validators_monotone (name : String) (p : Prog) (hp : (name, p) ∈ validatorProgs)
    (c c' : Ctx) (h : CtxLe c c') (ha : run c p = .accept) : run c' p = .accept := by
  have hs := validators_relax_shape
  rw [List.all_eq_true] at hs
  exact run_mono h p (hs (name, p) hp) ha

/-- C03: an entry accepted by `EntryDetail.Validate` has a non-negative amount that fits its 10-digit field -/
theorem entry_amount_in_field (c : Ctx) (a : Int) (hroot : c.recv = "") (hf : lookup c.fields "Amount" = .int a)
    (ha : run c v_EntryDetail_Validate = .accept) : 0 ≤ a ∧ a ≤ 9999999999 := by
  have hres : (exec v_EntryDetail_Validate c []).2 = .ret (.err none) := by
    unfold run at ha
    revert ha
    cases (exec v_EntryDetail_Validate c []).2 with
    | ret v => cases v with
      | err t => cases t <;> simp
      | _ => simp
    | _ => simp
  have h1 := spine_sound c v_EntryDetail_Validate [] (Or.inl hres) (.lt (.fld "Amount") (.int 0)) (by decide +kernel)
  have h2 := spine_sound c v_EntryDetail_Validate [] (Or.inl hres) (.gt (.fld "Amount") (.int 9999999999)) (by decide +kernel)
  simp [eval, hroot, joinPath, hf, cmpVals] at h1 h2
  omega

/-- C03: accepted batch controls carry totals that fit their 12-digit fields -/
theorem batch_control_totals_in_field (c : Ctx) (d cr : Int) (hroot : c.recv = "")
    (hd : lookup c.fields "TotalDebitEntryDollarAmount" = .int d)
    (hc : lookup c.fields "TotalCreditEntryDollarAmount" = .int cr)
    (ha : run c v_BatchControl_Validate = .accept) : d ≤ 999999999999 ∧ cr ≤ 999999999999 := by
  have hres : (exec v_BatchControl_Validate c []).2 = .ret (.err none) := by
    unfold run at ha
    revert ha
    cases (exec v_BatchControl_Validate c []).2 with
    | ret v => cases v with
      | err t => cases t <;> simp
      | _ => simp
    | _ => simp
  have h1 := spine_sound c v_BatchControl_Validate [] (Or.inl hres)
    (.gt (.fld "TotalDebitEntryDollarAmount") (.int 999999999999)) (by decide +kernel)
  have h2 := spine_sound c v_BatchControl_Validate [] (Or.inl hres)
    (.gt (.fld "TotalCreditEntryDollarAmount") (.int 999999999999)) (by decide +kernel)
  simp [eval, hroot, joinPath, hd, hc, cmpVals] at h1 h2
  omega

/-- C15 for in-memory validation as a whole: `File.ValidateWith` — file header, every batch through the validator of
its own SEC code (dispatch on the dynamic type), file control, batch count, entry/addenda count, totals, batch-number
order, entry hash — accepts under O' whatever it accepts under O ⊆ O', for every file value (receiver and parameter
options alike, every record carrying the same options; files in which `File.IsADV` would have to repair a missing
batch header or control are outside the embedding: the run is stuck there, under both option sets) -/
theorem file_validate_monotone (c c' : Ctx) (h : CtxLe c c')
    (ha : run c v_File_ValidateWith = .accept) : run c' v_File_ValidateWith = .accept :=
  record_validators_monotone "File.ValidateWith" v_File_ValidateWith (by decide +kernel) c c' h ha

/-- the same for IAT batches: `IATBatch.Validate` (verify, the IAT record validators, the IAT addenda rules) -/
theorem iat_batch_validate_monotone (c c' : Ctx) (h : CtxLe c c')
    (ha : run c v_IATBatch_Validate = .accept) : run c' v_IATBatch_Validate = .accept :=
  record_validators_monotone "IATBatch.Validate" v_IATBatch_Validate (by decide +kernel) c c' h ha

/-- helper: an accepting run returns nil -/
theorem accept_ret (c : Ctx) (p : Prog) (ha : run c p = .accept) : (exec p c []).2 = .ret (.err none) := by
  unfold run at ha
  revert ha
  cases (exec p c []).2 with
  | ret v => cases v with
    | err t => cases t <;> simp
    | _ => simp
  | _ => simp

/-- C03: accepted file controls carry totals that fit their 12-digit fields -/
theorem file_control_totals_in_field (c : Ctx) (d cr : Int) (hroot : c.recv = "")
    (hd : lookup c.fields "TotalDebitEntryDollarAmountInFile" = .int d)
    (hc : lookup c.fields "TotalCreditEntryDollarAmountInFile" = .int cr)
    (ha : run c v_FileControl_Validate = .accept) : d ≤ 999999999999 ∧ cr ≤ 999999999999 := by
  have hres := accept_ret c _ ha
  have h1 := spine_sound c v_FileControl_Validate [] (Or.inl hres)
    (.gt (.fld "TotalDebitEntryDollarAmountInFile") (.int 999999999999)) (by decide +kernel)
  have h2 := spine_sound c v_FileControl_Validate [] (Or.inl hres)
    (.gt (.fld "TotalCreditEntryDollarAmountInFile") (.int 999999999999)) (by decide +kernel)
  simp [eval, hroot, joinPath, hd, hc, cmpVals] at h1 h2
  omega

/-- C02: an accepted file header carries the fixed NACHA constants (record size 094, blocking factor 10, format code 1)
and a one-byte file ID modifier -/
theorem file_header_constants (c : Ctx) (rs bf fc fm : Str) (hroot : c.recv = "")
    (h1 : lookup c.fields "recordSize" = .str rs) (h2 : lookup c.fields "blockingFactor" = .str bf)
    (h3 : lookup c.fields "formatCode" = .str fc) (h4 : lookup c.fields "FileIDModifier" = .str fm)
    (ha : run c v_FileHeader_ValidateWith = .accept) :
    rs = "094".toList ∧ bf = "10".toList ∧ fc = "1".toList ∧ byteLen fm = 1 := by
  have hres := accept_ret c _ ha
  have g1 := spine_sound c v_FileHeader_ValidateWith [] (Or.inl hres) (.ne (.fld "recordSize") (.str "094")) (by decide +kernel)
  have g2 := spine_sound c v_FileHeader_ValidateWith [] (Or.inl hres) (.ne (.fld "blockingFactor") (.str "10")) (by decide +kernel)
  have g3 := spine_sound c v_FileHeader_ValidateWith [] (Or.inl hres) (.ne (.fld "formatCode") (.str "1")) (by decide +kernel)
  have g4 := spine_sound c v_FileHeader_ValidateWith [] (Or.inl hres)
    (.ne (.call1 "len" (.fld "FileIDModifier")) (.int 1)) (by decide +kernel)
  simp [eval, hroot, joinPath, h1, h2, h3, h4, cmpVals, builtin1] at g1 g2 g3 g4
  exact ⟨g1, g2, g3, by exact_mod_cast g4⟩

/-! ### the hypotheses are satisfiable, and the flags matter (non-vacuity) -/

def sampleEntry (check : String) : Ctx where
  fields := [("TransactionCode", .int 22), ("RDFIIdentification", .str "23138010".toList), ("CheckDigit", .str check.toList),
    ("DFIAccountNumber", .str "12345678".toList), ("Amount", .int 100000), ("IdentificationNumber", .str "".toList),
    ("IndividualName", .str "Receiver Name".toList), ("DiscretionaryData", .str "".toList),
    ("AddendaRecordIndicator", .int 0), ("TraceNumber", .str "121042880000001".toList), ("Category", .str "Forward".toList)]
  recvFlags := []
  paramFlags := []
  ext := []

example : run (sampleEntry "4") v_EntryDetail_Validate = .accept := by decide +kernel
example : run (sampleEntry "5") v_EntryDetail_Validate = .reject "RDFIIdentification" := by decide +kernel
example : run { sampleEntry "5" with recvFlags := ["AllowInvalidCheckDigit"] } v_EntryDetail_Validate = .accept := by
  decide +kernel
example : CtxLe (sampleEntry "5") { sampleEntry "5" with recvFlags := ["AllowInvalidCheckDigit"] } := by
  refine ⟨rfl, rfl, rfl, fun src n hn => ?_, fun src n h => ?_⟩
  · by_cases hn' : n = "AllowInvalidCheckDigit"
    · subst hn'; exact absurd hn (by decide)
    · simp [hasFlag, sampleEntry, hn']
  · simp [hasFlag, sampleEntry] at h

end Ach.Props.Validators
